import I18n.Lemmas.PoCatalog
import I18n.Lemmas.PoFlags
/-! Comment lines of an entry: what polib's loop does with them. -/
namespace I18n.Lemmas.PoComments
open I18n I18n.Po I18n.Spec.PoSpelling I18n.Lemmas.PoKit I18n.Lemmas.PoLines I18n.Lemmas.PoFsm I18n.Lemmas.PoCatalog
open I18n.Generated.PolibFsm (St Sym Handler)

theorem join_eq (acc t : Text) : (if (acc != []) = true then acc ++ ['\n'] else acc) ++ t = joinComment acc t := by
  unfold joinComment
  cases acc <;> simp

theorem ready_flush {s : PState} {es : List Entry} {c : Entry} (hr : Ready s es c) (n : Nat) (o : Bool) (t : Option Text) :
    ∃ ln, flushIfDone n { s with entryObsolete := o, lastTok := t } =
      { entries := es, header := s.header, cur := { c with linenum := ln }, state := s.state, msgstrIndex := s.msgstrIndex,
        entryObsolete := o, lastTok := t } := by
  obtain ⟨h1, h2, h3, h4, ln, h5⟩ := hr n
  refine ⟨ln, ?_⟩
  rw [flushIfDone_eo]
  cases hf : flushIfDone n s
  simp_all

section
variable (E : Codec) (env : Env) (hsp : env.isSpace = pyIsSpace) (enc : Bytes) (hE : CodecOk env enc E)
include hsp

/-- `# text` -/
theorem tc_step (text rpad : Text) (ht : endsNonSpace text) (hr : allSpace rpad) (n : Nat) (s : PState) (es : List Entry) (c : Entry)
    (hrdy : Ready s es c) (htr : transition .tc s.state = some .tc) :
    ∃ s1 ln, stepLine env enc n ('#' :: ((if text = [] then [] else ' ' :: text) ++ rpad)) s = .ok s1 ∧
      Same s1 (mk es s.header { c with tcomment := joinComment c.tcomment text, linenum := ln } .tc s.msgstrIndex) := by
  obtain ⟨ln, hfl⟩ := ready_flush hrdy n false (some ['#'])
  let core : Text := '#' :: (if text = [] then [] else ' ' :: text)
  have hcore_last : LastNot pyIsSpace core := by
    by_cases h : text = []
    · simp only [core, h, if_true]; intro c e; simp at e; rw [← e]; decide
    · simp only [core, h, if_false]
      have : '#' :: ' ' :: text = ['#', ' '] ++ text := by simp
      rw [this]; exact lastNot_append _ _ h ht
  have hsplit : ∃ tr, splitWs pyIsSpace 2 core = ['#'] :: tr := by
    by_cases h : text = []
    · simp only [core, h, if_true]; exact ⟨_, splitWs_tok (p := pyIsSpace) 1 ['#'] [] (by simp) (by simp; decide) (by simp)⟩
    · simp only [core, h, if_false]
      exact ⟨_, splitWs_tok (p := pyIsSpace) 1 ['#'] (' ' :: text) (by simp) (by simp; decide)
        (by intro c r e; simp at e; rw [← e.1]; decide)⟩
  obtain ⟨tr, hsplit⟩ := hsplit
  have hstep := stepLine_plain env hsp enc n [] core rpad (by simp) hr (by simp [core])
    (by intro c r e; simp [core] at e; rw [← e.1]; decide) hcore_last
    (by intro c r e; simp [core] at e; rw [← e.1]; decide) ['#'] tr hsplit (by decide) (by decide) s
  have hline : '#' :: ((if text = [] then [] else ' ' :: text) ++ rpad) = [] ++ core ++ rpad := by simp [core]
  have hls : lstripHash core = (if text = [] then [] else ' ' :: text) := by
    by_cases h : text = []
    · simp [core, h, lstripHash]
    · simp [core, h, lstripHash, List.dropWhile]
  have hh : handle env enc n .tc core { s with entryObsolete := false, lastTok := some ['#'] } =
      some ({ entries := es, header := s.header, cur := { c with tcomment := joinComment c.tcomment text, linenum := ln },
              state := s.state, msgstrIndex := s.msgstrIndex, entryObsolete := false, lastTok := some ['#'] }, true) := by
    simp only [handle, hfl, hls, join_eq]
    by_cases h : text = []
    · simp [h]
    · simp [h]
  refine ⟨{ entries := es, header := s.header, cur := { c with tcomment := joinComment c.tcomment text, linenum := ln },
              state := .tc, msgstrIndex := s.msgstrIndex, entryObsolete := false, lastTok := some ['#'] }, ln, ?_, ?_⟩
  · rw [hline, hstep]
    have hd : dispatch env enc n core ['#'] tr { s with entryObsolete := false } =
        process env enc n .tc core { s with entryObsolete := false, lastTok := some ['#'] } := by
      have h7 : (core.take 7 == ['m', 's', 'g', 's', 't', 'r', '[']) = false := by
        by_cases h : text = [] <;> simp [core, h]
      have h1 : (core.take 1 == ['"']) = false := by simp [core]
      simp only [dispatch, h7, h1]
      simp [lookupKw, I18n.Generated.PolibFsm.keywords]
    rw [hd, process_of env enc n .tc .tc core { s with entryObsolete := false, lastTok := some ['#'] } _ true htr hh]
    rfl
  · exact ⟨rfl, rfl, rfl, rfl, rfl⟩

omit hsp in
theorem last_mem (body : Text) (hne : body ≠ []) : ∃ c, body.getLast? = some c ∧ c ∈ body := by
  refine ⟨body.getLast hne, List.getLast?_eq_some_getLast hne, List.getLast_mem hne⟩

/-- `#.` / `#,` + one blank + a body that does not end in white space: up to `process` -/
theorem hashk_step (k : Char) (sym : Sym) (hk : (k = '.' ∧ sym = .gc) ∨ (k = ',' ∧ sym = .fl) ∨ (k = ':' ∧ sym = .oc)) (ws : Char) (hws : blankChar ws)
    (body rpad : Text) (hne : body ≠ []) (hlast : endsNonSpace body) (hr : allSpace rpad) (n : Nat) (s : PState) :
    stepLine env enc n ('#' :: k :: ws :: (body ++ rpad)) s =
      process env enc n sym ('#' :: k :: ws :: body) { s with entryObsolete := false, lastTok := some ['#', k] } := by
  have hksp : pyIsSpace k = false := by rcases hk with ⟨rfl, _⟩ | ⟨rfl, _⟩ | ⟨rfl, _⟩ <;> decide
  have hwsp : pyIsSpace ws = true := by rcases hws with rfl | rfl <;> decide
  obtain ⟨cl, hcl, hclm⟩ := last_mem body hne
  have hsplit : splitWs pyIsSpace 2 ('#' :: k :: ws :: body) = ['#', k] :: splitWs pyIsSpace 1 (ws :: body) := by
    have := splitWs_tok (p := pyIsSpace) 1 ['#', k] (ws :: body) (by simp)
      (by intro c hc; simp at hc; rcases hc with rfl | rfl; decide; exact hksp) (by intro c r e; simp at e; rw [← e.1]; exact hwsp)
    simpa using this
  have htr : splitWs pyIsSpace 1 (ws :: body) ≠ [] := splitWs_ne_nil 1 _ cl (by simp [hclm]) (hlast cl hcl)
  obtain ⟨t1, tr, htrc⟩ := List.exists_cons_of_ne_nil htr
  have hcl' : LastNot pyIsSpace ('#' :: k :: ws :: body) := by
    have : '#' :: k :: ws :: body = ['#', k, ws] ++ body := by simp
    rw [this]; exact lastNot_append _ _ hne hlast
  have hstep := stepLine_plain env hsp enc n [] ('#' :: k :: ws :: body) rpad (by simp) hr (by simp)
    (by intro c r e; simp at e; rw [← e.1]; decide) hcl'
    (by intro c r e; simp at e; rw [← e.1]; decide) ['#', k] (t1 :: tr) (by rw [hsplit, htrc])
    (by rcases hk with ⟨rfl, _⟩ | ⟨rfl, _⟩ | ⟨rfl, _⟩ <;> decide) (by rcases hk with ⟨rfl, _⟩ | ⟨rfl, _⟩ | ⟨rfl, _⟩ <;> decide) s
  have hline : '#' :: k :: ws :: (body ++ rpad) = [] ++ ('#' :: k :: ws :: body) ++ rpad := by simp
  rw [hline, hstep]
  rcases hk with ⟨rfl, rfl⟩ | ⟨rfl, rfl⟩ | ⟨rfl, rfl⟩ <;> simp [dispatch, lookupKw, I18n.Generated.PolibFsm.keywords, startsWith]

/-- `#. text` -/
theorem gc_step (ws : Char) (hws : blankChar ws) (text rpad : Text) (hne : text ≠ []) (ht : endsNonSpace text) (hr : allSpace rpad)
    (n : Nat) (s : PState) (es : List Entry) (c : Entry) (hrdy : Ready s es c) (htr : transition .gc s.state = some .gc) :
    ∃ s1 ln, stepLine env enc n ('#' :: '.' :: ws :: (text ++ rpad)) s = .ok s1 ∧
      Same s1 (mk es s.header { c with comment := joinComment c.comment text, linenum := ln } .gc s.msgstrIndex) := by
  obtain ⟨ln, hfl⟩ := ready_flush hrdy n false (some ['#', '.'])
  have hh : handle env enc n .gc ('#' :: '.' :: ws :: text) { s with entryObsolete := false, lastTok := some ['#', '.'] } =
      some ({ entries := es, header := s.header, cur := { c with comment := joinComment c.comment text, linenum := ln },
              state := s.state, msgstrIndex := s.msgstrIndex, entryObsolete := false, lastTok := some ['#', '.'] }, true) := by
    simp only [handle, hfl, join_eq, List.drop_succ_cons, List.drop_zero]
  refine ⟨{ entries := es, header := s.header, cur := { c with comment := joinComment c.comment text, linenum := ln },
              state := .gc, msgstrIndex := s.msgstrIndex, entryObsolete := false, lastTok := some ['#', '.'] }, ln, ?_, ⟨rfl, rfl, rfl, rfl, rfl⟩⟩
  rw [hashk_step env hsp enc '.' .gc (Or.inl ⟨rfl, rfl⟩) ws hws text rpad hne ht hr n s,
    process_of env enc n .gc .gc _ { s with entryObsolete := false, lastTok := some ['#', '.'] } _ true htr hh]
  rfl

/-- `#, a, b` -/
theorem fl_step (ws : Char) (hws : blankChar ws) (ps : List FlagPiece) (rpad : Text) (hps : ps ≠ [])
    (hv : ∀ x ∈ ps, x.Valid pyIsSpace) (hne : flagBody ps ≠ []) (ht : endsNonSpace (flagBody ps)) (hr : allSpace rpad)
    (n : Nat) (s : PState) (es : List Entry) (c : Entry) (hrdy : Ready s es c) (htr : transition .fl s.state = some .fl)
    (hold : ∀ f ∈ c.flags, FlagItem pyIsSpace f) :
    ∃ s1 ln, stepLine env enc n ('#' :: ',' :: ws :: (flagBody ps ++ rpad)) s = .ok s1 ∧
      Same s1 (mk es s.header { c with flags := c.flags ++ ps.map FlagPiece.item, linenum := ln } .fl s.msgstrIndex) := by
  obtain ⟨ln, hfl⟩ := ready_flush hrdy n false (some ['#', ','])
  have h1 := Lemmas.PoFlags.split_strip (sp := pyIsSpace) (by decide) ps hps hv
  have hsub : ∀ ch, isFlagSpace ch = true → pyIsSpace ch = true := by
    have h : ∀ n ∈ I18n.Generated.PolibFsm.flagStripSet, inRanges I18n.Generated.PolibFsm.spaceRanges n = true := by decide
    intro ch hc
    exact h ch.toNat (by simpa [isFlagSpace] using hc)
  have h2 := Lemmas.PoFlags.setFlags_id (sp := pyIsSpace) hsub (c.flags ++ ps.map FlagPiece.item) (by
    intro f hf
    simp only [List.mem_append, List.mem_map] at hf
    rcases hf with hf | ⟨x, hx, rfl⟩
    · exact hold f hf
    · exact (hv x hx).1)
  have hh : handle env enc n .fl ('#' :: ',' :: ws :: flagBody ps) { s with entryObsolete := false, lastTok := some ['#', ','] } =
      some ({ entries := es, header := s.header, cur := { c with flags := c.flags ++ ps.map FlagPiece.item, linenum := ln },
              state := s.state, msgstrIndex := s.msgstrIndex, entryObsolete := false, lastTok := some ['#', ','] }, true) := by
    simp only [handle, hfl, List.drop_succ_cons, List.drop_zero, hsp, h1, h2]
  refine ⟨{ entries := es, header := s.header, cur := { c with flags := c.flags ++ ps.map FlagPiece.item, linenum := ln },
              state := .fl, msgstrIndex := s.msgstrIndex, entryObsolete := false, lastTok := some ['#', ','] }, ln, ?_, ⟨rfl, rfl, rfl, rfl, rfl⟩⟩
  rw [hashk_step env hsp enc ',' .fl (Or.inr (Or.inl ⟨rfl, rfl⟩)) ws hws (flagBody ps) rpad hne ht hr n s,
    process_of env enc n .fl .fl _ { s with entryObsolete := false, lastTok := some ['#', ','] } _ true htr hh]
  rfl

/-! ### `#:` lines -/

omit hsp in
theorem digit_facts : ∀ d : Fin 10, pyIsDigit (digitChar d.val) = true ∧ digitChar d.val ≠ ':' ∧ pyIsSpace (digitChar d.val) = false := by decide

omit hsp in
theorem rsplit1_colon (file ds : Text) (hds : ':' ∉ ds) : rsplit1 ':' (file ++ ':' :: ds) = some (file, ds) := by
  have hrev : (file ++ ':' :: ds).reverse = ds.reverse ++ ':' :: file.reverse := by simp
  have htw : ((file ++ ':' :: ds).reverse.takeWhile fun c => c != ':') = ds.reverse := by
    rw [hrev]
    have := takeWhile_tok (p := fun c => c == ':') ds.reverse (':' :: file.reverse)
      (by intro c hc; simp at hc; simp; intro e; exact hds (e ▸ hc)) (by intro c r e; simp at e; simp [← e.1])
    have hfun : (fun c : Char => c != ':') = (fun c => !(c == ':')) := rfl
    rw [hfun]; exact this.1
  unfold rsplit1
  simp only [htw, List.reverse_reverse]
  have hlen : ¬ ds.length = (file ++ ':' :: ds).length := by simp; omega
  rw [if_neg hlen]
  have : (file ++ ':' :: ds).length - ds.length - 1 = file.length := by simp; omega
  rw [this]; simp

omit hsp in
theorem rsplit1_none (name : Text) (h : ':' ∉ name) : rsplit1 ':' name = none := by
  have htw : (name.reverse.takeWhile fun c => c != ':') = name.reverse := by
    have := takeWhile_tok (p := fun c => c == ':') name.reverse []
      (by intro c hc; simp at hc; simp; intro e; exact h (e ▸ hc)) (by intro c r e; simp at e)
    have hfun : (fun c : Char => c != ':') = (fun c => !(c == ':')) := rfl
    rw [hfun]; simpa using this.1
  unfold rsplit1
  simp [htw]

omit hsp in
theorem occurrence_item (hdig : env.isDigit = pyIsDigit) (r : RefItem) (hr : r.Valid) : occurrence env r.token = r.pair := by
  cases r with
  | withLine file line =>
    have hds : ':' ∉ line.map fun d => digitChar d.val := by
      intro hm; simp only [List.mem_map] at hm; obtain ⟨d, _, hd⟩ := hm; exact (digit_facts d).2.1 hd
    have hall : allIn pyIsDigit (line.map fun d => digitChar d.val) = true := by
      have hne : (line.map fun d => digitChar d.val) ≠ [] := by simpa using hr.1
      simp only [allIn, Bool.and_eq_true, Bool.not_eq_true', List.all_eq_true, List.mem_map]
      refine ⟨by cases h : (line.map fun d => digitChar d.val) <;> simp_all, ?_⟩
      rintro c ⟨d, _, rfl⟩; exact (digit_facts d).1
    simp [occurrence, RefItem.token, RefItem.pair, rsplit1_colon file _ hds, hdig, hall]
  | noLine name => simp [occurrence, RefItem.token, RefItem.pair, rsplit1_none name hr.2.1]

omit hsp in
theorem token_facts (r : RefItem) (hr : r.Valid) : r.token ≠ [] ∧ ∀ c ∈ r.token, pyIsSpace c = false := by
  cases r with
  | withLine file line =>
    refine ⟨by simp [RefItem.token], ?_⟩
    intro c hc
    simp only [RefItem.token, List.mem_append, List.mem_cons, List.mem_map] at hc
    rcases hc with hc | rfl | ⟨d, _, rfl⟩
    · exact hr.2 c hc
    · decide
    · exact (digit_facts d).2.2
  | noLine name => exact ⟨hr.1, hr.2.2⟩

omit hsp in
theorem splitWs_refs (items : List (Text × RefItem)) (first : Bool) (hv : refsValid first items) (n : Nat) (hn : items.length ≤ n) :
    splitWs pyIsSpace n (refsBody items) = items.map fun x => x.2.token := by
  induction items generalizing first n with
  | nil => cases n <;> simp [refsBody, splitWs]
  | cons x rest ih =>
    obtain ⟨sep, r⟩ := x
    obtain ⟨hbl, hfirst, hr, hrest⟩ := hv
    obtain ⟨htne, htns⟩ := token_facts r hr
    cases n with
    | zero => simp at hn
    | succ m =>
      have hrest_head : ∀ c t, refsBody rest = c :: t → pyIsSpace c = true := by
        intro c t e
        cases rest with
        | nil => simp [refsBody] at e
        | cons y ys =>
          obtain ⟨sep', r'⟩ := y
          obtain ⟨hbl', hf', _, _⟩ := hrest
          obtain ⟨b, bs, hb⟩ := List.exists_cons_of_ne_nil (hf' rfl)
          rw [hb] at e
          simp [refsBody] at e
          rw [← e.1]; exact blank_space sep' hbl' b (by rw [hb]; simp)
      simp only [refsBody, List.append_assoc]
      rw [splitWs_pad (m + 1) sep _ (blank_space sep hbl), splitWs_tok m r.token (refsBody rest) htne htns hrest_head,
        ih false hrest m (by simpa using hn)]
      simp

omit hsp in
theorem refsBody_facts (items : List (Text × RefItem)) (first : Bool) (hne : items ≠ []) (hv : refsValid first items) :
    refsBody items ≠ [] ∧ endsNonSpace (refsBody items) := by
  induction items generalizing first with
  | nil => exact absurd rfl hne
  | cons x rest ih =>
    obtain ⟨sep, r⟩ := x
    obtain ⟨hbl, hfirst, hr, hrest⟩ := hv
    obtain ⟨htne, htns⟩ := token_facts r hr
    obtain ⟨a, as, ha⟩ := List.exists_cons_of_ne_nil htne
    refine ⟨by simp [refsBody, ha], ?_⟩
    cases rest with
    | nil =>
      simp only [refsBody, List.append_nil]
      intro c e
      rw [List.getLast?_append] at e
      obtain ⟨cl, hcl, hclm⟩ := last_mem r.token htne
      rw [hcl] at e; simp at e; rw [← e]; exact htns cl hclm
    | cons y ys =>
      obtain ⟨h1, h2⟩ := ih false (by simp) hrest
      rw [show refsBody ((sep, r) :: y :: ys) = (sep ++ r.token) ++ refsBody (y :: ys) from rfl]
      intro c e
      rw [List.getLast?_append] at e
      cases hb : (refsBody (y :: ys)).getLast? with
      | none => simp [List.getLast?_eq_none_iff] at hb; exact absurd hb h1
      | some cl => rw [hb] at e; simp at e; rw [← e]; exact h2 cl hb

omit hsp in
theorem refs_len (items : List (Text × RefItem)) (first : Bool) (hv : refsValid first items) : items.length ≤ (refsBody items).length := by
  induction items generalizing first with
  | nil => simp
  | cons x rest ih =>
    obtain ⟨sep, r⟩ := x
    obtain ⟨_, _, hr', hrest⟩ := hv
    have := List.length_pos_iff.mpr (token_facts r hr').1
    have h2 := ih false hrest
    simp only [refsBody, List.length_append, List.length_cons] at h2 ⊢
    omega

omit hsp in
theorem refs_occ (hdig : env.isDigit = pyIsDigit) (items : List (Text × RefItem)) (first : Bool) (hv : refsValid first items) :
    (items.map fun x => x.2.token).map (occurrence env) = items.map fun x => x.2.pair := by
  induction items generalizing first with
  | nil => rfl
  | cons x rest ih =>
    obtain ⟨sep, r⟩ := x
    obtain ⟨_, _, hr', hrest⟩ := hv
    simp only [List.map_cons, occurrence_item env hdig r hr', ih false hrest]

/-- `#: a.c:1 b.c:2` -/
theorem oc_step (hdig : env.isDigit = pyIsDigit) (ws : Char) (hws : blankChar ws) (items : List (Text × RefItem)) (rpad : Text)
    (hne : items ≠ []) (hv : refsValid true items) (hr : allSpace rpad)
    (n : Nat) (s : PState) (es : List Entry) (c : Entry) (hrdy : Ready s es c) (htr : transition .oc s.state = some .oc) :
    ∃ s1 ln, stepLine env enc n ('#' :: ':' :: ws :: (refsBody items ++ rpad)) s = .ok s1 ∧
      Same s1 (mk es s.header { c with occurrences := c.occurrences ++ items.map (fun x => x.2.pair), linenum := ln } .oc s.msgstrIndex) := by
  obtain ⟨ln, hfl⟩ := ready_flush hrdy n false (some ['#', ':'])
  obtain ⟨hb1, hb2⟩ := refsBody_facts items true hne hv
  have hsplit : splitAllWs pyIsSpace (refsBody items) = items.map fun x => x.2.token :=
    splitWs_refs items true hv _ (refs_len items true hv)
  have hocc := refs_occ env hdig items true hv
  have hh : handle env enc n .oc ('#' :: ':' :: ws :: refsBody items) { s with entryObsolete := false, lastTok := some ['#', ':'] } =
      some ({ entries := es, header := s.header,
              cur := { c with occurrences := c.occurrences ++ items.map (fun x => x.2.pair), linenum := ln },
              state := s.state, msgstrIndex := s.msgstrIndex, entryObsolete := false, lastTok := some ['#', ':'] }, true) := by
    simp only [handle, hfl, List.drop_succ_cons, List.drop_zero, hsp, hsplit, hocc]
  refine ⟨{ entries := es, header := s.header,
            cur := { c with occurrences := c.occurrences ++ items.map (fun x => x.2.pair), linenum := ln },
            state := .oc, msgstrIndex := s.msgstrIndex, entryObsolete := false, lastTok := some ['#', ':'] }, ln, ?_, ⟨rfl, rfl, rfl, rfl, rfl⟩⟩
  rw [hashk_step env hsp enc ':' .oc (Or.inr (Or.inr ⟨rfl, rfl⟩)) ws hws (refsBody items) rpad hb1 hb2 hr n s,
    process_of env enc n .oc .oc _ { s with entryObsolete := false, lastTok := some ['#', ':'] } _ true htr hh]
  rfl

include hE

/-- one `#| "…"` continuation line -/
theorem prev_cont_step (psep : Text) (hpsep : psep ≠ []) (hpbl : Blank psep) (f : Fld) (g : Seg) (hg : g.Valid E) (n : Nat) (s : PState)
    (hst : s.state = f.st) (v : Text) (hget : f.get s = some v) :
    ∃ s', stepLine env enc n (contLine (.previous psep) g) s = .ok s' ∧ Same s' (f.set s (v ++ text g.choices)) := by
  have hstep := step_prev_cont_line env hsp enc n psep hpsep hpbl g hg.2.2.1 hg.2.2.2 s
  have hu := Lemmas.PoUnescape.unescape_spelling hE g.choices hg.1 hg.2.1
  have hs0 : Same s { s with entryObsolete := false, lastTok := some ['#', '|'] } := same_of_set s _ _
  have hp := process_mc env enc n f g.choices (text g.choices) hu { s with entryObsolete := false, lastTok := some ['#', '|'] }
    hst v (by rw [← same_get hs0 f]; exact hget)
  exact ⟨_, hstep.trans hp, (same_set_fld hs0 f _).symm⟩

theorem prev_cont_block (psep : Text) (hpsep : psep ≠ []) (hpbl : Blank psep) (f : Fld) (more : List (Seg × List Noise))
    (hv : ∀ gn ∈ more, gn.1.Valid E ∧ ∀ z ∈ gn.2, z.Valid) (n : Nat) (s : PState)
    (hst : s.state = f.st) (v : Text) (hget : f.get s = some v) :
    ∃ s', parseLoop env enc n (contLines (.previous psep) more) s = .ok s' ∧
      Same s' (f.set s (v ++ more.flatMap fun gn => text gn.1.choices)) := by
  induction more generalizing n s v with
  | nil =>
    refine ⟨s, rfl, ?_⟩
    simp only [List.flatMap_nil, List.append_nil, fld_set_get f s v hget]
    exact Same.refl s
  | cons gn rest ih =>
    obtain ⟨g, zs⟩ := gn
    have hgv := hv (g, zs) (by simp)
    obtain ⟨s1, h1, hs1⟩ := prev_cont_step E env hsp enc hE psep hpsep hpbl f g hgv.1 (n + 1) s hst v hget
    obtain ⟨s2, h2, hs2⟩ := noise_loop env hsp enc zs hgv.2 (n + 1) s1
    have hs12 : Same s2 (f.set s (v ++ text g.choices)) := hs2.symm.trans hs1
    have hst2 : s2.state = f.st := by rw [hs12.2.2.2.1, fld_set_state]; exact hst
    have hget2 : f.get s2 = some (v ++ text g.choices) := by rw [same_get hs12 f, fld_get_set]
    obtain ⟨s3, h3, hs3⟩ := ih (fun x hx => hv x (by simp [hx])) (n + 1 + zs.length) s2 hst2 (v ++ text g.choices) hget2
    refine ⟨s3, ?_, ?_⟩
    · simp only [contLines, List.flatMap_cons, List.cons_append, parseLoop, h1]
      rw [parseLoop_append, h2]
      simpa [contLines] using h3
    · refine hs3.trans ?_
      have := same_set_fld hs12 f (v ++ text g.choices ++ rest.flatMap fun gn => text gn.1.choices)
      rw [fld_set_set] at this
      simpa [List.append_assoc] using this

def prevFld : PrevKind → Fld
  | .msgctxt => .pc
  | .msgid => .pm
  | .msgidPlural => .pp

def prevSym : PrevKind → Sym
  | .msgctxt => .pc
  | .msgid => .pm
  | .msgidPlural => .pp

def prevHandler : PrevKind → Handler
  | .msgctxt => .pc
  | .msgid => .pm
  | .msgidPlural => .pp

omit hsp hE in
theorem isPrevKw_kind (kind : PrevKind) : IsPrevKw kind.kw (prevSym kind) := by
  cases kind
  · exact isPrevKw_msgctxt
  · exact isPrevKw_msgid
  · exact isPrevKw_msgid_plural

/-- `#| msgid "…"` with its continuation lines -/
theorem prev_step (kind : PrevKind) (psep : Text) (hpsep : psep ≠ []) (hpbl : Blank psep) (x : StrSp) (hx : x.Valid E)
    (n : Nat) (s : PState) (es : List Entry) (c : Entry) (hrdy : Ready s es c)
    (htr : transition (prevSym kind) s.state = some (prevHandler kind)) :
    ∃ s' ln, parseLoop env enc n (x.lines (.previous psep) kind.kw) s = .ok s' ∧
      Same s' (mk es s.header { CommentSp.apply c (.previous kind psep x) with linenum := ln } (prevFld kind).st s.msgstrIndex) := by
  obtain ⟨ln, hfl⟩ := ready_flush hrdy (n + 1) false (some ['#', '|'])
  have hu := Lemmas.PoUnescape.unescape_spelling hE x.first.choices hx.2.2.1.1 hx.2.2.1.2.1
  have hstep := step_prev_kw_line env hsp enc (n + 1) psep hpsep hpbl kind.kw (prevSym kind) (isPrevKw_kind kind)
    x.sep hx.1 hx.2.1 x.first hx.2.2.1.2.2.1 hx.2.2.1.2.2.2 s
  let s0 : PState := { s with entryObsolete := false, lastTok := some ['#', '|'] }
  -- the state after the keyword line
  have hkw : ∃ s1, stepLine env enc (n + 1) (kwLine (.previous psep) kind.kw x.sep x.first) s = .ok s1 ∧
      Same s1 ((prevFld kind).set (mk es s.header { c with linenum := ln } (prevFld kind).st s.msgstrIndex) (text x.first.choices)) := by
    cases kind with
    | msgctxt =>
      have hh : handle env enc (n + 1) .pc (quoted x.first.choices) s0 =
          some ({ flushIfDone (n + 1) s0 with cur := { (flushIfDone (n + 1) s0).cur with previousMsgctxt := some (text x.first.choices) } }, true) := by
        simp only [handle, inner_quoted, hu, Option.map_some]
      refine ⟨_, hstep.trans (process_of env enc (n + 1) .pc .pc _ s0 _ true htr hh), ?_⟩
      simp only [s0, hfl]; exact ⟨rfl, rfl, rfl, rfl, rfl⟩
    | msgid =>
      have hh : handle env enc (n + 1) .pm (quoted x.first.choices) s0 =
          some ({ flushIfDone (n + 1) s0 with cur := { (flushIfDone (n + 1) s0).cur with previousMsgid := some (text x.first.choices) } }, true) := by
        simp only [handle, inner_quoted, hu, Option.map_some]
      refine ⟨_, hstep.trans (process_of env enc (n + 1) .pm .pm _ s0 _ true htr hh), ?_⟩
      simp only [s0, hfl]; exact ⟨rfl, rfl, rfl, rfl, rfl⟩
    | msgidPlural =>
      have hh : handle env enc (n + 1) .pp (quoted x.first.choices) s0 =
          some ({ flushIfDone (n + 1) s0 with cur := { (flushIfDone (n + 1) s0).cur with previousMsgidPlural := some (text x.first.choices) } }, true) := by
        simp only [handle, inner_quoted, hu, Option.map_some]
      refine ⟨_, hstep.trans (process_of env enc (n + 1) .pp .pp _ s0 _ true htr hh), ?_⟩
      simp only [s0, hfl]; exact ⟨rfl, rfl, rfl, rfl, rfl⟩
  obtain ⟨s1, h1, hs1⟩ := hkw
  have hst1 : s1.state = (prevFld kind).st := by rw [hs1.2.2.2.1]; cases kind <;> rfl
  have hget1 : (prevFld kind).get s1 = some (text x.first.choices) := by rw [same_get hs1]; cases kind <;> rfl
  obtain ⟨s2, h2, hs2⟩ := noise_loop env hsp enc x.firstNoise hx.2.2.2.1 (n + 1) s1
  have hst2 : s2.state = (prevFld kind).st := by rw [← hs2.2.2.2.1]; exact hst1
  have hget2 : (prevFld kind).get s2 = some (text x.first.choices) := by rw [← same_get hs2]; exact hget1
  obtain ⟨s3, h3, hs3⟩ := prev_cont_block E env hsp enc hE psep hpsep hpbl (prevFld kind) x.more hx.2.2.2.2
    (n + 1 + x.firstNoise.length) s2 hst2 _ hget2
  refine ⟨s3, ln, ?_, ?_⟩
  · simp only [StrSp.lines, parseLoop, h1]
    rw [parseLoop_append, h2]
    simpa using h3
  · refine hs3.trans ((same_set_fld hs2.symm _ _).trans ((same_set_fld hs1 _ _).trans ?_))
    rw [fld_set_set]
    cases kind <;> exact ⟨rfl, rfl, rfl, rfl, rfl⟩

omit hsp hE in
theorem flush_same {a b : PState} (h : Same a b) (n : Nat) : Same (flushIfDone n a) (flushIfDone n b) := by
  obtain ⟨h1, h2, h3, h4, h5⟩ := h
  unfold flushIfDone
  rw [h4]
  split
  · exact ⟨by simp [h1, h3], h2, rfl, rfl, h5⟩
  · exact ⟨h1, h2, h3, h4, h5⟩

omit hsp hE in
theorem ready_same {a b : PState} (h : Same a b) {es : List Entry} {c : Entry} (hr : Ready a es c) : Ready b es c := by
  intro n
  obtain ⟨r1, r2, r3, r4, ln, r5⟩ := hr n
  obtain ⟨f1, f2, f3, f4, f5⟩ := flush_same h n
  exact ⟨by rw [← f1]; exact r1, by rw [← f2, r2]; exact h.2.1, by rw [← f4, r3]; exact h.2.2.2.1,
    by rw [← f5, r4]; exact h.2.2.2.2, ln, by rw [← f3]; exact r5⟩

omit hsp hE in
theorem trans_all (st : St) : transition .gc st = some .gc ∧ transition .fl st = some .fl ∧
    transition .pc st = some .pc ∧ transition .pm st = some .pm ∧ transition .pp st = some .pp ∧ transition .oc st = some .oc := by
  cases st <;> exact ⟨rfl, rfl, rfl, rfl, rfl, rfl⟩

/-- what the message lines need from the state the comment lines leave -/
def MsgReady (st : St) : Prop := transition .ct st = some .ct ∧ transition .mi st = some .mi

/-- the comment lines of an entry -/
theorem comment_phase (hdig : env.isDigit = pyIsDigit) (cls : List CommentSp) (hv : ∀ cl ∈ cls, cl.Valid E) (n : Nat) (s : PState) (es : List Entry) (c : Entry)
    (hrdy : Ready s es c) (hmr : MsgReady s.state)
    (htc : transition .tc s.state = some .tc ∨ ∀ cl ∈ cls, cl.isTc = false)
    (hfl : ∀ f ∈ c.flags, FlagItem pyIsSpace f) :
    ∃ s', parseLoop env enc n (cls.flatMap CommentSp.lines) s = .ok s' ∧ Ready s' es (cls.foldl CommentSp.apply c) ∧
      s'.header = s.header ∧ MsgReady s'.state := by
  induction cls generalizing n s c with
  | nil => exact ⟨s, rfl, hrdy, rfl, hmr⟩
  | cons cl rest ih =>
    have hvr : ∀ x ∈ rest, x.Valid E := fun x hx => hv x (by simp [hx])
    -- after one real comment line: the induction hypothesis applies
    have next : ∀ (s1 : PState) (ln : Nat) (nst : St) (c1 : Entry),
        parseLoop env enc n cl.lines s = .ok s1 → Same s1 (mk es s.header { c1 with linenum := ln } nst s.msgstrIndex) →
        c1 = CommentSp.apply c cl → ¬ (nst = .ms ∨ nst = .mx) → MsgReady nst → transition .tc nst = some .tc →
        (∀ f ∈ c1.flags, FlagItem pyIsSpace f) →
        ∃ s', parseLoop env enc n ((cl :: rest).flatMap CommentSp.lines) s = .ok s' ∧
          Ready s' es ((cl :: rest).foldl CommentSp.apply c) ∧ s'.header = s.header ∧ MsgReady s'.state := by
      intro s1 ln nst c1 h1 hs1 hc1 hst hmr1 htc1 hfl1
      have hr0 := ready_of_same E env hsp enc hE hs1 hst
      have hr1 : Ready s1 es c1 := ready_congr (fun _ => rfl) hr0
      obtain ⟨s2, h2, r2, e2, m2⟩ := ih hvr (n + cl.lines.length) s1 c1 hr1 (by rw [hs1.2.2.2.1]; exact hmr1)
        (Or.inl (by rw [hs1.2.2.2.1]; exact htc1)) hfl1
      refine ⟨s2, ?_, by simpa [hc1] using r2, by rw [e2, hs1.2.1]; rfl, m2⟩
      simp only [List.flatMap_cons]
      rw [parseLoop_append, h1]
      exact h2
    have hall := trans_all s.state
    cases cl with
    | noise z =>
      obtain ⟨s1, h1, hs1⟩ := noise_step env hsp enc (n + 1) z (hv (.noise z) (by simp)) s
      obtain ⟨s2, h2, r2, e2, m2⟩ := ih hvr (n + 1) s1 c (ready_same hs1 hrdy) (by rw [← hs1.2.2.2.1]; exact hmr)
        (by
          rcases htc with h | h
          · exact Or.inl (by rw [← hs1.2.2.2.1]; exact h)
          · exact Or.inr (fun x hx => h x (by simp [hx]))) hfl
      refine ⟨s2, ?_, by simpa [CommentSp.apply] using r2, by rw [e2, hs1.2.1], m2⟩
      simp only [List.flatMap_cons, CommentSp.lines, List.cons_append, List.nil_append, parseLoop, h1]
      exact h2
    | tcomment text rpad =>
      have htc' : transition .tc s.state = some .tc := by
        rcases htc with h | h
        · exact h
        · have := h (.tcomment text rpad) (by simp); simp [CommentSp.isTc] at this
      obtain ⟨ht, hr⟩ := hv (.tcomment text rpad) (by simp)
      obtain ⟨s1, ln, h1, hs1⟩ := tc_step env hsp enc text rpad ht hr (n + 1) s es c hrdy htc'
      exact next s1 ln .tc _ (by simp [CommentSp.lines, parseLoop, h1]) hs1 rfl (by simp) ⟨rfl, rfl⟩ rfl hfl
    | extracted ws text rpad =>
      obtain ⟨hws, hne, ht, hr⟩ := hv (.extracted ws text rpad) (by simp)
      obtain ⟨s1, ln, h1, hs1⟩ := gc_step env hsp enc ws hws text rpad hne ht hr (n + 1) s es c hrdy hall.1
      exact next s1 ln .gc _ (by simp [CommentSp.lines, parseLoop, h1]) hs1 rfl (by simp) ⟨rfl, rfl⟩ rfl hfl
    | flags ws ps rpad =>
      obtain ⟨hws, hps, hpv, hne, ht, hr⟩ := hv (.flags ws ps rpad) (by simp)
      obtain ⟨s1, ln, h1, hs1⟩ := fl_step env hsp enc ws hws ps rpad hps hpv hne ht hr (n + 1) s es c hrdy hall.2.1 hfl
      exact next s1 ln .fl _ (by simp [CommentSp.lines, parseLoop, h1]) hs1 rfl (by simp) ⟨rfl, rfl⟩ rfl (by
        intro f hf
        simp only [CommentSp.apply, List.mem_append, List.mem_map] at hf
        rcases hf with hf | ⟨x, hx, rfl⟩
        · exact hfl f hf
        · exact (hpv x hx).1)
    | refs ws items rpad =>
      obtain ⟨hws, hne, hiv, hr⟩ := hv (.refs ws items rpad) (by simp)
      obtain ⟨s1, ln, h1, hs1⟩ := oc_step env hsp enc hdig ws hws items rpad hne hiv hr (n + 1) s es c hrdy hall.2.2.2.2.2
      exact next s1 ln .oc _ (by simp [CommentSp.lines, parseLoop, h1]) hs1 rfl (by simp) ⟨rfl, rfl⟩ rfl hfl
    | previous kind psep x =>
      obtain ⟨hpsep, hpbl, hx⟩ := hv (.previous kind psep x) (by simp)
      obtain ⟨s1, ln, h1, hs1⟩ := prev_step E env hsp enc hE kind psep hpsep hpbl x hx n s es c hrdy
        (by cases kind <;> simp [prevSym, prevHandler, hall.2.2.1, hall.2.2.2.1, hall.2.2.2.2.1])
      exact next s1 ln (prevFld kind).st _ (by simpa [CommentSp.lines] using h1) hs1 rfl (by cases kind <;> simp [prevFld, Fld.st])
        (by cases kind <;> exact ⟨rfl, rfl⟩) (by cases kind <;> rfl) (by cases kind <;> simpa [CommentSp.apply] using hfl)

omit hsp hE in
theorem apply_keeps (cls : List CommentSp) (c : Entry)
    (hc : c.msgctxt = none ∧ c.msgidPlural = none ∧ c.msgstr = none ∧ c.msgstrPlural = []) :
    (cls.foldl CommentSp.apply c).msgctxt = none ∧ (cls.foldl CommentSp.apply c).msgidPlural = none ∧
      (cls.foldl CommentSp.apply c).msgstr = none ∧ (cls.foldl CommentSp.apply c).msgstrPlural = [] := by
  induction cls generalizing c with
  | nil => exact hc
  | cons cl rest ih =>
    apply ih
    cases cl with
    | previous kind psep x => cases kind <;> exact hc
    | _ => exact hc

omit hsp hE in
theorem apply_linenum (cls : List CommentSp) (c : Entry) : (cls.foldl CommentSp.apply c).linenum = c.linenum := by
  induction cls generalizing c with
  | nil => rfl
  | cons cl rest ih =>
    simp only [List.foldl_cons]
    rw [ih]
    cases cl with
    | previous kind psep x => cases kind <;> rfl
    | _ => rfl

/-- entry after entry, comments included -/
theorem entries_loop (hdig : env.isDigit = pyIsDigit) (hdec : env.decimal = pyDecimal) (es : List EntrySp) (hv : ∀ e ∈ es, e.Valid E) (n : Nat) (s : PState)
    (hs : Done s ∨ Fresh s)
    (hfirst : Fresh s → ∀ e, es.head? = some e → ∀ cl ∈ e.comments, cl.isTc = false) :
    ∃ s', parseLoop env enc n (es.flatMap EntrySp.lines) s = .ok s' ∧
      (es ≠ [] → Done s' ∧ s'.header = s.header ∧
        (s'.entries ++ [s'.cur]).map content = (pending s).map content ++ es.map EntrySp.entry ∧
        (∀ e, es.getLast? = some e → e.msg.EndsReal → TokOk s')) := by
  induction es generalizing n s with
  | nil => exact ⟨s, rfl, by simp⟩
  | cons e rest ih =>
    obtain ⟨hr, ht1, ht2⟩ := ready_start s hs
    have hve := hv e (by simp)
    have htc : transition .tc s.state = some .tc ∨ ∀ cl ∈ e.comments, cl.isTc = false := by
      rcases hs with h | h
      · left; rcases h with h | h <;> rw [h] <;> rfl
      · right; exact hfirst h e rfl
    obtain ⟨s0, h0, r0, e0, m0⟩ := comment_phase E env hsp enc hE hdig e.comments hve.1 n s (pending s) {} hr ⟨ht1, ht2⟩ htc (by simp)
    obtain ⟨s1, ln, h1, e1, e2, e3, e4, e5⟩ := msg_phase E env hsp hdec enc hE e.msg hve.2
      (n + (e.comments.flatMap CommentSp.lines).length) s0 (pending s) _ r0 (apply_keeps e.comments {} ⟨rfl, rfl, rfl, rfl⟩) m0
    obtain ⟨s2, h2, hrest⟩ := ih (fun x hx => hv x (by simp [hx])) (n + e.lines.length) s1 (Or.inl e4)
      (by intro hf; exfalso; rcases hf.1 with h | h <;> rcases e4 with h' | h' <;> rw [h] at h' <;> cases h')
    refine ⟨s2, ?_, fun _ => ?_⟩
    · simp only [List.flatMap_cons, EntrySp.lines]
      rw [parseLoop_append, parseLoop_append, h0]
      simp only
      rw [h1]
      simp only [EntrySp.lines, List.length_append, Nat.add_assoc] at h2 ⊢
      exact h2
    · have hp1 : (pending s1).map content = (pending s).map content ++ [e.entry] := by
        rw [pending_done s1 e4, e1, e3]
        have := apply_linenum e.comments {}
        simp [content, EntrySp.entry, MsgSp.entry, this]
      cases rest with
      | nil =>
        have e' : s2 = s1 := parseLoop_nil_ok env enc _ s1 s2 (by simpa using h2)
        subst e'
        refine ⟨e4, by rw [e2, e0], ?_, ?_⟩
        · rw [← pending_done s2 e4, hp1]; simp
        · intro m' hm' hend; simp at hm'; subst hm'; exact e5 hend
      | cons y ys =>
        obtain ⟨d1, d2, d3, d4⟩ := hrest (by simp)
        refine ⟨d1, by rw [d2, e2, e0], ?_, ?_⟩
        · rw [d3, hp1]; simp
        · intro m' hm' hend
          exact d4 m' (by simpa [List.getLast?_cons_cons] using hm') hend

omit hE in
/-- a translator comment before anything else goes to the file header -/
theorem he_step (text rpad : Text) (ht : endsNonSpace text) (hr : allSpace rpad) (n : Nat) (s : PState) (hst : s.state = .st ∨ s.state = .he) :
    ∃ s1, stepLine env enc n ('#' :: ((if text = [] then [] else ' ' :: text) ++ rpad)) s = .ok s1 ∧
      Same s1 (mk s.entries (joinComment s.header text) s.cur .he s.msgstrIndex) := by
  let core : Text := '#' :: (if text = [] then [] else ' ' :: text)
  have hcore_last : LastNot pyIsSpace core := by
    by_cases h : text = []
    · simp only [core, h, if_true]; intro c e; simp at e; rw [← e]; decide
    · simp only [core, h, if_false]
      have : '#' :: ' ' :: text = ['#', ' '] ++ text := by simp
      rw [this]; exact lastNot_append _ _ h ht
  have hsplit : ∃ tr, splitWs pyIsSpace 2 core = ['#'] :: tr := by
    by_cases h : text = []
    · simp only [core, h, if_true]; exact ⟨_, splitWs_tok (p := pyIsSpace) 1 ['#'] [] (by simp) (by simp; decide) (by simp)⟩
    · simp only [core, h, if_false]
      exact ⟨_, splitWs_tok (p := pyIsSpace) 1 ['#'] (' ' :: text) (by simp) (by simp; decide)
        (by intro c r e; simp at e; rw [← e.1]; decide)⟩
  obtain ⟨tr, hsplit⟩ := hsplit
  have hstep := stepLine_plain env hsp enc n [] core rpad (by simp) hr (by simp [core])
    (by intro c r e; simp [core] at e; rw [← e.1]; decide) hcore_last
    (by intro c r e; simp [core] at e; rw [← e.1]; decide) ['#'] tr hsplit (by decide) (by decide) s
  have hline : '#' :: ((if text = [] then [] else ' ' :: text) ++ rpad) = [] ++ core ++ rpad := by simp [core]
  have hdrop : core.drop 2 = text := by
    by_cases h : text = [] <;> simp [core, h]
  have htr : transition .tc s.state = some .he := by rcases hst with h | h <;> rw [h] <;> rfl
  have hh : handle env enc n .he core { s with entryObsolete := false, lastTok := some ['#'] } =
      some ({ s with header := joinComment s.header text, entryObsolete := false, lastTok := some ['#'] }, true) := by
    simp only [handle, hdrop, join_eq]
  refine ⟨{ s with header := joinComment s.header text, state := .he, entryObsolete := false, lastTok := some ['#'] }, ?_, ⟨rfl, rfl, rfl, rfl, rfl⟩⟩
  rw [hline, hstep]
  have hd : dispatch env enc n core ['#'] tr { s with entryObsolete := false } =
      process env enc n .tc core { s with entryObsolete := false, lastTok := some ['#'] } := by
    have h7 : (core.take 7 == ['m', 's', 'g', 's', 't', 'r', '[']) = false := by
      by_cases h : text = [] <;> simp [core, h]
    have h1 : (core.take 1 == ['"']) = false := by simp [core]
    simp only [dispatch, h7, h1]
    simp [lookupKw, I18n.Generated.PolibFsm.keywords]
  rw [hd, process_of env enc n .tc .he core { s with entryObsolete := false, lastTok := some ['#'] } _ true htr hh]
  rfl

omit hE in
theorem header_loop (hs : List HeaderLine) (hv : ∀ h ∈ hs, h.Valid) (n : Nat) (s : PState) (hf : Fresh s) :
    ∃ s', parseLoop env enc n (hs.map HeaderLine.render) s = .ok s' ∧ Fresh s' ∧ s'.entries = s.entries ∧
      s'.header = (hs.map HeaderLine.text).foldl joinComment s.header := by
  induction hs generalizing n s with
  | nil => exact ⟨s, rfl, hf, rfl, rfl⟩
  | cons h rest ih =>
    obtain ⟨s1, h1, hs1⟩ := he_step env hsp enc h.text h.rpad (hv h (by simp)).1 (hv h (by simp)).2 (n + 1) s hf.1
    have hf1 : Fresh s1 := ⟨Or.inr hs1.2.2.2.1, by rw [hs1.2.2.1]; exact hf.2⟩
    obtain ⟨s2, h2, f2, e2, d2⟩ := ih (fun x hx => hv x (by simp [hx])) (n + 1) s1 hf1
    refine ⟨s2, ?_, f2, by rw [e2, hs1.1]; rfl, ?_⟩
    · simp only [List.map_cons, parseLoop, HeaderLine.render, h1]
      exact h2
    · rw [d2, hs1.2.1]; rfl

/-- **the catalog theorem at the level of polib's line loop** -/
theorem parse_catalog (hdig : env.isDigit = pyIsDigit) (hdec : env.decimal = pyDecimal) (cat : CatalogSp) (hv : cat.Valid E) :
    ∃ f, parseLines env enc cat.lines = .ok f ∧ f.header = cat.headerText ∧
      f.entries.map content = cat.entries.map EntrySp.entry := by
  obtain ⟨hA, hH, hB, hEs, hne, hfirst, hlast⟩ := hv
  obtain ⟨s0, h0, hs0⟩ := noise_loop env hsp enc cat.noiseA hA 0 {}
  have hf0 : Fresh s0 := ⟨Or.inl (by rw [← hs0.2.2.2.1]; rfl), by rw [← hs0.2.2.1]⟩
  obtain ⟨s1, h1, hf1, e1, d1⟩ := header_loop env hsp enc cat.header hH (0 + (cat.noiseA.map Noise.render).length) s0 hf0
  obtain ⟨s2, h2, hs2⟩ := noise_loop env hsp enc cat.noiseB hB
    (0 + (cat.noiseA.map Noise.render).length + (cat.header.map HeaderLine.render).length) s1
  have hf2 : Fresh s2 := ⟨by rw [← hs2.2.2.2.1]; exact hf1.1, by rw [← hs2.2.2.1]; exact hf1.2⟩
  obtain ⟨s3, h3, hrest⟩ := entries_loop E env hsp enc hE hdig hdec cat.entries hEs
    (0 + (cat.noiseA.map Noise.render).length + (cat.header.map HeaderLine.render).length + (cat.noiseB.map Noise.render).length)
    s2 (Or.inr hf2) (fun _ => hfirst)
  obtain ⟨d3a, d3b, d3c, d3d⟩ := hrest hne
  obtain ⟨e, he⟩ : ∃ e, cat.entries.getLast? = some e := by
    cases h : cat.entries.getLast? with
    | none => simp [List.getLast?_eq_none_iff] at h; exact absurd h hne
    | some e => exact ⟨e, rfl⟩
  have htok := d3d e he (hlast e he)
  refine ⟨finish s3, ?_, ?_, ?_⟩
  · simp only [parseLines, CatalogSp.lines]
    rw [parseLoop_append, h0]
    simp only
    rw [parseLoop_append, h1]
    simp only
    rw [parseLoop_append, h2]
    simp only
    rw [h3]
  · rw [finish_tokOk s3 htok]
    show s3.header = _
    rw [d3b, ← hs2.2.1, d1, ← hs0.2.1]
    rfl
  · rw [finish_tokOk s3 htok]
    show (s3.entries ++ [s3.cur]).map content = _
    have hp : pending s2 = [] := by
      have hn : ¬ (s2.state = .ms ∨ s2.state = .mx) := by rcases hf2.1 with h | h <;> simp [h]
      simp [pending, hn, ← hs2.1, e1, ← hs0.1]
    rw [d3c, hp]; simp

end

end I18n.Lemmas.PoComments
