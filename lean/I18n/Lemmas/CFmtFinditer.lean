import I18n.Lemmas.CFmtRe
/-!
# The `finditer` loop of `FormatString.__init__` yields the model's segmentation

`findFrom` (the engine's search loop over the live tree) produces, while the matches are contiguous, exactly the matches
`scanItem` reads; `decodeMatch` rebuilds the item from the group spans; `walk` (the loop with its two `Error` tests) returns
`CFmt.scan`'s item list and completeness flag.
-/
namespace I18n.CFmtRe
open I18n.Spec.Printf I18n.Spec.BraceRe I18n.ReKit
open I18n.CFmt hiding St

/-! ## `scanAll` iterates `scanItem` -/

theorem scanAll_succ (fuel : Nat) (cs : List Char) :
    scanAll (fuel + 1) cs =
      match scanItem cs with
      | none => ([], cs.isEmpty)
      | some (it, rest) => (it :: (scanAll fuel rest).1, (scanAll fuel rest).2) := by
  cases cs with
  | nil => rfl
  | cons c t =>
    simp only [scanAll, scanItem]
    by_cases hc : (c == '%') = true
    · simp only [hc, if_true]
      cases scanDirective t with
      | none => rfl
      | some p => rfl
    · simp only [hc, Bool.false_eq_true, if_false]

theorem scanItem_sound {cs : List Char} {it : Item} {rest : List Char} (h : scanItem cs = some (it, rest)) :
    cs = it.render ++ rest ∧ 0 < it.render.length := by
  cases cs with
  | nil => simp [scanItem] at h
  | cons c t =>
    simp only [scanItem] at h
    by_cases hc : (c == '%') = true
    · simp only [hc, if_true] at h
      cases hd : scanDirective t with
      | none => simp [hd] at h
      | some p =>
        obtain ⟨d, r⟩ := p
        simp only [hd, Option.some.injEq, Prod.mk.injEq] at h
        obtain ⟨rfl, rfl⟩ := h
        have := (scanDirective_sound hd).1
        simp only [Item.render, Directive.render, List.cons_append, List.length_cons]
        rw [← this, beq_iff_eq.1 hc]
        exact ⟨rfl, Nat.succ_pos _⟩
    · have hc' : (c != '%') = true := by simpa using hc
      simp only [hc, Bool.false_eq_true, if_false, Option.some.injEq, Prod.mk.injEq] at h
      obtain ⟨rfl, rfl⟩ := h
      obtain ⟨h1, _, _⟩ := spanP_sound (p := fun x => x != '%') (s := c :: t) (a := (spanP (fun x => x != '%') (c :: t)).1)
        (b := (spanP (fun x => x != '%') (c :: t)).2) rfl
      refine ⟨h1, ?_⟩
      simp [Item.render, spanP, hc']

theorem scanItem_none_head {c : Char} {t : List Char} (h : scanItem (c :: t) = none) : c = '%' := by
  simp only [scanItem] at h
  by_cases hc : (c == '%') = true
  · exact beq_iff_eq.1 hc
  · simp [hc] at h

theorem scanAll_fuel : ∀ (f1 f2 : Nat) (cs : List Char), cs.length ≤ f1 → cs.length ≤ f2 → scanAll f1 cs = scanAll f2 cs := by
  intro f1
  induction f1 with
  | zero =>
    intro f2 cs h1 _
    have : cs = [] := by cases cs <;> simp_all
    subst this; rw [scanAll_nil, scanAll_nil]
  | succ f1 ih =>
    intro f2 cs h1 h2
    cases f2 with
    | zero =>
      have : cs = [] := by cases cs <;> simp_all
      subst this; rw [scanAll_nil, scanAll_nil]
    | succ f2 =>
      rw [scanAll_succ, scanAll_succ]
      cases h : scanItem cs with
      | none => rfl
      | some p =>
        obtain ⟨it, rest⟩ := p
        obtain ⟨e, hl⟩ := scanItem_sound h
        have : rest.length < cs.length := by rw [e]; simp; omega
        simp only
        rw [ih f2 rest (by omega) (by omega)]

/-! ## the search loop

`r` is any parse tree whose first match at every position is what `scanItem` reads (`hr`; for the live tree:
`CFmtReLive.matchAt_live`). -/

/-- "the first match of `r` is the scanner's step" -/
def IsScanner (db : CharDB) (r : Re) : Prop :=
  ∀ (cs : List Char) (pos : Nat),
    matchAt db r cs pos = (scanItem cs).map (fun p => (⟨p.2, pos + p.1.render.length, itemCaps pos p.1⟩ : St))

theorem findFrom_eq (db : CharDB) {r : Re} (hr : IsScanner db r) (fuel : Nat) (cs : List Char) (pos : Nat) :
    findFrom db r (fuel + 1) cs pos =
      match scanItem cs with
      | some (it, rest) =>
        ⟨pos, ⟨rest, pos + it.render.length, itemCaps pos it⟩⟩ :: findFrom db r fuel rest (pos + it.render.length)
      | none =>
        match cs with
        | [] => []
        | _ :: t => findFrom db r fuel t (pos + 1) := by
  simp only [findFrom]
  rw [hr]
  cases h : scanItem cs with
  | none => rfl
  | some p =>
    obtain ⟨it, rest⟩ := p
    have := (scanItem_sound h).2
    simp only [Option.map_some]
    rw [if_pos (by omega)]

/-- the pattern cannot match the empty string -/
theorem match_nonempty (db : CharDB) {r : Re} (hr : IsScanner db r) {cs : List Char} {pos : Nat} {st : St}
    (h : matchAt db r cs pos = some st) : pos < st.pos := by
  rw [hr] at h
  cases hs : scanItem cs with
  | none => simp [hs] at h
  | some p =>
    obtain ⟨it, rest⟩ := p
    simp only [hs, Option.map_some, Option.some.injEq] at h
    subst h
    have := (scanItem_sound hs).2
    simp only; omega

theorem findFrom_start (db : CharDB) {r : Re} (hr : IsScanner db r) : ∀ (fuel : Nat) (cs : List Char) (pos : Nat),
    ∀ m ∈ findFrom db r fuel cs pos, pos ≤ m.start := by
  intro fuel
  induction fuel with
  | zero => intro cs pos m hm; simp [findFrom] at hm
  | succ fuel ih =>
    intro cs pos m hm
    rw [findFrom_eq db hr] at hm
    cases h : scanItem cs with
    | some p =>
      obtain ⟨it, rest⟩ := p
      simp only [h, List.mem_cons] at hm
      rcases hm with rfl | hm
      · exact Nat.le_refl _
      · exact Nat.le_trans (Nat.le_add_right _ _) (ih _ _ m hm)
    | none =>
      simp only [h] at hm
      cases cs with
      | nil => simp at hm
      | cons c t => exact Nat.le_trans (Nat.le_succ _) (ih _ _ m hm)

/-! ## what the loop body reads from a match -/

theorem slice_mid {s : List Char} {pos a b : Nat} {pre mid post : List Char}
    (h : s.drop pos = pre ++ (mid ++ post)) (ha : a = pos + pre.length) (hb : b = a + mid.length) : slice s a b = mid := by
  subst ha hb
  unfold slice
  rw [← List.drop_drop, h]
  simp

def lookup (caps : Caps) (g : Nat) : Option (Nat × Nat) := (caps.find? (·.1 == g)).map (·.2)

theorem span_eq_lookup (st : St) (g : Nat) : st.span g = lookup st.caps g := rfl

theorem lookup_append (l l' : Caps) (g : Nat) : lookup (l ++ l') g = (lookup l g).or (lookup l' g) := by
  simp only [lookup, List.find?_append]
  cases List.find? (fun x => x.1 == g) l <;> rfl

theorem lookup_cons (e : Nat × Nat × Nat) (l : Caps) (g : Nat) :
    lookup (e :: l) g = if e.1 = g then some e.2 else lookup l g := by
  simp only [lookup, List.find?_cons]
  by_cases h : e.1 = g
  · simp [h]
  · have : (e.1 == g) = false := by simpa using h
    simp [h, this]

theorem lookup_nil (g : Nat) : lookup [] g = none := rfl

theorem idxCaps_lookup (g pos : Nat) (idx : Option (List Char)) (g' : Nat) :
    lookup (idxCaps g pos idx) g' = if g = g' then idx.map (fun ds => (pos, pos + (ds.length + 1))) else none := by
  cases idx with
  | none => simp [idxCaps, lookup_nil]
  | some ds => simp [idxCaps, lookup_cons, lookup_nil]

theorem rstripDollar_digits {ds : List Char} (h : ∀ c ∈ ds, c.isDigit = true) : rstripDollar (ds ++ ['$']) = ds := by
  unfold rstripDollar
  simp only [List.reverse_append, List.reverse_cons, List.reverse_nil, List.nil_append, List.cons_append, List.dropWhile_cons,
    beq_self_eq_true, if_true]
  have : List.dropWhile (fun x => x == '$') ds.reverse = ds.reverse := by
    cases hr : ds.reverse with
    | nil => rfl
    | cons c t =>
      have hc : c ∈ ds := by
        have : c ∈ ds.reverse := by rw [hr]; exact List.mem_cons_self
        exact List.mem_reverse.1 this
      have : (c == '$') = false := digit_ne_dollar (h c hc)
      simp [this]
  rw [this, List.reverse_reverse]

theorem lenOfChars_chars (ln : Len) : lenOfChars ln.chars = some ln := by cases ln <;> rfl

theorem priLenOfChars_chars (l : PriLen) : priLenOfChars l.chars = some l := by
  cases l with
  | max => rfl
  | ptr => rfl
  | sized k b => cases k <;> cases b <;> rfl

/-- positions of the pieces of a directive whose `%` is at `pos` -/
structure Layout (s : List Char) (pos : Nat) (d : Directive) (rest : List Char) : Prop where
  drop : s.drop pos = '%' :: (renderIdx d.index ++ (d.flags ++ (d.width.render ++ (d.prec.render ++ (d.body.render ++ rest)))))
  wf : d.Wf

section decode
variable {s : List Char} {pos : Nat} {d : Directive} {rest : List Char} (L : Layout s pos d rest)

/-- the group table of a directive match -/
def gt (s : List Char) (pos : Nat) (d : Directive) (rest : List Char) (g : Nat) : Option (List Char) :=
  groupText s ⟨pos, ⟨rest, pos + (Item.dir d).render.length, itemCaps pos (.dir d)⟩⟩ g

theorem gt_eq (g : Nat) : gt s pos d rest g = (lookup (dirCaps pos d) g).map (fun p => slice s p.1 p.2) := rfl

theorem bodyCaps_other (p : Nat) (b : Body) (g : Nat) (h11 : 11 ≠ g) (h12 : 12 ≠ g) (h13 : 13 ≠ g) (h14 : 14 ≠ g) :
    lookup (bodyCaps p b) g = none := by
  cases b with
  | std l c => cases l <;> simp [bodyCaps, lookup_cons, lookup_nil, h11, h12]
  | pri c l => simp [bodyCaps, lookup_cons, lookup_nil, h13, h14]

theorem precCaps_other (p : Nat) (pr : Prec) (g : Nat) (h8 : 8 ≠ g) (h9 : 9 ≠ g) (h10 : 10 ≠ g) : lookup (precCaps p pr) g = none := by
  cases pr with
  | none => rfl
  | num ds => simp [precCaps, lookup_cons, lookup_nil, h8]
  | star idx => simp [precCaps, lookup_append, idxCaps_lookup, lookup_cons, lookup_nil, h9, h10]

theorem widthCaps_other (p : Nat) (w : Width) (g : Nat) (h5 : 5 ≠ g) (h6 : 6 ≠ g) (h7 : 7 ≠ g) : lookup (widthCaps p w) g = none := by
  cases w with
  | none => rfl
  | num ds => simp [widthCaps, lookup_cons, lookup_nil, h5]
  | star idx => simp [widthCaps, lookup_append, idxCaps_lookup, lookup_cons, lookup_nil, h6, h7]

theorem gt_1 : gt s pos d rest 1 = none := by
  simp [gt_eq, dirCaps, tailCaps, lookup_cons, lookup_append, bodyCaps_other, precCaps_other, widthCaps_other, idxCaps_lookup]

include L in
theorem gt_3 : (gt s pos d rest 3).map rstripDollar = d.index := by
  simp only [gt_eq, dirCaps, tailCaps, lookup_cons, lookup_append, Nat.reduceEqDiff, if_false,
    bodyCaps_other _ _ 3 (by decide) (by decide) (by decide) (by decide), precCaps_other _ _ 3 (by decide) (by decide) (by decide),
    widthCaps_other _ _ 3 (by decide) (by decide) (by decide), idxCaps_lookup, if_true, none_or']
  cases hi : d.index with
  | none => rfl
  | some ds =>
    have hw := L.wf.index
    have hd := L.drop
    simp only [hi, IdxWf, renderIdx] at hw hd
    simp only [Option.map_some]
    rw [slice_mid (pre := ['%']) (mid := ds ++ ['$']) (h := by simpa using hd) (by simp) (by simp)]
    rw [rstripDollar_digits hw.2]

include L in
theorem gt_4 : gt s pos d rest 4 = some d.flags := by
  simp only [gt_eq, dirCaps, tailCaps, lookup_cons, lookup_append, Nat.reduceEqDiff, if_false,
    bodyCaps_other _ _ 4 (by decide) (by decide) (by decide) (by decide), precCaps_other _ _ 4 (by decide) (by decide) (by decide),
    widthCaps_other _ _ 4 (by decide) (by decide) (by decide), if_true, none_or', Option.map_some]
  rw [slice_mid (pre := '%' :: renderIdx d.index) (mid := d.flags) (h := by simpa using L.drop) (by simp; omega) (by simp)]

theorem lk_width (g : Nat) (h2 : 2 ≠ g) (h4 : 4 ≠ g) (h3 : 3 ≠ g) (h8 : 8 ≠ g) (h9 : 9 ≠ g) (h10 : 10 ≠ g)
    (h11 : 11 ≠ g) (h12 : 12 ≠ g) (h13 : 13 ≠ g) (h14 : 14 ≠ g) :
    lookup (dirCaps pos d) g = lookup (widthCaps (pos + 1 + (renderIdx d.index).length + d.flags.length) d.width) g := by
  simp only [dirCaps, tailCaps, lookup_cons, lookup_append, h2, h4, h3, if_false, bodyCaps_other _ _ g h11 h12 h13 h14,
    precCaps_other _ _ g h8 h9 h10, idxCaps_lookup, none_or', or_none']

theorem lk_prec (g : Nat) (h2 : 2 ≠ g) (h11 : 11 ≠ g) (h12 : 12 ≠ g) (h13 : 13 ≠ g) (h14 : 14 ≠ g)
    (h4 : 4 ≠ g) (h3 : 3 ≠ g) (h5 : 5 ≠ g) (h6 : 6 ≠ g) (h7 : 7 ≠ g) :
    lookup (dirCaps pos d) g =
      lookup (precCaps (pos + 1 + (renderIdx d.index).length + d.flags.length + d.width.render.length) d.prec) g := by
  simp only [dirCaps, tailCaps, lookup_cons, lookup_append, h2, h4, h3, if_false, bodyCaps_other _ _ g h11 h12 h13 h14,
    widthCaps_other _ _ g h5 h6 h7, idxCaps_lookup, none_or', or_none']

theorem lk_body (g : Nat) (h2 : 2 ≠ g) (h4 : 4 ≠ g) (h3 : 3 ≠ g) (h5 : 5 ≠ g) (h6 : 6 ≠ g) (h7 : 7 ≠ g)
    (h8 : 8 ≠ g) (h9 : 9 ≠ g) (h10 : 10 ≠ g) :
    lookup (dirCaps pos d) g =
      lookup (bodyCaps (pos + 1 + (renderIdx d.index).length + d.flags.length + d.width.render.length + d.prec.render.length) d.body) g := by
  simp only [dirCaps, tailCaps, lookup_cons, lookup_append, h2, h4, h3, if_false, precCaps_other _ _ g h8 h9 h10,
    widthCaps_other _ _ g h5 h6 h7, idxCaps_lookup, or_none']

include L in
theorem decode_width : decodeWidth (gt s pos d rest 5) (gt s pos d rest 6) (gt s pos d rest 7) = d.width := by
  unfold decodeWidth
  have hd := L.drop
  have hw := L.wf.width
  simp only [gt_eq, lk_width (pos := pos) (d := d) 5 (by decide) (by decide) (by decide) (by decide) (by decide) (by decide) (by decide) (by decide) (by decide) (by decide),
    lk_width (pos := pos) (d := d) 6 (by decide) (by decide) (by decide) (by decide) (by decide) (by decide) (by decide) (by decide) (by decide) (by decide),
    lk_width (pos := pos) (d := d) 7 (by decide) (by decide) (by decide) (by decide) (by decide) (by decide) (by decide) (by decide) (by decide) (by decide)]
  cases hwd : d.width with
  | none => simp [widthCaps, lookup_nil]
  | num ds =>
    simp only [hwd, Width.render] at hd
    simp only [widthCaps, lookup_cons, if_true, Option.map_some]
    rw [slice_mid (pre := '%' :: (renderIdx d.index ++ d.flags)) (mid := ds) (h := by simpa using hd) (by simp; omega) (by simp)]
  | star idx =>
    simp only [hwd, Width.render, Width.Wf] at hd hw
    simp only [widthCaps, lookup_append, idxCaps_lookup, lookup_cons, lookup_nil, Nat.reduceEqDiff, if_false, if_true, none_or', or_none',
      Option.map_none, Option.map_some, Option.isSome_some]
    cases idx with
    | none => rfl
    | some ds =>
      have hw' : Numeral ds := hw
      have e : renderIdx (some ds) = ds ++ ['$'] := rfl
      rw [e] at hd
      simp only [Option.map_some]
      rw [slice_mid (pre := '%' :: (renderIdx d.index ++ (d.flags ++ ['*']))) (mid := ds ++ ['$']) (h := by simpa using hd) (by simp; omega) (by simp)]
      rw [rstripDollar_digits hw'.2]

include L in
theorem decode_prec : decodePrec (gt s pos d rest 8) (gt s pos d rest 9) (gt s pos d rest 10) = d.prec := by
  unfold decodePrec
  have hd := L.drop
  have hw := L.wf.prec
  simp only [gt_eq, lk_prec (pos := pos) (d := d) 8 (by decide) (by decide) (by decide) (by decide) (by decide) (by decide) (by decide) (by decide) (by decide) (by decide),
    lk_prec (pos := pos) (d := d) 9 (by decide) (by decide) (by decide) (by decide) (by decide) (by decide) (by decide) (by decide) (by decide) (by decide),
    lk_prec (pos := pos) (d := d) 10 (by decide) (by decide) (by decide) (by decide) (by decide) (by decide) (by decide) (by decide) (by decide) (by decide)]
  cases hpd : d.prec with
  | none => simp [precCaps, lookup_nil]
  | num ds =>
    simp only [hpd, Prec.render] at hd
    simp only [precCaps, lookup_cons, if_true, Option.map_some]
    rw [slice_mid (pre := '%' :: (renderIdx d.index ++ (d.flags ++ (d.width.render ++ ['.'])))) (mid := ds) (h := by simpa using hd) (by simp; omega) (by simp)]
  | star idx =>
    simp only [hpd, Prec.render, Prec.Wf] at hd hw
    simp only [precCaps, lookup_append, idxCaps_lookup, lookup_cons, lookup_nil, Nat.reduceEqDiff, if_false, if_true, none_or', or_none',
      Option.map_none, Option.map_some, Option.isSome_some]
    cases idx with
    | none => rfl
    | some ds =>
      have hw' : Numeral ds := hw
      have e : renderIdx (some ds) = ds ++ ['$'] := rfl
      rw [e] at hd
      simp only [Option.map_some]
      rw [slice_mid (pre := '%' :: (renderIdx d.index ++ (d.flags ++ (d.width.render ++ ['.', '*'])))) (mid := ds ++ ['$']) (h := by simpa using hd) (by simp; omega) (by simp)]
      rw [rstripDollar_digits hw'.2]

include L in
theorem decode_body : decodeBody (gt s pos d rest 11) (gt s pos d rest 12) (gt s pos d rest 13) (gt s pos d rest 14) = some d.body := by
  have hd := L.drop
  simp only [gt_eq,
    lk_body (pos := pos) (d := d) 11 (by decide) (by decide) (by decide) (by decide) (by decide) (by decide) (by decide) (by decide) (by decide),
    lk_body (pos := pos) (d := d) 12 (by decide) (by decide) (by decide) (by decide) (by decide) (by decide) (by decide) (by decide) (by decide),
    lk_body (pos := pos) (d := d) 13 (by decide) (by decide) (by decide) (by decide) (by decide) (by decide) (by decide) (by decide) (by decide),
    lk_body (pos := pos) (d := d) 14 (by decide) (by decide) (by decide) (by decide) (by decide) (by decide) (by decide) (by decide) (by decide)]
  cases hb : d.body with
  | std len c =>
    cases len with
    | none =>
      simp only [hb, Body.render, renderLen, List.nil_append] at hd
      simp only [bodyCaps, lookup_cons, lookup_nil, Nat.reduceEqDiff, if_false, if_true, Option.map_none, Option.map_some]
      rw [slice_mid (pre := '%' :: (renderIdx d.index ++ (d.flags ++ (d.width.render ++ d.prec.render)))) (mid := [c])
        (h := by simpa using hd) (by simp; omega) (by simp)]
      rfl
    | some ln =>
      simp only [hb, Body.render, renderLen] at hd
      simp only [bodyCaps, lookup_cons, lookup_nil, Nat.reduceEqDiff, if_false, if_true, Option.map_none, Option.map_some]
      rw [slice_mid (pre := '%' :: (renderIdx d.index ++ (d.flags ++ (d.width.render ++ d.prec.render)))) (mid := ln.chars)
        (h := by simpa using hd) (by simp; omega) (by simp)]
      rw [slice_mid (pre := '%' :: (renderIdx d.index ++ (d.flags ++ (d.width.render ++ (d.prec.render ++ ln.chars))))) (mid := [c])
        (h := by simpa using hd) (by simp; omega) (by simp)]
      simp [decodeBody, lenOfChars_chars]
  | pri c l =>
    simp only [hb, Body.render] at hd
    simp only [bodyCaps, lookup_cons, lookup_nil, Nat.reduceEqDiff, if_false, if_true, Option.map_none, Option.map_some]
    rw [slice_mid (pre := '%' :: (renderIdx d.index ++ (d.flags ++ (d.width.render ++ (d.prec.render ++ ['<', 'P', 'R', 'I']))))) (mid := [c])
      (h := by simpa using hd) (by simp; omega) (by simp)]
    rw [slice_mid (pre := '%' :: (renderIdx d.index ++ (d.flags ++ (d.width.render ++ (d.prec.render ++ ['<', 'P', 'R', 'I', c]))))) (mid := l.chars)
      (h := by simpa using hd) (by simp; omega) (by simp)]
    simp [decodeBody, priLenOfChars_chars]

include L in
theorem decodeDirective_ok :
    decodeDirective s ⟨pos, ⟨rest, pos + (Item.dir d).render.length, itemCaps pos (.dir d)⟩⟩ = some d := by
  have e : ∀ g, groupText s ⟨pos, ⟨rest, pos + (Item.dir d).render.length, itemCaps pos (.dir d)⟩⟩ g = gt s pos d rest g := fun _ => rfl
  unfold decodeDirective
  simp only [e, gt_3 L, gt_4 L, Option.getD_some, decode_width L, decode_prec L, decode_body L, Option.map_some]

include L in
theorem decodeMatch_dir :
    decodeMatch s ⟨pos, ⟨rest, pos + (Item.dir d).render.length, itemCaps pos (.dir d)⟩⟩ = some (.dir d) := by
  have e : ∀ g, groupText s ⟨pos, ⟨rest, pos + (Item.dir d).render.length, itemCaps pos (.dir d)⟩⟩ g = gt s pos d rest g := fun _ => rfl
  unfold decodeMatch
  rw [e, gt_1, decodeDirective_ok L]
  rfl

end decode

theorem decodeMatch_lit {s : List Char} {pos : Nat} {cs rest : List Char} (h : s.drop pos = cs ++ rest) :
    decodeMatch s ⟨pos, ⟨rest, pos + (Item.lit cs).render.length, itemCaps pos (.lit cs)⟩⟩ = some (.lit cs) := by
  unfold decodeMatch groupText
  simp only [span_eq_lookup, itemCaps, lookup_cons, if_true, Option.map_some]
  rw [slice_mid (pre := []) (mid := cs) (post := rest) (h := by simpa using h) (by simp) (by simp)]

/-! ## the loop -/

theorem scanItem_dir_wf {cs : List Char} {d : Directive} {rest : List Char} (h : scanItem cs = some (.dir d, rest)) : d.Wf := by
  cases cs with
  | nil => simp [scanItem] at h
  | cons c t =>
    simp only [scanItem] at h
    by_cases hc : (c == '%') = true
    · simp only [hc, if_true] at h
      cases hd : scanDirective t with
      | none => simp [hd] at h
      | some p =>
        obtain ⟨d', r⟩ := p
        simp only [hd, Option.some.injEq, Prod.mk.injEq, Item.dir.injEq] at h
        obtain ⟨rfl, rfl⟩ := h
        exact (scanDirective_sound hd).2
    · simp [hc] at h

theorem decodeMatch_item {s : List Char} {pos : Nat} {cs : List Char} {it : Item} {rest : List Char}
    (hs : s.drop pos = cs) (h : scanItem cs = some (it, rest)) :
    decodeMatch s ⟨pos, ⟨rest, pos + it.render.length, itemCaps pos it⟩⟩ = some it := by
  obtain ⟨e, _⟩ := scanItem_sound h
  cases it with
  | lit l => exact decodeMatch_lit (by rw [hs, e]; rfl)
  | dir d =>
    refine decodeMatch_dir ⟨?_, scanItem_dir_wf h⟩
    rw [hs, e]
    simp [Item.render, Directive.render, Directive.renderTail]

theorem walk_findFrom (db : CharDB) {r : Re} (hr : IsScanner db r) (s : List Char) : ∀ (fuel : Nat) (cs : List Char) (pos : Nat),
    cs.length < fuel → s.drop pos = cs → pos + cs.length = s.length →
    (walk s (findFrom db r fuel cs pos) pos).1 = (scanAll cs.length cs).1 ∧
    (walk s (findFrom db r fuel cs pos) pos).2.1 = (scanAll cs.length cs).2 ∧
    ((walk s (findFrom db r fuel cs pos) pos).2.1 = false →
      (s.drop (walk s (findFrom db r fuel cs pos) pos).2.2).head? = some '%') := by
  intro fuel
  induction fuel with
  | zero => intro cs pos h; exact absurd h (Nat.not_lt_zero _)
  | succ fuel ih =>
    intro cs pos hf hs hl
    rw [findFrom_eq db hr]
    cases h : scanItem cs with
    | some p =>
      obtain ⟨it, rest⟩ := p
      obtain ⟨e, hpos⟩ := scanItem_sound h
      have hlen : cs.length = rest.length + it.render.length := by rw [e]; simp; omega
      have hdrop : s.drop (pos + it.render.length) = rest := by
        rw [← List.drop_drop, hs, e]; simp
      obtain ⟨i1, i2, i3⟩ := ih rest (pos + it.render.length) (by omega) hdrop (by omega)
      have hcs : cs.length = (rest.length + it.render.length - 1) + 1 := by omega
      have hsa : scanAll cs.length cs = (it :: (scanAll rest.length rest).1, (scanAll rest.length rest).2) := by
        rw [hcs, scanAll_succ, h]
        simp only
        rw [scanAll_fuel (rest.length + it.render.length - 1) rest.length rest (by omega) (Nat.le_refl _)]
      simp only [walk, bne_self_eq_false, Bool.false_eq_true, if_false, decodeMatch_item hs h, hsa]
      exact ⟨by rw [i1], i2, i3⟩
    | none =>
      cases cs with
      | nil =>
        simp only [walk, List.length_nil, scanAll]
        have : pos = s.length := by simpa using hl
        simp [this]
      | cons c t =>
        have hc := scanItem_none_head h
        subst hc
        have hsa : scanAll ('%' :: t).length ('%' :: t) = ([], false) := by
          rw [List.length_cons, scanAll_succ, h]; rfl
        simp only [hsa]
        have hne : (pos == s.length) = false := by
          simp only [List.length_cons] at hl
          simp only [beq_eq_false_iff_ne]; omega
        cases hL : findFrom db r fuel t (pos + 1) with
        | nil => simp [walk, hne, hs]
        | cons m ms =>
          have hm := findFrom_start db hr fuel t (pos + 1) m (by rw [hL]; exact List.mem_cons_self)
          have : (m.start != pos) = true := by simp only [bne_iff_ne]; omega
          simp [walk, this, hs]

/-- `FormatString.__init__`'s loop over `_directive_re.finditer(s)` -/
theorem walk_finditer (db : CharDB) {r : Re} (hr : IsScanner db r) (s : List Char) :
    (walk s (finditer db r s) 0).1 = (scan s).1 ∧ (walk s (finditer db r s) 0).2.1 = (scan s).2 ∧
    ((walk s (finditer db r s) 0).2.1 = false → (s.drop (walk s (finditer db r s) 0).2.2).head? = some '%') :=
  walk_findFrom db hr s (s.length + 1) s 0 (Nat.lt_succ_self _) rfl (by simp)

end I18n.CFmtRe
