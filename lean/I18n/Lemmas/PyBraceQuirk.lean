import I18n.Lemmas.PyBraceFormat
/-
python-brace: the two typing gaps (`Spec.quirk`) are exactly that — a specification with one of them is refused by
`__format__` of `str`, `int` and `float`, so an accepted flat string with such a field cannot be formatted at all.
-/
namespace I18n.PyBrace
open I18n.BraceChars I18n.Spec.StrFormat

theorem scanSpec_nil : scanSpec [] = some ⟨none, none, none, false, false, none, false, none, none⟩ := by rfl

/-- the two typing gaps are exactly that: a specification with one of them is refused by `__format__` of `str`, `int` and `float` -/
theorem formatValue_quirk {cfg : Cfg} (hcfg : cfg.ssizeMax ≤ 2 ^ 31 - 1) {sp : List Char} {f : Spec} {tp : TySet}
    (hsp : '}' ∉ sp) (hscan : scanSpec sp = some f) (hchk : specCheck cfg f = .ok tp) (hq : f.quirk = true) (v : Val) :
    formatValue v sp ≠ .ok () := by
  obtain ⟨tp0, tp1, tp2, h0, h1, h2, h3, h4⟩ := specCheck_stages hchk
  have hk := tpType_known h0
  have hwb : digitsVal (wdigits f) ≤ PY_SSIZE_T_MAX := by
    rw [wdigits_val]
    cases hw : f.width with
    | none => simp [digitsVal, PY_SSIZE_T_MAX]
    | some w =>
      have := checkWidth_bound h3 w hw
      simp only [Option.getD_some, PY_SSIZE_T_MAX]; omega
  have hpb' : ∀ p, f.precision = some p → digitsVal p ≤ PY_SSIZE_T_MAX := by
    intro p hp
    rcases tpPrec_facts h4 with ⟨hn, _⟩ | ⟨p', hp', _, hb⟩
    · rw [hn] at hp; cases hp
    · rw [hp'] at hp; cases hp; simp only [PY_SSIZE_T_MAX]; omega
  have hsyn := fun da => parseSyntax_of_scan da hsp hscan hk hwb hpb'
  have hne : sp.isEmpty = false := by
    cases sp with
    | nil =>
      rw [scanSpec_nil] at hscan
      cases hscan
      simp [Spec.quirk] at hq
    | cons c r => rfl
  unfold formatValue
  simp only [hne, Bool.false_eq_true, if_false]
  simp only [Spec.quirk, Bool.or_eq_true, Bool.and_eq_true, beq_iff_eq] at hq
  rcases hq with ⟨hcomma, ht⟩ | ⟨ht, hflag⟩
  · -- a comma with b, c, o, x, X: refused while the specification is parsed, whatever the type of the value
    have herr : ∀ dt, finishSpec dt (rawOf '>' f) = .error .thousandsWithType ∧ finishSpec dt (rawOf '<' f) = .error .thousandsWithType := by
      intro dt
      rcases ht with (((ht | ht) | ht) | ht) | ht <;> simp [finishSpec, rawOf, ht, hcomma]
    cases v <;> simp [parseSpec, hsyn, (herr _).1, (herr _).2]
  · -- a sign or `#` with c
    have hnoprec : f.precision = none := by
      rcases tpType_facts h0 with ⟨h, _⟩ | ⟨h, _⟩ | ⟨⟨t, h, hts⟩, rfl⟩ | ⟨⟨t, h, hts⟩, _⟩ | ⟨h, _⟩
      · rw [ht] at h; cases h
      · rw [ht] at h; cases h
      · -- int only: a precision would have emptied the set
        have h1i : tp1.str = false ∧ tp1.float = false := by
          rcases tpFlags_facts h1 with ⟨_, rfl⟩ | ⟨_, rfl⟩ <;> simp [TySet.inter, TySet.numeric]
        have h2i : tp2.str = false ∧ tp2.float = false := by
          rcases tpAlign_facts h2 with ⟨_, rfl⟩ | ⟨_, rfl⟩ <;> simp [TySet.inter, TySet.numeric, h1i]
        rcases tpPrec_facts h4 with ⟨hn, _⟩ | ⟨p, hp, _, _⟩
        · exact hn
        · exfalso
          simp only [tpPrec, hp] at h4
          simp [TySet.inter, TySet.isEmpty, h2i] at h4
      · rw [ht] at h; cases h; rcases hts with h | h | h | h | h | h | h <;> cases h
      · rw [ht] at h; cases h
    by_cases hcomma : f.comma = true
    · have herr : ∀ dt, finishSpec dt (rawOf '>' f) = .error .thousandsWithType ∧ finishSpec dt (rawOf '<' f) = .error .thousandsWithType := by
        intro dt; simp [finishSpec, rawOf, ht, hcomma]
      cases v <;> simp [parseSpec, hsyn, (herr _).1, (herr _).2]
    · have hc : f.comma = false := by simpa using hcomma
      cases v with
      | str => simp [parseSpec, hsyn, finishSpec, rawOf, ht, hc]
      | float => simp [parseSpec, hsyn, finishSpec, rawOf, ht, hc, memC]
      | int n =>
        simp only [parseSpec, hsyn, finishSpec, rawOf, ht, hc, hnoprec]
        rcases hflag with ha | hs
        · cases hsg : f.sign <;> simp [memC, formatLong, ha]
        · cases hsg : f.sign with
          | none => simp [hsg] at hs
          | some s => simp [memC, formatLong]

/-- where a field of the trace comes from: a scanned field that `Field(...)` accepted -/
def Origin (cfg : Cfg) (f : Field) : Prop :=
  ∃ (rf : RawField) (st st' : State) (tp : TySet) (cs rest : List Char),
    f = cpField rf ∧ FieldShape cs rf rest ∧ fieldInit cfg st rf = .ok (st', tp)

theorem loop_fields (cfg : Cfg) :
    ∀ (fuel : Nat) (cs : List Char) (st : State) (items : List PreItem) (stF : State) (itemsF : List PreItem),
      loop cfg fuel cs st items = .ok (stF, itemsF) → ∃ fs, Trace cs fs ∧ ∀ f ∈ fs, Origin cfg f := by
  intro fuel
  induction fuel with
  | zero =>
    intro cs st items stF itemsF h
    cases cs with
    | nil => exact ⟨[], .nil, by simp⟩
    | cons c cs => simp [loop] at h
  | succ fuel ih =>
    intro cs st items stF itemsF h
    cases cs with
    | nil => exact ⟨[], .nil, by simp⟩
    | cons c cs =>
      simp only [loop] at h
      cases hlit : scanLiteral (c :: cs).length (c :: cs) with
      | mk t rest =>
        obtain ⟨hsplit, hlt⟩ := scanLiteral_spec _ _ _ _ hlit
        rw [hlit] at h
        cases t with
        | cons t0 ts =>
          simp only at h
          obtain ⟨fs, htr, ho⟩ := ih _ _ _ _ _ h
          exact ⟨fs, by rw [hsplit]; exact trace_literal hlt htr, ho⟩
        | nil =>
          simp only at h
          split at h
          · cases h
          · rename_i rf rest' hsf
            split at h
            · cases h
            · rename_i st' tp hfi
              have hshape := scanField_some hsf
              obtain ⟨fs, htr, ho⟩ := ih _ _ _ _ _ h
              obtain ⟨r0, hcs, ⟨c0, r1, rfl, hc0⟩, hpf⟩ := parseField_of_shape hshape (fieldInit_ok_conv hfi)
              refine ⟨cpField rf :: fs, by rw [hcs]; exact .field hc0 hpf htr, ?_⟩
              intro f hf
              simp only [List.mem_cons] at hf
              rcases hf with rfl | hf
              · exact ⟨rf, st, st', tp, _, _, rfl, hshape, hfi⟩
              · exact ho f hf

theorem renderField_fails {a : Args} {an : AutoNumber} {f : Field}
    (hbad : ∀ w, f.needsExpanding = false → formatValue w f.spec ≠ .ok ()) : ∀ an', renderField a an f ≠ .ok an' := by
  intro an'
  simp only [renderField]
  repeat' split
  all_goals (try (simp; done))
  all_goals (
    intro _
    refine hbad _ ?_ (by assumption)
    simp_all)

theorem renderField_ok_inv {a : Args} {an an' : AutoNumber} {f : Field} (h : renderField a an f = .ok an') :
    ∃ w, f.needsExpanding = false ∧ formatValue w f.spec = .ok () := by
  apply Classical.byContradiction
  intro hno
  exact renderField_fails (a := a) (an := an) (f := f) (fun w hne hfv => hno ⟨w, hne, hfv⟩) an' h

theorem renderAll_ok_inv {a : Args} : ∀ (fs : List Field) (an : AutoNumber), renderAll a an fs = .ok () →
    ∀ f ∈ fs, ∃ w, f.needsExpanding = false ∧ formatValue w f.spec = .ok () := by
  intro fs
  induction fs with
  | nil => intro an _ f hf; simp at hf
  | cons g fs ih =>
    intro an h f hf
    simp only [renderAll] at h
    split at h
    · cases h
    · rename_i an' hr
      simp only [List.mem_cons] at hf
      rcases hf with rfl | hf
      · exact renderField_ok_inv hr
      · exact ih an' h f hf

/-- a field with one of the two typing gaps makes `str.format` fail whatever the arguments -/
theorem origin_quirk_fails {cfg : Cfg} (hcfg : cfg.ssizeMax ≤ 2 ^ 31 - 1) {f : Field} (ho : Origin cfg f) (hq : ¬ NoQuirk f)
    (w : Val) (hne : f.needsExpanding = false) : formatValue w f.spec ≠ .ok () := by
  obtain ⟨rf, st, st', tp, cs, rest, rfl, hshape, hfi⟩ := ho
  obtain ⟨st1, _, _, hfmt, _, _⟩ := fieldInit_ok hfi
  have hex : ∃ sf, scanSpec (cpField rf).spec = some sf ∧ sf.quirk = true := by
    cases hsc : scanSpec (cpField rf).spec with
    | none => exact absurd (fun sf h => by rw [hsc] at h; cases h) hq
    | some sf =>
      cases hqq : sf.quirk with
      | true => exact ⟨sf, rfl, hqq⟩
      | false =>
        exfalso; apply hq
        intro sf' h'
        rw [hsc] at h'; cases h'; exact hqq
  obtain ⟨sf, hscan, hsq'⟩ := hex
  cases hf : rf.format with
  | none =>
    simp only [cpField, hf, Option.getD_none, List.drop_nil] at hscan
    rw [scanSpec_nil] at hscan
    cases hscan
    simp [Spec.quirk] at hsq'
  | some fm =>
    obtain ⟨t, rfl, hb⟩ := hshape.format fm hf
    have hnn : hasNested (':' :: t) = false := by simpa [cpField, hf, hasNested] using hne
    obtain ⟨_, hs⟩ := hfmt _ hf hnn
    have hno : t.contains '{' = false := by simpa [hasNested, List.contains_cons] using hnn
    have hcl := formatBody_no_close hb hno
    simp only [cpField, hf, Option.getD_some, List.drop_one, List.tail_cons] at hscan ⊢
    simp only [specTypes, hscan] at hs
    exact formatValue_quirk hcfg hcl hscan hs hsq' w

/-- the restriction of `flat_formats_partial` is exact: an accepted flat string with a field that has one of the two typing
    gaps cannot be formatted, whatever the arguments -/
theorem parseWith_quirk_rejected {cfg : Cfg} (hcfg : cfg.ssizeMax ≤ 2 ^ 31 - 1) (s : List Char) (r : Result)
    (h : parseWith cfg s = .ok r) (hq : ¬ QuirkFree s) (a : Args) : format s a ≠ .ok () := by
  simp only [parseWith] at h
  split at h
  · cases h
  · rename_i stF items hl
    obtain ⟨fs, htr, ho⟩ := loop_fields cfg _ _ _ _ _ _ hl
    obtain ⟨chunks, hmk, hfs⟩ := trace_markup htr
    rw [trace_format a htr]
    intro hok
    have hex : ∃ f, f ∈ fs ∧ ¬ NoQuirk f := by
      apply Classical.byContradiction
      intro hno
      apply hq
      intro chunks' hmk' f hf
      rw [hmk] at hmk'
      cases hmk'
      rw [hfs] at hf
      exact Classical.byContradiction (fun hn => hno ⟨f, hf, hn⟩)
    obtain ⟨f, hf, hnq⟩ := hex
    obtain ⟨w, hne, hfv⟩ := renderAll_ok_inv fs _ hok f hf
    exact origin_quirk_fails hcfg (ho f hf) hnq w hne hfv

end I18n.PyBrace
