import I18n.Lemmas.LRSound
/-! The LR driver over the dumped tables never ends in the model's `crash` outcome: no missing table row, no
    ill-shaped reduction, no popping of the bottom marker, no missing goto, no non-`Expr` result, and the turn budget
    `2 * length + 4` is never exhausted.  Hence `lrParse` is a total decision: `ok e` or `syntaxError`.

    * shape: every state has one accessing symbol, and from every state in which the tables reduce by `p`, every
      backward path of length `|rhs p|` spells `rhs p` and starts in a state with a goto on `lhs p` (`backOK`,
      checked by `decide` on the dump); a stack that is a path (`PathOK`) therefore carries symbols of the
      shape the action function expects;
    * budget: `2·|rest| + #tokens on the stack + [top state ≠ accept state]` decreases with every turn. -/
namespace I18n.PluralLR
open I18n I18n.PluralParse I18n.Spec

/-! ## grammar symbols -/

inductive Sym where
  | t (c : Nat)
  | nt (i : Nat)
  deriving DecidableEq, Repr

def kind : Val → Option Sym
  | .bottom => none
  | .tok t => some (.t (col (some t)))
  | .node _ => some (.nt 0)
  | .expr _ => some (.nt 1)

/-- the table entry for symbol `x` in state `s` -/
def trans (s : Nat) : Sym → Option Nat
  | .t c => match T.actionAt s c with
    | some (some t) => if t > 0 then some t.toNat else none
    | _ => none
  | .nt i => T.gotoAt s i

def allSyms : List Sym := (List.range 14).map .t ++ [.nt 0, .nt 1]

theorem trans_of_Trans {s s' : Nat} {v : Val} (h : Trans s v s') : ∃ x, kind v = some x ∧ trans s x = some s' := by
  cases v with
  | bottom => cases h
  | tok t =>
    obtain ⟨h1, h2⟩ := h
    refine ⟨_, rfl, ?_⟩
    have : (s' : Int) > 0 := by omega
    simp only [trans, h1, this, if_true]
    simp
  | node e => exact ⟨_, rfl, h⟩
  | expr e => exact ⟨_, rfl, h⟩

theorem mem_allSyms_of_trans {s s' : Nat} {x : Sym} (h : trans s x = some s') : x ∈ allSyms := by
  cases x with
  | t c =>
    have hc : c < 14 := by
      unfold trans at h
      cases ha : T.actionAt s c with
      | none => simp [ha] at h
      | some a => exact (actionAt_lt ha).2
    simp only [allSyms, List.mem_append, List.mem_map, List.mem_range]
    exact .inl ⟨c, hc, rfl⟩
  | nt i =>
    have hi : i < 2 := by
      unfold trans Tables.gotoAt at h
      have hs := gotoAt_lt (s := s) (nt := i) (x := s') h
      cases hr : T.goto[s]? with
      | none => simp [hr] at h
      | some row =>
        have hlen : ∀ s, s < 26 → ∀ row, T.goto[s]? = some row → row.length = 2 := by decide
        simp only [hr] at h
        cases hx : row[i]? with
        | none => simp [hx] at h
        | some y =>
          have := (List.getElem?_eq_some_iff.1 hx).1
          rw [hlen s hs row hr] at this
          exact this
    have : i = 0 ∨ i = 1 := by omega
    rcases this with rfl | rfl <;> simp [allSyms]

theorem trans_src_lt {s s' : Nat} {x : Sym} (h : trans s x = some s') : s < 26 := by
  cases x with
  | t c =>
    unfold trans at h
    cases ha : T.actionAt s c with
    | none => simp [ha] at h
    | some a => exact (actionAt_lt ha).1
  | nt i => exact gotoAt_lt h

/-- right-hand sides of the productions, as symbols (pinned to the dump below) -/
def rhsOf : Nat → List Sym
  | 0 => [.nt 1]
  | 1 => [.t 12]
  | 2 => [.t 9, .nt 0, .t 10]
  | 3 => [.t 8, .nt 0]
  | 4 => [.t 11]
  | 5 => [.nt 0, .t 6, .nt 0]
  | 6 => [.nt 0, .t 3, .nt 0]
  | 7 => [.nt 0, .t 5, .nt 0]
  | 8 => [.nt 0, .t 4, .nt 0]
  | 9 => [.nt 0, .t 0, .nt 0, .t 1, .nt 0]
  | 10 => [.nt 0, .t 7, .nt 0]
  | 11 => [.nt 0, .t 2, .nt 0]
  | 12 => [.nt 0]
  | _ => []

def symOfName (n : String) : Sym :=
  if n ∈ Generated.PluralLR.nonterminals then .nt (Generated.PluralLR.nonterminals.idxOf n)
  else .t (Generated.PluralLR.terminals.idxOf n)

theorem rhs_pin : Generated.PluralLR.productions.map (fun p => p.2.1.map symOfName) = (List.range 13).map rhsOf := by
  decide

/-- every backward path from `s` along the reversed right-hand side `xs` spells it and ends in a state with a goto
    on `lhs`; no state on the way (but the last) is the start state -/
def backOK : List Sym → Nat → Nat → Bool
  | [], s, lhs => (T.gotoAt s lhs).isSome
  | x :: xs, s, lhs =>
    s != 0 && (List.range 26).all fun s0 => allSyms.all fun y => !(trans s0 y == some s) || (y == x && backOK xs s0 lhs)

def lhsOf (p : Nat) : Nat := match T.prods[p]? with | some pr => pr.lhs | none => 0
def lenOf (p : Nat) : Nat := match T.prods[p]? with | some pr => pr.len | none => 0

def backChk (s c : Nat) : Bool :=
  match redAt s c with
  | some p => decide (1 ≤ p) && decide (p < 13) && backOK (rhsOf p).reverse s (lhsOf p) && decide (lenOf p = (rhsOf p).length)
  | none => true

/-- wherever the tables reduce, the stack below has the shape of the production -/
theorem tf_back : ∀ s, s < 26 → ∀ c, c < 14 → backChk s c = true := by decide

def rangeChk1 (s c : Nat) : Bool :=
  match T.actionAt s c with
  | some (some t) => decide (t > 0 → t.toNat < 26)
  | _ => true

def rangeChk2 (s i : Nat) : Bool :=
  match T.gotoAt s i with
  | some s' => decide (s' < 26 ∧ (i = 1 → s' = 6) ∧ (i = 0 → s' ≠ 6))
  | none => true

def endChk (s : Nat) : Bool :=
  match T.actionAt s 13 with
  | some (some t) => decide (¬ t > 0)
  | _ => true

/-- table entries stay inside the table; `$end` is never shifted; only `start` leads to the accept state -/
theorem tf_range1 : ∀ s, s < 26 → ∀ c, c < 14 → ∀ t, T.actionAt s c = some (some t) → t > 0 → t.toNat < 26 := by
  intro s hs c hc t h ht
  have : ∀ s, s < 26 → ∀ c, c < 14 → rangeChk1 s c = true := by decide
  have := this s hs c hc
  simp only [rangeChk1, h, decide_eq_true_eq] at this
  exact this ht

theorem tf_range2 : ∀ s, s < 26 → ∀ i, i < 2 → ∀ s', T.gotoAt s i = some s' → s' < 26 ∧ (i = 1 → s' = 6) ∧ (i = 0 → s' ≠ 6) := by
  intro s hs i hi s' h
  have : ∀ s, s < 26 → ∀ i, i < 2 → rangeChk2 s i = true := by decide
  have := this s hs i hi
  simp only [rangeChk2, h, decide_eq_true_eq] at this
  exact this

theorem tf_end : ∀ s, s < 26 → ∀ t, T.actionAt s 13 = some (some t) → ¬ t > 0 := by
  intro s hs t h
  have : ∀ s, s < 26 → endChk s = true := by decide
  have := this s hs
  simp only [endChk, h, decide_eq_true_eq] at this
  exact this

theorem tf_six : (∀ c, c < 14 → redAt 6 c = none ∧ shiftAt 6 c = none) := by decide

theorem tf_defined : ∀ s, s < 26 → (T.defaultRed s).isSome = true ∧ ∀ c, c < 14 → (T.actionAt s c).isSome = true := by decide

/-! ## shapes -/

theorem PathOK_top_lt : ∀ {s : Nat} {v : Val} {st : List (Nat × Val)}, PathOK ((s, v) :: st) → s < 26
  | s, v, [], h => by obtain ⟨rfl, _⟩ := h; omega
  | s, v, (s0, u) :: st, h => by
    obtain ⟨x, _, hx⟩ := trans_of_Trans h.1
    have hs0 := trans_src_lt hx
    cases x with
    | t c =>
      unfold trans at hx
      cases ha : T.actionAt s0 c with
      | none => simp [ha] at hx
      | some a =>
        cases a with
        | none => simp [ha] at hx
        | some t =>
          simp only [ha] at hx
          by_cases ht : t > 0
          · rw [if_pos ht] at hx
            simp only [Option.some.injEq] at hx
            rw [← hx]
            exact tf_range1 s0 hs0 c (actionAt_lt ha).2 t ha ht
          · simp [ht] at hx
    | nt i =>
      have hi : i < 2 := by
        have := mem_allSyms_of_trans hx
        simp [allSyms] at this
        omega
      exact (tf_range2 s0 hs0 i hi s hx).1

/-- the stack above a `backOK` state has the production's shape -/
theorem shape_of_back : ∀ (xs : List Sym) (s : Nat) (v : Val) (st : List (Nat × Val)) (lhs : Nat),
    PathOK ((s, v) :: st) → backOK xs s lhs = true →
    ∃ top sb u below, (s, v) :: st = top ++ (sb, u) :: below ∧ top.length = xs.length ∧
      (top.map (fun e => kind e.2)) = xs.map some ∧ (T.gotoAt sb lhs).isSome = true
  | [], s, v, st, lhs, _, hb => ⟨[], s, v, st, rfl, rfl, rfl, hb⟩
  | x :: xs, s, v, st, lhs, hp, hb => by
    simp only [backOK, Bool.and_eq_true, bne_iff_ne, ne_eq, List.all_eq_true, List.mem_range, Bool.or_eq_true,
      Bool.not_eq_true', beq_eq_false_iff_ne, beq_iff_eq] at hb
    obtain ⟨hs0, hall⟩ := hb
    rcases st with _ | ⟨⟨s0, u⟩, st'⟩
    · exact absurd hp.1 hs0
    · obtain ⟨htr, hp'⟩ := hp
      obtain ⟨y, hky, hy⟩ := trans_of_Trans htr
      have := hall s0 (trans_src_lt hy) y (mem_allSyms_of_trans hy)
      rcases this with hne | ⟨rfl, hb'⟩
      · exact absurd hy hne
      · obtain ⟨top, sb, u', below, heq, hlen, hk, hg⟩ := shape_of_back xs s0 u st' lhs hp' hb'
        refine ⟨(s, v) :: top, sb, u', below, by rw [heq]; rfl, by simp [hlen], ?_, hg⟩
        simp [hky, hk]

/-! ### tokens by column -/

theorem col_inv {t : Tok} {c : Nat} (h : col (some t) = c) :
    (c = 0 → t = .qm) ∧ (c = 1 → t = .colon) ∧ (c = 2 → t = .bool .or) ∧ (c = 3 → t = .bool .and) ∧
    (c = 4 → ∃ op, t = .cmp op) ∧ (c = 5 → ∃ op, t = .cmp op) ∧ (c = 6 → ∃ op, t = .bin op) ∧ (c = 7 → ∃ op, t = .bin op) ∧
    (c = 8 → t = .not) ∧ (c = 9 → t = .lpar) ∧ (c = 10 → t = .rpar) ∧ (c = 11 → t = .var) ∧ (c = 12 → ∃ n, t = .int n) := by
  subst h
  cases t with
  | bool op => cases op <;> simp [col]
  | cmp op => cases op <;> simp [col]
  | bin op => cases op <;> simp [col]
  | int n => simp [col]
  | _ => simp [col]

theorem kind_nt0 {v : Val} (h : kind v = some (.nt 0)) : ∃ e, v = .node e := by
  cases v <;> simp [kind] at h
  exact ⟨_, rfl⟩

theorem kind_t {v : Val} {c : Nat} (h : kind v = some (.t c)) : ∃ t, v = .tok t ∧ col (some t) = c := by
  cases v <;> simp [kind] at h
  exact ⟨_, rfl, h⟩

/-- symbols of a production's shape are accepted by its action function -/
theorem applyAction_defined : ∀ p, 1 ≤ p → p < 13 → ∀ args : List Val, args.map kind = (rhsOf p).map some →
    ∃ pr v, T.prods[p]? = some pr ∧ applyAction pr.act args = some v := by
  intro p hp1 hp13 args h
  have hcases : p = 1 ∨ p = 2 ∨ p = 3 ∨ p = 4 ∨ p = 5 ∨ p = 6 ∨ p = 7 ∨ p = 8 ∨ p = 9 ∨ p = 10 ∨ p = 11 ∨ p = 12 := by omega
  rcases hcases with rfl | rfl | rfl | rfl | rfl | rfl | rfl | rfl | rfl | rfl | rfl | rfl
  · -- INT
    obtain ⟨a, rfl⟩ : ∃ a, args = [a] := by
      rcases args with _ | ⟨a, _ | ⟨b, r⟩⟩ <;> simp [rhsOf] at h ⊢
    simp [rhsOf] at h
    obtain ⟨t, rfl, ht⟩ := kind_t h
    obtain ⟨n, rfl⟩ := (col_inv ht).2.2.2.2.2.2.2.2.2.2.2.2 rfl
    exact ⟨_, _, rfl, rfl⟩
  · -- LPAR exp RPAR
    obtain ⟨a, b, c, rfl⟩ : ∃ a b c, args = [a, b, c] := by
      rcases args with _ | ⟨a, _ | ⟨b, _ | ⟨c, _ | ⟨d, r⟩⟩⟩⟩ <;> simp [rhsOf] at h ⊢
    simp [rhsOf] at h
    obtain ⟨h1, h2, h3⟩ := h
    obtain ⟨t1, rfl, ht1⟩ := kind_t h1
    obtain ⟨e, rfl⟩ := kind_nt0 h2
    obtain ⟨t3, rfl, ht3⟩ := kind_t h3
    have := (col_inv ht1).2.2.2.2.2.2.2.2.2.1 rfl
    have := (col_inv ht3).2.2.2.2.2.2.2.2.2.2.1 rfl
    subst_vars
    exact ⟨_, _, rfl, rfl⟩
  · -- NOT exp
    obtain ⟨a, b, rfl⟩ : ∃ a b, args = [a, b] := by
      rcases args with _ | ⟨a, _ | ⟨b, _ | ⟨c, r⟩⟩⟩ <;> simp [rhsOf] at h ⊢
    simp [rhsOf] at h
    obtain ⟨h1, h2⟩ := h
    obtain ⟨t1, rfl, ht1⟩ := kind_t h1
    obtain ⟨e, rfl⟩ := kind_nt0 h2
    have := (col_inv ht1).2.2.2.2.2.2.2.2.1 rfl
    subst_vars
    exact ⟨_, _, rfl, rfl⟩
  · -- VAR
    obtain ⟨a, rfl⟩ : ∃ a, args = [a] := by
      rcases args with _ | ⟨a, _ | ⟨b, r⟩⟩ <;> simp [rhsOf] at h ⊢
    simp [rhsOf] at h
    obtain ⟨t, rfl, ht⟩ := kind_t h
    have := (col_inv ht).2.2.2.2.2.2.2.2.2.2.2.1 rfl
    subst_vars
    exact ⟨_, _, rfl, rfl⟩
  all_goals
    first
    | -- binary productions
      (obtain ⟨a, b, c, rfl⟩ : ∃ a b c, args = [a, b, c] := by
          rcases args with _ | ⟨a, _ | ⟨b, _ | ⟨c, _ | ⟨d, r⟩⟩⟩⟩ <;> simp [rhsOf] at h ⊢
       simp [rhsOf] at h
       obtain ⟨h1, h2, h3⟩ := h
       obtain ⟨e1, rfl⟩ := kind_nt0 h1
       obtain ⟨t2, rfl, ht2⟩ := kind_t h2
       obtain ⟨e3, rfl⟩ := kind_nt0 h3
       have hc := col_inv ht2
       first
       | (obtain ⟨op, rfl⟩ := hc.2.2.2.2.2.2.1 rfl; exact ⟨_, _, rfl, rfl⟩)
       | (have := hc.2.2.2.1 rfl; subst this; exact ⟨_, _, rfl, rfl⟩)
       | (obtain ⟨op, rfl⟩ := hc.2.2.2.2.2.1 rfl; exact ⟨_, _, rfl, rfl⟩)
       | (obtain ⟨op, rfl⟩ := hc.2.2.2.2.1 rfl; exact ⟨_, _, rfl, rfl⟩)
       | (obtain ⟨op, rfl⟩ := hc.2.2.2.2.2.2.2.1 rfl; exact ⟨_, _, rfl, rfl⟩)
       | (have := hc.2.2.1 rfl; subst this; exact ⟨_, _, rfl, rfl⟩))
    | -- conditional
      (obtain ⟨a, b, c, d, e, rfl⟩ : ∃ a b c d e, args = [a, b, c, d, e] := by
          rcases args with _ | ⟨a, _ | ⟨b, _ | ⟨c, _ | ⟨d, _ | ⟨e, _ | ⟨f, r⟩⟩⟩⟩⟩⟩ <;> simp [rhsOf] at h ⊢
       simp [rhsOf] at h
       obtain ⟨h1, h2, h3, h4, h5⟩ := h
       obtain ⟨e1, rfl⟩ := kind_nt0 h1
       obtain ⟨t2, rfl, ht2⟩ := kind_t h2
       obtain ⟨e3, rfl⟩ := kind_nt0 h3
       obtain ⟨t4, rfl, ht4⟩ := kind_t h4
       obtain ⟨e5, rfl⟩ := kind_nt0 h5
       have := (col_inv ht2).1 rfl
       have := (col_inv ht4).2.1 rfl
       subst_vars
       exact ⟨_, _, rfl, rfl⟩)
    | -- start : exp
      (obtain ⟨a, rfl⟩ : ∃ a, args = [a] := by
          rcases args with _ | ⟨a, _ | ⟨b, r⟩⟩ <;> simp [rhsOf] at h ⊢
       simp [rhsOf] at h
       obtain ⟨e, rfl⟩ := kind_nt0 h
       exact ⟨_, _, rfl, rfl⟩)

/-- a reduction the tables ask for never crashes on a path-shaped stack -/
theorem reduce_ne_crash {s p : Nat} {v : Val} {st : List (Nat × Val)} {rest : List Tok} {c : Nat} (hc : c < 14)
    (hred : redAt s c = some p) (hp : PathOK ((s, v) :: st)) : reduce T p ⟨(s, v) :: st, rest⟩ ≠ .crash := by
  have hs := PathOK_top_lt hp
  have hf := tf_back s hs c hc
  simp only [backChk, hred, Bool.and_eq_true, decide_eq_true_eq] at hf
  obtain ⟨⟨⟨hp1, hp13⟩, hback⟩, hlen⟩ := hf
  obtain ⟨top, sb, u, below, heq, htl, hk, hg⟩ := shape_of_back _ s v st _ hp hback
  have hkinds : (top.reverse.map (·.2)).map kind = (rhsOf p).map some := by
    have : (top.reverse.map (·.2)).map kind = (top.map (fun e => kind e.2)).reverse := by
      simp [List.map_reverse, List.map_map, Function.comp_def]
    rw [this, hk, ← List.map_reverse, List.reverse_reverse]
  obtain ⟨pr, v', hpr, hact⟩ := applyAction_defined p hp1 hp13 _ hkinds
  have hlen' : pr.len = top.length := by
    have : lenOf p = pr.len := by simp [lenOf, hpr]
    rw [← this, hlen, htl, List.length_reverse]
  have hlhs : lhsOf p = pr.lhs := by simp [lhsOf, hpr]
  rw [hlhs] at hg
  obtain ⟨g, hg⟩ := Option.isSome_iff_exists.1 hg
  unfold reduce
  simp only [hpr]
  rw [heq]
  have hnle : ¬ (top ++ (sb, u) :: below).length ≤ pr.len := by simp [hlen']
  rw [if_neg hnle]
  have htake : (top ++ (sb, u) :: below).take pr.len = top := by simp [hlen']
  have hdrop : (top ++ (sb, u) :: below).drop pr.len = (sb, u) :: below := by simp [hlen']
  rw [htake, hact, hdrop]
  simp [hg]

/-- **no turn crashes** under the invariant -/
theorem step_ne_crash {ts : List Tok} {c : Config} (hi : Inv ts c) : step T c ≠ .crash := by
  obtain ⟨stack, rest⟩ := c
  obtain ⟨hp, _⟩ := hi
  simp only at hp
  rcases stack with _ | ⟨⟨s, v⟩, st⟩
  · cases hp
  · have hs := PathOK_top_lt hp
    obtain ⟨hdr, hact⟩ := tf_defined s hs
    obtain ⟨d, hd⟩ := Option.isSome_iff_exists.1 hdr
    have hcl := col_lt rest.head?
    obtain ⟨a, ha⟩ := Option.isSome_iff_exists.1 (hact _ hcl)
    unfold step
    simp only [hd]
    by_cases hd0 : d ≠ 0
    · rw [if_pos hd0]
      exact reduce_ne_crash hcl (by simp [redAt, hd, hd0]) hp
    · rw [if_neg hd0]
      simp only [ha]
      cases a with
      | none => simp
      | some t =>
        simp only
        by_cases ht : t > 0
        · rw [if_pos ht]
          rcases rest with _ | ⟨tok, rest'⟩
          · exact absurd ht (tf_end s hs t ha)
          · simp
        · rw [if_neg ht]
          by_cases ht' : t < 0
          · rw [if_pos ht']
            exact reduce_ne_crash hcl (by simp [redAt, hd, hd0, ha, ht']) hp
          · rw [if_neg ht']
            simp

/-! ## the turn budget -/

def tokCountV : List Val → Nat
  | [] => 0
  | .tok _ :: vs => tokCountV vs + 1
  | _ :: vs => tokCountV vs

theorem tokCountV_append (a b : List Val) : tokCountV (a ++ b) = tokCountV a + tokCountV b := by
  induction a with
  | nil => simp [tokCountV]
  | cons v vs ih => cases v <;> simp [tokCountV, ih] <;> omega

theorem tokCountV_reverse (a : List Val) : tokCountV a.reverse = tokCountV a := by
  induction a with
  | nil => rfl
  | cons v vs ih => rw [List.reverse_cons, tokCountV_append, ih]; cases v <;> simp [tokCountV] <;> omega

/-- `2·|rest| + #tokens on the stack + [top state is not the accept state]` -/
def potential (c : Config) : Nat :=
  2 * c.rest.length + tokCountV (c.stack.map (·.2)) + (match c.stack with | (6, _) :: _ => 0 | _ => 1)

theorem ind_ne6 {s : Nat} {v : Val} {st : List (Nat × Val)} (h : s ≠ 6) :
    (match ((s, v) :: st : List (Nat × Val)) with | (6, _) :: _ => 0 | _ => 1) = 1 := by
  split
  · rename_i heq; cases heq; exact absurd rfl h
  · rfl

/-- every action but `eval_start` consumes at least one token symbol -/
theorem applyAction_tok {act : Action} {args : List Val} {v : Val} (h : applyAction act args = some v) :
    (act = .evalStart ∧ tokCountV args = 0) ∨ (act ≠ .evalStart ∧ 1 ≤ tokCountV args) := by
  unfold applyAction at h
  split at h <;> simp only [Option.some.injEq, reduceCtorEq] at h
  · exact .inl ⟨rfl, rfl⟩
  all_goals exact .inr ⟨by simp, by simp [tokCountV]⟩

theorem reduce_potential {s p : Nat} {v : Val} {st : List (Nat × Val)} {rest : List Tok} {c' : Config}
    (hs6 : s ≠ 6) (h : reduce T p ⟨(s, v) :: st, rest⟩ = .next c') :
    potential c' < potential ⟨(s, v) :: st, rest⟩ := by
  unfold reduce at h
  split at h
  · cases h
  · rename_i pr hp
    split at h
    · cases h
    · rename_i hlen
      split at h
      · cases h
      · rename_i v' ha
        split at h
        · cases h
        · rename_i sb u below hdrop
          split at h
          · cases h
          · rename_i s' hg
            cases h
            simp only at hlen ha hdrop
            have hsplit : (s, v) :: st = ((s, v) :: st).take pr.len ++ (sb, u) :: below := by
              rw [← hdrop, List.take_append_drop]
            have hcount : tokCountV (((s, v) :: st).map (·.2)) =
                tokCountV ((((s, v) :: st).take pr.len).reverse.map (·.2)) + tokCountV (((sb, u) :: below).map (·.2)) := by
              conv => lhs; rw [hsplit]
              rw [List.map_append, tokCountV_append, List.map_reverse, tokCountV_reverse]
            have hold : potential ⟨(s, v) :: st, rest⟩ = 2 * rest.length + tokCountV (((s, v) :: st).map (·.2)) + 1 := by
              unfold potential
              simp only
              rw [ind_ne6 hs6]
            rw [hold, hcount]
            obtain ⟨hl1, hl0⟩ := tf_lhs p (prods_lt hp) pr hp
            have hsb : sb < 26 := gotoAt_lt hg
            rcases applyAction_tok ha with ⟨hact, h0⟩ | ⟨hact, h1⟩
            · -- start : exp — the accept state is entered
              have hlhs := hl1 hact
              rw [hlhs] at hg
              have := (tf_range2 sb hsb 1 (by omega) s' hg).2.1 rfl
              subst this
              unfold potential
              simp only [List.map_cons, h0]
              have : tokCountV (v' :: u :: below.map (·.2)) = tokCountV (u :: below.map (·.2)) := by
                rcases applyAction_kind ha with ⟨_, e, rfl⟩ | ⟨hne, _, _⟩
                · rfl
                · exact absurd hact hne
              rw [this]
              omega
            · have hnone : pr.act ≠ .none := by
                intro hn; rw [hn] at ha; simp [applyAction] at ha
              have hlhs := hl0 hact hnone
              rw [hlhs] at hg
              have hne6 := (tf_range2 sb hsb 0 (by omega) s' hg).2.2 rfl
              unfold potential
              simp only [List.map_cons]
              have : tokCountV (v' :: u :: below.map (·.2)) = tokCountV (u :: below.map (·.2)) := by
                rcases applyAction_kind ha with ⟨he, _, _⟩ | ⟨_, _, e, rfl⟩
                · exact absurd he hact
                · rfl
              rw [this]
              rw [ind_ne6 hne6]
              omega

theorem step_potential {ts : List Tok} {c c' : Config} (hi : Inv ts c) (h : step T c = .next c') :
    potential c' < potential c := by
  obtain ⟨stack, rest⟩ := c
  obtain ⟨hp, _⟩ := hi
  simp only at hp
  rcases stack with _ | ⟨⟨s, v⟩, st⟩
  · cases hp
  · have hcl := col_lt rest.head?
    unfold step at h
    simp only at h
    split at h
    · cases h
    · rename_i d hd
      split at h
      · rename_i hd0
        have hs6 : s ≠ 6 := by
          rintro rfl
          have := (tf_six _ hcl).1
          simp [redAt, hd, hd0] at this
        exact reduce_potential hs6 h
      · rename_i hd0
        split at h
        · cases h
        · cases h
        · rename_i t ha
          split at h
          · rename_i ht
            rcases rest with _ | ⟨tok, rest'⟩
            · cases h
            · cases h
              have hs6 : s ≠ 6 := by
                rintro rfl
                have := (tf_six _ hcl).2
                simp only [List.head?_cons] at ha
                simp [shiftAt, hd, hd0, ha, ht] at this
              have ht6 : t.toNat ≠ 6 := by
                intro h6
                have : t = 6 := by omega
                subst this
                exact tf_accept2 s (actionAt_lt ha).1 _ (actionAt_lt ha).2 ha
              unfold potential
              simp only [List.map_cons, List.length_cons, tokCountV]
              rw [ind_ne6 ht6, ind_ne6 hs6]
              omega
          · split at h
            · rename_i ht'
              have hs6 : s ≠ 6 := by
                rintro rfl
                have := (tf_six _ hcl).1
                simp [redAt, hd, hd0, ha, ht'] at this
              exact reduce_potential hs6 h
            · cases h

theorem run_ne_crash {ts : List Tok} : ∀ (f : Nat) (c : Config), Inv ts c → potential c < f → run T f c ≠ .crash
  | 0, _, _, h => by omega
  | f + 1, c, hi, hf => by
    simp only [run]
    cases hs : step T c with
    | next c' =>
      simp only
      exact run_ne_crash f c' (step_inv hs hi) (by have := step_potential hi hs; omega)
    | accept v =>
      obtain ⟨e, rfl, _⟩ := accept_inv hs hi
      simp
    | parsingError => simp
    | crash => exact absurd hs (step_ne_crash hi)

/-- **The LR driver never crashes**: on every token list it answers `ok` or `syntaxError`. -/
theorem lrParseWith_ne_crash (ts : List Tok) : lrParseWith T ts ≠ .crash := by
  have hpath : PathOK [(0, Val.bottom)] := ⟨rfl, rfl⟩
  have hspan : SpansV [Val.bottom] [] := ⟨[], [], rfl, rfl, rfl⟩
  have hinv : Inv ts ⟨[(0, .bottom)], ts⟩ := ⟨hpath, [], hspan, rfl⟩
  refine run_ne_crash _ _ hinv ?_
  simp [potential, tokCountV, fuelFor] <;> omega

/-- the table-driven parser and the recursive-descent model are the same function -/
theorem lrParse_eq (ts : List Tok) :
    lrParse ts = match parseToks ts with | some e => .ok e | none => .syntaxError := by
  cases hp : parseToks ts with
  | some e => exact (lrParse_ok_iff ts e).2 hp
  | none =>
    simp only
    cases hl : lrParse ts with
    | ok e => rw [(lrParse_ok_iff ts e).1 hl] at hp; cases hp
    | syntaxError => rfl
    | crash =>
      unfold lrParse at hl
      rw [tables_eq] at hl
      exact absurd hl (lrParseWith_ne_crash ts)

end I18n.PluralLR
