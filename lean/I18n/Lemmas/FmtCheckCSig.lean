import I18n.Lemmas.FmtCheckC
import I18n.Props.C11
/-!
# The C comparator on strings: composition with the parser theorems of C11

`cParse (render items)` for valid printf items yields the signature of `Spec.Printf`; its slots are non-empty;
the positional types depend only on which argument is used at which type.
-/
namespace I18n.FmtCheck
open I18n I18n.FmtSig I18n.CFmt I18n.Spec.Printf I18n.Spec.FmtCompare

/-- every slot of a gap-free signature has a use -/
theorem signatureOf_slotsOk {L : List (Nat × Entry)} (hg : GapFree L) : SlotsOk (signatureOf L) := by
  obtain ⟨k, hk⟩ := (gapFree_iff L).1 hg
  intro u hu
  unfold signatureOf at hu
  rw [gapfree_argCount hk] at hu
  simp only [List.mem_map, List.mem_range] at hu
  obtain ⟨t, ht, rfl⟩ := hu
  obtain ⟨e, he⟩ := (hk (t + 1)).2 (by omega)
  intro hnil
  have : e ∈ usesOf L (t + 1) := mem_usesOf.2 he
  rw [hnil] at this
  cases this

theorem signatureOf_length {L : List (Nat × Entry)} {k : Nat} (hk : ∀ j, HasKey L j ↔ 1 ≤ j ∧ j < 1 + k) :
    (signatureOf L).length = k := by
  unfold signatureOf
  rw [gapfree_argCount hk]
  simp

/-- which argument is used at which type -/
def PosType (L : List (Nat × Entry)) (j : Nat) (t : String) : Prop := ∃ e, (j, e) ∈ L ∧ e.type = t

/-- **The positional types depend only on which argument is used at which type** — not on the order of the
    references, nor on how often an argument is referred to, nor on which directive refers to it. -/
theorem typesOf_signatureOf_congr {L L' : List (Nat × Entry)} (hg : GapFree L) (ht : OneType L) (hg' : GapFree L') (ht' : OneType L')
    (h : ∀ j t, PosType L j t ↔ PosType L' j t) : typesOf (signatureOf L) = typesOf (signatureOf L') := by
  obtain ⟨k, hk⟩ := (gapFree_iff L).1 hg
  obtain ⟨k', hk'⟩ := (gapFree_iff L').1 hg'
  have hkey : ∀ j, HasKey L j ↔ HasKey L' j := by
    intro j
    constructor
    · rintro ⟨e, he⟩
      obtain ⟨e', he', _⟩ := (h j e.type).1 ⟨e, he, rfl⟩
      exact ⟨e', he'⟩
    · rintro ⟨e, he⟩
      obtain ⟨e', he', _⟩ := (h j e.type).2 ⟨e, he, rfl⟩
      exact ⟨e', he'⟩
  have hkk : k = k' := by
    rcases Nat.lt_trichotomy k k' with hlt | heq | hgt
    · have := (hkey k').2 ((hk' k').2 (by omega))
      have := (hk k').1 this
      omega
    · exact heq
    · have := (hkey k).1 ((hk k).2 (by omega))
      have := (hk' k).1 this
      omega
  subst hkk
  apply List.ext_getElem?
  intro i
  by_cases hi : i < k
  · obtain ⟨e, he⟩ := (hk (i + 1)).2 (by omega)
    obtain ⟨e', he', hty⟩ := (h (i + 1) e.type).1 ⟨e, he, rfl⟩
    have h1 := (signature_slot hg ht he).2.2.2
    have h2 := (signature_slot hg' ht' he').2.2.2
    simp only [Nat.add_sub_cancel] at h1 h2
    rw [h1, h2, hty]
  · have l1 : (typesOf (signatureOf L)).length = k := by rw [typesOf_length, signatureOf_length hk]
    have l2 : (typesOf (signatureOf L')).length = k := by rw [typesOf_length, signatureOf_length hk']
    rw [List.getElem?_eq_none (by omega), List.getElem?_eq_none (by omega)]

/-- the flag `conv.integer` of the item at index `c`, read off the items -/
def itemInteger (items : List Item) (c : Nat) : Bool :=
  match items[c]? with
  | some (.dir d) =>
    match d.body.typeInfo with
    | some ti => ti.integer
    | none => false
  | _ => false

/-- **`cParse` on the rendering of valid printf items**: accepted, the arguments are the signature, `integer` is the
    specification's integer-ness of each directive. -/
theorem cParse_valid {items : List Item} (hv : Valid items) :
    ∃ f, cParse (render items) = .ok f ∧ f.arguments = signature items ∧ SlotsOk f.arguments ∧
      ∀ c, f.integer.getD c false = itemInteger items c := by
  obtain ⟨r, hr, ha⟩ := I18n.Props.C11.parse_complete hv
  refine ⟨_, by unfold cParse; rw [hr], ha, ?_, ?_⟩
  · show SlotsOk r.arguments
    rw [ha]
    exact signatureOf_slotsOk hv.global.gapFree
  · intro c
    show ((CFmt.scan (render items)).1.map _).getD c false = _
    rw [scan_complete hv.wf]
    simp only [List.getD_eq_getElem?_getD, List.getElem?_map, itemInteger]
    cases hc : items[c]? with
    | none => simp
    | some it =>
      cases it with
      | lit cs => simp [itemInfo]
      | dir d =>
        have hd : d ∈ dirs items := by
          have hmem : Item.dir d ∈ items := List.mem_of_getElem? hc
          clear hc hv hr ha
          induction items with
          | nil => cases hmem
          | cons x xs ih =>
            rcases List.mem_cons.1 hmem with rfl | h
            · simp [dirs]
            · cases x <;> simp [dirs, ih h]
        have hb := (hv.directives d hd).wf.body
        simp only [Option.map_some, Option.getD_some, itemInfo, typeInfo_spec hb]
        cases d.body.typeInfo <;> rfl

/-- what an accepted string is, for the comparator: the rendering of valid items, with their signature -/
theorem cParse_sound {s : List Char} {f : CFmtX} (h : cParse s = .ok f) :
    ∃ items, render items = s ∧ Valid items ∧ f.arguments = signature items ∧ SlotsOk f.arguments := by
  unfold cParse at h
  cases hp : CFmt.parse s with
  | error e => rw [hp] at h; cases e <;> cases h
  | ok r =>
    rw [hp] at h
    simp only [ParseOutcome.ok.injEq] at h
    obtain ⟨items, h1, h2, h3⟩ := I18n.Props.C11.parse_sound hp
    subst h
    exact ⟨items, h1, h2, h3, by show SlotsOk r.arguments; rw [h3]; exact signatureOf_slotsOk h2.global.gapFree⟩

/-- the parser's errors are its own classes: `cParse` never reports a crash -/
theorem cParse_nocrash (s : List Char) (e : Py.Exc) : cParse s ≠ .crash e := by
  unfold cParse
  cases hp : CFmt.parse s with
  | ok r => simp
  | error err =>
    have := I18n.Props.C11.parse_error_own hp
    cases err <;> simp_all [CErr.own]

/-! ## membership in `typeDiffs` -/

theorem mem_typeDiffs {τ : Type} [DecidableEq τ] : ∀ (src dst : List τ) (a b : τ),
    (a, b) ∈ typeDiffs src dst ↔ ∃ i, TypeDiffAt src dst i a b := by
  intro src
  induction src with
  | nil => intro dst a b; simp [typeDiffs, TypeDiffAt]
  | cons x xs ih =>
    intro dst a b
    cases dst with
    | nil => simp [typeDiffs, TypeDiffAt]
    | cons y ys =>
      simp only [typeDiffs, List.mem_append, ih]
      constructor
      · rintro (h | ⟨i, hi⟩)
        · by_cases hxy : x = y
          · simp [hxy] at h
          · simp only [ne_eq, hxy, not_false_eq_true, ↓reduceIte, List.mem_singleton, Prod.mk.injEq] at h
            obtain ⟨rfl, rfl⟩ := h
            exact ⟨0, by simp [TypeDiffAt, hxy]⟩
        · exact ⟨i + 1, by simpa [TypeDiffAt] using hi⟩
      · rintro ⟨i, hi⟩
        cases i with
        | zero =>
          simp only [TypeDiffAt, List.getElem?_cons_zero, Option.some.injEq, ne_eq] at hi
          obtain ⟨rfl, rfl, hne⟩ := hi
          left; simp [hne]
        | succ i => right; exact ⟨i, by simpa [TypeDiffAt] using hi⟩

theorem typeDiffs_self {τ : Type} [DecidableEq τ] (l : List τ) : typeDiffs l l = [] := by
  induction l with
  | nil => rfl
  | cons x xs ih => simp [typeDiffs, ih]

end I18n.FmtCheck
