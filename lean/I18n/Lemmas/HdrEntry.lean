import I18n.Lemmas.HdrMeta
/-
C15 lemmas, part 4: the header-entry discovery loop of `check_headers` (with its `continue` and `break`) finds the first
non-obsolete entry with empty msgid and no context, reports `duplicate-header-entry` iff there is a second one, and the
per-entry tags are those of `EntryRule`.
-/
set_option linter.unusedSimpArgs false
namespace I18n.Hdr
open I18n.Spec.HeaderRules I18n.Date I18n.Generated

def hdrsFrom (idx : Nat) (es : List Entry) : List (Entry × Nat) :=
  (es.zipIdx idx).filter fun p => decide (IsHeaderEntry p.1)

theorem skip_iff (e : Entry) : (!isHeaderEntry e || e.obsolete) = true ↔ ¬ IsHeaderEntry e := by
  unfold isHeaderEntry IsHeaderEntry
  cases hm : e.msgctxt <;> cases ho : e.obsolete <;> simp [hm, ho]

theorem hdrsFrom_cons (idx : Nat) (e : Entry) (es : List Entry) :
    hdrsFrom idx (e :: es) = if IsHeaderEntry e then (e, idx) :: hdrsFrom (idx + 1) es else hdrsFrom (idx + 1) es := by
  unfold hdrsFrom
  simp only [List.zipIdx_cons, List.filter_cons]
  by_cases h : IsHeaderEntry e <;> simp [h]

def dupTag : TagCall := tag "duplicate-header-entry" []

theorem entryLoop_seen (x : Ext) (tmpl : Bool) (idx : Nat) (es : List Entry) (st : LoopState) (hs : st.seen = true) :
    entryLoop x tmpl idx es st = if hdrsFrom idx es = [] then st else { st with tags := st.tags ++ [dupTag] } := by
  induction es generalizing idx with
  | nil => simp [entryLoop, hdrsFrom]
  | cons e es ih =>
    unfold entryLoop
    rw [hdrsFrom_cons]
    by_cases h : IsHeaderEntry e
    · have : ¬ (!isHeaderEntry e || e.obsolete) = true := fun c => (skip_iff e).1 c h
      simp [this, h, hs, dupTag]
    · have : (!isHeaderEntry e || e.obsolete) = true := (skip_iff e).2 h
      simp only [this, if_true, h, if_false]
      exact ih (idx + 1)

theorem entryLoop_fresh (x : Ext) (tmpl : Bool) (idx : Nat) (es : List Entry) (st : LoopState) (hs : st.seen = false) :
    entryLoop x tmpl idx es st =
      match hdrsFrom idx es with
      | [] => st
      | (e, i) :: rest =>
        match entryTags x tmpl i e with
        | none => { st with crashed := true }
        | some ts =>
          { st with tags := st.tags ++ ts ++ (if rest = [] then [] else [dupTag]),
                    lines := st.lines ++ parseHeader e.headerText, seen := true } := by
  induction es generalizing idx with
  | nil => simp [entryLoop, hdrsFrom]
  | cons e es ih =>
    unfold entryLoop
    rw [hdrsFrom_cons]
    by_cases h : IsHeaderEntry e
    · have : ¬ (!isHeaderEntry e || e.obsolete) = true := fun c => (skip_iff e).1 c h
      simp only [this, if_false, h, if_true, hs, Bool.false_eq_true]
      cases ht : entryTags x tmpl idx e with
      | none => rfl
      | some ts =>
        simp only []
        rw [entryLoop_seen _ _ _ _ _ rfl]
        by_cases hr : hdrsFrom (idx + 1) es = []
        · simp [hr]
        · simp [hr]
    · have : (!isHeaderEntry e || e.obsolete) = true := (skip_iff e).2 h
      simp only [this, if_true, h, if_false]
      exact ih (idx + 1)

theorem headerText_eq (e : Entry) : e.headerText = entryText e := by
  unfold Entry.headerText entryText; cases e.msgstr0 <;> rfl

theorem mem_entryTags (x : Ext) (tmpl : Bool) (i : Nat) (e : Entry) (ts : List TagCall)
    (h : entryTags x tmpl i e = some ts) (t : TagCall) :
    t ∈ ts ↔
      ( (i ≠ 0 ∧ t = t0 "distant-header-entry")
      ∨ (e.occurrences ≠ [] ∧
          t = ⟨"empty-msgid-message-with-source-code-references", e.occurrences.map fun o => .str (o.1 ++ ':' :: o.2)⟩)
      ∨ (e.msgidPlural ≠ none ∧ t = t0 "empty-msgid-message-with-plural-forms")
      ∨ ("fuzzy".toList ∈ e.flags ∧ tmpl = false ∧ t = t0 "fuzzy-header-entry")
      ∨ (∃ fl ∈ e.flags, fl ≠ "fuzzy".toList ∧
          t = ⟨"unexpected-flag-for-header-entry",
               if x.closeFuzzy fl then [.str fl, .str "=>".toList, .str "fuzzy".toList] else [.str fl]⟩)
      ∨ (∃ fl, 1 < count fl e.flags ∧ t = ⟨"duplicate-flag-for-header-entry", [.str fl]⟩)
      ∨ (∃ text, sortedChars (unusualChars x.db (entryText e)) ≠ [] ∧
          unusualText (sortedChars (unusualChars x.db (entryText e))) = some text ∧
          t = ⟨"unusual-character-in-header-entry", [.safe text]⟩)) := by
  have hflag : HeaderFields.headerFlag.toList = "fuzzy".toList := rfl
  -- membership in the four unconditional parts
  have hcount : ∀ fl : Str, 1 < count fl e.flags → fl ∈ e.flags := by
    intro fl hc
    unfold count at hc
    have : (e.flags.filter (· = fl)) ≠ [] := by intro e0; rw [e0] at hc; simp at hc
    obtain ⟨a, ha⟩ := List.exists_mem_of_ne_nil _ this
    have := List.mem_filter.1 ha
    simp at this
    exact this.2 ▸ this.1
  have parts : ∀ t, t ∈
      ((if e.occurrences.isEmpty then [] else
          [tag "empty-msgid-message-with-source-code-references" (e.occurrences.map fun o => sx (o.1 ++ ':' :: o.2))])
        ++ (if e.msgidPlural.isSome then [tag "empty-msgid-message-with-plural-forms" []] else [])
        ++ ((sortedSet e.flags).flatMap fun flag =>
            (if flag = HeaderFields.headerFlag.toList then
               (if tmpl then [] else [tag "fuzzy-header-entry" []])
             else if x.closeFuzzy flag then [tag "unexpected-flag-for-header-entry" [sx flag, arrow, lit "fuzzy"]]
             else [tag "unexpected-flag-for-header-entry" [sx flag]])
            ++ (if count flag e.flags > 1 then [tag "duplicate-flag-for-header-entry" [sx flag]] else []))
        ++ (if i ≠ 0 then [tag "distant-header-entry" []] else [])) ↔
      ( (i ≠ 0 ∧ t = t0 "distant-header-entry")
      ∨ (e.occurrences ≠ [] ∧
          t = ⟨"empty-msgid-message-with-source-code-references", e.occurrences.map fun o => .str (o.1 ++ ':' :: o.2)⟩)
      ∨ (e.msgidPlural ≠ none ∧ t = t0 "empty-msgid-message-with-plural-forms")
      ∨ ("fuzzy".toList ∈ e.flags ∧ tmpl = false ∧ t = t0 "fuzzy-header-entry")
      ∨ (∃ fl ∈ e.flags, fl ≠ "fuzzy".toList ∧
          t = ⟨"unexpected-flag-for-header-entry",
               if x.closeFuzzy fl then [.str fl, .str "=>".toList, .str "fuzzy".toList] else [.str fl]⟩)
      ∨ (∃ fl, 1 < count fl e.flags ∧ t = ⟨"duplicate-flag-for-header-entry", [.str fl]⟩)) := by
    intro t
    simp only [List.mem_append, List.mem_flatMap, mem_sortedSet, hflag]
    constructor
    · rintro (((h | h) | ⟨fl, hfl, h | h⟩) | h)
      · split at h
        · simp at h
        · rename_i hne
          right; left
          refine ⟨by intro e0; simp [e0] at hne, by simpa [tag, sx] using h⟩
      · split at h
        · rename_i hs
          right; right; left
          refine ⟨by intro e0; simp [e0] at hs, by simpa [tag, t0] using h⟩
        · simp at h
      · split at h
        · rename_i hf
          subst hf
          split at h
          · simp at h
          · rename_i ht
            right; right; right; left
            exact ⟨hfl, by simpa using ht, by simpa [tag, t0] using h⟩
        · rename_i hf
          right; right; right; right; left
          refine ⟨fl, hfl, hf, ?_⟩
          split at h
          · rename_i hc; simp [hc]; simpa [tag, sx, arrow, lit] using h
          · rename_i hc; simp [hc]; simpa [tag, sx] using h
      · split at h
        · rename_i hc
          right; right; right; right; right
          exact ⟨fl, hc, by simpa [tag, sx] using h⟩
        · simp at h
      · split at h
        · rename_i hi
          left; exact ⟨hi, by simpa [tag, t0] using h⟩
        · simp at h
    · rintro (⟨hi, rfl⟩ | ⟨ho, rfl⟩ | ⟨hp, rfl⟩ | ⟨hf, ht, rfl⟩ | ⟨fl, hfl, hne, rfl⟩ | ⟨fl, hc, rfl⟩)
      · right; simp [hi, tag, t0]
      · left; left; left
        have : e.occurrences.isEmpty = false := by
          cases ho' : e.occurrences with
          | nil => exact absurd ho' ho
          | cons a r => rfl
        simp [this, tag, sx]
      · left; left; right
        have : e.msgidPlural.isSome = true := by
          cases hp' : e.msgidPlural with
          | none => exact absurd hp' hp
          | some a => rfl
        simp [this, tag, t0]
      · left; right
        exact ⟨"fuzzy".toList, hf, Or.inl (by simp [ht, tag, t0])⟩
      · left; right
        refine ⟨fl, hfl, Or.inl ?_⟩
        simp only [hne, if_false]
        by_cases hc : x.closeFuzzy fl = true
        · simp [hc, tag, sx, arrow, lit]
        · simp [hc, tag, sx]
      · left; right
        exact ⟨fl, hcount fl hc, Or.inr (by simp [hc, tag, sx])⟩
  unfold entryTags at h
  simp only [headerText_eq] at h
  split at h
  · rename_i hu
    have hu' : sortedChars (unusualChars x.db (entryText e)) = [] := by
      simpa [List.isEmpty_iff] using hu
    injection h with h
    subst h
    rw [parts]
    simp [hu']
  · rename_i hu
    have hu' : sortedChars (unusualChars x.db (entryText e)) ≠ [] := by
      simpa [List.isEmpty_iff] using hu
    split at h
    · cases h
    · rename_i text htext
      injection h with h
      subst h
      rw [List.mem_append, parts]
      simp only [List.mem_singleton]
      constructor
      · rintro (h | rfl)
        · rcases h with h | h | h | h | h | h
          · exact Or.inl h
          · exact Or.inr (Or.inl h)
          · exact Or.inr (Or.inr (Or.inl h))
          · exact Or.inr (Or.inr (Or.inr (Or.inl h)))
          · exact Or.inr (Or.inr (Or.inr (Or.inr (Or.inl h))))
          · exact Or.inr (Or.inr (Or.inr (Or.inr (Or.inr (Or.inl h)))))
        · exact Or.inr (Or.inr (Or.inr (Or.inr (Or.inr (Or.inr ⟨text, hu', htext, rfl⟩)))))
      · rintro (h | h | h | h | h | h | ⟨text', _, htext', rfl⟩)
        · exact Or.inl (Or.inl h)
        · exact Or.inl (Or.inr (Or.inl h))
        · exact Or.inl (Or.inr (Or.inr (Or.inl h)))
        · exact Or.inl (Or.inr (Or.inr (Or.inr (Or.inl h))))
        · exact Or.inl (Or.inr (Or.inr (Or.inr (Or.inr (Or.inl h)))))
        · exact Or.inl (Or.inr (Or.inr (Or.inr (Or.inr (Or.inr h)))))
        · right
          rw [htext] at htext'
          injection htext' with e1
          subst e1; rfl

end I18n.Hdr
