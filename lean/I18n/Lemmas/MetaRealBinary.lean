import I18n.Lemmas.MetaReal
import I18n.Lemmas.MetaBinary
import I18n.Lemmas.HdrExempt
/-!
PO versus MO for the composed checker (`Real.pipeline`): what `ctx.is_binary` can change.  The eight `lift`ed stages cannot
see the flag (their models do not take it); `Date.checkDates` (C18) and `Msg.trace` (C16) do take it, and what they do
with it is proved here from their definitions.
-/
namespace I18n.Meta.Real
open I18n I18n.Check I18n.Meta

/-- the documented format-specific line: the `no-date-header-field POT-Creation-Date` of `check_dates` -/
def isExempt : RTag → Bool
  | .date t => t == Hdr.noDate .pot
  | _ => false

def notExempt (t : RTag) : Bool := !isExempt t

/-! ### `Date.checkDates` (C18) -/

def keepD (t : Date.Tag) : Bool := !(t == Hdr.noDate .pot)

theorem perDate_keep (now : Int) (f : Date.Field) (tpl pub : Bool) (ds : List (List Char)) :
    (Date.perDate now f tpl pub ds).filter keepD = Date.perDate now f tpl pub ds := by
  apply List.filter_eq_self.mpr
  intro t ht
  have := Hdr.perDate_names now f tpl pub ds t ht
  simp only [keepD, Bool.not_eq_true', beq_eq_false_iff_ne, ne_eq]
  intro e
  exact this (by rw [e]; rfl)

theorem fieldTags_binary (c : Date.Ctx) (f : Date.Field) (dates : List (List Char)) :
    Date.fieldTags { c with isBinary := true } f dates = (Date.fieldTags { c with isBinary := false } f dates).filter keepD := by
  unfold Date.fieldTags
  by_cases h1 : dates.length > 1
  · simp only [h1, if_true, List.filter_cons, perDate_keep]
    have : keepD ⟨"duplicate-header-field-date", [.str f.name]⟩ = true := by
      simp only [keepD, Hdr.noDate, Bool.not_eq_true', beq_eq_false_iff_ne, ne_eq]
      intro e; injection e with e1 _; exact absurd e1 (by decide)
    simp [this]
  · simp only [h1, if_false]
    by_cases h0 : dates.length = 0
    · simp only [h0, if_true]
      cases f
      · simp [keepD, Hdr.noDate]
      · have : keepD ⟨"no-date-header-field", [.str Date.Field.po.name]⟩ = true := by
          simp only [keepD, Hdr.noDate, Bool.not_eq_true', beq_eq_false_iff_ne, ne_eq]
          intro e; injection e with _ e2
          simp [Date.Field.name] at e2
        simp [this]
    · simp only [h0, if_false, perDate_keep]

/-- **C18's `check_dates`, binary versus text**: exactly the PO run's tags minus `no-date-header-field POT-Creation-Date` -/
theorem checkDates_binary (c : Date.Ctx) :
    Date.checkDates { c with isBinary := true } = some (((Date.checkDates { c with isBinary := false }).getD []).filter keepD) := by
  rw [Date.checkDates_eq, Date.checkDates_eq]
  simp only [Option.getD_some, List.filter_append, fieldTags_binary]

theorem checkDates_isSome (c : Date.Ctx) : ∃ ts, Date.checkDates c = some ts := ⟨_, Date.checkDates_eq c⟩

/-! ### `Msg.trace` (C16) -/

theorem checkMessage_blind (env : Msg.Env) (tpl b h b' h' enc : Bool) (st : Msg.MSt) (e : Msg.Entry) :
    Msg.checkMessage env ⟨tpl, b, h, enc⟩ st e = Msg.checkMessage env ⟨tpl, b', h', enc⟩ st e := rfl

theorem messageLoop_blind (env : Msg.Env) (tpl b h b' h' enc : Bool) (st : Msg.MSt) (file : List Msg.Entry) :
    Msg.messageLoop env ⟨tpl, b, h, enc⟩ st file = Msg.messageLoop env ⟨tpl, b', h', enc⟩ st file := by
  induction file generalizing st with
  | nil => rfl
  | cons e rest ih =>
    unfold Msg.messageLoop
    split
    · rw [ih]
    · split
      · rw [ih]
      · rw [checkMessage_blind env tpl b h b' h' enc st e]
        simp only [ih]

theorem emptyFileCheck_text (tpl h enc : Bool) (st : Msg.MSt) :
    Msg.emptyFileCheck ⟨tpl, false, h, enc⟩ st = Msg.emptyFileCheck ⟨tpl, true, false, enc⟩ st := by
  simp [Msg.emptyFileCheck]

/-- **C16's `check_messages`, binary versus text**: an MO file whose revision hides nothing is treated like a PO file -/
theorem trace_binary (env : Msg.Env) (tpl h enc : Bool) (file : List Msg.Entry) :
    Msg.trace env ⟨tpl, true, false, enc⟩ file = Msg.trace env ⟨tpl, false, h, enc⟩ file := by
  unfold Msg.trace
  rw [messageLoop_blind env tpl true false false h enc]
  simp only [emptyFileCheck_text tpl h enc]

/-- any revision: the per-entry part is the same, only the `empty-file` decision can differ -/
theorem trace_binary_entries (env : Msg.Env) (tpl b h b' h' enc : Bool) (file : List Msg.Entry) :
    (Msg.trace env ⟨tpl, b, h, enc⟩ file).1 = (Msg.trace env ⟨tpl, b', h', enc⟩ file).1 := by
  unfold Msg.trace
  rw [messageLoop_blind env tpl b h b' h' enc]

/-! ### the stages -/

theorem lift_respects (hiddenOk : Bool) (keep : RTag → Bool) (f : Blind RCtx RTag) :
    Respects (BinRel hiddenOk) keep (lift f) (lift f) := by
  intro s s' ⟨h1, h2, h3, h4⟩
  simp only [lift]
  rw [h3]
  exact ⟨⟨h1, h2, rfl, h4⟩, rfl, rfl⟩

theorem filter_notExempt_date (ts : List Date.Tag) : (ts.map RTag.date).filter notExempt = (ts.filter keepD).map RTag.date := by
  induction ts with
  | nil => rfl
  | cons t rest ih =>
    simp only [List.map_cons, List.filter_cons, notExempt, isExempt, keepD]
    by_cases h : (t == Hdr.noDate .pot) = true
    · simp only [h, Bool.not_true, Bool.false_eq_true, if_false]; exact ih
    · simp only [h, Bool.not_false, if_true, List.map_cons]; rw [← ih]

theorem dates_respects (hiddenOk : Bool) (w : World) : Respects (BinRel hiddenOk) notExempt (datesStage w) (datesStage w) := by
  intro s s' ⟨h1, h2, h3, h4⟩
  obtain ⟨fl, k⟩ := s
  obtain ⟨fl', k'⟩ := s'
  simp only at h1 h2 h3
  subst h3
  simp only [datesStage, h1, h2]
  have hb := checkDates_binary (Hdr.dateCtx ⟨k.isTemplate, false⟩ k.metadata w.now)
  have hB : ({ Hdr.dateCtx ⟨k.isTemplate, false⟩ k.metadata w.now with isBinary := true } : Date.Ctx)
      = Hdr.dateCtx ⟨k.isTemplate, true⟩ k.metadata w.now := rfl
  have hN : ({ Hdr.dateCtx ⟨k.isTemplate, false⟩ k.metadata w.now with isBinary := false } : Date.Ctx)
      = Hdr.dateCtx ⟨k.isTemplate, false⟩ k.metadata w.now := rfl
  rw [hB, hN] at hb
  obtain ⟨tn, htn⟩ := checkDates_isSome (Hdr.dateCtx ⟨k.isTemplate, false⟩ k.metadata w.now)
  rw [htn] at hb
  simp only [Option.getD_some] at hb
  rw [hb, htn]
  refine ⟨⟨h1, h2, rfl, h4⟩, ?_, rfl⟩
  simp only [filter_notExempt_date, List.filter_filter, Bool.and_self]

theorem messages_respects (w : World) : Respects (BinRel true) notExempt (messagesStage w) (messagesStage w) := by
  intro s s' ⟨h1, h2, h3, h4⟩
  obtain ⟨fl, k⟩ := s
  obtain ⟨fl', k'⟩ := s'
  simp only at h1 h2 h3
  subst h3
  have hh := h4 rfl
  simp only at hh
  have key : messagesOut w fl k = messagesOut w fl' k := by
    obtain ⟨b, h⟩ := fl
    obtain ⟨b', h'⟩ := fl'
    simp only at h1 h2 hh
    subst h1 h2 hh
    simp only [messagesOut, msgCtx]
    rw [trace_binary w.menv k.isTemplate h' k.encoding.isSome]
  refine ⟨⟨h1, h2, rfl, h4⟩, ?_, ?_⟩
  · simp only [messagesStage, key]
  · simp only [messagesStage, key]

/-- the composed checker respects the PO/MO relation up to the exemption, when the MO file's revision hides nothing -/
theorem pipeline_respects (w : World) : RespectsAll (BinRel true) notExempt (pipeline w) (pipeline w) := by
  unfold pipeline
  refine .cons (lift_respects _ _ _) <| .cons (lift_respects _ _ _) <| .cons (lift_respects _ _ _) <|
    .cons (lift_respects _ _ _) <| .cons (lift_respects _ _ _) <| .cons (lift_respects _ _ _) <|
    .cons (dates_respects _ w) <| .cons (lift_respects _ _ _) <| .cons (lift_respects _ _ _) <|
    .cons (messages_respects w) .nil

/-! ### a binary run never prints the exempted line -/

def Clean (st : Stage (BinFlags × RCtx) RTag) : Prop :=
  ∀ s, (st s).1.1 = s.1 ∧ (s.1.isBinary = true → ∀ t ∈ (st s).2.1, isExempt t = false)

theorem commentsStage_clean (w : World) : Clean (lift (commentsStage w)) := by
  intro s; refine ⟨rfl, fun _ t ht => ?_⟩
  simp only [lift, commentsStage, List.mem_map] at ht
  obtain ⟨_, _, rfl⟩ := ht; rfl

theorem headersStage_clean (w : World) : Clean (lift (headersStage w)) := by
  intro s; refine ⟨rfl, fun _ t ht => ?_⟩
  simp only [lift, headersStage] at ht
  split at ht
  · simp at ht
  · simp only [List.mem_map] at ht; obtain ⟨_, _, rfl⟩ := ht; rfl

theorem languageStage_clean (w : World) : Clean (lift (languageStage w)) := by
  intro s; refine ⟨rfl, fun _ t ht => ?_⟩
  simp only [lift, languageStage] at ht
  split at ht
  · simp at ht
  · simp only [List.mem_map] at ht; obtain ⟨_, _, rfl⟩ := ht; rfl

theorem pluralsStage_clean (w : World) : Clean (lift (pluralsStage w)) := by
  intro s; refine ⟨rfl, fun _ t ht => ?_⟩
  simp only [lift, pluralsStage] at ht
  split at ht
  · simp at ht
  · simp only [List.mem_map] at ht; obtain ⟨_, _, rfl⟩ := ht; rfl

theorem mimeStage_clean (w : World) : Clean (lift (mimeStage w)) := by
  intro s; refine ⟨rfl, fun _ t ht => ?_⟩
  simp only [lift, mimeStage] at ht
  split at ht
  · simp at ht
  · simp only [List.mem_map] at ht; obtain ⟨_, _, rfl⟩ := ht; rfl

theorem resetStage_clean : Clean (lift resetStage) := by
  intro s; exact ⟨rfl, fun _ t ht => by simp [lift, resetStage] at ht⟩

theorem projectStage_clean (w : World) : Clean (lift (projectStage w)) := by
  intro s; refine ⟨rfl, fun _ t ht => ?_⟩
  simp only [lift, projectStage, List.mem_map] at ht
  obtain ⟨_, _, rfl⟩ := ht; rfl

theorem translatorStage_clean (w : World) : Clean (lift (translatorStage w)) := by
  intro s; refine ⟨rfl, fun _ t ht => ?_⟩
  simp only [lift, translatorStage, List.mem_map] at ht
  obtain ⟨_, _, rfl⟩ := ht; rfl

theorem datesStage_clean (w : World) : Clean (datesStage w) := by
  intro s
  obtain ⟨fl, k⟩ := s
  constructor
  · simp only [datesStage]; split <;> rfl
  · intro hb t ht
    simp only at hb
    simp only [datesStage, hb] at ht
    have hbin := checkDates_binary (Hdr.dateCtx ⟨k.isTemplate, false⟩ k.metadata w.now)
    have hB : ({ Hdr.dateCtx ⟨k.isTemplate, false⟩ k.metadata w.now with isBinary := true } : Date.Ctx)
        = Hdr.dateCtx ⟨k.isTemplate, true⟩ k.metadata w.now := rfl
    rw [hB] at hbin
    rw [hbin] at ht
    simp only [List.mem_map, List.mem_filter] at ht
    obtain ⟨d, ⟨_, hk⟩, rfl⟩ := ht
    simpa [isExempt, keepD] using hk

theorem seqEmits_mem (l : List (List RTag × Bool)) (t : RTag) (ht : t ∈ (seqEmits l).1) : ∃ p ∈ l, t ∈ p.1 := by
  induction l with
  | nil => simp [seqEmits] at ht
  | cons p rest ih =>
    obtain ⟨ts, r⟩ := p
    cases r with
    | true => simp only [seqEmits] at ht; exact ⟨(ts, true), by simp, ht⟩
    | false =>
      simp only [seqEmits, List.mem_append] at ht
      rcases ht with h | h
      · exact ⟨(ts, false), by simp, h⟩
      · obtain ⟨p, hp, hm⟩ := ih h
        exact ⟨p, List.mem_cons_of_mem _ hp, hm⟩

theorem expandEmit_not_date (w : World) (fctx : FmtCheck.Ctx) (o : Obs) (e : Msg.Emit) (t : RTag)
    (ht : t ∈ (expandEmit w fctx o e).1) : isExempt t = false := by
  cases e with
  | tag m ex => simp [expandEmit] at ht; subst ht; rfl
  | crash _ => simp [expandEmit] at ht
  | fmt name info =>
    simp only [expandEmit] at ht
    split at ht
    · simp only [List.mem_map] at ht; obtain ⟨_, _, rfl⟩ := ht; rfl
    · simp at ht

theorem expandFinal_not_date (e : Msg.Emit) (t : RTag) (ht : t ∈ (expandFinal e).1) : isExempt t = false := by
  cases e <;> simp [expandFinal] at ht
  subst ht; rfl

theorem messagesStage_clean (w : World) : Clean (messagesStage w) := by
  intro s
  refine ⟨rfl, fun _ t ht => ?_⟩
  simp only [messagesStage, messagesOut] at ht
  obtain ⟨p, hp, hm⟩ := seqEmits_mem _ t ht
  simp only [List.mem_append, List.mem_flatMap, List.mem_map] at hp
  rcases hp with ⟨q, _, e, _, rfl⟩ | ⟨e, _, rfl⟩
  · exact expandEmit_not_date w _ _ e t hm
  · exact expandFinal_not_date e t hm

theorem pipeline_clean (w : World) : ∀ st ∈ pipeline w, Clean st := by
  intro st hm
  simp only [pipeline, List.mem_cons, List.not_mem_nil, or_false] at hm
  rcases hm with rfl | rfl | rfl | rfl | rfl | rfl | rfl | rfl | rfl | rfl
  · exact commentsStage_clean w
  · exact headersStage_clean w
  · exact languageStage_clean w
  · exact pluralsStage_clean w
  · exact mimeStage_clean w
  · exact resetStage_clean
  · exact datesStage_clean w
  · exact projectStage_clean w
  · exact translatorStage_clean w
  · exact messagesStage_clean w

theorem runStages_clean (l : List (Stage (BinFlags × RCtx) RTag)) (h : ∀ st ∈ l, Clean st) (s : BinFlags × RCtx)
    (hb : s.1.isBinary = true) : ∀ t ∈ (runStages l s).1, isExempt t = false := by
  induction l generalizing s with
  | nil => simp [runStages]
  | cons st rest ih =>
    obtain ⟨h1, h2⟩ := h st (by simp) s
    unfold runStages
    rcases hst : st s with ⟨s1, o1, r1⟩
    rw [hst] at h1 h2
    simp only at h1 h2
    cases r1 with
    | true => exact h2 hb
    | false =>
      intro t ht
      simp only [List.mem_append] at ht
      rcases ht with ht | ht
      · exact h2 hb t ht
      · exact ih (fun st' hm => h st' (List.mem_cons_of_mem _ hm)) s1 (by rw [h1]; exact hb) t ht

theorem filter_notExempt_self (l : List RTag) (h : ∀ t ∈ l, isExempt t = false) : l.filter notExempt = l :=
  List.filter_eq_self.mpr (fun t ht => by simp [notExempt, h t ht])

/-! ### the header stages of the pipeline are C15's `Hdr.checkAll` -/

/-- `Hdr.checkAll` (the model C15's `header_tags_eq` / `hdr_nocrash` are about) returns exactly the calls the pipeline's
    `check_comments`, `check_headers`, `check_mime`, `check_dates`, `check_project`, `check_translator` stages make on the same
    `ctx`, in that order (in the pipeline `check_language` and `check_plurals` run between `check_headers` and `check_mime`,
    and what `check_language` leaves in `ctx.language` selects the charset fragment `cs`) -/
theorem checkAll_decomposes (x : Hdr.Ext) (cs : Hdr.CharsetCheck) (now : Int) (f : Hdr.File) (ts : List TagCall) :
    Hdr.checkAll x cs now f = some ts ↔
      ∃ h mime dates, Hdr.checkHeaders x f.kind.isTemplate f.entries = some h ∧ Hdr.checkMime x.db cs h.metadata = .ok mime ∧
        Date.checkDates (Hdr.dateCtx f.kind h.metadata now) = some dates ∧
        ts = Hdr.checkComments x.db f.kind.isTemplate f.comments ++ h.tags ++ mime.tags ++ dates.map Hdr.ofDateTag
              ++ Hdr.checkProject x h.metadata ++ Hdr.checkTranslator x f.kind.isTemplate h.metadata := by
  unfold Hdr.checkAll
  simp only
  cases hh : Hdr.checkHeaders x f.kind.isTemplate f.entries with
  | none => simp
  | some h =>
    cases hm : Hdr.checkMime x.db cs h.metadata with
    | error e => cases e; simp [hm]
    | ok mime =>
      cases hd : Date.checkDates (Hdr.dateCtx f.kind h.metadata now) with
      | none => simp [hm, hd]
      | some dates =>
        simp only [hm, hd, Option.some.injEq]
        constructor
        · intro e; exact ⟨h, mime, dates, rfl, hm, hd, e.symm⟩
        · rintro ⟨h', mime', dates', e1, e2, e3, e4⟩
          subst e1
          rw [hm] at e2; rw [hd] at e3
          injection e2 with e2; injection e3 with e3
          subst e2 e3
          exact e4.symm

/-! ### a PO catalog and the MO catalog compiled from it -/

/-- the PO entry (C10's `Po.Entry`) of a message without PO-only features, from the message as an MO file holds it -/
def poOfMo (e : Mo.Entry) : Po.Entry :=
  match e.body with
  | .singular s => { msgctxt := e.msgctxt, msgid := e.msgid, msgstr := some s }
  | .plural p fs => { msgctxt := e.msgctxt, msgid := e.msgid, msgidPlural := some p, msgstrPlural := enumerate 0 fs }

/-- lib/check/ cannot tell the two loaders' entries apart, for a translated message -/
theorem observe_poOfMo (e : Mo.Entry) (h : Translated e) : observe (ofPoEntry (poOfMo e)) = observe (ofMo e) := by
  unfold Translated at h
  unfold poOfMo ofPoEntry ofMo observe Po.translated
  cases hb : e.body with
  | singular s =>
    rw [hb] at h
    cases s with
    | nil => exact absurd rfl h
    | cons c t => simp
  | plural p fs =>
    rw [hb] at h
    simp only at h
    have := enumerate_any (fun x => !x.isEmpty) 0 fs
    have h' : (fs.any fun x => !x.isEmpty) = true := by
      rw [← h]; congr 1; funext x; cases x <;> rfl
    simp [this, h']

theorem observe_content (e : Po.Entry) : observe (ofPoEntry (Lemmas.PoCatalog.content e)) = observe (ofPoEntry e) := rfl

end I18n.Meta.Real
