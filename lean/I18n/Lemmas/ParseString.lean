import I18n.Lemmas.ParseAmb
import I18n.Lemmas.LexSpec
/-! End to end on strings: `PluralParse.parse` (= `gettext.parse_plural_expression`) against the token
    specification composed with the grammars. -/
namespace I18n.PluralParse
open I18n I18n.Spec

theorem parse_ok_iff (s : List Char) (e : Expr) : parse s = .ok e ↔ ∃ ts, Tokens s ts ∧ D 0 ts e := by
  unfold parse
  constructor
  · intro h
    cases hl : lex s with
    | syntaxError => simp [hl] at h
    | valueError => simp [hl] at h
    | ok ts =>
      simp only [hl] at h
      cases hp : parseToks ts with
      | none => simp [hp] at h
      | some e' =>
        simp only [hp, ParseResult.ok.injEq] at h
        subst h
        exact ⟨ts, (lex_iff_tokens s ts).1 hl, parseToks_sound hp⟩
  · rintro ⟨ts, ht, d⟩
    simp [(lex_iff_tokens s ts).2 ht, parseToks_complete d]

theorem parse_accepts_iff (s : List Char) : (∃ e, parse s = .ok e) ↔ ∃ ts, Tokens s ts ∧ Amb ts := by
  constructor
  · rintro ⟨e, h⟩
    obtain ⟨ts, ht, d⟩ := (parse_ok_iff s e).1 h
    exact ⟨ts, ht, D_amb d⟩
  · rintro ⟨ts, ht, ha⟩
    obtain ⟨e, d⟩ := (derivable_iff_amb ts).2 ha
    exact ⟨e, (parse_ok_iff s e).2 ⟨ts, ht, d⟩⟩

theorem parse_never_valueError (s : List Char) : parse s ≠ .valueError := by
  unfold parse
  cases hl : lex s with
  | syntaxError => simp
  | valueError => exact absurd hl (lexGo_never_valueError _ s none (Nat.le_refl _))
  | ok ts => cases hp : parseToks ts <;> simp [hp]

theorem parse_syntaxError_iff (s : List Char) : parse s = .syntaxError ↔ ¬ ∃ ts, Tokens s ts ∧ Amb ts := by
  rw [← parse_accepts_iff]
  constructor
  · rintro h ⟨e, he⟩
    rw [h] at he
    cases he
  · intro h
    cases hp : parse s with
    | ok e => exact absurd ⟨e, hp⟩ h
    | syntaxError => rfl
    | valueError => exact absurd hp (parse_never_valueError s)

end I18n.PluralParse
