import I18n.Lemmas.CharsetCheck
/-!
# C20: the charset fragment of `check_headers`, clause by clause
-/
namespace I18n.Charset

def Tag.isUnknown : Tag → Bool | .unknownEncoding _ => true | _ => false
def Tag.isNonAscii : Tag → Bool | .nonAsciiCompatible _ => true | _ => false
def Tag.isNonPortable : Tag → Bool | .nonPortable _ _ => true | _ => false
def Tag.isUnrep : Tag → Bool | .unrepresentable _ _ => true | _ => false
def Tag.isBoilerplate : Tag → Bool | .boilerplate => true | _ => false

theorem checkCharset_unknown (env : Env) (encoding : Name) (isTemplate : Bool)
    (characters : Option (Option (List (List Nat))))
    (hac : isAsciiCompatible env.interestingStr (env.dec encoding) false = .error ()) :
    checkCharset env encoding isTemplate characters =
      .ok (if encoding = charsetLiteral then (if isTemplate then [] else [.boilerplate]) else [.unknownEncoding encoding], none) := by
  unfold checkCharset
  simp only [hac]
  split <;> rfl

/-- the classification step of the fragment (before the language's characters are looked at) -/
def classifyStep (env : Env) (encoding : Name) (compatible : Bool) : Except Unit (List Tag × Name) :=
  if !compatible then .ok ([.nonAsciiCompatible encoding], encoding)
  else if isPortable env.tbl true encoding then .ok ([], encoding)
  else match propose env.tbl env.c2e env.lookup encoding with
    | .error () => .error ()
    | .ok (some p) => .ok ([.nonPortable encoding (some p)], p)
    | .ok none => .ok ([.nonPortable encoding none], encoding)

/-- the last step: the `unrepresentable-characters` tag -/
def unrepStep (env : Env) (tags : List Tag) (enc : Name) (characters : Option (Option (List (List Nat)))) :
    Except Unit (List Tag × Option Name) :=
  match characters with
  | none | some none => .ok (tags, some enc)
  | some (some chars) =>
    match getUnrepresentable (env.encode enc) chars with
    | .error () => .error ()
    | .ok [] => .ok (tags, some enc)
    | .ok u => .ok (tags ++ [.unrepresentable enc (truncateChars u)], some enc)

theorem checkCharset_known (env : Env) (encoding : Name) (isTemplate : Bool)
    (characters : Option (Option (List (List Nat)))) (compatible : Bool)
    (hac : isAsciiCompatible env.interestingStr (env.dec encoding) false = .ok compatible) :
    checkCharset env encoding isTemplate characters =
      match classifyStep env encoding compatible with
      | .error () => .error ()
      | .ok (tags, enc) => unrepStep env tags enc characters := by
  unfold checkCharset classifyStep unrepStep
  simp only [hac]
  rfl

/-- what the classification step emits: one of four shapes -/
theorem classifyStep_shape (env : Env) (encoding : Name) (compatible : Bool) (tags : List Tag) (enc : Name)
    (h : classifyStep env encoding compatible = .ok (tags, enc)) :
    (compatible = false ∧ tags = [.nonAsciiCompatible encoding] ∧ enc = encoding) ∨
    (compatible = true ∧ isPortable env.tbl true encoding = true ∧ tags = [] ∧ enc = encoding) ∨
    (compatible = true ∧ isPortable env.tbl true encoding = false ∧ tags = [.nonPortable encoding none] ∧ enc = encoding ∧
      propose env.tbl env.c2e env.lookup encoding = .ok none) ∨
    (compatible = true ∧ isPortable env.tbl true encoding = false ∧ tags = [.nonPortable encoding (some enc)] ∧
      propose env.tbl env.c2e env.lookup encoding = .ok (some enc) ∧ isPortable env.tbl true enc = true) := by
  unfold classifyStep at h
  cases compatible with
  | false =>
    simp only [Bool.not_false, if_true] at h
    cases h
    exact .inl ⟨rfl, rfl, rfl⟩
  | true =>
    simp only [Bool.not_true, Bool.false_eq_true, if_false] at h
    split at h
    · rename_i hp
      cases h
      exact .inr (.inl ⟨rfl, hp, rfl, rfl⟩)
    · rename_i hp
      have hp' : isPortable env.tbl true encoding = false := by simpa using hp
      split at h
      · cases h
      · rename_i p hprop
        cases h
        exact .inr (.inr (.inr ⟨rfl, hp', rfl, hprop, propose_portable _ _ _ _ _ hprop⟩))
      · rename_i hprop
        cases h
        exact .inr (.inr (.inl ⟨rfl, hp', rfl, rfl, hprop⟩))

/-- what the last step adds: nothing, or one `unrepresentable-characters` tag for a non-empty result -/
theorem unrepStep_shape (env : Env) (tags1 : List Tag) (enc : Name) (characters : Option (Option (List (List Nat))))
    (tags : List Tag) (kept : Option Name) (h : unrepStep env tags1 enc characters = .ok (tags, kept)) :
    kept = some enc ∧
    ((tags = tags1 ∧ (characters = none ∨ characters = some none ∨
        ∃ chars, characters = some (some chars) ∧ getUnrepresentable (env.encode enc) chars = .ok [])) ∨
     (∃ chars u, characters = some (some chars) ∧ getUnrepresentable (env.encode enc) chars = .ok u ∧ u ≠ [] ∧
        tags = tags1 ++ [.unrepresentable enc (truncateChars u)])) := by
  unfold unrepStep at h
  split at h
  · cases h; exact ⟨rfl, .inl ⟨rfl, .inl rfl⟩⟩
  · cases h; exact ⟨rfl, .inl ⟨rfl, .inr (.inl rfl)⟩⟩
  · rename_i chars
    split at h
    · cases h
    · rename_i hg
      cases h; exact ⟨rfl, .inl ⟨rfl, .inr (.inr ⟨chars, rfl, hg⟩)⟩⟩
    · rename_i u hne hg
      cases h
      refine ⟨rfl, .inr ⟨chars, u, rfl, hg, ?_, rfl⟩⟩
      intro hu; subst hu; exact hne rfl

/-- the codec behaves on the language's characters: Unicode errors only, not the iconv(1) fall-back, and a concatenation
    encodes only if every piece does -/
structure EncodeOk (encode : List Nat → Enc) (chars : List (List Nat)) : Prop where
  pieces : ∀ c ∈ chars, encode c = .ok ∨ encode c = .encodeError false
  joined : encode chars.flatten ≠ .crash
  prefixClosed : encode chars.flatten = .ok → ∀ c ∈ chars, encode c = .ok

theorem truncateChars_ne_nil (u : List (List Nat)) (h : u ≠ []) : truncateChars u ≠ [] := by
  unfold truncateChars
  split
  · simp
  · exact h

/-- decomposition of a successful run of the fragment on a name for which a usable codec exists -/
theorem checkCharset_known_shape (env : Env) (encoding : Name) (isTemplate : Bool)
    (characters : Option (Option (List (List Nat)))) (compatible : Bool) (tags : List Tag) (kept : Option Name)
    (hac : isAsciiCompatible env.interestingStr (env.dec encoding) false = .ok compatible)
    (h : checkCharset env encoding isTemplate characters = .ok (tags, kept)) :
    ∃ tags1 enc, classifyStep env encoding compatible = .ok (tags1, enc) ∧ unrepStep env tags1 enc characters = .ok (tags, kept) := by
  rw [checkCharset_known env encoding isTemplate characters compatible hac] at h
  cases hc : classifyStep env encoding compatible with
  | error u => cases u; simp [hc] at h
  | ok r => obtain ⟨tags1, enc⟩ := r; simp only [hc] at h; exact ⟨tags1, enc, rfl, h⟩

theorem checkCharset_classification (env : Env) (encoding : Name) (isTemplate : Bool)
    (characters : Option (Option (List (List Nat)))) (tags : List Tag) (kept : Option Name)
    (h : checkCharset env encoding isTemplate characters = .ok (tags, kept)) :
    (tags.any Tag.isUnknown = true ↔
      (isAsciiCompatible env.interestingStr (env.dec encoding) false = .error () ∧ encoding ≠ charsetLiteral)) ∧
    (tags.any Tag.isBoilerplate = true ↔
      (isAsciiCompatible env.interestingStr (env.dec encoding) false = .error () ∧ encoding = charsetLiteral ∧ isTemplate = false)) ∧
    (tags.any Tag.isNonAscii = true ↔ isAsciiCompatible env.interestingStr (env.dec encoding) false = .ok false) ∧
    (tags.any Tag.isNonPortable = true ↔
      (isAsciiCompatible env.interestingStr (env.dec encoding) false = .ok true ∧ isPortable env.tbl true encoding = false)) ∧
    (kept = none ↔ isAsciiCompatible env.interestingStr (env.dec encoding) false = .error ()) ∧
    (∀ e p, Tag.nonPortable e (some p) ∈ tags → e = encoding ∧ isPortable env.tbl true p = true ∧ kept = some p) := by
  cases hac : isAsciiCompatible env.interestingStr (env.dec encoding) false with
  | error u =>
    cases u
    rw [checkCharset_unknown env encoding isTemplate characters hac] at h
    by_cases hcl : encoding = charsetLiteral
    · simp only [hcl, if_true] at h
      cases isTemplate
      · simp only [Bool.false_eq_true, if_false] at h
        cases h
        simp [Tag.isUnknown, Tag.isBoilerplate, Tag.isNonAscii, Tag.isNonPortable, hcl]
      · simp only [if_true] at h
        cases h
        simp [hcl]
    · simp only [hcl, if_false] at h
      cases h
      simp [Tag.isUnknown, Tag.isBoilerplate, Tag.isNonAscii, Tag.isNonPortable, hcl]
  | ok compatible =>
    obtain ⟨tags1, enc, hc, hu⟩ := checkCharset_known_shape env encoding isTemplate characters compatible tags kept hac h
    obtain ⟨hk, hshape⟩ := unrepStep_shape env tags1 enc characters tags kept hu
    have hcs := classifyStep_shape env encoding compatible tags1 enc hc
    subst hk
    rcases hshape with ⟨rfl, _⟩ | ⟨chars, u, _, _, _, rfl⟩ <;>
      rcases hcs with ⟨rfl, rfl, rfl⟩ | ⟨rfl, hp, rfl, rfl⟩ | ⟨rfl, hp, rfl, rfl, _⟩ | ⟨rfl, hp, rfl, _, hpp⟩ <;>
      simp_all [Tag.isUnknown, Tag.isBoilerplate, Tag.isNonAscii, Tag.isNonPortable]

/-- every run that keeps an encoding used exactly that encoding for the character test, and emitted the tag exactly
    for a non-empty result -/
theorem checkCharset_unrep_shape (env : Env) (encoding : Name) (isTemplate : Bool) (chars : List (List Nat))
    (tags : List Tag) (kept : Name)
    (h : checkCharset env encoding isTemplate (some (some chars)) = .ok (tags, some kept)) :
    ∃ u, getUnrepresentable (env.encode kept) chars = .ok u ∧
      (u = [] → tags.any Tag.isUnrep = false) ∧
      (u ≠ [] → Tag.unrepresentable kept (truncateChars u) ∈ tags) ∧
      (∀ e cs, Tag.unrepresentable e cs ∈ tags → e = kept ∧ cs = truncateChars u ∧ u ≠ []) := by
  cases hac : isAsciiCompatible env.interestingStr (env.dec encoding) false with
  | error u =>
    cases u
    rw [checkCharset_unknown env encoding isTemplate _ hac] at h
    cases h
  | ok compatible =>
    obtain ⟨tags1, enc, hc, hu⟩ := checkCharset_known_shape env encoding isTemplate _ compatible tags _ hac h
    obtain ⟨hk, hshape⟩ := unrepStep_shape env tags1 enc _ tags _ hu
    have hcs := classifyStep_shape env encoding compatible tags1 enc hc
    cases hk
    have h1 : tags1.any Tag.isUnrep = false ∧ ∀ e cs, Tag.unrepresentable e cs ∉ tags1 := by
      rcases hcs with ⟨_, rfl, _⟩ | ⟨_, _, rfl, _⟩ | ⟨_, _, rfl, _, _⟩ | ⟨_, _, rfl, _, _⟩ <;> simp [Tag.isUnrep]
    rcases hshape with ⟨rfl, hch⟩ | ⟨chars', u, hch, hg, hne, rfl⟩
    · rcases hch with hch | hch | ⟨chars', hch, hg⟩
      · cases hch
      · cases hch
      · cases hch
        exact ⟨[], hg, fun _ => h1.1, fun hne => (hne rfl).elim, fun e cs hm => (h1.2 e cs hm).elim⟩
    · cases hch
      refine ⟨u, hg, fun hu => (hne hu).elim, fun _ => by simp, ?_⟩
      intro e cs hm
      rw [List.mem_append] at hm
      rcases hm with hm | hm
      · exact (h1.2 e cs hm).elim
      · simp at hm
        exact ⟨hm.1, hm.2, hne⟩

/-- **`unrepresentable-characters` is reported iff some listed non-optional character cannot be encoded in the charset the
    fragment keeps**, and then it lists exactly those characters (cut to four plus an ellipsis when there are more than five) -/
theorem checkCharset_unrepresentable_iff (env : Env) (encoding : Name) (isTemplate : Bool) (chars : List (List Nat))
    (tags : List Tag) (kept : Name)
    (h : checkCharset env encoding isTemplate (some (some chars)) = .ok (tags, some kept))
    (hk : EncodeOk (env.encode kept) chars) :
    (tags.any Tag.isUnrep = true ↔ ∃ c ∈ chars, env.encode kept c ≠ .ok) ∧
    (∀ e cs, Tag.unrepresentable e cs ∈ tags →
      e = kept ∧ cs = truncateChars (chars.filter fun c => env.encode kept c != .ok)) := by
  obtain ⟨u, hg, h0, h1, h2⟩ := checkCharset_unrep_shape env encoding isTemplate chars tags kept h
  have hspec := getUnrepresentable_spec (env.encode kept) chars hk.pieces hk.joined hk.prefixClosed
  rw [hspec] at hg
  cases hg
  constructor
  · constructor
    · intro ht
      by_cases hnil : (chars.filter fun c => env.encode kept c != .ok) = []
      · rw [h0 hnil] at ht; cases ht
      · rw [List.filter_eq_nil_iff] at hnil
        simp only [Classical.not_forall] at hnil
        obtain ⟨c, hc, hne⟩ := hnil
        exact ⟨c, hc, by simpa using hne⟩
    · rintro ⟨c, hc, hne⟩
      have hnn : (chars.filter fun c => env.encode kept c != .ok) ≠ [] := by
        intro hnil
        rw [List.filter_eq_nil_iff] at hnil
        have := hnil c hc
        simp at this
        exact hne this
      have := h1 hnn
      rw [List.any_eq_true]
      exact ⟨_, this, rfl⟩
  · intro e cs hm
    have := h2 e cs hm
    exact ⟨this.1, this.2.1⟩

/-- the fragment itself never crashes when the `assert` of the proposal cannot fire and the codec behaves -/
theorem checkCharset_total (env : Env) (encoding : Name) (isTemplate : Bool) (characters : Option (Option (List (List Nat))))
    (hassert : ∀ kv ∈ env.c2e, isPortable env.tbl true kv.2 = true)
    (henc : ∀ enc chars, characters = some (some chars) → EncodeOk (env.encode enc) chars) :
    ∃ r, checkCharset env encoding isTemplate characters = .ok r := by
  cases hac : isAsciiCompatible env.interestingStr (env.dec encoding) false with
  | error u => cases u; exact ⟨_, checkCharset_unknown env encoding isTemplate characters hac⟩
  | ok compatible =>
    rw [checkCharset_known env encoding isTemplate characters compatible hac]
    have hna := propose_no_assert env.tbl env.c2e env.lookup hassert encoding
    have hcl : ∃ t e, classifyStep env encoding compatible = .ok (t, e) := by
      unfold classifyStep
      split
      · exact ⟨_, _, rfl⟩
      · split
        · exact ⟨_, _, rfl⟩
        · split
          · rename_i hp; exact (hna hp).elim
          · exact ⟨_, _, rfl⟩
          · exact ⟨_, _, rfl⟩
    obtain ⟨t, e, hcl⟩ := hcl
    simp only [hcl]
    unfold unrepStep
    split
    · exact ⟨_, rfl⟩
    · exact ⟨_, rfl⟩
    · rename_i chars
      have hk := henc e chars rfl
      rw [getUnrepresentable_spec (env.encode e) chars hk.pieces hk.joined hk.prefixClosed]
      split
      · rename_i hh; cases hh
      · exact ⟨_, rfl⟩
      · exact ⟨_, rfl⟩

end I18n.Charset
