import I18n.Lemmas.HdrLines
/-
C15 lemmas, part 6: the scanner `matchContentType` for `(\Atext/plain; )?\bcharset=([^\s;]+)\Z` under `re.search`
returns the full form if the value has it, else the left-most (= longest) `charset=` parameter at the end of the value
(`CharsetOf`), and `none` iff the value has no such parameter at all.
-/
set_option linter.unusedSimpArgs false
namespace I18n.Hdr
open I18n.Spec.HeaderRules I18n.Date I18n.Generated

def csLit : Str := ['c','h','a','r','s','e','t','=']
def tpLit : Str := ['t','e','x','t','/','p','l','a','i','n',';',' ']
theorem csLit_eq : "charset=".toList = csLit := by decide
theorem tpLit_eq : "text/plain; ".toList = tpLit := by decide
theorem tpcs_eq : "text/plain; charset=".toList = tpLit ++ csLit := by decide
theorem csLit_length : csLit.length = 8 := rfl
theorem csLit_head (enc : Str) : (csLit ++ enc).head? = some 'c' := rfl

theorem charsetAt_iff (db : UDB) (rest enc : Str) :
    charsetAt db rest = some enc ↔ rest = csLit ++ enc ∧ ValidEnc db enc := by
  unfold charsetAt ValidEnc
  rw [csLit_eq]
  cases hs : stripPrefix csLit rest with
  | none =>
    simp only [false_iff, reduceCtorEq]
    rintro ⟨e, _⟩
    have := (stripPrefix_eq_some csLit rest enc).2 e
    rw [this] at hs; cases hs
  | some e0 =>
    have he := (stripPrefix_eq_some _ _ _).1 hs
    simp only []
    constructor
    · intro h
      split at h
      · rename_i hv
        injection h with h; subst h
        simp only [Bool.and_eq_true, Bool.not_eq_true', List.all_eq_true, bne_iff_ne, ne_eq, List.isEmpty_iff] at hv
        refine ⟨he, ?_, fun c hc => ?_⟩
        · intro e1; exact absurd e1 (by simpa using hv.1)
        · have := hv.2 c hc; exact ⟨by simpa using this.1, this.2⟩
      · cases h
    · rintro ⟨e, hne, hall⟩
      have : e0 = enc := by
        have := he.symm.trans e
        exact List.append_cancel_left this
      subst this
      have hv : (!e0.isEmpty && e0.all fun c => !db.isSpace c && c != ';') = true := by
        simp only [Bool.and_eq_true, Bool.not_eq_true', List.all_eq_true, bne_iff_ne, ne_eq, List.isEmpty_iff]
        refine ⟨by simpa using hne, fun c hc => ?_⟩
        have := hall c hc
        exact ⟨by simp [this.1], this.2⟩
      rw [if_pos hv]

def lastOr (prev : Option Char) (pre : Str) : Option Char :=
  match pre.getLast? with
  | some c => some c
  | none => prev

/-- a `\bcharset=<enc>\Z` match of `s` after the prefix `pre` (`prev` = the character before `s`) -/
def MatchAt (db : UDB) (prev : Option Char) (s pre enc : Str) : Prop :=
  s = pre ++ csLit ++ enc ∧ ValidEnc db enc ∧ boundary db (lastOr prev pre) (some 'c') = true

def SearchSpec (db : UDB) (prev : Option Char) (s : Str) : Option Str → Prop
  | some enc => ∃ pre, MatchAt db prev s pre enc ∧ ∀ pre' enc', MatchAt db prev s pre' enc' → pre.length ≤ pre'.length
  | none => ∀ pre enc, ¬ MatchAt db prev s pre enc

theorem lastOr_cons (prev : Option Char) (c : Char) (pre : Str) : lastOr prev (c :: pre) = lastOr (some c) pre := by
  unfold lastOr
  cases pre with
  | nil => simp
  | cons d r =>
    rw [List.getLast?_cons_cons]
    cases h : (d :: r).getLast? with
    | some x => rfl
    | none => simp at h

theorem matchAt_cons (db : UDB) (prev : Option Char) (c : Char) (cs pre enc : Str) :
    MatchAt db prev (c :: cs) (c :: pre) enc ↔ MatchAt db (some c) cs pre enc := by
  unfold MatchAt
  rw [lastOr_cons]
  simp

theorem charsetSearch_spec (db : UDB) (prev : Option Char) (s : Str) :
    SearchSpec db prev s (charsetSearch db prev s) := by
  induction s generalizing prev with
  | nil =>
    have : charsetSearch db prev [] = none := by
      unfold charsetSearch
      split
      · unfold charsetAt; rfl
      · rfl
    rw [this]
    intro pre enc h
    have := congrArg List.length h.1
    simp [csLit_length] at this
    omega
  | cons c cs ih =>
    unfold charsetSearch
    cases hfirst : (if boundary db prev (some c) = true then charsetAt db (c :: cs) else none) with
    | some enc =>
      simp only []
      have hb : boundary db prev (some c) = true := by
        by_cases hb : boundary db prev (some c) = true
        · exact hb
        · rw [if_neg hb] at hfirst; cases hfirst
      rw [if_pos hb] at hfirst
      obtain ⟨e, hv⟩ := (charsetAt_iff db _ _).1 hfirst
      have hc : c = 'c' := by
        have := congrArg List.head? e
        rw [csLit_head] at this; simpa using this
      refine ⟨[], ⟨by simpa using e, hv, by simpa [lastOr, hc] using hb⟩, fun _ _ _ => by simp⟩
    | none =>
      simp only []
      have hno : ∀ enc, ¬ MatchAt db prev (c :: cs) [] enc := by
        rintro enc ⟨e, hv, hb⟩
        have e' : c :: cs = csLit ++ enc := by simpa using e
        have hc : c = 'c' := by
          have := congrArg List.head? e'
          rw [csLit_head] at this; simpa using this
        have hb' : boundary db prev (some c) = true := by simpa [lastOr, hc] using hb
        rw [if_pos hb', (charsetAt_iff db _ _).2 ⟨e', hv⟩] at hfirst
        cases hfirst
      have hpre : ∀ pre enc, MatchAt db prev (c :: cs) pre enc → ∃ pre', pre = c :: pre' := by
        intro pre enc h
        cases pre with
        | nil => exact absurd h (hno enc)
        | cons d r =>
          have := h.1
          simp only [List.cons_append, List.cons.injEq] at this
          exact ⟨r, by rw [this.1]⟩
      have := ih (some c)
      cases hr : charsetSearch db (some c) cs with
      | none =>
        rw [hr] at this
        intro pre enc h
        obtain ⟨pre', rfl⟩ := hpre pre enc h
        exact this pre' enc ((matchAt_cons db prev c cs pre' enc).1 h)
      | some enc =>
        rw [hr] at this
        obtain ⟨pre, hm, hmin⟩ := this
        refine ⟨c :: pre, (matchAt_cons db prev c cs pre enc).2 hm, ?_⟩
        intro pre2 enc2 h2
        obtain ⟨pre2', rfl⟩ := hpre pre2 enc2 h2
        have := hmin pre2' enc2 ((matchAt_cons db prev c cs pre2' enc2).1 h2)
        simp only [List.length_cons]; omega

theorem matchAt_det (db : UDB) (prev : Option Char) (s pre enc pre' enc' : Str)
    (h : MatchAt db prev s pre enc) (h' : MatchAt db prev s pre' enc') (hl : pre.length = pre'.length) : enc = enc' := by
  have e : pre ++ (csLit ++ enc) = pre' ++ (csLit ++ enc') := by
    rw [← List.append_assoc, ← List.append_assoc, ← h.1, ← h'.1]
  have := List.append_inj e hl
  exact List.append_cancel_left this.2

theorem searchSpec_unique (db : UDB) (prev : Option Char) (s : Str) (r r' : Option Str)
    (h : SearchSpec db prev s r) (h' : SearchSpec db prev s r') : r = r' := by
  cases r with
  | none =>
    cases r' with
    | none => rfl
    | some enc' => obtain ⟨pre', hm, _⟩ := h'; exact absurd hm (h pre' enc')
  | some enc =>
    cases r' with
    | none => obtain ⟨pre, hm, _⟩ := h; exact absurd hm (h' pre enc)
    | some enc' =>
      obtain ⟨pre, hm, hmin⟩ := h
      obtain ⟨pre', hm', hmin'⟩ := h'
      have l1 := hmin pre' enc' hm'
      have l2 := hmin' pre enc hm
      rw [matchAt_det db prev s pre enc pre' enc' hm hm' (by omega)]

theorem matchAt_none_iff (db : UDB) (ct pre enc : Str) :
    MatchAt db none ct pre enc ↔ (ct = pre ++ csLit ++ enc ∧ ValidEnc db enc ∧ boundary db pre.getLast? (some 'c') = true) := by
  unfold MatchAt lastOr
  cases pre.getLast? <;> rfl

theorem charsetParam_false_iff (db : UDB) (ct enc : Str) :
    CharsetParam db ct false enc ↔ ∃ pre, MatchAt db none ct pre enc := by
  unfold CharsetParam
  rw [csLit_eq]
  simp only [Bool.false_eq_true, false_and, false_or, true_and, matchAt_none_iff]
  constructor
  · rintro ⟨hv, pre, e, hb⟩; exact ⟨pre, e, hv, hb⟩
  · rintro ⟨pre, e, hv, hb⟩; exact ⟨hv, pre, e, hb⟩

theorem matchAt_len (db : UDB) (prev : Option Char) (s pre enc : Str) (h : MatchAt db prev s pre enc) :
    s.length = pre.length + 8 + enc.length := by
  have := congrArg List.length h.1
  simp [csLit_length] at this
  omega

theorem charsetParam_true_iff (db : UDB) (ct enc : Str) :
    CharsetParam db ct true enc ↔
      ∃ rest, stripPrefix tpLit ct = some rest ∧ boundary db (some ' ') rest.head? = true ∧ charsetAt db rest = some enc := by
  unfold CharsetParam
  rw [tpcs_eq]
  simp only [true_and, Bool.true_eq_false, false_and, or_false]
  constructor
  · rintro ⟨hv, e, hb⟩
    refine ⟨csLit ++ enc, (stripPrefix_eq_some _ _ _).2 (by rw [e]; simp), by rw [csLit_head]; exact hb, (charsetAt_iff db _ _).2 ⟨rfl, hv⟩⟩
  · rintro ⟨rest, hs, hb, hc⟩
    obtain ⟨e, hv⟩ := (charsetAt_iff db _ _).1 hc
    have e2 := (stripPrefix_eq_some _ _ _).1 hs
    subst e
    rw [csLit_head] at hb
    exact ⟨hv, by rw [e2]; simp, hb⟩

/-- what `matchContentType` returns, declaratively -/
def CtSpec (db : UDB) (ct : Str) : Option (Bool × Str) → Prop
  | some (full, enc) => CharsetOf db ct full enc
  | none => ∀ full enc, ¬ CharsetParam db ct full enc

theorem searchFalse (db : UDB) (ct : Str) (hnofull : ∀ e, ¬ CharsetParam db ct true e) :
    CtSpec db ct ((charsetSearch db none ct).map fun enc => (false, enc)) := by
  have hs := charsetSearch_spec db none ct
  cases hr : charsetSearch db none ct with
  | none =>
    rw [hr] at hs
    intro full enc h
    cases full with
    | true => exact hnofull enc h
    | false =>
      obtain ⟨pre, hm⟩ := (charsetParam_false_iff db ct enc).1 h
      exact hs pre enc hm
  | some enc =>
    rw [hr] at hs
    obtain ⟨pre, hm, hmin⟩ := hs
    refine ⟨(charsetParam_false_iff db ct enc).2 ⟨pre, hm⟩, fun _ => ⟨hnofull, ?_⟩⟩
    intro e' h'
    obtain ⟨pre', hm'⟩ := (charsetParam_false_iff db ct e').1 h'
    have := hmin pre' e' hm'
    have l1 := matchAt_len db none ct pre enc hm
    have l2 := matchAt_len db none ct pre' e' hm'
    omega

/-- **content_type_form**: the scanner computes the declared charset as the rule set defines it -/
theorem matchContentType_spec (db : UDB) (ct : Str) : CtSpec db ct (matchContentType db ct) := by
  unfold matchContentType
  rw [tpLit_eq]
  cases hs : stripPrefix tpLit ct with
  | none =>
    simp only []
    apply searchFalse
    intro e h
    obtain ⟨rest, hs', _⟩ := (charsetParam_true_iff db ct e).1 h
    rw [hs] at hs'; cases hs'
  | some rest =>
    simp only []
    cases hfirst : (if boundary db (some ' ') rest.head? = true then charsetAt db rest else none) with
    | some enc =>
      simp only []
      have hb : boundary db (some ' ') rest.head? = true := by
        by_cases hb : boundary db (some ' ') rest.head? = true
        · exact hb
        · rw [if_neg hb] at hfirst; cases hfirst
      rw [if_pos hb] at hfirst
      exact ⟨(charsetParam_true_iff db ct enc).2 ⟨rest, hs, hb, hfirst⟩, fun h => by cases h⟩
    | none =>
      simp only []
      apply searchFalse
      intro e h
      obtain ⟨rest', hs', hb, hc⟩ := (charsetParam_true_iff db ct e).1 h
      rw [hs] at hs'; injection hs' with hs'; subst hs'
      rw [if_pos hb, hc] at hfirst; cases hfirst

theorem ctSpec_unique (db : UDB) (ct : Str) (r r' : Option (Bool × Str)) (h : CtSpec db ct r) (h' : CtSpec db ct r') : r = r' := by
  have full_det : ∀ e e', CharsetParam db ct true e → CharsetParam db ct true e' → e = e' := by
    intro e e' h h'
    have a := h.2; have b := h'.2
    rw [tpcs_eq] at a b
    simp only [true_and, Bool.true_eq_false, false_and, or_false] at a b
    exact List.append_cancel_left (a.1.symm.trans b.1)
  have false_det : ∀ e e', CharsetParam db ct false e → CharsetParam db ct false e' → e.length = e'.length → e = e' := by
    intro e e' h h' hl
    obtain ⟨pre, hm⟩ := (charsetParam_false_iff db ct e).1 h
    obtain ⟨pre', hm'⟩ := (charsetParam_false_iff db ct e').1 h'
    have l1 := matchAt_len db none ct pre e hm
    have l2 := matchAt_len db none ct pre' e' hm'
    exact matchAt_det db none ct pre e pre' e' hm hm' (by omega)
  cases r with
  | none =>
    cases r' with
    | none => rfl
    | some p => obtain ⟨full, enc⟩ := p; exact absurd h'.1 (h full enc)
  | some p =>
    obtain ⟨full, enc⟩ := p
    cases r' with
    | none => exact absurd h.1 (h' full enc)
    | some p' =>
      obtain ⟨full', enc'⟩ := p'
      cases full <;> cases full'
      · have a := (h.2 rfl).2 enc' h'.1
        have b := (h'.2 rfl).2 enc h.1
        rw [false_det enc enc' h.1 h'.1 (by omega)]
      · exact absurd h'.1 ((h.2 rfl).1 enc')
      · exact absurd h.1 ((h'.2 rfl).1 enc)
      · rw [full_det enc enc' h.1 h'.1]

theorem matchContentType_some_iff (db : UDB) (ct : Str) (full : Bool) (enc : Str) :
    matchContentType db ct = some (full, enc) ↔ CharsetOf db ct full enc := by
  constructor
  · intro h; have := matchContentType_spec db ct; rw [h] at this; exact this
  · intro h; exact ctSpec_unique db ct _ _ (matchContentType_spec db ct) h

theorem matchContentType_none_iff (db : UDB) (ct : Str) :
    matchContentType db ct = none ↔ ¬ ∃ full enc, CharsetParam db ct full enc := by
  constructor
  · intro h; have := matchContentType_spec db ct; rw [h] at this
    rintro ⟨full, enc, hp⟩; exact this full enc hp
  · intro h
    exact ctSpec_unique db ct _ none (matchContentType_spec db ct) (fun full enc hp => h ⟨full, enc, hp⟩)

end I18n.Hdr
