import I18n.Generated.HdrChk
import I18n.Lemmas.HdrPyKit
import I18n.Lemmas.DomainsGenerated
import I18n.Lemmas.GettextHdrGenerated
/-!
# The header checks of `lib/check/__init__.py` regenerated = `Model/Hdr.lean`

`I18n.Generated.HdrChk` is rewritten by `tools/translate/hdrchk2lean.py` from the current source on every run.  The proofs unfold the
generated definitions through the macro the translator emits and never name a bound variable of the generated text.
-/
set_option linter.unusedSimpArgs false
set_option linter.unusedVariables false
namespace I18n.Hdr.Gen
open I18n I18n.Hdr I18n.Generated

/-! ### kit facts -/

theorem ddGet_meta (m : Meta) (k : Str) : HdrPy.ddGet m k = m.get k := by
  induction m with
  | nil => rfl
  | cons p m ih =>
    obtain ⟨k', vs⟩ := p
    by_cases h : k' = k
    · simp [HdrPy.ddGet, Meta.get, h, List.find?]
    · simp only [HdrPy.ddGet, h, if_false, ih]
      simp [Meta.get, List.find?, h]

theorem cast_gt_one (n : Nat) : ((n : Int) > (1 : Int)) ↔ n > 1 := by omega
theorem cast_eq_zero (n : Nat) : ((n : Int) = (0 : Int)) ↔ n = 0 := by omega
theorem cast_eq_one (n : Nat) : ((n : Int) = (1 : Int)) ↔ n = 1 := by omega

/-- a loop that cannot fail and emits `f x` per element -/
theorem forEach_emit {α : Type} (f : α → List TagCall) (body : α → List TagCall → Except Py.Exc (List TagCall))
    (hb : ∀ x out, body x out = .ok (out ++ f x)) (xs : List α) (out : List TagCall) :
    PyKit.forEach xs body out = .ok (out ++ xs.flatMap f) := by
  induction xs generalizing out with
  | nil => simp [PyKit.forEach]
  | cons x xs ih => simp [PyKit.forEach, hb, ih, List.append_assoc]

theorem special_eq (x : Ext) (a : Str) (h : a.contains '@' = true) :
    Generated.Domains.is_email_in_special_domain x.db.lower a = .ok (I18n.Domains.isEmailInSpecialDomain x.db.lower a) := by
  rw [I18n.Domains.Gen.is_email_in_special_domain_eq, if_pos (by simpa using h)]

theorem dotless_eq (a : Str) (h : a.contains '@' = true) :
    Generated.Domains.is_email_in_dotless_domain a = .ok (I18n.Domains.isEmailInDotlessDomain a) := by
  rw [I18n.Domains.Gen.is_email_in_dotless_domain_eq, if_pos (by simpa using h)]

/-- a conditional between two results that cannot fail is a result that cannot fail -/
theorem ite_ok {α : Type} (c : Prop) [Decidable c] (a b : α) :
    (if c then (Except.ok a : Except Py.Exc α) else .ok b) = .ok (if c then a else b) := by
  split <;> rfl

theorem ite_fst {α β : Type} (c : Prop) [Decidable c] (a b : α × β) : (if c then a else b).fst = if c then a.fst else b.fst := by
  split <;> rfl
theorem ite_snd {α β : Type} (c : Prop) [Decidable c] (a b : α × β) : (if c then a else b).snd = if c then a.snd else b.snd := by
  split <;> rfl

/-- one iteration of the Report-Msgid-Bugs-To loop -/
theorem tryExcept_urlScheme (x : Ext) (v : Str) :
    PyKit.tryExcept (HdrPy.urlScheme x v) (fun e => decide (e = Py.Exc.ValueError)) (Except.ok []) = .ok ((x.urlScheme v).getD []) := by
  unfold HdrPy.urlScheme PyKit.tryExcept
  cases x.urlScheme v <;> simp

theorem check_project_eq (x : Ext) (m : Meta) (out : List TagCall) :
    HdrChk.check_project x m out = .ok (out ++ checkProject x m) := by
  unfold_generated_hdrchk
  simp only [ddGet_meta, checkProject, projectIdTags, reportTags, Meta.getS]
  obtain ⟨vs, hvs⟩ : ∃ vs, m.get "Project-Id-Version".toList = vs := ⟨_, rfl⟩
  obtain ⟨rs, hrs⟩ : ∃ rs, m.get "Report-Msgid-Bugs-To".toList = rs := ⟨_, rfl⟩
  simp only [hvs, hrs]
  clear hvs hrs
  simp only [cast_gt_one, cast_eq_zero, decide_eq_true_eq, ite_ok]
  rw [forEach_emit (projectOne x.db) _ ?hb1]
  case hb1 =>
    intro v out
    simp only [ite_ok, projectOne]
    congr 1
    have e : (List.map String.toList HeaderFields.projectBoilerplate) = ["PACKAGE VERSION".toList, "PROJECT VERSION".toList] := rfl
    rw [e]
    split <;> (try split) <;> (try split) <;> simp_all [tag, sx, List.append_assoc]
  simp only []
  rw [forEach_emit (reportOne x) _ ?hb2]
  case hb2 =>
    intro v out
    simp only [tryExcept_urlScheme, reportOne, hasAt]
    by_cases h : (x.parseaddr v).contains '@' = true
    · simp only [h, special_eq x _ h, dotless_eq _ h, Bool.not_true, Bool.false_eq_true, if_false, ite_ok]
      congr 1
      have e : (List.map String.toList HeaderFields.reportBoilerplate) = ["EMAIL@ADDRESS".toList] := rfl
      rw [e]
      split <;> (try split) <;> (try split) <;> simp_all [tag, sx, List.append_assoc]
    · simp only [h, Bool.not_false, if_true, ite_ok]
      congr 1
      have e : HeaderFields.emptyScheme.toList = [] := rfl
      rw [e]
      split <;> simp_all [tag, sx]
  congr 1
  simp only [ite_fst, ite_snd, dedup, HdrPy.sortedSet, sortedSet]
  generalize List.flatMap (projectOne x.db) = F
  generalize List.flatMap (reportOne x) = G
  generalize Date.sortedSet vs = svs
  generalize Date.sortedSet rs = srs
  by_cases p1 : vs.length > 1 <;> by_cases p2 : vs.length = 0 <;> by_cases r1 : rs.length > 1 <;>
    simp only [p1, p2, r1, if_true, if_false] <;> split <;> (try split) <;> simp_all [tag, List.append_assoc]

/-! ### `check_translator` -/

theorem dictSet_eq (k v : Str) (d : List (Str × Str)) : HdrPy.dictSet k v d = Hdr.dictSet k v d := by
  induction d with
  | nil => rfl
  | cons p d ih => obtain ⟨k', v'⟩ := p; by_cases h : k' = k <;> simp [HdrPy.dictSet, Hdr.dictSet, h, ih]

theorem dictGet?_eq (d : List (Str × Str)) (k : Str) : HdrPy.dictGet? d k = Hdr.dictGet d k := by
  induction d with
  | nil => rfl
  | cons p d ih =>
    obtain ⟨k', v'⟩ := p
    by_cases h : k' = k
    · simp [HdrPy.dictGet?, Hdr.dictGet, h, List.find?]
    · simp only [HdrPy.dictGet?, h, if_false, ih]; simp [Hdr.dictGet, List.find?, h]

/-- a loop that cannot fail, emits `f x` per element and updates a second loop-carried variable by `g x` -/
theorem forEach_emit_state {α σ : Type} (f : α → List TagCall) (g : α → σ → σ)
    (body : α → List TagCall × σ → Except Py.Exc (List TagCall × σ))
    (hb : ∀ x out s, body x (out, s) = .ok (out ++ f x, g x s)) (xs : List α) (out : List TagCall) (s : σ) :
    PyKit.forEach xs body (out, s) = .ok (out ++ xs.flatMap f, xs.foldl (fun s x => g x s) s) := by
  induction xs generalizing out s with
  | nil => simp [PyKit.forEach]
  | cons x xs ih => simp [PyKit.forEach, hb, ih, List.append_assoc]

theorem translatorEmails_foldl (x : Ext) (ts : List Str) (d : List (Str × Str)) :
    translatorEmails x ts d = ts.foldl (fun d v => Hdr.dictSet (x.parseaddr v) v d) d := by
  induction ts generalizing d with
  | nil => rfl
  | cons t ts ih => simp [translatorEmails, ih]

theorem check_translator_eq (x : Ext) (m : Meta) (tmpl : Bool) (out : List TagCall) :
    HdrChk.check_translator x m tmpl out = .ok (out ++ checkTranslator x tmpl m) := by
  unfold_generated_hdrchk
  simp only [ddGet_meta, checkTranslator, Meta.getS]
  obtain ⟨vs, hvs⟩ : ∃ vs, m.get "Last-Translator".toList = vs := ⟨_, rfl⟩
  obtain ⟨rs, hrs⟩ : ∃ rs, m.get "Language-Team".toList = rs := ⟨_, rfl⟩
  simp only [hvs, hrs]
  clear hvs hrs
  simp only [cast_gt_one, cast_eq_zero, decide_eq_true_eq, ite_ok]
  rw [forEach_emit_state (translatorOne x tmpl) (fun v d => Hdr.dictSet (x.parseaddr v) v d) _ ?hb1]
  case hb1 =>
    intro v out d
    simp only [translatorOne, hasAt, dictSet_eq]
    by_cases h : (x.parseaddr v).contains '@' = true
    · simp only [h, special_eq x _ h, dotless_eq _ h, Bool.not_true, Bool.false_eq_true, if_false, ite_ok]
      congr 2
      have e : (List.map String.toList HeaderFields.translatorBoilerplate) = ["EMAIL@ADDRESS".toList] := rfl
      rw [e]
      split <;> (try split) <;> (try split) <;> simp_all [tag, sx, List.append_assoc]
    · simp only [h, Bool.not_false, if_true, ite_ok]
      simp [tag, sx]
  simp only []
  rw [forEach_emit (teamOne x tmpl (translatorEmails x (dedup vs) [])) _ ?hb2]
  case hb2 =>
    intro v out
    simp only [teamOne, hasAt, dictGet?_eq, translatorEmails_foldl, dedup, HdrPy.sortedSet, sortedSet, ite_fst, ite_snd]
    by_cases h : (x.parseaddr v).contains '@' = true
    · simp only [h, special_eq x _ h, dotless_eq _ h, Bool.not_true, Bool.false_eq_true, if_false, ite_ok]
      have e : (List.map String.toList HeaderFields.teamBoilerplate) = ["EMAIL@ADDRESS".toList, "LL@li.org".toList] := rfl
      rw [e]
      generalize Hdr.dictGet _ _ = o
      cases o <;> simp only [] <;>
        split <;> (try split) <;> (try split) <;> (try split) <;> (try split) <;> simp_all [tag, sx]
    · simp only [h, Bool.not_false, if_true]
      simp
  congr 1
  simp only [ite_fst, ite_snd, dedup, HdrPy.sortedSet, sortedSet]
  generalize List.flatMap (translatorOne x tmpl) = F
  generalize Date.sortedSet vs = svs
  generalize Date.sortedSet rs = srs
  by_cases p1 : vs.length > 1 <;> by_cases p2 : vs.length = 0 <;> by_cases r1 : rs.length > 1 <;> by_cases r2 : rs.length = 0 <;>
    (try simp only [p1, p2, r1, r2, if_true, if_false]) <;> simp_all [tag, List.append_assoc]

/-! ### `check_comments` -/

theorem patternAt_1 (db : UDB) (prev : Option Char) (rest : Str) :
    HdrPy.patternAt db "\\bPACKAGE package\\b".toList prev rest = wordLit db "PACKAGE package".toList prev rest := by
  unfold HdrPy.patternAt; rw [if_pos rfl]
theorem patternAt_2 (db : UDB) (prev : Option Char) (rest : Str) :
    HdrPy.patternAt db "\\bCopyright \\S+ YEAR\\b".toList prev rest = copyrightYear db prev rest := by
  unfold HdrPy.patternAt; rw [if_neg (by decide), if_pos rfl]
theorem patternAt_3 (db : UDB) (prev : Option Char) (rest : Str) :
    HdrPy.patternAt db "\\bTHE PACKAGE'S COPYRIGHT HOLDER\\b".toList prev rest = wordLit db "THE PACKAGE'S COPYRIGHT HOLDER".toList prev rest := by
  unfold HdrPy.patternAt; rw [if_neg (by decide), if_neg (by decide), if_pos rfl]
theorem patternAt_4 (db : UDB) (prev : Option Char) (rest : Str) :
    HdrPy.patternAt db "\\bFIRST AUTHOR\\b".toList prev rest = wordLit db "FIRST AUTHOR".toList prev rest := by
  unfold HdrPy.patternAt; rw [if_neg (by decide), if_neg (by decide), if_neg (by decide), if_pos rfl]
theorem patternAt_5 (db : UDB) (prev : Option Char) (rest : Str) :
    HdrPy.patternAt db "<EMAIL@ADDRESS>".toList prev rest = plainLit "<EMAIL@ADDRESS>".toList prev rest := by
  unfold HdrPy.patternAt; rw [if_neg (by decide), if_neg (by decide), if_neg (by decide), if_neg (by decide), if_pos rfl]
theorem patternAt_6 (db : UDB) (prev : Option Char) (rest : Str) :
    HdrPy.patternAt db "(?<=>), YEAR\\b".toList prev rest = commaYear db prev rest := by
  unfold HdrPy.patternAt; rw [if_neg (by decide), if_neg (by decide), if_neg (by decide), if_neg (by decide), if_neg (by decide), if_pos rfl]

theorem commentLineHit_eta (db : UDB) (tmpl : Bool) (line : Str) :
    commentLineHit db tmpl line = anyPos (fun p r => commentHit db tmpl p r) none line := rfl

/-- a loop that cannot fail and emits `f x` per element, `f` given as an optional tag call -/
theorem forEach_filterMap {α : Type} (f : α → Option TagCall) (body : α → List TagCall → Except Py.Exc (List TagCall))
    (hb : ∀ x out, body x out = .ok (out ++ (f x).toList)) (xs : List α) (out : List TagCall) :
    PyKit.forEach xs body out = .ok (out ++ xs.filterMap f) := by
  induction xs generalizing out with
  | nil => simp [PyKit.forEach]
  | cons x xs ih =>
    simp only [PyKit.forEach, hb, ih, List.filterMap_cons]
    cases f x <;> simp [List.append_assoc]

theorem check_comments_eq (x : Ext) (tmpl : Bool) (header : Str) (out : List TagCall) :
    HdrChk.check_comments x tmpl header out = .ok (out ++ checkComments x.db tmpl header) := by
  unfold_generated_hdrchk
  simp only [ite_ok, checkComments, HdrPy.splitlines]
  rw [forEach_filterMap (fun line => if commentLineHit x.db tmpl line then some (tag "boilerplate-in-initial-comments" [sx line]) else none) _ ?hb]
  case hb =>
    intro line out
    simp only [HdrPy.searchAlt, commentLineHit_eta]
    cases tmpl <;>
      simp only [Bool.not_false, Bool.not_true, Bool.false_eq_true, if_true, if_false, List.cons_append, List.nil_append, List.any_cons, List.any_nil,
        List.any_append, patternAt_1, patternAt_2, patternAt_3, patternAt_4, patternAt_5, patternAt_6, commentHit, Bool.or_false, Bool.true_and,
        Bool.false_and, Bool.or_assoc, Bool.or_comm, Bool.or_left_comm] <;>
      (split <;> simp_all [tag, sx])

end I18n.Hdr.Gen
