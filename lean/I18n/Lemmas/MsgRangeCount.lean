import I18n.Lemmas.MsgFlagRules
import Mathlib.Algebra.BigOperators.Group.List.Lemmas
/-
The range part of `duplicate-message-flag`: the dictionary `rangeDict` has exactly one key with total multiplicity > 1 iff all valid
range flags of the list designate one range and together (with multiplicity) there are at least two of them.
-/
namespace I18n.Msg
open I18n.Tags (Str lit Extra)
open I18n.Spec.MessageRules

def valsSum (c : List (Str × Nat)) : Nat := (c.map (·.2)).sum

theorem valsSum_assocSet_add (f : Str) (n : Nat) : ∀ (c : List (Str × Nat)),
    valsSum (assocSet f ((assocGet f c).getD 0 + n) c) = valsSum c + n
  | [] => by simp [assocSet, assocGet, valsSum]
  | (k, v) :: rest => by
    by_cases h : k = f
    · subst h; simp [assocSet, assocGet, valsSum]; omega
    · have ih := valsSum_assocSet_add f n rest
      simp only [assocSet, assocGet, h, if_false, valsSum, List.map_cons, List.sum_cons] at ih ⊢
      omega

/-- total multiplicity recorded for range `r` -/
def sumAt (r : Nat × Nat) (d : List ((Nat × Nat) × List (Str × Nat))) : Nat := valsSum ((assocGet r d).getD [])

theorem sumAt_rangeStep (env : FlagEnv) (flags : List Str) (r : Nat × Nat) (d : List ((Nat × Nat) × List (Str × Nat))) (f : Str) :
    sumAt r (rangeStep env flags d f) = sumAt r d + (if rangeOf env f = some r then flags.count f else 0) := by
  simp only [rangeStep]
  cases hr : rangeOf env f with
  | none => simp
  | some r' =>
    by_cases h : r' = r
    · subst h
      simp only [rangeAdd, sumAt, assocGet_assocSet_self, Option.getD_some, if_true]
      exact valsSum_assocSet_add f _ _
    · have : ¬ (some r' = some r) := by simpa using h
      simp only [rangeAdd, sumAt, assocGet_assocSet_ne (Ne.symm h), this, if_false, Nat.add_zero]

theorem sumAt_foldl (env : FlagEnv) (flags : List Str) (r : Nat × Nat) : ∀ (fs : List Str) (d : List ((Nat × Nat) × List (Str × Nat))),
    sumAt r (fs.foldl (rangeStep env flags) d) =
      sumAt r d + ((fs.filter fun f => decide (rangeOf env f = some r)).map fun f => flags.count f).sum
  | [], d => by simp
  | f :: fs, d => by
    rw [List.foldl_cons, sumAt_foldl env flags r fs, sumAt_rangeStep]
    by_cases h : rangeOf env f = some r <;> simp [h, List.filter_cons] <;> omega

theorem toSorted_perm_dedup (flags : List Str) : (toSorted strLt flags).Perm flags.dedup := by
  apply (List.perm_ext_iff_of_nodup ?_ (List.nodup_dedup flags)).mpr
  · intro a; simp
  · have := pairwise_toSorted strLt_total flags
    exact this.imp (fun {a b} h hab => by subst hab; rw [strLt_irrefl] at h; cases h)

/-- the multiplicities of the distinct flags with range `r` add up to the number of flags with range `r` -/
theorem sum_counts (env : FlagEnv) (flags : List Str) (r : Nat × Nat) :
    (((toSorted strLt flags).filter fun f => decide (rangeOf env f = some r)).map fun f => flags.count f).sum =
      flags.countP fun f => decide (rangeOf env f = some r) := by
  rw [← List.sum_map_count_dedup_filter_eq_countP]
  apply List.Perm.sum_eq
  have := List.Perm.map (fun f => List.count f flags)
    (List.Perm.filter (fun f => decide (rangeOf env f = some r)) (toSorted_perm_dedup flags))
  convert this

theorem sumAt_rangeDict (env : FlagEnv) (flags : List Str) (r : Nat × Nat) :
    sumAt r (rangeDict env flags (toSorted strLt flags)) = flags.countP fun f => decide (rangeOf env f = some r) := by
  unfold rangeDict
  rw [sumAt_foldl, sum_counts]
  simp [sumAt, valsSum]

theorem singleton_of_keys {α β : Type} [DecidableEq α] : ∀ {d : List (α × β)} {r : α}, (keysOf d).Nodup → (∀ k, k ∈ keysOf d ↔ k = r) →
    ∃ c, d = [(r, c)] ∧ assocGet r d = some c
  | [], r, _, h => by have := (h r).mpr rfl; simp [keysOf] at this
  | [(k, c)], r, _, h => by
    have : k = r := (h k).mp (by simp [keysOf])
    subst this; exact ⟨c, rfl, by simp [assocGet]⟩
  | (k₁, _) :: (k₂, _) :: rest, r, hnd, h => by
    have h1 : k₁ = r := (h k₁).mp (by simp [keysOf])
    have h2 : k₂ = r := (h k₂).mp (by simp [keysOf])
    simp [keysOf, h1, h2] at hnd

/-- the range part of `duplicate-message-flag`, as a statement about the flag list -/
theorem range_duplicate_iff (env : FlagEnv) (flags : List Str) :
    (∃ r c, rangeDict env flags (toSorted strLt flags) = [(r, c)] ∧ (c.map (·.2)).sum > 1) ↔
      ∃ r, (∃ f ∈ flags, rangeOf env f = some r) ∧ (∀ g ∈ flags, ∀ r', rangeOf env g = some r' → r' = r) ∧
        (flags.countP fun f => decide (rangeOf env f = some r)) > 1 := by
  have hnd : (keysOf (rangeDict env flags (toSorted strLt flags))).Nodup :=
    nodup_keysOf_rangeDict env flags (toSorted strLt flags) [] (by simp [keysOf])
  have hmem : ∀ r, r ∈ keysOf (rangeDict env flags (toSorted strLt flags)) ↔ ∃ f ∈ flags, rangeOf env f = some r := by
    intro r
    unfold rangeDict
    rw [mem_keysOf_rangeDict]
    simp [keysOf]
  constructor
  · rintro ⟨r, c, hd, hs⟩
    have hsum := sumAt_rangeDict env flags r
    rw [hd] at hsum hmem
    simp only [sumAt, assocGet, if_true, Option.getD_some, valsSum] at hsum
    refine ⟨r, (hmem r).mp (by simp [keysOf]), ?_, by omega⟩
    intro g hg r' hr'
    have := (hmem r').mpr ⟨g, hg, hr'⟩
    simpa [keysOf] using this
  · rintro ⟨r, hex, hall, hcnt⟩
    have hk : ∀ k, k ∈ keysOf (rangeDict env flags (toSorted strLt flags)) ↔ k = r := by
      intro k
      rw [hmem]
      constructor
      · rintro ⟨g, hg, hr⟩; exact hall g hg k hr
      · rintro rfl; exact hex
    obtain ⟨c, hd, hget⟩ := singleton_of_keys hnd hk
    refine ⟨r, c, hd, ?_⟩
    have hsum := sumAt_rangeDict env flags r
    simp only [sumAt, hget, Option.getD_some, valsSum] at hsum
    omega

end I18n.Msg
