import I18n.Generated.Ling
import I18n.Lemmas.LocaleParse
/-!
# `lib/ling.py` regenerated from the source equals the hand-written model (`Model/Locale.lean`)
-/
set_option linter.unusedSimpArgs false
namespace I18n.Locale.Gen
open I18n I18n.Locale I18n.Locale.Py I18n.Generated

theorem upper_idem (s : List Char) : upper (upper s) = upper s := by
  simp [upper, List.map_map, Function.comp_def, asciiUpper_idem]

theorem init_eq (a : List Char) (b c d : Option (List Char)) :
    Ling.Language.__init__ a b c d = .ok ⟨a, b, c.map upper, d⟩ := by
  cases c <;> rfl

theorem init_encUpper (a : List Char) (b c d : Option (List Char)) : EncUpper ⟨a, b, c.map upper, d⟩ := by
  cases c <;> simp [EncUpper, upper_idem]

theorem get_tuple_eq (l : Language) : Ling.Language._get_tuple l = .ok (l.ll, l.cc, l.enc, l.mod) := rfl

/-- `clone()` goes through the constructor: the encoding is upper-cased once more -/
theorem clone_eq (l : Language) : Ling.Language.clone l = .ok { l with enc := l.enc.map upper } := by
  simp only [Ling.Language.clone, get_tuple_eq, init_eq]

theorem clone_id (l : Language) (h : EncUpper l) : Ling.Language.clone l = .ok l := by
  rw [clone_eq]; unfold EncUpper at h; rw [h]

theorem eq_eq (a b : Language) : Ling.Language.__eq__ a b = .ok (a == b) := by
  simp only [Ling.Language.__eq__, get_tuple_eq]
  congr 1
  obtain ⟨a1, a2, a3, a4⟩ := a
  obtain ⟨b1, b2, b3, b4⟩ := b
  simp only [beq_iff_eq, Language.mk.injEq, Prod.mk.injEq, decide_eq_decide, BEq.beq]

theorem ne_eq (a b : Language) : Ling.Language.__ne__ a b = .ok (a != b) := by
  simp only [Ling.Language.__ne__, eq_eq]; rfl

theorem get_principal_eq (l : Language) : Ling.Language.get_principal_territory_code l = .ok (principalTerritory l.ll) := rfl

theorem remove_principal_eq (l : Language) :
    Ling.Language.remove_principal_territory_code l =
      .ok (noneOrTrue (decide (removePrincipalTerritory l ≠ l)), removePrincipalTerritory l) := by
  obtain ⟨ll, cc, enc, mod⟩ := l
  cases cc with
  | none => simp [Ling.Language.remove_principal_territory_code, removePrincipalTerritory, noneOrTrue]
  | some c =>
    simp only [Ling.Language.remove_principal_territory_code, get_principal_eq, removePrincipalTerritory]
    have e1 : (some c = principalTerritory ll) = (principalTerritory ll = some c) := propext eq_comm
    by_cases h : principalTerritory ll = some c <;> simp [h, e1, noneOrTrue]

theorem remove_principal_encUpper (l : Language) (h : EncUpper l) : EncUpper (removePrincipalTerritory l) := by
  unfold removePrincipalTerritory
  cases l.cc with
  | none => exact h
  | some c => by_cases hp : principalTerritory l.ll = some c <;> simp [hp] <;> exact h

/-- `is_almost_equal` in general: both operands pass through `clone()` first -/
theorem is_almost_equal_eq' (a b : Language) :
    Ling.Language.is_almost_equal a b =
      .ok (isAlmostEqual { a with enc := a.enc.map upper } { b with enc := b.enc.map upper }) := by
  simp only [Ling.Language.is_almost_equal, clone_eq, remove_principal_eq, eq_eq, isAlmostEqual]

/-- `is_almost_equal` on objects the code can construct (upper-cased encoding) is the model's `isAlmostEqual` -/
theorem is_almost_equal_eq (a b : Language) (ha : EncUpper a) (hb : EncUpper b) :
    Ling.Language.is_almost_equal a b = .ok (isAlmostEqual a b) := by
  rw [is_almost_equal_eq']
  unfold EncUpper at ha hb
  rw [ha, hb]

theorem lookup_language_eq (k : List Char) : Ling._lookup_language_code k = .ok (lookupLanguage k) := rfl

theorem lookup_territory_eq (c : List Char) : Ling.lookup_territory_code c = .ok (lookupTerritory c) := by
  have e : Generated.Locale.iso3166.contains c = iso3166Has c := rfl
  simp only [Ling.lookup_territory_code, lookupTerritory, e]
  cases iso3166Has c <;> rfl

theorem fix_codes_eq (l : Language) :
    Ling.Language.fix_codes l = (fixCodes l).map (fun r => (noneOrTrue r.2, r.1)) := by
  obtain ⟨ll, cc, enc, mod⟩ := l
  simp only [Ling.Language.fix_codes, lookup_language_eq, lookup_territory_eq, fixCodes]
  cases lookupLanguage ll with
  | none => rfl
  | some ll' =>
    simp only []
    -- both orientations of every comparison, so that `a != b` may also be written `b != a` in the source
    have e1 : (ll = ll') = (ll' = ll) := propext eq_comm
    cases cc with
    | none =>
      by_cases h : ll' = ll <;> simp [h, e1, Except.map, noneOrTrue]
    | some c =>
      simp only []
      cases hc : lookupTerritory c with
      | none => by_cases h : ll' = ll <;> simp [h, e1, Except.map]
      | some c' =>
        have e2 : (c = c') = (c' = c) := propext eq_comm
        by_cases h : ll' = ll <;> by_cases h2 : c' = c <;> simp [h, h2, e1, e2, Except.map, noneOrTrue]

theorem fix_codes_encUpper (l l' : Language) (f : Bool) (h : EncUpper l) (hf : fixCodes l = .ok (l', f)) : EncUpper l' := by
  have : l'.enc = l.enc := by
    unfold fixCodes at hf
    cases hl : lookupLanguage l.ll with
    | none => simp [hl] at hf
    | some x =>
      simp only [hl] at hf
      cases hc : l.cc with
      | none => simp [hc] at hf; rw [← hf.1]
      | some c =>
        simp only [hc] at hf
        cases ht : lookupTerritory c with
        | none => simp [ht] at hf
        | some c' =>
          simp only [ht] at hf
          split at hf
          · simp at hf
          · simp at hf; rw [← hf.1]
  unfold EncUpper at *
  rw [this]; exact h

theorem remove_encoding_eq (l : Language) :
    Ling.Language.remove_encoding l = .ok (noneOrTrue (removeEncoding l).2, (removeEncoding l).1) := by
  obtain ⟨ll, cc, enc, mod⟩ := l
  cases enc <;> rfl

theorem remove_nonlinguistic_modifier_eq (l : Language) :
    Ling.Language.remove_nonlinguistic_modifier l =
      .ok (noneOrTrue (removeNonlinguisticModifier l).2, (removeNonlinguisticModifier l).1) := by
  simp only [Ling.Language.remove_nonlinguistic_modifier, removeNonlinguisticModifier]
  generalize "euro".toList = e
  have e1 : (some e = l.mod) = (l.mod = some e) := propext eq_comm
  by_cases h : l.mod = some e <;> simp [h, e1, noneOrTrue]

theorem str_eq (l : Language) : Ling.Language.__str__ l = .ok l.str := by
  obtain ⟨ll, cc, enc, mod⟩ := l
  cases cc <;> cases enc <;> cases mod <;> simp [Ling.Language.__str__, Language.str, optPart]

theorem parse_language_eq (s : List Char) : Ling.parse_language s = parseLanguageE s := by
  simp only [Ling.parse_language, parseLanguageE, parseLanguage_eq_match]
  cases languageMatch s with
  | none => rfl
  | some g => simp [init_eq]

theorem parse_language_encUpper (s : List Char) (l : Language) (h : parseLanguageE s = .ok l) : EncUpper l := by
  simp only [parseLanguageE, parseLanguage_eq_match] at h
  cases hm : languageMatch s with
  | none => simp [hm] at h
  | some g =>
    simp [hm] at h
    rw [← h]
    exact init_encUpper _ _ _ _

end I18n.Locale.Gen
