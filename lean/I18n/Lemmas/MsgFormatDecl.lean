import I18n.Lemmas.MsgFormatFlags
/-
A flag of kind `format` IS `<prefix><fmt>-format` with `<fmt>` in data/string-formats (given that the empty string is not a
format name), and conversely the first such prefix in source order classifies it.
-/
namespace I18n.Msg
open I18n.Tags (Str lit Extra)
open I18n.Spec.MessageRules

theorem decompose_prefix_suffix {flag p suf : Str} (hp : startsWith p flag = true) (hs : endsWith suf flag = true)
    (hne : sliceTo flag p.length suf.length ≠ []) : flag = p ++ sliceTo flag p.length suf.length ++ suf := by
  have hp' : p = flag.take p.length := List.prefix_iff_eq_take.mp (List.isPrefixOf_iff_prefix.mp hp)
  have hs' : suf = flag.drop (flag.length - suf.length) := List.suffix_iff_eq_drop.mp (List.isSuffixOf_iff_suffix.mp hs)
  have hlen : p.length < flag.length - suf.length := by
    apply Decidable.byContradiction
    intro h
    apply hne
    simp only [sliceTo]
    apply List.drop_eq_nil_of_le
    simp; omega
  have h1 : (flag.take (flag.length - suf.length)).take p.length = p := by
    rw [List.take_take, Nat.min_eq_left (by omega)]; exact hp'.symm
  have e1 : flag = flag.take (flag.length - suf.length) ++ flag.drop (flag.length - suf.length) := (List.take_append_drop _ _).symm
  have e2 : flag.take (flag.length - suf.length) =
      (flag.take (flag.length - suf.length)).take p.length ++ (flag.take (flag.length - suf.length)).drop p.length :=
    (List.take_append_drop _ _).symm
  rw [h1] at e2
  have e3 : sliceTo flag p.length suf.length = (flag.take (flag.length - suf.length)).drop p.length := rfl
  rw [e3, ← e2]
  calc flag = flag.take (flag.length - suf.length) ++ flag.drop (flag.length - suf.length) := e1
    _ = flag.take (flag.length - suf.length) ++ suf := by rw [← hs']

/-- what a format flag looks like -/
theorem format_flag_shape {env : FlagEnv} (hempty : env.isFormat [] = false) {f tp fmt : Str}
    (h : flagKind env f = .format tp fmt) :
    ∃ p ∈ env.prefixes, f = p ++ fmt ++ formatSuffix ∧ env.isFormat fmt = true ∧ tp = rstrip [45] p := by
  have hends : endsWith formatSuffix f = true ∧ classifyFormat env f env.prefixes = some (tp, fmt) := by
    unfold flagKind at h
    by_cases h1 : f = lit "fuzzy"
    · simp [h1] at h
    by_cases h2 : f = lit "wrap"
    · subst h2; simp [fuzzy_ne_wrap.symm] at h
    by_cases h3 : f = lit "no-wrap"
    · subst h3; simp [fuzzy_ne_nowrap.symm, wrap_ne_nowrap.symm] at h
    by_cases h4 : startsWith env.rangePrefix f = true
    · simp [h1, h2, h3, h4] at h
    by_cases h5 : endsWith formatSuffix f = true
    · simp only [h1, h2, h3, h4, h5, if_false, if_true, Bool.false_eq_true] at h
      cases hcl : classifyFormat env f env.prefixes with
      | none => simp [hcl] at h
      | some x =>
        obtain ⟨tp', fmt'⟩ := x
        simp only [hcl, FlagKind.format.injEq] at h
        exact ⟨h5, by rw [h.1, h.2]⟩
    · simp only [h1, h2, h3, h4, h5, if_false, Bool.false_eq_true] at h
      split at h <;> cases h
  obtain ⟨p, hp, hst, hfmt, hisf, htp⟩ := classifyFormat_some hends.2
  refine ⟨p, hp, ?_, hisf, htp⟩
  have hne : sliceTo f p.length formatSuffix.length ≠ [] := by
    rw [formatSuffix_length, ← hfmt]
    rintro rfl
    rw [hempty] at hisf; cases hisf
  have := decompose_prefix_suffix hst hends.1 hne
  rw [formatSuffix_length, ← hfmt] at this
  exact this

end I18n.Msg
