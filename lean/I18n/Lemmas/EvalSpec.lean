import I18n.Generated.Intexpr
import I18n.Spec.CEval
import I18n.Lemmas.Eval
/-! The generated `Evaluator` computes exactly the reference semantics `Spec.mathEval` under the
    "all evaluated intermediate results in range" side condition. -/
namespace I18n.Plural
open I18n I18n.Py I18n.Generated.Intexpr I18n.Spec

theorem inRange_append {M : Int} {a b : List Int} : InRange M (a ++ b) ↔ InRange M a ∧ InRange M b := by
  simp only [InRange, List.mem_append]
  constructor
  · intro h; exact ⟨fun x hx => h x (Or.inl hx), fun x hx => h x (Or.inr hx)⟩
  · intro h x hx; rcases hx with hx | hx
    · exact h.1 x hx
    · exact h.2 x hx

theorem inRange_single {M v : Int} : InRange M [v] ↔ 0 ≤ v ∧ v < M := by
  simp [InRange]

theorem check_overflow_iff {M n k v : Int} :
    Evaluator._check_overflow M n k = .ok v ↔ v = k ∧ 0 ≤ k ∧ k < M := by
  constructor
  · exact check_overflow_ok
  · rintro ⟨rfl, h0, h1⟩; exact check_overflow_of h0 h1

theorem check_overflow_err {M n k : Int} {x : Exc} (h : Evaluator._check_overflow M n k = .error x) : x = .Overflow := by
  unfold Evaluator._check_overflow at h
  split at h
  · cases h; rfl
  · split at h
    · cases h; rfl
    · cases h

/-- binary arithmetic leaves against `Spec.arith`, for in-range operands -/
theorem binop_spec {M n : Int} (op : BinOp) {x y : Int} (hx : 0 ≤ x ∧ x < M) (hy : 0 ≤ y ∧ y < M) :
    (∀ v, Evaluator.dispatch_BinOp M n op x y = .ok v ↔ arith op x y = some v ∧ 0 ≤ v ∧ v < M) ∧
    (∀ ex, Evaluator.dispatch_BinOp M n op x y = .error ex → ex = .Overflow ∨ ex = .ZeroDivision) := by
  cases op
  case add | sub | mult =>
    simp only [Evaluator.dispatch_BinOp, Evaluator._visit_add, Evaluator._visit_sub, Evaluator._visit_mult, arith]
    refine ⟨fun v => ?_, fun ex h => Or.inl (check_overflow_err h)⟩
    rw [check_overflow_iff]
    constructor
    · rintro ⟨rfl, h⟩; exact ⟨rfl, h⟩
    · rintro ⟨h, h2⟩; cases h; exact ⟨rfl, h2⟩
  case div =>
    simp only [Evaluator.dispatch_BinOp, Evaluator._visit_div, arith]
    by_cases hy0 : y = 0
    · subst hy0; simp [floordiv_zero]
    · have hyp : 0 < y := by omega
      rw [floordiv_ok hyp, Int.tdiv_eq_ediv_of_nonneg hx.1]
      simp only [hy0, ↓reduceIte]
      refine ⟨fun v => ?_, fun ex h => by cases h⟩
      have h1 : 0 ≤ x / y := Int.ediv_nonneg hx.1 (by omega)
      have h2 : x / y ≤ x := Int.ediv_le_self _ hx.1
      constructor
      · intro h; cases h; exact ⟨rfl, h1, by omega⟩
      · rintro ⟨h, _⟩; cases h; rfl
  case mod =>
    simp only [Evaluator.dispatch_BinOp, Evaluator._visit_mod, arith]
    by_cases hy0 : y = 0
    · subst hy0; simp [mod_zero]
    · have hyp : 0 < y := by omega
      rw [mod_ok hyp, Int.tmod_eq_emod_of_nonneg hx.1]
      simp only [hy0, ↓reduceIte]
      refine ⟨fun v => ?_, fun ex h => by cases h⟩
      have h1 := Int.emod_nonneg x hy0
      have h2 := Int.emod_lt_of_pos x hyp
      constructor
      · intro h; cases h; exact ⟨rfl, h1, by omega⟩
      · rintro ⟨h, _⟩; cases h; rfl

theorem cmpop_spec {M n : Int} (op : CmpOp) (x y : Int) :
    Evaluator.dispatch_CmpOp M n op x y = .ok (rel op x y) := by
  cases op <;> simp only [Evaluator.dispatch_CmpOp, Evaluator._visit_eq, Evaluator._visit_noteq, Evaluator._visit_lt,
    Evaluator._visit_lte, Evaluator._visit_gt, Evaluator._visit_gte, rel, b2i] <;> congr 1 <;> simp

theorem rel_range (op : CmpOp) (x y : Int) : 0 ≤ rel op x y ∧ rel op x y ≤ 1 := by
  cases op <;> simp only [rel] <;> split <;> omega


/-- `Evaluator.visit` against the reference semantics, per outcome -/
def Agrees (M n : Int) (e : Expr) (res : Except Exc Int) : Prop :=
  match res with
  | .ok v => (∃ tr, mathEval n e = some (v, tr) ∧ InRange M tr) ∧ 0 ≤ v ∧ v < M
  | .error ex => (ex = .Overflow ∨ ex = .ZeroDivision) ∧ ¬ ∃ v tr, mathEval n e = some (v, tr) ∧ InRange M tr

theorem agrees {M : Int} (hM : 2 ≤ M) (n : Int) (e : Expr) : Agrees M n e (Evaluator.visit M n e) := by
  induction e with
  | num k =>
    simp only [Evaluator.visit]
    cases h : Evaluator._check_overflow M n k with
    | ok v =>
      obtain ⟨rfl, h0, h1⟩ := check_overflow_ok h
      exact ⟨⟨[v], rfl, inRange_single.2 ⟨h0, h1⟩⟩, h0, h1⟩
    | error ex =>
      refine ⟨Or.inl (check_overflow_err h), ?_⟩
      rintro ⟨v, tr, hm, hr⟩
      simp only [mathEval] at hm
      cases hm
      have := inRange_single.1 hr
      rw [check_overflow_of this.1 this.2] at h
      cases h
  | name =>
    simp only [Evaluator.visit]
    cases h : Evaluator._check_overflow M n n with
    | ok v =>
      obtain ⟨rfl, h0, h1⟩ := check_overflow_ok h
      exact ⟨⟨[v], rfl, inRange_single.2 ⟨h0, h1⟩⟩, h0, h1⟩
    | error ex =>
      refine ⟨Or.inl (check_overflow_err h), ?_⟩
      rintro ⟨v, tr, hm, hr⟩
      simp only [mathEval] at hm
      cases hm
      have := inRange_single.1 hr
      rw [check_overflow_of this.1 this.2] at h
      cases h
  | unaryop op a iha =>
    cases op
    simp only [Evaluator.visit, Evaluator.dispatch_UnOp, Evaluator._visit_not, b2i]
    cases ha : Evaluator.visit M n a with
    | error ex =>
      rw [ha] at iha
      refine ⟨iha.1, ?_⟩
      rintro ⟨v, tr, hm, hr⟩
      simp only [mathEval] at hm
      split at hm
      · cases hm
      · rename_i x t hma
        cases hm
        exact iha.2 ⟨x, t, hma, (inRange_append.1 hr).1⟩
    | ok x =>
      rw [ha] at iha
      obtain ⟨⟨t, hma, hrt⟩, hx0, hx1⟩ := iha
      have hval : (if decide (¬ x ≠ 0) = true then (1 : Int) else 0) = (if x = 0 then 1 else 0) := by
        by_cases hx : x = 0 <;> simp [hx]
      simp only [Agrees, mathEval, hma, hval]
      refine ⟨⟨_, rfl, inRange_append.2 ⟨hrt, inRange_single.2 ?_⟩⟩, ?_⟩ <;> split <;> omega
  | binop a op b iha ihb =>
    simp only [Evaluator.visit]
    cases ha : Evaluator.visit M n a with
    | error ex =>
      rw [ha] at iha
      refine ⟨iha.1, ?_⟩
      rintro ⟨v, tr, hm, hr⟩
      simp only [mathEval] at hm
      split at hm
      · cases hm
      · rename_i x t hma
        split at hm
        · cases hm
        · split at hm
          · cases hm
          · cases hm
            exact iha.2 ⟨x, t, hma, (inRange_append.1 (inRange_append.1 hr).1).1⟩
    | ok x =>
      rw [ha] at iha
      obtain ⟨⟨t1, hma, hr1⟩, hx⟩ := iha
      cases hb : Evaluator.visit M n b with
      | error ex =>
        rw [hb] at ihb
        refine ⟨ihb.1, ?_⟩
        rintro ⟨v, tr, hm, hr⟩
        simp only [mathEval, hma] at hm
        split at hm
        · cases hm
        · rename_i y t hmb
          split at hm
          · cases hm
          · cases hm
            exact ihb.2 ⟨y, t, hmb, (inRange_append.1 (inRange_append.1 hr).1).2⟩
      | ok y =>
        rw [hb] at ihb
        obtain ⟨⟨t2, hmb, hr2⟩, hy⟩ := ihb
        obtain ⟨hok, herr⟩ := binop_spec (M := M) (n := n) op hx hy
        simp only
        cases hd : Evaluator.dispatch_BinOp M n op x y with
        | ok v =>
          obtain ⟨har, hv⟩ := (hok v).1 hd
          simp only [Agrees, mathEval, hma, hmb, har]
          exact ⟨⟨_, rfl, inRange_append.2 ⟨inRange_append.2 ⟨hr1, hr2⟩, inRange_single.2 hv⟩⟩, hv⟩
        | error ex =>
          refine ⟨herr ex hd, ?_⟩
          rintro ⟨v, tr, hm, hr⟩
          simp only [mathEval, hma, hmb] at hm
          split at hm
          · cases hm
          · rename_i w har
            cases hm
            have := (hok v).2 ⟨har, inRange_single.1 (inRange_append.1 hr).2⟩
            rw [hd] at this; cases this
  | compare a op b iha ihb =>
    simp only [Evaluator.visit]
    cases ha : Evaluator.visit M n a with
    | error ex =>
      rw [ha] at iha
      refine ⟨iha.1, ?_⟩
      rintro ⟨v, tr, hm, hr⟩
      simp only [mathEval] at hm
      split at hm
      · cases hm
      · rename_i x t hma
        split at hm
        · cases hm
        · cases hm
          exact iha.2 ⟨x, t, hma, (inRange_append.1 (inRange_append.1 hr).1).1⟩
    | ok x =>
      rw [ha] at iha
      obtain ⟨⟨t1, hma, hr1⟩, hx⟩ := iha
      cases hb : Evaluator.visit M n b with
      | error ex =>
        rw [hb] at ihb
        refine ⟨ihb.1, ?_⟩
        rintro ⟨v, tr, hm, hr⟩
        simp only [mathEval, hma] at hm
        split at hm
        · cases hm
        · rename_i y t hmb
          cases hm
          exact ihb.2 ⟨y, t, hmb, (inRange_append.1 (inRange_append.1 hr).1).2⟩
      | ok y =>
        rw [hb] at ihb
        obtain ⟨⟨t2, hmb, hr2⟩, hy⟩ := ihb
        have hrr := rel_range op x y
        simp only [cmpop_spec, Agrees, mathEval, hma, hmb]
        exact ⟨⟨_, rfl, inRange_append.2 ⟨inRange_append.2 ⟨hr1, hr2⟩, inRange_single.2 (by omega)⟩⟩, by omega⟩
  | boolop op a b iha ihb =>
    cases op
    case and =>
      simp only [Evaluator.visit]
      cases ha : Evaluator.visit M n a with
      | error ex =>
        rw [ha] at iha
        refine ⟨iha.1, ?_⟩
        rintro ⟨v, tr, hm, hr⟩
        simp only [mathEval] at hm
        split at hm
        · cases hm
        · rename_i x t hma
          split at hm
          · cases hm; exact iha.2 ⟨x, t, hma, (inRange_append.1 hr).1⟩
          · split at hm
            · cases hm
            · cases hm; exact iha.2 ⟨x, t, hma, (inRange_append.1 (inRange_append.1 hr).1).1⟩
      | ok x =>
        rw [ha] at iha
        obtain ⟨⟨t1, hma, hr1⟩, hx⟩ := iha
        by_cases hx0 : x = 0
        · simp only [hx0, ↓reduceIte, Agrees, mathEval, hma]
          exact ⟨⟨_, rfl, inRange_append.2 ⟨hr1, inRange_single.2 (by omega)⟩⟩, by omega⟩
        · simp only [hx0, ↓reduceIte]
          cases hb : Evaluator.visit M n b with
          | error ex =>
            rw [hb] at ihb
            refine ⟨ihb.1, ?_⟩
            rintro ⟨v, tr, hm, hr⟩
            simp only [mathEval, hma, hx0, ↓reduceIte] at hm
            split at hm
            · cases hm
            · rename_i y t hmb
              cases hm
              exact ihb.2 ⟨y, t, hmb, (inRange_append.1 (inRange_append.1 hr).1).2⟩
          | ok y =>
            rw [hb] at ihb
            obtain ⟨⟨t2, hmb, hr2⟩, hy⟩ := ihb
            by_cases hy0 : y = 0 <;> simp only [hy0, ↓reduceIte, Agrees, mathEval, hma, hmb, hx0] <;>
              exact ⟨⟨_, rfl, inRange_append.2 ⟨inRange_append.2 ⟨hr1, hr2⟩, inRange_single.2 (by omega)⟩⟩, by omega⟩
    case or =>
      simp only [Evaluator.visit]
      cases ha : Evaluator.visit M n a with
      | error ex =>
        rw [ha] at iha
        refine ⟨iha.1, ?_⟩
        rintro ⟨v, tr, hm, hr⟩
        simp only [mathEval] at hm
        split at hm
        · cases hm
        · rename_i x t hma
          split at hm
          · cases hm; exact iha.2 ⟨x, t, hma, (inRange_append.1 hr).1⟩
          · split at hm
            · cases hm
            · cases hm; exact iha.2 ⟨x, t, hma, (inRange_append.1 (inRange_append.1 hr).1).1⟩
      | ok x =>
        rw [ha] at iha
        obtain ⟨⟨t1, hma, hr1⟩, hx⟩ := iha
        by_cases hx0 : x = 0
        · simp only [hx0, ne_eq, not_true_eq_false, ↓reduceIte]
          cases hb : Evaluator.visit M n b with
          | error ex =>
            rw [hb] at ihb
            refine ⟨ihb.1, ?_⟩
            rintro ⟨v, tr, hm, hr⟩
            subst hx0
            simp only [mathEval, hma, ne_eq, not_true_eq_false, ↓reduceIte] at hm
            split at hm
            · cases hm
            · rename_i y t hmb
              cases hm
              exact ihb.2 ⟨y, t, hmb, (inRange_append.1 (inRange_append.1 hr).1).2⟩
          | ok y =>
            rw [hb] at ihb
            obtain ⟨⟨t2, hmb, hr2⟩, hy⟩ := ihb
            subst hx0
            by_cases hy0 : y = 0 <;> simp only [hy0, ne_eq, not_true_eq_false, not_false_eq_true, ↓reduceIte, Agrees, mathEval, hma, hmb] <;>
              exact ⟨⟨_, rfl, inRange_append.2 ⟨inRange_append.2 ⟨hr1, hr2⟩, inRange_single.2 (by omega)⟩⟩, by omega⟩
        · simp only [ne_eq, hx0, not_false_eq_true, ↓reduceIte, Agrees, mathEval, hma]
          exact ⟨⟨_, rfl, inRange_append.2 ⟨hr1, inRange_single.2 (by omega)⟩⟩, by omega⟩
  | ifexp c a b ihc iha ihb =>
    simp only [Evaluator.visit]
    cases hc : Evaluator.visit M n c with
    | error ex =>
      rw [hc] at ihc
      refine ⟨ihc.1, ?_⟩
      rintro ⟨v, tr, hm, hr⟩
      simp only [mathEval] at hm
      split at hm
      · cases hm
      · rename_i x t hmc
        split at hm <;> split at hm <;> cases hm <;> exact ihc.2 ⟨x, t, hmc, (inRange_append.1 hr).1⟩
    | ok x =>
      rw [hc] at ihc
      obtain ⟨⟨t1, hmc, hr1⟩, hx⟩ := ihc
      by_cases hx0 : x = 0
      · simp only [hx0, ne_eq, not_true_eq_false, ↓reduceIte]
        subst hx0
        cases hb : Evaluator.visit M n b with
        | error ex =>
          rw [hb] at ihb
          refine ⟨ihb.1, ?_⟩
          rintro ⟨v, tr, hm, hr⟩
          simp only [mathEval, hmc, ne_eq, not_true_eq_false, ↓reduceIte] at hm
          split at hm
          · cases hm
          · rename_i y t hmb
            cases hm
            exact ihb.2 ⟨v, t, hmb, (inRange_append.1 hr).2⟩
        | ok y =>
          rw [hb] at ihb
          obtain ⟨⟨t2, hmb, hr2⟩, hy⟩ := ihb
          simp only [Agrees, mathEval, hmc, hmb, ne_eq, not_true_eq_false, ↓reduceIte]
          exact ⟨⟨_, rfl, inRange_append.2 ⟨hr1, hr2⟩⟩, hy⟩
      · simp only [ne_eq, hx0, not_false_eq_true, ↓reduceIte]
        cases ha : Evaluator.visit M n a with
        | error ex =>
          rw [ha] at iha
          refine ⟨iha.1, ?_⟩
          rintro ⟨v, tr, hm, hr⟩
          simp only [mathEval, hmc, ne_eq, hx0, not_false_eq_true, ↓reduceIte] at hm
          split at hm
          · cases hm
          · rename_i y t hma
            cases hm
            exact iha.2 ⟨v, t, hma, (inRange_append.1 hr).2⟩
        | ok y =>
          rw [ha] at iha
          obtain ⟨⟨t2, hma, hr2⟩, hy⟩ := iha
          simp only [Agrees, mathEval, hmc, hma, ne_eq, hx0, not_false_eq_true, ↓reduceIte]
          exact ⟨⟨_, rfl, inRange_append.2 ⟨hr1, hr2⟩⟩, hy⟩

end I18n.Plural
