import I18n.Lemmas.MoParse
/-! `Spec.serialize` produces legal MO files: every layout of the family satisfies `Spec.Encodes`. -/
namespace I18n.Mo
open I18n.Mo.Spec

theorem Slice_shift {M : Bytes} {off : Nat} {s : Bytes} (A C : Bytes) (h : Slice M off s) :
    Slice (A ++ M ++ C) (A.length + off) s := by
  obtain ⟨p, q, rfl, rfl⟩ := h
  exact ⟨A ++ p, q ++ C, by simp [List.append_assoc], by simp⟩

theorem placeStrings_spec : ∀ (ss : List Bytes) (base : Nat) (pads : List Bytes),
    (placeStrings base ss pads).2.length = ss.length ∧
    ∀ i (hi : i < ss.length), ∃ off pre post,
      (placeStrings base ss pads).2[i]? = some (ss[i].length, off) ∧
      (placeStrings base ss pads).1 = pre ++ (ss[i] ++ [0]) ++ post ∧ off = base + pre.length := by
  intro ss
  induction ss with
  | nil => intro base pads; exact ⟨rfl, fun i hi => by simp at hi⟩
  | cons s ss ih =>
    intro base pads
    obtain ⟨ihl, ihi⟩ := ih (base + (pads.headD []).length + s.length + 1) pads.tail
    refine ⟨by simp only [placeStrings, List.length_cons, ihl], ?_⟩
    intro i hi
    cases i with
    | zero =>
      exact ⟨base + (pads.headD []).length, pads.headD [], (placeStrings (base + (pads.headD []).length + s.length + 1) ss pads.tail).1,
        by simp [placeStrings], by simp [placeStrings, List.append_assoc], rfl⟩
    | succ i =>
      obtain ⟨off, pre, post, h1, h2, h3⟩ := ihi i (by simpa using hi)
      refine ⟨off, pads.headD [] ++ s ++ [0] ++ pre, post, by simpa [placeStrings] using h1, ?_, ?_⟩
      · simp only [placeStrings, List.getElem_cons_succ]
        rw [h2]; simp [List.append_assoc]
      · rw [h3]; simp; omega

theorem descTable_length (be : Bool) : ∀ ds : List (Nat × Nat), (descTable be ds).length = 8 * ds.length := by
  intro ds
  induction ds with
  | nil => rfl
  | cons d ds ih =>
    obtain ⟨l, o⟩ := d
    simp only [descTable, List.length_append, encodeWord_length, ih, List.length_cons]; omega

theorem descTable_spec (be : Bool) : ∀ (ds : List (Nat × Nat)) (i l o : Nat), ds[i]? = some (l, o) →
    Slice (descTable be ds) (8 * i) (encodeWord be l ++ encodeWord be o) := by
  intro ds
  induction ds with
  | nil => intro i l o h; simp at h
  | cons d ds ih =>
    intro i l o h
    obtain ⟨l', o'⟩ := d
    cases i with
    | zero =>
      simp at h
      obtain ⟨rfl, rfl⟩ := h
      exact ⟨[], descTable be ds, by simp [descTable, List.append_assoc], rfl⟩
    | succ i =>
      have := ih i l o (by simpa using h)
      have := Slice_shift (encodeWord be l' ++ encodeWord be o') [] this
      simp only [List.append_nil, List.length_append, encodeWord_length] at this
      have e : 4 + 4 + 8 * i = 8 * (i + 1) := by omega
      rw [e] at this
      simpa [descTable, List.append_assoc] using this

theorem EntriesAt_of_forall {be : Bool} {b : Bytes} {ko to : Nat} :
    ∀ (cat : List CatEntry) (i0 : Nat),
      (∀ j (hj : j < cat.length), StringAt be b (ko + 8 * (i0 + j)) cat[j].key ∧ StringAt be b (to + 8 * (i0 + j)) cat[j].value) →
      EntriesAt be b ko to i0 cat := by
  intro cat
  induction cat with
  | nil => intro _ _; trivial
  | cons e es ih =>
    intro i0 h
    have h0 := h 0 (by simp)
    refine ⟨by simpa using h0.1, by simpa using h0.2, ih (i0 + 1) ?_⟩
    intro j hj
    have := h (j + 1) (by simpa using hj)
    simpa [Nat.add_assoc, Nat.add_comm 1 j] using this

/-- a descriptor table inside `b` whose descriptors point at NUL-terminated copies of the strings -/
theorem table_strings {be : Bool} {b A C : Bytes} {ds : List (Nat × Nat)} {ss : List Bytes}
    (hb : b = A ++ descTable be ds ++ C) (hlen : b.length < 2 ^ 32)
    (hds : ∀ j (hj : j < ss.length), ∃ off, ds[j]? = some (ss[j].length, off) ∧ Slice b off (ss[j] ++ [0])) :
    ∀ j (hj : j < ss.length), StringAt be b (A.length + 8 * j) ss[j] := by
  intro j hj
  obtain ⟨off, hd, hs⟩ := hds j hj
  have hsl := Slice_shift A C (descTable_spec be ds j _ _ hd)
  rw [← hb] at hsl
  have hle := hs.length_le
  simp at hle
  refine ⟨off, ⟨by omega, hsl.left⟩, ⟨by omega, ?_⟩, hs⟩
  have := hsl.right
  rw [encodeWord_length] at this
  exact this

theorem encodeWords4 (be : Bool) (a b c d : Nat) :
    encodeWords be [a, b, c, d] = encodeWord be a ++ encodeWord be b ++ encodeWord be c ++ encodeWord be d := by
  simp [encodeWords, List.append_assoc]

theorem magicOf_length (be : Bool) : (magicOf be).length = 4 := by cases be <;> rfl

set_option maxHeartbeats 1000000 in
/-- **every layout of the family is a legal MO file of the catalog** -/
theorem serialize_encodes_aux (cat : List CatEntry) (l : Layout) (hok : l.OK cat) :
    Encodes (serialize cat l) cat l.hidden := by
  -- name the pieces
  let n := cat.length
  let hdrLen := 20 + l.headerExtra.length
  let t1 := hdrLen
  let t2 := hdrLen + 8 * n + l.gap.length
  let pool := t2 + 8 * n + l.gap2.length
  let ss := cat.map CatEntry.key ++ cat.map CatEntry.value
  have hP := placeStrings_spec ss pool l.pads
  obtain ⟨hPl, hPi⟩ := hP
  let strings := (placeStrings pool ss l.pads).1
  let descs := (placeStrings pool ss l.pads).2
  have hdl : descs.length = 2 * n := by
    show (placeStrings pool ss l.pads).2.length = 2 * cat.length
    rw [hPl]; simp [ss]; omega
  let kd := descs.take n
  let vd := descs.drop n
  have hkdl : kd.length = n := by simp [kd, hdl]; omega
  have hvdl : vd.length = n := by simp [vd, hdl]; omega
  let ko := if l.valuesTableFirst then t2 else t1
  let to := if l.valuesTableFirst then t1 else t2
  let d1 := if l.valuesTableFirst then vd else kd
  let d2 := if l.valuesTableFirst then kd else vd
  have hd1l : d1.length = n := by simp only [d1]; split <;> assumption
  have hd2l : d2.length = n := by simp only [d2]; split <;> assumption
  let W := encodeWords l.be [l.major * 65536 + l.minor, n, ko, to]
  let b := magicOf l.be ++ W ++ l.headerExtra ++ descTable l.be d1 ++ l.gap ++ descTable l.be d2 ++ l.gap2 ++ strings ++ l.trailer
  have hb : serialize cat l = b := by
    simp only [serialize, b, W, ko, to, d1, d2, kd, vd, descs, strings, ss, pool, t2, t1, hdrLen, n]
    cases l.valuesTableFirst <;> rfl
  have hsize : b.length < 2 ^ 32 := by rw [← hb]; exact hok.size
  have hWl : W.length = 16 := by simp [W, encodeWords4, encodeWord_length]
  have hT1 : (descTable l.be d1).length = 8 * n := by rw [descTable_length, hd1l]
  have hT2 : (descTable l.be d2).length = 8 * n := by rw [descTable_length, hd2l]
  have hblen : b.length = pool + strings.length + l.trailer.length := by
    simp only [b, List.length_append, magicOf_length, hWl, hT1, hT2, pool, t2, hdrLen] <;> omega
  -- the strings, addressed absolutely
  have hstr : ∀ i (hi : i < ss.length), ∃ off, descs[i]? = some (ss[i].length, off) ∧ Slice b off (ss[i] ++ [0]) := by
    intro i hi
    obtain ⟨off, pre, post, h1, h2, h3⟩ := hPi i hi
    refine ⟨off, h1, ⟨magicOf l.be ++ W ++ l.headerExtra ++ descTable l.be d1 ++ l.gap ++ descTable l.be d2 ++ l.gap2 ++ pre,
      post ++ l.trailer, ?_, ?_⟩⟩
    · show b = _
      simp only [b, strings]; rw [h2]; simp [List.append_assoc]
    · rw [h3]; simp only [List.length_append, magicOf_length, hWl, hT1, hT2, pool, t2, hdrLen] <;> omega
  have hssl : ss.length = 2 * n := by simp [ss]; omega
  have hkeys : ∀ j (hj : j < n), ∃ off, kd[j]? = some ((cat[j]'hj).key.length, off) ∧ Slice b off ((cat[j]'hj).key ++ [0]) := by
    intro j hj
    obtain ⟨off, h1, h2⟩ := hstr j (by omega)
    have e : ss[j]'(by omega) = (cat[j]'hj).key := by
      simp only [ss]; rw [List.getElem_append_left (by simpa using hj)]; simp
    rw [e] at h1 h2
    exact ⟨off, by simp only [kd]; rw [List.getElem?_take_of_lt hj]; exact h1, h2⟩
  have hvals : ∀ j (hj : j < n), ∃ off, vd[j]? = some ((cat[j]'hj).value.length, off) ∧ Slice b off ((cat[j]'hj).value ++ [0]) := by
    intro j hj
    obtain ⟨off, h1, h2⟩ := hstr (n + j) (by omega)
    have e : ss[n + j]'(by omega) = (cat[j]'hj).value := by
      simp only [ss]; rw [List.getElem_append_right (by simp [n])]; simp [n]
    rw [e] at h1 h2
    exact ⟨off, by simp only [vd]; rw [List.getElem?_drop]; exact h1, h2⟩
  -- the two tables
  have hA1 : (magicOf l.be ++ W ++ l.headerExtra).length = t1 := by
    simp only [List.length_append, magicOf_length, hWl, t1, hdrLen] <;> omega
  have hA2 : (magicOf l.be ++ W ++ l.headerExtra ++ descTable l.be d1 ++ l.gap).length = t2 := by
    simp only [List.length_append, magicOf_length, hWl, hT1, t2, hdrLen] <;> omega
  have hb1 : b = (magicOf l.be ++ W ++ l.headerExtra) ++ descTable l.be d1 ++ (l.gap ++ descTable l.be d2 ++ l.gap2 ++ strings ++ l.trailer) := by
    simp only [b, List.append_assoc]
  have hb2 : b = (magicOf l.be ++ W ++ l.headerExtra ++ descTable l.be d1 ++ l.gap) ++ descTable l.be d2 ++ (l.gap2 ++ strings ++ l.trailer) := by
    simp only [b, List.append_assoc]
  have hkS : ∀ j (hj : j < n), StringAt l.be b (ko + 8 * j) (cat[j]'hj).key := by
    intro j hj
    by_cases hv : l.valuesTableFirst
    · have := table_strings (ss := cat.map CatEntry.key) (ds := d2) hb2 hsize
        (by intro j hj; simp only [d2, hv, if_true]; simpa using hkeys j (by simpa using hj)) j (by simpa using hj)
      rw [hA2] at this; simpa [ko, hv] using this
    · have := table_strings (ss := cat.map CatEntry.key) (ds := d1) hb1 hsize
        (by intro j hj; simp only [d1, hv]; simpa using hkeys j (by simpa using hj)) j (by simpa using hj)
      rw [hA1] at this; simpa [ko, hv] using this
  have hvS : ∀ j (hj : j < n), StringAt l.be b (to + 8 * j) (cat[j]'hj).value := by
    intro j hj
    by_cases hv : l.valuesTableFirst
    · have := table_strings (ss := cat.map CatEntry.value) (ds := d1) hb1 hsize
        (by intro j hj; simp only [d1, hv, if_true]; simpa using hvals j (by simpa using hj)) j (by simpa using hj)
      rw [hA1] at this; simpa [to, hv] using this
    · have := table_strings (ss := cat.map CatEntry.value) (ds := d2) hb2 hsize
        (by intro j hj; simp only [d2, hv]; simpa using hvals j (by simpa using hj)) j (by simpa using hj)
      rw [hA2] at this; simpa [to, hv] using this
  -- the header words
  have hko : ko ≤ b.length := by
    simp only [ko]; split <;> (rw [hblen]; simp only [pool, t2, t1, hdrLen]; omega)
  have hto : to ≤ b.length := by
    simp only [to]; split <;> (rw [hblen]; simp only [pool, t2, t1, hdrLen]; omega)
  have hn8 : 8 * n ≤ b.length := by rw [hblen]; simp only [pool, t2]; omega
  have hWeq : W = encodeWord l.be (l.major * 65536 + l.minor) ++ encodeWord l.be n ++ encodeWord l.be ko ++ encodeWord l.be to := encodeWords4 _ _ _ _ _
  have hmaj := hok.major_le
  have hmin := hok.minor_lt
  rw [hb]
  refine ⟨l.be, l.major, l.minor, ko, to, ?_, ⟨by omega, ?_⟩, hmaj, hmin, ⟨by omega, ?_⟩, ?_, ⟨by omega, ?_⟩, ⟨by omega, ?_⟩, ?_, hok.sorted⟩
  · exact ⟨[], W ++ l.headerExtra ++ descTable l.be d1 ++ l.gap ++ descTable l.be d2 ++ l.gap2 ++ strings ++ l.trailer,
      by simp only [b, List.nil_append, List.append_assoc], rfl⟩
  · exact ⟨magicOf l.be, encodeWord l.be n ++ encodeWord l.be ko ++ encodeWord l.be to ++ l.headerExtra ++ descTable l.be d1 ++ l.gap ++ descTable l.be d2 ++ l.gap2 ++ strings ++ l.trailer,
      by simp only [b, hWeq, List.append_assoc] <;> rfl, magicOf_length _⟩
  · exact ⟨magicOf l.be ++ encodeWord l.be (l.major * 65536 + l.minor), encodeWord l.be ko ++ encodeWord l.be to ++ l.headerExtra ++ descTable l.be d1 ++ l.gap ++ descTable l.be d2 ++ l.gap2 ++ strings ++ l.trailer,
      by simp only [b, hWeq, List.append_assoc] <;> rfl, by simp [magicOf_length, encodeWord_length]⟩
  · -- hidden flag
    unfold HiddenFlag Layout.hidden
    by_cases h1 : l.minor > 1
    · simp [h1]
    · by_cases h2 : l.minor = 1
      · obtain ⟨hns, x, y, hxy, hxl⟩ := hok.sysdep h2
        simp only [h2, if_true]
        refine ⟨l.nSysdep, ⟨hns, magicOf l.be ++ W ++ x, y ++ descTable l.be d1 ++ l.gap ++ descTable l.be d2 ++ l.gap2 ++ strings ++ l.trailer, ?_, ?_⟩, by simp⟩
        · simp only [b, hxy, List.append_assoc]
        · simp [magicOf_length, hWl, hxl]
      · simp [h1, h2]
  · exact ⟨magicOf l.be ++ encodeWord l.be (l.major * 65536 + l.minor) ++ encodeWord l.be n, encodeWord l.be to ++ l.headerExtra ++ descTable l.be d1 ++ l.gap ++ descTable l.be d2 ++ l.gap2 ++ strings ++ l.trailer,
      by simp only [b, hWeq, List.append_assoc] <;> rfl, by simp [magicOf_length, encodeWord_length]⟩
  · exact ⟨magicOf l.be ++ encodeWord l.be (l.major * 65536 + l.minor) ++ encodeWord l.be n ++ encodeWord l.be ko, l.headerExtra ++ descTable l.be d1 ++ l.gap ++ descTable l.be d2 ++ l.gap2 ++ strings ++ l.trailer,
      by simp only [b, hWeq, List.append_assoc] <;> rfl, by simp [magicOf_length, encodeWord_length]⟩
  · exact EntriesAt_of_forall cat 0 (fun j hj => ⟨by simpa using hkS j hj, by simpa using hvS j hj⟩)

end I18n.Mo
