import I18n.Lemmas.PluralRegistry
namespace I18n.CheckPlurals
open I18n I18n.Py I18n.Plural I18n.PluralParse I18n.Spec.PluralForms

/-- a clean declaration draws no diagnostic about itself: whatever is reported is junk around it or a comparison with the
    catalog / the registry (duplicate field, inconsistent or incorrect number of forms, unusual) -/
theorem clean_decl_names' (inp : Input) (pf : List Char) (out : Output) (hv : headerValues inp = [pf]) (ht : inp.isTemplate = false)
    (n : Nat) (e : Expr) (lj rj : List Char) (hpf : parsePluralForms pf = .ok n e lj rj) (h : checkPlurals inp = .ok out)
    (hclean : CleanOnWindow n e) (hreg : RegistryClean inp) :
    (∀ t ∈ out.tags, isComparisonName t.name ∨ t = ⟨"leading-junk-in-plural-forms", [.str lj]⟩ ∨
        t = ⟨"trailing-junk-in-plural-forms", [.str rj]⟩) ∧
    ∃ pre, out.preimage = some pre ∧ ∀ k, k ∈ keys pre ↔ ∃ i : Nat, i < codomainLimit ∧ evalAt 32 i e = .ok k := by
  obtain ⟨lcs, st, fin, rs, hl, hw, hg, hout⟩ := report_ok_raw inp pf out hv ht n e lj rj hpf h
  have hlc := lcTotal_of_clean hreg hl (unusualTag (hasPlurals inp) pf (hintOf inp))
  obtain ⟨st', mid, hw', htags, hmid, _, hkeys⟩ := window_clean hclean (pickLc (unusualTag (hasPlurals inp) pf (hintOf inp)) lcs).2
    (hasPlurals inp) (unusualTag (hasPlurals inp) pf (hintOf inp))
    ⟨tags0Of inp ++ junkTags lj rj ++ nplTags n (expectedOf inp) ++ (pickLc (unusualTag (hasPlurals inp) pf (hintOf inp)) lcs).1, [], false⟩ rfl hlc
  rw [hw] at hw'
  simp only [Prod.mk.injEq] at hw'
  obtain ⟨rfl, rfl⟩ := hw'
  simp only [completedOf, gapRanges_clean hclean st.pre hkeys, Except.ok.injEq] at hg
  subst hg
  subst hout
  refine ⟨?_, st.pre, by simp [completedOf], hkeys⟩
  intro t htm
  simp only [htags, gapTags, List.map_nil, List.append_nil, List.mem_append] at htm
  have hun : isComparisonName (unusualTag (hasPlurals inp) pf (hintOf inp)).name :=
    Or.inr (Or.inr (Or.inr (name_unusualTag _ _ _)))
  rcases htm with (((h0 | hj) | hn) | hp) | hm
  · rcases name_tags0 h0 with h' | h'
    · exact Or.inl (Or.inl h')
    · exact Or.inl (Or.inr (Or.inl h'))
  · rcases mem_junkTags.1 hj with ⟨_, h'⟩ | ⟨_, h'⟩
    · exact Or.inr (Or.inl h')
    · exact Or.inr (Or.inr h')
  · exact Or.inl (Or.inr (Or.inr (Or.inl (name_npl hn))))
  · rw [mem_pickLc _ _ _ hp]; exact Or.inl hun
  · rw [hmid t hm]; exact Or.inl hun

/-! ## `misc.format_range(range(a, b), max=5)` -/

/-- the items `format_range` joins with `", "` -/
def rangeItems (a b : Nat) : List (List Char) :=
  if b - a ≤ 5 then (List.range (b - a)).map (fun k => natStr (k + a))
  else (List.range 3).map (fun k => natStr (k + a)) ++ ["...".toList, natStr (b - 1)]

theorem formatRange_eq (a b : Nat) : formatRange a b = ", ".toList.intercalate (rangeItems a b) := rfl

/-- **The abbreviation denotes members of the range**: every item is the decimal of some `k` with `a ≤ k < b`, or the
    ellipsis; up to 5 members are all listed, in order; longer ranges are `a, a+1, a+2, ..., b-1`. -/
theorem rangeItems_sound (a b : Nat) (hab : a < b) :
    (∀ it ∈ rangeItems a b, it = "...".toList ∨ ∃ k, a ≤ k ∧ k < b ∧ it = natStr k) ∧
    (b - a ≤ 5 → rangeItems a b = (List.range (b - a)).map (fun k => natStr (k + a))) ∧
    (5 < b - a → rangeItems a b = [natStr a, natStr (a + 1), natStr (a + 2), "...".toList, natStr (b - 1)]) := by
  refine ⟨?_, ?_, ?_⟩
  · intro it hit
    unfold rangeItems at hit
    split at hit
    · simp only [List.mem_map, List.mem_range] at hit
      obtain ⟨k, hk, rfl⟩ := hit
      exact Or.inr ⟨k + a, by omega, by omega, rfl⟩
    · rename_i hlen
      simp only [List.mem_append, List.mem_map, List.mem_range, List.mem_cons, List.not_mem_nil, or_false] at hit
      rcases hit with ⟨k, hk, rfl⟩ | rfl | rfl
      · exact Or.inr ⟨k + a, by omega, by omega, rfl⟩
      · exact Or.inl rfl
      · exact Or.inr ⟨b - 1, by omega, by omega, rfl⟩
  · intro h; simp [rangeItems, h]
  · intro h
    have : ¬ b - a ≤ 5 := by omega
    simp only [rangeItems, this, ↓reduceIte]
    simp [List.range_succ, Nat.add_comm]

/-! ## helpers for the non-vacuity examples of Props/C07 -/

/-- the names of the tags of a run (`<exception>` if it raised) -/
def names (r : Except Py.Exc Output) : List String :=
  match r with
  | .ok out => out.tags.map (·.name)
  | .error _ => ["<exception>"]

/-- the extras of the tags of a run -/
def extrasOf (r : Except Py.Exc Output) : List (List Extra) :=
  match r with
  | .ok out => out.tags.map (·.extras)
  | .error _ => []

/-- a translated, non-obsolete plural message with `k` forms -/
def plMsg (k : Nat) : MsgFacts := ⟨false, true, true, k, "(m)".toList⟩
/-- the registry's declaration for English -/
def en : List Char := "nplurals=2; plural=n != 1;".toList

end I18n.CheckPlurals
