import I18n.Model.Deb
/-!
Lemmas about the packaging layer (`Model/Deb.lean`): `join`, the prefix test of `fakePath`, the walk of `checkDeb`.
-/
namespace I18n.Deb

theorem endsWithSep_append_singleton (a : Str) : endsWithSep (a ++ [sep]) = true := by
  simp [endsWithSep]

theorem getLast?_append_ne_nil (a b : Str) (hb : b ≠ []) : (a ++ b).getLast? = b.getLast? := by
  cases b with
  | nil => contradiction
  | cons x xs =>
    rw [List.getLast?_append]
    cases h : (x :: xs).getLast? with
    | none => simp at h
    | some v => rfl

theorem endsWithSep_of_ne_nil_append (a b : Str) (hb : b ≠ []) : endsWithSep (a ++ b) = endsWithSep b := by
  unfold endsWithSep
  rw [getLast?_append_ne_nil a b hb]

/-- `os.path.join(a, '')` puts exactly one separator at the end of a non-empty `a` -/
theorem join_empty (a : Str) (ha : a ≠ []) : join a [] = if endsWithSep a then a else a ++ [sep] := by
  unfold join
  have : a.isEmpty = false := by cases a <;> simp_all
  simp only [List.head?_nil, this, Bool.false_or, List.append_nil]
  split
  · rename_i h; cases h
  · rfl

theorem join_empty_endsWithSep (a : Str) (ha : a ≠ []) : endsWithSep (join a []) = true := by
  rw [join_empty a ha]
  split
  · assumption
  · exact endsWithSep_append_singleton a

/-- `os.path.join(root, name)` for a relative, non-empty `name` under a root without trailing separator -/
theorem join_name (root name : Str) (hr : root ≠ []) (hs : endsWithSep root = false) (hn : name.head? ≠ some sep) :
    join root name = root ++ sep :: name := by
  unfold join
  have h1 : (name.head? == some sep) = false := by simpa using hn
  have h2 : root.isEmpty = false := by cases root <;> simp_all
  simp [h1, h2, hs]

theorem isPrefixOf_append (a b : Str) : a.isPrefixOf (a ++ b) = true := by
  induction a with
  | nil => simp
  | cons x xs ih => simp [ih]

theorem drop_length_append (a b : Str) : (a ++ b).drop a.length = b := by
  simp

/-! ### `fakePath` -/

/-- **the rewrite**: a real path under `real_root` is shown as `fake_root` + the rest — for any roots that end in a separator -/
theorem fakePath_under (realRoot fakeRoot m : Str) (h1 : endsWithSep realRoot = true) (h2 : endsWithSep fakeRoot = true) :
    fakePath (some (realRoot, fakeRoot)) (realRoot ++ m) = .ok (fakeRoot ++ m) := by
  simp [fakePath, h1, h2, isPrefixOf_append]

/-- a path that does not start with `real_root` is left alone -/
theorem fakePath_outside (realRoot fakeRoot path : Str) (h1 : endsWithSep realRoot = true) (h2 : endsWithSep fakeRoot = true)
    (h : realRoot.isPrefixOf path = false) :
    fakePath (some (realRoot, fakeRoot)) path = .ok path := by
  simp [fakePath, h1, h2, h]

theorem fakePath_none (path : Str) : fakePath none path = .ok path := rfl

/-- `ValueError` exactly when one of the roots lacks its trailing separator -/
theorem fakePath_error_iff (realRoot fakeRoot path : Str) :
    fakePath (some (realRoot, fakeRoot)) path = .error .valueError ↔ (endsWithSep realRoot = false ∨ endsWithSep fakeRoot = false) := by
  unfold fakePath
  cases h1 : endsWithSep realRoot <;> cases h2 : endsWithSep fakeRoot <;> simp [h1, h2]
  split <;> simp

/-- Because `real_root` ends in a separator, the prefix test cannot be fooled by a sibling whose NAME merely starts
    like the root's last component (`/tmp/x.deb.ab` vs `/tmp/x.deb.abc/…`): a path that the test accepts really
    lies below the root directory. -/
theorem fakePath_prefix_is_directory (dir fakeRoot path : Str) (h2 : endsWithSep fakeRoot = true)
    (h : fakePath (some (dir ++ [sep], fakeRoot)) path ≠ .ok path) :
    ∃ m, path = dir ++ sep :: m := by
  unfold fakePath at h
  simp only [endsWithSep_append_singleton, h2, Bool.not_true, Bool.false_eq_true, if_false] at h
  split at h
  · rename_i hp
    obtain ⟨t, ht⟩ := List.isPrefixOf_iff_prefix.mp hp
    exact ⟨t, by rw [← ht]; simp⟩
  · exact absurd rfl h

/-! ### file names ending in `.deb` -/

theorem endsWith_ne_nil (s suffix : Str) (hs : suffix ≠ []) (h : endsWith s suffix = true) : s ≠ [] := by
  intro hn
  subst hn
  unfold endsWith at h
  cases hr : suffix.reverse with
  | nil => exact hs (by simpa using hr)
  | cons x xs => rw [hr] at h; simp at h

theorem endsWith_getLast (s suffix : Str) (c : Char) (hc : suffix.getLast? = some c) (h : endsWith s suffix = true) :
    s.getLast? = some c := by
  unfold endsWith at h
  obtain ⟨t, ht⟩ := List.isPrefixOf_iff_prefix.mp h
  have hs : s = t.reverse ++ suffix := by
    have := congrArg List.reverse ht
    simpa using this.symm
  have hne : suffix ≠ [] := by intro h0; subst h0; simp at hc
  rw [hs, getLast?_append_ne_nil _ _ hne, hc]

/-- a name the suffix dispatch accepts is non-empty and does not end in a separator: `join(filename, '')` = `filename/` -/
theorem join_package (filename : Str) (h : kindOf filename ≠ .unsupported) : join filename [] = filename ++ [sep] := by
  have key : filename ≠ [] ∧ endsWithSep filename = false := by
    unfold kindOf at h
    split at h
    · rename_i hd
      refine ⟨endsWith_ne_nil _ _ (by decide) hd, ?_⟩
      have := endsWith_getLast filename debSuffix 'b' (by decide) hd
      simp [endsWithSep, this, sep]
    · split at h
      · rename_i hd
        refine ⟨endsWith_ne_nil _ _ (by decide) hd, ?_⟩
        have := endsWith_getLast filename dscSuffix 'c' (by decide) hd
        simp [endsWithSep, this, sep]
      · exact absurd rfl h
  rw [join_empty filename key.1]
  simp [key.2]

/-! ### the loop -/

theorem runAll_normal (f : Str → Run) (ps : List Str) (h : ∀ p ∈ ps, (f p).exit = .normal) :
    runAll f ps = ⟨ps.flatMap (fun p => (f p).lines), .normal⟩ := by
  induction ps with
  | nil => rfl
  | cons p ps ih =>
    have hp := h p (by simp)
    have := ih (fun q hq => h q (List.mem_cons_of_mem _ hq))
    simp only [runAll, hp, this, List.flatMap_cons]

theorem runAll_congr (f g : Str → Run) (ps : List Str) (h : ∀ p ∈ ps, f p = g p) : runAll f ps = runAll g ps := by
  induction ps with
  | nil => rfl
  | cons p ps ih =>
    have hp := h p (by simp)
    have := ih (fun q hq => h q (List.mem_cons_of_mem _ hq))
    simp only [runAll, hp, this]

/-- whatever happens, every printed line comes from one of the calls, in order (a prefix of the full concatenation) -/
theorem runAll_lines_prefix (f : Str → Run) (ps : List Str) :
    (runAll f ps).lines <+: ps.flatMap (fun p => (f p).lines) := by
  induction ps with
  | nil => simp [runAll]
  | cons p ps ih =>
    simp only [runAll, List.flatMap_cons]
    split
    · exact (List.prefix_append_right_inj _).mpr ih
    · exact List.prefix_append _ _

/-! ### the walk below the unpacked tree -/

/-- the directory the members live in: `tmpdir` for a binary package, `tmpdir/s` for a source package -/
def baseDir (w : World) : Kind → Str
  | .dsc => w.tmpdir ++ sep :: ['s']
  | _ => w.tmpdir

/-- what `TemporaryDirectory` and `os.walk` are assumed to deliver: an absolute name without trailing separator;
    every directory that has files is the base directory or lies below it and carries no trailing separator;
    file names are non-empty and relative -/
structure WalkOK (w : World) (k : Kind) : Prop where
  tmp_ne : w.tmpdir ≠ []
  tmp_nosep : endsWithSep w.tmpdir = false
  roots : ∀ rf ∈ w.walk, rf.2 = [] ∨ rf.1 = baseDir w k ∨
    (∃ t, rf.1 = baseDir w k ++ sep :: t ∧ endsWithSep rf.1 = false)
  names : ∀ rf ∈ w.walk, ∀ n ∈ rf.2, n.head? ≠ some sep

theorem baseDir_ne (w : World) (k : Kind) (h : w.tmpdir ≠ []) : baseDir w k ≠ [] := by
  cases k <;> simp [baseDir, h]

theorem baseDir_nosep (w : World) (k : Kind) (h : endsWithSep w.tmpdir = false) : endsWithSep (baseDir w k) = false := by
  cases k
  · exact h
  · show endsWithSep (w.tmpdir ++ sep :: ['s']) = false
    rw [endsWithSep_of_ne_nil_append _ _ (by simp)]
    decide
  · exact h

/-- `real_root` is the base directory plus one separator -/
theorem realRoot_eq (w : World) (k : Kind) (h1 : w.tmpdir ≠ []) (h2 : endsWithSep w.tmpdir = false) :
    realRoot w k = baseDir w k ++ [sep] := by
  cases k
  · simp [realRoot, baseDir, join_empty _ h1, h2]
  · have hj : join w.tmpdir ['s'] = w.tmpdir ++ sep :: ['s'] := join_name _ _ h1 h2 (by decide)
    have hn : endsWithSep (w.tmpdir ++ sep :: ['s']) = false := baseDir_nosep w .dsc h2
    simp only [realRoot, baseDir, hj]
    rw [join_empty _ (by simp)]
    simp [hn]
  · simp [realRoot, baseDir, join_empty _ h1, h2]

/-- every path the loop visits is `real_root` + a member name -/
theorem walkPaths_under (w : World) (k : Kind) (hw : WalkOK w k) :
    ∀ p ∈ walkPaths w, ∃ m, p = (baseDir w k ++ [sep]) ++ m := by
  intro p hp
  unfold walkPaths at hp
  obtain ⟨hp, -⟩ := List.mem_filter.mp hp
  obtain ⟨rf, hrf, hp⟩ := List.mem_flatMap.mp hp
  obtain ⟨n, hn, rfl⟩ := List.mem_map.mp hp
  have hname := hw.names rf hrf n hn
  rcases hw.roots rf hrf with h | h | ⟨t, h, hs⟩
  · rw [h] at hn; cases hn
  · rw [h, join_name _ _ (baseDir_ne w k hw.tmp_ne) (baseDir_nosep w k hw.tmp_nosep) hname]
    exact ⟨n, by simp⟩
  · rw [join_name _ _ (by rw [h]; simp) hs hname, h]
    exact ⟨t ++ sep :: n, by simp⟩

/-- the name of the member found at real path `p` -/
def member (w : World) (k : Kind) (p : Str) : Str := p.drop ((baseDir w k).length + 1)

/-- how one member is reported: its own tag calls, minus the ignored tags and `unknown-file-type`, under `<package>/<member>` -/
def memberRun (w : World) (raw : Str → List TagCall × Bool) (o : Options) (k : Kind) (filename p : Str) : Run :=
  ⟨cliTags (unknownFileType :: o.ignoreTags) (filename ++ sep :: member w k p) (raw p).1,
   if (raw p).2 then .raised else .normal⟩

theorem checkRegular_member (w : World) (raw : Str → List TagCall × Bool) (o : Options) (k : Kind) (filename m : Str)
    (hk : kindOf filename ≠ .unsupported) (h1 : w.tmpdir ≠ []) (h2 : endsWithSep w.tmpdir = false) :
    checkRegular raw (memberOptions w o k filename) ((baseDir w k ++ [sep]) ++ m)
      = memberRun w raw o k filename ((baseDir w k ++ [sep]) ++ m) := by
  unfold checkRegular memberOptions copyOptions memberRun member
  simp only
  rw [realRoot_eq w k h1 h2, join_package filename hk,
    fakePath_under _ _ _ (endsWithSep_append_singleton _) (endsWithSep_append_singleton _)]
  have : List.drop ((baseDir w k).length + 1) ((baseDir w k ++ [sep]) ++ m) = m := by
    have := drop_length_append (baseDir w k ++ [sep]) m
    simp
  simp

end I18n.Deb
