import I18n.Lemmas.MetaRealBinary
import I18n.Lemmas.HdrMeta
import I18n.Lemmas.HdrLines
/-!
Transcoding for the composed checker (`Real.pipeline`): two catalogs that differ only in the charset NAME of the header's
`Content-Type: text/plain; charset=<name>` line.  The name enters through one door — the header entry's text, parsed by
`check_headers` into `ctx.metadata` — and is consumed by `check_mime` alone; proved here for the instantiated stage models:

* `check_headers` (`Hdr.checkHeaders`): same tags, metadata related (`MetaRel`);
* `check_language`, `check_plurals`, `check_dates`, `check_project`, `check_translator`: read other fields only (and the
  Content-Type value for the Publican prefix): identical tags;
* `check_mime` (`Hdr.checkMime`): identical tags apart from the charset tags; `ctx.encoding` is set on both sides;
* `check_messages` (`Msg.trace` + `FmtCheck`): sees `ctx.encoding is not None` only: identical lines.
-/
namespace I18n.Meta.Real
open I18n I18n.Check I18n.Meta I18n.Hdr

def ctKey : Str := ['C','o','n','t','e','n','t','-','T','y','p','e']
def ctPrefix : Str := ['t','e','x','t','/','p','l','a','i','n',';',' ','c','h','a','r','s','e','t','=']
/-- `text/plain; charset=<name>` -/
def ctValue (n : Str) : Str := ctPrefix ++ n

/-- a charset name in a well-formed Content-Type: non-empty, no white space, no `;`; and the tool knows it
    (C20's fragment returns an encoding for it, whatever the language) -/
structure TcName (w : World) (n : Str) : Prop where
  ne : n ≠ []
  chars : ∀ c ∈ n, w.hx.db.isSpace c = false ∧ c ≠ ';'
  known : ∀ tpl lang, ∃ tags kept, w.charset tpl lang (toName n) = .ok (tags, some kept)

/-- `\b` between the blank and `charset` -/
structure DbOk (db : UDB) : Prop where
  blank : db.isWord ' ' = false
  c : db.isWord 'c' = true

/-! ### metadata -/

def CtRel (w : World) (a b : List Str) : Prop :=
  a = b ∨ ∃ n1 n2, TcName w n1 ∧ TcName w n2 ∧ a = [ctValue n1] ∧ b = [ctValue n2]

structure MetaRel (w : World) (m1 m2 : Hdr.Meta) : Prop where
  keys : m1.map (·.1) = m2.map (·.1)
  other : ∀ k, k ≠ ctKey → m1.get k = m2.get k
  ct : CtRel w (m1.get ctKey) (m2.get ctKey)

theorem MetaRel.refl (w : World) (m : Hdr.Meta) : MetaRel w m m := ⟨rfl, fun _ _ => rfl, Or.inl rfl⟩

theorem MetaRel.getS (w : World) {m1 m2 : Hdr.Meta} (h : MetaRel w m1 m2) (k : String) (hk : k.toList ≠ ctKey) :
    m1.getS k = m2.getS k := h.other _ hk

theorem MetaRel.has (w : World) {m1 m2 : Hdr.Meta} (h : MetaRel w m1 m2) (k : Str) : m1.has k = m2.has k := by
  have e : ∀ m : Hdr.Meta, m.has k = (m.map (·.1)).any (· = k) := by
    intro m; simp only [Hdr.Meta.has, List.any_map]; rfl
  rw [e, e, h.keys]

theorem MetaRel.length (w : World) {m1 m2 : Hdr.Meta} (h : MetaRel w m1 m2) (k : Str) : (m1.get k).length = (m2.get k).length := by
  by_cases hk : k = ctKey
  · subst hk
    rcases h.ct with e | ⟨n1, n2, _, _, e1, e2⟩
    · rw [e]
    · rw [e1, e2]; rfl
  · rw [h.other k hk]

/-! ### the relation between the two runs -/

/-- two lists, element by element -/
inductive ListRel {α : Type} (R : α → α → Prop) : List α → List α → Prop where
  | nil : ListRel R [] []
  | cons {a b : α} {as bs : List α} : R a b → ListRel R as bs → ListRel R (a :: as) (b :: bs)

/-- the parsed header lines: identical, or identical apart from the one `Content-Type` line, which is well-formed on both sides -/
inductive LinesRel (w : World) : List Line → List Line → Prop where
  | same (ls : List Line) : LinesRel w ls ls
  | subst (pre post : List Line) (n1 n2 : Str) (h1 : TcName w n1) (h2 : TcName w n2)
      (hpre : ∀ l ∈ pre, ∀ v, l ≠ .field ctKey v) (hpost : ∀ l ∈ post, ∀ v, l ≠ .field ctKey v) :
      LinesRel w (pre ++ .field ctKey (ctValue n1) :: post) (pre ++ .field ctKey (ctValue n2) :: post)

/-- two header texts that differ in the charset name only, as far as `check_headers` looks at them -/
structure HeaderRel (w : World) (h1 h2 : Str) : Prop where
  unusual : unusualChars w.hx.db h1 = unusualChars w.hx.db h2
  lines : LinesRel w (parseHeader h1) (parseHeader h2)

/-- entries: equal, or header entries (`msgid ""` without context, text in `msgstr`) with related texts -/
def EntryRel (w : World) (o1 o2 : Obs) : Prop :=
  o1 = o2 ∨ (o1.msgid = [] ∧ o1.msgctxt = none ∧ form0 o1.msgstrPlural = none ∧
    ∃ text2, o2 = { o1 with msgstrOrEmpty := text2 } ∧ HeaderRel w o1.msgstrOrEmpty text2)

structure TcRel (w : World) (k1 k2 : RCtx) : Prop where
  isTemplate : k1.isTemplate = k2.isTemplate
  broken : k1.broken = k2.broken
  comments : k1.comments = k2.comments
  entries : ListRel (EntryRel w) k1.entries k2.entries
  metadata : MetaRel w k1.metadata k2.metadata
  language : k1.language = k2.language
  preimage : k1.preimage = k2.preimage
  encoding : k1.encoding.isSome = k2.encoding.isSome

def TcRelS (w : World) (s1 s2 : BinFlags × RCtx) : Prop := s1.1 = s2.1 ∧ TcRel w s1.2 s2.2

/-- a `lift`ed stage respects the relation if its function on `ctx` does -/
theorem lift_respects_tc (w : World) (keep : RTag → Bool) (f : Blind RCtx RTag)
    (h : ∀ k1 k2, TcRel w k1 k2 → TcRel w (f k1).1 (f k2).1 ∧ (f k1).2.1.filter keep = (f k2).2.1.filter keep ∧ (f k1).2.2 = (f k2).2.2) :
    Respects (TcRelS w) keep (lift f) (lift f) := by
  intro s s' ⟨hf, hk⟩
  obtain ⟨a, b, c⟩ := h s.2 s'.2 hk
  exact ⟨⟨hf, a⟩, b, c⟩

/-! ### stages that read other fields only -/

theorem commentsStage_tc (w : World) (keep : RTag → Bool) : Respects (TcRelS w) keep (lift (commentsStage w)) (lift (commentsStage w)) := by
  apply lift_respects_tc
  intro k1 k2 h
  simp only [commentsStage, h.isTemplate, h.comments]
  refine ⟨?_, ?_, ?_⟩ <;> first | exact h | trivial | rfl

theorem languageInput_tc (w : World) (k1 k2 : RCtx) (h : TcRel w k1 k2) : languageInput w k1 = languageInput w k2 := by
  simp only [languageInput, h.isTemplate, h.metadata.getS w "Language" (by decide), h.metadata.getS w "X-Poedit-Language" (by decide),
    h.metadata.getS w "X-Poedit-Country" (by decide)]

theorem languageStage_tc (w : World) (keep : RTag → Bool) : Respects (TcRelS w) keep (lift (languageStage w)) (lift (languageStage w)) := by
  apply lift_respects_tc
  intro k1 k2 h
  simp only [languageStage, languageInput_tc w k1 k2 h]
  split
  · exact ⟨h, rfl, rfl⟩
  · exact ⟨{ h with language := rfl }, rfl, rfl⟩

theorem toMsgFacts_tc (w : World) (o1 o2 : Obs) (h : EntryRel w o1 o2) : toMsgFacts w o1 = toMsgFacts w o2 := by
  rcases h with rfl | ⟨_, _, _, _, rfl, _⟩
  · rfl
  · rfl

theorem map_toMsgFacts_tc (w : World) (l1 l2 : List Obs) (h : ListRel (EntryRel w) l1 l2) :
    l1.map (toMsgFacts w) = l2.map (toMsgFacts w) := by
  induction h with
  | nil => rfl
  | cons hab _ ih => simp only [List.map_cons, toMsgFacts_tc w _ _ hab, ih]

theorem pluralsInput_tc (w : World) (k1 k2 : RCtx) (h : TcRel w k1 k2) : pluralsInput w k1 = pluralsInput w k2 := by
  simp only [pluralsInput, h.isTemplate, h.language, h.metadata.getS w "Plural-Forms" (by decide), map_toMsgFacts_tc w _ _ h.entries]

theorem pluralsStage_tc (w : World) (keep : RTag → Bool) : Respects (TcRelS w) keep (lift (pluralsStage w)) (lift (pluralsStage w)) := by
  apply lift_respects_tc
  intro k1 k2 h
  simp only [pluralsStage, pluralsInput_tc w k1 k2 h]
  split
  · exact ⟨h, rfl, rfl⟩
  · exact ⟨{ h with preimage := rfl }, rfl, rfl⟩

theorem resetStage_tc (w : World) (keep : RTag → Bool) : Respects (TcRelS w) keep (lift resetStage) (lift resetStage) := by
  apply lift_respects_tc
  intro k1 k2 h
  have hb := h.broken
  refine ⟨?_, rfl, rfl⟩
  show TcRel w (if k1.broken then { k1 with encoding := none } else k1) (if k2.broken then { k2 with encoding := none } else k2)
  rw [← hb]
  by_cases h1 : k1.broken = true
  · rw [if_pos h1, if_pos h1]
    exact ⟨h.isTemplate, rfl, h.comments, h.entries, h.metadata, h.language, h.preimage, rfl⟩
  · rw [if_neg h1, if_neg h1]; exact h

theorem checkProject_tc (w : World) (m1 m2 : Hdr.Meta) (h : MetaRel w m1 m2) : checkProject w.hx m1 = checkProject w.hx m2 := by
  simp only [checkProject, projectIdTags, reportTags, h.getS w "Project-Id-Version" (by decide), h.getS w "Report-Msgid-Bugs-To" (by decide)]

theorem projectStage_tc (w : World) (keep : RTag → Bool) : Respects (TcRelS w) keep (lift (projectStage w)) (lift (projectStage w)) := by
  apply lift_respects_tc
  intro k1 k2 h
  simp only [projectStage, checkProject_tc w _ _ h.metadata]
  refine ⟨?_, ?_, ?_⟩ <;> first | exact h | trivial | rfl

theorem checkTranslator_tc (w : World) (tpl : Bool) (m1 m2 : Hdr.Meta) (h : MetaRel w m1 m2) :
    checkTranslator w.hx tpl m1 = checkTranslator w.hx tpl m2 := by
  simp only [checkTranslator, h.getS w "Last-Translator" (by decide), h.getS w "Language-Team" (by decide)]

theorem translatorStage_tc (w : World) (keep : RTag → Bool) : Respects (TcRelS w) keep (lift (translatorStage w)) (lift (translatorStage w)) := by
  apply lift_respects_tc
  intro k1 k2 h
  simp only [translatorStage, checkTranslator_tc w _ _ _ h.metadata, h.isTemplate]
  refine ⟨?_, ?_, ?_⟩ <;> first | exact h | trivial | rfl

/-! ### `check_dates`: the Content-Type value is looked at for the Publican prefix only -/

theorem ctKey_eq : "Content-Type".toList = ctKey := by decide

theorem isPublican_ct (n : Str) : Date.isPublican (some (ctValue n)) = false := by
  simp [Date.isPublican, ctValue, ctPrefix, Date.publicanPrefix, Date.stripPre]

theorem checkDates_ct (c : Date.Ctx) (ct' : Option (List Char)) (h : Date.isPublican c.contentType = Date.isPublican ct') :
    Date.checkDates c = Date.checkDates { c with contentType := ct' } := by
  simp only [Date.checkDates_eq, Date.fieldTags, h]

theorem dateCtx_tc (w : World) (kind : Hdr.Kind) (m1 m2 : Hdr.Meta) (h : MetaRel w m1 m2) :
    Date.checkDates (dateCtx kind m1 w.now) = Date.checkDates (dateCtx kind m2 w.now) := by
  have e1 := h.getS w "POT-Creation-Date" (by decide)
  have e2 := h.getS w "PO-Revision-Date" (by decide)
  have hp : Date.isPublican (m1.getS "Content-Type").head? = Date.isPublican (m2.getS "Content-Type").head? := by
    unfold Hdr.Meta.getS
    rw [ctKey_eq]
    rcases h.ct with e | ⟨n1, n2, _, _, a, b⟩
    · rw [e]
    · rw [a, b]; simp [isPublican_ct]
  rw [checkDates_ct (dateCtx kind m1 w.now) (m2.getS "Content-Type").head? hp]
  simp only [dateCtx, e1, e2]

theorem datesStage_tc (w : World) (keep : RTag → Bool) : Respects (TcRelS w) keep (datesStage w) (datesStage w) := by
  intro s s' ⟨hf, hk⟩
  simp only [datesStage, hf, hk.isTemplate, dateCtx_tc w _ _ _ hk.metadata]
  split
  · exact ⟨⟨hf, hk⟩, rfl, rfl⟩
  · exact ⟨⟨hf, hk⟩, rfl, rfl⟩

/-! ### `check_mime`: the only consumer of the charset name -/

/-- the tags `check_mime` derives from the charset name (C20's fragment, `Hdr.ofCharsetTag`) -/
def isCharsetTagName (n : String) : Bool :=
  n == "boilerplate-in-content-type" || n == "unknown-encoding" || n == "non-ascii-compatible-encoding" ||
  n == "non-portable-encoding" || n == "unrepresentable-characters"

/-- what is compared under transcoding: everything but the charset tags of `check_mime` -/
def notCharset : RTag → Bool
  | .mime t => !isCharsetTagName t.name
  | _ => true

theorem ofCharsetTag_name (ct : Str) (t : Charset.Tag) : isCharsetTagName (ofCharsetTag ct t).name = true := by
  cases t with
  | nonPortable e p => cases p <;> rfl
  | _ => rfl

theorem filter_notCharset_charset (ct : Str) (ts : List Charset.Tag) :
    ((ts.map (ofCharsetTag ct)).map RTag.mime).filter notCharset = [] := by
  induction ts with
  | nil => rfl
  | cons t rest ih => simp [notCharset, ofCharsetTag_name]

theorem stripPrefix_append (p r : Str) : stripPrefix p (p ++ r) = some r := (stripPrefix_eq_some p (p ++ r) r).mpr rfl

theorem matchContentType_ct (db : UDB) (hdb : DbOk db) (n : Str) (hne : n ≠ [])
    (hch : ∀ c ∈ n, db.isSpace c = false ∧ c ≠ ';') : matchContentType db (ctValue n) = some (true, n) := by
  have e1 : ctValue n = "text/plain; ".toList ++ ("charset=".toList ++ n) := by
    simp [ctValue, ctPrefix]
  have hall : (n.all fun c => !db.isSpace c && c != ';') = true := by
    simp only [List.all_eq_true, Bool.and_eq_true, Bool.not_eq_true', bne_iff_ne, ne_eq]
    exact fun c hc => hch c hc
  have hemp : n.isEmpty = false := by cases n <;> simp_all
  unfold matchContentType
  rw [e1, stripPrefix_append]
  simp only
  have hb : boundary db (some ' ') ("charset=".toList ++ n).head? = true := by
    have : ("charset=".toList ++ n).head? = some 'c' := by simp
    rw [this]
    simp [boundary, hdb.blank, hdb.c]
  simp only [hb, if_true, charsetAt, stripPrefix_append, hemp, hall, Bool.not_false, Bool.and_self]

theorem sortedSet_singleton (e : Str) : Hdr.sortedSet [e] = [e] := rfl

/-- `check_mime` on a metadata whose only Content-Type is `text/plain; charset=<n>`, `n` known to the tool -/
theorem checkMime_ct (w : World) (hdb : DbOk w.hx.db) (tpl : Bool) (lang : Option Locale.Language) (m : Hdr.Meta) (n : Str)
    (hn : TcName w n) (hm : m.get ctKey = [ctValue n]) :
    ∃ (tags : List Charset.Tag) (kept : Str), checkMime w.hx.db (w.charset tpl lang) m
      = .ok ⟨mimeVersionTags m ++ cteTags m ++ [] ++ (tags.map (ofCharsetTag (ctValue n)) ++ []), some kept⟩ := by
  obtain ⟨tags, kept, hk⟩ := hn.known tpl lang
  refine ⟨tags, ofName kept, ?_⟩
  have hg : m.getS "Content-Type" = [ctValue n] := by unfold Hdr.Meta.getS; rw [ctKey_eq, hm]
  simp only [checkMime, hg, List.length_singleton, Nat.succ_ne_zero, if_false, Nat.lt_irrefl, dedup, contentTypeLoop, contentTypeOne,
    matchContentType_ct w.hx.db hdb n hn.ne hn.chars, hk, Option.map_some, List.append_nil, if_true, sortedSet_singleton]

theorem mimeTags_tc (w : World) (m1 m2 : Hdr.Meta) (h : MetaRel w m1 m2) :
    mimeVersionTags m1 ++ cteTags m1 = mimeVersionTags m2 ++ cteTags m2 := by
  simp only [mimeVersionTags, cteTags, h.getS w "MIME-Version" (by decide), h.getS w "Content-Transfer-Encoding" (by decide)]

theorem mimeStage_tc (w : World) (hdb : DbOk w.hx.db) : Respects (TcRelS w) notCharset (lift (mimeStage w)) (lift (mimeStage w)) := by
  apply lift_respects_tc
  intro k1 k2 h
  rcases h.metadata.ct with e | ⟨n1, n2, hn1, hn2, a, b⟩
  · -- the same Content-Type values: the very same call
    have em : checkMime w.hx.db (w.charset k1.isTemplate k1.language) k1.metadata
        = checkMime w.hx.db (w.charset k2.isTemplate k2.language) k2.metadata := by
      have eg : k1.metadata.getS "Content-Type" = k2.metadata.getS "Content-Type" := by
        unfold Hdr.Meta.getS; rw [ctKey_eq, e]
      have := mimeTags_tc w _ _ h.metadata
      simp only [checkMime, eg, this, h.isTemplate, h.language]
    simp only [mimeStage, em]
    split
    · refine ⟨?_, ?_, ?_⟩ <;> first | exact h | trivial | rfl
    · refine ⟨?_, ?_, ?_⟩ <;> first | exact { h with encoding := rfl } | trivial | rfl
  · obtain ⟨t1, kept1, r1⟩ := checkMime_ct w hdb k1.isTemplate k1.language k1.metadata n1 hn1 a
    obtain ⟨t2, kept2, r2⟩ := checkMime_ct w hdb k2.isTemplate k2.language k2.metadata n2 hn2 b
    simp only [mimeStage, r1, r2]
    refine ⟨{ h with encoding := rfl }, ?_, trivial⟩
    have hm := mimeTags_tc w _ _ h.metadata
    simp only [List.append_nil, List.map_append, List.filter_append, filter_notCharset_charset]
    rw [← List.filter_append, ← List.map_append, hm, List.map_append, List.filter_append]

/-! ### `check_headers`: the door -/

open I18n.Spec.HeaderRules in
theorem fieldLines_append (a b : List Line) : fieldLines (a ++ b) = fieldLines a ++ fieldLines b := by
  simp [fieldLines, List.filterMap_append]

def addKey (k : Str) (ks : List Str) : List Str := if k ∈ ks then ks else ks ++ [k]

theorem keys_add (k v : Str) (m : Hdr.Meta) : (Meta.add k v m).map (·.1) = addKey k (m.map (·.1)) := by
  induction m with
  | nil => simp [Meta.add, addKey]
  | cons p rest ih =>
    obtain ⟨k0, vs⟩ := p
    unfold Meta.add
    by_cases h0 : k0 = k
    · subst h0; simp [addKey]
    · have hne : ¬ k = k0 := fun e => h0 e.symm
      simp only [h0, if_false, List.map_cons, ih, addKey, List.mem_cons, hne, false_or]
      split <;> simp

open I18n.Spec.HeaderRules in
theorem buildMeta_keys_list (ls : List Line) (m : Hdr.Meta) :
    (buildMeta ls m).map (·.1) = ((fieldLines ls).map (·.1)).foldl (fun ks k => addKey k ks) (m.map (·.1)) := by
  induction ls generalizing m with
  | nil => rfl
  | cons l rest ih =>
    cases l with
    | field k v => simp only [buildMeta, ih, keys_add, fieldLines, List.filterMap_cons, List.map_cons, List.foldl_cons]
    | stray s => simp only [buildMeta, ih, fieldLines, List.filterMap_cons]

open I18n.Spec.HeaderRules in
theorem fieldVals_no_ct (ls : List Line) (h : ∀ l ∈ ls, ∀ v, l ≠ .field ctKey v) : fieldVals (fieldLines ls) ctKey = [] := by
  induction ls with
  | nil => rfl
  | cons l rest ih =>
    have hr := ih (fun l hl => h l (List.mem_cons_of_mem _ hl))
    cases l with
    | field k v =>
      have hk : k ≠ ctKey := fun e => h (.field k v) (by simp) v (by rw [e])
      simp only [fieldVals, fieldLines, List.filterMap_cons, List.filter_cons, hk, decide_false, Bool.false_eq_true, if_false] at hr ⊢
      exact hr
    | stray s => simpa [fieldVals, fieldLines] using hr

open I18n.Spec.HeaderRules in
theorem fieldLines_subst (pre post : List Line) (k v : Str) :
    fieldLines (pre ++ .field k v :: post) = fieldLines pre ++ (k, v) :: fieldLines post := by
  rw [fieldLines_append]
  simp [fieldLines]

open I18n.Spec.HeaderRules in
theorem fieldVals_subst_other (pre post : List Line) (k v : Str) (k' : Str) (hk : k ≠ k') :
    fieldVals (fieldLines (pre ++ .field k v :: post)) k' = fieldVals (fieldLines pre) k' ++ fieldVals (fieldLines post) k' := by
  rw [fieldLines_subst]
  simp [fieldVals, List.filter_append, List.filter_cons, hk]

open I18n.Spec.HeaderRules in
theorem fieldVals_subst_ct (pre post : List Line) (v : Str) (hpre : ∀ l ∈ pre, ∀ v, l ≠ .field ctKey v)
    (hpost : ∀ l ∈ post, ∀ v, l ≠ .field ctKey v) :
    fieldVals (fieldLines (pre ++ .field ctKey v :: post)) ctKey = [v] := by
  rw [fieldLines_subst]
  have a := fieldVals_no_ct pre hpre
  have b := fieldVals_no_ct post hpost
  simp only [fieldVals] at a b ⊢
  simp [List.filter_append, List.filter_cons, a, b]

open I18n.Spec.HeaderRules in
/-- related lines build related dictionaries -/
theorem buildMeta_tc (w : World) (l1 l2 : List Line) (h : LinesRel w l1 l2) : MetaRel w (buildMeta l1 []) (buildMeta l2 []) := by
  cases h with
  | same => exact MetaRel.refl w _
  | subst pre post n1 n2 h1 h2 hpre hpost =>
    refine ⟨?_, ?_, Or.inr ⟨n1, n2, h1, h2, ?_, ?_⟩⟩
    · rw [buildMeta_keys_list, buildMeta_keys_list, fieldLines_subst, fieldLines_subst]
      simp
    · intro k hk
      have hk' : ctKey ≠ k := fun e => hk e.symm
      rw [meta_get, meta_get, fieldVals_subst_other _ _ _ _ _ hk', fieldVals_subst_other _ _ _ _ _ hk']
    · rw [meta_get, fieldVals_subst_ct pre post _ hpre hpost]
    · rw [meta_get, fieldVals_subst_ct pre post _ hpre hpost]

open I18n.Spec.HeaderRules in
theorem strayLines_tc (w : World) (l1 l2 : List Line) (h : LinesRel w l1 l2) : strayLines l1 = strayLines l2 := by
  cases h with
  | same => rfl
  | subst pre post n1 n2 _ _ _ _ => simp [strayLines_eq, strays, List.filterMap_append]

theorem fieldNameTags_tc (w : World) (m1 m2 : Hdr.Meta) (h : MetaRel w m1 m2) (key : Str) :
    fieldNameTags w.hx m1 key = fieldNameTags w.hx m2 key := by
  simp only [fieldNameTags, h.length w key, h.has w]

theorem flatMap_congr' {α β : Type} (l : List α) (f g : α → List β) (h : ∀ a ∈ l, f a = g a) : l.flatMap f = l.flatMap g := by
  induction l with
  | nil => rfl
  | cons a rest ih =>
    simp only [List.flatMap_cons, h a (by simp), ih (fun b hb => h b (List.mem_cons_of_mem _ hb))]

structure LoopRel (w : World) (s1 s2 : LoopState) : Prop where
  tags : s1.tags = s2.tags
  seen : s1.seen = s2.seen
  crashed : s1.crashed = s2.crashed
  lines : LinesRel w s1.lines s2.lines
  fresh : s1.seen = false → s1.lines = [] ∧ s2.lines = []

/-- one step of `for entry in ctx.file` on related entries and related states -/
theorem entryLoop_tc (w : World) (tpl : Bool) (es1 es2 : List Obs) (h : ListRel (EntryRel w) es1 es2) :
    ∀ (idx : Nat) (s1 s2 : LoopState), LoopRel w s1 s2 →
      LoopRel w (entryLoop w.hx tpl idx (es1.map toHdrEntry) s1) (entryLoop w.hx tpl idx (es2.map toHdrEntry) s2) := by
  induction h with
  | nil => intro idx s1 s2 hs; exact hs
  | @cons a b as bs hab _ ih =>
    intro idx s1 s2 hs
    have hseen := hs.seen
    -- what the two entries look like to `check_headers`
    have key : (!isHeaderEntry (toHdrEntry a) || (toHdrEntry a).obsolete) = (!isHeaderEntry (toHdrEntry b) || (toHdrEntry b).obsolete) ∧
        entryTags w.hx tpl idx (toHdrEntry a) = entryTags w.hx tpl idx (toHdrEntry b) ∧
        LinesRel w (parseHeader (toHdrEntry a).headerText) (parseHeader (toHdrEntry b).headerText) := by
      rcases hab with rfl | ⟨h1, h2, h3, text2, rfl, h5⟩
      · exact ⟨rfl, rfl, LinesRel.same _⟩
      · have ea : (toHdrEntry a).headerText = a.msgstrOrEmpty := by simp [Entry.headerText, toHdrEntry, h3]
        have eb : (toHdrEntry { a with msgstrOrEmpty := text2 }).headerText = text2 := by simp [Entry.headerText, toHdrEntry, h3]
        refine ⟨rfl, ?_, ?_⟩
        · have hu := h5.unusual
          rw [← ea, ← eb] at hu
          simp only [entryTags, hu]
          rfl
        · rw [ea, eb]; exact h5.lines
    obtain ⟨k1, k2, k3⟩ := key
    simp only [List.map_cons, entryLoop]
    rw [← k1]
    split
    · exact ih (idx + 1) s1 s2 hs
    · rw [← hseen]
      split
      · exact ⟨by simp [hs.tags], rfl, hs.crashed, hs.lines, hs.fresh⟩
      · rename_i hns
        rw [← k2]
        split
        · exact ⟨hs.tags, rfl, rfl, hs.lines, hs.fresh⟩
        · apply ih
          have hf := hs.fresh (by simpa using hns)
          refine ⟨by simp [hs.tags], rfl, hs.crashed, ?_, fun h => by cases h⟩
          simp only [hf.1, hf.2, List.nil_append]
          exact k3

/-- **`check_headers` on related entries**: the same tags, related `ctx.metadata`, the same exception behaviour -/
theorem checkHeaders_tc (w : World) (tpl : Bool) (es1 es2 : List Obs) (h : ListRel (EntryRel w) es1 es2) :
    (checkHeaders w.hx tpl (es1.map toHdrEntry) = none ∧ checkHeaders w.hx tpl (es2.map toHdrEntry) = none) ∨
    ∃ h1 h2, checkHeaders w.hx tpl (es1.map toHdrEntry) = some h1 ∧ checkHeaders w.hx tpl (es2.map toHdrEntry) = some h2 ∧
      h1.tags = h2.tags ∧ MetaRel w h1.metadata h2.metadata := by
  have hl := entryLoop_tc w tpl es1 es2 h 0 ⟨[], [], false, false⟩ ⟨[], [], false, false⟩
    ⟨rfl, rfl, rfl, LinesRel.same _, fun _ => ⟨rfl, rfl⟩⟩
  unfold checkHeaders
  simp only
  rw [← hl.crashed]
  split
  · exact Or.inl ⟨rfl, rfl⟩
  · refine Or.inr ⟨_, _, rfl, rfl, ?_, buildMeta_tc w _ _ hl.lines⟩
    have hm := buildMeta_tc w _ _ hl.lines
    simp only [hl.tags, strayLines_tc w _ _ hl.lines, hm.keys]
    congr 1
    exact flatMap_congr' _ _ _ (fun key _ => fieldNameTags_tc w _ _ hm key)

theorem headersStage_tc (w : World) (keep : RTag → Bool) : Respects (TcRelS w) keep (lift (headersStage w)) (lift (headersStage w)) := by
  apply lift_respects_tc
  intro k1 k2 h
  have ht := h.isTemplate
  rcases checkHeaders_tc w k1.isTemplate k1.entries k2.entries h.entries with ⟨a, b⟩ | ⟨h1, h2, a, b, c, d⟩
  · rw [ht] at b
    simp only [headersStage, a, b]
    refine ⟨?_, ?_, ?_⟩ <;> first | exact h | trivial | rfl
  · rw [ht] at b
    simp only [headersStage, a, b, c]
    refine ⟨?_, ?_, ?_⟩ <;>
      first | exact ⟨h.isTemplate, h.broken, h.comments, h.entries, d, h.language, h.preimage, h.encoding⟩ | trivial | rfl

/-! ### `check_messages`: sees `ctx.encoding is not None` only, and skips header entries -/

/-- the lines of the per-entry part -/
def entryLines (w : World) (fc : FmtCheck.Ctx) (es : List Obs) (per : List (List Msg.Emit)) : List (List RTag × Bool) :=
  (es.zip per).flatMap fun p => p.2.map (expandEmit w fc p.1)

theorem messageLoop_tc (w : World) (mc : Msg.Ctx) (fc : FmtCheck.Ctx) (es1 es2 : List Obs) (h : ListRel (EntryRel w) es1 es2) :
    ∀ st, (Msg.messageLoop w.menv mc st (es1.map toMsgEntry)).1 = (Msg.messageLoop w.menv mc st (es2.map toMsgEntry)).1 ∧
      entryLines w fc es1 (Msg.messageLoop w.menv mc st (es1.map toMsgEntry)).2
        = entryLines w fc es2 (Msg.messageLoop w.menv mc st (es2.map toMsgEntry)).2 := by
  induction h with
  | nil => intro st; exact ⟨rfl, rfl⟩
  | @cons a b as bs hab _ ih =>
    intro st
    rcases hab with rfl | ⟨h1, h2, _, text2, rfl, _⟩
    · -- the same entry
      simp only [List.map_cons, Msg.messageLoop]
      split
      · obtain ⟨i1, i2⟩ := ih st
        exact ⟨i1, by simpa [entryLines] using i2⟩
      · split
        · obtain ⟨i1, i2⟩ := ih st
          exact ⟨i1, by simpa [entryLines] using i2⟩
        · obtain ⟨i1, i2⟩ := ih (Msg.checkMessage w.menv mc st (toMsgEntry a)).1
          refine ⟨i1, ?_⟩
          simp only [entryLines, List.zip_cons_cons, List.flatMap_cons] at i2 ⊢
          rw [i2]
    · -- a header entry: skipped on both sides
      have hh1 : Msg.isHeaderEntry (toMsgEntry a) = true := by simp [Msg.isHeaderEntry, toMsgEntry, nat, h1, h2]
      have hh2 : Msg.isHeaderEntry (toMsgEntry { a with msgstrOrEmpty := text2 }) = true := by
        simp [Msg.isHeaderEntry, toMsgEntry, nat, h1, h2]
      have ho : (toMsgEntry { a with msgstrOrEmpty := text2 }).obsolete = (toMsgEntry a).obsolete := rfl
      obtain ⟨i1, i2⟩ := ih st
      simp only [List.map_cons, Msg.messageLoop, ho, hh1, hh2, if_true]
      split
      · exact ⟨i1, by simpa [entryLines] using i2⟩
      · exact ⟨i1, by simpa [entryLines] using i2⟩

theorem messagesOut_tc (w : World) (fl : BinFlags) (k1 k2 : RCtx) (h : TcRel w k1 k2) : messagesOut w fl k1 = messagesOut w fl k2 := by
  have hm : msgCtx fl k1 = msgCtx fl k2 := by simp [msgCtx, h.isTemplate, h.encoding]
  have hf : fmtCtx k1 = fmtCtx k2 := by simp [fmtCtx, h.isTemplate, h.encoding, h.preimage]
  obtain ⟨a, b⟩ := messageLoop_tc w (msgCtx fl k2) (fmtCtx k2) k1.entries k2.entries h.entries {}
  simp only [messagesOut, Msg.trace, hm, hf]
  simp only [entryLines] at b
  rw [a, b]

theorem messagesStage_tc (w : World) (keep : RTag → Bool) : Respects (TcRelS w) keep (messagesStage w) (messagesStage w) := by
  intro s s' ⟨hf, hk⟩
  simp only [messagesStage, hf, messagesOut_tc w s'.1 s.2 s'.2 hk]
  refine ⟨?_, ?_, ?_⟩ <;> first | exact ⟨hf, hk⟩ | trivial | rfl

/-! ### the whole pipeline -/

theorem respects_notCharset_of_any (w : World) (st : Stage (BinFlags × RCtx) RTag)
    (h : ∀ keep, Respects (TcRelS w) keep st st) : Respects (TcRelS w) notCharset st st := h _

/-- **the composed checker respects transcoding**: every stage but `check_mime` prints identical tags -/
theorem pipeline_respects_tc (w : World) (hdb : DbOk w.hx.db) : RespectsAll (TcRelS w) notCharset (pipeline w) (pipeline w) := by
  unfold pipeline
  refine .cons (commentsStage_tc w _) <| .cons (headersStage_tc w _) <| .cons (languageStage_tc w _) <|
    .cons (pluralsStage_tc w _) <| .cons (mimeStage_tc w hdb) <| .cons (resetStage_tc w _) <|
    .cons (datesStage_tc w _) <| .cons (projectStage_tc w _) <| .cons (translatorStage_tc w _) <|
    .cons (messagesStage_tc w _) .nil

end I18n.Meta.Real
