import I18n.Model.FmtCheck
import I18n.Spec.FmtCompare
/-!
# Lemmas about the comparators for named arguments (Python `%` with keys, python-brace, perl-brace)
-/
namespace I18n.FmtCheck
open I18n I18n.FmtSig I18n.Spec.FmtCompare

/-! ## `sorted` is a permutation -/

theorem insertBy_perm {α : Type} (lt : α → α → Bool) (x : α) : ∀ l : List α, (insertBy lt x l).Perm (x :: l)
  | [] => by simp [insertBy]
  | y :: ys => by
    simp only [insertBy]
    split
    · exact List.Perm.refl _
    · exact ((insertBy_perm lt x ys).cons y).trans (List.Perm.swap x y ys)

theorem sortBy_perm {α : Type} (lt : α → α → Bool) : ∀ l : List α, (sortBy lt l).Perm l
  | [] => by simp [sortBy]
  | x :: xs => by
    have ih := sortBy_perm lt xs
    simp only [sortBy, List.foldr_cons] at ih ⊢
    exact (insertBy_perm lt x _).trans (ih.cons x)

theorem mem_sortBy {α : Type} (lt : α → α → Bool) (l : List α) (x : α) : x ∈ sortBy lt l ↔ x ∈ l :=
  (sortBy_perm lt l).mem_iff

theorem sortBy_eq_nil {α : Type} (lt : α → α → Bool) (l : List α) : sortBy lt l = [] ↔ l = [] := by
  constructor
  · intro h
    have := (sortBy_perm lt l).length_eq
    rw [h] at this
    exact List.eq_nil_of_length_eq_zero this.symm
  · rintro rfl; rfl

/-! ## dict look-up = the specification's `get` -/

theorem lookupKey_eq_get {κ ν : Type} [DecidableEq κ] (k : κ) : ∀ m : List (κ × ν), lookupKey k m = valueAt m k
  | [] => rfl
  | (k', v) :: rest => by
    simp only [lookupKey, valueAt]
    split
    · rfl
    · exact lookupKey_eq_get k rest

theorem get_isSome_iff {κ ν : Type} [DecidableEq κ] (k : κ) : ∀ m : Named κ ν, (∃ v, valueAt m k = some v) ↔ k ∈ keys m
  | [] => by simp [valueAt, keys]
  | (k', v) :: rest => by
    have ih := get_isSome_iff k rest
    simp only [valueAt, keys, List.map_cons, List.mem_cons] at ih ⊢
    by_cases h : k' = k
    · simp [h]
    · simp only [h, ↓reduceIte, ih]
      constructor
      · intro h'; exact Or.inr h'
      · rintro (h' | h')
        · exact absurd h'.symm h
        · exact h'

theorem get_none_iff {κ ν : Type} [DecidableEq κ] (k : κ) (m : Named κ ν) : valueAt m k = none ↔ k ∉ keys m := by
  rw [← get_isSome_iff k m]
  cases valueAt m k <;> simp

theorem get_mem {κ ν : Type} [DecidableEq κ] {k : κ} {v : ν} : ∀ {m : Named κ ν}, valueAt m k = some v → (k, v) ∈ m
  | [], h => by cases h
  | (k', v') :: rest, h => by
    simp only [valueAt] at h
    split at h
    · rename_i hk
      cases h
      simp [hk]
    · exact List.mem_cons_of_mem _ (get_mem h)

/-- the reference view of a dict of use-lists: each key with a value computed from its uses -/
def viewOf {κ ν τ : Type} (hd : List ν → τ) (m : List (κ × List ν)) : Named κ τ := m.map fun p => (p.1, hd p.2)

theorem keys_viewOf {κ ν τ : Type} (hd : List ν → τ) (m : List (κ × List ν)) : keys (viewOf hd m) = m.map (·.1) := by
  simp [keys, viewOf]

theorem get_viewOf {κ ν τ : Type} [DecidableEq κ] (hd : List ν → τ) (k : κ) :
    ∀ m : List (κ × List ν), valueAt (viewOf hd m) k = (valueAt m k).map hd
  | [] => rfl
  | (k', v) :: rest => by
    have ih := get_viewOf hd k rest
    simp only [viewOf, List.map_cons, valueAt] at ih ⊢
    split
    · rfl
    · exact ih

/-! ## the shared loop over common keys -/

/-- what the loop emits for one key -/
def clashAt {κ ν : Type} [DecidableEq κ] (clash : ν → ν → Option TagCall) (src dst : List (κ × List ν)) (k : κ) : List TagCall :=
  match valueAt src k, valueAt dst k with
  | some (s0 :: _), some (d0 :: _) => (clash s0 d0).toList
  | _, _ => []

theorem mapTypeTags_ok {κ ν : Type} [DecidableEq κ] (clash : ν → ν → Option TagCall) (src dst : List (κ × List ν))
    (hs : ∀ p ∈ src, p.2 ≠ []) (hd : ∀ p ∈ dst, p.2 ≠ []) :
    ∀ ks : List κ, (∀ k ∈ ks, k ∈ keys src ∧ k ∈ keys dst) →
      mapTypeTags clash src dst ks = .ok (ks.flatMap (clashAt clash src dst)) := by
  intro ks
  induction ks with
  | nil => intro _; rfl
  | cons k ks ih =>
    intro hk
    obtain ⟨hks, hkd⟩ := hk k (by simp)
    obtain ⟨us, hus⟩ := (get_isSome_iff k src).2 hks
    obtain ⟨ud, hud⟩ := (get_isSome_iff k dst).2 hkd
    have hus' : us ≠ [] := hs _ (get_mem hus)
    have hud' : ud ≠ [] := hd _ (get_mem hud)
    cases us with
    | nil => exact absurd rfl hus'
    | cons s0 srest =>
      cases ud with
      | nil => exact absurd rfl hud'
      | cons d0 drest =>
        simp only [mapTypeTags, lookupKey_eq_get, hus, hud, ih (fun k' hk' => hk k' (by simp [hk'])),
          List.flatMap_cons, clashAt]

/-! ## the shared tolerance step -/

theorem nodup_all_eq {α : Type} {l : List α} {k : α} (hn : l.Nodup) (hall : ∀ x ∈ l, x = k) (hk : k ∈ l) : l = [k] := by
  cases l with
  | nil => cases hk
  | cons x xs =>
    have hx : x = k := hall x (by simp)
    subst hx
    cases xs with
    | nil => rfl
    | cons y ys =>
      have hy : y = x := hall y (by simp)
      subst hy
      simp at hn

/-- `missing = [k]` says that `k` is the one and only missing key -/
theorem missing_singleton_iff {κ : Type} [BEq κ] [LawfulBEq κ] {sk dk : List κ} (hn : sk.Nodup) (k : κ) :
    sk.filter (fun x => !dk.contains x) = [k] ↔ (k ∈ sk ∧ k ∉ dk) ∧ ∀ k', (k' ∈ sk ∧ k' ∉ dk) → k' = k := by
  constructor
  · intro h
    have hm : ∀ x, x ∈ sk.filter (fun x => !dk.contains x) ↔ x = k := by rw [h]; simp
    simp only [List.mem_filter, List.contains_eq_mem, Bool.not_eq_eq_eq_not, Bool.not_true, decide_eq_false_iff_not] at hm
    exact ⟨(hm k).2 rfl, fun k' hk' => (hm k').1 hk'⟩
  · rintro ⟨⟨h1, h2⟩, h3⟩
    apply nodup_all_eq (hn.filter _)
    · intro x hx
      simp only [List.mem_filter, List.contains_eq_mem, Bool.not_eq_eq_eq_not, Bool.not_true, decide_eq_false_iff_not] at hx
      exact h3 x hx
    · simp [h1, h2]

/-- the decision of the tolerance step: allowed by the caller, exactly one key is missing, all its uses are integer -/
def mapTolerated {κ ν : Type} [DecidableEq κ] (isInt : ν → Bool) (src : List (κ × List ν)) (missing : List κ) (omittedOk : Bool) : Bool :=
  omittedOk && match missing with
    | [k] => (match valueAt src k with | some uses => uses.all isInt | none => false)
    | _ => false

theorem missingKeys_ok {κ ν : Type} [DecidableEq κ] (isInt : ν → Bool) (src : List (κ × List ν)) (missing : List κ) (omittedOk : Bool)
    (hm : ∀ k ∈ missing, k ∈ keys src) :
    missingKeys isInt src missing omittedOk = .ok (if mapTolerated isInt src missing omittedOk then [] else missing) := by
  unfold missingKeys mapTolerated
  cases omittedOk with
  | false => cases missing with
    | nil => simp
    | cons k ks => cases ks <;> simp
  | true =>
    cases missing with
    | nil => simp
    | cons k ks =>
      cases ks with
      | cons k2 ks2 => simp
      | nil =>
        obtain ⟨us, hus⟩ := (get_isSome_iff k src).2 (hm k (by simp))
        simp only [↓reduceIte, lookupKey_eq_get, hus, Bool.true_and]
        by_cases h : us.all isInt = true
        · simp [h]
        · simp only [Bool.not_eq_true] at h; simp [h]

/-! ## well-formedness of a dict of use-lists -/

/-- distinct keys, every key has at least one use -/
def MapWf {κ ν : Type} (m : List (κ × List ν)) : Prop := (m.map (·.1)).Nodup ∧ ∀ p ∈ m, p.2 ≠ []

theorem mem_filter_contains {κ : Type} [BEq κ] [LawfulBEq κ] (a b : List κ) (k : κ) :
    k ∈ a.filter (fun x => b.contains x) ↔ k ∈ a ∧ k ∈ b := by simp

theorem mem_filter_not_contains {κ : Type} [BEq κ] [LawfulBEq κ] (a b : List κ) (k : κ) :
    k ∈ a.filter (fun x => !b.contains x) ↔ k ∈ a ∧ k ∉ b := by simp

end I18n.FmtCheck
