import I18n.Model.CharsetCns
/-!
# C20: bounded checks over the generated CNS 11643 tables — the functions the kernel evaluates (`Nat.ble`, `Nat.beq`, shifts
# on literals only), and what a `true` means for the model's `cnsReal` / `invReal`
-/
namespace I18n.Charset.Cns
open I18n.Charset I18n.Generated.CharsetCns

/-- `f` holds for every `i < n` — plain `Nat.rec`, the cheapest loop for the kernel -/
def allBelow (f : Nat → Bool) (n : Nat) : Bool := Nat.rec true (fun k ih => f k && ih) n

theorem allBelow_succ (f : Nat → Bool) (n : Nat) : allBelow f (n + 1) = (f n && allBelow f n) := rfl

theorem allBelow_sound (f : Nat → Bool) : ∀ n, allBelow f n = true → ∀ i, i < n → f i = true := by
  intro n
  induction n with
  | zero => intro _ i hi; omega
  | succ n ih =>
    intro h i hi
    rw [allBelow_succ, Bool.and_eq_true] at h
    by_cases hin : i = n
    · subst hin; exact h.1
    · exact ih h.2 i (by omega)

/-- a Unicode scalar value above ASCII that is not one of the TAG characters -/
def scalarOk (ch : Nat) : Bool :=
  Nat.ble 0x80 ch && (Nat.ble ch 0xD7FF || (Nat.ble 0xE000 ch && Nat.ble ch 0x10FFFF)) && !isTag ch

/-- the ONE unit outside plane 1's four-byte form whose character the encoder writes elsewhere: `8E A3 A1 B8` (index 23 of plane 3) -/
def isDup (p i : Nat) : Bool := Nat.beq p 3 && Nat.beq i 23

/-- unit `i` of the plane table `t` of plane `p`: if iconv decodes it, the character is a scalar value above ASCII and the
    encoder writes it at this very position — unless the unit is the duplicate -/
def unitFast (t p i : Nat) : Bool :=
  let v := tableEntry t i
  Nat.beq v 0 || (scalarOk v && (Nat.beq (invEntry v) (p * 65536 + (i / 94 + 0xA1) * 256 + (i % 94 + 0xA1)) || isDup p i))

def checkPlanes (ps : List Nat) : Bool := ps.all fun p => allBelow (unitFast (cnsPlane p) p) 8836

/-- character `ch = 4096 k + lo` of the page table `t`: if iconv encodes it, it is above ASCII and the position it is written
    at decodes back to it -/
def charFast (t k lo : Nat) : Bool :=
  let w := (t >>> (24 * lo)) &&& 0xFFFFFF
  Nat.beq w 0 || (Nat.ble 0x80 (k * 4096 + lo) && inRange (w / 256 % 256) && inRange (w % 256) &&
    Nat.beq (tableEntry (cnsPlane (w / 65536)) ((w / 256 % 256 - 0xA1) * 94 + (w % 256 - 0xA1))) (k * 4096 + lo))

def checkPages (ks : List Nat) : Bool := ks.all fun k => allBelow (charFast (invPage k) k) 4096

end I18n.Charset.Cns
