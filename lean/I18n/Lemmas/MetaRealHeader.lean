import I18n.Lemmas.MetaRealCharset
import I18n.Lemmas.HdrParse
/-!
`HeaderRel` from the shape of the header text: a header entry whose text is a list of `\n`-terminated lines, one of which is
`Content-Type: text/plain; charset=<name>` (the only Content-Type field), is `HeaderRel`-related to the same text with another
name — for names made of characters `check_headers` finds nothing unusual about.
-/
namespace I18n.Meta.Real
open I18n I18n.Hdr

/-- the text whose lines are `ls`, each terminated by `\n` -/
def terminated (ls : List Str) : Str := (ls.map (· ++ ['\n'])).flatten

/-- `Content-Type: text/plain; charset=<name>` -/
def ctLine (n : Str) : Str := ctKey ++ ':' :: ' ' :: ctValue n

theorem getLast?_append_ne_nil' (a b : Str) (hb : b ≠ []) : (a ++ b).getLast? = b.getLast? := by
  cases b with
  | nil => contradiction
  | cons x xs =>
    rw [List.getLast?_append]
    cases h : (x :: xs).getLast? with
    | none => simp at h
    | some v => rfl

/-! ### lines -/

theorem splitOn_line (a b : Str) (ha : '\n' ∉ a) : splitOn '\n' (a ++ '\n' :: b) = a :: splitOn '\n' b := by
  induction a with
  | nil => simp [splitOn]
  | cons c cs ih =>
    have hc : c ≠ '\n' := fun e => ha (by simp [e])
    have hcs : '\n' ∉ cs := fun h => ha (List.mem_cons_of_mem _ h)
    simp only [List.cons_append, splitOn, hc, if_false, ih hcs]

theorem splitOn_terminated (ls : List Str) (h : ∀ l ∈ ls, '\n' ∉ l) : splitOn '\n' (terminated ls) = ls ++ [[]] := by
  induction ls with
  | nil => simp [terminated, splitOn]
  | cons l rest ih =>
    have := ih (fun x hx => h x (List.mem_cons_of_mem _ hx))
    simp only [terminated, List.map_cons, List.flatten_cons, List.append_assoc, List.singleton_append] at this ⊢
    rw [splitOn_line l _ (h l (by simp)), this]
    rfl

theorem headerLines_terminated (ls : List Str) (h : ∀ l ∈ ls, '\n' ∉ l) : headerLines (terminated ls) = ls := by
  unfold headerLines
  simp [splitOn_terminated ls h]

theorem parseHeader_terminated (ls : List Str) (h : ∀ l ∈ ls, '\n' ∉ l) : parseHeader (terminated ls) = ls.map parseLine := by
  unfold parseHeader
  rw [headerLines_terminated ls h]

/-! ### the Content-Type line -/

/-- a charset name of ASCII graphic characters -/
structure PlainName (n : Str) : Prop where
  ne : n ≠ []
  graphic : ∀ c ∈ n, 0x21 ≤ c.toNat ∧ c.toNat ≤ 0x7E

theorem graphic_not_blank (c : Char) (h : 0x21 ≤ c.toNat ∧ c.toNat ≤ 0x7E) : isBlank c = false := by
  have h1 : c ≠ ' ' := by intro e; subst e; simp at h
  have h2 : c ≠ '\t' := by intro e; subst e; simp at h
  simp [isBlank, h1, h2]

theorem stripBlanks_of (s : Str) (c : Char) (r : Str) (hs : s = c :: r) (hc : isBlank c = false)
    (hl : ∀ d, s.getLast? = some d → isBlank d = false) : stripBlanks (' ' :: s) = s := by
  subst hs
  have hb : isBlank ' ' = true := by decide
  have e1 : ((' ' :: c :: r).dropWhile isBlank) = c :: r := by
    rw [List.dropWhile_cons_of_pos hb, List.dropWhile_cons_of_neg (by simp [hc])]
  unfold stripBlanks
  rw [e1]
  have hne : (c :: r).reverse ≠ [] := by simp
  cases hrev : (c :: r).reverse with
  | nil => exact absurd hrev hne
  | cons d ds =>
    have hd : (c :: r).getLast? = some d := by
      rw [← List.head?_reverse, hrev]; rfl
    have := hl d hd
    rw [List.dropWhile_cons_of_neg (by simp [this]), ← hrev, List.reverse_reverse]

theorem parseLine_ct (n : Str) (hn : PlainName n) : parseLine (ctLine n) = .field ctKey (ctValue n) := by
  have hsplit : splitColon (ctLine n) = (ctKey, some (' ' :: ctValue n)) :=
    (splitColon_some _ _ _).mpr ⟨rfl, by decide⟩
  have hvalid : isValidFieldName ctKey = true := by decide
  have hstrip : stripBlanks (' ' :: ctValue n) = ctValue n := by
    apply stripBlanks_of (ctValue n) 't' (ctPrefix.drop 1 ++ n) rfl (by decide)
    intro d hd
    have : (ctValue n).getLast? = n.getLast? := by
      unfold ctValue
      exact getLast?_append_ne_nil' ctPrefix n hn.ne
    rw [this] at hd
    exact graphic_not_blank d (hn.graphic d (List.mem_of_getLast? hd))
  simp only [parseLine, hsplit, hvalid, if_true, hstrip]

/-! ### unusual characters -/

/-- whether `find_unusual_characters` matches at a character, given its neighbours -/
def hitAt (db : UDB) (prev : Option Char) (c : Char) (next : Option Char) : Bool :=
  inRanges Generated.HeaderFields.unusualAlways c
  || (c.toNat = Generated.HeaderFields.unusualUnlessBracket && next != some '[')
  || (c.toNat = Generated.HeaderFields.unusualAfterWord && (match prev with | some p => db.isWord p | none => false))

theorem unusualAux_cons (db : UDB) (prev : Option Char) (c : Char) (cs : Str) :
    unusualAux db prev (c :: cs) = (if hitAt db prev c cs.head? then [c] else []) ++ unusualAux db (some c) cs := by
  cases prev <;> simp only [unusualAux, hitAt] <;> split <;> simp_all

theorem graphic_no_hit (db : UDB) (prev next : Option Char) (c : Char) (h : 0x21 ≤ c.toNat ∧ c.toNat ≤ 0x7E) :
    hitAt db prev c next = false := by
  have h1 : inRanges Generated.HeaderFields.unusualAlways c = false := by
    simp only [inRanges, Generated.HeaderFields.unusualAlways, List.any_cons, List.any_nil, Bool.or_false, Bool.or_eq_false_iff,
      Bool.and_eq_false_iff, decide_eq_false_iff_not]
    omega
  have h2 : ¬ c.toNat = Generated.HeaderFields.unusualUnlessBracket := by simp only [Generated.HeaderFields.unusualUnlessBracket]; omega
  have h3 : ¬ c.toNat = Generated.HeaderFields.unusualAfterWord := by simp only [Generated.HeaderFields.unusualAfterWord]; omega
  simp [hitAt, h1, h2, h3]

/-- a run of graphic characters contributes nothing, whatever surrounds it -/
theorem unusualAux_graphic (db : UDB) (n : Str) (hn : ∀ c ∈ n, 0x21 ≤ c.toNat ∧ c.toNat ≤ 0x7E) (hne : n ≠ []) (prev : Option Char) (y : Str) :
    unusualAux db prev (n ++ y) = unusualAux db n.getLast? y := by
  induction n generalizing prev with
  | nil => contradiction
  | cons c cs ih =>
    rw [List.cons_append, unusualAux_cons, graphic_no_hit db _ _ c (hn c (by simp))]
    cases cs with
    | nil => simp
    | cons d ds =>
      rw [ih (fun x hx => hn x (List.mem_cons_of_mem _ hx)) (by simp)]
      simp [List.getLast?_cons_cons]

/-- a line feed is never unusual and hides what precedes it -/
theorem unusualAux_newline (db : UDB) (p q : Option Char) (y : Str) : unusualAux db p ('\n' :: y) = unusualAux db q ('\n' :: y) := by
  have h : ∀ r, hitAt db r '\n' y.head? = false := by
    intro r
    simp [hitAt, inRanges, Generated.HeaderFields.unusualAlways, Generated.HeaderFields.unusualUnlessBracket,
      Generated.HeaderFields.unusualAfterWord]
  rw [unusualAux_cons, unusualAux_cons, h p, h q]

/-- replacing a graphic name by another between a prefix that does not end in ESC and a line feed -/
theorem unusualAux_subst (db : UDB) (a : Str) (x : Char) (hx : x.toNat ≠ 0x1B) (n1 n2 : Str) (h1 : PlainName n1) (h2 : PlainName n2)
    (y : Str) (prev : Option Char) :
    unusualAux db prev ((a ++ [x]) ++ (n1 ++ '\n' :: y)) = unusualAux db prev ((a ++ [x]) ++ (n2 ++ '\n' :: y)) := by
  induction a generalizing prev with
  | nil =>
    simp only [List.nil_append, List.singleton_append, unusualAux_cons]
    have hh : ∀ nx, hitAt db prev x nx = hitAt db prev x none := by
      intro nx
      have : ¬ x.toNat = Generated.HeaderFields.unusualUnlessBracket := hx
      simp [hitAt, this]
    rw [hh, hh (n2 ++ '\n' :: y).head?, unusualAux_graphic db n1 h1.graphic h1.ne, unusualAux_graphic db n2 h2.graphic h2.ne]
    rw [unusualAux_newline db n1.getLast? n2.getLast?]
  | cons c cs ih =>
    simp only [List.cons_append, unusualAux_cons]
    have hd : ∀ n : Str, ((cs ++ [x]) ++ (n ++ '\n' :: y)).head? = (cs ++ [x]).head? := by
      intro n; cases cs <;> simp
    have e1 : (cs ++ [x] ++ (n1 ++ '\n' :: y)) = cs ++ ([x] ++ (n1 ++ '\n' :: y)) := by simp
    have e2 : (cs ++ [x] ++ (n2 ++ '\n' :: y)) = cs ++ ([x] ++ (n2 ++ '\n' :: y)) := by simp
    have := ih (some c)
    simp only [List.append_assoc] at this ⊢
    rw [this]
    congr 2
    have a1 := hd n1; have a2 := hd n2
    simp only [List.append_assoc] at a1 a2
    rw [a1, a2]

/-! ### the header text -/

theorem terminated_append (a b : List Str) : terminated (a ++ b) = terminated a ++ terminated b := by
  simp [terminated]

/-- **`HeaderRel` from the shape of the text**: the lines of the header entry, each terminated by a line feed, the one
    Content-Type line being `Content-Type: text/plain; charset=<name>`; the names graphic ASCII and known to the tool -/
theorem headerRel_of_lines (w : World) (pre post : List Str) (n1 n2 : Str)
    (hl : ∀ l ∈ pre ++ post, '\n' ∉ l) (hct : ∀ l ∈ pre ++ post, ∀ v, parseLine l ≠ .field ctKey v)
    (p1 : PlainName n1) (p2 : PlainName n2) (t1 : TcName w n1) (t2 : TcName w n2) :
    HeaderRel w (terminated (pre ++ ctLine n1 :: post)) (terminated (pre ++ ctLine n2 :: post)) := by
  have nl : ∀ n : Str, PlainName n → '\n' ∉ ctLine n := by
    intro n hn hm
    simp only [ctLine, ctValue, List.mem_append, List.mem_cons] at hm
    rcases hm with hm | hm | hm | hm | hm
    · revert hm; decide
    · cases hm
    · cases hm
    · revert hm; decide
    · have := hn.graphic _ hm; simp at this
  have hlines : ∀ n : Str, PlainName n → ∀ l ∈ pre ++ ctLine n :: post, '\n' ∉ l := by
    intro n hn l hm
    simp only [List.mem_append, List.mem_cons] at hm
    rcases hm with hm | rfl | hm
    · exact hl l (by simp [hm])
    · exact nl n hn
    · exact hl l (by simp [hm])
  constructor
  · -- unusual characters
    have shape : ∀ n : Str, terminated (pre ++ ctLine n :: post)
        = ((terminated pre ++ (ctKey ++ ':' :: ' ' :: ctPrefix.dropLast)) ++ ['=']) ++ (n ++ '\n' :: terminated post) := by
      intro n
      rw [terminated_append]
      simp [terminated, ctLine, ctValue, ctPrefix]
    unfold unusualChars
    rw [shape n1, shape n2]
    exact unusualAux_subst w.hx.db _ '=' (by decide) n1 n2 p1 p2 _ none
  · -- parsed lines
    rw [parseHeader_terminated _ (hlines n1 p1), parseHeader_terminated _ (hlines n2 p2)]
    simp only [List.map_append, List.map_cons, parseLine_ct n1 p1, parseLine_ct n2 p2]
    refine LinesRel.subst _ _ n1 n2 t1 t2 ?_ ?_
    · intro l hm v
      simp only [List.mem_map] at hm
      obtain ⟨x, hx, rfl⟩ := hm
      exact hct x (by simp [hx]) v
    · intro l hm v
      simp only [List.mem_map] at hm
      obtain ⟨x, hx, rfl⟩ := hm
      exact hct x (by simp [hx]) v

end I18n.Meta.Real
