import I18n.Model.PluralLex
import I18n.Lemmas.LexSpec
/-! The lexer interpreted from the dumped regular expressions (`PluralLex.lex`) is the hand-written lexer model
    (`PluralParse.lex`), on every string. -/
namespace I18n.PluralLex
open I18n I18n.PluralParse

/-- the dumped rules, parsed -/
def R : List (String × Regex) :=
  [("IF", [(⟨['?'], []⟩, .one)]), ("ELSE", [(⟨[':'], []⟩, .one)]),
   ("OR", [(⟨['|'], []⟩, .one), (⟨['|'], []⟩, .one)]), ("AND", [(⟨['&'], []⟩, .one), (⟨['&'], []⟩, .one)]),
   ("EQ", [(⟨['!', '='], []⟩, .one), (⟨['='], []⟩, .one)]), ("CMP", [(⟨['<', '>'], []⟩, .one), (⟨['='], []⟩, .opt)]),
   ("ADDSUB", [(⟨['+', '-'], []⟩, .one)]), ("MULDIV", [(⟨['%', '*', '/'], []⟩, .one)]), ("NOT", [(⟨['!'], []⟩, .one)]),
   ("LPAR", [(⟨['('], []⟩, .one)]), ("RPAR", [(⟨[')'], []⟩, .one)]), ("VAR", [(⟨['n'], []⟩, .one)]),
   ("INT", [(⟨[], [('0', '9')]⟩, .plus)])]

def Ig : List Regex := [[(⟨['\t', ' '], []⟩, .plus)]]

theorem rules_eq : parseRules Generated.PluralGrammar.lexerRules = some R := by decide
theorem ignore_eq : Generated.PluralGrammar.ignoreRules.mapM parseRegex = some Ig := by decide

/-! ## greedy runs -/

def runLen (p : Char → Bool) : List Char → Nat
  | [] => 0
  | c :: s => if p c then runLen p s + 1 else 0

theorem plusLoop_run (a : Atom) : ∀ s, plusLoop a (fun _ => some 0) s =
    if runLen a.matches s = 0 then none else some (runLen a.matches s) := by
  intro s
  induction s with
  | nil => rfl
  | cons c s ih =>
    simp only [plusLoop, runLen]
    by_cases hc : a.matches c = true
    · simp only [hc, if_true, ih]
      by_cases h0 : runLen a.matches s = 0
      · simp [h0, orElse']
      · simp [h0, orElse']
    · simp [hc]

theorem matchRe_nil : (matchRe [] : List Char → Option Nat) = fun _ => some 0 := by
  funext s; rfl

theorem runLen_le (p : Char → Bool) (s : List Char) : runLen p s ≤ s.length := by
  induction s with
  | nil => simp [runLen]
  | cons c s ih => simp only [runLen]; split <;> simp <;> omega

theorem take_runLen_all (p : Char → Bool) (s : List Char) : ∀ c ∈ s.take (runLen p s), p c = true := by
  induction s with
  | nil => simp [runLen]
  | cons c s ih =>
    simp only [runLen]
    by_cases hc : p c = true
    · simp only [hc, if_true, List.take_succ_cons, List.mem_cons]
      rintro x (rfl | hx)
      · exact hc
      · exact ih x hx
    · simp [hc]

theorem drop_runLen_head (p : Char → Bool) (s : List Char) : ∀ c r, s.drop (runLen p s) = c :: r → p c = false := by
  induction s with
  | nil => simp [runLen]
  | cons c s ih =>
    simp only [runLen]
    by_cases hc : p c = true
    · simp only [hc, if_true, List.drop_succ_cons]
      exact ih
    · simp only [hc, Bool.false_eq_true, if_false, List.drop_zero, List.cons.injEq]
      rintro x r ⟨rfl, _⟩
      simpa using hc

/-! ## which rule matches -/

theorem two_match {c c' : Char} {t : Tok} (h : twoCharTok c c' = some t) (r : List Char) :
    ∃ name, firstMatch R (c :: c' :: r) = some (name, 2) ∧ toTok name [c, c'] = some t := by
  unfold twoCharTok at h
  repeat' split at h
  all_goals first | (rename_i hc; obtain ⟨rfl, rfl⟩ := hc; cases h; exact ⟨_, rfl, rfl⟩) | cases h

def isBlank (c : Char) : Bool := c == ' ' || c == '\t'

theorem blank_matches (c : Char) : (⟨['\t', ' '], []⟩ : Atom).matches c = isBlank c := by
  by_cases h1 : c = ' '
  · subst h1; decide
  · by_cases h2 : c = '\t'
    · subst h2; decide
    · simp [Atom.matches, isBlank, h1, h2]

theorem digit_matches (c : Char) : (⟨[], [('0', '9')]⟩ : Atom).matches c = isDigit c := by
  simp [Atom.matches, isDigit]

theorem ignore_match (s : List Char) :
    ignoreMatch Ig s = if runLen isBlank s = 0 then none else some (runLen isBlank s) := by
  have hf : (⟨['\t', ' '], []⟩ : Atom).matches = isBlank := funext blank_matches
  simp only [Ig, ignoreMatch, matchRe, plusLoop_run, hf]
  by_cases h0 : runLen isBlank s = 0 <;> simp [h0]

theorem isBlank_iff (c : Char) : isBlank c = true ↔ (c = ' ' ∨ c = '\t') := by
  simp [isBlank]

/-- one-character rules: no two-character rule applies at this position -/
theorem one_match {c : Char} {t : Tok} (h1 : oneCharTok c = some t) {rest : List Char}
    (h2 : ∀ c' r, rest = c' :: r → twoCharTok c c' = none) :
    ∃ name, firstMatch R (c :: rest) = some (name, 1) ∧ toTok name [c] = some t := by
  have hne : ∀ c' r, rest = c' :: r → (c = '<' ∨ c = '>' ∨ c = '!') → c' ≠ '=' := by
    intro c' r hr hc heq
    subst heq
    have := h2 _ _ hr
    rcases hc with rfl | rfl | rfl <;> simp [twoCharTok] at this
  rcases rest with _ | ⟨c', r⟩
  · unfold oneCharTok at h1
    iterate 13 (rcases ite_some_cases h1 with ⟨rfl, rfl⟩ | ⟨_, h1⟩; · exact ⟨_, rfl, rfl⟩)
    cases h1
  · have hne' := hne c' r rfl
    unfold oneCharTok at h1
    iterate 13 (rcases ite_some_cases h1 with ⟨rfl, rfl⟩ | ⟨_, h1⟩; · first | exact ⟨_, rfl, rfl⟩ | exact ⟨"CMP", by have := hne' (by simp); simp [R, firstMatch, matchRe, Atom.matches, orElse', this], rfl⟩ | exact ⟨"NOT", by have := hne' (by simp); simp [R, firstMatch, matchRe, Atom.matches, orElse', this], rfl⟩)
    cases h1

theorem oneCharTok_none {c : Char} (h : oneCharTok c = none) :
    c ≠ '?' ∧ c ≠ ':' ∧ c ≠ '<' ∧ c ≠ '>' ∧ c ≠ '+' ∧ c ≠ '-' ∧ c ≠ '*' ∧ c ≠ '/' ∧ c ≠ '%' ∧ c ≠ '!' ∧ c ≠ '(' ∧ c ≠ ')' ∧ c ≠ 'n' := by
  refine ⟨?_, ?_, ?_, ?_, ?_, ?_, ?_, ?_, ?_, ?_, ?_, ?_, ?_⟩ <;> (rintro rfl; simp [oneCharTok] at h)

theorem digit_ne {c : Char} (h : isDigit c = true) :
    c ≠ '?' ∧ c ≠ ':' ∧ c ≠ '<' ∧ c ≠ '>' ∧ c ≠ '+' ∧ c ≠ '-' ∧ c ≠ '*' ∧ c ≠ '/' ∧ c ≠ '%' ∧ c ≠ '!' ∧ c ≠ '(' ∧ c ≠ ')' ∧ c ≠ 'n' ∧
    c ≠ '|' ∧ c ≠ '&' ∧ c ≠ '=' := by
  refine ⟨?_, ?_, ?_, ?_, ?_, ?_, ?_, ?_, ?_, ?_, ?_, ?_, ?_, ?_, ?_, ?_⟩ <;> (rintro rfl; revert h; decide)

theorem none_match {c : Char} (h1 : oneCharTok c = none) (hd : isDigit c = false) {rest : List Char}
    (h2 : ∀ c' r, rest = c' :: r → twoCharTok c c' = none) : firstMatch R (c :: rest) = none := by
  obtain ⟨n1, n2, n3, n4, n5, n6, n7, n8, n9, n10, n11, n12, n13⟩ := oneCharTok_none h1
  have hdig : (⟨[], [('0', '9')]⟩ : Atom).matches c = false := by rw [digit_matches, hd]
  have hpair : ∀ x : Char, (x = '|' ∨ x = '&' ∨ x = '=') → c = x → ∀ c' r, rest = c' :: r → c' ≠ x := by
    intro x hx hcx c' r hr heq
    subst heq; subst hcx
    have := h2 _ _ hr
    rcases hx with rfl | rfl | rfl <;> simp [twoCharTok] at this
  have hd' : ¬ ('0' ≤ c ∧ c ≤ '9') := by simpa [isDigit] using hd
  rcases rest with _ | ⟨c', r⟩
  · simp [R, firstMatch, matchRe, Atom.matches, orElse', plusLoop, *]
  · by_cases hb : c = '|'
    · have := hpair '|' (by simp) hb c' r rfl
      subst hb
      simp [R, firstMatch, matchRe, Atom.matches, orElse', plusLoop, this]
    · by_cases ha : c = '&'
      · have := hpair '&' (by simp) ha c' r rfl
        subst ha
        simp [R, firstMatch, matchRe, Atom.matches, orElse', plusLoop, this]
      · by_cases he : c = '='
        · have := hpair '=' (by simp) he c' r rfl
          subst he
          simp [R, firstMatch, matchRe, Atom.matches, orElse', plusLoop, this]
        · simp [R, firstMatch, matchRe, Atom.matches, orElse', plusLoop, *]

theorem digit_match {c : Char} (hd : isDigit c = true) (rest : List Char) :
    firstMatch R (c :: rest) = some ("INT", runLen isDigit (c :: rest)) := by
  obtain ⟨n1, n2, n3, n4, n5, n6, n7, n8, n9, n10, n11, n12, n13, n14, n15, n16⟩ := digit_ne hd
  have hf : (⟨[], [('0', '9')]⟩ : Atom).matches = isDigit := funext digit_matches
  have hrun : runLen isDigit (c :: rest) ≠ 0 := by simp [runLen, hd]
  have hint : matchRe [(⟨[], [('0', '9')]⟩, .plus)] (c :: rest) = some (runLen isDigit (c :: rest)) := by
    simp only [matchRe, matchRe_nil, plusLoop_run, hf, hrun, if_false]
  have hfirst : ∀ (ms : List Char), (∀ m ∈ ms, c ≠ m) → (⟨ms, []⟩ : Atom).matches c = false := by
    intro ms hms
    simp only [Atom.matches, List.any_nil, Bool.or_false]
    simp only [List.contains_eq_mem, decide_eq_false_iff_not]
    intro hmem
    exact hms c hmem rfl
  have one1 : ∀ (ms : List Char) (r : Regex), (∀ m ∈ ms, c ≠ m) → matchRe ((⟨ms, []⟩, .one) :: r) (c :: rest) = none := by
    intro ms r hms
    simp [matchRe, hfirst ms hms]
  simp only [R, firstMatch]
  rw [one1 ['?'] _ (by simp [n1]), one1 [':'] _ (by simp [n2]), one1 ['|'] _ (by simp [n14]), one1 ['&'] _ (by simp [n15]),
    one1 ['!', '='] _ (by simp [n10, n16]), one1 ['<', '>'] _ (by simp [n3, n4]), one1 ['+', '-'] _ (by simp [n5, n6]),
    one1 ['%', '*', '/'] _ (by simp [n7, n8, n9]), one1 ['!'] _ (by simp [n10]), one1 ['('] _ (by simp [n11]),
    one1 [')'] _ (by simp [n12]), one1 ['n'] _ (by simp [n13]), hint]

/-! ## the hand-written lexer, run by run -/

theorem lexGo_blank_run : ∀ s : List Char, lexGo s none = lexGo (s.drop (runLen isBlank s)) none := by
  intro s
  induction s with
  | nil => rfl
  | cons c s ih =>
    simp only [runLen]
    by_cases hb : isBlank c = true
    · have hb' := (isBlank_iff c).1 hb
      simp only [hb, if_true, List.drop_succ_cons]
      rw [lexGo_one (fun c' _ _ => blank_two hb' c')]
      simp only [lexOne, blank_not_digit hb', hb', flush_none, Bool.false_eq_true, if_false, if_true]
      exact ih
    · simp [hb]

theorem decimal_eq (ds : List Char) : decimal ds = Spec.decimalValue ds := by
  unfold decimal Spec.decimalValue
  have : ∀ v, ds.foldl (fun v c => v * 10 + digitVal c) v = ds.foldl (fun v c => 10 * v + (c.toNat - '0'.toNat)) v := by
    induction ds with
    | nil => intro v; rfl
    | cons d ds ih =>
      intro v
      simp only [List.foldl_cons, digitVal]
      rw [Nat.mul_comm v 10]
      exact ih _
  exact this 0

def ofLex : LexResult → Out
  | .ok ts => .ok ts
  | .syntaxError => .lexingError
  | .valueError => .crash

theorem ofLex_cons (t : Tok) (r : LexResult) : (ofLex r).cons t = ofLex (r.cons t) := by
  cases r <;> rfl

theorem flush_some_cons (v len : Nat) (r : LexResult) : flush (some (v, len)) r = r.cons (.int v) := by
  cases r <;> simp [flush, tooLong, maxStrDigits, LexResult.cons]

theorem lexLoop_eq : ∀ (n : Nat) (s : List Char) (f : Nat), s.length ≤ n → s.length < f →
    lexLoop R Ig f s = ofLex (lexGo s none) := by
  intro n
  induction n with
  | zero =>
    intro s f hn hf
    have : s = [] := List.eq_nil_of_length_eq_zero (by omega)
    subst this
    obtain ⟨f, rfl⟩ : ∃ f', f = f' + 1 := ⟨f - 1, by omega⟩
    simp [lexLoop, lexGo, flush_none, ofLex]
  | succ n ih =>
    intro s f hn hf
    obtain ⟨f, rfl⟩ : ∃ f', f = f' + 1 := ⟨f - 1, by omega⟩
    rcases s with _ | ⟨c, rest⟩
    · simp [lexLoop, lexGo, flush_none, ofLex]
    · simp only [List.length_cons] at hn hf
      simp only [lexLoop, List.isEmpty_cons, Bool.false_eq_true, if_false, ignore_match]
      by_cases hb : isBlank c = true
      · -- a run of blanks
        have hrun : runLen isBlank (c :: rest) ≠ 0 := by simp [runLen, hb]
        have hle := runLen_le isBlank (c :: rest)
        simp only [hrun, if_false]
        rw [lexGo_blank_run (c :: rest)]
        apply ih
        · simp only [List.length_drop, List.length_cons]; omega
        · simp only [List.length_drop, List.length_cons]; omega
      · have hrun : runLen isBlank (c :: rest) = 0 := by simp [runLen, hb]
        have hnb : ¬ (c = ' ' ∨ c = '\t') := fun h => hb ((isBlank_iff c).2 h)
        simp only [hrun, if_true]
        cases hd : isDigit c with
        | true =>
          -- a numeral
          rw [digit_match hd]
          have hk : runLen isDigit (c :: rest) ≠ 0 := by simp [runLen, hd]
          have hle := runLen_le isDigit (c :: rest)
          simp only [hk, if_false]
          have htok : toTok "INT" ((c :: rest).take (runLen isDigit (c :: rest))) =
              some (.int (decimal ((c :: rest).take (runLen isDigit (c :: rest))))) := by rfl
          simp only [htok]
          rw [ih _ f (by simp only [List.length_drop, List.length_cons]; omega)
            (by simp only [List.length_drop, List.length_cons]; omega), ofLex_cons]
          congr 1
          -- the hand-written lexer on the same split
          have hsplit := (List.take_append_drop (runLen isDigit (c :: rest)) (c :: rest)).symm
          have hall := take_runLen_all isDigit (c :: rest)
          have hhead : NoDigitHead ((c :: rest).drop (runLen isDigit (c :: rest))) :=
            fun x r hx => drop_runLen_head isDigit (c :: rest) x r hx
          have hne : (c :: rest).take (runLen isDigit (c :: rest)) ≠ [] := by
            intro h
            have := congrArg List.length h
            simp only [List.length_take, List.length_cons, List.length_nil] at this
            omega
          have e1 := lexGo_digits _ hall ((c :: rest).drop (runLen isDigit (c :: rest))) none
          rw [foldl_push_none hne, lexGo_flush hhead, flush_some_cons, ← hsplit] at e1
          rw [e1, decimal_eq]
        | false =>
          have one : (∀ c' r, rest = c' :: r → twoCharTok c c' = none) →
              (match firstMatch R (c :: rest) with
                | none => Out.lexingError
                | some (name, n) =>
                  if n = 0 then Out.crash
                  else match toTok name ((c :: rest).take n) with
                    | none => Out.crash
                    | some t => (lexLoop R Ig f ((c :: rest).drop n)).cons t) = ofLex (lexGo (c :: rest) none) := by
            intro hh
            rw [lexGo_one hh]
            simp only [lexOne, hd, Bool.false_eq_true, if_false, flush_none, hnb]
            cases ht : oneCharTok c with
            | none =>
              rw [none_match ht hd hh]
              rfl
            | some t =>
              obtain ⟨name, hm, htk⟩ := one_match ht hh
              rw [hm]
              simp only [Nat.one_ne_zero, if_false, List.take_succ_cons, List.take_zero, htk, List.drop_succ_cons, List.drop_zero]
              rw [ih rest f (by omega) (by omega), ofLex_cons]
          rcases rest with _ | ⟨c', r⟩
          · exact one (by intro _ _ h; cases h)
          · cases h2 : twoCharTok c c' with
            | none => exact one (by intro _ _ h; cases h; exact h2)
            | some t =>
              obtain ⟨name, hm, htk⟩ := two_match h2 r
              rw [hm, lexGo_two h2, flush_none]
              simp only [(by decide : ¬ (2 : Nat) = 0), if_false, List.take_succ_cons, List.take_zero, htk, List.drop_succ_cons, List.drop_zero]
              rw [ih r f (by simp at hn; omega) (by simp at hf; omega), ofLex_cons]

/-- **The regex-interpreting lexer and the hand-written lexer model are the same function.** -/
theorem lex_eq (s : List Char) : PluralLex.lex s = ofLex (PluralParse.lex s) := by
  unfold PluralLex.lex PluralParse.lex
  rw [rules_eq, ignore_eq]
  exact lexLoop_eq s.length s _ (Nat.le_refl _) (Nat.lt_succ_self _)

end I18n.PluralLex
