import I18n.Spec.HeaderRules
import I18n.Lemmas.HdrExempt
/-
C15 lemmas, part 13: the tag names the rule set (hence the model) can emit, and the cross-check against the tag names found
in the `self.tag(…)` calls of the six `check_*` methods by the translator's ast walk.
-/
set_option linter.unusedSimpArgs false
namespace I18n.Hdr
open I18n.Spec.HeaderRules I18n.Date I18n.Generated

/-- every tag name the header stages of the model can emit, sorted -/
def modelTagNames : List String := [
  "ancient-date", "boilerplate-in-content-type", "boilerplate-in-date", "boilerplate-in-initial-comments",
  "boilerplate-in-language-team", "boilerplate-in-last-translator", "boilerplate-in-project-id-version",
  "boilerplate-in-report-msgid-bugs-to", "conflict-marker-in-header-entry", "date-from-future", "distant-header-entry",
  "duplicate-flag-for-header-entry", "duplicate-header-entry", "duplicate-header-field",
  "duplicate-header-field-content-transfer-encoding", "duplicate-header-field-content-type", "duplicate-header-field-date",
  "duplicate-header-field-language-team", "duplicate-header-field-last-translator", "duplicate-header-field-mime-version",
  "duplicate-header-field-project-id-version", "duplicate-header-field-report-msgid-bugs-to",
  "empty-msgid-message-with-plural-forms", "empty-msgid-message-with-source-code-references", "fuzzy-header-entry",
  "invalid-content-transfer-encoding", "invalid-content-type", "invalid-date", "invalid-language-team",
  "invalid-last-translator", "invalid-mime-version", "invalid-report-msgid-bugs-to",
  "language-team-equal-to-last-translator", "no-content-transfer-encoding-header-field", "no-content-type-header-field",
  "no-date-header-field", "no-language-team-header-field", "no-last-translator-header-field",
  "no-mime-version-header-field", "no-package-name-in-project-id-version", "no-project-id-version-header-field",
  "no-report-msgid-bugs-to-header-field", "no-version-in-project-id-version", "non-ascii-compatible-encoding",
  "non-portable-encoding", "stray-header-line", "unexpected-flag-for-header-entry", "unknown-encoding",
  "unknown-header-field", "unrepresentable-characters", "unusual-character-in-header-entry"]

macro "nm" : tactic => `(tactic| simp [modelTagNames, ofCharsetTag, tag, t0])

def stageMethods : List String :=
  ["check_comments", "check_dates", "check_headers", "check_mime", "check_project", "check_translator"]

/-- insertion sort without duplicates on strings -/
def insertS (x : String) : List String → List String
  | [] => [x]
  | y :: ys => if x = y then y :: ys else if x < y then x :: y :: ys else y :: insertS x ys

/-- the tag names in the `self.tag(…)` calls of the six methods, as found by the ast walk on this run, sorted -/
def sourceTagNames : List String :=
  ((HeaderFields.tagsOf.filter fun e => stageMethods.contains e.1).flatMap fun e => e.2.1).foldr insertS []

/-- **tag_sites_pin**: the six methods contain `self.tag` calls for exactly the tag names of the model, and none with a
    computed name -/
theorem tag_sites_pin :
    sourceTagNames = modelTagNames ∧
    ((HeaderFields.tagsOf.filter fun e => stageMethods.contains e.1).all fun e => !e.2.2) = true ∧
    (stageMethods.all fun m => HeaderFields.tagsOf.any fun e => e.1 == m) = true := by decide

theorem checkDates_names (c : Ctx) (ds : List Tag) (h : checkDates c = some ds) :
    ∀ d ∈ ds, d.name ∈ modelTagNames := by
  rw [checkDates_eq] at h
  injection h with h
  subst h
  have per : ∀ (f : Field) (dates : List (List Char)), ∀ d ∈ perDate c.now f c.isTemplate (isPublican c.contentType) dates,
      d.name ∈ modelTagNames := by
    intro f dates d hd
    unfold perDate at hd
    simp only [List.mem_flatten, List.mem_map] at hd
    obtain ⟨l, ⟨dt, _, rfl⟩, hm⟩ := hd
    cases hc : checkOne c.now f c.isTemplate (isPublican c.contentType) dt with
    | none => rw [hc] at hm; simp at hm
    | some ts =>
      rw [hc] at hm
      rcases checkOne_names _ _ _ _ _ ts hc d hm with h | h | h | h <;> rw [h] <;> nm
  have one : ∀ (f : Field) (dates : List (List Char)), ∀ d ∈ fieldTags c f dates, d.name ∈ modelTagNames := by
    intro f dates d hd
    unfold fieldTags at hd
    split at hd
    · rcases List.mem_cons.1 hd with rfl | hd
      · nm
      · exact per _ _ d hd
    · split at hd
      · split at hd
        · simp at hd
        · simp only [List.mem_singleton] at hd; subst hd; nm
      · exact per _ _ d hd
  intro d hd
  rcases List.mem_append.1 hd with hd | hd
  · exact one _ _ d hd
  · exact one _ _ d hd

theorem ofCharsetTag_name (ct : Str) (c : Charset.Tag) : (ofCharsetTag ct c).name ∈ modelTagNames := by
  cases c with
  | boilerplate => nm
  | unknownEncoding e => nm
  | nonAsciiCompatible e => nm
  | nonPortable e p => cases p <;> nm
  | unrepresentable e cs => nm

/-- every diagnostic the rule set can prescribe carries one of the listed tag names -/
theorem reported_name (x : Ext) (cs : CharsetCheck) (now : Int) (f : File) (t : TagCall)
    (h : Reported x cs now f t) : t.name ∈ modelTagNames := by
  unfold Reported at h
  simp only [] at h
  rcases h with h | h | h | h | h | h | h | h | h | h | h | h
  · obtain ⟨_, _, _, rfl⟩ := h; nm
  · rcases h with ⟨_, rfl⟩ | ⟨e, i, _, h⟩
    · nm
    · rcases h with ⟨_, rfl⟩ | ⟨_, rfl⟩ | ⟨_, rfl⟩ | ⟨_, _, rfl⟩ | ⟨_, _, _, rfl⟩ | ⟨_, _, rfl⟩ | ⟨_, _, _, rfl⟩ <;> nm
  · rcases h with ⟨_, _, _, rfl⟩ | ⟨_, _, _, _, _, _, rfl⟩ <;> nm
  · rcases h with ⟨_, _, _, _, _, _, rfl⟩ | ⟨_, _, _, _, rfl⟩ <;> nm
  · rcases h with ⟨_, rfl⟩ | ⟨_, rfl⟩ | ⟨_, _, _, rfl⟩ <;> nm
  · rcases h with ⟨_, rfl⟩ | ⟨_, rfl⟩ | ⟨_, _, _, rfl⟩ <;> nm
  · rcases h with ⟨_, rfl⟩ | ⟨_, rfl⟩ | ⟨ct, _, h⟩
    · nm
    · nm
    · rcases h with ⟨_, rfl⟩ | ⟨_, _, _, _, _, _, h⟩
      · nm
      · rcases h with ⟨c, _, rfl⟩ | ⟨_, rfl⟩
        · exact ofCharsetTag_name ct c
        · nm
  · obtain ⟨ds, hd, d, hm, rfl⟩ := h
    exact checkDates_names _ ds hd d hm
  · rcases h with ⟨_, rfl⟩ | ⟨_, rfl⟩ | ⟨_, _, h⟩
    · nm
    · nm
    · rcases h with ⟨_, rfl⟩ | ⟨_, ⟨_, rfl⟩ | ⟨_, rfl⟩⟩ <;> nm
  · rcases h with ⟨_, rfl⟩ | ⟨_, rfl⟩ | ⟨_, _, _, h⟩
    · nm
    · nm
    · rcases h with ⟨_, _, rfl⟩ | ⟨_, ⟨_, rfl⟩ | ⟨_, rfl⟩ | ⟨_, rfl⟩⟩ <;> nm
  · rcases h with ⟨_, rfl⟩ | ⟨_, rfl⟩ | ⟨_, _, h⟩
    · nm
    · nm
    · rcases h with ⟨_, rfl⟩ | ⟨_, ⟨_, rfl⟩ | ⟨_, _, rfl⟩ | ⟨_, rfl⟩⟩ <;> nm
  · rcases h with ⟨_, rfl⟩ | ⟨_, rfl⟩ | ⟨_, _, _, h⟩
    · nm
    · nm
    · rcases h with ⟨_, rfl⟩ | ⟨_, _, rfl⟩ | ⟨_, rfl⟩ | ⟨_, _, _, rfl⟩ <;> nm

end I18n.Hdr
