import I18n.Model.CFmt
/-!
# The scanner of `I18n.CFmt` against `Spec.Printf.render`

`scanDirective_sound` / `scanDirective_complete`: the scanner inverts `Directive.renderTail` on well-formed
directives (so a directive has exactly one reading); `scan_sound` / `scan_complete` lift this to whole strings.
-/
namespace I18n.CFmt
open I18n.Spec.Printf

/-! ## `spanP` -/

theorem spanP_sound {α : Type} {p : α → Bool} : ∀ {s a b : List α}, spanP p s = (a, b) →
    s = a ++ b ∧ (∀ x ∈ a, p x = true) ∧ (∀ x, b.head? = some x → p x = false) := by
  intro s
  induction s with
  | nil => intro a b h; simp [spanP] at h; obtain ⟨rfl, rfl⟩ := h; simp
  | cons y ys ih =>
    intro a b h
    simp only [spanP] at h
    split at h
    · rename_i hy
      obtain ⟨rfl, rfl⟩ := Prod.mk.inj h
      obtain ⟨h1, h2, h3⟩ := ih (a := (spanP p ys).1) (b := (spanP p ys).2) rfl
      refine ⟨by simp [← h1], ?_, h3⟩
      intro x hx
      rcases List.mem_cons.1 hx with rfl | hx
      · exact hy
      · exact h2 x hx
    · rename_i hy
      obtain ⟨rfl, rfl⟩ := Prod.mk.inj h
      simp
      simpa using hy

theorem spanP_complete {α : Type} {p : α → Bool} {a b : List α} (ha : ∀ x ∈ a, p x = true)
    (hb : ∀ x, b.head? = some x → p x = false) : spanP p (a ++ b) = (a, b) := by
  induction a with
  | nil =>
    cases b with
    | nil => simp [spanP]
    | cons x xs => have := hb x rfl; simp [spanP, this]
  | cons y ys ih =>
    have hy := ha y (by simp)
    have := ih (fun x hx => ha x (by simp [hx]))
    simp [spanP, hy, this]

/-! ## character classes -/

theorem isFlag_iff {c : Char} : isFlag c = true ↔ c ∈ flagChars := by
  simp [isFlag, flagChars, or_assoc]

theorem isConv_iff {c : Char} : isConv c = true ↔ c ∈ convChars := by
  simp [isConv]

theorem isPriConv_iff {c : Char} : isPriConv c = true ↔ c ∈ priConvChars := by
  simp [isPriConv]

/-- what a directive body can start with -/
def bodyStartChars : List Char :=
  ['h', 'l', 'q', 'j', 'z', 'Z', 't', 'L', '<',
   'd', 'i', 'o', 'u', 'x', 'X', 'e', 'E', 'f', 'F', 'g', 'G', 'a', 'A', 'c', 's', 'C', 'S', 'p', 'n', 'm', '%']

theorem bodyStart_facts : ∀ c ∈ bodyStartChars,
    c.isDigit = false ∧ c ≠ '$' ∧ isFlag c = false ∧ c ≠ '*' ∧ c ≠ '.' := by decide

theorem conv_facts : ∀ c ∈ convChars,
    c ∈ bodyStartChars ∧ c ≠ 'h' ∧ c ≠ 'l' ∧ c ≠ 'q' ∧ c ≠ 'j' ∧ c ≠ 'z' ∧ c ≠ 'Z' ∧ c ≠ 't' ∧ c ≠ 'L' ∧ c ≠ '<' := by decide

theorem flag_facts : ∀ c ∈ flagChars, c ≠ '$' ∧ c ≠ '*' ∧ (c.isDigit = true → c = '0') := by decide


/-! ## `[0-9]+[$]` -/

theorem scanIndex_sound {s : List Char} {idx rest} (h : scanIndex s = (idx, rest)) :
    s = renderIdx idx ++ rest ∧ IdxWf idx := by
  unfold scanIndex at h
  split at h
  · rename_i d ds rest' hsp
    obtain ⟨rfl, rfl⟩ := Prod.mk.inj h
    obtain ⟨h1, h2, _⟩ := spanP_sound hsp
    refine ⟨by simp [renderIdx, h1], ?_⟩
    exact ⟨by simp, h2⟩
  · obtain ⟨rfl, rfl⟩ := Prod.mk.inj h
    simp [renderIdx, IdxWf]

theorem scanIndex_some {ds rest : List Char} (h : Numeral ds) :
    scanIndex (ds ++ '$' :: rest) = (some ds, rest) := by
  obtain ⟨hne, hd⟩ := h
  have : spanP Char.isDigit (ds ++ '$' :: rest) = (ds, '$' :: rest) :=
    spanP_complete hd (by intro x hx; simp at hx; subst hx; decide)
  unfold scanIndex
  rw [this]
  cases ds with
  | nil => exact absurd rfl hne
  | cons d ds => rfl

/-- a string whose leading digit run is not followed by `$` -/
def Stop (t : List Char) : Prop :=
  ∃ zs c u, t = zs ++ c :: u ∧ (∀ x ∈ zs, x.isDigit = true) ∧ c.isDigit = false ∧ c ≠ '$'

theorem scanIndex_none {t : List Char} (h : Stop t) : scanIndex t = (none, t) := by
  obtain ⟨zs, c, u, rfl, hz, hc, hc'⟩ := h
  have : spanP Char.isDigit (zs ++ c :: u) = (zs, c :: u) :=
    spanP_complete hz (by intro x hx; simp at hx; subst hx; exact hc)
  unfold scanIndex
  rw [this]
  split
  · rename_i heq
    obtain ⟨_, h2⟩ := Prod.mk.inj heq
    simp at h2
    exact absurd h2.1 hc'
  · rfl

theorem Stop.head {c : Char} {u : List Char} (h1 : c.isDigit = false) (h2 : c ≠ '$') : Stop (c :: u) :=
  ⟨[], c, u, rfl, by simp, h1, h2⟩

theorem Stop.digits {zs t : List Char} (hz : ∀ x ∈ zs, x.isDigit = true) (h : Stop t) : Stop (zs ++ t) := by
  obtain ⟨zs', c, u, rfl, hz', hc, hc'⟩ := h
  refine ⟨zs ++ zs', c, u, by simp, ?_, hc, hc'⟩
  intro x hx
  rcases List.mem_append.1 hx with hx | hx
  · exact hz x hx
  · exact hz' x hx

theorem Stop.flags {fs t : List Char} (hf : ∀ x ∈ fs, x ∈ flagChars) (h : Stop t) : Stop (fs ++ t) := by
  induction fs with
  | nil => simpa using h
  | cons f fs ih =>
    have ih := ih (fun x hx => hf x (by simp [hx]))
    have hff := flag_facts f (hf f (by simp))
    by_cases hd : f.isDigit = true
    · exact Stop.digits (zs := [f]) (by simpa using hd) ih
    · exact Stop.head (by simpa using hd) hff.1


/-! ## width -/

def HeadIn (L : List Char) (t : List Char) : Prop := ∃ c u, t = c :: u ∧ c ∈ L

theorem HeadIn.stop {t : List Char} (h : HeadIn ('.' :: bodyStartChars) t) : Stop t := by
  obtain ⟨c, u, rfl, hc⟩ := h
  rcases List.mem_cons.1 hc with rfl | hc
  · exact Stop.head (by decide) (by decide)
  · have := bodyStart_facts c hc
    exact Stop.head this.1 this.2.1

theorem HeadIn.mono {L L' : List Char} {t : List Char} (h : HeadIn L t) (hs : ∀ c ∈ L, c ∈ L') : HeadIn L' t := by
  obtain ⟨c, u, rfl, hc⟩ := h
  exact ⟨c, u, rfl, hs c hc⟩

theorem spanP_cons_true {α : Type} {p : α → Bool} {x : α} {xs : List α} (h : p x = true) :
    spanP p (x :: xs) = (x :: (spanP p xs).1, (spanP p xs).2) := by
  simp [spanP, h]

theorem scanWidth_sound {s : List Char} {w rest} (h : scanWidth s = (w, rest)) :
    s = w.render ++ rest ∧ w.Wf := by
  unfold scanWidth at h
  split at h
  · rename_i r
    simp only at h
    obtain ⟨rfl, rfl⟩ := Prod.mk.inj h
    obtain ⟨h1, h2⟩ := scanIndex_sound (s := r) (idx := (scanIndex r).1) (rest := (scanIndex r).2) rfl
    exact ⟨by simp [Width.render, ← h1], h2⟩
  · rename_i c cs _
    split at h
    · rename_i hc
      simp only [Bool.and_eq_true, bne_iff_ne, ne_eq] at hc
      simp only at h
      obtain ⟨rfl, rfl⟩ := Prod.mk.inj h
      obtain ⟨h1, h2, _⟩ := spanP_sound (s := c :: cs) (a := (spanP Char.isDigit (c :: cs)).1)
        (b := (spanP Char.isDigit (c :: cs)).2) rfl
      refine ⟨by simpa [Width.render] using h1, ?_⟩
      rw [spanP_cons_true hc.1] at h2 ⊢
      refine ⟨⟨by simp, h2⟩, ?_⟩
      simp [hc.2]
    · obtain ⟨rfl, rfl⟩ := Prod.mk.inj h
      simp [Width.render, Width.Wf]
  · obtain ⟨rfl, rfl⟩ := Prod.mk.inj h
    simp [Width.render, Width.Wf]

theorem scanWidth_complete {w : Width} {t : List Char} (hw : w.Wf) (ht : HeadIn ('.' :: bodyStartChars) t) :
    scanWidth (w.render ++ t) = (w, t) := by
  have hstop := ht.stop
  obtain ⟨c, u, rfl, hc⟩ := ht
  have hcd : c.isDigit = false ∧ c ≠ '*' := by
    rcases List.mem_cons.1 hc with rfl | hc
    · exact ⟨by decide, by decide⟩
    · have := bodyStart_facts c hc
      exact ⟨this.1, this.2.2.2.1⟩
  cases w with
  | none =>
    simp only [Width.render, List.nil_append]
    unfold scanWidth
    split
    · rename_i heq; simp at heq; exact absurd heq.1 hcd.2
    · rename_i c' cs _ heq
      simp at heq
      obtain ⟨rfl, rfl⟩ := heq
      simp [hcd.1]
    · rename_i heq; simp at heq
  | num ds =>
    obtain ⟨⟨hne, hd⟩, h0⟩ := hw
    cases ds with
    | nil => exact absurd rfl hne
    | cons d ds' =>
      have hdd : d.isDigit = true := hd d (by simp)
      have hd0 : d ≠ '0' := by simpa using h0
      have hdstar : d ≠ '*' := by intro h; subst h; revert hdd; decide
      have hsp : spanP Char.isDigit ((d :: ds') ++ c :: u) = (d :: ds', c :: u) :=
        spanP_complete hd (by intro x hx; simp at hx; subst hx; exact hcd.1)
      simp only [Width.render]
      unfold scanWidth
      split
      · rename_i heq; simp at heq; exact absurd heq.1 hdstar
      · rename_i c' cs _ heq
        simp at heq
        obtain ⟨rfl, rfl⟩ := heq
        simp only [List.cons_append] at hsp
        simp [hdd, hd0, hsp]
      · rename_i heq; simp at heq
  | star idx =>
    simp only [Width.render, List.cons_append]
    unfold scanWidth
    simp only
    cases idx with
    | none =>
      simp only [renderIdx, List.nil_append]
      rw [scanIndex_none hstop]
    | some ds =>
      simp only [renderIdx, List.append_assoc, List.cons_append, List.nil_append]
      rw [scanIndex_some hw]


/-! ## precision -/

theorem scanPrec_sound {s : List Char} {p rest} (h : scanPrec s = (p, rest)) :
    s = p.render ++ rest ∧ p.Wf := by
  unfold scanPrec at h
  split at h
  · rename_i r
    simp only at h
    obtain ⟨rfl, rfl⟩ := Prod.mk.inj h
    obtain ⟨h1, h2⟩ := scanIndex_sound (s := r) (idx := (scanIndex r).1) (rest := (scanIndex r).2) rfl
    exact ⟨by simp [Prec.render, ← h1], h2⟩
  · rename_i r _
    simp only at h
    obtain ⟨rfl, rfl⟩ := Prod.mk.inj h
    obtain ⟨h1, h2, _⟩ := spanP_sound (s := r) (a := (spanP Char.isDigit r).1) (b := (spanP Char.isDigit r).2) rfl
    exact ⟨by simp [Prec.render, ← h1], h2⟩
  · obtain ⟨rfl, rfl⟩ := Prod.mk.inj h
    simp [Prec.render, Prec.Wf]

theorem scanPrec_complete {p : Prec} {t : List Char} (hp : p.Wf) (ht : HeadIn bodyStartChars t) :
    scanPrec (p.render ++ t) = (p, t) := by
  have hstop : Stop t := (ht.mono (fun c hc => List.mem_cons_of_mem _ hc)).stop
  obtain ⟨c, u, rfl, hc⟩ := ht
  have hf := bodyStart_facts c hc
  cases p with
  | none =>
    simp only [Prec.render, List.nil_append]
    unfold scanPrec
    split
    · rename_i heq; simp at heq; exact absurd heq.1 hf.2.2.2.2
    · rename_i heq; simp at heq; exact absurd heq.1 hf.2.2.2.2
    · rfl
  | num ds =>
    have hsp : spanP Char.isDigit (ds ++ c :: u) = (ds, c :: u) :=
      spanP_complete hp (by intro x hx; simp at hx; subst hx; exact hf.1)
    simp only [Prec.render, List.cons_append]
    unfold scanPrec
    split
    · rename_i r heq
      simp at heq
      cases ds with
      | nil => simp at heq; exact absurd heq.1 hf.2.2.2.1
      | cons d ds' =>
        simp at heq
        have : d.isDigit = true := hp d (by simp)
        rw [heq.1] at this
        exact absurd this (by decide)
    · rename_i r _ heq
      simp at heq
      subst heq
      simp [hsp]
    · rename_i h1 h2
      exact absurd rfl (h2 _)
  | star idx =>
    simp only [Prec.render, List.cons_append]
    unfold scanPrec
    simp only
    cases idx with
    | none =>
      simp only [renderIdx, List.nil_append]
      rw [scanIndex_none hstop]
    | some ds =>
      simp only [renderIdx, List.append_assoc, List.cons_append, List.nil_append]
      rw [scanIndex_some hp]

/-! ## length, conversion, inttypes macros -/

theorem scanLen_sound {s : List Char} {l rest} (h : scanLen s = (l, rest)) : s = renderLen l ++ rest := by
  unfold scanLen at h
  split at h <;> obtain ⟨rfl, rfl⟩ := Prod.mk.inj h <;> simp [renderLen, Len.chars]

theorem scanLen_complete {l : Option Len} {c : Char} {rest : List Char} (hc : c ∈ convChars) :
    scanLen (renderLen l ++ c :: rest) = (l, c :: rest) := by
  have hf := conv_facts c hc
  obtain ⟨_, h1, h2, h3, h4, h5, h6, h7, h8, _⟩ := hf
  cases l with
  | none =>
    simp only [renderLen, List.nil_append]
    unfold scanLen
    split <;> simp_all
  | some ln =>
    cases ln <;> simp only [renderLen, Len.chars, List.cons_append, List.nil_append] <;> unfold scanLen <;> split <;>
      first | (simp_all; done) | (rename_i x heq; simp at heq; exact absurd heq.symm (x _))

theorem scanBits_sound {s : List Char} {b rest} (h : scanBits s = some (b, rest)) : s = b.chars ++ rest := by
  unfold scanBits at h
  split at h <;> simp at h <;> obtain ⟨rfl, rfl⟩ := h <;> simp [PriBits.chars]

theorem scanPriLen_sound {s : List Char} {l rest} (h : scanPriLen s = some (l, rest)) : s = l.chars ++ rest := by
  unfold scanPriLen at h
  split at h
  · rename_i r
    cases hb : scanBits r with
    | none => simp [hb] at h
    | some br =>
      obtain ⟨b, r'⟩ := br
      simp [hb] at h
      obtain ⟨rfl, rfl⟩ := h
      simp [PriLen.chars, PriKind.chars, scanBits_sound hb]
  · rename_i r
    cases hb : scanBits r with
    | none => simp [hb] at h
    | some br =>
      obtain ⟨b, r'⟩ := br
      simp [hb] at h
      obtain ⟨rfl, rfl⟩ := h
      simp [PriLen.chars, PriKind.chars, scanBits_sound hb]
  · simp at h; obtain ⟨rfl, rfl⟩ := h; simp [PriLen.chars]
  · simp at h; obtain ⟨rfl, rfl⟩ := h; simp [PriLen.chars]
  · cases hb : scanBits s with
    | none => simp [hb] at h
    | some br =>
      obtain ⟨b, r'⟩ := br
      simp [hb] at h
      obtain ⟨rfl, rfl⟩ := h
      simp [PriLen.chars, PriKind.chars, scanBits_sound hb]

theorem scanPriLen_complete (l : PriLen) (rest : List Char) :
    scanPriLen (l.chars ++ '>' :: rest) = some (l, '>' :: rest) := by
  cases l with
  | max => rfl
  | ptr => rfl
  | sized k b => cases k <;> cases b <;> rfl

theorem scanBody_sound {s : List Char} {b rest} (h : scanBody s = some (b, rest)) :
    s = b.render ++ rest ∧ b.Wf := by
  unfold scanBody at h
  split at h
  · rename_i c r
    split at h
    · rename_i hc
      split at h
      · rename_i l rest' hl
        simp at h
        obtain ⟨rfl, rfl⟩ := h
        refine ⟨?_, isPriConv_iff.1 hc⟩
        simp [Body.render, scanPriLen_sound hl]
      · simp at h
    · simp at h
  · simp only at h
    split at h
    · rename_i c rest' hr
      split at h
      · rename_i hc
        simp at h
        obtain ⟨rfl, rfl⟩ := h
        have := scanLen_sound (s := s) (l := (scanLen s).1) (rest := (scanLen s).2) rfl
        rw [hr] at this
        exact ⟨by simpa [Body.render] using this, isConv_iff.1 hc⟩
      · simp at h
    · simp at h

theorem body_head {b : Body} (hb : b.Wf) (rest : List Char) : HeadIn bodyStartChars (b.render ++ rest) := by
  cases b with
  | std len conv =>
    have hc : conv ∈ bodyStartChars := (conv_facts conv hb).1
    cases len with
    | none => exact ⟨conv, rest, by simp [Body.render, renderLen], hc⟩
    | some ln =>
      cases ln <;> simp only [Body.render, renderLen, Len.chars, List.cons_append, List.nil_append] <;>
        exact ⟨_, _, rfl, by decide⟩
  | pri conv len =>
    simp only [Body.render, List.cons_append, List.nil_append, List.append_assoc]
    exact ⟨_, _, rfl, by decide⟩

theorem scanBody_complete {b : Body} (hb : b.Wf) (rest : List Char) :
    scanBody (b.render ++ rest) = some (b, rest) := by
  cases b with
  | pri conv len =>
    have hc : isPriConv conv = true := isPriConv_iff.2 hb
    simp only [Body.render, List.cons_append, List.append_assoc, List.nil_append]
    unfold scanBody
    simp [hc, scanPriLen_complete]
  | std len conv =>
    have hc : isConv conv = true := isConv_iff.2 hb
    have hsl := scanLen_complete (l := len) (rest := rest) hb
    have hhd := body_head (b := .std len conv) hb rest
    simp only [Body.render, List.append_assoc, List.cons_append, List.nil_append] at hhd ⊢
    unfold scanBody
    split
    · rename_i c r heq
      exfalso
      have hlt := (conv_facts conv hb).2.2.2.2.2.2.2.2.2
      cases len with
      | none => simp [renderLen] at heq; exact hlt heq.1
      | some ln => cases ln <;> simp [renderLen, Len.chars] at heq
    · simp [hsl, hc]


/-! ## one directive -/

theorem scanDirective_sound {s : List Char} {d rest} (h : scanDirective s = some (d, rest)) :
    s = d.renderTail ++ rest ∧ d.Wf := by
  unfold scanDirective at h
  simp only at h
  split at h
  · rename_i body rest' hb
    simp at h
    obtain ⟨rfl, rfl⟩ := h
    obtain ⟨h1, w1⟩ := scanIndex_sound (s := s) (idx := (scanIndex s).1) (rest := (scanIndex s).2) rfl
    obtain ⟨h2, w2, _⟩ := spanP_sound (p := isFlag) (s := (scanIndex s).2)
      (a := (spanP isFlag (scanIndex s).2).1) (b := (spanP isFlag (scanIndex s).2).2) rfl
    obtain ⟨h3, w3⟩ := scanWidth_sound (s := (spanP isFlag (scanIndex s).2).2)
      (w := (scanWidth (spanP isFlag (scanIndex s).2).2).1) (rest := (scanWidth (spanP isFlag (scanIndex s).2).2).2) rfl
    obtain ⟨h4, w4⟩ := scanPrec_sound (s := (scanWidth (spanP isFlag (scanIndex s).2).2).2)
      (p := (scanPrec (scanWidth (spanP isFlag (scanIndex s).2).2).2).1)
      (rest := (scanPrec (scanWidth (spanP isFlag (scanIndex s).2).2).2).2) rfl
    obtain ⟨h5, w5⟩ := scanBody_sound hb
    refine ⟨?_, ⟨w1, fun c hc => isFlag_iff.1 (w2 c hc), w3, w4, w5⟩⟩
    simp only [Directive.renderTail, List.append_assoc]
    rw [← h5, ← h4, ← h3, ← h2, ← h1]
  · simp at h

theorem width_head_nonflag {w : Width} {t : List Char} (hw : w.Wf) (ht : HeadIn ('.' :: bodyStartChars) t) :
    ∀ x, (w.render ++ t).head? = some x → isFlag x = false := by
  intro x hx
  have base : ∀ x, t.head? = some x → isFlag x = false := by
    intro x hx
    obtain ⟨c, u, rfl, hc⟩ := ht
    simp at hx; subst hx
    rcases List.mem_cons.1 hc with rfl | hc
    · decide
    · exact (bodyStart_facts c hc).2.2.1
  cases w with
  | none => exact base x (by simpa [Width.render] using hx)
  | star idx => simp [Width.render] at hx; subst hx; decide
  | num ds =>
    obtain ⟨⟨hne, hd⟩, h0⟩ := hw
    cases ds with
    | nil => exact absurd rfl hne
    | cons d ds' =>
      simp [Width.render] at hx
      subst hx
      have hdd : d.isDigit = true := hd d (by simp)
      have hd0 : d ≠ '0' := by simpa using h0
      cases hfl : isFlag d with
      | false => rfl
      | true => exact absurd ((flag_facts d (isFlag_iff.1 hfl)).2.2 hdd) hd0

theorem width_stop {w : Width} {t : List Char} (hw : w.Wf) (ht : Stop t) : Stop (w.render ++ t) := by
  cases w with
  | none => simpa [Width.render] using ht
  | num ds => exact Stop.digits hw.1.2 ht
  | star idx => exact Stop.head (by decide) (by decide)

theorem prec_head {p : Prec} {t : List Char} (ht : HeadIn bodyStartChars t) :
    HeadIn ('.' :: bodyStartChars) (p.render ++ t) := by
  cases p with
  | none => simpa [Prec.render] using ht.mono (fun c hc => List.mem_cons_of_mem _ hc)
  | num ds => simp only [Prec.render, List.cons_append]; exact ⟨_, _, rfl, by simp⟩
  | star idx => simp only [Prec.render, List.cons_append]; exact ⟨_, _, rfl, by simp⟩

theorem scanDirective_complete {d : Directive} (hd : d.Wf) (rest : List Char) :
    scanDirective (d.renderTail ++ rest) = some (d, rest) := by
  obtain ⟨index, flags, width, prec, body⟩ := d
  obtain ⟨w1, w2, w3, w4, w5⟩ := hd
  simp only at w1 w2 w3 w4 w5
  have t4 : HeadIn bodyStartChars (body.render ++ rest) := body_head w5 rest
  have t3 : HeadIn ('.' :: bodyStartChars) (prec.render ++ (body.render ++ rest)) := prec_head t4
  have s2 : Stop (width.render ++ (prec.render ++ (body.render ++ rest))) := width_stop w3 t3.stop
  have s1 : Stop (flags ++ (width.render ++ (prec.render ++ (body.render ++ rest)))) := Stop.flags w2 s2
  have e1 : scanIndex (renderIdx index ++ (flags ++ (width.render ++ (prec.render ++ (body.render ++ rest))))) =
      (index, flags ++ (width.render ++ (prec.render ++ (body.render ++ rest)))) := by
    cases index with
    | none => simpa [renderIdx] using scanIndex_none s1
    | some ds => simpa [renderIdx] using scanIndex_some (rest := flags ++ (width.render ++ (prec.render ++ (body.render ++ rest)))) w1
  have e2 : spanP isFlag (flags ++ (width.render ++ (prec.render ++ (body.render ++ rest)))) =
      (flags, width.render ++ (prec.render ++ (body.render ++ rest))) :=
    spanP_complete (fun x hx => isFlag_iff.2 (w2 x hx)) (width_head_nonflag w3 t3)
  have e3 := scanWidth_complete w3 t3
  have e4 := scanPrec_complete w4 t4
  have e5 := scanBody_complete w5 rest
  unfold scanDirective
  simp only [Directive.renderTail, List.append_assoc, e1, e2, e3, e4, e5]

/-! ## whole strings -/

theorem scanAll_nil (fuel : Nat) : scanAll fuel [] = ([], true) := by
  cases fuel <;> simp [scanAll]

theorem renderTail_length_le {s : List Char} {d rest} (h : scanDirective s = some (d, rest)) : rest.length ≤ s.length := by
  have := (scanDirective_sound h).1
  rw [this]; simp

/-- after a `%` the first item, if any, is a directive -/
theorem scanAll_pct_head (fuel : Nat) (r : List Char) :
    match (scanAll fuel ('%' :: r)).1 with
    | .lit _ :: _ => False
    | _ => True := by
  cases fuel with
  | zero => simp [scanAll]
  | succ f =>
    simp only [scanAll, beq_self_eq_true, if_true]
    cases scanDirective r with
    | none => simp
    | some dr => simp

theorem scanAll_sound : ∀ (fuel : Nat) (s : List Char) (items : List Item) (complete : Bool),
    s.length ≤ fuel → scanAll fuel s = (items, complete) →
    ItemsWf items ∧ ∃ rest, s = render items ++ rest ∧ (complete = true → rest = []) := by
  intro fuel
  induction fuel with
  | zero =>
    intro s items complete hl h
    have : s = [] := List.length_eq_zero_iff.1 (Nat.le_zero.1 hl)
    subst this
    simp [scanAll] at h
    obtain ⟨rfl, rfl⟩ := h
    exact ⟨trivial, [], by simp [render], fun _ => rfl⟩
  | succ f ih =>
    intro s items complete hl h
    cases s with
    | nil =>
      simp [scanAll] at h
      obtain ⟨rfl, rfl⟩ := h
      exact ⟨trivial, [], by simp [render], fun _ => rfl⟩
    | cons c cs =>
      simp only [scanAll] at h
      split at h
      · rename_i hc
        have hc : c = '%' := by simpa using hc
        subst hc
        split at h
        · obtain ⟨rfl, rfl⟩ := Prod.mk.inj h
          exact ⟨trivial, '%' :: cs, by simp [render], by simp⟩
        · rename_i d rest hd
          obtain ⟨rfl, rfl⟩ := Prod.mk.inj h
          obtain ⟨hr, hwf⟩ := scanDirective_sound hd
          have hlen : rest.length ≤ f := by
            have := renderTail_length_le hd
            simp at hl; omega
          obtain ⟨hw', rest', hr', hc'⟩ := ih rest _ _ hlen rfl
          refine ⟨⟨hwf, hw'⟩, rest', ?_, hc'⟩
          simp only [render, Item.render, Directive.render, List.cons_append, List.append_assoc]
          rw [← hr', ← hr]
      · rename_i hc
        have hc : c ≠ '%' := by simpa using hc
        obtain ⟨rfl, rfl⟩ := Prod.mk.inj h
        have hpc : (fun x : Char => x != '%') c = true := by simpa using hc
        obtain ⟨h1, h2, h3⟩ := spanP_sound (p := fun x : Char => x != '%') (s := c :: cs)
          (a := (spanP (fun x => x != '%') (c :: cs)).1) (b := (spanP (fun x => x != '%') (c :: cs)).2) rfl
        have hne : (spanP (fun x : Char => x != '%') (c :: cs)).1 ≠ [] := by
          rw [spanP_cons_true (p := fun x : Char => x != '%') (x := c) hpc]; simp
        have hlen : (spanP (fun x : Char => x != '%') (c :: cs)).2.length ≤ f := by
          have := congrArg List.length h1
          have hpos : 0 < (spanP (fun x : Char => x != '%') (c :: cs)).1.length := List.length_pos_iff.2 hne
          simp at this hl; omega
        obtain ⟨hw', rest', hr', hc'⟩ := ih _ _ _ hlen rfl
        refine ⟨⟨hne, fun x hx => by simpa using h2 x hx, ?_, hw'⟩, rest', ?_, hc'⟩
        · generalize hb : (spanP (fun x : Char => x != '%') (c :: cs)).2 = b at h3 ⊢
          cases b with
          | nil => rw [scanAll_nil]; trivial
          | cons y ys =>
            have : y = '%' := by simpa using h3 y rfl
            subst this
            exact scanAll_pct_head f ys
        · simp only [render, Item.render, List.append_assoc]
          rw [← hr', ← h1]

theorem render_head_pct : ∀ (items : List Item), ItemsWf items →
    (match items with | .lit _ :: _ => False | _ => True) → ∀ x, (render items).head? = some x → x = '%'
  | [], _, _, x, hx => by simp [render] at hx
  | .lit _ :: _, _, h, _, _ => absurd h id
  | .dir d :: rest, _, _, x, hx => by
    simp [render, Item.render, Directive.render] at hx
    exact hx.symm

theorem scanAll_complete : ∀ (items : List Item) (fuel : Nat), ItemsWf items → (render items).length ≤ fuel →
    scanAll fuel (render items) = (items, true)
  | [], fuel, _, _ => by simp [render, scanAll_nil]
  | .lit cs :: rest, fuel, hwf, hl => by
    obtain ⟨hne, hpct, hnext, hrest⟩ := hwf
    cases cs with
    | nil => exact absurd rfl hne
    | cons c cs' =>
      have hc : c ≠ '%' := hpct c (by simp)
      simp only [render, Item.render, List.cons_append, List.length_cons] at hl ⊢
      cases fuel with
      | zero => omega
      | succ f =>
        have hsp : spanP (fun x : Char => x != '%') ((c :: cs') ++ render rest) = (c :: cs', render rest) :=
          spanP_complete (fun x hx => by simpa using hpct x hx)
            (fun x hx => by simpa using render_head_pct rest hrest hnext x hx)
        have ih := scanAll_complete rest f hrest (by simp at hl; omega)
        simp only [List.cons_append] at hsp
        simp only [scanAll]
        rw [if_neg (by simpa using hc)]
        simp [hsp, ih]
  | .dir d :: rest, fuel, hwf, hl => by
    obtain ⟨hd, hrest⟩ := hwf
    simp only [render, Item.render, Directive.render, List.cons_append, List.length_cons] at hl ⊢
    cases fuel with
    | zero => omega
    | succ f =>
      have ih := scanAll_complete rest f hrest (by simp at hl; omega)
      simp only [scanAll, beq_self_eq_true, if_true]
      rw [scanDirective_complete hd]
      simp [ih]

theorem scan_sound {s : List Char} {items : List Item} {complete : Bool} (h : scan s = (items, complete)) :
    ItemsWf items ∧ ∃ rest, s = render items ++ rest ∧ (complete = true → rest = []) :=
  scanAll_sound s.length s items complete (Nat.le_refl _) h

theorem scan_complete {items : List Item} (h : ItemsWf items) : scan (render items) = (items, true) :=
  scanAll_complete items _ h (Nat.le_refl _)

/-- **Unique readability.**  A string has at most one decomposition into well-formed items. -/
theorem render_injective {items items' : List Item} (h : ItemsWf items) (h' : ItemsWf items')
    (he : render items = render items') : items = items' := by
  have a := scan_complete h
  have b := scan_complete h'
  rw [he, b] at a
  exact (Prod.mk.inj a).1.symm

end I18n.CFmt
