import I18n.Lemmas.CheckPluralsRegistry
namespace I18n.CheckPlurals
open I18n I18n.Py I18n.Plural I18n.PluralParse I18n.Spec.PluralForms

/-! ## gap ranges are non-empty ranges of non-negative indices (so `format_range` is applied to non-empty ranges) -/

theorem scanKeys_nonempty (n : Nat) (ks : List Int) : ∀ (l : List Int), (∀ i ∈ l, 0 ≤ i) → ∀ r ∈ scanKeys n ks l, r.1 < r.2 := by
  intro l hpos r hr
  obtain ⟨j, hj0, _, rfl⟩ := scanKeys_spec n ks l hpos r hr
  simp only
  omega

theorem codomainRanges_nonempty (x y : Int) (n : Nat) (hy : 0 ≤ y) : ∀ r ∈ codomainRanges x y n, r.1 < r.2 := by
  intro r hr
  unfold codomainRanges at hr
  rcases List.mem_append.mp hr with hr | hr
  · split at hr
    · simp only [List.mem_singleton] at hr; subst hr; simp only; omega
    · cases hr
  · split at hr
    · simp only [List.mem_singleton] at hr; subst hr; simp only; omega
    · cases hr

/-! ## a clean declaration: the gap analysis finds nothing -/

theorem scanKeys_nil (n : Nat) (ks : List Int) : ∀ (l : List Int),
    (∀ i ∈ l, (i > 0 → (i - 1) ∈ ks) ∧ (i + 1 < n → (i + 1) ∈ ks)) → scanKeys n ks l = [] := by
  intro l
  induction l with
  | nil => intro _; rfl
  | cons i rest ih =>
    intro h
    obtain ⟨h1, h2⟩ := h i (by simp)
    simp only [scanKeys]
    have c1 : ¬ (i > 0 ∧ ¬ ks.contains (i - 1) = true) := by
      rintro ⟨hi, hc⟩; exact hc (by simpa using h1 hi)
    have c2 : ¬ (i + 1 < n ∧ ¬ ks.contains (i + 1) = true) := by
      rintro ⟨hi, hc⟩; exact hc (by simpa using h2 hi)
    rw [if_neg c1, if_neg c2]
    exact ih (fun j hj => h j (by simp [hj]))

/-- total on the window, in range, onto: the hypotheses of C07's "clean declaration" clause -/
structure CleanOnWindow (n : Nat) (e : Expr) : Prop where
  total : ∀ i : Nat, i < codomainLimit → ∃ v, evalAt 32 i e = .ok v ∧ v < n
  onto : ∀ k : Nat, k < n → ∃ i : Nat, i < codomainLimit ∧ evalAt 32 i e = .ok (k : Int)

theorem CleanOnWindow.badMsg_none {n : Nat} {e : Expr} (h : CleanOnWindow n e) (i : Nat) (hi : i < codomainLimit) : badMsg n e i = none := by
  obtain ⟨v, hv, hvn⟩ := h.total i hi
  simp only [badMsg, hv]
  rw [if_neg (by omega)]

theorem gapRanges_clean {n : Nat} {e : Expr} (h : CleanOnWindow n e) (pre : Preimage)
    (hkeys : ∀ k, k ∈ keys pre ↔ ∃ i : Nat, i < codomainLimit ∧ evalAt 32 i e = .ok k) :
    gapRanges n e (some pre) = .ok [] := by
  have hlim : codomainLimit = 200 := rfl
  -- every key is a valid index, and every valid index is a key
  have hrange : ∀ k, k ∈ keys pre → 0 ≤ k ∧ k < n := by
    intro k hk
    obtain ⟨i, hi, hv⟩ := (hkeys k).1 hk
    obtain ⟨v, hv', hvn⟩ := h.total i hi
    rw [hv] at hv'; cases hv'
    exact ⟨(I18n.Props.C04.eval_value_range (by decide) i e k hv).1, hvn⟩
  have hall : ∀ k : Int, 0 ≤ k → k < n → k ∈ keys pre := by
    intro k h0 hn
    obtain ⟨k', rfl⟩ : ∃ k' : Nat, k = (k' : Int) := ⟨k.toNat, by omega⟩
    obtain ⟨i, hi, hv⟩ := h.onto k' (by omega)
    exact (hkeys _).2 ⟨i, hi, hv⟩
  have htail : gapTail n e (some pre) [] = .ok [] := by
    unfold gapTail
    simp only [List.isEmpty_nil, ↓reduceIte]
    obtain ⟨per, hper⟩ := I18n.Props.C06.period_nocrash 32 e
    rw [hper]
    simp only
    have hscan : scanKeys n (sortedKeys pre) (sortedKeys pre) = [] := by
      apply scanKeys_nil
      intro i hi
      have hik := (mem_sortedKeys pre i).1 hi
      obtain ⟨hi0, hin⟩ := hrange i hik
      exact ⟨fun hp => (mem_sortedKeys pre _).2 (hall _ (by omega) (by omega)),
             fun hp => (mem_sortedKeys pre _).2 (hall _ (by omega) (by omega))⟩
    rw [hscan]
    split <;> split <;> rfl
  unfold gapRanges
  obtain ⟨cd, hcd⟩ := I18n.Props.C05.codomain_nocrash 32 e
  rw [hcd]
  cases cd with
  | none => exact htail
  | some xy =>
    obtain ⟨x, y⟩ := xy
    simp only
    have hsound := I18n.Props.C05.codomain_sound 32 e x y hcd
    have hx : ¬ x > 0 := by
      intro hx
      by_cases hn : n = 0
      · obtain ⟨v, hv, hvn⟩ := h.total 0 (by omega)
        have := (I18n.Props.C04.eval_value_range (by decide) (0 : Nat) e v hv).1
        omega
      · obtain ⟨i, hi, hv⟩ := h.onto 0 (by omega)
        have := hsound i (by have : (i : Int) < 200 := by omega
                             omega) 0 hv
        omega
    have hy : ¬ y + 1 < n := by
      intro hy
      have hn : n ≠ 0 := by
        intro hn
        obtain ⟨v, hv, hvn⟩ := h.total 0 (by omega)
        have := (I18n.Props.C04.eval_value_range (by decide) (0 : Nat) e v hv).1
        omega
      obtain ⟨i, hi, hv⟩ := h.onto (n - 1) (by omega)
      have := hsound i (by have : (i : Int) < 200 := by omega
                           omega) _ hv
      omega
    simp only [codomainRanges, hx, hy, ↓reduceIte, List.append_nil]
    exact htail

/-- the window of a clean declaration runs to completion and adds no tag (when the registry has nothing else to compare
    it with) -/
theorem window_clean {n : Nat} {e : Expr} (h : CleanOnWindow n e) (lc : Option (Nat × Expr)) (hp : Bool) (ut : TagCall)
    (st0 : WinState) (h0 : st0.pre = []) (hlc : LcTotal lc (List.range codomainLimit)) :
    ∃ st mid, window n e lc hp ut (List.range codomainLimit) st0 = (st, .completed) ∧ st.tags = st0.tags ++ mid ∧
      (∀ t ∈ mid, t = ut) ∧ ((lc = none ∨ ∃ ln, lc = some (ln, e)) → mid = []) ∧
      (∀ k, k ∈ keys st.pre ↔ ∃ i : Nat, i < codomainLimit ∧ evalAt 32 i e = .ok k) := by
  cases hw : window n e lc hp ut (List.range codomainLimit) st0 with
  | mk st fin =>
    cases fin with
    | crashed ex => exact absurd hw (window_nocrash _ _ _ _ _ _ _ _ _)
    | stopped =>
      obtain ⟨pre, i, post, msg, mid, his, _, hbad, _, _⟩ := window_stopped n e lc hp ut _ st0 st hw hlc
      have hi : i ∈ List.range codomainLimit := by rw [his]; simp
      rw [h.badMsg_none i (List.mem_range.1 hi)] at hbad
      cases hbad
    | completed =>
      obtain ⟨mid, last, h1, h2, h3, _, h5⟩ := window_shape _ _ _ _ _ _ _ _ _ hw
      obtain ⟨_, hk, _⟩ := window_completed n e lc hp ut _ st0 st hw
      refine ⟨st, mid, rfl, by rw [h1, h3 rfl]; simp, h2, h5, ?_⟩
      intro k
      rw [hk k, h0]
      simp only [keys, List.map_nil, List.not_mem_nil, false_or, List.mem_range]

end I18n.CheckPlurals
