import I18n.Model.CFmt
/-!
# The probed tables of `lib.strformat.c` are the tables of `Spec.Printf`

`decide +kernel` over the regenerated `Generated.CFormatTables`; consequences used by the model proofs.
-/
namespace I18n.CFmt
open I18n.Spec.Printf
open I18n.Generated

set_option maxRecDepth 100000

def encType : Option TypeInfo → Option String × Bool × Bool
  | some ti => (some ti.type, ti.integer, ti.nonportable)
  | none => (none, false, false)

def typeKeys : List (Option Len × Char) := allLens.flatMap fun l => convChars.map fun c => (l, c)

/-- what `tools/translate/cfmt2lean.py` must have probed if the module implements `Spec.Printf.stdType` -/
def expectedTypeTable : List ((String × Char) × Option String × Bool × Bool) :=
  typeKeys.map fun k => ((lenName k.1, k.2), encType (stdType k.1 k.2))

def priKeys : List (Char × PriLen) := priConvChars.flatMap fun c => allPriLens.map fun l => (c, l)

def expectedPriTable : List ((Char × String) × String) :=
  priKeys.map fun k => ((k.1, k.2.name), priType k.1 k.2)

def expectedFlagTable : List ((Char × Char) × String) :=
  flagChars.flatMap fun f => convChars.map fun c => ((f, c), if c ∈ flagConvs f then "ok" else "FlagError")

def expectedWidthTable : List ((String × Char) × String) :=
  ["num", "star"].flatMap fun k => convChars.map fun c => ((k, c), if c ∈ widthConvs then "ok" else "WidthError")

def expectedPrecTable : List ((String × Char) × String) :=
  ["num", "empty", "star"].flatMap fun k => convChars.map fun c => ((k, c), if c ∈ precConvs then "ok" else "PrecisionError")

def expectedIndexTable : List ((String × Char) × String) :=
  convChars.map fun c => (("1$", c), if c ∈ indexConvs then "ok" else "ForbiddenArgumentIndex")

def expectedConsumes : List (Char × Nat) :=
  convChars.map fun c => (c, if c ∈ consuming then 1 else 0)

theorem typeTable_pin : CFormatTables.typeTable = expectedTypeTable := by decide +kernel
theorem priTable_pin : CFormatTables.priTable = expectedPriTable := by decide +kernel
theorem flagTable_pin : CFormatTables.flagTable = expectedFlagTable := by decide +kernel
theorem widthTable_pin : CFormatTables.widthTable = expectedWidthTable := by decide +kernel
theorem precTable_pin : CFormatTables.precTable = expectedPrecTable := by decide +kernel
theorem indexTable_pin : CFormatTables.indexTable = expectedIndexTable := by decide +kernel
theorem consumes_pin : CFormatTables.consumes = expectedConsumes := by decide +kernel
theorem nl_argmax_pin : CFormatTables.NL_ARGMAX = Spec.Printf.NL_ARGMAX := by decide
theorem int_max_pin : CFormatTables.INT_MAX = Spec.Printf.INT_MAX := by decide
theorem star_type_pin : CFormatTables.variableWidthType = "int" ∧ CFormatTables.variablePrecisionType = "int" := by decide

/-! ## look-ups in a table that is the graph of a function -/

theorem lookup_graph {α β γ : Type} [BEq γ] [LawfulBEq γ] (key : α → γ) (f : α → β) :
    ∀ (keys : List α) (k : α), k ∈ keys → (∀ k' ∈ keys, key k' = key k → f k' = f k) →
      (keys.map fun k => (key k, f k)).lookup (key k) = some (f k)
  | [], _, h, _ => by simp at h
  | a :: as, k, h, hinj => by
    simp only [List.map_cons, List.lookup_cons]
    by_cases hk : key k == key a
    · have := hinj a (by simp) (by simpa using (eq_comm.1 (by simpa using hk)))
      simp [hk, this]
    · have hne : k ≠ a := by intro h'; subst h'; simp at hk
      have hm : k ∈ as := by simpa [hne] using h
      simp only [hk]
      exact lookup_graph key f as k hm (fun k' hk' => hinj k' (by simp [hk']))

theorem lenName_inj : ∀ a ∈ allLens, ∀ b ∈ allLens, lenName a = lenName b → a = b := by decide +kernel

theorem priName_inj : ∀ a ∈ allPriLens, ∀ b ∈ allPriLens, a.name = b.name → a = b := by decide +kernel

theorem mem_allLens (l : Option Len) : l ∈ allLens := by
  cases l with
  | none => decide
  | some ln => cases ln <;> decide

theorem mem_allPriLens (l : PriLen) : l ∈ allPriLens := by
  cases l with
  | max => decide
  | ptr => decide
  | sized k b => cases k <;> cases b <;> decide

/-- the model's type look-up on a well-formed body is the spec's `Body.typeInfo` -/
theorem typeInfo_spec {b : Body} (hb : b.Wf) :
    typeInfo b = match b.typeInfo with
      | some ti => .ok (ti.type, ti.integer, ti.nonportable)
      | none => .error .LengthError := by
  cases b with
  | std len conv =>
    have hk : (len, conv) ∈ typeKeys := by
      simp only [typeKeys, List.mem_flatMap, List.mem_map]
      exact ⟨len, mem_allLens len, conv, hb, rfl⟩
    have hl := lookup_graph (fun k : Option Len × Char => (lenName k.1, k.2)) (fun k => encType (stdType k.1 k.2))
      typeKeys (len, conv) hk (by
        intro k' hk' he
        simp only [typeKeys, List.mem_flatMap, List.mem_map] at hk'
        obtain ⟨l', hl', c', _, rfl⟩ := hk'
        simp only [Prod.mk.injEq] at he
        have := lenName_inj l' hl' len (mem_allLens len) he.1
        rw [this, he.2])
    simp only [typeInfo, typeTable_pin, expectedTypeTable, hl, Body.typeInfo]
    cases stdType len conv with
    | none => simp [encType]
    | some ti => simp [encType]
  | pri conv len =>
    have hk : (conv, len) ∈ priKeys := by
      simp only [priKeys, List.mem_flatMap, List.mem_map]
      exact ⟨conv, hb, len, mem_allPriLens len, rfl⟩
    have hl := lookup_graph (fun k : Char × PriLen => (k.1, k.2.name)) (fun k => priType k.1 k.2)
      priKeys (conv, len) hk (by
        intro k' hk' he
        simp only [priKeys, List.mem_flatMap, List.mem_map] at hk'
        obtain ⟨c', _, l', hl', rfl⟩ := hk'
        simp only [Prod.mk.injEq] at he
        have := priName_inj l' hl' len (mem_allPriLens len) he.2
        rw [this, he.1])
    have hb' : conv ∈ priConvChars := hb
    simp only [typeInfo, priTable_pin, expectedPriTable, hl, Body.typeInfo, hb', if_true]

end I18n.CFmt
