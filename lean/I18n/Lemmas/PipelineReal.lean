import I18n.Lemmas.MetaReal
import I18n.Lemmas.PipelineBrace
import I18n.Lemmas.PoNoCrash
import I18n.Lemmas.HdrNoCrash
import I18n.Lemmas.PluralRegistry
import I18n.Props.C07
import I18n.Props.C09
import I18n.Props.C16
import I18n.Props.C18
import I18n.Props.C19
/-!
# No stage of the composed checker raises (for C01)

`Meta.Real.pipeline w` (C17's integration) is `Checker.check`'s ten statements after the load, each instantiated with the stage
model of the property that owns it.  Here: none of them raises, for every `ctx` — given only facts about the WORLD OUTSIDE THE
FILE (`WorldOk`): the plural registry is the shipped one, the codecs and expat keep to their documented exceptions, and the
format checkers are handed the message's own strings.
-/
namespace I18n.Meta.Real
open I18n I18n.Check I18n.Meta

/-- what is assumed of the world outside the checked file — nothing about any `check_*` method -/
structure WorldOk (w : World) : Prop where
  /-- `language.get_plural_forms()` is `None` or an entry of the registry dumped from data/languages (whose strings all parse:
      C07 `shipped_registry_clean`, kernel-evaluated) -/
  registry : ∀ lang, CheckPlurals.FromRegistry ⟨[], (w.pluralForms lang).1, [], [], false⟩
  /-- C20's charset fragment of `check_mime` returns (C20 `check_total`: true when the loaded tables are the generated ones and
      `str.encode` of the codec in question raises only `UnicodeError`) -/
  charset_total : ∀ tpl lang n, ∃ r, w.charset tpl lang n = .ok r
  /-- expat raises nothing but `ExpatError`, `get_character_name` is total on what `find_unusual_characters` reports, the
      format names hold no braces (C16 `live_env_sane` proves the last three for the generated environment) -/
  menv_sane : Spec.MessageRules.Sane w.menv
  /-- each format checker gets the message's own strings, parsed by the C11/C12/C13 parser models -/
  kmsg_real : ∃ reprs, w.kmsg = PipelineBrace.kmsgReal reprs

theorem fromRegistry_congr {a b : CheckPlurals.Input} (h : a.correct = b.correct) (ha : CheckPlurals.FromRegistry a) :
    CheckPlurals.FromRegistry b := by
  unfold CheckPlurals.FromRegistry at *
  rw [← h]; exact ha

theorem seqEmits_total : ∀ (l : List (List RTag × Bool)), (∀ p ∈ l, p.2 = false) → (seqEmits l).2 = false := by
  intro l
  induction l with
  | nil => intro _; rfl
  | cons p rest ih =>
    intro h
    obtain ⟨ts, b⟩ := p
    have hb : b = false := h (ts, b) (by simp)
    subst hb
    simp only [seqEmits]
    exact ih (fun q hq => h q (List.mem_cons_of_mem _ hq))

theorem messagesOut_total (w : World) (hw : WorldOk w) (fl : BinFlags) (k : RCtx) : (messagesOut w fl k).2 = false := by
  unfold messagesOut
  simp only
  have hno := (Props.C16.msg_nocrash hw.menv_sane (msgCtx fl k) (k.entries.map toMsgEntry)).1
  obtain ⟨reprs, hk⟩ := hw.kmsg_real
  apply seqEmits_total
  intro p hp
  rcases List.mem_append.1 hp with hp | hp
  · simp only [List.mem_flatMap, List.mem_map] at hp
    obtain ⟨q, hq, e, he, rfl⟩ := hp
    have hmem : e ∈ Msg.checkMessages w.menv (msgCtx fl k) (k.entries.map toMsgEntry) := by
      simp only [Msg.checkMessages, List.mem_append, List.mem_flatten]
      exact .inl ⟨q.2, (List.of_mem_zip hq).2, he⟩
    cases e with
    | tag t ex => rfl
    | crash x => exact absurd hmem (hno x)
    | fmt name info =>
      simp only [expandEmit, hk]
      obtain ⟨ts, hts⟩ := PipelineBrace.kmsgReal_nocrash reprs q.1 (name.map Char.ofNat) (fmtCtx k) ⟨info.fuzzy, info.rangeMin, info.rangeMax⟩
      rw [hts]
  · simp only [List.mem_map] at hp
    obtain ⟨e, he, rfl⟩ := hp
    have hmem : e ∈ Msg.checkMessages w.menv (msgCtx fl k) (k.entries.map toMsgEntry) := by
      simp only [Msg.checkMessages, List.mem_append]
      exact .inr he
    cases e with
    | tag t ex => rfl
    | crash x => exact absurd hmem (hno x)
    | fmt name info => rfl

/-- **no statement of `Checker.check` after the load raises**, whatever `ctx` -/
theorem pipeline_total (w : World) (hw : WorldOk w) : ∀ st ∈ pipeline w, ∀ s, (st s).2.2 = false := by
  intro st hst s
  simp only [pipeline, List.mem_cons, List.not_mem_nil, or_false] at hst
  rcases hst with rfl | rfl | rfl | rfl | rfl | rfl | rfl | rfl | rfl | rfl
  · rfl
  · -- check_headers: C15
    simp only [lift, headersStage]
    have := Hdr.checkHeaders_isSome w.hx s.2.isTemplate (s.2.entries.map toHdrEntry)
    cases h : Hdr.checkHeaders w.hx s.2.isTemplate (s.2.entries.map toHdrEntry) with
    | none => rw [h] at this; cases this
    | some ho => rfl
  · -- check_language: C19
    simp only [lift, languageStage]
    obtain ⟨out, h⟩ := Props.C19.check_language_nocrash w.munch (languageInput w s.2)
    rw [h]
  · -- check_plurals: C04–C07
    simp only [lift, pluralsStage]
    obtain ⟨out, h⟩ := Props.C07.checkPlurals_nocrash (pluralsInput w s.2) (fromRegistry_congr rfl (hw.registry s.2.language))
    rw [h]
  · -- check_mime: C15 over C20's fragment
    simp only [lift, mimeStage]
    obtain ⟨out, h⟩ := Hdr.checkMime_ok w.hx.db (w.charset s.2.isTemplate s.2.language) (hw.charset_total _ _) s.2.metadata
    rw [h]
  · rfl
  · -- check_dates: C18
    simp only [datesStage]
    have := Props.C18.NoCrash (Hdr.dateCtx ⟨s.2.isTemplate, s.1.isBinary⟩ s.2.metadata w.now)
    cases h : Date.checkDates (Hdr.dateCtx ⟨s.2.isTemplate, s.1.isBinary⟩ s.2.metadata w.now) with
    | none => exact absurd h this
    | some ts => rfl
  · rfl
  · rfl
  · -- check_messages: C16 with C14's dispatch over C11/C12/C13's parsers
    simp only [messagesStage]
    exact messagesOut_total w hw s.1 s.2

/-! ## the loaders -/

/-- the PO loader as `Checker.check` sees it raises only what `check` handles: C10's model + `Po.CodecsBehave` -/
theorem poLoad_first (env : Po.Env) (hc : Po.CodecsBehave env) (file : Po.Bytes) (e : LoadErr) (h : poLoad env file false = .error e) :
    e.handledFirst = true := by
  unfold poLoad at h
  simp only [Bool.false_eq_true, if_false] at h
  cases hl : Po.load env file with
  | ok f => rw [hl] at h; cases h
  | error x =>
    rw [hl] at h
    rcases Po.load_closed env hc file x hl with hs | hd
    · cases x <;> simp [Po.Err.isSyntax] at hs
      cases h; rfl
    · subst hd; cases h; rfl

theorem poLoad_retry (env : Po.Env) (hc : Po.CodecsBehave env) (file : Po.Bytes) (e : LoadErr) (h : poLoad env file true = .error e) :
    e.handledRetry = true := by
  unfold poLoad at h
  simp only [if_true] at h
  cases hl : Po.loadWith env Po.latin1Name file with
  | ok f => rw [hl] at h; cases h
  | error x =>
    rw [hl] at h
    have hs := Po.retry_closed env hc file x hl
    cases x <;> simp [Po.Err.isSyntax] at hs
    cases h; rfl

end I18n.Meta.Real
