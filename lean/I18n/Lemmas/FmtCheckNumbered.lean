import I18n.Lemmas.FmtCheckCSig
/-!
# `reorder_silent`, constructive form: number the references of an unnumbered C format string, permute the directives
-/
namespace I18n.FmtCheck
open I18n I18n.FmtSig I18n.CFmt I18n.Spec.Printf I18n.Spec.FmtCompare

/-! ## decimal numerals -/

def digitChar : Nat → Char
  | 0 => '0' | 1 => '1' | 2 => '2' | 3 => '3' | 4 => '4' | 5 => '5' | 6 => '6' | 7 => '7' | 8 => '8' | _ => '9'

theorem digitChar_val (d : Nat) (h : d < 10) : (digitChar d).toNat - 48 = d := by
  match d, h with
  | 0, _ | 1, _ | 2, _ | 3, _ | 4, _ | 5, _ | 6, _ | 7, _ | 8, _ | 9, _ => rfl

/-- least significant digit first; `fuel` is a termination device -/
def digitsRev : Nat → Nat → List Char
  | 0, _ => []
  | fuel + 1, n => if n < 10 then [digitChar n] else digitChar (n % 10) :: digitsRev fuel (n / 10)

/-- the decimal numeral of `n` -/
def digitsOf (n : Nat) : List Char := (digitsRev (n + 1) n).reverse

theorem digitsRev_value : ∀ (fuel n : Nat), n < fuel →
    (digitsRev fuel n).foldr (fun c acc => 10 * acc + (c.toNat - 48)) 0 = n
  | 0, _, h => by omega
  | fuel + 1, n, h => by
    simp only [digitsRev]
    by_cases hn : n < 10
    · simp [hn, digitChar_val n hn]
    · simp only [hn, ↓reduceIte, List.foldr_cons]
      rw [digitsRev_value fuel (n / 10) (by omega), digitChar_val (n % 10) (Nat.mod_lt _ (by omega))]
      omega

theorem decimal_digitsOf (n : Nat) : decimal (digitsOf n) = n := by
  unfold decimal digitsOf
  rw [List.foldl_reverse]
  exact digitsRev_value (n + 1) n (by omega)

/-! ## references of a string as (explicit number?, type), directive by directive -/

/-- the references a directive makes: explicit argument number (if any) and type, in the order printf fetches them -/
def refTypes (d : Directive) : List (Option Nat × String) := (d.refs 0).map fun r => (r.idx, r.entry.type)

theorem refs_types (d : Directive) (p : Nat) : (d.refs p).map (fun r => (r.idx, r.entry.type)) = refTypes d := by
  unfold refTypes Directive.refs
  cases d.width <;> cases d.prec <;> by_cases h : d.body.conv ∈ consuming <;> simp [h]

theorem refsFrom_types : ∀ (items : List Item) (k : Nat),
    (refsFrom k items).map (fun r => (r.idx, r.entry.type)) = (dirs items).flatMap refTypes
  | [], _ => rfl
  | .lit _ :: rest, k => by simp only [refsFrom, dirs]; exact refsFrom_types rest (k + 1)
  | .dir d :: rest, k => by
    simp only [refsFrom, dirs, List.map_append, List.flatMap_cons, refs_types, refsFrom_types rest (k + 1)]

/-- (argument position, type) for a list of references: an explicit number, else the running count -/
def ptFrom : Nat → List (Option Nat × String) → List (Nat × String)
  | _, [] => []
  | k, (i, t) :: rest => (i.getD k, t) :: ptFrom (k + 1) rest

theorem positionsFrom_types : ∀ (rs : List Ref) (k : Nat),
    (positionsFrom k rs).map (fun p => (p.1, p.2.type)) = ptFrom k (rs.map fun r => (r.idx, r.entry.type))
  | [], _ => rfl
  | r :: rs, k => by
    simp only [positionsFrom, List.map_cons, ptFrom, positionsFrom_types rs (k + 1)]
    cases r.idx <;> rfl

/-- which argument is used at which type, in terms of the directives alone -/
theorem posType_iff_dirs (items : List Item) (j : Nat) (t : String) :
    PosType (positions (refs items)) j t ↔ (j, t) ∈ ptFrom 1 ((dirs items).flatMap refTypes) := by
  rw [← refsFrom_types items 0, ← positionsFrom_types]
  unfold PosType positions refs
  simp only [List.mem_map, Prod.mk.injEq]
  constructor
  · rintro ⟨e, he, rfl⟩; exact ⟨(j, e), he, rfl, rfl⟩
  · rintro ⟨p, hp, rfl, rfl⟩; exact ⟨p.2, hp, rfl⟩

/-- the same references with explicit numbers `k, k+1, …` -/
def enum : Nat → List (Option Nat × String) → List (Option Nat × String)
  | _, [] => []
  | k, (_, t) :: rest => (some k, t) :: enum (k + 1) rest

theorem enum_append : ∀ (a b : List (Option Nat × String)) (k : Nat), enum k (a ++ b) = enum k a ++ enum (k + a.length) b
  | [], b, k => by simp [enum]
  | (_, t) :: a, b, k => by
    simp only [List.cons_append, enum, List.length_cons, enum_append a b (k + 1)]
    congr 3; omega

/-- numbering unnumbered references changes no position -/
theorem ptFrom_enum : ∀ (l : List (Option Nat × String)) (k k' : Nat), (∀ x ∈ l, x.1 = none) → ptFrom k' (enum k l) = ptFrom k l
  | [], _, _, _ => rfl
  | (i, t) :: rest, k, k', h => by
    have hi : i = none := h (i, t) (by simp)
    subst hi
    simp only [enum, ptFrom, Option.getD_some, Option.getD_none]
    rw [ptFrom_enum rest (k + 1) (k' + 1) (fun x hx => h x (by simp [hx]))]

/-- explicitly numbered references: positions do not depend on the running count … -/
theorem ptFrom_numbered : ∀ (l : List (Option Nat × String)) (k : Nat), (∀ x ∈ l, x.1 ≠ none) →
    ptFrom k l = l.map fun x => (x.1.getD 0, x.2)
  | [], _, _ => rfl
  | (i, t) :: rest, k, h => by
    have hi : i ≠ none := h (i, t) (by simp)
    cases i with
    | none => exact absurd rfl hi
    | some v =>
      simp only [ptFrom, Option.getD_some, List.map_cons]
      rw [ptFrom_numbered rest (k + 1) (fun x hx => h x (by simp [hx]))]

theorem enum_numbered : ∀ (l : List (Option Nat × String)) (k : Nat), ∀ x ∈ enum k l, x.1 ≠ none
  | [], _, x, hx => by cases hx
  | (_, t) :: rest, k, x, hx => by
    simp only [enum, List.mem_cons] at hx
    rcases hx with rfl | hx
    · simp
    · exact enum_numbered rest (k + 1) x hx

/-! ## numbering the directives -/

/-- give every reference of the directive the explicit number it has as the `k`-th, `k+1`-th, … reference;
    returns the next free number -/
def numberDir (k : Nat) (d : Directive) : Directive × Nat :=
  let w : Width × Nat := match d.width with
    | .star _ => (.star (some (digitsOf k)), k + 1)
    | w => (w, k)
  let p : Prec × Nat := match d.prec with
    | .star _ => (.star (some (digitsOf w.2)), w.2 + 1)
    | p => (p, w.2)
  if d.body.conv ∈ consuming then ({ d with index := some (digitsOf p.2), width := w.1, prec := p.1 }, p.2 + 1)
  else ({ d with width := w.1, prec := p.1 }, p.2)

def numberDirs : Nat → List Directive → List Directive
  | _, [] => []
  | k, d :: ds => (numberDir k d).1 :: numberDirs (numberDir k d).2 ds

theorem numberDir_types (k : Nat) (d : Directive) :
    refTypes (numberDir k d).1 = enum k (refTypes d) ∧ (numberDir k d).2 = k + (refTypes d).length := by
  unfold refTypes numberDir Directive.refs
  cases hw : d.width <;> cases hp : d.prec <;> by_cases hc : d.body.conv ∈ consuming <;>
    simp [hc, enum, idxValue, decimal_digitsOf]

theorem numberDirs_types : ∀ (ds : List Directive) (k : Nat),
    (numberDirs k ds).flatMap refTypes = enum k (ds.flatMap refTypes)
  | [], _ => rfl
  | d :: ds, k => by
    simp only [numberDirs, List.flatMap_cons, enum_append, (numberDir_types k d).1]
    rw [numberDirs_types ds, (numberDir_types k d).2]

/-- **Numbering and permuting the directives changes no (argument, type) pair.**  `src`: every reference unnumbered;
    `dst`: any string whose directives are, in some order, the numbered directives of `src`. -/
theorem posType_numbered_perm {src dst : List Item} (hun : ∀ r ∈ refs src, r.idx = none)
    (hperm : (dirs dst).Perm (numberDirs 1 (dirs src))) (j : Nat) (t : String) :
    PosType (positions (refs src)) j t ↔ PosType (positions (refs dst)) j t := by
  rw [posType_iff_dirs, posType_iff_dirs]
  have hnone : ∀ x ∈ (dirs src).flatMap refTypes, x.1 = none := by
    intro x hx
    rw [← refsFrom_types src 0] at hx
    obtain ⟨r, hr, rfl⟩ := List.mem_map.1 hx
    exact hun r hr
  -- the source: positions are those of the numbered list
  rw [← ptFrom_enum _ 1 1 hnone, ← numberDirs_types]
  -- both sides: explicitly numbered, so positions are read off the references, in any order
  have hnum1 : ∀ x ∈ (numberDirs 1 (dirs src)).flatMap refTypes, x.1 ≠ none := by
    rw [numberDirs_types]; exact enum_numbered _ 1
  have hp : ((dirs dst).flatMap refTypes).Perm ((numberDirs 1 (dirs src)).flatMap refTypes) := hperm.flatMap_right _
  have hnum2 : ∀ x ∈ (dirs dst).flatMap refTypes, x.1 ≠ none := fun x hx => hnum1 x (hp.mem_iff.1 hx)
  rw [ptFrom_numbered _ 1 hnum1, ptFrom_numbered _ 1 hnum2]
  exact ((hp.map _).mem_iff).symm

end I18n.FmtCheck
