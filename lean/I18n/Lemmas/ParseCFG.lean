import I18n.Spec.PluralCFG
import I18n.Spec.PluralAmb
import I18n.Generated.PluralLR
/-! `Spec.Amb` (the hand transcription of plural.y's expression grammar) is the language of the productions dumped
    from the live rply parser, read as a plain context-free grammar. -/
namespace I18n.PluralParse
open I18n I18n.Spec

/-- the dumped productions, without the action names -/
def dumpedProductions : List (String × List String) := Generated.PluralLR.productions.map fun p => (p.1, p.2.1)

def prodList : List (String × List String) :=
    [("S'", ["start"]), ("exp", ["INT"]), ("exp", ["LPAR", "exp", "RPAR"]), ("exp", ["NOT", "exp"]), ("exp", ["VAR"]),
     ("exp", ["exp", "ADDSUB", "exp"]), ("exp", ["exp", "AND", "exp"]), ("exp", ["exp", "CMP", "exp"]),
     ("exp", ["exp", "EQ", "exp"]), ("exp", ["exp", "IF", "exp", "ELSE", "exp"]), ("exp", ["exp", "MULDIV", "exp"]),
     ("exp", ["exp", "OR", "exp"]), ("start", ["exp"])]

theorem dumped_eq : dumpedProductions = prodList := by decide

theorem _root_.I18n.Spec.Gen.append {ps a b ts1 ts2} (h1 : Gen ps a ts1) (h2 : Gen ps b ts2) : Gen ps (a ++ b) (ts1 ++ ts2) := by
  induction h1 with
  | nil => simpa using h2
  | term t _ ih => exact .term t ih
  | prod hm hr _ _ ih2 =>
    have := Gen.prod hm hr ih2
    simpa using this

theorem _root_.I18n.Spec.Gen.tok (ps) (t : Tok) : Gen ps [kindName t] [t] := .term t .nil

theorem binary_kind {t : Tok} (h : isBinary t = true) :
    kindName t = "OR" ∨ kindName t = "AND" ∨ kindName t = "EQ" ∨ kindName t = "CMP" ∨ kindName t = "ADDSUB" ∨ kindName t = "MULDIV" := by
  cases t <;> simp [isBinary, binInfo] at h
  case bool op => cases op <;> simp [kindName]
  case cmp op => cases op <;> simp [kindName]
  case bin op => cases op <;> simp [kindName]

theorem amb_gen {ts : List Tok} (h : Amb ts) : Gen dumpedProductions ["exp"] ts := by
  rw [dumped_eq]
  induction h with
  | var =>
    have := Gen.prod (ps := prodList) (lhs := "exp") (rhs := ["VAR"]) (syms := []) (by decide) (Gen.tok _ .var) .nil
    simpa using this
  | int n =>
    have := Gen.prod (ps := prodList) (lhs := "exp") (rhs := ["INT"]) (syms := []) (by decide) (Gen.tok _ (.int n)) .nil
    simpa using this
  | @paren ts _ ih =>
    have h3 := ((Gen.tok prodList .lpar).append ih).append (Gen.tok _ .rpar)
    have := Gen.prod (ps := prodList) (lhs := "exp") (rhs := ["LPAR", "exp", "RPAR"]) (syms := []) (by decide) h3 .nil
    simpa using this
  | @not ts _ ih =>
    have h2 := (Gen.tok prodList .not).append ih
    have := Gen.prod (ps := prodList) (lhs := "exp") (rhs := ["NOT", "exp"]) (syms := []) (by decide) h2 .nil
    simpa using this
  | @bin l r t ht _ _ ihl ihr =>
    have h3 := (ihl.append (Gen.tok _ t)).append ihr
    have hm : ("exp", ["exp", kindName t, "exp"]) ∈ prodList := by
      rcases binary_kind ht with h | h | h | h | h | h <;> rw [h] <;> decide
    have := Gen.prod (syms := []) hm h3 .nil
    simpa using this
  | @cond c a b _ _ _ ihc iha ihb =>
    have h5 := (((ihc.append (Gen.tok _ .qm)).append iha).append (Gen.tok _ .colon)).append ihb
    have := Gen.prod (ps := prodList) (lhs := "exp") (rhs := ["exp", "IF", "exp", "ELSE", "exp"]) (syms := []) (by decide) h5 .nil
    simpa using this

/-- what a symbol may derive -/
def SymOK (s : String) (ts : List Tok) : Prop :=
  if s = "exp" ∨ s = "start" ∨ s = "S'" then Amb ts else ∃ t, ts = [t] ∧ kindName t = s

def Shape : List String → List Tok → Prop
  | [], ts => ts = []
  | s :: syms, ts => ∃ t1 t2, ts = t1 ++ t2 ∧ SymOK s t1 ∧ Shape syms t2

theorem kindName_terminal (t : Tok) : ¬ (kindName t = "exp" ∨ kindName t = "start" ∨ kindName t = "S'") := by
  cases t with
  | bool op => cases op <;> simp [kindName]
  | cmp op => cases op <;> simp [kindName]
  | bin op => cases op <;> simp [kindName]
  | _ => simp [kindName]

theorem kindName_inv (t : Tok) :
    (kindName t = "IF" → t = .qm) ∧ (kindName t = "ELSE" → t = .colon) ∧ (kindName t = "NOT" → t = .not) ∧
    (kindName t = "LPAR" → t = .lpar) ∧ (kindName t = "RPAR" → t = .rpar) ∧ (kindName t = "VAR" → t = .var) ∧
    (kindName t = "INT" → ∃ n, t = .int n) ∧
    ((kindName t = "OR" ∨ kindName t = "AND" ∨ kindName t = "EQ" ∨ kindName t = "CMP" ∨ kindName t = "ADDSUB" ∨ kindName t = "MULDIV") →
      isBinary t = true) := by
  cases t with
  | bool op => cases op <;> simp [kindName, isBinary, binInfo]
  | cmp op => cases op <;> simp [kindName, isBinary, binInfo]
  | bin op => cases op <;> simp [kindName, isBinary, binInfo]
  | int n => simp [kindName]
  | _ => simp [kindName, isBinary, binInfo]

theorem SymOK_nt {s : String} (h : s = "exp" ∨ s = "start" ∨ s = "S'") {ts} : SymOK s ts ↔ Amb ts := by
  simp [SymOK, h]

theorem SymOK_t {s : String} (h : ¬ (s = "exp" ∨ s = "start" ∨ s = "S'")) {ts} : SymOK s ts ↔ ∃ t, ts = [t] ∧ kindName t = s := by
  simp only [SymOK, h, if_false]

theorem gen_shape {syms : List String} {ts : List Tok} (h : Gen dumpedProductions syms ts) : Shape syms ts := by
  induction h with
  | nil => rfl
  | term t _ ih => exact ⟨[t], _, rfl, (SymOK_t (kindName_terminal t)).2 ⟨t, rfl, rfl⟩, ih⟩
  | @prod lhs rhs syms ts1 ts2 hm _ _ ih1 ih2 =>
    refine ⟨ts1, ts2, rfl, ?_, ih2⟩
    rw [dumped_eq] at hm
    simp only [prodList, List.mem_cons, Prod.mk.injEq, List.not_mem_nil, or_false] at hm
    have bin3 : ∀ K, (K = "OR" ∨ K = "AND" ∨ K = "EQ" ∨ K = "CMP" ∨ K = "ADDSUB" ∨ K = "MULDIV") →
        Shape ["exp", K, "exp"] ts1 → Amb ts1 := by
      intro K hK hs
      have hKt : ¬ (K = "exp" ∨ K = "start" ∨ K = "S'") := by
        rcases hK with rfl | rfl | rfl | rfl | rfl | rfl <;> decide
      obtain ⟨a, _, rfl, ha, b, _, rfl, hb, c, _, rfl, hc, rfl⟩ := hs
      rw [SymOK_nt (.inl rfl)] at ha hc
      obtain ⟨t, rfl, ht⟩ := (SymOK_t hKt).1 hb
      have := Amb.bin t ((kindName_inv t).2.2.2.2.2.2.2 (by rw [ht]; exact hK)) ha hc
      simpa using this
    rcases hm with ⟨rfl, rfl⟩ | ⟨rfl, rfl⟩ | ⟨rfl, rfl⟩ | ⟨rfl, rfl⟩ | ⟨rfl, rfl⟩ | ⟨rfl, rfl⟩ | ⟨rfl, rfl⟩ | ⟨rfl, rfl⟩ |
      ⟨rfl, rfl⟩ | ⟨rfl, rfl⟩ | ⟨rfl, rfl⟩ | ⟨rfl, rfl⟩ | ⟨rfl, rfl⟩
    · -- S' → start
      rw [SymOK_nt (.inr (.inr rfl))]
      obtain ⟨a, _, rfl, ha, rfl⟩ := ih1
      rw [SymOK_nt (.inr (.inl rfl))] at ha
      simpa using ha
    · -- exp → INT
      rw [SymOK_nt (.inl rfl)]
      obtain ⟨a, _, rfl, ha, rfl⟩ := ih1
      obtain ⟨t, rfl, ht⟩ := (SymOK_t (by decide)).1 ha
      obtain ⟨n, rfl⟩ := (kindName_inv t).2.2.2.2.2.2.1 ht
      simpa using Amb.int n
    · -- exp → LPAR exp RPAR
      rw [SymOK_nt (.inl rfl)]
      obtain ⟨a, _, rfl, ha, b, _, rfl, hb, c, _, rfl, hc, rfl⟩ := ih1
      obtain ⟨t, rfl, ht⟩ := (SymOK_t (by decide)).1 ha
      obtain ⟨t', rfl, ht'⟩ := (SymOK_t (by decide)).1 hc
      rw [SymOK_nt (.inl rfl)] at hb
      have h1 := (kindName_inv t).2.2.2.1 ht
      have h2 := (kindName_inv t').2.2.2.2.1 ht'
      subst h1; subst h2
      simpa using Amb.paren hb
    · -- exp → NOT exp
      rw [SymOK_nt (.inl rfl)]
      obtain ⟨a, _, rfl, ha, b, _, rfl, hb, rfl⟩ := ih1
      obtain ⟨t, rfl, ht⟩ := (SymOK_t (by decide)).1 ha
      rw [SymOK_nt (.inl rfl)] at hb
      have h1 := (kindName_inv t).2.2.1 ht
      subst h1
      simpa using Amb.not hb
    · -- exp → VAR
      rw [SymOK_nt (.inl rfl)]
      obtain ⟨a, _, rfl, ha, rfl⟩ := ih1
      obtain ⟨t, rfl, ht⟩ := (SymOK_t (by decide)).1 ha
      have h1 := (kindName_inv t).2.2.2.2.2.1 ht
      subst h1
      simpa using Amb.var
    · rw [SymOK_nt (.inl rfl)]; exact bin3 _ (by simp) ih1
    · rw [SymOK_nt (.inl rfl)]; exact bin3 _ (by simp) ih1
    · rw [SymOK_nt (.inl rfl)]; exact bin3 _ (by simp) ih1
    · rw [SymOK_nt (.inl rfl)]; exact bin3 _ (by simp) ih1
    · -- exp → exp IF exp ELSE exp
      rw [SymOK_nt (.inl rfl)]
      obtain ⟨a, _, rfl, ha, b, _, rfl, hb, c, _, rfl, hc, d, _, rfl, hd, e, _, rfl, he, rfl⟩ := ih1
      rw [SymOK_nt (.inl rfl)] at ha hc he
      obtain ⟨t, rfl, ht⟩ := (SymOK_t (by decide)).1 hb
      obtain ⟨t', rfl, ht'⟩ := (SymOK_t (by decide)).1 hd
      have h1 := (kindName_inv t).1 ht
      have h2 := (kindName_inv t').2.1 ht'
      subst h1; subst h2
      simpa using Amb.cond ha hc he
    · rw [SymOK_nt (.inl rfl)]; exact bin3 _ (by simp) ih1
    · rw [SymOK_nt (.inl rfl)]; exact bin3 _ (by simp) ih1
    · -- start → exp
      rw [SymOK_nt (.inr (.inl rfl))]
      obtain ⟨a, _, rfl, ha, rfl⟩ := ih1
      rw [SymOK_nt (.inl rfl)] at ha
      simpa using ha

/-- **`Amb` is the language of the grammar the tool declares** (dumped productions, start symbol `start`). -/
theorem gen_iff_amb (ts : List Tok) : Gen dumpedProductions ["start"] ts ↔ Amb ts := by
  constructor
  · intro h
    obtain ⟨a, _, rfl, ha, rfl⟩ := gen_shape h
    rw [SymOK_nt (.inr (.inl rfl))] at ha
    simpa using ha
  · intro h
    have hm : ("start", ["exp"]) ∈ dumpedProductions := by rw [dumped_eq]; decide
    have := Gen.prod (syms := []) hm (amb_gen h) .nil
    simpa using this

end I18n.PluralParse
