import I18n.Generated.GettextHdr
import I18n.Lemmas.HdrPyKit
/-!
# `lib.gettext.parse_header` regenerated = `Hdr.parseHeader`

`I18n.Generated.GettextHdr` is rewritten by `tools/translate/gettexthdr2lean.py` from the current source on every run.
The proof never names a bound variable of the generated text.
-/
set_option linter.unusedSimpArgs false
namespace I18n.Hdr.Gen
open I18n I18n.Hdr I18n.Generated

/-- the lines after `if lines[-1] == '': lines.pop()` -/
theorem header_lines_step (s : Str) :
    (match PyKit.listGetInt (HdrPy.split '\n' s) (-1 : Int) with
     | .error e => (Except.error e : Except Py.Exc (List Str))
     | .ok last =>
       (show Except Py.Exc (List Str) from
         if decide (last = ([] : List Char)) then HdrPy.pop (HdrPy.split '\n' s) else .ok (HdrPy.split '\n' s)))
      = .ok (headerLines s) := by
  have hne := splitOn_ne_nil '\n' s
  rw [HdrPy.listGetInt_neg_one]
  unfold headerLines
  simp only [HdrPy.split]
  cases hl : (splitOn '\n' s).getLast? with
  | none => simp [List.getLast?_eq_none_iff] at hl; exact absurd hl hne
  | some last =>
    by_cases he : last = []
    · subst he
      simp [HdrPy.pop_of_ne_nil _ hne]
    · have : ¬ (some last = some ([] : Str)) := by simpa using he
      simp [he, this]

theorem parse_header_eq (s : Str) : GettextHdr.parse_header s = .ok (parseHeader s) := by
  unfold_generated_gettexthdr
  have h := header_lines_step s
  revert h
  cases PyKit.listGetInt (HdrPy.split '\n' s) (-1 : Int) with
  | error e => intro h; cases h
  | ok last =>
    intro h
    simp only at h ⊢
    rw [h]
    simp only []
    rw [HdrPy.forEach_yield parseLine]
    · simp [parseHeader]
    · intro line acc
      rw [HdrPy.split1_colon]
      rcases hsc : Hdr.splitColon line with ⟨k, _ | v⟩
      · simp [parseLine, hsc]
      · by_cases hv : isValidFieldName k = true <;> simp [parseLine, hsc, hv, PyKit.listGet]

end I18n.Hdr.Gen
