import I18n.Lemmas.MoBytes
/-! The MO parser model against `Spec.Encodes`: reads, entries, the loop, the whole parser. -/
namespace I18n.Mo
open I18n.Mo.Spec

/-! ### reading words -/

theorem read1_cases (be : Bool) (b : Bytes) (off : Nat) :
    (b.length < off + 4 ∧ read1 be b off = .error (.syntax .truncated)) ∨
    (∃ w, WordAt be b off w ∧ read1 be b off = .ok w) := by
  by_cases h : off + 4 * 1 > b.length
  · left; exact ⟨by omega, by simp only [read1, readInts, h, if_true]⟩
  · right
    obtain ⟨hs, hl⟩ := Slice_of_slice (b := b) (off := off) (n := 4) (by omega)
    match hx : slice b off (off + 4), hl with
    | [a0, a1, a2, a3], _ =>
      refine ⟨word be a0 a1 a2 a3, ⟨word_lt _ _ _ _ _, ?_⟩, ?_⟩
      · rw [encodeWord_word, ← hx]; exact hs
      · simp only [read1, readInts, h, if_false, Nat.mul_one, hx, unpack]

theorem read2_cases (be : Bool) (b : Bytes) (off : Nat) :
    (b.length < off + 8 ∧ read2 be b off = .error (.syntax .truncated)) ∨
    (∃ v w, WordAt be b off v ∧ WordAt be b (off + 4) w ∧ read2 be b off = .ok (v, w)) := by
  by_cases h : off + 4 * 2 > b.length
  · left; exact ⟨by omega, by simp only [read2, readInts, h, if_true]⟩
  · right
    obtain ⟨hs, hl⟩ := Slice_of_slice (b := b) (off := off) (n := 8) (by omega)
    match hx : slice b off (off + 8), hl with
    | [a0, a1, a2, a3, c0, c1, c2, c3], _ =>
      rw [hx] at hs
      have hs' : Slice b off ([a0, a1, a2, a3] ++ [c0, c1, c2, c3]) := hs
      refine ⟨word be a0 a1 a2 a3, word be c0 c1 c2 c3, ⟨word_lt _ _ _ _ _, ?_⟩, ⟨word_lt _ _ _ _ _, ?_⟩, ?_⟩
      · rw [encodeWord_word]; exact hs'.left
      · rw [encodeWord_word]; exact hs'.right
      · simp only [read2, readInts, h, if_false, hx, unpack]

theorem read1_of_WordAt {be : Bool} {b : Bytes} {off w : Nat} (h : WordAt be b off w) : read1 be b off = .ok w := by
  rcases read1_cases be b off with ⟨hl, _⟩ | ⟨w', hw, hr⟩
  · have := h.2.length_le; rw [encodeWord_length] at this; omega
  · rw [hr, WordAt.unique hw h]

theorem read2_of_WordAt {be : Bool} {b : Bytes} {off v w : Nat} (h1 : WordAt be b off v) (h2 : WordAt be b (off + 4) w) :
    read2 be b off = .ok (v, w) := by
  rcases read2_cases be b off with ⟨hl, _⟩ | ⟨v', w', hv, hw, hr⟩
  · have := h2.2.length_le; rw [encodeWord_length] at this; omega
  · rw [hr, WordAt.unique hv h1, WordAt.unique hw h2]

/-! ### reading a string -/

theorem Spec.StringAt.unique {be : Bool} {b : Bytes} {desc : Nat} {s t : Bytes} (h1 : StringAt be b desc s) (h2 : StringAt be b desc t) :
    s = t := by
  obtain ⟨o1, l1, w1, s1⟩ := h1
  obtain ⟨o2, l2, w2, s2⟩ := h2
  have hl := WordAt.unique l1 l2
  have ho := WordAt.unique w1 w2
  subst ho
  exact Slice.unique s1.left s2.left hl

theorem readString_cases (be : Bool) (b : Bytes) (desc : Nat) (nt : SynErr) :
    (∃ s, StringAt be b desc s ∧ readString be b desc nt = .ok s) ∨
    (∃ e, readString be b desc nt = .error (.syntax e)) := by
  rcases read2_cases be b desc with ⟨_, hr⟩ | ⟨v, w, hv, hw, hr⟩
  · right; exact ⟨.truncated, by simp only [readString, hr]⟩
  · cases hg : b[w + v]? with
    | none => right; exact ⟨.truncated, by simp only [readString, hr, hg]⟩
    | some c =>
      by_cases hc : c = 0
      · left
        subst hc
        have hlt : w + v < b.length := by
          rcases Nat.lt_or_ge (w + v) b.length with h' | h'
          · exact h'
          · rw [List.getElem?_eq_none h'] at hg; cases hg
        obtain ⟨hs, hl⟩ := Slice_of_slice (b := b) (off := w) (n := v) (by omega)
        refine ⟨slice b w (w + v), ⟨w, by rw [hl]; exact hv, hw, ?_⟩, ?_⟩
        · apply Slice.append hs
          rw [hl]; exact Slice_singleton hg
        · simp only [readString, hr, hg]; simp
      · right; exact ⟨nt, by simp only [readString, hr, hg]; simp [hc]⟩

theorem readString_of_StringAt {be : Bool} {b : Bytes} {desc : Nat} {s : Bytes} (nt : SynErr) (h : StringAt be b desc s) :
    readString be b desc nt = .ok s := by
  obtain ⟨off, hl, ho, hs⟩ := h
  have h0 : b[off + s.length]? = some 0 := by
    have := Slice.getElem? hs s.length (by simp)
    rw [this]; simp
  simp only [readString, read2_of_WordAt hl ho, h0, slice_eq_of_Slice hs.left]
  simp

/-! ### one entry -/

theorem dec_cases (db : CodecDB) (enc b : Bytes) : (∃ t, dec db enc b = .ok t) ∨ dec db enc b = .error .decode := by
  unfold dec; cases db.decode enc b <;> simp

theorem decAll_cases (db : CodecDB) (enc : Bytes) (bs : List Bytes) :
    (∃ t, decAll db enc bs = .ok t) ∨ decAll db enc bs = .error .decode := by
  induction bs with
  | nil => left; exact ⟨_, rfl⟩
  | cons x xs ih =>
    rcases dec_cases db enc x with ⟨t, ht⟩ | ht
    · rcases ih with ⟨ts, hts⟩ | hts
      · left; exact ⟨t :: ts, by simp only [decAll, ht, hts]⟩
      · right; simp only [decAll, ht, hts]
    · right; simp only [decAll, ht]

theorem key0_no_nul {e : CatEntry} (h : e.WF) : (0 : UInt8) ∉ e.key0 := by
  unfold CatEntry.key0
  cases hc : e.ctxt with
  | none => exact h.msgid_no_nul
  | some c =>
    simp only
    intro m
    rcases List.mem_append.1 m with m | m
    · exact (h.ctxt_clean c hc).1 m
    · rcases List.mem_cons.1 m with m | m
      · cases m
      · exact h.msgid_no_nul m

theorem split_key {e : CatEntry} (h : e.WF) :
    split 0 2 e.key = match e.plural with | none => [e.key0] | some p => [e.key0, p] := by
  unfold CatEntry.key
  cases hp : e.plural with
  | none => exact split_no_sep 0 2 _ (key0_no_nul h)
  | some p =>
    simp only
    rw [split_append_sep 0 1 _ _ (key0_no_nul h), split_no_sep 0 1 p (h.plural_no_nul p hp)]

theorem split_key0 {e : CatEntry} (h : e.WF) :
    split 4 1 e.key0 = match e.ctxt with | none => [e.msgid] | some c => [c, e.msgid] := by
  unfold CatEntry.key0
  cases hc : e.ctxt with
  | none => exact split_no_sep 4 1 _ (h.msgid_no_eot hc)
  | some c =>
    simp only
    rw [split_append_sep 4 0 _ _ (h.ctxt_clean c hc).2, split_zero]

theorem splitAll_value {e : CatEntry} (h : e.WF) : splitAll 0 e.value = e.forms :=
  splitAll_join0 e.forms h.forms_ne h.forms_no_nul

theorem value_singular {e : CatEntry} (h : e.WF) (hp : e.plural = none) : e.forms = [e.value] := by
  have h1 := h.singular_one hp
  unfold CatEntry.value
  match hf : e.forms, h1 with
  | [f], _ => rfl

/-- the second half of `_parse_entry` on a well-formed entry: the decoding of the entry -/
theorem buildEntry_spec (db : CodecDB) (enc : Bytes) {e : CatEntry} (h : e.WF) :
    buildEntry db enc (split 0 2 e.key) e.value (splitAll 0 e.value) = decodeEntry db enc e := by
  rw [split_key h, splitAll_value h]
  have hk0 := split_key0 h
  have hne := h.forms_ne
  have hone := h.singular_one
  obtain ⟨ctxt, msgid, plural, forms⟩ := e
  cases plural with
  | none =>
    have h1 := hone rfl
    match forms, h1 with
    | [f], _ =>
      cases ctxt with
      | none =>
        simp only [buildEntry, List.headD, hk0, List.getLastD, List.dropLast, List.length_singleton, decodeEntry, decOpt,
          CatEntry.value, join0]
        rcases dec_cases db enc msgid with ⟨t, ht⟩ | ht <;> simp [ht] <;> rfl
      | some c =>
        simp only [buildEntry, List.headD, hk0, List.getLastD, List.dropLast, List.length_singleton, decodeEntry, decOpt,
          CatEntry.value, join0]
        rcases dec_cases db enc msgid with ⟨t, ht⟩ | ht <;> rcases dec_cases db enc c with ⟨u, hu⟩ | hu <;> simp [ht, hu] <;> rfl
  | some p =>
    have hl : ¬ forms.length < 1 := by
      cases forms with
      | nil => exact absurd rfl hne
      | cons _ _ => simp
    cases ctxt with
    | none =>
      simp only [buildEntry, List.headD, hk0, List.getLastD, List.dropLast, decodeEntry, decOpt, hl]
      rcases dec_cases db enc msgid with ⟨t, ht⟩ | ht <;> simp [ht, List.getD] <;> rfl
    | some c =>
      simp only [buildEntry, List.headD, hk0, List.getLastD, List.dropLast, decodeEntry, decOpt, hl]
      rcases dec_cases db enc msgid with ⟨t, ht⟩ | ht <;> rcases dec_cases db enc c with ⟨u, hu⟩ | hu <;> simp [ht, hu, List.getD] <;> rfl

/-- what `_parse_entry` computes on a well-formed entry, as a function of the parser state -/
def entryResult (db : CodecDB) (e : CatEntry) (st : St) (i : Nat) : Except Err (Entry × St) :=
  if i = 0 then
    match decodeEntry db (selectEncoding db st.encoding e.key0 e.value) e with
    | .error x => .error x
    | .ok d => .ok (d, ⟨some (selectEncoding db st.encoding e.key0 e.value), some e.key0⟩)
  else
    match st.last with
    | none => .error (.crash .typeError)
    | some last =>
      if bytesLt e.key0 last then .error (.syntax .notSorted)
      else match st.encoding with
        | none => .error (.crash .assertion)
        | some enc =>
          match decodeEntry db enc e with
          | .error x => .error x
          | .ok d => .ok (d, ⟨st.encoding, some e.key0⟩)

theorem split_key_facts {e : CatEntry} (h : e.WF) :
    (split 0 2 e.key).headD [] = e.key0 ∧ ¬ (split 0 2 e.key).length > 2 ∧
    ¬ ((split 0 2 e.key).length = 1 ∧ (splitAll 0 e.value).length > 1) := by
  rw [split_key h, splitAll_value h]
  cases hp : e.plural with
  | none => simp [h.singular_one hp]
  | some p => simp

theorem parseEntry_spec (db : CodecDB) {be : Bool} {b : Bytes} {ko vo : Nat} {e : CatEntry}
    (hk : StringAt be b ko e.key) (hv : StringAt be b vo e.value) (hwf : e.WF) (st : St) (i : Nat) :
    parseEntry db be b st i ko vo = entryResult db e st i := by
  obtain ⟨h1, h2, h3⟩ := split_key_facts hwf
  simp only [parseEntry, readString_of_StringAt _ hk, readString_of_StringAt _ hv, buildEntry_spec db _ hwf, h1, h2, h3,
    if_false, pyListEqBytes, entryResult]
  by_cases hi : i = 0
  · simp only [hi, if_true]
    cases decodeEntry db (selectEncoding db st.encoding e.key0 e.value) e <;> rfl
  · simp only [hi, if_false]
    cases st.last with
    | none => rfl
    | some last =>
      cases hb : bytesLt e.key0 last with
      | true => simp [hb]
      | false =>
        cases st.encoding with
        | none => simp [hb]
        | some enc => simp [hb]; rfl

/-! ### from raw key/value bytes back to a catalog entry -/

theorem not_mem_append_cons {x y : UInt8} {a r : Bytes} (h : x ∉ a ++ y :: r) : x ∉ a ∧ x ∉ r :=
  ⟨fun m => h (List.mem_append.2 (Or.inl m)), fun m => h (List.mem_append.2 (Or.inr (List.mem_cons_of_mem _ m)))⟩

theorem ctxt_split (k0 : Bytes) (h0 : (0 : UInt8) ∉ k0) :
    ∃ (ctxt : Option Bytes) (msgid : Bytes),
      (match ctxt with | none => msgid | some c => c ++ 4 :: msgid) = k0 ∧
      (∀ c, ctxt = some c → (0 : UInt8) ∉ c ∧ (4 : UInt8) ∉ c) ∧ (0 : UInt8) ∉ msgid ∧ (ctxt = none → (4 : UInt8) ∉ msgid) := by
  rcases split_cases 4 1 k0 with ⟨_, h | h⟩ | ⟨k', a, r, _, ha, hb, _⟩
  · omega
  · exact ⟨none, k0, rfl, by simp, h0, fun _ => h⟩
  · subst hb
    obtain ⟨h1, h2⟩ := not_mem_append_cons h0
    refine ⟨some a, r, rfl, ?_, h2, by simp⟩
    intro c hc; cases hc; exact ⟨h1, ha⟩

theorem rawEntry_exists (K V : Bytes) (h2 : ¬ (split 0 2 K).length > 2)
    (h3 : ¬ ((split 0 2 K).length = 1 ∧ (splitAll 0 V).length > 1)) :
    ∃ e : CatEntry, e.WF ∧ e.key = K ∧ e.value = V := by
  obtain ⟨v1, v2, v3⟩ := splitAll_spec V
  rcases split_cases 0 2 K with ⟨hs, h | h⟩ | ⟨k', a, r, hk, ha, hb, hs⟩
  · omega
  · -- singular
    obtain ⟨ctxt, msgid, e1, e2, e3, e4⟩ := ctxt_split K h
    have hV : splitAll 0 V = [V] := by
      match hf : splitAll 0 V, v1, v3 with
      | [f], _, v3 => simp [join0] at v3; rw [v3]
      | f :: g :: fs, _, _ => rw [hs, hf] at h3; simp at h3
    have hV0 : (0 : UInt8) ∉ V := v2 V (by rw [hV]; simp)
    refine ⟨⟨ctxt, msgid, none, [V]⟩, ⟨e2, e3, e4, by simp, ?_, by simp, by simp⟩, ?_, by simp [CatEntry.value, join0]⟩
    · intro f hf; simp at hf; subst hf; exact hV0
    · simp only [CatEntry.key, CatEntry.key0]; exact e1
  · -- plural
    have hk' : k' = 1 := by omega
    subst hk'
    rcases split_cases 0 1 r with ⟨hr, h | h⟩ | ⟨k'', a', r', hk'', _, _, hr⟩
    · omega
    · obtain ⟨ctxt, msgid, e1, e2, e3, e4⟩ := ctxt_split a ha
      refine ⟨⟨ctxt, msgid, some r, splitAll 0 V⟩, ⟨e2, e3, e4, ?_, v2, v1, by simp⟩, ?_, v3⟩
      · intro p hp; cases hp; exact h
      · simp only [CatEntry.key, CatEntry.key0]; rw [hb, ← e1]; rfl
    · have : k'' = 0 := by omega
      subst this
      rw [hs, hr, split_zero] at h2
      simp at h2

/-- `_parse_entry` either raises the MO syntax error or it has just read the key and value of a well-formed
    entry (and then `parseEntry_spec` says what it does) -/
theorem parseEntry_cases (db : CodecDB) (be : Bool) (b : Bytes) (st : St) (i ko vo : Nat) :
    (∃ x, parseEntry db be b st i ko vo = .error (.syntax x)) ∨
    (∃ e : CatEntry, e.WF ∧ StringAt be b ko e.key ∧ StringAt be b vo e.value) := by
  rcases readString_cases be b ko .msgidNotTerminated with ⟨K, hK, hrK⟩ | ⟨x, hx⟩
  · by_cases h2 : (split 0 2 K).length > 2
    · left; exact ⟨.msgidNul, by simp only [parseEntry, hrK, h2, if_true]⟩
    · rcases readString_cases be b vo .msgstrNotTerminated with ⟨V, hV, hrV⟩ | ⟨x, hx⟩
      · by_cases h3 : (split 0 2 K).length = 1 ∧ (splitAll 0 V).length > 1
        · left; exact ⟨.msgstrNul, by simp only [parseEntry, hrK, hrV, h3, and_self, if_true]; simp⟩
        · right
          obtain ⟨e, hwf, ek, ev⟩ := rawEntry_exists K V h2 h3
          exact ⟨e, hwf, by rw [ek]; exact hK, by rw [ev]; exact hV⟩
      · left; exact ⟨x, by simp only [parseEntry, hrK, h2, if_false, hx]⟩
  · left; exact ⟨x, by simp only [parseEntry, hx]⟩

/-! ### the loop and the whole parser: completeness -/

theorem loop_spec (db : CodecDB) {be : Bool} {b : Bytes} {ko to : Nat} :
    ∀ (cat : List CatEntry) (i : Nat) (enc last : Bytes), i ≠ 0 →
      EntriesAt be b ko to i cat → (∀ e ∈ cat, e.WF) → Sorted (last :: cat.map CatEntry.key0) →
      loop db be b ko to cat.length i ⟨some enc, some last⟩ = decodeEntries db enc cat := by
  intro cat
  induction cat with
  | nil => intros; rfl
  | cons e es ih =>
    intro i enc last hi hE hwf hs
    obtain ⟨hk, hv, hrest⟩ := hE
    obtain ⟨hlt, hs'⟩ := hs
    have hb : bytesLt e.key0 last = false := by
      cases h : bytesLt e.key0 last with
      | false => rfl
      | true => exact absurd ((bytesLt_iff _ _).1 h) hlt
    simp only [List.length_cons, loop, parseEntry_spec db hk hv (hwf e (by simp)), entryResult, hi, if_false, hb,
      List.map_cons, decodeEntries]
    cases decodeEntry db enc e with
    | error x => rfl
    | ok d =>
      simp only [Bool.false_eq_true, if_false]
      rw [ih (i + 1) enc e.key0 (by omega) hrest (fun x hx => hwf x (List.mem_cons_of_mem _ hx)) hs']
      cases decodeEntries db enc es <;> rfl

theorem loop_spec0 (db : CodecDB) (given : Option Bytes) {be : Bool} {b : Bytes} {ko to : Nat} (cat : List CatEntry)
    (hE : EntriesAt be b ko to 0 cat) (hwf : ∀ e ∈ cat, e.WF) (hs : Sorted (cat.map CatEntry.key0)) :
    loop db be b ko to cat.length 0 ⟨given, none⟩ = decodeEntries db (charsetOf db given cat) cat := by
  cases cat with
  | nil => rfl
  | cons e es =>
    obtain ⟨hk, hv, hrest⟩ := hE
    simp only [List.length_cons, loop, parseEntry_spec db hk hv (hwf e (by simp)), entryResult, if_true,
      List.map_cons, decodeEntries, charsetOf]
    cases decodeEntry db (selectEncoding db given e.key0 e.value) e with
    | error x => rfl
    | ok d =>
      simp only []
      rw [loop_spec db es (0 + 1) _ e.key0 (by omega) hrest (fun x hx => hwf x (List.mem_cons_of_mem _ hx)) hs]
      cases decodeEntries db (selectEncoding db given e.key0 e.value) es <;> rfl

theorem magic_ne : leMagic ≠ beMagic := by decide

theorem slice_magic {b : Bytes} {be : Bool} (h : Slice b 0 (magicOf be)) : slice b 0 4 = magicOf be := by
  have := slice_zero_of_Slice h
  cases be <;> simpa [magicOf, leMagic, beMagic] using this

/-- **completeness**: a byte string that encodes `cat` is parsed to what `expected` says -/
theorem parse_complete (db : CodecDB) (given : Option Bytes) {b : Bytes} {cat : List CatEntry} {hidden : Bool}
    (h : Encodes b cat hidden) (hwf : ∀ e ∈ cat, e.WF) :
    parse db given b = expected db given cat hidden := by
  obtain ⟨be, major, minor, ko, to, hm, hrev, hmaj, hmin, hn, hh, hko, hto, hE, hs⟩ := h
  have hbody : parseBody db given b be = expected db given cat hidden := by
    have hd : (major * 65536 + minor) / 65536 = major := by omega
    have hmo : (major * 65536 + minor) % 65536 = minor := by omega
    have hm1 : ¬ major > 1 := by omega
    simp only [parseBody, read1_of_WordAt hrev, hd, hmo, hm1, if_false, read1_of_WordAt hn, read2_of_WordAt hko hto,
      loop_spec0 db given cat hE hwf hs, expected]
    unfold HiddenFlag at hh
    by_cases h1 : minor > 1
    · simp only [h1, if_true] at hh ⊢
      subst hh
      cases decodeEntries db (charsetOf db given cat) cat <;> rfl
    · by_cases h2 : minor = 1
      · subst h2
        simp only [h1, if_false, if_true] at hh ⊢
        obtain ⟨ns, hns, hh⟩ := hh
        subst hh
        simp only [read1_of_WordAt hns]
        cases decodeEntries db (charsetOf db given cat) cat <;> rfl
      · simp only [h1, h2, if_false] at hh ⊢
        subst hh
        cases decodeEntries db (charsetOf db given cat) cat <;> rfl
  have hsl := slice_magic hm
  cases be with
  | false => simp only [parse, hsl, magicOf, Bool.false_eq_true, if_false, if_true]; exact hbody
  | true =>
    simp only [parse, hsl, magicOf, if_true, (Ne.symm magic_ne), if_false]; exact hbody

/-! ### closedness: no Python partial operation of the source can fail -/

theorem decOpt_cases (db : CodecDB) (enc : Bytes) (o : Option Bytes) :
    (∃ t, decOpt db enc o = .ok t) ∨ decOpt db enc o = .error .decode := by
  cases o with
  | none => left; exact ⟨none, rfl⟩
  | some x =>
    rcases dec_cases db enc x with ⟨t, ht⟩ | ht
    · left; exact ⟨some t, by simp only [decOpt, ht]⟩
    · right; simp only [decOpt, ht]

theorem decodeEntry_cases (db : CodecDB) (enc : Bytes) (e : CatEntry) :
    (∃ d, decodeEntry db enc e = .ok d) ∨ decodeEntry db enc e = .error .decode := by
  obtain ⟨ctxt, msgid, plural, forms⟩ := e
  rcases decOpt_cases db enc ctxt with ⟨c, hc⟩ | hc
  · rcases dec_cases db enc msgid with ⟨m, hm⟩ | hm
    · cases plural with
      | none =>
        rcases dec_cases db enc (CatEntry.value ⟨ctxt, msgid, none, forms⟩) with ⟨v, hv⟩ | hv
        · left; exact ⟨⟨m, c, .singular v⟩, by simp only [decodeEntry, hc, hm, hv]⟩
        · right; simp only [decodeEntry, hc, hm, hv]
      | some p =>
        rcases dec_cases db enc p with ⟨q, hq⟩ | hq
        · rcases decAll_cases db enc forms with ⟨fs, hf⟩ | hf
          · left; exact ⟨⟨m, c, .plural q fs⟩, by simp only [decodeEntry, hc, hm, hq, hf]⟩
          · right; simp only [decodeEntry, hc, hm, hq, hf]
        · right; simp only [decodeEntry, hc, hm, hq]
    · right; simp only [decodeEntry, hc, hm]
  · right; simp only [decodeEntry, hc]

/-- the invariant of the loop: after the first entry both `self._encoding` and `self._last_msgid` are set -/
def St.Ready (st : St) (i : Nat) : Prop := i = 0 ∨ (∃ l, st.last = some l) ∧ (∃ enc, st.encoding = some enc)

theorem entryResult_closed (db : CodecDB) (e : CatEntry) (st : St) (i : Nat) (h : st.Ready i) :
    (∃ x, entryResult db e st i = .error (.syntax x)) ∨ entryResult db e st i = .error .decode ∨
    (∃ d st', entryResult db e st i = .ok (d, st') ∧ st'.Ready (i + 1) ∧ st'.last = some e.key0 ∧
      (∀ l, i ≠ 0 → st.last = some l → ¬ e.key0 < l)) := by
  by_cases hi : i = 0
  · simp only [entryResult, hi, if_true]
    rcases decodeEntry_cases db (selectEncoding db st.encoding e.key0 e.value) e with ⟨d, hd⟩ | hd
    · right; right
      exact ⟨d, ⟨some (selectEncoding db st.encoding e.key0 e.value), some e.key0⟩, by simp only [hd], Or.inr ⟨⟨_, rfl⟩, ⟨_, rfl⟩⟩, rfl, fun _ h => absurd rfl h⟩
    · right; left; simp only [hd]
  · rcases h with h | ⟨⟨l, hl⟩, ⟨enc, henc⟩⟩
    · exact absurd h hi
    · simp only [entryResult, hi, if_false, hl, henc]
      cases hb : bytesLt e.key0 l with
      | true => left; exact ⟨.notSorted, by simp⟩
      | false =>
        have hnlt : ¬ e.key0 < l := fun hlt => by rw [(bytesLt_iff _ _).2 hlt] at hb; cases hb
        rcases decodeEntry_cases db enc e with ⟨d, hd⟩ | hd
        · right; right
          refine ⟨d, ⟨some enc, some e.key0⟩, by simp [hd], Or.inr ⟨⟨_, rfl⟩, ⟨_, rfl⟩⟩, rfl, ?_⟩
          intro l' _ hl'; cases hl'; exact hnlt
        · right; left; simp [hd]

/-! ### the loop and the whole parser: soundness and closedness -/

theorem loop_sound (db : CodecDB) {be : Bool} {b : Bytes} {ko to : Nat} :
    ∀ (n i : Nat) (st : St), st.Ready i →
      (∃ x, loop db be b ko to n i st = .error (.syntax x)) ∨ loop db be b ko to n i st = .error .decode ∨
      (∃ es cat, loop db be b ko to n i st = .ok es ∧ cat.length = n ∧ EntriesAt be b ko to i cat ∧ (∀ e ∈ cat, e.WF) ∧
        (i = 0 → Sorted (cat.map CatEntry.key0)) ∧
        (∀ l, i ≠ 0 → st.last = some l → Sorted (l :: cat.map CatEntry.key0))) := by
  intro n
  induction n with
  | zero =>
    intro i st _
    right; right
    exact ⟨[], [], rfl, rfl, trivial, by simp, fun _ => trivial, fun _ _ _ => trivial⟩
  | succ n ih =>
    intro i st hst
    rcases parseEntry_cases db be b st i (ko + 8 * i) (to + 8 * i) with ⟨x, hx⟩ | ⟨e, hwf, hk, hv⟩
    · left; exact ⟨x, by simp only [loop, hx]⟩
    · have hspec := parseEntry_spec db hk hv hwf st i
      rcases entryResult_closed db e st i hst with ⟨x, hx⟩ | hx | ⟨d, st', hok, hready, hlast, hsorted⟩
      · left; exact ⟨x, by simp only [loop, hspec, hx]⟩
      · right; left; simp only [loop, hspec, hx]
      · rcases ih (i + 1) st' hready with ⟨x, hx⟩ | hx | ⟨es, cat, hes, hlen, hE, hwfs, _, hs⟩
        · left; exact ⟨x, by simp only [loop, hspec, hok, hx]⟩
        · right; left; simp only [loop, hspec, hok, hx]
        · right; right
          have hs' := hs e.key0 (by omega) hlast
          refine ⟨d :: es, e :: cat, by simp only [loop, hspec, hok, hes], by simp [hlen], ⟨hk, hv, hE⟩, ?_, ?_, ?_⟩
          · intro x hx; rcases List.mem_cons.1 hx with hx | hx
            · subst hx; exact hwf
            · exact hwfs x hx
          · intro _; exact hs'
          · intro l hi hl; exact ⟨hsorted l hi hl, hs'⟩

def hiddenStep (be : Bool) (b : Bytes) (minor : Nat) : Except Err Bool :=
  if minor > 1 then .ok true
  else if minor = 1 then
    match read1 be b 36 with
    | .error e => .error e
    | .ok nSysdep => .ok (decide (nSysdep > 0))
  else .ok false

theorem hiddenStep_cases (be : Bool) (b : Bytes) (minor : Nat) :
    hiddenStep be b minor = .error (.syntax .truncated) ∨
    ∃ h, hiddenStep be b minor = .ok h ∧ HiddenFlag be b minor h := by
  unfold hiddenStep HiddenFlag
  by_cases h1 : minor > 1
  · right; exact ⟨true, by simp [h1]⟩
  · by_cases h2 : minor = 1
    · subst h2
      rcases read1_cases be b 36 with ⟨_, hr⟩ | ⟨ns, hw, hr⟩
      · left; simp [hr]
      · right; exact ⟨decide (ns > 0), by simp [hr], ⟨ns, hw, rfl⟩⟩
    · right; exact ⟨false, by simp [h1, h2]⟩

theorem parseBody_eq (db : CodecDB) (given : Option Bytes) (b : Bytes) (be : Bool) :
    parseBody db given b be =
      match read1 be b 4 with
      | .error e => .error e
      | .ok revision =>
        if revision / 65536 > 1 then .error (.syntax (.major (revision / 65536))) else
        match read1 be b 8 with
        | .error e => .error e
        | .ok nStrings =>
          match hiddenStep be b (revision % 65536) with
          | .error e => .error e
          | .ok possibleHiddenStrings =>
            match read2 be b 12 with
            | .error e => .error e
            | .ok (msgidOffset, msgstrOffset) =>
              match loop db be b msgidOffset msgstrOffset nStrings 0 ⟨given, none⟩ with
              | .error e => .error e
              | .ok entries => .ok ⟨entries, possibleHiddenStrings⟩ := by
  rfl

theorem parseBody_cases (db : CodecDB) (given : Option Bytes) (b : Bytes) (be : Bool) (hm : Slice b 0 (magicOf be)) :
    (∃ x, parseBody db given b be = .error (.syntax x)) ∨ parseBody db given b be = .error .decode ∨
    (∃ f cat, parseBody db given b be = .ok f ∧ Encodes b cat f.possibleHiddenStrings ∧ ∀ e ∈ cat, e.WF) := by
  rw [parseBody_eq]
  rcases read1_cases be b 4 with ⟨_, hr⟩ | ⟨rev, hrev, hr⟩
  · left; exact ⟨.truncated, by simp only [hr]⟩
  by_cases hmaj : rev / 65536 > 1
  · left; exact ⟨.major (rev / 65536), by simp only [hr, hmaj, if_true]⟩
  rcases read1_cases be b 8 with ⟨_, hr8⟩ | ⟨n, hn, hr8⟩
  · left; exact ⟨.truncated, by simp only [hr, hmaj, if_false, hr8]⟩
  rcases hiddenStep_cases be b (rev % 65536) with hh | ⟨hid, hh, hflag⟩
  · left; exact ⟨.truncated, by simp only [hr, hmaj, if_false, hr8, hh]⟩
  rcases read2_cases be b 12 with ⟨_, hr12⟩ | ⟨ko, to, hko, hto, hr12⟩
  · left; exact ⟨.truncated, by simp only [hr, hmaj, if_false, hr8, hh, hr12]⟩
  rcases loop_sound db (be := be) (b := b) (ko := ko) (to := to) n 0 ⟨given, none⟩ (Or.inl rfl) with
    ⟨x, hx⟩ | hx | ⟨es, cat, hes, hlen, hE, hwf, hs, _⟩
  · left; exact ⟨x, by simp only [hr, hmaj, if_false, hr8, hh, hr12, hx]⟩
  · right; left; simp only [hr, hmaj, if_false, hr8, hh, hr12, hx]
  · right; right
    refine ⟨⟨es, hid⟩, cat, by simp only [hr, hmaj, if_false, hr8, hh, hr12, hes], ?_, hwf⟩
    refine ⟨be, rev / 65536, rev % 65536, ko, to, hm, ?_, by omega, by omega, by rw [hlen]; exact hn, hflag, hko, hto, hE, hs rfl⟩
    have : rev / 65536 * 65536 + rev % 65536 = rev := by omega
    rw [this]; exact hrev

theorem Slice_magic_of_slice {b m : Bytes} (h : slice b 0 4 = m) : Slice b 0 m := by
  rw [Slice.prefix_iff, ← h]
  simp only [slice, List.drop_zero]
  exact List.take_prefix 4 b

/-- **soundness and closedness**: every outcome of the parser -/
theorem parse_cases (db : CodecDB) (given : Option Bytes) (b : Bytes) :
    (∃ x, parse db given b = .error (.syntax x)) ∨ parse db given b = .error .decode ∨
    (∃ f cat, parse db given b = .ok f ∧ Encodes b cat f.possibleHiddenStrings ∧ ∀ e ∈ cat, e.WF) := by
  unfold parse
  by_cases h1 : slice b 0 4 = leMagic
  · simp only [h1, if_true]
    exact parseBody_cases db given b false (Slice_magic_of_slice h1)
  · by_cases h2 : slice b 0 4 = beMagic
    · simp only [h2, (Ne.symm magic_ne), if_false, if_true]
      exact parseBody_cases db given b true (Slice_magic_of_slice h2)
    · left; exact ⟨.magic, by simp only [h1, h2, if_false]⟩

/-! ### a total codec never yields a decode error (the checker's second attempt with ISO-8859-1) -/

theorem dec_total {db : CodecDB} {enc : Bytes} (ht : ∀ bs, (db.decode enc bs).isSome) (x : Bytes) :
    dec db enc x ≠ .error .decode := by
  unfold dec
  have := ht x
  cases h : db.decode enc x with
  | none => rw [h] at this; cases this
  | some t => simp

theorem decAll_total {db : CodecDB} {enc : Bytes} (ht : ∀ bs, (db.decode enc bs).isSome) (xs : List Bytes) :
    decAll db enc xs ≠ .error .decode := by
  induction xs with
  | nil => simp [decAll]
  | cons x xs ih =>
    rcases dec_cases db enc x with ⟨t, h⟩ | h
    · rcases decAll_cases db enc xs with ⟨ts, h'⟩ | h'
      · simp [decAll, h, h']
      · exact absurd h' ih
    · exact absurd h (dec_total ht x)

theorem decodeEntry_total {db : CodecDB} {enc : Bytes} (ht : ∀ bs, (db.decode enc bs).isSome) (e : CatEntry) :
    decodeEntry db enc e ≠ .error .decode := by
  obtain ⟨ctxt, msgid, plural, forms⟩ := e
  have hc : decOpt db enc ctxt ≠ .error .decode := by
    cases ctxt with
    | none => simp [decOpt]
    | some c =>
      rcases dec_cases db enc c with ⟨t, h⟩ | h
      · simp [decOpt, h]
      · exact absurd h (dec_total ht c)
  rcases decOpt_cases db enc ctxt with ⟨c, h1⟩ | h1
  · rcases dec_cases db enc msgid with ⟨m, h2⟩ | h2
    · cases plural with
      | none =>
        rcases dec_cases db enc (CatEntry.value ⟨ctxt, msgid, none, forms⟩) with ⟨v, h3⟩ | h3
        · simp [decodeEntry, h1, h2, h3]
        · exact absurd h3 (dec_total ht _)
      | some p =>
        rcases dec_cases db enc p with ⟨q, h3⟩ | h3
        · rcases decAll_cases db enc forms with ⟨fs, h4⟩ | h4
          · simp [decodeEntry, h1, h2, h3, h4]
          · exact absurd h4 (decAll_total ht _)
        · exact absurd h3 (dec_total ht _)
    · exact absurd h2 (dec_total ht _)
  · exact absurd h1 hc

theorem selectEncoding_given {db : CodecDB} {enc : Bytes} (hc : db.asciiCompatible enc = true) (k v : Bytes) :
    selectEncoding db (some enc) k v = enc := by
  simp [selectEncoding, hc]

theorem loop_no_decode (db : CodecDB) {enc : Bytes} (hc : db.asciiCompatible enc = true)
    (ht : ∀ bs, (db.decode enc bs).isSome) {be : Bool} {b : Bytes} {ko to : Nat} :
    ∀ (n i : Nat) (l : Option Bytes), loop db be b ko to n i ⟨some enc, l⟩ ≠ .error .decode := by
  intro n
  induction n with
  | zero => intro i l; simp [loop]
  | succ n ih =>
    intro i l
    rcases parseEntry_cases db be b ⟨some enc, l⟩ i (ko + 8 * i) (to + 8 * i) with ⟨x, hx⟩ | ⟨e, hwf, hk, hv⟩
    · simp [loop, hx]
    · have hspec := parseEntry_spec db hk hv hwf ⟨some enc, l⟩ i
      simp only [loop, hspec, entryResult, selectEncoding_given hc]
      by_cases hi : i = 0
      · simp only [hi, if_true]
        rcases decodeEntry_cases db enc e with ⟨d, hd⟩ | hd
        · simp only [hd]
          have := ih (0 + 1) (some e.key0)
          cases hl : loop db be b ko to n (0 + 1) ⟨some enc, some e.key0⟩ with
          | ok es => simp
          | error x => rw [hl] at this; simp; exact fun h => this (by rw [h])
        · exact absurd hd (decodeEntry_total ht _)
      · simp only [hi, if_false]
        cases l with
        | none => simp
        | some last =>
          simp only
          cases hb : bytesLt e.key0 last with
          | true => simp
          | false =>
            rcases decodeEntry_cases db enc e with ⟨d, hd⟩ | hd
            · simp only [hd, Bool.false_eq_true, if_false]
              have := ih (i + 1) (some e.key0)
              cases hl : loop db be b ko to n (i + 1) ⟨some enc, some e.key0⟩ with
              | ok es => simp
              | error x => rw [hl] at this; simp; exact fun h => this (by rw [h])
            · exact absurd hd (decodeEntry_total ht _)

theorem parse_no_decode (db : CodecDB) {enc : Bytes} (hc : db.asciiCompatible enc = true)
    (ht : ∀ bs, (db.decode enc bs).isSome) (b : Bytes) : parse db (some enc) b ≠ .error .decode := by
  have hbody : ∀ be, parseBody db (some enc) b be ≠ .error .decode := by
    intro be
    rw [parseBody_eq]
    rcases read1_cases be b 4 with ⟨_, hr⟩ | ⟨rev, _, hr⟩
    · simp [hr]
    by_cases hmaj : rev / 65536 > 1
    · simp [hr, hmaj]
    rcases read1_cases be b 8 with ⟨_, hr8⟩ | ⟨n, _, hr8⟩
    · simp [hr, hmaj, hr8]
    rcases hiddenStep_cases be b (rev % 65536) with hh | ⟨hid, hh, _⟩
    · simp [hr, hmaj, hr8, hh]
    rcases read2_cases be b 12 with ⟨_, hr12⟩ | ⟨ko, to, _, _, hr12⟩
    · simp [hr, hmaj, hr8, hh, hr12]
    have := loop_no_decode db hc ht (be := be) (b := b) (ko := ko) (to := to) n 0 none
    simp only [hr, hmaj, if_false, hr8, hh, hr12]
    cases hl : loop db be b ko to n 0 ⟨some enc, none⟩ with
    | ok es => simp
    | error x => rw [hl] at this; simp; exact fun h => this (by rw [h])
  unfold parse
  by_cases h1 : slice b 0 4 = leMagic
  · simp only [h1, if_true]; exact hbody false
  · by_cases h2 : slice b 0 4 = beMagic
    · simp only [h2, (Ne.symm magic_ne), if_false, if_true]; exact hbody true
    · simp [h1, h2]

/-! ### helpers for concrete witnesses and for reading `parse_sound` entry by entry -/

theorem WordAt_of_read1 {be : Bool} {b : Bytes} {off w : Nat} (h : read1 be b off = .ok w) : WordAt be b off w := by
  rcases read1_cases be b off with ⟨_, hr⟩ | ⟨w', hw, hr⟩
  · rw [hr] at h; cases h
  · rw [hr] at h; cases h; exact hw

theorem StringAt_of_readString {be : Bool} {b : Bytes} {desc : Nat} {s : Bytes} (nt : SynErr)
    (h : readString be b desc nt = .ok s) : StringAt be b desc s := by
  rcases readString_cases be b desc nt with ⟨s', hs, hr⟩ | ⟨x, hr⟩
  · rw [hr] at h; cases h; exact hs
  · rw [hr] at h; cases h

theorem decodeEntries_get (db : CodecDB) (cs : Bytes) :
    ∀ (l : List CatEntry) (ds : List Entry), decodeEntries db cs l = .ok ds →
      ds.length = l.length ∧ ∀ i (h1 : i < l.length) (h2 : i < ds.length), decodeEntry db cs l[i] = .ok ds[i] := by
  intro l
  induction l with
  | nil => intro ds h; simp [decodeEntries] at h; subst h; exact ⟨rfl, fun i h1 => by simp at h1⟩
  | cons e es ih =>
    intro ds h
    simp only [decodeEntries] at h
    cases hd : decodeEntry db cs e with
    | error x => rw [hd] at h; cases h
    | ok d =>
      rw [hd] at h
      cases hr : decodeEntries db cs es with
      | error x => rw [hr] at h; cases h
      | ok rest =>
        rw [hr] at h
        simp at h; subst h
        obtain ⟨hl, hi⟩ := ih rest hr
        refine ⟨by simp [hl], ?_⟩
        intro i h1 h2
        cases i with
        | zero => simpa using hd
        | succ i => simpa using hi i (by simpa using h1) (by simpa using h2)

end I18n.Mo
