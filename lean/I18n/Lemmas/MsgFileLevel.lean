import I18n.Lemmas.MsgTags
/-
File-level readings: "some entry gets the tag" in terms of the whole file.
-/
namespace I18n.Msg
open I18n.Tags (Str lit Extra)
open I18n.Spec.MessageRules

/-- if at least two elements satisfy `p`, there is a second one: a split with exactly one `p` before it -/
theorem exists_second {α : Type} (p : α → Bool) : ∀ (l : List α), (l.filter p).length ≥ 2 →
    ∃ pre e post, l = pre ++ e :: post ∧ p e = true ∧ (pre.filter p).length = 1
  | [], h => by simp at h
  | x :: rest, h => by
    by_cases hx : p x = true
    · -- find the first `p` in the rest
      have hr : (rest.filter p).length ≥ 1 := by simp [List.filter_cons, hx] at h; omega
      have : ∃ a e b, rest = a ++ e :: b ∧ p e = true ∧ a.filter p = [] := by
        clear h
        induction rest with
        | nil => simp at hr
        | cons y ys ih =>
          by_cases hy : p y = true
          · exact ⟨[], y, ys, rfl, hy, rfl⟩
          · have : ((ys.filter p).length ≥ 1) := by simpa [List.filter_cons, hy] using hr
            obtain ⟨a, e, b, h1, h2, h3⟩ := ih this
            exact ⟨y :: a, e, b, by simp [h1], h2, by simp [List.filter_cons, hy, h3]⟩
      obtain ⟨a, e, b, h1, h2, h3⟩ := this
      exact ⟨x :: a, e, b, by simp [h1], h2, by simp [List.filter_cons, hx, h3]⟩
    · have hr : (rest.filter p).length ≥ 2 := by simpa [List.filter_cons, hx] using h
      obtain ⟨pre, e, post, h1, h2, h3⟩ := exists_second p rest hr
      exact ⟨x :: pre, e, post, by simp [h1], h2, by simp [List.filter_cons, hx, h3]⟩

/-- FILE LEVEL: some entry of the file gets `duplicate-message-definition` ⇔ two non-obsolete, non-header entries of the file
    share msgid and msgctxt -/
theorem duplicate_reported_iff (env : Env) (ctx : Ctx) (file : List Entry) :
    (∃ pre e post, file = pre ++ e :: post ∧ has .duplicateMessageDefinition (entryTags env ctx pre e) = true) ↔
      ∃ a m₁ b m₂ c, file = a ++ m₁ :: b ++ m₂ :: c ∧ isMessage m₁ = true ∧ isMessage m₂ = true ∧
        m₁.msgid = m₂.msgid ∧ m₁.msgctxt = m₂.msgctxt := by
  have hdup : ∀ pre e, has .duplicateMessageDefinition (entryTags env ctx pre e) = true ↔
      isMessage e = true ∧ earlierSame pre e = 1 := by
    intro pre e
    unfold entryTags
    cases hm : isMessage e
    · simp
    · cases hf : fuzzy e <;> cases he : ctx.hasEncoding <;>
        simp [has_dispatch, has_markerTag, has_flagTags_false env.flag e .duplicateMessageDefinition (by decide),
          has_xmlTags env ctx e .duplicateMessageDefinition (by decide),
          has_unusualTags env pre e .duplicateMessageDefinition (by decide)]
  constructor
  · rintro ⟨pre, e, post, rfl, h⟩
    obtain ⟨hm, h1⟩ := (hdup pre e).mp h
    simp only [earlierSame] at h1
    have : ∃ m ∈ pre.filter (fun m => isMessage m && decide (key m = key e)), True := by
      match hl : pre.filter (fun m => isMessage m && decide (key m = key e)) with
      | [] => rw [hl] at h1; simp at h1
      | m :: _ => exact ⟨m, by simp, trivial⟩
    obtain ⟨m, hmem, -⟩ := this
    simp only [List.mem_filter, Bool.and_eq_true, decide_eq_true_eq, key, Prod.mk.injEq] at hmem
    obtain ⟨a, b, rfl⟩ := List.append_of_mem hmem.1
    exact ⟨a, m, b, e, post, by simp, hmem.2.1, hm, hmem.2.2.1, hmem.2.2.2⟩
  · rintro ⟨a, m₁, b, m₂, c, rfl, h1, h2, h3, h4⟩
    have hk : key m₁ = key m₂ := by simp [key, h3, h4]
    have hlen : ((a ++ m₁ :: b ++ m₂ :: c).filter fun m => isMessage m && decide (key m = key m₂)).length ≥ 2 := by
      simp [List.filter_append, List.filter_cons, h1, h2, hk]; omega
    obtain ⟨pre, e, post, hsplit, hp, hone⟩ := exists_second _ _ hlen
    simp only [Bool.and_eq_true, decide_eq_true_eq] at hp
    refine ⟨pre, e, post, hsplit, (hdup pre e).mpr ⟨hp.1, ?_⟩⟩
    simp only [earlierSame, hp.2]
    exact hone

end I18n.Msg
