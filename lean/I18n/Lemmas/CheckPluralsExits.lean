import I18n.Lemmas.CheckPluralsUnusual
namespace I18n.CheckPlurals
open I18n I18n.Py I18n.Plural I18n.PluralParse I18n.Spec.PluralForms

/-! ## the other exits of the method, and the inconsistent-number tag -/

/-- more than one distinct Plural-Forms value: only the duplicate tag, nothing is analysed -/
theorem report_many (inp : Input) (hv : (headerValues inp).length > 1) :
    checkPlurals inp = .ok ⟨[⟨"duplicate-header-field-plural-forms", []⟩], none⟩ := by
  unfold checkPlurals
  have hdup : inp.pluralForms.length > 1 := by
    by_cases h : inp.pluralForms.length > 1
    · exact h
    · simp only [headerValues, h, ↓reduceIte] at hv
  have hv' : (sortedSet inp.pluralForms).length > 1 := by
    simpa [headerValues, hdup] using hv
  simp only [↓reduceIte, hdup, decide_true, hv']

/-- no Plural-Forms field: a tag only if the catalog has plural messages (which one depends on whether any is translated) -/
theorem report_none (inp : Input) (hv : headerValues inp = []) :
    checkPlurals inp = .ok ⟨tags0Of inp ++
      (if hasPlurals inp then
        [⟨if (expectedOf inp).isEmpty then "no-plural-forms-header-field" else "no-required-plural-forms-header-field", [hintOf inp]⟩]
       else []), none⟩ := by
  unfold checkPlurals
  have hv' : (if decide (inp.pluralForms.length > 1) = true then sortedSet inp.pluralForms else inp.pluralForms) = [] := by
    simpa [headerValues] using hv
  simp only [hv', List.length_nil, Nat.not_lt_zero, ↓reduceIte, List.head?_nil]
  simp only [tags0Of, dupTags, inconsistentTags, hasPlurals, expectedOf, decide_eq_true_eq]
  by_cases hp : (scanMsgs inp.msgs false []).1 = true
  · by_cases he : (scanMsgs inp.msgs false []).2.isEmpty = true
    · simp [hp, he]
    · simp [hp, he]
  · simp [hp]

/-- a template: the value is not analysed -/
theorem report_template (inp : Input) (pf : List Char) (hv : headerValues inp = [pf]) (ht : inp.isTemplate = true) :
    checkPlurals inp = .ok ⟨tags0Of inp, none⟩ := by
  unfold checkPlurals
  have hv' : (if decide (inp.pluralForms.length > 1) = true then sortedSet inp.pluralForms else inp.pluralForms) = [pf] := by
    simpa [headerValues] using hv
  simp only [hv', ht, List.length_singleton, List.head?_cons, Nat.lt_irrefl, ↓reduceIte]
  simp only [tags0Of, dupTags, inconsistentTags, expectedOf, decide_eq_true_eq]
  rfl

theorem inconsistentTags_ne_nil (inp : Input) :
    inconsistentTags (expectedOf inp) ≠ [] ↔ ∃ a ∈ formCounts inp.msgs, ∃ b ∈ formCounts inp.msgs, a ≠ b := by
  have hspec := scanMsgs_spec inp.msgs false [] (by simp)
  have h1 : expectedOf inp = [] ↔ formCounts inp.msgs = [] := by simpa [expectedOf] using hspec.1
  have h2 := expected_single_iff inp
  unfold inconsistentTags
  constructor
  · intro hne
    have hlen : (expectedOf inp).length > 1 := by
      by_cases h : (expectedOf inp).length > 1
      · exact h
      · simp [h] at hne
    cases hfc : formCounts inp.msgs with
    | nil => rw [h1.2 hfc] at hlen; simp at hlen
    | cons a l =>
      -- not all equal to `a`, else `expected` would be a single pair
      by_cases hall : ∀ j ∈ formCounts inp.msgs, j = a
      · obtain ⟨x, hx⟩ := (h2 a).2 ⟨by rw [hfc]; simp, hall⟩
        rw [hx] at hlen; simp at hlen
      · have : ∃ j ∈ formCounts inp.msgs, j ≠ a := by
          by_cases hex : ∃ j ∈ formCounts inp.msgs, j ≠ a
          · exact hex
          · exfalso; apply hall; intro j hj
            by_cases hja : j = a
            · exact hja
            · exact absurd ⟨j, hj, hja⟩ hex
        obtain ⟨j, hj, hja⟩ := this
        rw [hfc] at hj
        exact ⟨a, by simp, j, hj, fun h => hja h.symm⟩
  · rintro ⟨a, ha, b, hb, hab⟩
    have hlen : (expectedOf inp).length > 1 := by
      match hex : expectedOf inp with
      | [] => rw [h1.1 hex] at ha; cases ha
      | [(k, x)] =>
        have := (h2 k).1 ⟨x, hex⟩
        exact absurd ((this.2 a ha).trans (this.2 b hb).symm) hab
      | _ :: _ :: _ => simp
    simp [hlen]

/-- **`inconsistent-number-of-plural-forms`** is emitted iff two translated, non-obsolete plural messages have different
    numbers of msgstr[] forms (whether or not the header value parses). -/
theorem inconsistent_tag_iff' (inp : Input) (pf : List Char) (out : Output) (hv : headerValues inp = [pf]) (ht : inp.isTemplate = false)
    (h : checkPlurals inp = .ok out) :
    (∃ t ∈ out.tags, t.name = "inconsistent-number-of-plural-forms") ↔
      ∃ a ∈ formCounts inp.msgs, ∃ b ∈ formCounts inp.msgs, a ≠ b := by
  rw [← inconsistentTags_ne_nil]
  have hdupname : ∀ t ∈ dupTags inp, t.name ≠ "inconsistent-number-of-plural-forms" := by
    intro t ht'; rw [name_dup ht']; decide
  have hin : ∀ t ∈ inconsistentTags (expectedOf inp), t ∈ out.tags := by
    intro t ht'
    have h0 : t ∈ tags0Of inp := List.mem_append.2 (Or.inr ht')
    cases hpf : parsePluralForms pf with
    | valueError => exact absurd hpf (no_valueError pf)
    | syntaxError =>
      rw [report_syntax inp pf out hv ht hpf h]
      exact List.mem_append.2 (Or.inl h0)
    | ok n e lj rj => exact parts_in_report inp pf out hv ht n e lj rj hpf h t (Or.inl h0)
  constructor
  · rintro ⟨t, htm, hn⟩
    have : t ∈ inconsistentTags (expectedOf inp) := by
      cases hpf : parsePluralForms pf with
      | valueError => exact absurd hpf (no_valueError pf)
      | syntaxError =>
        rw [report_syntax inp pf out hv ht hpf h] at htm
        simp only [List.mem_append, List.mem_singleton, tags0Of] at htm
        rcases htm with (hd | hi) | rfl
        · exact absurd hn (hdupname t hd)
        · exact hi
        · exfalso
          rcases name_syntaxTag (hasPlurals inp) pf (hintOf inp) with h' | h' <;> (rw [h'] at hn; revert hn; decide)
      | ok n e lj rj =>
        obtain ⟨lcs, st, fin, rs, mid, last, _, _, hfin, _, htags, _, hmid, hc, hs, _⟩ := report_ok inp pf out hv ht n e lj rj hpf h
        rw [htags] at htm
        simp only [List.mem_append, tags0Of] at htm
        rcases htm with ((((((hd | hi) | hj) | hnp) | hp) | hm) | hl) | hg
        · exact absurd hn (hdupname t hd)
        · exact hi
        · exfalso
          rcases mem_junkTags.1 hj with ⟨_, rfl⟩ | ⟨_, rfl⟩ <;> (dsimp only at hn; revert hn; decide)
        · exfalso; rw [name_npl hnp] at hn; revert hn; decide
        · exfalso; rw [mem_pickLc _ _ _ hp] at hn
          rcases name_unusualTag (hasPlurals inp) pf (hintOf inp) with h' | h' <;> (rw [h'] at hn; revert hn; decide)
        · exfalso; rw [hmid t hm] at hn
          rcases name_unusualTag (hasPlurals inp) pf (hintOf inp) with h' | h' <;> (rw [h'] at hn; revert hn; decide)
        · exfalso
          rcases hfin with rfl | rfl
          · rw [hc rfl] at hl; cases hl
          · obtain ⟨t', rfl, ht'⟩ := hs rfl
            simp only [List.mem_singleton] at hl
            subst hl
            rcases name_stop ht' with hc' | hc' <;> rcases hc' with h' | h' <;> (rw [h'] at hn; revert hn; decide)
        · exfalso
          rcases name_gap hg with h' | h' <;> (rw [h'] at hn; revert hn; decide)
    intro hnil; rw [hnil] at this; cases this
  · intro hne
    obtain ⟨t, htm⟩ := List.exists_mem_of_ne_nil _ hne
    exact ⟨t, hin t htm, name_inconsistent htm⟩

end I18n.CheckPlurals
