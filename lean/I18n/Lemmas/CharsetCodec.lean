import I18n.Model.Charset
import I18n.Spec.Charset
/-!
# C20: the charmap codecs — totality, error spans, round trip (for every table)
-/
namespace I18n.Charset
open I18n.Spec.Charset (InjectiveOnDefined ValidSpan)

/-! ## decoding -/

theorem decodeFrom_ok_length (table : List Nat) : ∀ (bs : List UInt8) (i : Nat) (cs : List Nat),
    charmapDecodeFrom table i bs = .ok cs → cs.length = bs.length := by
  intro bs
  induction bs with
  | nil => intro i cs h; simp [charmapDecodeFrom] at h; subst h; rfl
  | cons b bs ih =>
    intro i cs h
    simp only [charmapDecodeFrom] at h
    split at h
    · cases h
    · split at h
      · cases h
      · split at h
        · cases h
        · rename_i cs' hcs
          cases h
          simp [ih _ _ hcs]

theorem decodeFrom_error_span (table : List Nat) : ∀ (bs : List UInt8) (i s e : Nat),
    charmapDecodeFrom table i bs = .error (s, e) → i ≤ s ∧ e = s + 1 ∧ s < i + bs.length := by
  intro bs
  induction bs with
  | nil => intro i s e h; simp [charmapDecodeFrom] at h
  | cons b bs ih =>
    intro i s e h
    simp only [charmapDecodeFrom] at h
    split at h
    · cases h; simp
    · split at h
      · cases h; simp
      · split at h
        · rename_i err herr
          cases h
          have := ih _ _ _ herr
          simp only [List.length_cons]
          omega
        · cases h

/-! ## the encoding map -/

theorem lastIndexFrom_some (c : Nat) : ∀ (l : List Nat) (i j : Nat),
    lastIndexFrom c i l = some j → i ≤ j ∧ l[j - i]? = some c := by
  intro l
  induction l with
  | nil => intro i j h; simp [lastIndexFrom] at h
  | cons x xs ih =>
    intro i j h
    simp only [lastIndexFrom] at h
    split at h
    · rename_i j' hj'
      cases h
      have := ih _ _ hj'
      refine ⟨by omega, ?_⟩
      have e : j - i = (j - (i + 1)) + 1 := by omega
      rw [e, List.getElem?_cons_succ]
      exact this.2
    · split at h
      · cases h
        rename_i hx
        simp [hx]
      · cases h

theorem lastIndexFrom_exists (c : Nat) : ∀ (l : List Nat) (i k : Nat),
    l[k]? = some c → ∃ j, lastIndexFrom c i l = some j := by
  intro l
  induction l with
  | nil => intro i k h; simp at h
  | cons x xs ih =>
    intro i k h
    simp only [lastIndexFrom]
    cases hrec : lastIndexFrom c (i + 1) xs with
    | some j => exact ⟨j, rfl⟩
    | none =>
      cases k with
      | zero =>
        simp at h
        subst h
        exact ⟨i, by simp⟩
      | succ k =>
        rw [List.getElem?_cons_succ] at h
        obtain ⟨j, hj⟩ := ih (i + 1) k h
        rw [hrec] at hj
        cases hj

/-- on a table injective on its defined entries, a defined entry encodes back to its own byte -/
theorem encLookup_of_entry (table : List Nat) (hinj : InjectiveOnDefined table) (b : UInt8) (c : Nat)
    (hb : table[b.toNat]? = some c) (hc : c ≠ undefinedCp) : encLookup table c = some b := by
  unfold encLookup
  have hlt : b.toNat < 256 := b.toNat_lt
  have htake : (table.take 256)[b.toNat]? = some c := by
    rw [List.getElem?_take]; simp [hlt, hb]
  obtain ⟨j, hj⟩ := lastIndexFrom_exists c (table.take 256) 0 b.toNat htake
  have hj' := lastIndexFrom_some c _ _ _ hj
  have hjc : table[j]? = some c := by
    have := hj'.2
    simp only [Nat.sub_zero] at this
    rw [List.getElem?_take] at this
    split at this
    · exact this
    · cases this
  have : j = b.toNat := hinj j b.toNat c hjc hb hc
  have hne : ¬ (c = undefinedCp ∧ needDict table = false) := fun h => hc h.1
  simp only [hne, if_false, hj, Option.map_some]
  subst this
  simp

/-! ## encoding -/

theorem takeWhile_length_le {α : Type} (p : α → Bool) : ∀ l : List α, (l.takeWhile p).length ≤ l.length := by
  intro l
  induction l with
  | nil => simp
  | cons x xs ih =>
    simp only [List.takeWhile]
    split
    · simp only [List.length_cons]; omega
    · simp

theorem encodeFrom_ok_length (enc : Nat → Option UInt8) : ∀ (cs : List Nat) (i : Nat) (bs : List UInt8),
    charmapEncodeFrom enc i cs = .ok bs → bs.length = cs.length := by
  intro cs
  induction cs with
  | nil => intro i bs h; simp [charmapEncodeFrom] at h; subst h; rfl
  | cons c cs ih =>
    intro i bs h
    simp only [charmapEncodeFrom] at h
    split at h
    · cases h
    · split at h
      · cases h
      · rename_i bs' hbs
        cases h
        simp [ih _ _ hbs]

theorem encodeFrom_error_span (enc : Nat → Option UInt8) : ∀ (cs : List Nat) (i s e : Nat),
    charmapEncodeFrom enc i cs = .error (s, e) → i ≤ s ∧ s < e ∧ e ≤ i + cs.length := by
  intro cs
  induction cs with
  | nil => intro i s e h; simp [charmapEncodeFrom] at h
  | cons c cs ih =>
    intro i s e h
    simp only [charmapEncodeFrom] at h
    split at h
    · cases h
      have := takeWhile_length_le (fun c => (enc c).isNone) cs
      simp only [List.length_cons]
      omega
    · split at h
      · rename_i err herr
        cases h
        have := ih _ _ _ herr
        simp only [List.length_cons]
        omega
      · cases h

/-! ## round trip -/

theorem roundtrip_from (table : List Nat) (hinj : InjectiveOnDefined table) : ∀ (bs : List UInt8) (i j : Nat) (cs : List Nat),
    charmapDecodeFrom table i bs = .ok cs → charmapEncodeFrom (encLookup table) j cs = .ok bs := by
  intro bs
  induction bs with
  | nil => intro i j cs h; simp [charmapDecodeFrom] at h; subst h; rfl
  | cons b bs ih =>
    intro i j cs h
    simp only [charmapDecodeFrom] at h
    split at h
    · cases h
    · rename_i c hc
      split at h
      · cases h
      · rename_i hne
        split at h
        · cases h
        · rename_i cs' hcs
          cases h
          simp only [charmapEncodeFrom, encLookup_of_entry table hinj b c hc hne, ih _ (j + 1) _ hcs]

/-! ## a decidable test for injectivity on the defined entries -/

def injBool : List Nat → Bool
  | [] => true
  | x :: xs => (x == undefinedCp || !xs.contains x) && injBool xs

theorem injBool_sound : ∀ (l : List Nat), injBool l = true → InjectiveOnDefined l := by
  intro l
  induction l with
  | nil => intro _ i j c hi; simp at hi
  | cons x xs ih =>
    intro h i j c hi hj hc
    simp only [injBool, Bool.and_eq_true, Bool.or_eq_true, beq_iff_eq, Bool.not_eq_true'] at h
    obtain ⟨hx, hxs⟩ := h
    have hmem : ∀ k : Nat, xs[k]? = some c → x = c → False := by
      intro k hk hxc
      subst hxc
      have : x ∈ xs := List.mem_of_getElem? hk
      rcases hx with hx | hx
      · exact hc hx
      · have : xs.contains x = true := by simpa using this
        rw [this] at hx; cases hx
    cases i with
    | zero =>
      cases j with
      | zero => rfl
      | succ j =>
        simp at hi
        rw [List.getElem?_cons_succ] at hj
        exact (hmem j hj hi).elim
    | succ i =>
      cases j with
      | zero =>
        simp at hj
        rw [List.getElem?_cons_succ] at hi
        exact (hmem i hi hj).elim
      | succ j =>
        rw [List.getElem?_cons_succ] at hi hj
        have := ih hxs i j c hi hj hc
        omega

/-! ## the statements, for every table -/

/-- decoding is total: text of the same length, or an error whose span is one byte inside the input -/
theorem charmapDecode_total (table : List Nat) (bs : List UInt8) :
    (∃ cs, charmapDecode table bs = .ok cs ∧ cs.length = bs.length) ∨
    (∃ s, charmapDecode table bs = .error (s, s + 1) ∧ ValidSpan bs.length (s, s + 1)) := by
  unfold charmapDecode
  cases h : charmapDecodeFrom table 0 bs with
  | ok cs => exact .inl ⟨cs, rfl, decodeFrom_ok_length table bs 0 cs h⟩
  | error e =>
    obtain ⟨s, e⟩ := e
    have := decodeFrom_error_span table bs 0 s e h
    obtain ⟨_, he, hs⟩ := this
    subst he
    exact .inr ⟨s, rfl, by unfold ValidSpan; simp; omega⟩

/-- encoding is total: bytes of the same length, or an error whose span is non-empty and inside the input -/
theorem charmapEncode_total (table : List Nat) (cs : List Nat) :
    (∃ bs, charmapEncode table cs = .ok bs ∧ bs.length = cs.length) ∨
    (∃ span, charmapEncode table cs = .error span ∧ ValidSpan cs.length span) := by
  unfold charmapEncode
  cases h : charmapEncodeFrom (encLookup table) 0 cs with
  | ok bs => exact .inl ⟨bs, rfl, encodeFrom_ok_length _ cs 0 bs h⟩
  | error e =>
    obtain ⟨s, e⟩ := e
    have := encodeFrom_error_span _ cs 0 s e h
    exact .inr ⟨(s, e), rfl, by unfold ValidSpan; simp; omega⟩

/-- **round trip**: on a table injective on its defined entries, whatever decodes encodes back to the same bytes -/
theorem charmap_roundtrip (table : List Nat) (hinj : InjectiveOnDefined table) (bs : List UInt8) (cs : List Nat)
    (h : charmapDecode table bs = .ok cs) : charmapEncode table cs = .ok bs :=
  roundtrip_from table hinj bs 0 0 cs h

/-- a complete table (256 entries, none undefined) decodes every byte string -/
theorem decodeFrom_complete (table : List Nat) (hlen : table.length = 256) (hdef : ∀ c ∈ table, c ≠ undefinedCp) :
    ∀ (bs : List UInt8) (i : Nat), ∃ cs, charmapDecodeFrom table i bs = .ok cs := by
  intro bs
  induction bs with
  | nil => intro i; exact ⟨[], rfl⟩
  | cons b bs ih =>
    intro i
    have hlt : b.toNat < table.length := by rw [hlen]; exact b.toNat_lt
    obtain ⟨cs, hcs⟩ := ih (i + 1)
    have hget : table[b.toNat]? = some table[b.toNat] := List.getElem?_eq_getElem hlt
    have hne : table[b.toNat] ≠ undefinedCp := hdef _ (List.getElem_mem hlt)
    exact ⟨table[b.toNat] :: cs, by simp only [charmapDecodeFrom, hget, hne, if_false, hcs]⟩

end I18n.Charset
