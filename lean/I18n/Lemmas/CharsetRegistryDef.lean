import I18n.Lemmas.CharsetTables
import I18n.Lemmas.CharsetCheck
/-! # C20: the registry of the running interpreter with the tool installed, as the model computes it -/
namespace I18n.Charset.Tables
open I18n.Charset I18n.Generated.Charset

def registry (name : Name) : Option Name :=
  registryLookup pyAliases pyModules unmangle portableEncodings extraEncodings name

end I18n.Charset.Tables

namespace I18n.Charset

theorem isAlnumDot_upperCp (c : Nat) : isAlnumDot (upperCp c) = isAlnumDot c := by
  unfold isAlnumDot upperCp
  by_cases h : 97 ≤ c ∧ c ≤ 122
  · simp [h]
    omega
  · simp only [h, if_false]

theorem cNormalizeAux_upper : ∀ (cs : List Nat) (p s : Bool), cNormalizeAux (upper cs) p s = cNormalizeAux cs p s := by
  intro cs
  induction cs with
  | nil => intro p s; rfl
  | cons c cs ih =>
    intro p s
    simp only [upper, List.map_cons, cNormalizeAux, isAlnumDot_upperCp, lowerCp_upperCp]
    simp only [upper] at ih
    simp only [ih]

/-- **names are compared without regard to ASCII case**: the upper-cased name normalises to the same string, so the registry
    gives it the same codec -/
theorem cNormalize_upper (n : Name) : cNormalize (upper n) = cNormalize n := cNormalizeAux_upper n false false

theorem registryLookup_upper (aliases : List (Name × Name)) (modules : List (Name × Option Name)) (unm : List (Name × Name))
    (tbl : List (Name × Bool)) (extra : List Name) (n : Name) :
    registryLookup aliases modules unm tbl extra (upper n) = registryLookup aliases modules unm tbl extra n := by
  unfold registryLookup
  rw [cNormalize_upper]

end I18n.Charset
