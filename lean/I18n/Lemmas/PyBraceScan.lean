import I18n.Model.PyBrace
import I18n.Lemmas.PerlBrace
/-
python-brace: what the scanner functions return, as decompositions of their input (`input = text ++ rest`) with inductive
descriptions of the text.  Everything else about the scanner is derived from these.
-/
namespace I18n.PyBrace
open I18n.BraceChars
open I18n.PerlBrace (takeWhile_all dropWhile_length_le span_all)

/-! ### shapes -/

/-- `[^\W\d]\w*` -/
def IdentText (w : List Char) : Prop := ∃ c t, w = c :: t ∧ isIdStart c = true ∧ ∀ d ∈ t, isWord d = true

/-- `\d+` -/
def DigitsText (w : List Char) : Prop := w ≠ [] ∧ ∀ d ∈ w, isDigit d = true

/-- `(?: [.] [^\W\d]\w* | \[ X+ \] )*` -/
inductive NameTail (inBr : Char → Bool) : List Char → Prop where
  | nil : NameTail inBr []
  | attr {id t : List Char} : IdentText id → NameTail inBr t → NameTail inBr ('.' :: (id ++ t))
  | index {x t : List Char} : x ≠ [] → (∀ c ∈ x, inBr c = true) → NameTail inBr t → NameTail inBr ('[' :: (x ++ ']' :: t))

/-- NAME -/
def NameText (inBr : Char → Bool) (nm : List Char) : Prop :=
  ∃ h t, nm = h ++ t ∧ (DigitsText h ∨ IdentText h) ∧ NameTail inBr t

theorem takeWhile_dropWhile {α : Type} (p : α → Bool) (l : List α) : l = l.takeWhile p ++ l.dropWhile p :=
  (List.takeWhile_append_dropWhile).symm

theorem dropWhile_head {α : Type} (p : α → Bool) (l : List α) : ∀ d r, l.dropWhile p = d :: r → p d = false := by
  induction l with
  | nil => intro d r h; simp at h
  | cons a l ih =>
    intro d r h
    by_cases ha : p a = true
    · simp [ha] at h; exact ih d r h
    · simp [ha] at h
      obtain ⟨rfl, _⟩ := h
      simpa using ha

/-! ### identifiers, heads -/

theorem scanIdent_some {cs id r : List Char} (h : scanIdent cs = some (id, r)) :
    cs = id ++ r ∧ IdentText id ∧ (∀ d r', r = d :: r' → isWord d = false) := by
  cases cs with
  | nil => simp [scanIdent] at h
  | cons c cs =>
    simp only [scanIdent] at h
    split at h
    · rename_i hc
      simp only [Option.some.injEq, Prod.mk.injEq] at h
      obtain ⟨rfl, rfl⟩ := h
      refine ⟨by simp, ⟨c, _, rfl, hc, takeWhile_all isWord cs⟩, dropWhile_head isWord cs⟩
    · cases h

theorem scanIdent_none {cs : List Char} (h : scanIdent cs = none) : ∀ c r, cs = c :: r → isIdStart c = false := by
  intro c r hc
  subst hc
  simp only [scanIdent] at h
  split at h
  · cases h
  · rename_i h'; simpa using h'

theorem scanNameHead_some {cs hd r : List Char} (h : scanNameHead cs = some (hd, r)) :
    cs = hd ++ r ∧ (DigitsText hd ∨ IdentText hd) ∧ (∀ d r', r = d :: r' → DigitsText hd → isDigit d = false) ∧
      (∀ d r', r = d :: r' → IdentText hd → isWord d = false) := by
  cases cs with
  | nil => simp [scanNameHead] at h
  | cons c cs =>
    simp only [scanNameHead] at h
    split at h
    · rename_i hc
      simp only [Option.some.injEq, Prod.mk.injEq] at h
      obtain ⟨rfl, rfl⟩ := h
      refine ⟨by simp, Or.inl ⟨by simp, ?_⟩, fun d r' hr _ => dropWhile_head isDigit cs d r' hr, ?_⟩
      · intro d hd
        simp only [List.mem_cons] at hd
        rcases hd with rfl | hd
        · exact hc
        · exact takeWhile_all isDigit cs d hd
      · rintro d r' _ ⟨c', t, he, hs, _⟩
        simp only [List.cons.injEq] at he
        obtain ⟨rfl, _⟩ := he
        simp [isIdStart, hc] at hs
    · rename_i hc
      obtain ⟨h1, h2, h3⟩ := scanIdent_some h
      refine ⟨h1, Or.inr h2, ?_, fun d r' hr _ => h3 d r' hr⟩
      rintro d r' _ ⟨_, hall⟩
      obtain ⟨c', t, he, hs, _⟩ := h2
      subst he
      simp only [List.cons_append, List.cons.injEq] at h1
      obtain ⟨hcc, _⟩ := h1
      have := hall c' (by simp)
      rw [← hcc] at this
      exact absurd this hc

/-- the head fails exactly when the first character starts neither alternative -/
theorem scanNameHead_none {cs : List Char} (h : scanNameHead cs = none) :
    ∀ c r, cs = c :: r → isDigit c = false ∧ isIdStart c = false := by
  intro c r hc
  subst hc
  simp only [scanNameHead] at h
  split at h
  · cases h
  · rename_i h'
    exact ⟨by simpa using h', scanIdent_none h c r rfl⟩

/-! ### the tail of a name -/

theorem scanIndex_some {inBr : Char → Bool} {r x r' : List Char} (h : scanIndex inBr r = some (x, r')) :
    r = x ++ ']' :: r' ∧ x ≠ [] ∧ (∀ c ∈ x, inBr c = true) ∧ x = r.takeWhile inBr := by
  simp only [scanIndex] at h
  split at h
  · rename_i y ys r'' htw hdw
    simp only [Option.some.injEq, Prod.mk.injEq] at h
    obtain ⟨rfl, rfl⟩ := h
    have hsplit := takeWhile_dropWhile inBr r
    rw [htw, hdw] at hsplit
    refine ⟨hsplit, by simp, ?_, htw.symm⟩
    rw [← htw]; exact takeWhile_all inBr r
  · cases h

theorem scanNameTail_spec (inBr : Char → Bool) : ∀ (fuel : Nat) (cs t r : List Char), scanNameTail inBr fuel cs = (t, r) →
    cs = t ++ r ∧ NameTail inBr t := by
  intro fuel
  induction fuel with
  | zero => intro cs t r h; simp [scanNameTail] at h; obtain ⟨rfl, rfl⟩ := h; exact ⟨rfl, .nil⟩
  | succ fuel ih =>
    intro cs t r h
    unfold scanNameTail at h
    split at h
    · -- '.' :: r
      rename_i r0
      split at h
      · rename_i id r' hid
        obtain ⟨h1, h2, _⟩ := scanIdent_some hid
        cases hrec : scanNameTail inBr fuel r' with
        | mk t' r'' =>
          simp only [hrec, Prod.mk.injEq] at h
          obtain ⟨rfl, rfl⟩ := h
          obtain ⟨h3, h4⟩ := ih r' t' r'' hrec
          exact ⟨by simp [h1, h3], .attr h2 h4⟩
      · simp only [Prod.mk.injEq] at h; obtain ⟨rfl, rfl⟩ := h; exact ⟨rfl, .nil⟩
    · -- '[' :: r
      rename_i r0
      split at h
      · rename_i x r' hidx
        cases hrec : scanNameTail inBr fuel r' with
        | mk t' r'' =>
          simp only [hrec, Prod.mk.injEq] at h
          obtain ⟨rfl, rfl⟩ := h
          obtain ⟨h3, h4⟩ := ih r' t' r'' hrec
          obtain ⟨hx1, hx2, hx3, _⟩ := scanIndex_some hidx
          refine ⟨?_, .index hx2 hx3 h4⟩
          rw [hx1, h3]
          simp
      · simp only [Prod.mk.injEq] at h; obtain ⟨rfl, rfl⟩ := h; exact ⟨rfl, .nil⟩
    · simp only [Prod.mk.injEq] at h; obtain ⟨rfl, rfl⟩ := h; exact ⟨rfl, .nil⟩

theorem scanName_some {inBr : Char → Bool} {cs nm r : List Char} (h : scanName inBr cs = some (nm, r)) :
    cs = nm ++ r ∧ NameText inBr nm := by
  simp only [scanName] at h
  split at h
  · cases h
  · rename_i hd r0 hhead
    cases hrec : scanNameTail inBr r0.length r0 with
    | mk t r' =>
      simp only [hrec, Option.some.injEq, Prod.mk.injEq] at h
      obtain ⟨rfl, rfl⟩ := h
      obtain ⟨h1, h2, _⟩ := scanNameHead_some hhead
      obtain ⟨h3, h4⟩ := scanNameTail_spec inBr _ _ _ _ hrec
      exact ⟨by rw [h1, h3, List.append_assoc], hd, t, rfl, h2, h4⟩

theorem scanName_none {inBr : Char → Bool} {cs : List Char} (h : scanName inBr cs = none) : scanNameHead cs = none := by
  simp only [scanName] at h
  split at h
  · assumption
  · rename_i hd r0 hhead
    cases hrec : scanNameTail inBr r0.length r0 with
    | mk t r' => simp [hrec] at h

/-! ### nested fields and the body of a format specification -/

theorem scanSimple_some {cs nm r : List Char} (h : scanSimple cs = some (nm, r)) :
    cs = '{' :: (nm ++ '}' :: r) ∧ (nm = [] ∨ NameText nestedBr nm) := by
  unfold scanSimple at h
  split at h
  · rename_i r0
    split at h
    · rename_i nm' r' hn
      simp only [Option.some.injEq, Prod.mk.injEq] at h
      obtain ⟨rfl, rfl⟩ := h
      obtain ⟨h1, h2⟩ := scanName_some hn
      exact ⟨by rw [h1], Or.inr h2⟩
    · cases h
    · split at h
      · simp only [Option.some.injEq, Prod.mk.injEq] at h
        obtain ⟨rfl, rfl⟩ := h
        exact ⟨rfl, Or.inl rfl⟩
      · cases h
  · cases h

/-- `(?: [^{}] | SIMPLE )*`: the text and the names of the nested fields -/
inductive FormatBody : List Char → List (List Char) → Prop where
  | nil : FormatBody [] []
  | chr {c : Char} {t : List Char} {ns : List (List Char)} : c ≠ '{' → c ≠ '}' → FormatBody t ns → FormatBody (c :: t) ns
  | simple {nm t : List Char} {ns : List (List Char)} : (nm = [] ∨ NameText nestedBr nm) → FormatBody t ns →
      FormatBody ('{' :: (nm ++ '}' :: t)) (nm :: ns)

theorem scanFormatBody_spec : ∀ (fuel : Nat) (cs t r : List Char) (ns : List (List Char)),
    scanFormatBody fuel cs = (t, ns, r) → cs = t ++ r ∧ FormatBody t ns := by
  intro fuel
  induction fuel with
  | zero => intro cs t r ns h; simp [scanFormatBody] at h; obtain ⟨rfl, rfl, rfl⟩ := h; exact ⟨rfl, .nil⟩
  | succ fuel ih =>
    intro cs t r ns h
    unfold scanFormatBody at h
    split at h
    · simp only [Prod.mk.injEq] at h; obtain ⟨rfl, rfl, rfl⟩ := h; exact ⟨rfl, .nil⟩
    · rename_i r0
      split at h
      · rename_i nm r' hs
        cases hrec : scanFormatBody fuel r' with
        | mk t' rest =>
          obtain ⟨ns', r''⟩ := rest
          simp only [hrec, Prod.mk.injEq] at h
          obtain ⟨rfl, rfl, rfl⟩ := h
          obtain ⟨h1, h2⟩ := scanSimple_some hs
          obtain ⟨h3, h4⟩ := ih r' t' r'' ns' hrec
          refine ⟨?_, .simple h2 h4⟩
          rw [h1, h3]; simp
      · simp only [Prod.mk.injEq] at h; obtain ⟨rfl, rfl, rfl⟩ := h; exact ⟨rfl, .nil⟩
    · simp only [Prod.mk.injEq] at h; obtain ⟨rfl, rfl, rfl⟩ := h; exact ⟨rfl, .nil⟩
    · rename_i c r0 hno hnc
      cases hrec : scanFormatBody fuel r0 with
      | mk t' rest =>
        obtain ⟨ns', r''⟩ := rest
        simp only [hrec, Prod.mk.injEq] at h
        obtain ⟨rfl, rfl, rfl⟩ := h
        obtain ⟨h3, h4⟩ := ih r0 t' r'' ns' hrec
        refine ⟨by rw [h3]; simp, .chr ?_ ?_ h4⟩
        · rintro rfl; exact hno rfl
        · rintro rfl; exact hnc rfl

/-! ### a whole replacement field -/

/-- what a successful `scanField` returns -/
structure FieldShape (cs : List Char) (f : RawField) (rest : List Char) : Prop where
  input : cs = '{' :: (f.name.getD [] ++ f.conversion.getD [] ++ f.format.getD [] ++ '}' :: rest)
  text : f.text = '{' :: (f.name.getD [] ++ f.conversion.getD [] ++ f.format.getD [] ++ ['}'])
  name : ∀ nm, f.name = some nm → NameText topBr nm
  conversion : ∀ c, f.conversion = some c → ∃ w, c = '!' :: w ∧ w ≠ [] ∧ ∀ d ∈ w, isWord d = true
  format : ∀ fm, f.format = some fm → ∃ t, fm = ':' :: t ∧ FormatBody t f.nested
  noFormat : f.format = none → f.nested = []

theorem scanNameOpt_spec {inBr : Char → Bool} {cs r : List Char} {name : Option (List Char)} (h : scanNameOpt inBr cs = (name, r)) :
    cs = name.getD [] ++ r ∧ (∀ nm, name = some nm → NameText inBr nm) ∧ (name = none → scanNameHead cs = none) := by
  unfold scanNameOpt at h
  split at h
  · rename_i nm r' hs
    simp only [Prod.mk.injEq] at h
    obtain ⟨rfl, rfl⟩ := h
    obtain ⟨h1, h2⟩ := scanName_some hs
    exact ⟨by simpa using h1, fun nm' h' => (by cases h'; exact h2), fun h' => (by cases h')⟩
  · rename_i hs
    simp only [Prod.mk.injEq] at h
    obtain ⟨rfl, rfl⟩ := h
    exact ⟨by simp, fun nm' h' => (by cases h'), fun _ => scanName_none hs⟩

theorem scanConv_spec {cs r : List Char} {conv : Option (List Char)} (h : scanConv cs = (conv, r)) :
    cs = conv.getD [] ++ r ∧ (∀ c, conv = some c → ∃ w, c = '!' :: w ∧ w ≠ [] ∧ ∀ d ∈ w, isWord d = true) := by
  unfold scanConv at h
  split at h
  · rename_i r0
    split at h
    · simp only [Prod.mk.injEq] at h
      obtain ⟨rfl, rfl⟩ := h
      exact ⟨by simp, fun c h' => by cases h'⟩
    · rename_i hne
      simp only [Prod.mk.injEq] at h
      obtain ⟨rfl, rfl⟩ := h
      refine ⟨by simp, fun c h' => ?_⟩
      cases h'
      exact ⟨_, rfl, fun h'' => hne h'', takeWhile_all isWord r0⟩
  · simp only [Prod.mk.injEq] at h
    obtain ⟨rfl, rfl⟩ := h
    exact ⟨by simp, fun c h' => by cases h'⟩

theorem scanFmt_spec {cs r : List Char} {fmt : Option (List Char)} {nested : List (List Char)} (h : scanFmt cs = (fmt, nested, r)) :
    cs = fmt.getD [] ++ r ∧ (∀ fm, fmt = some fm → ∃ t, fm = ':' :: t ∧ FormatBody t nested) ∧ (fmt = none → nested = []) := by
  unfold scanFmt at h
  split at h
  · rename_i r0
    cases hrec : scanFormatBody r0.length r0 with
    | mk t rest'' =>
      obtain ⟨ns, r'⟩ := rest''
      simp only [hrec, Prod.mk.injEq] at h
      obtain ⟨rfl, rfl, rfl⟩ := h
      obtain ⟨h1, h2⟩ := scanFormatBody_spec _ _ _ _ _ hrec
      exact ⟨by simp [h1], fun fm h' => (by cases h'; exact ⟨t, rfl, h2⟩), fun h' => (by cases h')⟩
  · simp only [Prod.mk.injEq] at h
    obtain ⟨rfl, rfl, rfl⟩ := h
    exact ⟨by simp, fun fm h' => (by cases h'), fun _ => rfl⟩

theorem scanField_some {cs rest : List Char} {f : RawField} (h : scanField cs = some (f, rest)) : FieldShape cs f rest := by
  unfold scanField at h
  split at h
  · rename_i r0
    cases hname : scanNameOpt topBr r0 with
    | mk name r1 =>
      cases hconv : scanConv r1 with
      | mk conv r2 =>
        cases hfmt : scanFmt r2 with
        | mk fmt rest' =>
          obtain ⟨nested, r3⟩ := rest'
          simp only [hname, hconv, hfmt] at h
          obtain ⟨hn1, hn2, _⟩ := scanNameOpt_spec hname
          obtain ⟨hc1, hc2⟩ := scanConv_spec hconv
          obtain ⟨hf1, hf2, hf3⟩ := scanFmt_spec hfmt
          split at h
          · rename_i rest0
            simp only [Option.some.injEq, Prod.mk.injEq] at h
            obtain ⟨rfl, rfl⟩ := h
            refine ⟨?_, rfl, hn2, hc2, hf2, hf3⟩
            rw [hn1, hc1, hf1]
            simp
          · cases h
  · cases h

/-! ### literal text -/

/-- `(?: [^{}] | [{]{2} | [}]{2} )*` -/
inductive LiteralText : List Char → Prop where
  | nil : LiteralText []
  | chr {c : Char} {t : List Char} : c ≠ '{' → c ≠ '}' → LiteralText t → LiteralText (c :: t)
  | open_ {t : List Char} : LiteralText t → LiteralText ('{' :: '{' :: t)
  | close {t : List Char} : LiteralText t → LiteralText ('}' :: '}' :: t)

theorem scanLiteral_spec : ∀ (fuel : Nat) (cs t r : List Char), scanLiteral fuel cs = (t, r) → cs = t ++ r ∧ LiteralText t := by
  intro fuel
  induction fuel with
  | zero => intro cs t r h; simp [scanLiteral] at h; obtain ⟨rfl, rfl⟩ := h; exact ⟨rfl, .nil⟩
  | succ fuel ih =>
    intro cs t r h
    unfold scanLiteral at h
    split at h
    · simp only [Prod.mk.injEq] at h; obtain ⟨rfl, rfl⟩ := h; exact ⟨rfl, .nil⟩
    · rename_i r0
      cases hrec : scanLiteral fuel r0 with
      | mk t' r' =>
        simp only [hrec, Prod.mk.injEq] at h
        obtain ⟨rfl, rfl⟩ := h
        obtain ⟨h1, h2⟩ := ih _ _ _ hrec
        exact ⟨by rw [h1]; simp, .open_ h2⟩
    · rename_i r0
      cases hrec : scanLiteral fuel r0 with
      | mk t' r' =>
        simp only [hrec, Prod.mk.injEq] at h
        obtain ⟨rfl, rfl⟩ := h
        obtain ⟨h1, h2⟩ := ih _ _ _ hrec
        exact ⟨by rw [h1]; simp, .close h2⟩
    · simp only [Prod.mk.injEq] at h; obtain ⟨rfl, rfl⟩ := h; exact ⟨rfl, .nil⟩
    · simp only [Prod.mk.injEq] at h; obtain ⟨rfl, rfl⟩ := h; exact ⟨rfl, .nil⟩
    · rename_i c r0 h1 h2 h3 h4
      cases hrec : scanLiteral fuel r0 with
      | mk t' r' =>
        simp only [hrec, Prod.mk.injEq] at h
        obtain ⟨rfl, rfl⟩ := h
        obtain ⟨h5, h6⟩ := ih _ _ _ hrec
        refine ⟨by rw [h5]; simp, .chr ?_ ?_ h6⟩
        · rintro rfl; exact h3 rfl
        · rintro rfl; exact h4 rfl

end I18n.PyBrace
