import I18n.Model.Tags
import I18n.Spec.Tags
/-
Lemmas behind Props/C02: the escaper emits no hostile character and always a well-formed token.
-/
namespace I18n.Tags
open I18n.Spec.Tags

/-- printable ASCII -/
def AP (c : Nat) : Prop := 32 ≤ c ∧ c ≤ 126

theorem AP.not_hostile {db : UnicodeDB} (h : Sound db) {c : Nat} (hc : AP c) : hostile db c = false := by
  obtain ⟨h1, h2⟩ := hc
  have hf := h.ascii_not_format c h1 h2
  simp [hostile, isControl, isSeparator, isSurrogate, hf]
  omega

theorem hexDigit_lt (n : Nat) (h : n < 16) : isHex (hexDigit n) = true := by
  unfold hexDigit isHex
  split <;> simp <;> omega

theorem hexFixed_hex (w n : Nat) : ∀ d ∈ hexFixed w n, isHex d = true := by
  induction w generalizing n with
  | zero => simp [hexFixed]
  | succ w ih =>
    intro d hd
    simp only [hexFixed, List.mem_append, List.mem_singleton] at hd
    rcases hd with hd | hd
    · exact ih _ d hd
    · subst hd; exact hexDigit_lt _ (Nat.mod_lt _ (by decide))

theorem hexFixed_length (w n : Nat) : (hexFixed w n).length = w := by
  induction w generalizing n with
  | zero => simp [hexFixed]
  | succ w ih => simp [hexFixed, ih]

theorem isHex_AP {d : Nat} (h : isHex d = true) : AP d := by
  simp [isHex] at h
  unfold AP; omega

/-- a quote character is one of `'` `"` -/
theorem quoteFor_cases (s : Str) : quoteFor s = 39 ∨ quoteFor s = 34 := by
  unfold quoteFor; split <;> simp

/-! ### every item `repr` emits for one character is a literal-body item -/

theorem reprChar_item {db : UnicodeDB} (h : Sound db) (q c : Nat) (hq : q = 39 ∨ q = 34) :
    Item db q (reprChar db q c) := by
  unfold reprChar
  split
  · rename_i h1
    rcases h1 with h1 | h1
    · subst h1; exact .quote
    · subst h1; exact .backslash
  · rename_i h1
    split
    · exact .tab
    · split
      · exact .newline
      · split
        · exact .cr
        · split
          · exact .hex 120 _ (.inl ⟨rfl, hexFixed_length _ _⟩) (hexFixed_hex _ _)
          · rename_i h5
            split
            · rename_i h6
              refine .plain c (fun e => h1 (.inl e)) (fun e => h1 (.inr e)) (AP.not_hostile h ⟨by omega, by omega⟩)
            · split
              · rename_i h7
                exact .plain c (fun e => h1 (.inl e)) (fun e => h1 (.inr e)) (h.printable_not_hostile c h7)
              · split
                · exact .hex 120 _ (.inl ⟨rfl, hexFixed_length _ _⟩) (hexFixed_hex _ _)
                · split
                  · exact .hex 117 _ (.inr (.inl ⟨rfl, hexFixed_length _ _⟩)) (hexFixed_hex _ _)
                  · exact .hex 85 _ (.inr (.inr ⟨rfl, hexFixed_length _ _⟩)) (hexFixed_hex _ _)

theorem reprByte_item {db : UnicodeDB} (h : Sound db) (q c : Nat) (hq : q = 39 ∨ q = 34) :
    Item db q (reprByte q c) := by
  unfold reprByte
  split
  · rename_i h1
    rcases h1 with h1 | h1
    · subst h1; exact .quote
    · subst h1; exact .backslash
  · rename_i h1
    split
    · exact .tab
    · split
      · exact .newline
      · split
        · exact .cr
        · split
          · exact .hex 120 _ (.inl ⟨rfl, hexFixed_length _ _⟩) (hexFixed_hex _ _)
          · exact .plain c (fun e => h1 (.inl e)) (fun e => h1 (.inr e)) (AP.not_hostile h ⟨by omega, by omega⟩)

theorem body_flatMap {db : UnicodeDB} {q : Nat} (f : Nat → Str) (hf : ∀ c, Item db q (f c)) (s : Str) :
    Body db q (s.flatMap f) := by
  induction s with
  | nil => exact .nil
  | cons c s ih => simpa [List.flatMap_cons] using Body.cons (hf c) ih

/-! ### items, bodies and tokens are clean -/

theorem item_clean {db : UnicodeDB} (h : Sound db) {q : Nat} (hq : q = 39 ∨ q = 34) {i : Str} (hi : Item db q i) :
    Clean db i := by
  have hbs : hostile db 92 = false := AP.not_hostile h ⟨by decide, by decide⟩
  have hqq : hostile db q = false := by
    rcases hq with rfl | rfl <;> exact AP.not_hostile h ⟨by decide, by decide⟩
  intro c hc
  cases hi with
  | plain c' _ _ h3 => simp at hc; subst hc; exact h3
  | quote => simp at hc; rcases hc with rfl | rfl <;> assumption
  | backslash => simp at hc; subst hc; exact hbs
  | tab => simp at hc; rcases hc with rfl | rfl <;> exact AP.not_hostile h ⟨by decide, by decide⟩
  | newline => simp at hc; rcases hc with rfl | rfl <;> exact AP.not_hostile h ⟨by decide, by decide⟩
  | cr => simp at hc; rcases hc with rfl | rfl <;> exact AP.not_hostile h ⟨by decide, by decide⟩
  | hex lead ds hl hd =>
    simp only [List.mem_cons] at hc
    rcases hc with rfl | rfl | hc
    · exact hbs
    · rcases hl with ⟨rfl, _⟩ | ⟨rfl, _⟩ | ⟨rfl, _⟩ <;> exact AP.not_hostile h ⟨by decide, by decide⟩
    · exact AP.not_hostile h (isHex_AP (hd c hc))

theorem body_clean {db : UnicodeDB} (h : Sound db) {q : Nat} (hq : q = 39 ∨ q = 34) {b : Str} (hb : Body db q b) :
    Clean db b := by
  induction hb with
  | nil => intro c hc; simp at hc
  | cons hi _ ih =>
    intro c hc
    rcases List.mem_append.mp hc with hc | hc
    · exact item_clean h hq hi c hc
    · exact ih c hc

theorem isSafeChar_AP {c : Nat} (h : isSafeChar c = true) : AP c := by
  simp [isSafeChar] at h
  unfold AP; omega

theorem lit_emptyString_AP : ∀ c ∈ lit "(empty string)", 32 ≤ c ∧ c ≤ 126 := by decide

theorem token_clean {db : UnicodeDB} (h : Sound db) {s : Str} (hs : Token db s) : Clean db s := by
  cases hs with
  | word _ _ hall => intro c hc; exact AP.not_hostile h (isSafeChar_AP (hall c hc))
  | emptyString => intro c hc; exact AP.not_hostile h (lit_emptyString_AP c hc)
  | quoted q body hq hb =>
    have hqq : hostile db q = false := by
      rcases hq with rfl | rfl <;> exact AP.not_hostile h ⟨by decide, by decide⟩
    intro c hc
    simp only [List.mem_cons, List.mem_append, List.not_mem_nil, or_false] at hc
    rcases hc with rfl | hc | rfl
    · exact hqq
    · exact body_clean h hq hb c hc
    · exact hqq

/-! ### the escaper -/

theorem reprStr_token {db : UnicodeDB} (h : Sound db) (s : Str) : Token db (reprStr db s) := by
  unfold reprStr
  exact .quoted _ _ (quoteFor_cases s) (body_flatMap _ (fun c => reprChar_item h _ c (quoteFor_cases s)) s)

theorem reprBytes_drop_token {db : UnicodeDB} (h : Sound db) (b : List UInt8) : Token db ((reprBytes b).drop 1) := by
  unfold reprBytes
  simp only [List.drop_succ_cons, List.drop_zero]
  exact .quoted _ _ (quoteFor_cases _) (body_flatMap _ (fun c => reprByte_item h _ c (quoteFor_cases _)) _)

theorem escapeStr_token {db : UnicodeDB} (h : Sound db) (s : Str) : Token db (escapeStr db s) := by
  unfold escapeStr
  split
  · exact .emptyString
  · rename_i hne
    split
    · rename_i hs
      simp only [isSafe, Bool.and_eq_true, Bool.not_eq_true', List.all_eq_true] at hs
      exact .word s hne hs.2
    · exact reprStr_token h s

/-- file-derived extras (everything that is not a `safestr`) -/
def Extra.escaped : Extra → Bool
  | .safe _ => false
  | _ => true

theorem escape_token {db : UnicodeDB} (h : Sound db) (x : Extra) (hx : x.escaped = true) : Token db (escape db x) := by
  cases x with
  | safe s => simp [Extra.escaped] at hx
  | bytes b => exact reprBytes_drop_token h b
  | str s => exact escapeStr_token h s
  | int n => exact escapeStr_token h _

/-! ### `str(int)` is a safe word -/

theorem natDigitsAux_digits (fuel n : Nat) (acc : Str) (hacc : ∀ c ∈ acc, 48 ≤ c ∧ c ≤ 57) :
    ∀ c ∈ natDigitsAux fuel n acc, 48 ≤ c ∧ c ≤ 57 := by
  induction fuel generalizing n acc with
  | zero => simpa [natDigitsAux] using hacc
  | succ fuel ih =>
    have hacc' : ∀ c ∈ (48 + n % 10) :: acc, 48 ≤ c ∧ c ≤ 57 := by
      intro c hc
      rcases List.mem_cons.mp hc with rfl | hc
      · have := Nat.mod_lt n (by decide : 10 > 0); omega
      · exact hacc c hc
    simp only [natDigitsAux]
    split
    · exact hacc'
    · exact ih _ _ hacc'

theorem natDigitsAux_ne_nil (fuel n : Nat) (acc : Str) (h : fuel ≠ 0 ∨ acc ≠ []) : natDigitsAux fuel n acc ≠ [] := by
  induction fuel generalizing n acc with
  | zero => simpa [natDigitsAux] using h
  | succ fuel ih =>
    simp only [natDigitsAux]
    split
    · simp
    · exact ih _ _ (.inr (by simp))

theorem strInt_safe (n : Int) : isSafe (strInt n) = true := by
  have hd : ∀ m, ∀ c ∈ natDigits m, isSafeChar c = true := by
    intro m c hc
    have := natDigitsAux_digits (m + 1) m [] (by simp) c hc
    simp [isSafeChar]; omega
  have hne : ∀ m, natDigits m ≠ [] := fun m => natDigitsAux_ne_nil _ _ _ (.inl (by simp))
  cases n with
  | ofNat m =>
    simp only [strInt, isSafe, Bool.and_eq_true, Bool.not_eq_true', List.all_eq_true]
    exact ⟨by simpa using hne m, hd m⟩
  | negSucc m =>
    simp only [strInt, isSafe, Bool.and_eq_true, Bool.not_eq_true', List.all_eq_true]
    refine ⟨by simp, ?_⟩
    intro c hc
    rcases List.mem_cons.mp hc with rfl | hc
    · decide
    · exact hd _ c hc

/-- ints are printed as they are -/
theorem escape_int (db : UnicodeDB) (n : Int) : escape db (.int n) = strInt n := by
  have hs := strInt_safe n
  have hne : strInt n ≠ [] := by
    intro e; rw [e] at hs; simp [isSafe] at hs
  simp [escape, escapeStr, hne, hs]

end I18n.Tags
