import I18n.Lemmas.HdrCType
import I18n.Lemmas.HdrFields
/-
C15 lemmas, part 7: `check_mime` — when it returns, its tags are those of the MIME-Version, Content-Transfer-Encoding and
Content-Type rules.
-/
set_option linter.unusedSimpArgs false
namespace I18n.Hdr
open I18n.Spec.HeaderRules I18n.Date I18n.Generated

theorem hint_eq : contentTypeHint = "text/plain; charset=<encoding>".toList := rfl

/-- what one Content-Type value contributes -/
def CtOneRule (db : UDB) (cs : CharsetCheck) (ct : Str) (t : TagCall) : Prop :=
  ((¬ ∃ full enc, CharsetParam db ct full enc) ∧
    t = ⟨"invalid-content-type", [.str ct, .str "=>".toList, .str "text/plain; charset=<encoding>".toList]⟩)
  ∨ ∃ full enc ctags kept, CharsetOf db ct full enc ∧ cs (toName enc) = .ok (ctags, kept) ∧
      ((∃ c ∈ ctags, t = ofCharsetTag ct c)
       ∨ (full = false ∧ t = ⟨"invalid-content-type", [.str ct, .str "=>".toList,
            .str (match kept with | some e => "text/plain; charset=".toList ++ ofName e
                                  | none => "text/plain; charset=<encoding>".toList)]⟩))

theorem mem_contentTypeOne (db : UDB) (cs : CharsetCheck) (ct : Str) (ts : List TagCall) (kept : Option Str)
    (h : contentTypeOne db cs ct = .ok (ts, kept)) (t : TagCall) : t ∈ ts ↔ CtOneRule db cs ct t := by
  unfold contentTypeOne at h
  unfold CtOneRule
  cases hm : matchContentType db ct with
  | none =>
    rw [hm] at h
    simp only [Except.ok.injEq, Prod.mk.injEq] at h
    obtain ⟨rfl, _⟩ := h
    have hnone := (matchContentType_none_iff db ct).1 hm
    simp only [List.mem_singleton]
    constructor
    · intro e; left; exact ⟨hnone, by simpa [tag, sx, arrow, lit, hint_eq] using e⟩
    · rintro (⟨_, e⟩ | ⟨full, enc, _, _, hof, _⟩)
      · simpa [tag, sx, arrow, lit, hint_eq] using e
      · exact absurd ⟨full, enc, hof.1⟩ hnone
  | some p =>
    obtain ⟨full, enc⟩ := p
    rw [hm] at h
    simp only [] at h
    have hof := (matchContentType_some_iff db ct full enc).1 hm
    have hsome : ∃ full enc, CharsetParam db ct full enc := ⟨full, enc, hof.1⟩
    cases hc : cs (toName enc) with
    | error u => rw [hc] at h; cases u; cases h
    | ok r =>
      obtain ⟨ctags, kept0⟩ := r
      rw [hc] at h
      simp only [Except.ok.injEq, Prod.mk.injEq] at h
      obtain ⟨rfl, _⟩ := h
      simp only [List.mem_append, List.mem_map]
      constructor
      · rintro (⟨c, hcm, rfl⟩ | h2)
        · right; exact ⟨full, enc, ctags, kept0, hof, hc, Or.inl ⟨c, hcm, rfl⟩⟩
        · right
          refine ⟨full, enc, ctags, kept0, hof, hc, Or.inr ?_⟩
          cases full with
          | true => simp at h2
          | false =>
            refine ⟨rfl, ?_⟩
            cases kept0 with
            | none => simpa [tag, sx, arrow, lit, hint_eq] using h2
            | some e => simpa [tag, sx, arrow, lit] using h2
      · rintro (⟨hn, _⟩ | ⟨full', enc', ctags', kept', hof', hc', h2⟩)
        · exact absurd hsome hn
        · have := (matchContentType_some_iff db ct full' enc').2 hof'
          rw [hm] at this
          simp only [Option.some.injEq, Prod.mk.injEq] at this
          obtain ⟨rfl, rfl⟩ := this
          rw [hc] at hc'
          simp only [Except.ok.injEq, Prod.mk.injEq] at hc'
          obtain ⟨rfl, rfl⟩ := hc'
          rcases h2 with ⟨c, hcm, rfl⟩ | ⟨rfl, rfl⟩
          · left; exact ⟨c, hcm, rfl⟩
          · right
            cases kept0 with
            | none => simp [tag, sx, arrow, lit, hint_eq]
            | some e => simp [tag, sx, arrow, lit]

theorem mem_contentTypeLoop (db : UDB) (cs : CharsetCheck) (cts : List Str) (ts : List TagCall) (es : List Str)
    (h : contentTypeLoop db cs cts = .ok (ts, es)) (t : TagCall) :
    t ∈ ts ↔ ∃ ct ∈ cts, CtOneRule db cs ct t := by
  induction cts generalizing ts es with
  | nil =>
    simp only [contentTypeLoop, Except.ok.injEq, Prod.mk.injEq] at h
    obtain ⟨rfl, _⟩ := h; simp
  | cons ct rest ih =>
    unfold contentTypeLoop at h
    cases h1 : contentTypeOne db cs ct with
    | error u => rw [h1] at h; cases u; cases h
    | ok r =>
      obtain ⟨t1, e1⟩ := r
      rw [h1] at h
      simp only [] at h
      cases h2 : contentTypeLoop db cs rest with
      | error u => rw [h2] at h; cases u; cases h
      | ok r2 =>
        obtain ⟨ts2, es2⟩ := r2
        rw [h2] at h
        simp only [Except.ok.injEq, Prod.mk.injEq] at h
        obtain ⟨rfl, _⟩ := h
        rw [List.mem_append, mem_contentTypeOne db cs ct t1 e1 h1, ih ts2 es2 h2]
        simp

theorem mem_checkMime (db : UDB) (cs : CharsetCheck) (ls : List Line) (out : MimeOut)
    (h : checkMime db cs (buildMeta ls []) = .ok out) (t : TagCall) :
    t ∈ out.tags ↔
      FixedRule (fieldLines ls) "MIME-Version" "1.0" "mime-version" t
      ∨ FixedRule (fieldLines ls) "Content-Transfer-Encoding" "8bit" "content-transfer-encoding" t
      ∨ ((cnt (fieldLines ls) "Content-Type" = 0 ∧
            t = ⟨"no-content-type-header-field", [.safe "Content-Type: text/plain; charset=<encoding>".toList]⟩)
          ∨ (1 < cnt (fieldLines ls) "Content-Type" ∧ t = t0 "duplicate-header-field-content-type")
          ∨ ∃ ct ∈ vals (fieldLines ls) "Content-Type", CtOneRule db cs ct t) := by
  unfold checkMime at h
  rw [meta_getS] at h
  unfold cnt
  generalize vals (fieldLines ls) "Content-Type" = cts at h ⊢
  simp only [] at h
  split at h
  · rename_i h0
    injection h with h; subst h
    simp only [List.mem_append, mem_mimeVersionTags, mem_cteTags, List.mem_singleton]
    have hnil : cts = [] := List.length_eq_zero_iff.1 h0
    subst hnil
    constructor
    · rintro ((h | h) | h)
      · exact Or.inl h
      · exact Or.inr (Or.inl h)
      · exact Or.inr (Or.inr (Or.inl ⟨rfl, by simpa [tag, safe] using h⟩))
    · rintro (h | h | ⟨_, h⟩ | ⟨h, _⟩ | ⟨ct, hct, _⟩)
      · exact Or.inl (Or.inl h)
      · exact Or.inl (Or.inr h)
      · right; simpa [tag, safe] using h
      · simp at h
      · simp at hct
  · rename_i h0
    cases hl : contentTypeLoop db cs (dedup cts) with
    | error u => rw [hl] at h; cases u; cases h
    | ok r =>
      obtain ⟨ts, encs⟩ := r
      rw [hl] at h
      injection h with h; subst h
      simp only [List.mem_append, mem_mimeVersionTags, mem_cteTags, mem_contentTypeLoop db cs _ ts encs hl, mem_dedup]
      constructor
      · rintro (((h | h) | h) | h)
        · exact Or.inl h
        · exact Or.inr (Or.inl h)
        · split at h
          · rename_i h1
            exact Or.inr (Or.inr (Or.inr (Or.inl ⟨h1, by simpa [tag, t0] using h⟩)))
          · simp at h
        · exact Or.inr (Or.inr (Or.inr (Or.inr h)))
      · rintro (h | h | ⟨h, _⟩ | ⟨h1, rfl⟩ | h)
        · exact Or.inl (Or.inl (Or.inl h))
        · exact Or.inl (Or.inl (Or.inr h))
        · exact absurd h h0
        · left; right; simp [h1, tag, t0]
        · exact Or.inr h

end I18n.Hdr
