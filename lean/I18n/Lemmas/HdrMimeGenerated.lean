import I18n.Lemmas.HdrChkGenerated
/-!
# `Checker.check_mime` regenerated = `Hdr.checkMime` with C20's charset fragment

The `lib.encodings` / `lib.ling` calls of the charset fragment are the kit functions `HdrPy.isAsciiCompatible / isPortable / propose /
getUnrepresentable` (C20's model functions over `Charset.Env`); the model's `CharsetCheck` parameter is instantiated with
`Charset.checkCharset env · isTemplate language`.  Which exception escaped is forgotten on both sides (`erase`).
-/
set_option linter.unusedSimpArgs false
set_option linter.unusedVariables false
namespace I18n.Hdr.Gen
open I18n I18n.Hdr I18n.Generated

/-! ### `check_mime` -/

/-- forget which exception it was (the model has one crash outcome) -/
def erase {α : Type} : Except Py.Exc α → Except Unit α
  | .ok v => .ok v
  | .error _ => .error ()

@[simp] theorem erase_ok {α : Type} (v : α) : erase (.ok v : Except Py.Exc α) = .ok v := rfl
@[simp] theorem erase_error {α : Type} (e : Py.Exc) : erase (.error e : Except Py.Exc α) = .error () := rfl

theorem ofName_toName (s : Str) : ofName (toName s) = s := by
  induction s with
  | nil => rfl
  | cons c cs ih =>
    simp only [toName, ofName, List.map_cons, List.map_map] at ih ⊢
    rw [ih]; simp [Char.ofNat_toNat]

theorem replace_hint (e : Str) :
    HdrPy.replace "text/plain; charset=<encoding>".toList "<encoding>".toList e = "text/plain; charset=".toList ++ e := by
  have h : HdrPy.replace "text/plain; charset=<encoding>".toList "<encoding>".toList e = "text/plain; charset=".toList ++ (e ++ []) := rfl
  rw [h, List.append_nil]

/-- one iteration of `for ct in cts`, in the model's terms, on the loop-carried `(encodings, out)` -/
def ctStep (db : UDB) (cs : CharsetCheck) (ct : Str) (s : List TagCall × List Str) : Except Unit (List TagCall × List Str) :=
  match contentTypeOne db cs ct with
  | .error () => .error ()
  | .ok (t, e) => .ok (s.1 ++ t, s.2 ++ e.toList)

theorem forEach_ct (db : UDB) (cs : CharsetCheck) (body : Str → List TagCall × List Str → Except Py.Exc (List TagCall × List Str))
    (hb : ∀ ct s, erase (body ct s) = ctStep db cs ct s) (cts : List Str) (s : List TagCall × List Str) :
    erase (PyKit.forEach cts body s) =
      match contentTypeLoop db cs cts with
      | .error () => .error ()
      | .ok (ts, es) => .ok (s.1 ++ ts, s.2 ++ es) := by
  induction cts generalizing s with
  | nil => simp [PyKit.forEach, contentTypeLoop]
  | cons ct cts ih =>
    have h := hb ct s
    unfold PyKit.forEach contentTypeLoop
    unfold ctStep at h
    cases hc : contentTypeOne db cs ct with
    | error u => cases u; rw [hc] at h; cases hbody : body ct s with
      | ok v => rw [hbody] at h; cases h
      | error e => simp
    | ok te =>
      obtain ⟨t, e⟩ := te
      rw [hc] at h
      cases hbody : body ct s with
      | error e' => rw [hbody] at h; cases h
      | ok v =>
        rw [hbody] at h
        simp only [erase_ok] at h
        injection h with h
        subst h
        simp only [ih]
        cases contentTypeLoop db cs cts with
        | error u => cases u; rfl
        | ok r => obtain ⟨ts, es⟩ := r; cases e <;> simp [List.append_assoc]

theorem erase_match_ok {α β : Type} (a : Except Py.Exc α) (k : α → Except Py.Exc β) :
    erase (match a with | .error e => .error e | .ok v => k v) =
      match erase a with | .error () => .error () | .ok v => erase (k v) := by
  cases a <;> rfl

theorem flatMap_ite_singleton {α : Type} (p : α → Prop) [DecidablePred p] (g : α → TagCall) (xs : List α) :
    xs.flatMap (fun v => if p v then [g v] else []) = (xs.filter (fun v => decide (p v))).map g := by
  induction xs with
  | nil => rfl
  | cons x xs ih => by_cases h : p x <;> simp [List.flatMap_cons, h, ih]

theorem toName_inj {a b : Str} (h : toName a = toName b) : a = b := by
  rw [← ofName_toName a, ← ofName_toName b, h]

theorem toName_eq_charset (enc : Str) : toName enc = Charset.charsetLiteral ↔ enc = "CHARSET".toList := by
  constructor
  · intro h; exact toName_inj (h.trans (by decide))
  · rintro rfl; decide

theorem ofName_ellipsis : ofName Charset.ellipsis = "...".toList := by decide

theorem map_ofName_truncate (u : List (List Nat)) :
    (Charset.truncateChars u).map ofName =
      if ((u.map ofName).length : Int) > 5 then (u.map ofName).take 4 ++ ["...".toList] else u.map ofName := by
  unfold Charset.truncateChars
  by_cases h : u.length > 5
  · have h' : ((u.map ofName).length : Int) > 5 := by simp; omega
    simp only [if_pos h, if_pos h', List.map_append, List.map_take, List.map_cons, List.map_nil, ofName_ellipsis]
  · have h' : ¬ ((u.map ofName).length : Int) > 5 := by simp; omega
    simp only [if_neg h, if_neg h']

theorem trunc_cons (h : List Nat) (t : List (List Nat)) :
    List.map (fun c => sx (ofName c)) (Charset.truncateChars (h :: t)) =
      List.map Extra.str (if ((ofName h :: List.map ofName t).length : Int) > 5 then
        List.take 4 (ofName h :: List.map ofName t) ++ ["...".toList] else ofName h :: List.map ofName t) := by
  have e : (fun c => sx (ofName c)) = Extra.str ∘ ofName := rfl
  rw [e, ← List.map_map, map_ofName_truncate]
  rfl

/-- closes one leaf of the case analysis of the charset fragment -/
macro "mime_leaf" : tactic => `(tactic| (
  simp only [erase_ok, erase_error, if_true, if_false, Bool.false_eq_true, Bool.not_true, Bool.not_false, Option.isNone_none,
    Option.isNone_some, Option.map_some, Option.map_none, Option.toList_some, Option.toList_none, List.map_cons, List.map_nil, List.map_append,
    ofCharsetTag, ofName_toName, List.append_assoc, List.cons_append, List.nil_append, replace_hint, List.append_nil, trunc_cons,
    List.isEmpty_cons, List.isEmpty_nil, Bool.true_eq_false]
  try rfl))

/-- the part of one iteration after the encoding to go on with is known: `ctx.language`, the unrepresentable characters, the hint -/
macro "mime_lang_cases" pfx:ident lang:ident : tactic => `(tactic| (
  rcases $lang:ident with _ | _ | chars
  · cases $pfx:ident <;> mime_leaf
  · simp only [HdrPy.getUnrepresentable]
    cases $pfx:ident <;> mime_leaf
  · simp only [HdrPy.getUnrepresentable, ofName_toName, Option.map_none, Option.map_some, if_true, if_false, Bool.false_eq_true]
    generalize Charset.getUnrepresentable _ _ = gu
    rcases gu with u | us
    · cases u; cases $pfx:ident <;> mime_leaf
    · cases us <;> cases $pfx:ident <;> mime_leaf))

-- the body of `for ct in cts` is the model's `contentTypeOne` (the charset fragment = C20's `Charset.checkCharset`)
set_option hygiene false in
macro "mime_body" : tactic => `(tactic| (
  intro ct s
  obtain ⟨o, encs⟩ := s
  simp only [ctStep, contentTypeOne]
  cases hm : matchContentType x.db ct with
  | none =>
    simp only [erase_ok, Option.toList_none, List.append_nil]
    rfl
  | some mm =>
    obtain ⟨pfx, enc⟩ := mm
    simp only [Charset.checkCharset, HdrPy.isAsciiCompatible, PyKit.tryExceptElse, HdrPy.isPortable, HdrPy.propose, HdrPy.ctGroup1,
      toName_eq_charset]
    cases hd : Charset.isAsciiCompatible env.interestingStr (env.dec (toName enc)) false with
    | error u =>
      cases u
      simp only []
      cases pfx <;> cases tmpl <;> by_cases hcs : enc = "CHARSET".toList <;>
        simp only [hcs, if_true, if_false, Bool.not_true, Bool.not_false, Bool.false_eq_true, erase_ok, decide_true, decide_false,
          Option.isNone_none, Option.isNone_some, Option.map_none, Option.toList_none, List.append_nil, List.map_cons, List.map_nil,
          ofCharsetTag, ofName_toName, List.nil_append, List.cons_append, List.append_assoc]
      all_goals rfl
    | ok compat =>
      simp only []
      cases compat
      · -- not ASCII-compatible: the encoding is kept
        simp only [Bool.not_false, if_true, Bool.not_true, Bool.false_eq_true, if_false]
        mime_lang_cases pfx lang
      · simp only [Bool.not_false, if_true, Bool.not_true, Bool.false_eq_true, if_false]
        by_cases hp : Charset.isPortable env.tbl true (toName enc) = true
        · simp only [hp, Bool.not_true, Bool.not_false, Bool.false_eq_true, if_true, if_false]
          mime_lang_cases pfx lang
        · have hp' : Charset.isPortable env.tbl true (toName enc) = false := by simpa using hp
          simp only [hp', Bool.not_true, Bool.not_false, Bool.false_eq_true, if_true, if_false]
          cases hpr : Charset.propose env.tbl env.c2e env.lookup (toName enc) with
          | error u => cases u; simp only [Bool.false_eq_true, if_false, erase_error]
          | ok po =>
            cases po with
            | none =>
              simp only [Option.map_none]
              mime_lang_cases pfx lang
            | some p =>
              have hp' := hrt _ _ hpr
              simp only [Option.map_some]
              rcases lang with _ | _ | chars
              · cases pfx <;> mime_leaf
              · simp only [HdrPy.getUnrepresentable]
                cases pfx <;> mime_leaf
              · simp only [HdrPy.getUnrepresentable, Option.map_none, Option.map_some, if_true, if_false, Bool.false_eq_true, hp']
                generalize Charset.getUnrepresentable _ _ = gu
                rcases gu with u | us
                · cases u; cases pfx <;> mime_leaf
                · cases us <;> cases pfx <;> mime_leaf))

theorem flatMap_ne_singleton (L : Str) (g : Str → TagCall) (xs : List Str) :
    xs.flatMap (fun v => if v ≠ L then [g v] else []) = (xs.filter (· ≠ L)).map g := by
  induction xs with
  | nil => rfl
  | cons x xs ih =>
    rw [List.flatMap_cons, ih, List.filter_cons]
    by_cases h : x = L <;> simp [h]

theorem flatMap_single_filter {α β : Type} (p : α → Bool) (g : α → β) (xs : List α) :
    xs.flatMap (fun v => ([v].filter p).map g) = (xs.filter p).map g := by
  induction xs with
  | nil => rfl
  | cons x xs ih =>
    rw [List.flatMap_cons, ih]
    cases h : p x <;> simp [List.filter_cons, h]

theorem mv_good : HeaderFields.mimeVersionGood.toList = "1.0".toList := rfl
theorem cte_good : HeaderFields.cteGood.toList = "8bit".toList := rfl

theorem ite_append_tail {α : Type} (c : Prop) [Decidable c] (a t : List α) : (if c then a ++ t else a) = a ++ (if c then t else []) := by
  split <;> simp

-- what was emitted before the Content-Type loop = the model's MIME-Version and Content-Transfer-Encoding tags
set_option hygiene false in
macro "mime_prelude" : tactic => `(tactic| (
  simp only [ite_fst, ite_snd, mimeVersionTags, cteTags, Meta.getS, dedup, HdrPy.sortedSet, sortedSet, flatMap_single_filter]
  generalize List.filter (fun x => decide (x ≠ HeaderFields.mimeVersionGood.toList)) = P
  generalize List.filter (fun x => decide (x ≠ HeaderFields.cteGood.toList)) = Q
  obtain ⟨svs, hsvs⟩ : ∃ svs, Date.sortedSet (m.get "MIME-Version".toList) = svs := ⟨_, rfl⟩
  obtain ⟨ses, hses⟩ : ∃ ses, Date.sortedSet (m.get "Content-Transfer-Encoding".toList) = ses := ⟨_, rfl⟩
  simp only [hsvs, hses]
  clear hsvs hses
  obtain ⟨vs, hvs⟩ : ∃ vs, m.get "MIME-Version".toList = vs := ⟨_, rfl⟩
  obtain ⟨es, hes⟩ : ∃ es, m.get "Content-Transfer-Encoding".toList = es := ⟨_, rfl⟩
  simp only [hvs, hes]
  clear hvs hes
  by_cases p1 : vs.length > 1 <;> by_cases p2 : vs.length = 0 <;> by_cases r1 : es.length > 1 <;> by_cases r2 : es.length = 0 <;>
    (try simp only [p1, p2, r1, r2, if_true, if_false]) <;> (try split) <;> (try split) <;> simp_all [tag, safe, List.append_assoc]
))

theorem check_mime_eq (x : Ext) (env : Charset.Env) (m : Meta) (tmpl : Bool) (lang : Option (Option (List (List Nat)))) (out : List TagCall)
    (hrt : ∀ e n, Charset.propose env.tbl env.c2e env.lookup e = .ok (some n) → toName (ofName n) = n) :
    erase (HdrChk.check_mime x env m tmpl lang out) =
      match checkMime x.db (fun n => Charset.checkCharset env n tmpl lang) m with
      | .ok o => .ok (out ++ o.tags, o.encoding)
      | .error () => .error () := by
  unfold_generated_hdrchk
  simp only [ddGet_meta, cast_gt_one, cast_eq_zero, decide_eq_true_eq, ite_ok]
  rw [forEach_emit (fun v => ([v].filter (· ≠ HeaderFields.mimeVersionGood.toList)).map fun v => tag "invalid-mime-version" [sx v, arrow, lit "1.0"]) _ ?hb1]
  case hb1 =>
    intro v out; congr 1
    by_cases h : v = "1.0".toList
    · subst h; simp [HeaderFields.mimeVersionGood]
    · have h' : v ≠ HeaderFields.mimeVersionGood.toList := h
      simp only [if_pos h, List.filter_cons, List.filter_nil, decide_eq_true_eq, if_pos h', List.map_cons, List.map_nil]
      rfl
  simp only []
  rw [forEach_emit (fun v => ([v].filter (· ≠ HeaderFields.cteGood.toList)).map fun v => tag "invalid-content-transfer-encoding" [sx v, arrow, lit "8bit"]) _ ?hb2]
  case hb2 =>
    intro v out; congr 1
    by_cases h : v = "8bit".toList
    · subst h; simp [HeaderFields.cteGood]
    · have h' : v ≠ HeaderFields.cteGood.toList := h
      simp only [if_pos h, List.filter_cons, List.filter_nil, decide_eq_true_eq, if_pos h', List.map_cons, List.map_nil]
      rfl
  simp only []
  simp only [checkMime, Meta.getS]
  by_cases hc1 : (m.get "Content-Type".toList).length > 1
  · have hc0 : ¬ (m.get "Content-Type".toList).length = 0 := by omega
    simp only [hc1, hc0, if_true, if_false, dedup]
    generalize hpre : Prod.mk _ ([] : List Str) = s0
    generalize hfe : PyKit.forEach _ _ _ = r
    have hloop : erase r = match contentTypeLoop x.db (fun n => Charset.checkCharset env n tmpl lang) (HdrPy.sortedSet (m.get "Content-Type".toList)) with
        | .error () => .error ()
        | .ok (ts, es) => .ok (s0.1 ++ ts, s0.2 ++ es) := by
      rw [← hfe]
      clear hfe hpre
      refine forEach_ct x.db _ _ ?hb _ _
      mime_body
    have hs0 : s0 = (out ++ (mimeVersionTags m ++ cteTags m ++ [tag "duplicate-header-field-content-type" []]), []) := by
      rw [← hpre]
      clear hpre hfe hloop
      congr 1
      mime_prelude
    subst hs0
    clear hfe hpre
    revert hloop
    simp only [HdrPy.sortedSet, sortedSet]
    cases contentTypeLoop x.db (fun n => Charset.checkCharset env n tmpl lang) (Date.sortedSet (m.get "Content-Type".toList)) with
    | error u => cases u; cases r <;> intro h <;> simp_all
    | ok te =>
      obtain ⟨ts, es⟩ := te
      cases r with
      | error e => intro h; cases h
      | ok v =>
        intro h
        simp only [erase_ok] at h
        injection h with h
        subst h
        simp only [List.nil_append, HdrPy.distinct, cast_eq_one, decide_eq_true_eq]
        rcases Date.sortedSet es with _ | ⟨e, _ | ⟨e2, rest⟩⟩ <;> simp [List.append_assoc]
  · by_cases hc0 : (m.get "Content-Type".toList).length = 0
    · rw [if_neg hc1, if_pos hc0]
      generalize hpre : HAppend.hAppend (α := List TagCall) _ [TagCall.mk "no-content-type-header-field" _] = pre
      have hp : pre = out ++ (mimeVersionTags m ++ cteTags m ++ [tag "no-content-type-header-field" [safe "Content-Type: text/plain; charset=<encoding>"]]) := by
        rw [← hpre]
        clear hpre
        have e : (TagCall.mk "no-content-type-header-field" [Extra.safe ("Content-Type: ".toList ++ "text/plain; charset=<encoding>".toList)]) =
            tag "no-content-type-header-field" [safe "Content-Type: text/plain; charset=<encoding>"] := by decide
        rw [e]
        generalize tag "no-content-type-header-field" [safe "Content-Type: text/plain; charset=<encoding>"] = nct
        mime_prelude
      subst hp
      simp only [hc0, if_true, erase_ok, List.append_assoc]
    · simp only [hc1, hc0, if_false, dedup]
      generalize hpre : Prod.mk _ ([] : List Str) = s0
      generalize hfe : PyKit.forEach _ _ _ = r
      have hloop : erase r = match contentTypeLoop x.db (fun n => Charset.checkCharset env n tmpl lang) (m.get "Content-Type".toList) with
          | .error () => .error ()
          | .ok (ts, es) => .ok (s0.1 ++ ts, s0.2 ++ es) := by
        rw [← hfe]
        clear hfe hpre
        refine forEach_ct x.db _ _ ?hbb _ _
        mime_body
      have hs0 : s0 = (out ++ (mimeVersionTags m ++ cteTags m), []) := by
        rw [← hpre]
        clear hpre hfe hloop
        congr 1
        mime_prelude
      subst hs0
      clear hfe hpre
      revert hloop
      simp only [HdrPy.sortedSet, sortedSet]
      cases contentTypeLoop x.db (fun n => Charset.checkCharset env n tmpl lang) (m.get "Content-Type".toList) with
      | error u => cases u; cases r <;> intro h <;> simp_all
      | ok te =>
        obtain ⟨ts, es⟩ := te
        cases r with
        | error e => intro h; cases h
        | ok v =>
          intro h
          simp only [erase_ok] at h
          injection h with h
          subst h
          simp only [List.nil_append, HdrPy.distinct, cast_eq_one, decide_eq_true_eq]
          rcases Date.sortedSet es with _ | ⟨e, _ | ⟨e2, rest⟩⟩ <;> simp [List.append_assoc]

/-! ### the side condition `hrt` for the live tables -/

theorem toName_ofName_of_small (n : List Nat) (h : ∀ c ∈ n, c < 128) : toName (ofName n) = n := by
  induction n with
  | nil => rfl
  | cons c cs ih =>
    have hc : c < 128 := h c (by simp)
    have hcs : ∀ d ∈ cs, d < 128 := fun d hd => h d (by simp [hd])
    simp only [toName, ofName, List.map_cons, List.map_map] at ih ⊢
    rw [ih hcs]
    congr 1
    have hv : c.isValidChar := Or.inl (by omega)
    rw [Char.ofNat, dif_pos hv]
    rfl

theorem assoc?_mem {β : Type} (k : Charset.Name) (l : List (Charset.Name × β)) (v : β) (h : Charset.assoc? k l = some v) : (k, v) ∈ l := by
  induction l with
  | nil => cases h
  | cons p l ih =>
    obtain ⟨k', v'⟩ := p
    unfold Charset.assoc? at h
    by_cases hk : k' = k
    · simp only [hk, if_true] at h; injection h with h; subst h; subst hk; simp
    · simp only [hk, if_false] at h; exact List.mem_cons_of_mem _ (ih h)

/-- every proposal `propose_portable_encoding` can make from the live table is ASCII, so it survives `str` ↔ code points -/
theorem live_proposals_ascii : Generated.Charset.pycodecToEncoding.all (fun p => (Charset.upper p.2).all (· < 128)) = true := by decide +kernel

theorem hrt_live (env : Charset.Env) (hc2e : env.c2e = Generated.Charset.pycodecToEncoding) (e n : Charset.Name)
    (h : Charset.propose env.tbl env.c2e env.lookup e = .ok (some n)) : toName (ofName n) = n := by
  unfold Charset.propose at h
  cases hl : env.lookup e with
  | none => rw [hl] at h; cases h
  | some codec =>
    rw [hl] at h
    simp only at h
    cases ha : Charset.assoc? codec env.c2e with
    | none => rw [ha] at h; cases h
    | some ne =>
      rw [ha] at h
      simp only at h
      split at h
      · injection h with h; injection h with h; subst h
        apply toName_ofName_of_small
        have hm := assoc?_mem _ _ _ ha
        rw [hc2e] at hm
        have := List.all_eq_true.1 live_proposals_ascii _ hm
        intro c hc
        have := List.all_eq_true.1 this c hc
        simpa using this
      · cases h

end I18n.Hdr.Gen
