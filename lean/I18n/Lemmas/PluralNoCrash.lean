import I18n.Lemmas.CheckPlurals
/-!
# `check_plurals` lets no exception escape (for C01)
-/
namespace I18n.PluralParse

theorem tooLong_false (len : Nat) : tooLong len = false := by
  simp [tooLong, maxStrDigits]

theorem flush_ne_valueError {p : Pending} {r : LexResult} (h : r ≠ .valueError) : flush p r ≠ .valueError := by
  unfold flush
  cases p with
  | none => exact h
  | some q =>
    obtain ⟨v, len⟩ := q
    cases r with
    | ok ts => simp [tooLong_false]
    | syntaxError => simp
    | valueError => exact absurd rfl h

theorem cons_ne_valueError {t : Tok} {r : LexResult} (h : r ≠ .valueError) : r.cons t ≠ .valueError := by
  cases r <;> simp_all [LexResult.cons]

theorem lexGo_ne_valueError (s : List Char) (p : Pending) : lexGo s p ≠ .valueError := by
  fun_induction lexGo s p
  all_goals try apply flush_ne_valueError
  all_goals first
    | assumption
    | (apply cons_ne_valueError; assumption)
    | (intro h; cases h)
    | (split
       · assumption
       · split
         · apply cons_ne_valueError; assumption
         · intro h; cases h)

theorem parse_ne_valueError (s : List Char) : parse s ≠ .valueError := by
  unfold parse
  have := lexGo_ne_valueError s none
  unfold lex
  split <;> simp_all
  split <;> simp

end I18n.PluralParse

namespace I18n.CheckPlurals
open I18n.PluralParse

theorem parsePluralForms_ne_valueError (s : List Char) : parsePluralForms s = .valueError → False := by
  intro h
  unfold parsePluralForms at h
  split at h
  · cases h
  · rename_i lj ds ex rj _
    rw [tooLong_false] at h
    simp only [Bool.false_eq_true, if_false] at h
    have := parse_ne_valueError ex
    split at h
    · cases h
    · cases h
    · rename_i hv; exact this hv

/-- the registry strings of `data/languages` (an input of the model) all parse: a data-integrity condition of the tool,
    not a property of the checked file -/
def RegistryParses (inp : Input) : Prop :=
  ∀ cs, inp.correct = some cs → ∀ n, ∃ r, localCorrect n cs = .ok r

theorem analyse_nocrash (inp : Input) (hreg : RegistryParses inp) (pf : List Char) (hp : Bool) (expected : List (Nat × List Char))
    (hint : Extra) (tags0 : List TagCall) (n : Nat) (e : Expr) (lj rj : List Char) (ex : Py.Exc) :
    analyse inp pf hp expected hint tags0 n e lj rj ≠ .error ex := by
  intro h
  unfold analyse at h
  simp only at h
  split at h
  · rename_i ex' heq
    cases hc : inp.correct with
    | none => rw [hc] at heq; cases heq
    | some cs =>
      rw [hc] at heq
      obtain ⟨r, hr⟩ := hreg cs hc n
      have : (Except.map some (localCorrect n cs) : Except Py.Exc _) = .error ex' := heq
      rw [hr] at this
      cases this
  · split at h
    · rename_i st' ex' hw
      exact window_nocrash _ _ _ _ _ _ _ _ _ hw
    · rename_i st fin _ hw
      split at h
      · rename_i ex'' hg
        obtain ⟨rs, hrs⟩ := gapRanges_nocrash n e _
        rw [hrs] at hg
        cases hg
      · cases h

/-- **`check_plurals` lets no exception escape**, whatever the Plural-Forms field, the messages and the language
    (given only that the tool's own registry strings parse). -/
theorem checkPlurals_nocrash (inp : Input) (hreg : RegistryParses inp) (ex : Py.Exc) : checkPlurals inp ≠ .error ex := by
  intro h
  unfold checkPlurals at h
  simp only at h
  repeat' (split at h)
  all_goals first
    | (cases h; done)
    | exact analyse_nocrash inp hreg _ _ _ _ _ _ _ _ _ ex h
    | exact parsePluralForms_ne_valueError _ ‹_›

end I18n.CheckPlurals
