import I18n.Spec.PoSpelling
import I18n.Lemmas.PoKit
/-! Lemmas for C10 `flags_split`. -/
namespace I18n.Lemmas.PoFlags
open I18n I18n.Po I18n.Spec.PoSpelling I18n.Lemmas.PoKit

theorem joinComma_eq (parts : List Text) : joinComma parts = joinSep ',' parts := by
  induction parts with
  | nil => rfl
  | cons a rest ih =>
    cases rest with
    | nil => rfl
    | cons b r => simp only [joinComma, joinSep, ih]

variable {sp : Char → Bool}

theorem render_no_comma (hsp : sp ',' = false) (x : FlagPiece) (hx : x.Valid sp) : ',' ∉ x.render := by
  intro h
  simp only [FlagPiece.render, List.mem_append] at h
  rcases h with (h | h) | h
  · have := hx.2.1 _ h; simp [hsp] at this
  · exact hx.1.1 h
  · have := hx.2.2 _ h; simp [hsp] at this

theorem strip_render (x : FlagPiece) (hx : x.Valid sp) : strip sp x.render = x.item :=
  strip_pad x.lpad x.item x.rpad hx.2.1 hx.2.2 hx.1.2.1 hx.1.2.2

/-- polib's part: `[c.strip() for c in body.split(',')]` -/
theorem split_strip (hsp : sp ',' = false) (ps : List FlagPiece) (hne : ps ≠ []) (hv : ∀ x ∈ ps, x.Valid sp) :
    (splitOn ',' (flagBody ps)).map (strip sp) = ps.map FlagPiece.item := by
  unfold flagBody
  rw [joinComma_eq, splitOn_joinSep ',' _ (by simpa using hne)
    (by intro a ha; simp only [List.mem_map] at ha; obtain ⟨x, hx, rfl⟩ := ha; exact render_no_comma hsp x (hv x hx))]
  rw [List.map_map]
  apply List.map_congr_left
  intro x hx
  exact strip_render x (hv x hx)

/-- the patched setter leaves items that are already split and trimmed alone -/
theorem setFlags_id (hsub : ∀ c, isFlagSpace c = true → sp c = true) (fs : List Text) (h : ∀ f ∈ fs, FlagItem sp f) :
    setFlags fs = fs := by
  unfold setFlags
  induction fs with
  | nil => rfl
  | cons f rest ih =>
    have hf := h f (by simp)
    have h1 : splitOn ',' f = [f] := splitOn_no_sep ',' f hf.1
    have h2 : strip isFlagSpace f = f := by
      apply strip_id
      · intro c r e
        cases hc : isFlagSpace c with
        | false => rfl
        | true => have := hf.2.1 c r e; have := hsub c hc; simp_all
      · intro c e
        cases hc : isFlagSpace c with
        | false => rfl
        | true => have := hf.2.2 c e; have := hsub c hc; simp_all
    simp only [List.flatMap_cons, h1, List.map_cons, List.map_nil, h2, List.cons_append, List.nil_append]
    rw [ih (fun g hg => h g (by simp [hg]))]

end I18n.Lemmas.PoFlags
