import I18n.Lemmas.DateBoiler
/- `fix` (model of `fix_date_format`) characterised by the specification. -/
set_option linter.unusedSimpArgs false
namespace I18n.Date
open I18n.Spec.Date I18n.Generated

/-! ### the hint -/

theorem hintOk_iff (h : List Char) : hintOk h = true ↔ HintOk h := by
  constructor
  · intro hk
    match h, hk with
    | [sg, a, b, c, d], hk =>
      simp only [hintOk, List.all_cons, List.all_nil, Bool.and_true, Bool.and_eq_true, Bool.or_eq_true,
        decide_eq_true_eq] at hk
      obtain ⟨⟨⟨hsg, ha, hb, hc, hd⟩, h1⟩, h2⟩ := hk
      refine ⟨sg, num2 a b, num2 c d, hsg, by omega, by omega, ?_⟩
      rw [pad2_num2 ha hb, pad2_num2 hc hd]; rfl
  · rintro ⟨sg, zh, zm, hsg, h1, h2, rfl⟩
    obtain ⟨a, b, e1, ha, hb, n1⟩ := num2_pad2 (n := zh) (by omega)
    obtain ⟨c, d, e2, hc, hd, n2⟩ := num2_pad2 (n := zm) (by omega)
    rw [e1, e2]
    simp only [List.cons_append, List.nil_append, hintOk, List.all_cons, List.all_nil, Bool.and_true, Bool.and_eq_true,
      Bool.or_eq_true, decide_eq_true_eq, ha, hb, hc, hd, n1, n2, and_self, and_true, true_and]
    exact ⟨⟨hsg, by omega⟩, by omega⟩

theorem hintBad_iff (hint : Option (List Char)) : hintBad hint = false ↔ ∀ x, hint = some x → HintOk x := by
  cases hint with
  | none => simp [hintBad]
  | some h =>
    simp only [hintBad, Bool.not_eq_false', hintOk_iff, Option.some.injEq]
    exact ⟨fun hk x hx => hx ▸ hk, fun hk => hk h rfl⟩

theorem hintOk_length {h : List Char} (hk : HintOk h) : h.length = 5 := by
  obtain ⟨sg, zh, zm, _, _, _, rfl⟩ := hk
  simp [pad2]

/-! ### the zone -/

theorem resolve_iff {ztxt : List Char} {Z : Zone} (hw : ZoneWritten ztxt Z.spec) (hint : Option (List Char)) (zone : List Char) :
    resolveZone Z hint = some zone ↔ ZoneResolves Z.spec hint zone := by
  cases Z with
  | none => simp [resolveZone, Zone.spec, ZoneResolves]
  | abbr a =>
    simp only [resolveZone, Zone.spec, ZoneResolves, ← lookupTz_iff]
    cases hl : lookupTz a with
    | none => simp
    | some os =>
      match os with
      | [] => simp
      | [z] => simp
      | _ :: _ :: _ => simp
  | num zh zm =>
    cases zh with
    | nil =>
      obtain ⟨_, _, _, _, _, _, ⟨hl, _⟩, _⟩ := hw
      simp at hl
    | cons sg hh => simp [resolveZone, Zone.spec, ZoneResolves, eq_comm]

theorem isDate_length {d : List Char} (h : IsDate d) : d.length = 10 := by
  obtain ⟨y, m, dd, rfl, ⟨h1, _⟩, ⟨h2, _⟩, ⟨h3, _⟩⟩ := h
  simp [h1, h2, h3]

theorem isTime_length {d : List Char} (h : IsTime d) : d.length = 5 := by
  obtain ⟨y, m, rfl, ⟨h1, _⟩, ⟨h2, _⟩⟩ := h
  simp [h1, h2]

theorem offsetShape_length {o : List Char} (h : offsetShape o = true) : o.length = 5 := by
  match o, h with
  | [_, _, _, _, _], _ => rfl

theorem resolves_length {ztxt : List Char} {z : ZoneSpec} (hw : ZoneWritten ztxt z) {hint : Option (List Char)}
    (hh : ∀ x, hint = some x → HintOk x) {zone : List Char} (hr : ZoneResolves z hint zone) : zone.length = 5 := by
  cases z with
  | numeric sg hh' mm =>
    obtain ⟨_, _, _, _, _, _, ⟨h1, _⟩, ⟨h2, _⟩⟩ := hw
    have : zone = sg :: hh' ++ mm := hr
    rw [this]; simp [h1, h2]
  | abbr a => exact offsetShape_length (offsets_shape hr zone (by simp))
  | absent => exact hintOk_length (hh zone hr)

/-! ### `fix` -/

/-- the specification of a successful normalisation (`Spec.Date.Normalises`) -/
abbrev FixOk := Normalises

theorem fix_ok_sound {s : List Char} {hint : Option (List Char)} {t : List Char} (h : fix s hint = .ok t) :
    FixOk (strip s) hint t := by
  unfold fix at h
  simp only at h
  split at h
  · cases h
  · rename_i hb
    split at h
    · cases h
    · rename_i hh
      split at h
      · cases h
      · rename_i g hg
        split at h
        · cases h
        · rename_i zone hz
          split at h
          · cases h
          · split at h
            · cases h
            · rename_i st hst
              simp only [Outcome.ok.injEq] at h
              have hw := parseDate_sound hg
              obtain ⟨_, _, _, ztxt, _, _, _, _, _, _, hzw⟩ := hw
              refine ⟨fun hb' => hb ((hasBoilerplate_iff _).mpr hb'), (hintBad_iff hint).mp (by simpa using hh),
                g.date, g.time, g.zone.spec, zone, parseDate_sound hg, (resolve_iff hzw hint zone).mp hz, h.symm, ?_⟩
              rw [← h]
              exact ⟨st.toCivil, (parseCanon_sound hst).1, (parseCanon_sound hst).2⟩

theorem fix_ok_complete {s : List Char} {hint : Option (List Char)} {t : List Char} (h : FixOk (strip s) hint t) :
    fix s hint = .ok t := by
  obtain ⟨hb, hh, date, time, z, zone, hw, hr, rfl, c, hc, ht⟩ := h
  have hb' : hasBoilerplate (strip s) = false := by
    cases hx : hasBoilerplate (strip s) with
    | false => rfl
    | true => exact absurd ((hasBoilerplate_iff _).mp hx) hb
  have hzw : ∃ ztxt, ZoneWritten ztxt z := by
    obtain ⟨_, _, _, ztxt, _, _, _, _, _, _, hzw⟩ := hw
    exact ⟨ztxt, hzw⟩
  obtain ⟨ztxt, hzw⟩ := hzw
  have hlen : (date ++ ' ' :: time ++ zone).length = 21 := by
    obtain ⟨_, _, _, _, _, hd, _, htm, _, _, _⟩ := hw
    simp [isDate_length hd, isTime_length htm, resolves_length hzw hh hr]
  have hres : resolveZone (zoneOfSpec z) hint = some zone := by
    have hzw' : ZoneWritten ztxt (zoneOfSpec z).spec := by rw [spec_zoneOfSpec]; exact hzw
    rw [resolve_iff hzw' hint zone, spec_zoneOfSpec]; exact hr
  unfold fix
  simp only [hb', Bool.false_eq_true, if_false, (hintBad_iff hint).mpr hh, parseDate_complete hw, hres, hlen, ne_eq,
    not_true_eq_false]
  rw [ht, parseCanon_complete hc]

theorem fix_ok_iff {s : List Char} {hint : Option (List Char)} {t : List Char} :
    fix s hint = .ok t ↔ FixOk (strip s) hint t := ⟨fix_ok_sound, fix_ok_complete⟩

/-! ### the other outcomes -/

theorem fix_boilerplate_iff {s : List Char} {hint : Option (List Char)} :
    fix s hint = .boilerplate ↔ HasBoilerplate (strip s) := by
  rw [← hasBoilerplate_iff]
  unfold fix
  simp only
  cases hb : hasBoilerplate (strip s) with
  | true => simp
  | false =>
    simp only [Bool.false_eq_true, if_false, iff_false]
    split
    · simp
    · split
      · simp
      · split
        · simp
        · split
          · simp
          · split <;> simp

theorem fix_hintErr_iff {s : List Char} {hint : Option (List Char)} :
    fix s hint = .hintErr ↔ ¬ HasBoilerplate (strip s) ∧ ∃ x, hint = some x ∧ ¬ HintOk x := by
  rw [← hasBoilerplate_iff]
  have hbad : hintBad hint = true ↔ ∃ x, hint = some x ∧ ¬ HintOk x := by
    cases hint with
    | none => simp [hintBad]
    | some h => simp [hintBad, ← hintOk_iff]
  unfold fix
  simp only
  cases hb : hasBoilerplate (strip s) with
  | true => simp
  | false =>
    simp only [Bool.false_eq_true, if_false, not_false_eq_true, true_and]
    cases hh : hintBad hint with
    | true => simp only [if_true, true_iff]; exact hbad.mp hh
    | false =>
      have : ¬ ∃ x, hint = some x ∧ ¬ HintOk x := fun hx => by rw [hbad.mpr hx] at hh; cases hh
      simp only [Bool.false_eq_true, if_false, this, iff_false]
      split
      · simp
      · split
        · simp
        · split
          · simp
          · split <;> simp

theorem fix_no_assert (s : List Char) (hint : Option (List Char)) : fix s hint ≠ .assertErr := by
  unfold fix
  simp only
  split
  · simp
  · split
    · simp
    · rename_i hh
      split
      · simp
      · rename_i g hg
        split
        · simp
        · rename_i zone hz
          split
          · rename_i hlen
            exfalso
            apply hlen
            have hw := parseDate_sound hg
            obtain ⟨_, _, _, ztxt, _, hd, _, htm, _, _, hzw⟩ := hw
            have hr := (resolve_iff hzw hint zone).mp hz
            have hh' := (hintBad_iff hint).mp (by simpa using hh)
            simp [isDate_length hd, isTime_length htm, resolves_length hzw hh' hr]
          · split <;> simp

/-- a rejection as DateSyntaxError: exactly when nothing else applies -/
theorem fix_syntaxErr_iff {s : List Char} {hint : Option (List Char)} :
    fix s hint = .syntaxErr ↔
      ¬ HasBoilerplate (strip s) ∧ (∀ x, hint = some x → HintOk x) ∧ ¬ ∃ t, FixOk (strip s) hint t := by
  cases hf : fix s hint with
  | ok t =>
    simp only [reduceCtorEq, false_iff, not_and]
    intro _ _ hn
    exact hn ⟨t, fix_ok_sound hf⟩
  | boilerplate =>
    simp only [reduceCtorEq, false_iff, not_and]
    intro hb; exact absurd (fix_boilerplate_iff.mp hf) hb
  | hintErr =>
    simp only [reduceCtorEq, false_iff, not_and]
    intro _ hh
    obtain ⟨_, x, hx, hnx⟩ := fix_hintErr_iff.mp hf
    exact absurd (hh x hx) hnx
  | assertErr => exact absurd hf (fix_no_assert s hint)
  | syntaxErr =>
    simp only [true_iff]
    refine ⟨fun hb => ?_, ?_, ?_⟩
    · rw [fix_boilerplate_iff.mpr hb] at hf; cases hf
    · intro x hx
      cases hk : hintOk x with
      | true => exact (hintOk_iff x).mp hk
      | false =>
        have hb : ¬ HasBoilerplate (strip s) := fun hb => by rw [fix_boilerplate_iff.mpr hb] at hf; cases hf
        have : fix s hint = .hintErr := fix_hintErr_iff.mpr ⟨hb, x, hx, fun hok => by rw [(hintOk_iff x).mpr hok] at hk; cases hk⟩
        rw [this] at hf; cases hf
    · rintro ⟨t, ht⟩
      rw [fix_ok_complete ht] at hf; cases hf

/-! ### canonical texts -/

theorem isDigit_digit (n : Nat) : isDigit (digit n) = true := by
  have e : digit n = digit (n % 10) := by unfold digit; congr 2; omega
  rw [e]; exact (digit_of_lt (by omega)).1

theorem digits_pad2 (n : Nat) : Digits 2 (pad2 n) := by
  refine ⟨rfl, ?_⟩
  intro c hc
  simp only [pad2, List.mem_cons, List.not_mem_nil, or_false] at hc
  rcases hc with rfl | rfl <;> exact (isDigit_iff _).mp (isDigit_digit _)

theorem digits_pad4 (n : Nat) : Digits 4 (pad4 n) := by
  refine ⟨rfl, ?_⟩
  intro c hc
  simp only [pad4, List.mem_cons, List.not_mem_nil, or_false] at hc
  rcases hc with rfl | rfl | rfl | rfl <;> exact (isDigit_iff _).mp (isDigit_digit _)

theorem render_written (c : Civil) :
    Written (render c) (pad4 c.year ++ '-' :: pad2 c.month ++ '-' :: pad2 c.day) (pad2 c.hour ++ ':' :: pad2 c.minute)
      (.numeric (if c.neg then '-' else '+') (pad2 c.zh) (pad2 c.zm)) := by
  refine ⟨[' '], [], [], (if c.neg then '-' else '+') :: pad2 c.zh ++ pad2 c.zm, ?_, ?_, ?_, ?_, Or.inl rfl, ?_, ?_⟩
  · unfold render; simp
  · exact ⟨_, _, _, rfl, digits_pad4 _, digits_pad2 _, digits_pad2 _⟩
  · right
    refine ⟨by simp, ?_⟩
    intro x hx
    simp only [List.mem_cons, List.not_mem_nil, or_false] at hx
    subst hx
    exact (isSpace_iff ' ').mp (by decide)
  · exact ⟨_, _, rfl, digits_pad2 _, digits_pad2 _⟩
  · intro x hx; cases hx
  · refine ⟨[], [], by simp, Or.inl rfl, Or.inl rfl, ?_, digits_pad2 _, digits_pad2 _⟩
    cases c.neg <;> simp

/-- every character of a canonical text is a digit or one of `- : +` and the space -/
theorem render_chars (c : Civil) : ∀ x ∈ render c, isDigit x = true ∨ x = '-' ∨ x = ' ' ∨ x = ':' ∨ x = '+' := by
  intro x hx
  unfold render at hx
  simp only [pad4, pad2, List.cons_append, List.nil_append, List.mem_cons, List.not_mem_nil, or_false] at hx
  have := isDigit_digit
  rcases hx with rfl | rfl | rfl | rfl | rfl | rfl | rfl | rfl | rfl | rfl | rfl | rfl | rfl | rfl | rfl | rfl | rfl | rfl | rfl | rfl | rfl <;>
    first
    | exact Or.inl (this _)
    | exact Or.inr (Or.inl rfl)
    | exact Or.inr (Or.inr (Or.inl rfl))
    | exact Or.inr (Or.inr (Or.inr (Or.inl rfl)))
    | (cases c.neg <;> simp)

theorem boiler_has_letter {s : List Char} (h : HasBoilerplate s) :
    ∃ x ∈ s, x = 'Y' ∨ x = 'M' ∨ x = 'D' ∨ x = 'H' ∨ x = 'Z' := by
  rcases h with ⟨r, rfl⟩ | ⟨l, r, rfl⟩ | ⟨l, c, r, rfl, _⟩ | ⟨l, c, r, rfl, _⟩ | ⟨l, rfl⟩ | ⟨l, r, rfl⟩ | ⟨l, rfl⟩
  · exact ⟨'Y', by simp, by simp⟩
  · exact ⟨'M', by simp, by simp⟩
  · exact ⟨'D', by simp, by simp⟩
  · exact ⟨'H', by simp, by simp⟩
  · exact ⟨'M', by simp, by simp⟩
  · exact ⟨'M', by simp, by simp⟩
  · exact ⟨'Z', by simp, by simp⟩

theorem render_no_boilerplate (c : Civil) : ¬ HasBoilerplate (render c) := by
  intro h
  obtain ⟨x, hx, hl⟩ := boiler_has_letter h
  have := render_chars c x hx
  rcases hl with rfl | rfl | rfl | rfl | rfl <;> revert this <;> decide

theorem render_strip (c : Civil) : strip (render c) = render c := by
  apply strip_id
  · intro x hx
    have : x = digit (c.year / 1000) := by
      unfold render pad4 at hx; simpa using hx.symm
    rw [this]
    exact not_white_of_digit ((isDigit_iff _).mp (isDigit_digit _))
  · intro x hx
    have : x = digit c.zm := by
      unfold render pad4 pad2 at hx
      simp [List.getLast?_cons_cons] at hx
      exact hx.symm
    rw [this]
    exact not_white_of_digit ((isDigit_iff _).mp (isDigit_digit _))

/-- a canonical text is accepted unchanged, whatever (well-formed) hint is given -/
theorem fix_canonical_text {t : List Char} (ht : Canonical t) {hint : Option (List Char)}
    (hh : ∀ x, hint = some x → HintOk x) : fix t hint = .ok t := by
  obtain ⟨c, hc, rfl⟩ := ht
  apply fix_ok_complete
  rw [render_strip]
  refine ⟨render_no_boilerplate c, hh, _, _, _, _, render_written c, rfl, ?_, c, hc, rfl⟩
  unfold render; simp

end I18n.Date
