import I18n.Model.Locale
/-
`fix_codes`: general lemmas over a bucketed table, and the decidable side conditions on the GENERATED ISO tables.
-/
namespace I18n.Locale
open I18n

/-- side condition for idempotence: every value of the table is mapped to itself -/
def tableIdem (T : Buckets) : Bool :=
  T.all fun b => b.2.all fun e => lookupIn T e.2 == some e.2

/-- side condition for "only a three-letter code with a two-letter equivalent is changed" -/
def tableShape (T : Buckets) : Bool :=
  T.all fun b => b.2.all fun e => e.1 == e.2 || (e.1.length == 3 && e.2.length == 2)

theorem lookup_mem {α : Type} [BEq α] [LawfulBEq α] {β : Type} (l : List (α × β)) (k : α) (v : β) (h : l.lookup k = some v) : (k, v) ∈ l := by
  induction l with
  | nil => simp at h
  | cons e t ih =>
    obtain ⟨k', v'⟩ := e
    simp only [List.lookup] at h
    split at h
    · rename_i heq
      have : k = k' := by simpa using heq
      cases h; subst this; simp
    · exact List.mem_cons_of_mem _ (ih h)

theorem lookupIn_mem (T : Buckets) (k v : List Char) (h : lookupIn T k = some v) :
    ∃ b ∈ T, (k, v) ∈ b.2 := by
  unfold lookupIn at h
  split at h
  · cases h
  · rename_i c _
    split at h
    · cases h
    · rename_i b hb
      exact ⟨(c, b), lookup_mem T c b hb, lookup_mem b _ v h⟩

theorem lookupIn_idem (T : Buckets) (hT : tableIdem T = true) (k v : List Char) (h : lookupIn T k = some v) :
    lookupIn T v = some v := by
  obtain ⟨b, hb, he⟩ := lookupIn_mem T k v h
  have := (List.all_eq_true.1 ((List.all_eq_true.1 hT) b hb)) (k, v) he
  simpa using this

theorem lookupIn_shape (T : Buckets) (hT : tableShape T = true) (k v : List Char) (h : lookupIn T k = some v) :
    v = k ∨ (k.length = 3 ∧ v.length = 2) := by
  obtain ⟨b, hb, he⟩ := lookupIn_mem T k v h
  have := (List.all_eq_true.1 ((List.all_eq_true.1 hT) b hb)) (k, v) he
  simp at this
  rcases this with h1 | h1
  · left; exact h1.symm
  · right; exact h1

set_option maxRecDepth 100000 in
theorem iso639_idem : tableIdem Generated.Locale.iso639 = true := by decide +kernel

set_option maxRecDepth 100000 in
theorem iso639_shape : tableShape Generated.Locale.iso639 = true := by decide +kernel


theorem lookupLanguage_idem (k v : List Char) (h : lookupLanguage k = some v) : lookupLanguage v = some v :=
  lookupIn_idem _ iso639_idem k v h

theorem lookupTerritory_some (cc c : List Char) (h : lookupTerritory cc = some c) :
    c = cc ∧ cc ∈ Generated.Locale.iso3166 := by
  unfold lookupTerritory at h
  split at h
  · rename_i hc; cases h; exact ⟨rfl, by simpa using hc⟩
  · cases h

/-- what `fix_codes` does, as one equation -/
theorem fixCodes_eq (l : Language) :
    fixCodes l =
      match lookupLanguage l.ll with
      | none => .error .fixingCodes
      | some v =>
        if (∀ c, l.cc = some c → c ∈ Generated.Locale.iso3166) then .ok ({ l with ll := v }, v != l.ll)
        else .error .fixingCodes := by
  obtain ⟨ll, cc, enc, mod⟩ := l
  unfold fixCodes
  cases h : lookupLanguage ll with
  | none => rfl
  | some v =>
    cases cc with
    | none => simp
    | some c =>
      by_cases hc : c ∈ Generated.Locale.iso3166
      · simp [lookupTerritory, hc]
      · simp [lookupTerritory, hc]

theorem fixCodes_idem (l l' : Language) (f : Bool) (h : fixCodes l = .ok (l', f)) : fixCodes l' = .ok (l', false) := by
  rw [fixCodes_eq] at h
  rw [fixCodes_eq]
  cases hv : lookupLanguage l.ll with
  | none => simp [hv] at h
  | some v =>
    simp only [hv] at h
    split at h
    · rename_i hc
      cases h
      simp [lookupLanguage_idem _ _ hv]
      exact hc
    · cases h

end I18n.Locale
