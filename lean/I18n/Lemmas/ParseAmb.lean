import I18n.Lemmas.ParseComplete
import I18n.Spec.PluralAmb
/-! The stratified C grammar `D` and plural.y's ambiguous grammar `Amb` generate the same token lists.

    `L(D) ⊆ Amb` is a direct induction.  For `Amb ⊆ L(D)`: `Amb ⊆ Flat`, the right-linear grammar
    `E → U | U op E | U ? E : E`, `U → ! U | n | INT | ( E )` (closure of `Flat` under the `Amb` rules),
    and `Flat ⊆ L(D)` by the left-insertion lemma: a unary operand and an operator can be put in front of any
    derivable list (the new operator sinks to the place its precedence gives it). -/
namespace I18n.PluralParse
open I18n I18n.Spec

theorem D_amb {k ts e} (d : D k ts e) : Amb ts := by
  induction d with
  | var => exact .var
  | int n => exact .int n
  | paren _ ih => exact .paren ih
  | not _ ih => exact .not ih
  | bin t mk _ _ hbi _ _ ihl ihr => exact .bin t (by simp [isBinary, hbi]) ihl ihr
  | up _ _ _ ih => exact ih
  | cond _ _ _ ihc iha ihb => exact .cond ihc iha ihb
  | up0 _ ih => exact ih

/-- `Flat true` = unary operands `U`, `Flat false` = expressions `E` -/
inductive Flat : Bool → List Tok → Prop
  | var : Flat true [.var]
  | int (n : Nat) : Flat true [.int n]
  | paren {ts} : Flat false ts → Flat true (.lpar :: (ts ++ [.rpar]))
  | not {ts} : Flat true ts → Flat true (.not :: ts)
  | u {ts} : Flat true ts → Flat false ts
  | bin {u r} (t : Tok) : isBinary t = true → Flat true u → Flat false r → Flat false (u ++ t :: r)
  | cond {u a b} : Flat true u → Flat false a → Flat false b → Flat false (u ++ .qm :: (a ++ .colon :: b))

theorem Flat.toE {b ts} (h : Flat b ts) : Flat false ts := by
  cases b
  · exact h
  · exact .u h

theorem Flat.notE {b ts} (h : Flat b ts) : Flat false (.not :: ts) := by
  cases h with
  | var => exact .u (.not .var)
  | int n => exact .u (.not (.int n))
  | paren h => exact .u (.not (.paren h))
  | not h => exact .u (.not (.not h))
  | u h => exact .u (.not h)
  | bin t ht hu hr => exact .bin (u := .not :: _) t ht (.not hu) hr
  | cond hu ha hb => exact .cond (u := .not :: _) (.not hu) ha hb

theorem Flat.binE {b l r} (t : Tok) (ht : isBinary t = true) (hl : Flat b l) (hr : Flat false r) :
    Flat false (l ++ t :: r) := by
  induction hl with
  | var => exact .bin t ht .var hr
  | int n => exact .bin t ht (.int n) hr
  | paren h _ => exact .bin t ht (.paren h) hr
  | not h _ => exact .bin t ht (.not h) hr
  | u h ih => exact ih
  | @bin u r' t' ht' hu _ _ ih2 =>
    have := Flat.bin t' ht' hu ih2
    simpa using this
  | @cond u a b' hu ha _ _ _ ih3 =>
    have := Flat.cond hu ha ih3
    simpa using this

theorem Flat.condE {b c a b'} (hc : Flat b c) (ha : Flat false a) (hb : Flat false b') :
    Flat false (c ++ .qm :: (a ++ .colon :: b')) := by
  induction hc with
  | var => exact .cond .var ha hb
  | int n => exact .cond (.int n) ha hb
  | paren h _ => exact .cond (.paren h) ha hb
  | not h _ => exact .cond (.not h) ha hb
  | u h ih => exact ih
  | @bin u r' t' ht' hu _ _ ih2 =>
    have := Flat.bin t' ht' hu ih2
    simpa using this
  | @cond u a2 b2 hu ha2 _ _ _ ih3 =>
    have := Flat.cond hu ha2 ih3
    simpa using this

theorem amb_flat {ts} (h : Amb ts) : Flat false ts := by
  induction h with
  | var => exact .u .var
  | int n => exact .u (.int n)
  | paren _ ih => exact .u (.paren ih)
  | not _ ih => exact ih.notE
  | bin t ht _ _ ihl ihr => exact Flat.binE t ht ihl ihr
  | cond _ _ _ ihc iha ihb => exact Flat.condE ihc iha ihb

/-- any level can be reached from the unary level -/
theorem D_lower0 {k ts e} (d : D k ts e) : D 0 ts e := by
  rcases Nat.eq_zero_or_pos k with rfl | hk
  · exact d
  · exact .up0 (D_lower d 1 (Nat.le_refl 1) hk)

/-- **Left insertion.**  In front of a list derivable at level `k`, a unary operand and an operator of level `j`
    give a list derivable at level `min k j`. -/
theorem D_insert_left {j u eu t mk} (du : D 7 u eu) (hbi : binInfo t = some (j, mk)) :
    ∀ {k r er}, D k r er → ∃ e, D (min k j) (u ++ t :: r) e := by
  obtain ⟨hj1, hj6⟩ := binInfo_level hbi
  -- a whole operand of a tighter level becomes the right operand of the new operator
  have whole : ∀ {k r er}, D k r er → j < k → ∃ e, D (min k j) (u ++ t :: r) e := by
    intro k r er d hjk
    have : min k j = j := by omega
    rw [this]
    exact ⟨_, D.bin t mk hj1 hj6 hbi (D_lower du j hj1 (by omega)) (D_lower d (j + 1) (by omega) (by omega))⟩
  intro k r er d
  induction d with
  | var => exact whole .var (by omega)
  | int n => exact whole (.int n) (by omega)
  | paren d _ => exact whole (.paren d) (by omega)
  | not d _ => exact whole (.not d) (by omega)
  | @bin k l r' a b t' mk' hk hk6 hbi' dl dr ihl _ =>
    by_cases hjk : j < k
    · exact whole (.bin t' mk' hk hk6 hbi' dl dr) hjk
    · obtain ⟨e, de⟩ := ihl
      have hm : min k j = k := by omega
      rw [hm] at de ⊢
      have := D.bin t' mk' hk hk6 hbi' de dr
      exact ⟨_, by simpa using this⟩
  | @up k ts e hk hk6 d ih =>
    obtain ⟨e', de⟩ := ih
    by_cases hjk : k + 1 ≤ j
    · have hm : min (k + 1) j = k + 1 := by omega
      have hm' : min k j = k := by omega
      rw [hm] at de
      rw [hm']
      exact ⟨e', .up hk hk6 de⟩
    · have hm : min (k + 1) j = j := by omega
      have hm' : min k j = j := by omega
      rw [hm] at de
      rw [hm']
      exact ⟨e', de⟩
  | @cond c a b ec ea eb dc da db ihc _ _ =>
    obtain ⟨e, de⟩ := ihc
    have hm : min 1 j = 1 := by omega
    rw [hm] at de
    have := D.cond de da db
    exact ⟨_, by simpa using this⟩
  | @up0 ts e d ih =>
    obtain ⟨e', de⟩ := ih
    have hm : min 1 j = 1 := by omega
    rw [hm] at de
    exact ⟨e', by simpa using D.up0 de⟩

theorem flat_D {b ts} (h : Flat b ts) : ∃ e, D (if b then 7 else 0) ts e := by
  induction h with
  | var => exact ⟨_, .var⟩
  | int n => exact ⟨_, .int n⟩
  | paren _ ih => obtain ⟨e, d⟩ := ih; exact ⟨_, .paren d⟩
  | not _ ih => obtain ⟨e, d⟩ := ih; exact ⟨_, .not d⟩
  | u _ ih => obtain ⟨e, d⟩ := ih; exact ⟨_, D_lower0 d⟩
  | @bin u r t ht _ _ ihu ihr =>
    obtain ⟨eu, du⟩ := ihu
    obtain ⟨er, dr⟩ := ihr
    simp only [isBinary, Option.isSome_iff_exists] at ht
    obtain ⟨⟨j, mk⟩, hbi⟩ := ht
    obtain ⟨e, d⟩ := D_insert_left du hbi dr
    exact ⟨e, by simpa using d⟩
  | @cond u a b _ _ _ ihu iha ihb =>
    obtain ⟨eu, du⟩ := ihu
    obtain ⟨ea, da⟩ := iha
    obtain ⟨eb, db⟩ := ihb
    have du : D 7 u eu := du
    have da : D 0 a ea := da
    have db : D 0 b eb := db
    exact ⟨_, .cond (D_lower du 1 (Nat.le_refl 1) (by omega)) da db⟩

/-- the two grammars have the same sentences -/
theorem derivable_iff_amb (ts : List Tok) : (∃ e, D 0 ts e) ↔ Amb ts :=
  ⟨fun ⟨_, d⟩ => D_amb d, fun h => by simpa using flat_D (amb_flat h)⟩

theorem accept_iff_amb (ts : List Tok) : (∃ e, parseToks ts = some e) ↔ Amb ts := by
  rw [← derivable_iff_amb]
  exact ⟨fun ⟨e, h⟩ => ⟨e, parseToks_sound h⟩, fun ⟨e, d⟩ => ⟨e, parseToks_complete d⟩⟩

end I18n.PluralParse
