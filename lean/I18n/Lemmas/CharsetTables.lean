import I18n.Model.Charset
import I18n.Spec.Charset
/-!
# C20: finite facts about the generated tables (`decide +kernel`)
-/
namespace I18n.Charset.Tables
open I18n.Charset I18n.Generated.Charset
open I18n.Spec.Charset (gettextCharsets asciiRepertoire gettextLists)

set_option maxRecDepth 100000

/-! ## pins -/

theorem repertoire_pin : interestingBytes = asciiRepertoire ∧ interestingStr = asciiRepertoire := by
  constructor <;> decide +kernel

theorem gettext_list_pin : dataPortable.map (·.1) = gettextCharsets := by decide +kernel

/-- row of a name in CodecFacts -/
def rowOf (n : Name) : Option Row := codecFacts.find? (·.name == n)

/-- `codecs.lookup(n).name` of the vanilla interpreter, as far as CodecFacts knows -/
def vanillaLookup (n : Name) : Option Name :=
  match rowOf n with
  | some r => if r.pyShips then r.codec else none
  | none => none

/-- `_read_encodings` run on the independently read data file and the interpreter's look-ups gives the tables the tool loaded -/
theorem read_encodings_pin :
    readPortable vanillaLookup dataPortable ([], []) = some (portableEncodings, pycodecToEncoding) := by decide +kernel

theorem extra_pin : extraEncodings = dataExtra.map lower := by decide +kernel

/-- `_unmangle_encoding` maps `key.replace('-', '_')` to `key` for exactly the keys of the two tables -/
theorem unmangle_pin :
    (unmangle.all fun kv => mangle kv.2 == kv.1 && ((portableEncodings.map (·.1)).contains kv.2 || extraEncodings.contains kv.2)) = true ∧
    (((portableEncodings.map (·.1)) ++ extraEncodings).all fun k => assoc? (mangle k) unmangle == some k) = true := by
  constructor <;> decide +kernel

end I18n.Charset.Tables

namespace I18n.Charset.Tables
open I18n.Charset I18n.Generated.Charset
open I18n.Spec.Charset (gettextCharsets asciiRepertoire gettextLists)

set_option maxRecDepth 100000

theorem all_rows {f : Row → Bool} (h : (codecFactsChunks.all fun ch => ch.all f) = true) :
    ∀ r ∈ codecFacts, f r = true := by
  intro r hr
  simp only [codecFacts, List.mem_flatten] at hr
  obtain ⟨ch, hch, hr⟩ := hr
  rw [List.all_eq_true] at h
  have := h ch hch
  rw [List.all_eq_true] at this
  exact this r hr

/-! ## the model reproduces every answer the tool gave -/

def exceptEq (a : Except Unit Bool) (b : Option Bool) : Bool :=
  match a, b with
  | .ok x, some y => x == y
  | .error (), none => true
  | _, _ => false

def proposeEq (a : Except Unit (Option Name)) (b : Option Name) : Bool :=
  match a with
  | .ok x => x == b
  | .error () => false

def rowModelOk (r : Row) : Bool :=
  isPortable portableEncodings true r.name == r.tPortPy
  && isPortable portableEncodings false r.name == r.tPortAny
  && proposeEq (propose portableEncodings pycodecToEncoding (fun _ => r.codec) r.name) r.tProposal
  && exceptEq (isAsciiCompatible interestingStr r.decI true) (some r.tAscii)
  && exceptEq (isAsciiCompatible interestingStr r.decI false) (if r.tUnknown then none else some r.tAscii)

theorem model_rows : (codecFactsChunks.all fun ch => ch.all rowModelOk) = true := by decide +kernel

/-! ## the laws -/

def isTextOrUde : Dec → Bool
  | .text _ => true
  | .ude => true
  | _ => false

/-- a usable text codec exists for the name -/
def usable (r : Row) : Bool := r.codec.isSome && r.isText && isTextOrUde r.decI

def asciiLaw (r : Row) : Bool := r.tAscii == (r.decI == .text asciiRepertoire)
def unknownLaw (r : Row) : Bool := r.tUnknown == !usable r
def portableLaw (r : Row) : Bool := r.tPortPy == (gettextLists r.name && r.pyShips)
def portableAnyLaw (r : Row) : Bool := r.tPortAny == gettextLists r.name
def proposalLaw (r : Row) : Bool :=
  match r.tProposal with
  | none => true
  | some p => match rowOf p with
    | none => false
    | some r' => r'.tPortPy && r.codec.isSome && r'.codec == r.codec && r'.isText

/-- `"koi8-t"` -/
def koi8t : Name := [107, 111, 105, 56, 45, 116]

theorem ascii_rows : (codecFactsChunks.all fun ch => ch.all asciiLaw) = true := by decide +kernel
theorem unknown_rows : (codecFactsChunks.all fun ch => ch.all unknownLaw) = true := by decide +kernel
theorem portable_any_rows : (codecFactsChunks.all fun ch => ch.all portableAnyLaw) = true := by decide +kernel
theorem proposal_rows : (codecFactsChunks.all fun ch => ch.all proposalLaw) = true := by decide +kernel
theorem portable_rows_partial :
    (codecFactsChunks.all fun ch => ch.all fun r => I18n.Spec.Charset.canonical r.name == koi8t || portableLaw r) = true := by decide +kernel
theorem portable_rows_refuted : (codecFacts.any fun r => !portableLaw r) = true := by decide +kernel

end I18n.Charset.Tables
