import I18n.Model.Charset
import I18n.Spec.Charset
/-!
# C20: finite facts about the generated tables (`decide +kernel`)
-/
namespace I18n.Charset.Tables
open I18n.Charset I18n.Generated.Charset
open I18n.Spec.Charset (gettextCharsets asciiRepertoire gettextLists)

set_option maxRecDepth 100000

/-! ## pins -/

theorem repertoire_pin : interestingBytes = asciiRepertoire ∧ interestingStr = asciiRepertoire := by
  constructor <;> decide +kernel

theorem gettext_list_pin : dataPortable.map (·.1) = gettextCharsets := by decide +kernel

/-- row of a name in CodecFacts -/
def rowOf (n : Name) : Option Row := codecFacts.find? (·.name == n)

/-- `codecs.lookup(n).name` of the vanilla interpreter, as far as CodecFacts knows -/
def vanillaLookup (n : Name) : Option Name :=
  match rowOf n with
  | some r => if r.pyShips then r.codec else none
  | none => none

/-- `_read_encodings` run on the independently read data file and the interpreter's look-ups gives the tables the tool loaded -/
theorem read_encodings_pin :
    readPortable vanillaLookup dataPortable ([], []) = some (portableEncodings, pycodecToEncoding) := by decide +kernel

theorem extra_pin : extraEncodings = dataExtra.map lower := by decide +kernel

/-- `_unmangle_encoding` maps `key.replace('-', '_')` to `key` for exactly the keys of the two tables -/
theorem unmangle_pin :
    (unmangle.all fun kv => mangle kv.2 == kv.1 && ((portableEncodings.map (·.1)).contains kv.2 || extraEncodings.contains kv.2)) = true ∧
    (((portableEncodings.map (·.1)) ++ extraEncodings).all fun k => assoc? (mangle k) unmangle == some k) = true := by
  constructor <;> decide +kernel

end I18n.Charset.Tables

namespace I18n.Charset.Tables
open I18n.Charset I18n.Generated.Charset
open I18n.Spec.Charset (gettextCharsets asciiRepertoire gettextLists)

set_option maxRecDepth 100000

theorem all_rows {f : Row → Bool} (h : (codecFactsChunks.all fun ch => ch.all f) = true) :
    ∀ r ∈ codecFacts, f r = true := by
  intro r hr
  simp only [codecFacts, List.mem_flatten] at hr
  obtain ⟨ch, hch, hr⟩ := hr
  rw [List.all_eq_true] at h
  have := h ch hch
  rw [List.all_eq_true] at this
  exact this r hr

/-! ## the model reproduces every answer the tool gave -/

def exceptEq (a : Except Unit Bool) (b : Option Bool) : Bool :=
  match a, b with
  | .ok x, some y => x == y
  | .error (), none => true
  | _, _ => false

def proposeEq (a : Except Unit (Option Name)) (b : Option Name) : Bool :=
  match a with
  | .ok x => x == b
  | .error () => false

def rowModelOk (r : Row) : Bool :=
  isPortable portableEncodings true r.name == r.tPortPy
  && isPortable portableEncodings false r.name == r.tPortAny
  && proposeEq (propose portableEncodings pycodecToEncoding (fun _ => r.codec) r.name) r.tProposal
  && exceptEq (isAsciiCompatible interestingStr r.decI true) (some r.tAscii)
  && exceptEq (isAsciiCompatible interestingStr r.decI false) (if r.tUnknown then none else some r.tAscii)

theorem model_rows : (codecFactsChunks.all fun ch => ch.all rowModelOk) = true := by decide +kernel

/-! ## the laws -/

def isTextOrUde : Dec → Bool
  | .text _ => true
  | .ude => true
  | _ => false

/-- a usable text codec exists for the name -/
def usable (r : Row) : Bool := r.codec.isSome && r.isText && isTextOrUde r.decI

def asciiLaw (r : Row) : Bool := r.tAscii == (r.decI == .text asciiRepertoire)
def unknownLaw (r : Row) : Bool := r.tUnknown == !usable r
def portableLaw (r : Row) : Bool := r.tPortPy == (gettextLists r.name && r.pyShips)
def portableAnyLaw (r : Row) : Bool := r.tPortAny == gettextLists r.name
def proposalLaw (r : Row) : Bool :=
  match r.tProposal with
  | none => true
  | some p => match rowOf p with
    | none => false
    | some r' => r'.tPortPy && r.codec.isSome && r'.codec == r.codec && r'.isText

/-- `"koi8-t"` -/
def koi8t : Name := [107, 111, 105, 56, 45, 116]

theorem ascii_rows : (codecFactsChunks.all fun ch => ch.all asciiLaw) = true := by decide +kernel
theorem unknown_rows : (codecFactsChunks.all fun ch => ch.all unknownLaw) = true := by decide +kernel
theorem portable_any_rows : (codecFactsChunks.all fun ch => ch.all portableAnyLaw) = true := by decide +kernel
theorem proposal_rows : (codecFactsChunks.all fun ch => ch.all proposalLaw) = true := by decide +kernel
theorem portable_rows_partial :
    (codecFactsChunks.all fun ch => ch.all fun r => I18n.Spec.Charset.canonical r.name == koi8t || portableLaw r) = true := by decide +kernel
theorem portable_rows_refuted : (codecFacts.any fun r => !portableLaw r) = true := by decide +kernel

end I18n.Charset.Tables

/-! ## which bytes the ASCII-compatibility test looks at, and which codecs can tell -/

namespace I18n.Charset.Tables
open I18n.Charset I18n.Generated.Charset
open I18n.Spec.Charset (asciiRepertoire)

set_option maxRecDepth 100000

def nm (s : String) : Name := s.toList.map Char.toNat

/-- the ASCII bytes the tool does NOT test -/
def untestedBytes : List Nat := [1, 2, 3, 5, 6, 14, 15, 16, 17, 18, 19, 20, 21, 22, 23, 24, 25, 26, 28, 29, 30, 31, 127]

theorem untested_pin : ((List.range 128).filter fun b => !interestingBytes.contains b) = untestedBytes := by decide +kernel

/-- the codecs whose verdict changes when ONE tested byte is no longer tested (narrowing), and that byte -/
def expectedDrop (codec : Option Name) : List Nat :=
  if codec = some (nm "hz") then [0x7E] else if codec = some (nm "cp864") then [0x25] else if codec = some (nm "utf-7") then [0x2B] else []

/-- the codecs whose verdict changes when ONE untested byte is tested as well (widening), and those bytes -/
def expectedAdd (codec : Option Name) : List Nat :=
  if codec = some (nm "viscii") then [0x02, 0x05, 0x06, 0x14, 0x19, 0x1E] else if codec = some (nm "iso2022_kr") then [0x0E, 0x0F] else []

def sensLaw (r : Row) : Bool := r.dropSens == expectedDrop r.codec && r.addSens == expectedAdd r.codec
/-- testing all 128 bytes is the stronger test; the two readings differ exactly on the rows some single added byte flips; a
    narrowing can only turn a "no" into a "yes" -/
def readingsLaw (r : Row) : Bool :=
  (!r.fullAsciiId || r.tAscii) && ((r.tAscii && !r.fullAsciiId) == !r.addSens.isEmpty) && (r.dropSens.isEmpty || !r.tAscii)
    && r.dropSens.all (fun b => interestingBytes.contains b) && r.addSens.all (fun b => untestedBytes.contains b)

theorem sens_rows : (codecFactsChunks.all fun ch => ch.all sensLaw) = true := by decide +kernel
theorem readings_rows : (codecFactsChunks.all fun ch => ch.all readingsLaw) = true := by decide +kernel

/-- for a byte-wise decoder `f` the verdict looks at `f` on the tested bytes only -/
theorem isAsciiCompatible_bytewise (f : Nat → Nat) (mo : Bool) :
    isAsciiCompatible interestingStr (.text (interestingBytes.map f)) mo = .ok (decide (∀ b ∈ interestingBytes, f b = b)) := by
  have hpin : interestingStr = interestingBytes := by rw [repertoire_pin.1, repertoire_pin.2]
  simp only [isAsciiCompatible, hpin]
  congr 1
  have : ∀ l : List Nat, (l.map f == l) = decide (∀ b ∈ l, f b = b) := by
    intro l
    induction l with
    | nil => simp
    | cons x xs ih =>
      have e : (List.map f (x :: xs) == x :: xs) = ((f x == x) && (List.map f xs == xs)) := by
        simp only [List.map_cons]
        rfl
      rw [e, ih]
      simp only [List.mem_cons, forall_eq_or_imp]
      by_cases h1 : f x = x <;> by_cases h2 : (∀ b ∈ xs, f b = b) <;> simp [h1, h2]
  exact this interestingBytes

end I18n.Charset.Tables
