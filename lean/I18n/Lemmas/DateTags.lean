import I18n.Lemmas.DateFix
/- `checkOne` / `checkDates` (model of `check_dates`): what is emitted for one date value, and that no exception escapes. -/
set_option linter.unusedSimpArgs false
namespace I18n.Date
open I18n.Spec.Date I18n.Generated

/-- the hint `check_dates` passes -/
def tzHint (date : List Char) (publican : Bool) : Option (List Char) :=
  if date.contains 'T' ∧ publican then some hintPublican else none

theorem hintPublican_ok : HintOk hintPublican := (hintOk_iff _).mp (by decide)

theorem tzHint_ok (date : List Char) (publican : Bool) : ∀ x, tzHint date publican = some x → HintOk x := by
  intro x hx
  unfold tzHint at hx
  split at hx
  · simp only [Option.some.injEq] at hx; subst hx; exact hintPublican_ok
  · cases hx

theorem epoch_eq : DateTables.epochMicros = gettextEpoch.minutes * 60000000 := by
  have : gettextEpoch.minutes = (ofCivil gettextEpoch).minutes := by
    rw [minutes_eq (t := ofCivil gettextEpoch) (by decide) (by decide)]; rfl
  rw [this]
  decide

def label (f : Field) : Arg := Arg.safe (f.name ++ [':'])
def tagBoiler (f : Field) (date : List Char) : Tag := ⟨"boilerplate-in-date", [label f, .str date]⟩
def tagInvalid (f : Field) (date : List Char) : Tag := ⟨"invalid-date", [label f, .str date]⟩
def tagFix (f : Field) (date fixed : List Char) : Tag := ⟨"invalid-date", [label f, .str date, .str ['=','>'], .str fixed]⟩
def tagFuture (f : Field) (date : List Char) : Tag := ⟨"date-from-future", [label f, .str date]⟩
def tagAncient (f : Field) (date : List Char) : Tag := ⟨"ancient-date", [label f, .str date]⟩

/-- the computational content of one iteration, by outcome of the normalisation -/
theorem checkOne_cases (now : Int) (f : Field) (tmpl pub : Bool) (date : List Char)
    (hex : ¬ (tmpl = true ∧ f = .po ∧ date = DateTables.boilerplateDate)) :
    match fix date (tzHint date pub) with
    | .boilerplate => checkOne now f tmpl pub date = some [tagBoiler f date]
    | .syntaxErr => checkOne now f tmpl pub date = some [tagInvalid f date]
    | .ok t => ∃ c : Civil, c.Exists ∧ t = render c ∧
        checkOne now f tmpl pub date = some (
          (if date ≠ t then [tagFix f date t] else [])
          ++ (if c.minutes * 60000000 > now then [tagFuture f date] else [])
          ++ (if c.minutes * 60000000 < gettextEpoch.minutes * 60000000 then [tagAncient f date] else []))
    | .hintErr => False
    | .assertErr => False := by
  have hfold : (if date.contains 'T' ∧ pub = true then some hintPublican else none) = tzHint date pub := rfl
  cases hf : fix date (tzHint date pub) with
  | boilerplate =>
    simp only [checkOne, hex, if_false, hfold, hf]; rfl
  | syntaxErr =>
    simp only [checkOne, hex, if_false, hfold, hf]; rfl
  | hintErr =>
    obtain ⟨_, x, hx, hnx⟩ := fix_hintErr_iff.mp hf
    exact hnx (tzHint_ok date pub x hx)
  | assertErr => exact fix_no_assert _ _ hf
  | ok t =>
    obtain ⟨_, _, _, _, _, _, _, _, _, c, hc, rfl⟩ := fix_ok_sound hf
    refine ⟨c, hc, rfl, ?_⟩
    have hm : (ofCivil c).minutes = c.minutes := by
      obtain ⟨_, _, h3, h4, _⟩ := hc
      rw [minutes_eq (t := ofCivil c) h3 h4]; rfl
    simp only [checkOne, hex, if_false, hfold, hf, parseCanon_complete hc, hm, epoch_eq]
    rfl

theorem checkOne_exempt (now : Int) (f : Field) (tmpl pub : Bool) (date : List Char)
    (hex : tmpl = true ∧ f = .po ∧ date = DateTables.boilerplateDate) : checkOne now f tmpl pub date = some [] := by
  simp only [checkOne, hex, and_self, if_true]

theorem checkOne_isSome (now : Int) (f : Field) (tmpl pub : Bool) (date : List Char) :
    (checkOne now f tmpl pub date).isSome = true := by
  by_cases hex : tmpl = true ∧ f = .po ∧ date = DateTables.boilerplateDate
  · rw [checkOne_exempt now f tmpl pub date hex]; rfl
  · have := checkOne_cases now f tmpl pub date hex
    cases hf : fix date (tzHint date pub) with
    | boilerplate => rw [hf] at this; simp only at this; rw [this]; rfl
    | syntaxErr => rw [hf] at this; simp only at this; rw [this]; rfl
    | hintErr => rw [hf] at this; exact this.elim
    | assertErr => rw [hf] at this; exact this.elim
    | ok t =>
      rw [hf] at this
      obtain ⟨c, _, _, h⟩ := this
      rw [h]; rfl

theorem checkAll_isSome (now : Int) (f : Field) (tmpl pub : Bool) (ds : List (List Char)) :
    (checkAll now f tmpl pub ds).isSome = true := by
  induction ds with
  | nil => rfl
  | cons d ds ih =>
    obtain ⟨a, ha⟩ := Option.isSome_iff_exists.mp (checkOne_isSome now f tmpl pub d)
    obtain ⟨b, hb⟩ := Option.isSome_iff_exists.mp ih
    simp [checkAll, ha, hb]

theorem checkField_isSome (c : Ctx) (f : Field) (ds : List (List Char)) : (checkField c f ds).isSome = true := by
  unfold checkField
  simp only
  split
  · obtain ⟨b, hb⟩ := Option.isSome_iff_exists.mp (checkAll_isSome c.now f c.isTemplate (isPublican c.contentType) (sortedSet ds))
    rw [hb]; rfl
  · split
    · split <;> rfl
    · exact checkAll_isSome _ _ _ _ _

theorem checkDates_isSome (c : Ctx) : (checkDates c).isSome = true := by
  unfold checkDates
  obtain ⟨a, ha⟩ := Option.isSome_iff_exists.mp (checkField_isSome c .pot c.pot)
  obtain ⟨b, hb⟩ := Option.isSome_iff_exists.mp (checkField_isSome c .po c.po)
  simp [ha, hb]

/-! ### the shape of the whole output -/

/-- the tags of the dates of one field, one after the other -/
def perDate (now : Int) (f : Field) (tmpl pub : Bool) (ds : List (List Char)) : List Tag :=
  (ds.map fun d => (checkOne now f tmpl pub d).getD []).flatten

theorem checkAll_eq (now : Int) (f : Field) (tmpl pub : Bool) (ds : List (List Char)) :
    checkAll now f tmpl pub ds = some (perDate now f tmpl pub ds) := by
  induction ds with
  | nil => rfl
  | cons d ds ih =>
    obtain ⟨a, ha⟩ := Option.isSome_iff_exists.mp (checkOne_isSome now f tmpl pub d)
    simp [checkAll, ha, ih, perDate]

/-- what `check_dates` says about one field -/
def fieldTags (c : Ctx) (f : Field) (dates : List (List Char)) : List Tag :=
  if dates.length > 1 then
    ⟨"duplicate-header-field-date", [.str f.name]⟩ :: perDate c.now f c.isTemplate (isPublican c.contentType) (sortedSet dates)
  else if dates.length = 0 then
    (if f = .pot ∧ c.isBinary = true then [] else [⟨"no-date-header-field", [.str f.name]⟩])
  else perDate c.now f c.isTemplate (isPublican c.contentType) dates

theorem checkField_eq (c : Ctx) (f : Field) (dates : List (List Char)) :
    checkField c f dates = some (fieldTags c f dates) := by
  unfold checkField fieldTags
  simp only [checkAll_eq]
  split
  · rfl
  · split
    · split <;> rfl
    · rfl

theorem checkDates_eq (c : Ctx) : checkDates c = some (fieldTags c .pot c.pot ++ fieldTags c .po c.po) := by
  unfold checkDates
  simp only [checkField_eq]

end I18n.Date
