import I18n.Model.Po
/-! Lemmas about the Python string kit of `Model/Po.lean` (`strip`, `split(None, n)`, `split(',')`). -/
namespace I18n.Lemmas.PoKit
open I18n I18n.Po

variable {p : Char → Bool}

/-- `s` is empty or begins with a character outside `p` -/
def HeadNot (p : Char → Bool) (s : Text) : Prop := ∀ c r, s = c :: r → p c = false
/-- `s` is empty or ends with a character outside `p` -/
def LastNot (p : Char → Bool) (s : Text) : Prop := ∀ c, s.getLast? = some c → p c = false

theorem dropWhile_pad (pad core : Text) (hp : ∀ c ∈ pad, p c = true) (hc : HeadNot p core) :
    (pad ++ core).dropWhile p = core := by
  induction pad with
  | nil =>
    cases core with
    | nil => rfl
    | cons c r => simp [List.dropWhile, hc c r rfl]
  | cons a as ih =>
    simp only [List.cons_append, List.dropWhile, hp a (by simp)]
    exact ih (fun c h => hp c (by simp [h]))

theorem lstrip_pad (pad core : Text) (hp : ∀ c ∈ pad, p c = true) (hc : HeadNot p core) :
    lstrip p (pad ++ core) = core := dropWhile_pad pad core hp hc

theorem headNot_reverse (s : Text) (h : LastNot p s) : HeadNot p s.reverse := by
  intro c r hr
  apply h c
  have : s = (c :: r).reverse := by rw [← hr, List.reverse_reverse]
  rw [this]; simp

theorem rstrip_pad (core pad : Text) (hp : ∀ c ∈ pad, p c = true) (hc : LastNot p core) :
    rstrip p (core ++ pad) = core := by
  unfold rstrip
  rw [List.reverse_append, dropWhile_pad pad.reverse core.reverse (by simpa using hp) (headNot_reverse core hc)]
  simp

theorem strip_pad (lpad core rpad : Text) (hl : ∀ c ∈ lpad, p c = true) (hr : ∀ c ∈ rpad, p c = true)
    (hh : HeadNot p core) (ht : LastNot p core) : strip p (lpad ++ core ++ rpad) = core := by
  unfold strip
  cases core with
  | nil =>
    have : lstrip p (lpad ++ [] ++ rpad) = [] := by
      have := dropWhile_pad (p := p) (lpad ++ rpad) [] (by intro c hc; simp at hc; rcases hc with h | h; exact hl c h; exact hr c h)
        (by intro c r h; simp at h)
      simpa [lstrip] using this
    rw [this]; rfl
  | cons a as =>
    rw [List.append_assoc, lstrip_pad lpad (a :: as ++ rpad) hl (by intro c r h; simp at h; exact h.1 ▸ hh a as rfl)]
    exact rstrip_pad (a :: as) rpad hr ht

theorem strip_id (core : Text) (hh : HeadNot p core) (ht : LastNot p core) : strip p core = core := by
  simpa using strip_pad [] core [] (by simp) (by simp) hh ht

/-! ### `split(None, n)` -/

theorem splitWs_blank (n : Nat) (s : Text) (h : ∀ c ∈ s, p c = true) : splitWs p n s = [] := by
  have : s.dropWhile p = [] := by simpa using dropWhile_pad (p := p) s [] h (by intro c r h; simp at h)
  cases n <;> simp [splitWs, this]

theorem takeWhile_tok (tok rest : Text) (hns : ∀ c ∈ tok, p c = false) (hrest : ∀ c r, rest = c :: r → p c = true) :
    (tok ++ rest).takeWhile (fun c => !p c) = tok ∧ (tok ++ rest).dropWhile (fun c => !p c) = rest := by
  induction tok with
  | nil =>
    cases rest with
    | nil => simp
    | cons c r => simp [List.takeWhile, List.dropWhile, hrest c r rfl]
  | cons a as ih =>
    have ha := hns a (by simp)
    have := ih (fun c h => hns c (by simp [h]))
    simp [List.takeWhile, List.dropWhile, ha, this]

/-- the first token: `tok` (non-empty, no white space) followed by white space or the end -/
theorem splitWs_tok (n : Nat) (tok rest : Text) (hne : tok ≠ []) (hns : ∀ c ∈ tok, p c = false)
    (hrest : ∀ c r, rest = c :: r → p c = true) :
    splitWs p (n + 1) (tok ++ rest) = tok :: splitWs p n rest := by
  obtain ⟨a, as, rfl⟩ := List.exists_cons_of_ne_nil hne
  have hd : (a :: as ++ rest).dropWhile p = a :: as ++ rest := by
    simp [List.dropWhile, hns a (by simp)]
  have := takeWhile_tok (p := p) (a :: as) rest hns hrest
  simp only [splitWs, hd]
  rw [List.cons_append] at this
  simp [this.1, this.2]

theorem dropWhile_pad' (pad s : Text) (hp : ∀ c ∈ pad, p c = true) : (pad ++ s).dropWhile p = s.dropWhile p := by
  induction pad with
  | nil => rfl
  | cons a as ih =>
    simp only [List.cons_append, List.dropWhile, hp a (by simp)]
    exact ih (fun c h => hp c (by simp [h]))

theorem splitWs_pad (n : Nat) (pad s : Text) (hp : ∀ c ∈ pad, p c = true) : splitWs p n (pad ++ s) = splitWs p n s := by
  cases n <;> simp [splitWs, dropWhile_pad' pad s hp]

theorem splitWs_ne_nil (n : Nat) (s : Text) (c : Char) (hc : c ∈ s) (hpc : p c = false) : splitWs p n s ≠ [] := by
  have : s.dropWhile p ≠ [] := by
    intro h
    have hall : ∀ x ∈ s, p x = true := by
      clear hc hpc c
      induction s with
      | nil => simp
      | cons a as ih =>
        by_cases ha : p a = true
        · simp only [List.dropWhile, ha] at h
          intro x hx; simp at hx; rcases hx with rfl | hx
          · exact ha
          · exact ih h x hx
        · simp [List.dropWhile, ha] at h
    have := hall c hc
    simp [hpc] at this
  cases n <;> simp [splitWs, this]

theorem splitWs_zero (s : Text) : splitWs p 0 s = if (s.dropWhile p).isEmpty then [] else [s.dropWhile p] := by
  simp [splitWs]

/-! ### `split(',')` -/

theorem splitOn_no_sep (sep : Char) (a : Text) (h : sep ∉ a) : splitOn sep a = [a] := by
  induction a with
  | nil => rfl
  | cons c cs ih =>
    have hc : c ≠ sep := by intro e; apply h; simp [e]
    have := ih (by intro hm; apply h; simp [hm])
    simp [splitOn, hc, this]

theorem splitOn_append_sep (sep : Char) (a rest : Text) (h : sep ∉ a) :
    splitOn sep (a ++ sep :: rest) = a :: splitOn sep rest := by
  induction a with
  | nil => simp [splitOn]
  | cons c cs ih =>
    have hc : c ≠ sep := by intro e; apply h; simp [e]
    have := ih (by intro hm; apply h; simp [hm])
    simp [splitOn, hc, this]

/-- `sep.join(parts)` -/
def joinSep (sep : Char) : List Text → Text
  | [] => []
  | [a] => a
  | a :: b :: r => a ++ sep :: joinSep sep (b :: r)

theorem splitOn_joinSep (sep : Char) (parts : List Text) (hne : parts ≠ []) (h : ∀ a ∈ parts, sep ∉ a) :
    splitOn sep (joinSep sep parts) = parts := by
  induction parts with
  | nil => exact absurd rfl hne
  | cons a rest ih =>
    cases rest with
    | nil => simpa [joinSep] using splitOn_no_sep sep a (h a (by simp))
    | cons b r =>
      have := ih (by simp) (fun x hx => h x (by simp at hx ⊢; exact Or.inr hx))
      simp only [joinSep]
      rw [splitOn_append_sep sep a _ (h a (by simp)), this]

end I18n.Lemmas.PoKit
