import I18n.Lemmas.PyBraceScan
import I18n.Spec.StrFormat
/-
python-brace: a string the model accepts is accepted by CPython's markup iterator (`Spec.StrFormat.markup`).
-/
namespace I18n.PyBrace
open I18n.BraceChars I18n.Spec.StrFormat

/-! ### characters that mean something to `parse_field` -/

def Plain (c : Char) : Prop := c ≠ '{' ∧ c ≠ '[' ∧ c ≠ '}' ∧ c ≠ ':' ∧ c ≠ '!'

theorem plain_of_word {c : Char} (h : isWord c = true) : Plain c :=
  ⟨word_ne_open h, word_ne_lbracket h, word_ne_close h, word_ne_colon h, word_ne_bang h⟩

theorem digit_ne_open {c : Char} (h : isDigit c = true) : c ≠ '{' := by rintro rfl; revert h; decide
theorem digit_ne_close {c : Char} (h : isDigit c = true) : c ≠ '}' := by rintro rfl; revert h; decide
theorem digit_ne_colon {c : Char} (h : isDigit c = true) : c ≠ ':' := by rintro rfl; revert h; decide
theorem digit_ne_bang {c : Char} (h : isDigit c = true) : c ≠ '!' := by rintro rfl; revert h; decide
theorem digit_ne_lbracket {c : Char} (h : isDigit c = true) : c ≠ '[' := by rintro rfl; revert h; decide
theorem digit_ne_dot {c : Char} (h : isDigit c = true) : c ≠ '.' := by rintro rfl; revert h; decide

theorem plain_of_digit {c : Char} (h : isDigit c = true) : Plain c :=
  ⟨digit_ne_open h, digit_ne_lbracket h, digit_ne_close h, digit_ne_colon h, digit_ne_bang h⟩

theorem plain_ident {w : List Char} (h : IdentText w) : ∀ c ∈ w, Plain c := by
  obtain ⟨c, t, rfl, hc, ht⟩ := h
  intro d hd
  simp only [List.mem_cons] at hd
  rcases hd with rfl | hd
  · exact plain_of_word (idStart_word hc)
  · exact plain_of_word (ht d hd)

theorem plain_digits {w : List Char} (h : DigitsText w) : ∀ c ∈ w, Plain c :=
  fun c hc => plain_of_digit (h.2 c hc)

/-! ### `fieldName` passes over a name -/

theorem fieldName_plain : ∀ (w r acc : List Char), (∀ c ∈ w, Plain c) →
    fieldName false (w ++ r) acc = fieldName false r (acc ++ w) := by
  intro w
  induction w with
  | nil => intro r acc _; simp
  | cons c w ih =>
    intro r acc h
    obtain ⟨h1, h2, h3, h4, h5⟩ := h c (by simp)
    simp only [List.cons_append, fieldName, h1, h2, h3, h4, h5, if_false, or_self]
    rw [ih r (acc ++ [c]) (fun d hd => h d (by simp [hd]))]
    simp

theorem fieldName_inBr : ∀ (x r acc : List Char), (∀ c ∈ x, c ≠ ']') →
    fieldName true (x ++ ']' :: r) acc = fieldName false r (acc ++ x ++ [']']) := by
  intro x
  induction x with
  | nil => intro r acc _; simp [fieldName]
  | cons c x ih =>
    intro r acc h
    have hc : c ≠ ']' := h c (by simp)
    simp only [List.cons_append, fieldName, hc, if_false]
    rw [ih r (acc ++ [c]) (fun d hd => h d (by simp [hd]))]
    simp

theorem fieldName_tail {t : List Char} (ht : NameTail topBr t) : ∀ (r acc : List Char),
    fieldName false (t ++ r) acc = fieldName false r (acc ++ t) := by
  induction ht with
  | nil => intro r acc; simp
  | @attr id t hid _ ih =>
    intro r acc
    have hdot : Plain '.' := by simp [Plain]
    have := fieldName_plain ('.' :: id) (t ++ r) acc (by
      intro c hc
      simp only [List.mem_cons] at hc
      rcases hc with rfl | hc
      · exact hdot
      · exact plain_ident hid c hc)
    simp only [List.cons_append, List.append_assoc] at this ⊢
    rw [this, ih]
    simp
  | @index x t hx hall _ ih =>
    intro r acc
    have hx' : ∀ c ∈ x, c ≠ ']' := fun c hc => by simpa [topBr] using hall c hc
    have h1 : fieldName false ('[' :: (x ++ ']' :: t) ++ r) acc = fieldName true (x ++ ']' :: (t ++ r)) (acc ++ ['[']) := by
      simp [fieldName]
    rw [h1, fieldName_inBr x (t ++ r) _ hx', ih]
    simp

theorem fieldName_name {nm : List Char} (h : NameText topBr nm) (r acc : List Char) :
    fieldName false (nm ++ r) acc = fieldName false r (acc ++ nm) := by
  obtain ⟨hd, t, rfl, hh, ht⟩ := h
  have hp : ∀ c ∈ hd, Plain c := by
    rcases hh with hh | hh
    · exact plain_digits hh
    · exact plain_ident hh
  rw [List.append_assoc, fieldName_plain hd (t ++ r) acc hp, fieldName_tail ht]
  simp

/-- the first character of a name is not `{` -/
theorem name_head_ne_open {inBr : Char → Bool} {nm : List Char} (h : NameText inBr nm) : ∃ c r, nm = c :: r ∧ c ≠ '{' := by
  obtain ⟨hd, t, rfl, hh, _⟩ := h
  rcases hh with ⟨hne, hall⟩ | ⟨c, t', rfl, hc, _⟩
  · cases hd with
    | nil => exact absurd rfl hne
    | cons c hd => exact ⟨c, hd ++ t, rfl, digit_ne_open (hall c (by simp))⟩
  · exact ⟨c, t' ++ t, rfl, word_ne_open (idStart_word hc)⟩

/-! ### `specBody` passes over a format body -/

theorem specBody_plain : ∀ (w r acc : List Char) (n : Nat) (e : Bool), (∀ c ∈ w, c ≠ '{' ∧ c ≠ '}') →
    specBody n (w ++ r) acc e = specBody n r (acc ++ w) e := by
  intro w
  induction w with
  | nil => intro r acc n e _; simp
  | cons c w ih =>
    intro r acc n e h
    obtain ⟨h1, h2⟩ := h c (by simp)
    simp only [List.cons_append, specBody, h1, h2, if_false]
    rw [ih r (acc ++ [c]) n e (fun d hd => h d (by simp [hd]))]
    simp

theorem nameTail_nobrace {t : List Char} (ht : NameTail nestedBr t) : ∀ c ∈ t, c ≠ '{' ∧ c ≠ '}' := by
  induction ht with
  | nil => intro c hc; simp at hc
  | @attr id t hid _ ih =>
    intro c hc
    simp only [List.mem_cons, List.mem_append] at hc
    rcases hc with rfl | hc | hc
    · decide
    · have := plain_ident hid c hc; exact ⟨this.1, this.2.2.1⟩
    · exact ih c hc
  | @index x t _ hall _ ih =>
    intro c hc
    simp only [List.mem_cons, List.mem_append] at hc
    rcases hc with rfl | hc | rfl | hc
    · decide
    · have := hall c hc
      simp only [nestedBr, Bool.and_eq_true, decide_eq_true_eq] at this
      exact ⟨this.1.2, this.2⟩
    · decide
    · exact ih c hc

theorem name_nobrace {nm : List Char} (h : nm = [] ∨ NameText nestedBr nm) : ∀ c ∈ nm, c ≠ '{' ∧ c ≠ '}' := by
  rcases h with rfl | ⟨hd, t, rfl, hh, ht⟩
  · intro c hc; simp at hc
  · intro c hc
    simp only [List.mem_append] at hc
    rcases hc with hc | hc
    · rcases hh with hh | hh
      · have := plain_digits hh c hc; exact ⟨this.1, this.2.2.1⟩
      · have := plain_ident hh c hc; exact ⟨this.1, this.2.2.1⟩
    · exact nameTail_nobrace ht c hc

theorem specBody_body {t : List Char} {ns : List (List Char)} (h : FormatBody t ns) : ∀ (rest acc : List Char) (e : Bool),
    specBody 1 (t ++ '}' :: rest) acc e = .ok (acc ++ t, e || t.contains '{', rest) := by
  induction h with
  | nil => intro rest acc e; simp [specBody]
  | @chr c t ns h1 h2 _ ih =>
    intro rest acc e
    have h1' : ¬ '{' = c := fun h => h1 h.symm
    simp only [List.cons_append, specBody, h1, h2, if_false]
    rw [ih rest (acc ++ [c]) e]
    simp [h1']
  | @simple nm t ns hnm _ ih =>
    intro rest acc e
    have h1 : specBody 1 ('{' :: (nm ++ '}' :: t) ++ '}' :: rest) acc e
        = specBody 2 (nm ++ '}' :: (t ++ '}' :: rest)) (acc ++ ['{']) true := by
      simp [specBody]
    rw [h1, specBody_plain nm _ _ 2 true (name_nobrace hnm)]
    simp only [specBody]
    simp [ih]

/-- the CPython field of a scanned field -/
def cpField (f : RawField) : Field :=
  { name := f.name.getD [],
    spec := (f.format.getD []).drop 1,
    conversion := match f.conversion with | some (_ :: x :: _) => some x | _ => none,
    needsExpanding := (f.format.getD []).contains '{' }

theorem word_ne_nul {c : Char} (h : isWord c = true) : c ≠ '\x00' := by rintro rfl; revert h; decide

/-- CPython's `parse_field` reads a scanned field (whose conversion is one character) exactly as the scanner did -/
theorem parseField_of_shape {cs rest : List Char} {f : RawField} (hs : FieldShape cs f rest)
    (hconv : ∀ c, f.conversion = some c → ∃ x, c = ['!', x]) :
    ∃ r0, cs = '{' :: r0 ∧ (∃ c r, r0 = c :: r ∧ c ≠ '{') ∧ parseField r0 = .ok (cpField f, rest) := by
  obtain ⟨hin, _, hname, hcv, hfmt, _⟩ := hs
  refine ⟨_, hin, ?_, ?_⟩
  · -- the first character after the brace
    cases hn : f.name with
    | some nm =>
      obtain ⟨c, r, rfl, hc⟩ := name_head_ne_open (hname nm hn)
      exact ⟨c, _, rfl, hc⟩
    | none =>
      cases hc : f.conversion with
      | some cv =>
        obtain ⟨w, rfl, _, _⟩ := hcv cv hc
        exact ⟨'!', _, rfl, by decide⟩
      | none =>
        cases hf : f.format with
        | some fm =>
          obtain ⟨t, rfl, _⟩ := hfmt fm hf
          exact ⟨':', _, rfl, by decide⟩
        | none => exact ⟨'}', _, rfl, by decide⟩
  · -- the field name
    have hfn : ∀ r, fieldName false (f.name.getD [] ++ r) [] = fieldName false r (f.name.getD []) := by
      intro r
      cases hn : f.name with
      | some nm => simpa using fieldName_name (hname nm hn) r []
      | none => simp
    simp only [parseField, List.append_assoc, hfn]
    cases hc : f.conversion with
    | some cv =>
      obtain ⟨x, rfl⟩ := hconv cv hc
      obtain ⟨w, hw, _, hall⟩ := hcv _ hc
      have hx : isWord x = true := by
        simp only [List.cons.injEq, true_and] at hw
        subst hw
        exact hall x (by simp)
      have hx0 : x ≠ '\x00' := word_ne_nul hx
      cases hf : f.format with
      | some fm =>
        obtain ⟨t, rfl, hb⟩ := hfmt fm hf
        simp [fieldName, specBody_body hb, cpField, hc, hf, hx0]
      | none => simp [fieldName, cpField, hc, hf, hx0]
    | none =>
      cases hf : f.format with
      | some fm =>
        obtain ⟨t, rfl, hb⟩ := hfmt fm hf
        simp [fieldName, specBody_body hb, cpField, hc, hf]
      | none => simp [fieldName, cpField, hc, hf]

/-! ### `MarkupIterator_next` -/

/-- the literal accumulated so far only ends up in front of the literal of the chunk -/
theorem next_lit : ∀ (cs lit : List Char), next cs lit =
    match next cs [] with
    | .error e => .error e
    | .ok none => .ok (if lit.isEmpty then none else some ({ literal := lit, field := none }, []))
    | .ok (some (ch, rest)) => .ok (some ({ ch with literal := lit ++ ch.literal }, rest)) := by
  intro cs
  induction cs with
  | nil => intro lit; simp [next]
  | cons c r ih =>
    intro lit
    by_cases h1 : c = '}'
    · subst h1
      cases r with
      | nil => simp [next]
      | cons d r' => by_cases hd : d = '}' <;> simp [next, hd]
    · by_cases h2 : c = '{'
      · subst h2
        cases r with
        | nil => simp [next]
        | cons d r' =>
          by_cases hd : d = '{'
          · simp [next, hd]
          · simp only [next, h1, hd, if_false, if_true]
            cases parseField (d :: r') with
            | error e => simp
            | ok p => simp
      · simp only [next, h1, h2, if_false]
        rw [ih (lit ++ [c]), ih ([] ++ [c])]
        cases next r [] with
        | error e => simp
        | ok o =>
          cases o with
          | none => simp
          | some p => simp

theorem next_nil_none {cs : List Char} (h : next cs [] = .ok none) : cs = [] := by
  cases cs with
  | nil => rfl
  | cons c r =>
    exfalso
    by_cases h1 : c = '}'
    · subst h1
      cases r with
      | nil => simp [next] at h
      | cons d r' => by_cases hd : d = '}' <;> simp [next, hd] at h
    · by_cases h2 : c = '{'
      · subst h2
        cases r with
        | nil => simp [next] at h
        | cons d r' =>
          by_cases hd : d = '{'
          · simp [next, hd] at h
          · simp only [next, h1, hd, if_false, if_true] at h
            cases hp : parseField (d :: r') with
            | error e => simp [hp] at h
            | ok p => simp [hp] at h
      · simp only [next, h1, h2, if_false] at h
        rw [next_lit] at h
        cases hn : next r [] with
        | error e => simp [hn] at h
        | ok o =>
          cases o with
          | none => simp [hn] at h
          | some p => simp [hn] at h

theorem fieldName_length : ∀ (cs acc : List Char) (b : Bool) (nm : List Char) (c : Char) (r : List Char),
    fieldName b cs acc = .ok (nm, c, r) → r.length < cs.length := by
  intro cs
  induction cs with
  | nil => intro acc b nm c r h; cases b <;> simp [fieldName] at h
  | cons d cs ih =>
    intro acc b nm c r h
    cases b with
    | true =>
      simp only [fieldName] at h
      split at h <;> (have := ih _ _ _ _ _ h; simp; omega)
    | false =>
      simp only [fieldName] at h
      split at h
      · cases h
      · split at h
        · have := ih _ _ _ _ _ h; simp; omega
        · split at h
          · simp only [Except.ok.injEq, Prod.mk.injEq] at h
            obtain ⟨_, _, rfl⟩ := h
            simp
          · have := ih _ _ _ _ _ h; simp; omega

theorem specBody_length : ∀ (cs acc : List Char) (n : Nat) (e : Bool) (sp : List Char) (e' : Bool) (r : List Char),
    specBody n cs acc e = .ok (sp, e', r) → r.length < cs.length := by
  intro cs
  induction cs with
  | nil => intro acc n e sp e' r h; simp [specBody] at h
  | cons d cs ih =>
    intro acc n e sp e' r h
    simp only [specBody] at h
    split at h
    · have := ih _ _ _ _ _ _ h; simp; omega
    · split at h
      · split at h
        · simp only [Except.ok.injEq, Prod.mk.injEq] at h
          obtain ⟨_, _, rfl⟩ := h
          simp
        · have := ih _ _ _ _ _ _ h; simp; omega
      · have := ih _ _ _ _ _ _ h; simp; omega

theorem parseField_length {cs rest : List Char} {f : Field} (h : parseField cs = .ok (f, rest)) : rest.length < cs.length := by
  simp only [parseField] at h
  split at h
  · cases h
  · rename_i nm c r hfn
    have h0 := fieldName_length _ _ _ _ _ _ hfn
    split at h
    · simp only [Except.ok.injEq, Prod.mk.injEq] at h
      obtain ⟨_, rfl⟩ := h
      exact h0
    · split at h
      · split at h
        · cases h
        · split at h
          · cases h
          · rename_i conv r1 c2 r2
            split at h
            · simp only [Except.ok.injEq, Prod.mk.injEq] at h
              obtain ⟨_, rfl⟩ := h
              simp at h0; omega
            · split at h
              · split at h
                · cases h
                · rename_i sp e r3 hsb
                  simp only [Except.ok.injEq, Prod.mk.injEq] at h
                  obtain ⟨_, rfl⟩ := h
                  have := specBody_length _ _ _ _ _ _ _ hsb
                  simp at h0; omega
              · cases h
      · split at h
        · cases h
        · rename_i sp e r3 hsb
          simp only [Except.ok.injEq, Prod.mk.injEq] at h
          obtain ⟨_, rfl⟩ := h
          have := specBody_length _ _ _ _ _ _ _ hsb
          omega

theorem next_length : ∀ (cs lit : List Char) (ch : Chunk) (rest : List Char),
    next cs lit = .ok (some (ch, rest)) → rest.length < cs.length ∨ cs = [] := by
  intro cs
  induction cs with
  | nil => intro lit ch rest _; exact Or.inr rfl
  | cons c r ih =>
    intro lit ch rest h
    left
    by_cases h1 : c = '}'
    · subst h1
      cases r with
      | nil => simp [next] at h
      | cons d r' =>
        by_cases hd : d = '}'
        · simp [next, hd] at h; obtain ⟨_, rfl⟩ := h; simp; omega
        · simp [next, hd] at h
    · by_cases h2 : c = '{'
      · subst h2
        cases r with
        | nil => simp [next] at h
        | cons d r' =>
          by_cases hd : d = '{'
          · simp [next, hd] at h; obtain ⟨_, rfl⟩ := h; simp; omega
          · simp only [next, h1, hd, if_false, if_true] at h
            cases hp : parseField (d :: r') with
            | error e => simp [hp] at h
            | ok p =>
              obtain ⟨f, r''⟩ := p
              simp only [hp, Except.ok.injEq, Option.some.injEq, Prod.mk.injEq] at h
              obtain ⟨_, rfl⟩ := h
              have := parseField_length hp
              simp at this ⊢; omega
      · simp only [next, h1, h2, if_false] at h
        rcases ih _ _ _ h with h' | rfl
        · simp; omega
        · simp only [next] at h
          split at h
          · cases h
          · simp only [Except.ok.injEq, Option.some.injEq, Prod.mk.injEq] at h
            obtain ⟨_, rfl⟩ := h; simp

/-- the iteration succeeds from here -/
inductive OKP : List Char → Prop where
  | done : OKP []
  | step {cs rest : List Char} {ch : Chunk} : next cs [] = .ok (some (ch, rest)) → OKP rest → OKP cs

theorem okp_markupLoop {cs : List Char} (h : OKP cs) : ∀ fuel, cs.length < fuel → ∃ chunks, markupLoop fuel cs = .ok chunks := by
  induction h with
  | done => intro fuel hf; cases fuel with
    | zero => omega
    | succ fuel => exact ⟨[], by simp [markupLoop, next]⟩
  | @step cs rest ch hn _ ih =>
    intro fuel hf
    cases fuel with
    | zero => omega
    | succ fuel =>
      have hl : rest.length < cs.length := by
        rcases next_length _ _ _ _ hn with h | rfl
        · exact h
        · simp [next] at hn
      obtain ⟨chunks, hc⟩ := ih fuel (by omega)
      exact ⟨ch :: chunks, by simp [markupLoop, hn, hc]⟩

theorem okp_parseOK {s : List Char} (h : OKP s) : parseOK s :=
  okp_markupLoop h (s.length + 1) (by omega)

theorem okp_chr {c : Char} {r : List Char} (h1 : c ≠ '{') (h2 : c ≠ '}') (h : OKP r) : OKP (c :: r) := by
  have hn : next (c :: r) [] = next r [c] := by simp [next, h1, h2]
  cases h with
  | done => exact .step (ch := { literal := [c], field := none }) (rest := []) (by rw [hn]; simp [next]) .done
  | @step _ rest ch hr hrest =>
    refine .step (ch := { ch with literal := [c] ++ ch.literal }) (rest := rest) ?_ hrest
    rw [hn, next_lit, hr]

theorem okp_open {r : List Char} (h : OKP r) : OKP ('{' :: '{' :: r) :=
  .step (ch := { literal := ['{'], field := none }) (by simp [next]) h

theorem okp_close {r : List Char} (h : OKP r) : OKP ('}' :: '}' :: r) :=
  .step (ch := { literal := ['}'], field := none }) (by simp [next]) h

theorem okp_literal {t : List Char} (ht : LiteralText t) {r : List Char} (h : OKP r) : OKP (t ++ r) := by
  induction ht with
  | nil => simpa using h
  | chr h1 h2 _ ih => exact okp_chr h1 h2 ih
  | open_ _ ih => exact okp_open ih
  | close _ ih => exact okp_close ih

theorem okp_field {cs rest : List Char} {f : RawField} (hs : FieldShape cs f rest)
    (hconv : ∀ c, f.conversion = some c → ∃ x, c = ['!', x]) (h : OKP rest) : OKP cs := by
  obtain ⟨r0, rfl, ⟨c, r, rfl, hc⟩, hpf⟩ := parseField_of_shape hs hconv
  refine .step (ch := { literal := [], field := some (cpField f) }) (rest := rest) ?_ h
  simp only [next, show ¬ ('{' : Char) = '}' by decide, hc, if_false, if_true, hpf]

/-! ### the model's loop -/

theorem fieldInit_ok_conv {cfg : Cfg} {st st' : State} {f : RawField} {tp : TySet} (h : fieldInit cfg st f = .ok (st', tp)) :
    ∀ c, f.conversion = some c → ∃ x, c = ['!', x] := by
  intro c hc
  simp only [fieldInit] at h
  split at h
  · cases h
  · split at h
    · cases h
    · simp only [hc] at h
      split at h
      · rename_i hcc
        simp only [Bool.or_eq_true, beq_iff_eq] at hcc
        rcases hcc with (rfl | rfl) | rfl
        · exact ⟨'s', rfl⟩
        · exact ⟨'r', rfl⟩
        · exact ⟨'a', rfl⟩
      · cases h

theorem loop_ok_okp (cfg : Cfg) : ∀ (fuel : Nat) (cs : List Char) (st : State) (items : List PreItem) res,
    loop cfg fuel cs st items = .ok res → OKP cs := by
  intro fuel
  induction fuel with
  | zero =>
    intro cs st items res h
    cases cs with
    | nil => exact .done
    | cons c cs => simp [loop] at h
  | succ fuel ih =>
    intro cs st items res h
    cases cs with
    | nil => exact .done
    | cons c cs =>
      simp only [loop] at h
      cases hlit : scanLiteral (c :: cs).length (c :: cs) with
      | mk t rest =>
        obtain ⟨hsplit, hlt⟩ := scanLiteral_spec _ _ _ _ hlit
        rw [hlit] at h
        cases t with
        | cons t0 ts =>
          simp only at h
          rw [hsplit]
          exact okp_literal hlt (ih _ _ _ _ h)
        | nil =>
          simp only at h
          split at h
          · cases h
          · rename_i f rest' hsf
            split at h
            · cases h
            · rename_i st' tp hfi
              exact okp_field (scanField_some hsf) (fieldInit_ok_conv hfi) (ih _ _ _ _ h)

/-- `brace_accept_parses`, for any constants -/
theorem parseWith_ok_parseOK (cfg : Cfg) (s : List Char) (r : Result) (h : parseWith cfg s = .ok r) : parseOK s := by
  simp only [parseWith] at h
  split at h
  · cases h
  · rename_i st items hl
    exact okp_parseOK (loop_ok_okp cfg _ _ _ _ _ hl)

end I18n.PyBrace
