import I18n.Spec.PoSpelling
/-! Lemmas for C10 `unescape_spelling`: the escape scanner of `Po.unescape` inverts `Spec.PoSpelling.render`. -/
namespace I18n.Lemmas.PoUnescape
open I18n I18n.Po I18n.Spec.PoSpelling

theorem isOct_octChar : ∀ a : Fin 8, isOct (octChar a) = true := by decide
theorem simpleByte_octChar : ∀ a : Fin 8, simpleByte (octChar a) = none := by decide
theorem octChar_ne_x : ∀ a : Fin 8, octChar a ≠ 'x' := by decide
theorem octVal_octChar : ∀ a : Fin 8, octVal (octChar a) = a.val := by decide
theorem isHex_hexChar : ∀ h : HexDigit, isHex h.char = true := by
  rintro ⟨v, u⟩; revert v u; decide
theorem hexVal_hexChar : ∀ h : HexDigit, hexVal h.char = h.val.val := by
  rintro ⟨v, u⟩; revert v u; decide
theorem simpleByte_letter : ∀ i : Fin 9, simpleByte (simpleLetter i) = some (UInt8.ofNat (simpleChar i).toNat) := by decide
theorem simpleChar_lt : ∀ i : Fin 9, (simpleChar i).toNat < 128 := by decide

/-- the condition on what follows an escape: nothing, or a character the escape would not swallow -/
def NextOk (f : EscForm) (r : Text) : Prop := ∀ c r', r = c :: r' → swallows f c = false

theorem escapeBody_form (f : EscForm) (r : Text) (h : NextOk f r) : escapeBody (f.body ++ r) = some (f.body, r) := by
  cases f with
  | oct1 a =>
    simp only [EscForm.body, List.cons_append, List.nil_append, escapeBody, simpleByte_octChar, isOct_octChar, Option.isSome_none]
    cases r with
    | nil => simp
    | cons c r' => have := h c r' rfl; simp [swallows] at this; simp [this]
  | oct2 a b =>
    simp only [EscForm.body, List.cons_append, List.nil_append, escapeBody, simpleByte_octChar, isOct_octChar, Option.isSome_none]
    cases r with
    | nil => simp
    | cons c r' => have := h c r' rfl; simp [swallows] at this; simp [this]
  | oct3 a b c =>
    simp [EscForm.body, escapeBody, simpleByte_octChar, isOct_octChar]
  | hex1 a =>
    have hx : simpleByte 'x' = none := by decide
    have ho : isOct 'x' = false := by decide
    simp only [EscForm.body, List.cons_append, List.nil_append, escapeBody, hx, ho, isHex_hexChar, Option.isSome_none]
    cases r with
    | nil => simp
    | cons c r' => have := h c r' rfl; simp [swallows] at this; simp [this]
  | hex2 a b =>
    have hx : simpleByte 'x' = none := by decide
    have ho : isOct 'x' = false := by decide
    simp [EscForm.body, escapeBody, hx, ho, isHex_hexChar]

inductive EUnit where
  | simple (i : Fin 9)
  | form (f : EscForm)

def EUnit.body : EUnit → Text
  | .simple i => [simpleLetter i]
  | .form f => f.body

def EUnit.byte : EUnit → UInt8
  | .simple i => UInt8.ofNat (simpleChar i).toNat
  | .form f => UInt8.ofNat f.value

def EUnit.NextOk : EUnit → Text → Prop
  | .simple _, _ => True
  | .form f, r => PoUnescape.NextOk f r

def renderUnits (us : List EUnit) : Text := us.flatMap fun u => '\\' :: u.body

theorem escapeBody_unit (u : EUnit) (r : Text) (h : u.NextOk r) : escapeBody (u.body ++ r) = some (u.body, r) := by
  cases u with
  | simple i => simp [EUnit.body, escapeBody, simpleByte_letter]
  | form f => exact escapeBody_form f r h

theorem swallows_backslash (f : EscForm) : swallows f '\\' = false := by
  cases f <;> simp [swallows] <;> decide

theorem escapeRun_units (us : List EUnit) (r : Text) (fuel : Nat) (hf : us.length ≤ fuel)
    (hr : ∀ c r', r = c :: r' → c ≠ '\\') (hlast : ∀ u, us.getLast? = some u → u.NextOk r) :
    escapeRun fuel (renderUnits us ++ r) = (us.map EUnit.body, r) := by
  induction us generalizing fuel with
  | nil =>
    cases fuel with
    | zero => simp [renderUnits, escapeRun]
    | succ n =>
      cases r with
      | nil => simp [renderUnits, escapeRun]
      | cons c r' =>
        have := hr c r' rfl
        simp only [renderUnits, List.flatMap_nil, List.nil_append, List.map_nil]
        unfold escapeRun
        split
        · rename_i heq; simp at heq; exact absurd heq.1 this
        · rfl
  | cons u us ih =>
    cases fuel with
    | zero => simp at hf
    | succ n =>
      have hn : u.NextOk (renderUnits us ++ r) := by
        cases us with
        | nil => simpa [renderUnits] using hlast u (by simp)
        | cons v vs =>
          cases u with
          | simple i => trivial
          | form f =>
            intro c r' hc
            simp [renderUnits] at hc
            rw [← hc.1]; exact swallows_backslash f
      have ih' := ih n (by simpa using hf) (by
        intro v hv; apply hlast v
        cases us with
        | nil => simp at hv
        | cons w ws => simpa [List.getLast?_cons_cons] using hv)
      have hrender : renderUnits (u :: us) ++ r = '\\' :: (u.body ++ (renderUnits us ++ r)) := by
        simp [renderUnits]
      rw [hrender]
      simp only [escapeRun, escapeBody_unit u _ hn, ih', List.map_cons]

theorem hexChar_ne_backslash : ∀ h : HexDigit, h.char ≠ '\\' := by
  rintro ⟨v, u⟩; revert v u; decide

theorem escapeByte_unit (u : EUnit) : escapeByte (fixShortX u.body) = u.byte := by
  cases u with
  | simple i => simp [EUnit.body, EUnit.byte, fixShortX, escapeByte, simpleByte_letter]
  | form f =>
    cases f with
    | oct1 a => simp [EUnit.body, EUnit.byte, EscForm.body, EscForm.value, fixShortX, escapeByte, simpleByte_octChar, octVal_octChar]
    | oct2 a b => simp [EUnit.body, EUnit.byte, EscForm.body, EscForm.value, fixShortX, escapeByte, octChar_ne_x, octVal_octChar]
    | oct3 a b c =>
      have : a.val * 64 + b.val * 8 + c.val < 256 := by omega
      simp [EUnit.body, EUnit.byte, EscForm.body, EscForm.value, fixShortX, escapeByte, octChar_ne_x, octVal_octChar, Nat.mod_eq_of_lt this]
    | hex1 a =>
      have h0 : hexVal '0' = 0 := by decide
      simp [EUnit.body, EUnit.byte, EscForm.body, EscForm.value, fixShortX, escapeByte, hexVal_hexChar, h0]
    | hex2 a b => simp [EUnit.body, EUnit.byte, EscForm.body, EscForm.value, fixShortX, escapeByte, hexVal_hexChar]

def cunits : Choice → List EUnit
  | .raw _ => []
  | .simple i => [.simple i]
  | .bytes _ forms => forms.map .form

def cisEsc : Choice → Bool
  | .raw _ => false
  | _ => true

theorem render_esc (x : Choice) (h : cisEsc x = true) : x.render = renderUnits (cunits x) := by
  cases x with
  | raw c => simp [cisEsc] at h
  | simple i => simp [Choice.render, renderUnits, cunits, EUnit.body]
  | bytes c forms => simp [Choice.render, renderUnits, cunits, EUnit.body, List.flatMap_map]

theorem renderUnits_append (a b : List EUnit) : renderUnits (a ++ b) = renderUnits a ++ renderUnits b := by
  simp [renderUnits]

theorem render_run (run : List Choice) (h : ∀ x ∈ run, cisEsc x = true) : render run = renderUnits (run.flatMap cunits) := by
  induction run with
  | nil => simp [render, renderUnits]
  | cons x xs ih =>
    have := ih (fun y hy => h y (by simp [hy]))
    simp only [render, List.flatMap_cons] at this ⊢
    rw [this, render_esc x (h x (by simp)), renderUnits_append]

variable {env : Env} {enc : Bytes} {E : Codec}

theorem encode_choice (hE : CodecOk env enc E) (x : Choice) (he : cisEsc x = true) (hv : x.Valid E) :
    E.encode x.char = some ((cunits x).map EUnit.byte) := by
  cases x with
  | raw c => simp [cisEsc] at he
  | simple i => simpa [cunits, EUnit.byte, Choice.char] using hE.ascii (simpleChar i) (simpleChar_lt i)
  | bytes c forms => simpa [cunits, EUnit.byte, Choice.char, Choice.Valid, Function.comp_def] using hv.2

theorem ascii_pairs (hascii : ∀ c : Char, c.toNat < 128 → E.encode c = some [UInt8.ofNat c.toNat])
    (hnon : ∀ (c : Char) (bs : Bytes), 128 ≤ c.toNat → E.encode c = some bs → ∃ b ∈ bs, 128 ≤ b.toNat)
    (pairs : List (Char × Bytes)) (hp : ∀ p ∈ pairs, E.encode p.1 = some p.2)
    (hall : ∀ b ∈ (pairs.map (·.2)).flatten, b.toNat < 128) :
    (pairs.map (·.2)).flatten.map (fun b => Char.ofNat b.toNat) = pairs.map (·.1) := by
  induction pairs with
  | nil => simp
  | cons p ps ih =>
    obtain ⟨c, bs⟩ := p
    have hc : c.toNat < 128 := by
      rcases Nat.lt_or_ge c.toNat 128 with h | hge
      · exact h
      · obtain ⟨b, hb, hb128⟩ := hnon c bs hge (hp (c, bs) (by simp))
        have := hall b (by simp [hb])
        omega
    have hbs : bs = [UInt8.ofNat c.toNat] := by
      have h1 := hp (c, bs) (by simp)
      rw [hascii c hc] at h1
      simpa using h1.symm
    have ih' := ih (fun p h => hp p (by simp [h])) (fun b hb => hall b (by simp at hb ⊢; exact Or.inr hb))
    simp only [List.map_cons, List.flatten_cons, ih', hbs, List.cons_append, List.nil_append]
    congr 1
    have : (UInt8.ofNat c.toNat).toNat = c.toNat := by
      simp; omega
    rw [this]; exact Char.ofNat_toNat c

theorem decodeAscii_eq (bs : Bytes) :
    decodeAscii bs = if (∀ b ∈ bs, b.toNat < 128) then some (bs.map fun b => Char.ofNat b.toNat) else none := by
  simp [decodeAscii, UInt8.lt_iff_toNat_lt]

theorem decodeRun_run (hE : CodecOk env enc E) (run : List Choice) (he : ∀ x ∈ run, cisEsc x = true)
    (hv : ∀ x ∈ run, x.Valid E) :
    decodeRun env enc ((run.flatMap cunits).map EUnit.body) = some (text run) := by
  let pairs : List (Char × Bytes) := run.map fun x => (x.char, (cunits x).map EUnit.byte)
  have hp : ∀ p ∈ pairs, E.encode p.1 = some p.2 := by
    intro p hp
    simp only [pairs, List.mem_map] at hp
    obtain ⟨x, hx, rfl⟩ := hp
    exact encode_choice hE x (he x hx) (hv x hx)
  have hbytes : ((run.flatMap cunits).map EUnit.body).map (fun b => escapeByte (fixShortX b)) = (pairs.map (·.2)).flatten := by
    simp [pairs, escapeByte_unit, List.flatMap_def, Function.comp_def]
  have htext : pairs.map (·.1) = text run := by simp [pairs, text, Function.comp_def]
  simp only [decodeRun, hbytes, decodeAscii_eq]
  by_cases hall : ∀ b ∈ (pairs.map (·.2)).flatten, b.toNat < 128
  · rw [if_pos hall, ascii_pairs hE.ascii hE.nonascii pairs hp hall, htext]
  · rw [if_neg hall, hE.decode pairs hp, htext]

theorem okSeq_tail (x : Choice) (xs : List Choice) (h : okSeq (x :: xs) = true) : okSeq xs = true := by
  cases xs with
  | nil => rfl
  | cons y ys => simp [okSeq] at h; exact h.2

theorem okSeq_drop (a b : List Choice) (h : okSeq (a ++ b) = true) : okSeq b = true := by
  induction a with
  | nil => simpa using h
  | cons x xs ih => exact ih (okSeq_tail x _ h)

theorem okSeq_adj (a : List Choice) (x y : Choice) (b : List Choice) (h : okSeq (a ++ x :: y :: b) = true) : okAdj x y = true := by
  have := okSeq_drop a _ h
  simp [okSeq] at this; exact this.1

/-- the last unit of an escape choice, and what may follow it -/
theorem last_unit_next (run : List Choice) (x : Choice) (c : Char) (r : Text)
    (hx : cisEsc x = true) (hvx : x.Valid E) (hadj : okAdj x (.raw c) = true) :
    ∀ u, ((run ++ [x]).flatMap cunits).getLast? = some u → u.NextOk (c :: r) := by
  intro u hu
  cases x with
  | raw d => simp [cisEsc] at hx
  | simple i =>
    simp [cunits, List.flatMap_append] at hu
    subst hu; trivial
  | bytes d forms =>
    have hne : forms ≠ [] := hvx.1
    simp only [List.flatMap_append, List.flatMap_cons, List.flatMap_nil, List.append_nil, cunits] at hu
    rw [List.getLast?_append, List.getLast?_map] at hu
    cases hf : forms.getLast? with
    | none => simp [List.getLast?_eq_none_iff] at hf; exact absurd hf hne
    | some f =>
      simp [hf] at hu; subst hu
      intro c' r' hc
      simp at hc
      simp [okAdj, hf] at hadj
      rw [← hc.1]; exact hadj

theorem renderUnits_length (us : List EUnit) : us.length ≤ (renderUnits us).length := by
  induction us with
  | nil => simp [renderUnits]
  | cons u us ih => simp [renderUnits] at ih ⊢; omega

theorem cunits_ne_nil (x : Choice) (hx : cisEsc x = true) (hv : x.Valid E) : cunits x ≠ [] := by
  cases x with
  | raw c => simp [cisEsc] at hx
  | simple i => simp [cunits]
  | bytes c forms => simpa [cunits] using hv.1

/-- one step of `unescapeAux` over a non-empty run of escapes followed by `r` -/
theorem unescapeAux_run (hE : CodecOk env enc E) (run : List Choice) (hne : run ≠ []) (he : ∀ x ∈ run, cisEsc x = true)
    (hv : ∀ x ∈ run, x.Valid E) (r : Text) (hr : ∀ c r', r = c :: r' → c ≠ '\\')
    (hlast : ∀ u, (run.flatMap cunits).getLast? = some u → u.NextOk r) (fuel : Nat) :
    unescapeAux env enc (fuel + 1) (render run ++ r) = (text run ++ ·) <$> unescapeAux env enc fuel r := by
  have hrun := render_run run he
  obtain ⟨x, xs, rfl⟩ := List.exists_cons_of_ne_nil hne
  have hx := cunits_ne_nil (E := E) x (he x (by simp)) (hv x (by simp))
  obtain ⟨u, us', hu⟩ := List.exists_cons_of_ne_nil hx
  have hus : (x :: xs).flatMap cunits = u :: (us' ++ xs.flatMap cunits) := by simp [hu]
  have hlen := renderUnits_length ((x :: xs).flatMap cunits)
  have hs : render (x :: xs) ++ r = '\\' :: (u.body ++ (renderUnits (us' ++ xs.flatMap cunits) ++ r)) := by
    rw [hrun, hus]; simp [renderUnits]
  have hER := escapeRun_units ((x :: xs).flatMap cunits) r (render (x :: xs) ++ r).length
    (by rw [hrun, List.length_append]; omega) hr hlast
  rw [← hrun] at hER
  have hdec := decodeRun_run hE (x :: xs) he hv
  rw [hs] at hER ⊢
  simp only [unescapeAux]
  rw [hER, hus]
  simp only [List.map_cons]
  rw [hus] at hdec
  simp only [List.map_cons] at hdec
  rw [hdec]

theorem render_append (a b : List Choice) : render (a ++ b) = render a ++ render b := by simp [render]
theorem text_append (a b : List Choice) : text (a ++ b) = text a ++ text b := by simp [text]

theorem unescapeAux_raw (c : Char) (hc : c ≠ '\\') (cs : Text) (fuel : Nat) :
    unescapeAux env enc (fuel + 1) (c :: cs) = (c :: ·) <$> unescapeAux env enc fuel cs := by
  have := escapeRun_units [] (c :: cs) (c :: cs).length (by simp) (by intro c' r' h; simp at h; rw [← h.1]; exact hc) (by simp)
  simp only [renderUnits, List.flatMap_nil, List.nil_append, List.map_nil] at this
  simp only [unescapeAux, this]

theorem unescapeAux_spelling (hE : CodecOk env enc E) (p : List Choice) :
    ∀ (run : List Choice), (∀ x ∈ run, cisEsc x = true) → (∀ x ∈ run ++ p, x.Valid E) → okSeq (run ++ p) = true →
    ∀ fuel, (render run ++ render p).length < fuel →
    unescapeAux env enc fuel (render run ++ render p) = some (text run ++ text p) := by
  induction p with
  | nil =>
    intro run he hv _ fuel hf
    cases fuel with
    | zero => simp at hf
    | succ n =>
      by_cases hne : run = []
      · subst hne; simp [render, text, unescapeAux]
      · have := unescapeAux_run hE run hne he (fun x hx => hv x (by simp [hx])) [] (by simp) (by intro u _; cases u <;> simp [EUnit.NextOk, NextOk]) n
        simp only [render, List.flatMap_nil, List.append_nil] at this ⊢
        rw [this]
        cases n <;> simp [unescapeAux, text]
  | cons y p' ih =>
    intro run he hv hok fuel hf
    cases hy : cisEsc y with
    | true =>
      have := ih (run ++ [y]) (by intro x hx; simp at hx; rcases hx with hx | rfl; exact he x hx; exact hy)
        (by simpa using hv) (by simpa using hok) fuel (by simpa [render_append, render] using hf)
      simpa [render_append, text_append, render, text] using this
    | false =>
      obtain ⟨c, rfl⟩ : ∃ c, y = .raw c := by cases y <;> simp_all [cisEsc]
      have hc : rawOk c := hv (.raw c) (by simp)
      -- the claim with an empty run
      have h0 : ∀ fuel, (render (Choice.raw c :: p')).length < fuel →
          unescapeAux env enc fuel (render (Choice.raw c :: p')) = some (text (Choice.raw c :: p')) := by
        intro fuel hf
        cases fuel with
        | zero => simp at hf
        | succ n =>
          have hrec := ih [] (by simp) (fun x hx => hv x (by simp at hx ⊢; exact Or.inr (Or.inr hx)))
            (okSeq_tail _ _ (okSeq_drop run _ hok)) n (by simp [render, Choice.render] at hf ⊢; omega)
          simp only [render, List.flatMap_cons, Choice.render, List.cons_append, List.nil_append, List.flatMap_nil] at hrec ⊢
          rw [unescapeAux_raw c hc.2.2, hrec]
          simp [text, Choice.char]
      by_cases hne : run = []
      · subst hne; simpa [render, text] using h0 fuel (by simpa [render] using hf)
      · cases fuel with
        | zero => simp at hf
        | succ n =>
          have hlast : ∀ u, (run.flatMap cunits).getLast? = some u → u.NextOk (render (Choice.raw c :: p')) := by
            obtain ⟨x, run', rfl⟩ : ∃ x run', run = run' ++ [x] := ⟨run.getLast hne, run.dropLast, (List.dropLast_concat_getLast hne).symm⟩
            have hadj : okAdj x (.raw c) = true := okSeq_adj run' x (.raw c) p' (by simpa using hok)
            exact last_unit_next run' x c (render p') (he x (by simp)) (hv x (by simp)) hadj
          have := unescapeAux_run hE run hne he (fun x hx => hv x (by simp [hx])) (render (Choice.raw c :: p'))
            (by intro c' r' h; simp [render, Choice.render] at h; rw [← h.1]; exact hc.2.2) hlast n
          rw [this, h0 n (by
            have : 0 < (render run).length := by
              obtain ⟨x, xs, rfl⟩ := List.exists_cons_of_ne_nil hne
              have hx := cunits_ne_nil (E := E) x (he x (by simp)) (hv x (by simp))
              rw [render_run _ he]
              have := renderUnits_length ((x :: xs).flatMap cunits)
              have : 0 < ((x :: xs).flatMap cunits).length := by
                simp only [List.flatMap_cons, List.length_append]
                have := List.length_pos_iff.mpr hx; omega
              omega
            simp only [List.length_append] at hf; omega)]
          simp

theorem unescape_spelling (hE : CodecOk env enc E) (p : List Choice) (hv : ∀ x ∈ p, x.Valid E) (hs : okSeq p = true) :
    unescape env enc (render p) = some (text p) := by
  have := unescapeAux_spelling hE p [] (by simp) (by simpa using hv) (by simpa using hs) ((render p).length + 1) (by simp [render])
  simpa [unescape, render, text] using this

end I18n.Lemmas.PoUnescape
