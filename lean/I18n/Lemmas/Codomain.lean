import I18n.Generated.Intexpr
import I18n.Lemmas.PyArith
import I18n.Lemmas.Eval
/-! Soundness of the range analysis (`CodomainEvaluator`) w.r.t. `Evaluator`, stated about the
    definitions the translator generates from lib/intexpr.py. -/
namespace I18n.Plural
open I18n I18n.Py I18n.Generated.Intexpr

/-- a well-formed interval inside `[0, M)` — or inside `[0, 1]`: comparison and boolean results are
    not overflow-checked by the evaluator, so at width 0 (`M = 1`) the value 1 does occur -/
def Inv (M : Int) (p : Int × Int) : Prop := 0 ≤ p.1 ∧ p.1 ≤ p.2 ∧ (p.2 < M ∨ p.2 ≤ 1)

/-- every successful value of `ev` lies in the interval -/
def Within (p : Int × Int) (ev : Except Exc Int) : Prop := ∀ v, ev = .ok v → p.1 ≤ v ∧ v ≤ p.2

/-- what the analysis result `r` claims about the evaluation outcome `ev` -/
def Sound (M : Int) (r : Option (Int × Int)) (ev : Except Exc Int) : Prop :=
  match r with
  | some p => Inv M p ∧ Within p ev
  | none => ∀ v, ev ≠ .ok v

/-- Binary arithmetic leaves. -/
theorem binop_sound {M n : Int} (op : BinOp) (x y : Int × Int) (hx : Inv M x) (hy : Inv M y) :
    ∃ r, Codomain.dispatch_BinOp M op x y = .ok r ∧
      ∀ a b, (x.1 ≤ a ∧ a ≤ x.2) → (y.1 ≤ b ∧ b ≤ y.2) →
        Sound M r (Evaluator.dispatch_BinOp M n op a b) := by
  obtain ⟨x0, x1⟩ := x
  obtain ⟨y0, y1⟩ := y
  simp only [Inv] at hx hy
  cases op
  · -- add
    simp only [Codomain.dispatch_BinOp, Codomain._visit_add, Evaluator.dispatch_BinOp, Evaluator._visit_add]
    split
    · refine ⟨_, rfl, ?_⟩
      intro a b ha hb v hv
      have := check_overflow_ok hv
      omega
    · refine ⟨_, rfl, ?_⟩
      intro a b ha hb
      refine ⟨by simp only [Inv]; omega, ?_⟩
      intro v hv
      have := check_overflow_ok hv
      simp only; omega
  · -- sub
    simp only [Codomain.dispatch_BinOp, Codomain._visit_sub, Evaluator.dispatch_BinOp, Evaluator._visit_sub]
    split
    · refine ⟨_, rfl, ?_⟩
      intro a b ha hb v hv
      have := check_overflow_ok hv
      omega
    · refine ⟨_, rfl, ?_⟩
      intro a b ha hb
      refine ⟨by simp only [Inv]; omega, ?_⟩
      intro v hv
      have := check_overflow_ok hv
      simp only; omega
  · -- mult
    simp only [Codomain.dispatch_BinOp, Codomain._visit_mult, Evaluator.dispatch_BinOp, Evaluator._visit_mult]
    have hmul : ∀ a b, (x0 ≤ a ∧ a ≤ x1) → (y0 ≤ b ∧ b ≤ y1) → x0 * y0 ≤ a * b ∧ a * b ≤ x1 * y1 := by
      intro a b ha hb
      exact ⟨Int.mul_le_mul ha.1 hb.1 hy.1 (by omega), Int.mul_le_mul ha.2 hb.2 (by omega) (by omega)⟩
    have h00 : 0 ≤ x0 * y0 := Int.mul_nonneg hx.1 hy.1
    split
    · refine ⟨_, rfl, ?_⟩
      intro a b ha hb v hv
      have := check_overflow_ok hv
      have := hmul a b ha hb
      omega
    · refine ⟨_, rfl, ?_⟩
      intro a b ha hb
      refine ⟨by simp only [Inv]; omega, ?_⟩
      intro v hv
      have := check_overflow_ok hv
      have := hmul a b ha hb
      simp only; omega
  · -- div
    simp only [Codomain.dispatch_BinOp, Codomain._visit_div, Evaluator.dispatch_BinOp, Evaluator._visit_div]
    split
    · rename_i h0
      refine ⟨_, rfl, ?_⟩
      intro a b ha hb v hv
      have hb0 : b = 0 := by
        have := congrArg Prod.fst h0; have := congrArg Prod.snd h0; simp at *; omega
      subst hb0
      simp [floordiv_zero] at hv
    · rename_i h0
      have hy1 : y1 > 0 := by
        rcases Int.lt_or_le 0 y1 with h | h
        · exact h
        · exfalso; apply h0; have : y0 = 0 := by omega
          have : y1 = 0 := by omega
          simp [*]
      have hm : 0 < max y0 1 := by omega
      simp only [hy1, ↓reduceIte, floordiv_ok hy1, floordiv_ok hm]
      refine ⟨_, rfl, ?_⟩
      intro a b ha hb
      have hq0 : 0 ≤ x0 / y1 := Int.ediv_nonneg hx.1 (by omega)
      have hq1 : x0 / y1 ≤ x1 / max y0 1 := ediv_le_ediv_anti hx.1 hx.2.1 hm (by omega)
      have hq2 : x1 / max y0 1 ≤ x1 := Int.ediv_le_self _ (by omega)
      refine ⟨by simp only [Inv]; omega, ?_⟩
      intro v hv
      rcases Int.lt_or_le 0 b with hbp | hbn
      · rw [floordiv_ok hbp] at hv
        cases hv
        have h1 : x0 / y1 ≤ a / b := ediv_le_ediv_anti hx.1 ha.1 hbp hb.2
        have h2 : a / b ≤ x1 / max y0 1 := ediv_le_ediv_anti (by omega) ha.2 hm (by omega)
        simp only; omega
      · have : b = 0 := by omega
        subst this
        simp [floordiv_zero] at hv
  · -- mod
    simp only [Codomain.dispatch_BinOp, Codomain._visit_mod, Evaluator.dispatch_BinOp, Evaluator._visit_mod]
    split
    · rename_i h0
      refine ⟨_, rfl, ?_⟩
      intro a b ha hb v hv
      have hb0 : b = 0 := by
        have := congrArg Prod.fst h0; have := congrArg Prod.snd h0; simp at *; omega
      subst hb0
      simp [mod_zero] at hv
    · rename_i h0
      have hy1 : y1 > 0 := by
        rcases Int.lt_or_le 0 y1 with h | h
        · exact h
        · exfalso; apply h0; have : y0 = 0 := by omega
          have : y1 = 0 := by omega
          simp [*]
      simp only [hy1, ↓reduceIte]
      split
      · rename_i hlt
        refine ⟨_, rfl, ?_⟩
        intro a b ha hb
        refine ⟨by simp only [Inv]; omega, ?_⟩
        intro v hv
        have hbp : 0 < b := by omega
        rw [mod_ok hbp] at hv
        cases hv
        rw [Int.emod_eq_of_lt (by omega) (by omega)]
        simp only; omega
      · refine ⟨_, rfl, ?_⟩
        intro a b ha hb
        refine ⟨by simp only [Inv]; omega, ?_⟩
        intro v hv
        rcases Int.lt_or_le 0 b with hbp | hbn
        · rw [mod_ok hbp] at hv
          cases hv
          have h1 := Int.emod_nonneg a (show b ≠ 0 by omega)
          have h2 := Int.emod_lt_of_pos a hbp
          have h3 : a % b ≤ a := emod_le_self' (by omega) hbp
          simp only; omega
        · have : b = 0 := by omega
          subst this
          simp [mod_zero] at hv


/-- Comparison leaves. -/
theorem cmpop_sound {M n : Int} (op : CmpOp) (x y : Int × Int) (hx : Inv M x) (hy : Inv M y) :
    ∃ r, Codomain.dispatch_CmpOp M op x y = .ok (some r) ∧ Inv M r ∧
      ∀ a b, (x.1 ≤ a ∧ a ≤ x.2) → (y.1 ≤ b ∧ b ≤ y.2) →
        Within r (Evaluator.dispatch_CmpOp M n op a b) := by
  obtain ⟨x0, x1⟩ := x
  obtain ⟨y0, y1⟩ := y
  simp only [Inv] at hx hy
  cases op <;>
    simp only [Codomain.dispatch_CmpOp, Evaluator.dispatch_CmpOp,
      Codomain._visit_eq, Codomain._visit_noteq, Codomain._visit_lt, Codomain._visit_lte,
      Codomain._visit_gt, Codomain._visit_gte,
      Evaluator._visit_eq, Evaluator._visit_noteq, Evaluator._visit_lt, Evaluator._visit_lte,
      Evaluator._visit_gt, Evaluator._visit_gte, Within, Inv, b2i]
  all_goals (repeat' split) 
  all_goals (refine ⟨_, rfl, ?_, ?_⟩)
  all_goals (try simp only [decide_eq_true_eq, Int.not_lt, Int.not_le] at *)
  all_goals first
    | omega
    | (simp only; omega)
    | (intro a b ha hb v hv; cases hv; (try simp only [decide_eq_true_eq]); split <;> omega)


theorem unop_sound {M n : Int} (op : UnOp) (x : Int × Int) (hx : Inv M x) :
    ∃ r, Codomain.dispatch_UnOp M op x = .ok (some r) ∧ Inv M r ∧
      ∀ a, (x.1 ≤ a ∧ a ≤ x.2) → Within r (Evaluator.dispatch_UnOp M n op a) := by
  obtain ⟨x0, x1⟩ := x
  simp only [Inv] at hx
  cases op
  simp only [Codomain.dispatch_UnOp, Evaluator.dispatch_UnOp, Codomain._visit_not, Evaluator._visit_not,
    Within, Inv, b2i]
  repeat' split
  all_goals (refine ⟨_, rfl, ?_, ?_⟩)
  all_goals first
    | omega
    | (simp only; omega)
    | (intro a ha v hv; cases hv; (try simp only [decide_eq_true_eq, Prod.mk.injEq] at *); split <;> omega)

theorem sound_none_of_error {M : Int} {ev : Except Exc Int} {e : Exc} (h : ev = .error e) : Sound M none ev := by
  intro v hv; rw [h] at hv; cases hv

/-- Main induction: the range analysis never crashes (no `assert` fires), its intervals are well
    formed, and it is sound for evaluation at every `n` in `[0, M)`. -/
theorem codomain_main {M : Int} (hM : 0 < M) (n : Int) (hn : 0 ≤ n ∧ n < M) (e : Expr) :
    ∃ r, Codomain.visit M e = .ok r ∧ Sound M r (Evaluator.visit M n e) := by
  induction e with
  | num k =>
    simp only [Codomain.visit, Evaluator.visit]
    split
    · refine ⟨_, rfl, ?_⟩
      intro v hv
      have := check_overflow_ok hv
      omega
    · refine ⟨_, rfl, ?_, ?_⟩
      · simp only [Inv]; omega
      · intro v hv
        have := check_overflow_ok hv
        simp only; omega
  | name =>
    simp only [Codomain.visit, Evaluator.visit]
    refine ⟨_, rfl, ?_, ?_⟩
    · simp only [Inv]; omega
    · intro v hv
      have := check_overflow_ok hv
      simp only; omega
  | unaryop op a iha =>
    obtain ⟨ra, ha, sa⟩ := iha
    simp only [Codomain.visit, Evaluator.visit, ha]
    cases ra with
    | none =>
      refine ⟨_, rfl, ?_⟩
      intro v hv
      cases hea : Evaluator.visit M n a with
      | error e => rw [hea] at hv; cases hv
      | ok va => exact sa va hea
    | some x =>
      obtain ⟨r, hr, hir, hw⟩ := unop_sound (n := n) op x sa.1
      simp only [hr]
      refine ⟨_, rfl, hir, ?_⟩
      cases hea : Evaluator.visit M n a with
      | error e => intro v hv; cases hv
      | ok va => exact hw va (sa.2 va hea)
  | binop a op b iha ihb =>
    obtain ⟨ra, ha, sa⟩ := iha
    obtain ⟨rb, hb, sb⟩ := ihb
    simp only [Codomain.visit, Evaluator.visit, ha, hb]
    cases ra with
    | none =>
      refine ⟨_, rfl, ?_⟩
      intro v hv
      cases hea : Evaluator.visit M n a with
      | error e => rw [hea] at hv; cases hv
      | ok va => exact sa va hea
    | some x =>
      cases rb with
      | none =>
        refine ⟨_, rfl, ?_⟩
        intro v hv
        cases hea : Evaluator.visit M n a with
        | error e => rw [hea] at hv; cases hv
        | ok va =>
          cases heb : Evaluator.visit M n b with
          | error e => rw [hea, heb] at hv; cases hv
          | ok vb => exact sb vb heb
      | some y =>
        obtain ⟨r, hr, hs⟩ := binop_sound (n := n) op x y sa.1 sb.1
        simp only [hr]
        refine ⟨_, rfl, ?_⟩
        cases hea : Evaluator.visit M n a with
        | error e =>
          have h0 := hs x.1 y.1 ⟨Int.le_refl _, sa.1.2.1⟩ ⟨Int.le_refl _, sb.1.2.1⟩
          cases r with
          | none => simp [Sound]
          | some p => exact ⟨h0.1, by intro v hv; cases hv⟩
        | ok va =>
          cases heb : Evaluator.visit M n b with
          | error e =>
            have h0 := hs x.1 y.1 ⟨Int.le_refl _, sa.1.2.1⟩ ⟨Int.le_refl _, sb.1.2.1⟩
            cases r with
            | none => simp [Sound]
            | some p => exact ⟨h0.1, by intro v hv; cases hv⟩
          | ok vb => exact hs va vb (sa.2 va hea) (sb.2 vb heb)
  | compare a op b iha ihb =>
    obtain ⟨ra, ha, sa⟩ := iha
    obtain ⟨rb, hb, sb⟩ := ihb
    simp only [Codomain.visit, Evaluator.visit, ha, hb]
    cases ra with
    | none =>
      refine ⟨_, rfl, ?_⟩
      intro v hv
      cases hea : Evaluator.visit M n a with
      | error e => rw [hea] at hv; cases hv
      | ok va => exact sa va hea
    | some x =>
      cases rb with
      | none =>
        refine ⟨_, rfl, ?_⟩
        intro v hv
        cases hea : Evaluator.visit M n a with
        | error e => rw [hea] at hv; cases hv
        | ok va =>
          cases heb : Evaluator.visit M n b with
          | error e => rw [hea, heb] at hv; cases hv
          | ok vb => exact sb vb heb
      | some y =>
        obtain ⟨r, hr, hir, hw⟩ := cmpop_sound (n := n) op x y sa.1 sb.1
        simp only [hr]
        refine ⟨_, rfl, hir, ?_⟩
        cases hea : Evaluator.visit M n a with
        | error e => intro v hv; cases hv
        | ok va =>
          cases heb : Evaluator.visit M n b with
          | error e => intro v hv; cases hv
          | ok vb => exact hw va vb (sa.2 va hea) (sb.2 vb heb)
  | boolop op a b iha ihb =>
    obtain ⟨ra, ha, sa⟩ := iha
    obtain ⟨rb, hb, sb⟩ := ihb
    cases op with
    | and =>
      simp only [Codomain.visit, Evaluator.visit, ha, hb]
      generalize Evaluator.visit M n a = ea at sa ⊢
      generalize Evaluator.visit M n b = eb at sb ⊢
      cases ra with
      | none =>
        simp
        cases ea <;> simp_all [Sound]
      | some x =>
        obtain ⟨x0, x1⟩ := x
        cases rb with
        | none =>
          simp
          cases ea <;> cases eb <;> simp_all [Sound, Inv, Within] <;> grind
        | some y =>
          obtain ⟨y0, y1⟩ := y
          simp
          cases ea <;> cases eb <;> simp_all [Sound, Inv, Within] <;> grind
    | or =>
      simp only [Codomain.visit, Evaluator.visit, ha, hb]
      generalize Evaluator.visit M n a = ea at sa ⊢
      generalize Evaluator.visit M n b = eb at sb ⊢
      cases ra with
      | none =>
        simp
        cases ea <;> simp_all [Sound]
      | some x =>
        obtain ⟨x0, x1⟩ := x
        cases rb with
        | none =>
          simp
          cases ea <;> cases eb <;> simp_all [Sound, Inv, Within] <;> grind
        | some y =>
          obtain ⟨y0, y1⟩ := y
          simp
          cases ea <;> cases eb <;> simp_all [Sound, Inv, Within] <;> grind
  | ifexp c a b ihc iha ihb =>
    obtain ⟨rc, hc, sc⟩ := ihc
    obtain ⟨ra, ha, sa⟩ := iha
    obtain ⟨rb, hb, sb⟩ := ihb
    simp only [Codomain.visit, Evaluator.visit, hc, ha, hb]
    generalize Evaluator.visit M n c = ec at sc ⊢
    generalize Evaluator.visit M n a = ea at sa ⊢
    generalize Evaluator.visit M n b = eb at sb ⊢
    cases rc with
    | none =>
      simp
      cases ec <;> simp_all [Sound]
    | some t =>
      obtain ⟨t0, t1⟩ := t
      cases ra with
      | none =>
        cases rb with
        | none =>
          simp
          cases ec <;> cases ea <;> cases eb <;> simp_all [Sound, Inv, Within] <;> grind
        | some y =>
          obtain ⟨y0, y1⟩ := y
          simp
          cases ec <;> cases ea <;> cases eb <;> simp_all [Sound, Inv, Within] <;> grind
      | some x =>
        obtain ⟨x0, x1⟩ := x
        cases rb with
        | none =>
          simp
          cases ec <;> cases ea <;> cases eb <;> simp_all [Sound, Inv, Within] <;> grind
        | some y =>
          obtain ⟨y0, y1⟩ := y
          simp
          by_cases h1 : 0 < t1 <;> by_cases h0 : t0 = 0 <;> simp only [h1, h0, ↓reduceIte] <;>
            refine ⟨_, rfl, ?_⟩ <;> cases ec <;> simp_all [Sound, Inv, Within] <;> grind

end I18n.Plural
