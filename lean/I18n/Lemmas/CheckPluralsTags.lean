import I18n.Lemmas.PluralNoCrash
/-!
`check_plurals` as a whole: the list of tags it emits, part by part (for the clauses of C07 about the header syntax,
the number of plural forms, clean declarations and the registry).
-/
namespace I18n.CheckPlurals
open I18n I18n.Py I18n.Plural I18n.PluralParse

/-! ## the parts of the report -/

/-- the header values `check_plurals` goes on with, after the duplicate handling -/
def headerValues (inp : Input) : List (List Char) :=
  if inp.pluralForms.length > 1 then sortedSet inp.pluralForms else inp.pluralForms

def dupTags (inp : Input) : List TagCall :=
  if inp.pluralForms.length > 1 then [⟨"duplicate-header-field-plural-forms", []⟩] else []

def inconsistentTags (expected : List (Nat × List Char)) : List TagCall :=
  if expected.length > 1 then
    [⟨"inconsistent-number-of-plural-forms",
      (((sortExpected expected).map fun p => [Extra.int p.1, .safe p.2, .str "!=".toList]).flatten).dropLast⟩]
  else []

def junkTags (lj rj : List Char) : List TagCall :=
  (if lj.isEmpty then [] else [⟨"leading-junk-in-plural-forms", [.str lj]⟩]) ++
  (if rj.isEmpty then [] else [⟨"trailing-junk-in-plural-forms", [.str rj]⟩])

def nplTags (n : Nat) (expected : List (Nat × List Char)) : List TagCall :=
  match expected with
  | [(k, _)] => if n ≠ k then [⟨"incorrect-number-of-plural-forms",
      [.int n, .safe "(Plural-Forms header field)".toList, .str "!=".toList, .int k, .safe "(number of msgstr items)".toList]⟩] else []
  | _ => []

def unusualTag (hp : Bool) (pf : List Char) (hint : Extra) : TagCall :=
  ⟨if hp then "unusual-plural-forms" else "unusual-unused-plural-forms", [.str pf, .str "=>".toList, hint]⟩

def syntaxTag (hp : Bool) (pf : List Char) (hint : Extra) : TagCall :=
  ⟨tagName "syntax-error-in" hp, [.str pf, .str "=>".toList, hint]⟩

/-- the registry's declarations with the declared nplurals (`locally_correct_plural_forms`), if there is a language -/
def lcsOf (inp : Input) (n : Nat) : Except Py.Exc (Option (List (Nat × Expr))) :=
  match inp.correct with | none => .ok none | some cs => (localCorrect n cs).map some

/-- lines 442-448: the tag for "no declaration of the registry has this nplurals", and the one to compare with -/
def pickLc (ut : TagCall) : Option (List (Nat × Expr)) → List TagCall × Option (Nat × Expr)
  | none => ([], none)
  | some [] => ([ut], none)
  | some [x] => ([], some x)
  | some _ => ([], none)

def gapTags (hp : Bool) (rs : List (Nat × Nat)) : List TagCall :=
  rs.map fun r => ⟨tagName "codomain-error-in" hp, [.safe ("f(x) != ".toList ++ formatRange r.1 r.2)]⟩

def hasPlurals (inp : Input) : Bool := (scanMsgs inp.msgs false []).1
def expectedOf (inp : Input) : List (Nat × List Char) := (scanMsgs inp.msgs false []).2
def tags0Of (inp : Input) : List TagCall := dupTags inp ++ inconsistentTags (expectedOf inp)

theorem analyse_eq (inp : Input) (pf : List Char) (hp : Bool) (expected : List (Nat × List Char)) (hint : Extra)
    (tags0 : List TagCall) (n : Nat) (e : Expr) (lj rj : List Char) :
    analyse inp pf hp expected hint tags0 n e lj rj =
      match lcsOf inp n with
      | .error ex => .error ex
      | .ok lcs =>
        match window n e (pickLc (unusualTag hp pf hint) lcs).2 hp (unusualTag hp pf hint) (List.range codomainLimit)
            ⟨tags0 ++ junkTags lj rj ++ nplTags n expected ++ (pickLc (unusualTag hp pf hint) lcs).1, [], false⟩ with
        | (_, .crashed ex) => .error ex
        | (st, fin) =>
          match gapRanges n e (completedOf st fin) with
          | .error ex => .error ex
          | .ok rs => .ok ⟨st.tags ++ gapTags hp rs, if rs.isEmpty then completedOf st fin else none⟩ := by
  rfl

/-- a non-template catalog with one (distinct) Plural-Forms value: what `check_plurals` does -/
theorem checkPlurals_single (inp : Input) (pf : List Char) (hv : headerValues inp = [pf]) (ht : inp.isTemplate = false) :
    checkPlurals inp =
      match parsePluralForms pf with
      | .valueError => .error .ValueError
      | .syntaxError => .ok ⟨tags0Of inp ++ [syntaxTag (hasPlurals inp) pf (hintOf inp)], none⟩
      | .ok n e lj rj => analyse inp pf (hasPlurals inp) (expectedOf inp) (hintOf inp) (tags0Of inp) n e lj rj := by
  unfold checkPlurals
  have hv' : (if decide (inp.pluralForms.length > 1) = true then sortedSet inp.pluralForms else inp.pluralForms) = [pf] := by
    simpa [headerValues] using hv
  simp only [hv', ht, List.length_singleton, List.head?_cons, Nat.lt_irrefl, ↓reduceIte, Bool.false_eq_true]
  simp only [tags0Of, dupTags, inconsistentTags, hasPlurals, expectedOf, syntaxTag, decide_eq_true_eq]
  cases parsePluralForms pf <;> rfl

/-! ## the window only appends: `unusual` tags, then at most one stop diagnostic -/

def isStopTag (hp : Bool) (t : TagCall) : Prop :=
  ∃ msg, t = ⟨tagName "arithmetic-error-in" hp, [.safe msg]⟩ ∨ t = ⟨tagName "codomain-error-in" hp, [.safe msg]⟩

theorem window_shape (n : Nat) (e : Expr) (lc : Option (Nat × Expr)) (hp : Bool) (ut : TagCall) :
    ∀ (is : List Nat) (st st' : WinState) (fin : WinEnd), window n e lc hp ut is st = (st', fin) →
      ∃ mid last, st'.tags = st.tags ++ mid ++ last ∧ (∀ t ∈ mid, t = ut) ∧
        (fin = .completed → last = []) ∧ (fin = .stopped → ∃ t, last = [t] ∧ isStopTag hp t) ∧
        ((lc = none ∨ ∃ ln, lc = some (ln, e)) → mid = []) := by
  intro is
  induction is with
  | nil =>
    intro st st' fin h
    simp only [window, Prod.mk.injEq] at h
    obtain ⟨rfl, rfl⟩ := h
    exact ⟨[], [], by simp, by simp, fun _ => rfl, by simp, fun _ => rfl⟩
  | cons i rest ih =>
    intro st st' fin h
    simp only [window] at h
    -- a stop with one more tag
    have stop : ∀ (base : WinState) (t : TagCall), base.tags = st.tags → isStopTag hp t →
        ({ base with tags := base.tags ++ [t] }, WinEnd.stopped) = (st', fin) →
        ∃ mid last, st'.tags = st.tags ++ mid ++ last ∧ (∀ t ∈ mid, t = ut) ∧
          (fin = .completed → last = []) ∧ (fin = .stopped → ∃ t, last = [t] ∧ isStopTag hp t) ∧
          ((lc = none ∨ ∃ ln, lc = some (ln, e)) → mid = []) := by
      intro base t hb ht heq
      simp only [Prod.mk.injEq] at heq
      obtain ⟨rfl, rfl⟩ := heq
      exact ⟨[], [t], by simp [hb], by simp, by simp, fun _ => ⟨t, rfl, ht⟩, fun _ => rfl⟩
    -- continuing with the same tags
    have cont : ∀ (st1 : WinState), st1.tags = st.tags → window n e lc hp ut rest st1 = (st', fin) →
        ∃ mid last, st'.tags = st.tags ++ mid ++ last ∧ (∀ t ∈ mid, t = ut) ∧
          (fin = .completed → last = []) ∧ (fin = .stopped → ∃ t, last = [t] ∧ isStopTag hp t) ∧
          ((lc = none ∨ ∃ ln, lc = some (ln, e)) → mid = []) := by
      intro st1 ht hw
      obtain ⟨mid, last, h1, h2, h3, h4, h5⟩ := ih st1 st' fin hw
      exact ⟨mid, last, by rw [h1, ht], h2, h3, h4, h5⟩
    cases hev : evalAt 32 i e with
    | error ex =>
      rw [hev] at h
      cases ex
      case Overflow => exact stop st _ rfl ⟨_, Or.inl rfl⟩ h
      case ZeroDivision => exact stop st _ rfl ⟨_, Or.inl rfl⟩ h
      all_goals
        simp only [Prod.mk.injEq] at h
        obtain ⟨rfl, rfl⟩ := h
        exact ⟨[], [], by simp, by simp, fun _ => rfl, by simp, fun _ => rfl⟩
    | ok fi =>
      rw [hev] at h
      simp only at h
      split at h
      · exact stop st _ rfl ⟨_, Or.inr rfl⟩ h
      · cases lc with
        | none =>
          simp only at h
          exact cont { st with pre := st.pre.add fi i } rfl h
        | some l =>
          obtain ⟨ln, le⟩ := l
          simp only at h
          split at h
          · cases hle : evalAt 32 i le with
            | error ex =>
              rw [hle] at h
              cases ex
              case Overflow => exact stop { st with pre := st.pre.add fi i } _ rfl ⟨_, Or.inl rfl⟩ h
              case ZeroDivision => exact stop { st with pre := st.pre.add fi i } _ rfl ⟨_, Or.inl rfl⟩ h
              all_goals
                simp only [Prod.mk.injEq] at h
                obtain ⟨rfl, rfl⟩ := h
                exact ⟨[], [], by simp, by simp, fun _ => rfl, by simp, fun _ => rfl⟩
            | ok v =>
              rw [hle] at h
              simp only at h
              split at h
              · rename_i hne
                obtain ⟨mid, last, h1, h2, h3, h4, h5⟩ := ih _ st' fin h
                refine ⟨ut :: mid, last, by rw [h1]; simp, ?_, h3, h4, ?_⟩
                · intro t ht
                  rcases List.mem_cons.mp ht with rfl | ht
                  · rfl
                  · exact h2 t ht
                · rintro (hc | ⟨ln', hc⟩)
                  · cases hc
                  · simp only [Option.some.injEq, Prod.mk.injEq] at hc
                    obtain ⟨_, rfl⟩ := hc
                    rw [hev] at hle
                    cases hle
                    exact absurd rfl hne.1
              · exact cont { st with pre := st.pre.add fi i } rfl h
          · exact cont { st with pre := st.pre.add fi i } rfl h

/-! ## the scan over the messages -/

/-- a message whose number of `msgstr[]` forms counts: not obsolete, plural, translated -/
def counted (m : MsgFacts) : Bool := !m.obsolete && m.hasPlural && m.translated

/-- the numbers of `msgstr[]` forms of the translated plural messages, in file order -/
def formCounts (msgs : List MsgFacts) : List Nat := (msgs.filter counted).map (·.nforms)

/-- all the numbers are `k`, and there is at least one -/
def AllEq (k : Nat) (l : List Nat) : Prop := l ≠ [] ∧ ∀ j ∈ l, j = k

theorem scanMsgs_spec : ∀ (msgs : List MsgFacts) (hp : Bool) (d : List (Nat × List Char)), d.length ≤ 1 →
    ((scanMsgs msgs hp d).2 = [] ↔ d = [] ∧ formCounts msgs = []) ∧
    (∀ k, (∃ x, (scanMsgs msgs hp d).2 = [(k, x)]) ↔ AllEq k (d.map (·.1) ++ formCounts msgs)) ∧
    (scanMsgs msgs hp d).1 = (hp || msgs.any (fun m => !m.obsolete && m.hasPlural)) := by
  intro msgs
  induction msgs with
  | nil =>
    intro hp d hd
    refine ⟨by simp [scanMsgs, formCounts], ?_, by simp [scanMsgs]⟩
    intro k
    simp only [scanMsgs, formCounts, List.filter_nil, List.map_nil, List.append_nil, AllEq]
    match d, hd with
    | [], _ => simp
    | [(a, b)], _ => simp
  | cons m rest ih =>
    intro hp d hd
    unfold scanMsgs
    by_cases hob : m.obsolete = true
    · have hc : counted m = false := by simp [counted, hob]
      simp only [hob, ↓reduceIte, formCounts, List.filter_cons, hc, Bool.false_eq_true, List.any_cons, Bool.not_true, Bool.false_and, Bool.false_or]
      exact ih hp d hd
    · simp only [hob, Bool.false_eq_true, ↓reduceIte]
      have hob' : m.obsolete = false := by simpa using hob
      by_cases hpl : m.hasPlural = true
      · simp only [hpl, ↓reduceIte]
        by_cases htr : m.translated = true
        · have hc : counted m = true := by simp [counted, hob', hpl, htr]
          simp only [htr, Bool.not_true, Bool.false_eq_true, ↓reduceIte, formCounts, List.filter_cons, hc, List.map_cons,
            List.any_cons, hob', hpl, Bool.not_false, Bool.and_self, Bool.true_or, Bool.or_true]
          match d, hd with
          | [], _ =>
            simp only [List.any_nil, Bool.false_eq_true, ↓reduceIte, List.nil_append, List.length_singleton, Nat.lt_irrefl, List.map_nil]
            obtain ⟨h1, h2, h3⟩ := ih true [(m.nforms, m.repr)] (by simp)
            refine ⟨?_, ?_, by simpa using h3⟩
            · rw [h1]; simp
            · intro k; rw [h2 k]; simp [formCounts]
          | [(a, b)], _ =>
            by_cases hab : a = m.nforms
            · subst hab
              simp only [List.any_cons, decide_true, List.any_nil, Bool.or_false, ↓reduceIte, List.map_cons, List.map_nil,
                List.length_singleton, Nat.lt_irrefl]
              obtain ⟨h1, h2, h3⟩ := ih true [(m.nforms, m.repr)] (by simp)
              refine ⟨?_, ?_, by simpa using h3⟩
              · rw [h1]; simp
              · intro k; rw [h2 k]
                simp only [AllEq, formCounts, List.map_cons, List.map_nil, List.cons_append, List.nil_append, ne_eq, reduceCtorEq,
                  not_false_eq_true, List.mem_cons, forall_eq_or_imp, true_and]
                constructor
                · rintro ⟨h, h'⟩; exact ⟨h, h, h'⟩
                · rintro ⟨h, _, h'⟩; exact ⟨h, h'⟩
            · have : decide (a = m.nforms) = false := by simpa using hab
              have h21 : (2 : Nat) > 1 := by omega
              simp only [List.any_cons, this, List.any_nil, Bool.or_false, Bool.false_eq_true, ↓reduceIte, List.cons_append,
                List.nil_append, List.length_cons, List.length_nil, Nat.reduceAdd, h21, reduceCtorEq, false_and,
                List.map_cons, List.map_nil]
              refine ⟨by simp, ?_, trivial⟩
              intro k
              simp only [List.cons.injEq, reduceCtorEq, and_false, exists_false, false_iff, AllEq, not_and]
              intro _ h
              have h1 := h a (by simp)
              have h2 := h m.nforms (by simp)
              exact hab (by omega)
        · have hc : counted m = false := by simp [counted, htr]
          simp only [htr, Bool.not_false, ↓reduceIte, formCounts, List.filter_cons, hc, Bool.false_eq_true, List.any_cons, hob',
            hpl, Bool.and_self, Bool.true_or, Bool.or_true]
          obtain ⟨h1, h2, h3⟩ := ih true d hd
          exact ⟨h1, h2, by simpa using h3⟩
      · have hc : counted m = false := by simp [counted, hpl]
        have hpl' : m.hasPlural = false := by simpa using hpl
        simp only [hpl, Bool.false_eq_true, ↓reduceIte, formCounts, List.filter_cons, hc, List.any_cons, hpl', Bool.and_false, Bool.false_or]
        exact ih hp d hd

/-! ## the registry's declarations -/

theorem strict_ok {c : List Char} {n : Nat} {e : Expr} {lj rj : List Char} (h : parsePluralFormsStrict c = .ok n e lj rj) :
    parsePluralForms c = .ok n e [] [] ∧ lj = [] ∧ rj = [] := by
  unfold parsePluralFormsStrict at h
  split at h
  · rename_i n' e' lj' rj' hp
    split at h
    · rename_i hempty
      cases h
      have h1 : lj' = [] := by simpa using hempty.1
      have h2 : rj' = [] := by simpa using hempty.2
      subst h1 h2
      exact ⟨hp, rfl, rfl⟩
    · cases h
  · rename_i hne
    exact absurd h (hne n e lj rj)

/-- a declaration without junk parses strictly to the same thing -/
theorem strict_of_lenient {c : List Char} {n : Nat} {e : Expr} (h : parsePluralForms c = .ok n e [] []) :
    parsePluralFormsStrict c = .ok n e [] [] := by
  simp [parsePluralFormsStrict, h]

theorem localCorrect_spec (n : Nat) : ∀ (cs : List (List Char)) (r : List (Nat × Expr)), localCorrect n cs = .ok r →
    (∀ x ∈ r, x.1 = n) ∧
    (∀ c ∈ cs, ∀ e lj rj, parsePluralFormsStrict c = .ok n e lj rj → (n, e) ∈ r) := by
  intro cs
  induction cs with
  | nil =>
    intro r h
    simp only [localCorrect, Except.ok.injEq] at h
    subst h
    simp
  | cons c cs ih =>
    intro r h
    simp only [localCorrect] at h
    split at h
    · rename_i k ce lj' rj' hc
      split at h
      · cases h
      · rename_i rest hrest
        obtain ⟨ih1, ih2⟩ := ih rest hrest
        simp only [Except.ok.injEq] at h
        subst h
        constructor
        · intro x hx
          split at hx
          · rename_i hk
            rcases List.mem_cons.mp hx with rfl | hx
            · exact hk
            · exact ih1 x hx
          · exact ih1 x hx
        · intro c' hc' e lj rj hs
          rcases List.mem_cons.mp hc' with rfl | hc'
          · rw [hc] at hs
            cases hs
            simp
          · have := ih2 c' hc' e lj rj hs
            split
            · exact List.mem_cons_of_mem _ this
            · exact this
    · cases h
    · cases h

theorem pickLc_of_mem (ut : TagCall) (lcs : List (Nat × Expr)) (x : Nat × Expr) (hx : x ∈ lcs) :
    (pickLc ut (some lcs)).1 = [] ∧ ((pickLc ut (some lcs)).2 = none ∨ (pickLc ut (some lcs)).2 = some x) := by
  match lcs, hx with
  | [y], hx =>
    simp only [List.mem_singleton] at hx
    subst hx
    exact ⟨rfl, Or.inr rfl⟩
  | _ :: _ :: _, _ => exact ⟨rfl, Or.inl rfl⟩

theorem mem_pickLc (ut : TagCall) (lcs : Option (List (Nat × Expr))) (t : TagCall) (h : t ∈ (pickLc ut lcs).1) : t = ut := by
  match lcs, h with
  | some [], h => simpa [pickLc] using h
  | none, h => simp [pickLc] at h
  | some [_], h => simp [pickLc] at h
  | some (_ :: _ :: _), h => simp [pickLc] at h

/-! ## the report, part by part -/

/-- **Syntax error**: the whole report. -/
theorem report_syntax (inp : Input) (pf : List Char) (out : Output) (hv : headerValues inp = [pf]) (ht : inp.isTemplate = false)
    (hpf : parsePluralForms pf = .syntaxError) (h : checkPlurals inp = .ok out) :
    out = ⟨tags0Of inp ++ [syntaxTag (hasPlurals inp) pf (hintOf inp)], none⟩ := by
  rw [checkPlurals_single inp pf hv ht, hpf] at h
  simp only [Except.ok.injEq] at h
  exact h.symm

/-- **A header value that parses**: the report is — duplicate/inconsistent tags, junk tags, the nplurals comparison,
    the registry's "no such nplurals", then what the window appended (`unusual` tags, at most one stop diagnostic),
    then the gap claims. -/
theorem report_ok (inp : Input) (pf : List Char) (out : Output) (hv : headerValues inp = [pf]) (ht : inp.isTemplate = false)
    (n : Nat) (e : Expr) (lj rj : List Char) (hpf : parsePluralForms pf = .ok n e lj rj) (h : checkPlurals inp = .ok out) :
    ∃ lcs st fin rs mid last,
      lcsOf inp n = .ok lcs ∧
      window n e (pickLc (unusualTag (hasPlurals inp) pf (hintOf inp)) lcs).2 (hasPlurals inp) (unusualTag (hasPlurals inp) pf (hintOf inp))
        (List.range codomainLimit)
        ⟨tags0Of inp ++ junkTags lj rj ++ nplTags n (expectedOf inp) ++ (pickLc (unusualTag (hasPlurals inp) pf (hintOf inp)) lcs).1, [], false⟩ = (st, fin) ∧
      (fin = .completed ∨ fin = .stopped) ∧
      gapRanges n e (completedOf st fin) = .ok rs ∧
      out.tags = tags0Of inp ++ junkTags lj rj ++ nplTags n (expectedOf inp) ++ (pickLc (unusualTag (hasPlurals inp) pf (hintOf inp)) lcs).1
                  ++ mid ++ last ++ gapTags (hasPlurals inp) rs ∧
      out.preimage = (if rs.isEmpty then completedOf st fin else none) ∧
      (∀ t ∈ mid, t = unusualTag (hasPlurals inp) pf (hintOf inp)) ∧
      (fin = .completed → last = []) ∧ (fin = .stopped → ∃ t, last = [t] ∧ isStopTag (hasPlurals inp) t) ∧
      (((pickLc (unusualTag (hasPlurals inp) pf (hintOf inp)) lcs).2 = none ∨
        ∃ ln, (pickLc (unusualTag (hasPlurals inp) pf (hintOf inp)) lcs).2 = some (ln, e)) → mid = []) := by
  rw [checkPlurals_single inp pf hv ht, hpf] at h
  simp only [analyse_eq] at h
  cases hl : lcsOf inp n with
  | error ex => rw [hl] at h; cases h
  | ok lcs =>
    rw [hl] at h
    simp only at h
    generalize hw : window n e _ _ _ _ _ = w at h
    obtain ⟨st, fin⟩ := w
    cases hg : gapRanges n e (completedOf st fin) with
    | error ex =>
      cases fin <;> simp only [hg] at h <;> cases h
    | ok rs =>
      obtain ⟨mid, last, h1, h2, h3, h4, h5⟩ := window_shape _ _ _ _ _ _ _ _ _ hw
      have hfin : fin = .completed ∨ fin = .stopped := by
        cases fin with
        | completed => exact Or.inl rfl
        | stopped => exact Or.inr rfl
        | crashed ex => exact absurd hw (window_nocrash _ _ _ _ _ _ _ _ _)
      have hout : out = ⟨st.tags ++ gapTags (hasPlurals inp) rs, if rs.isEmpty then completedOf st fin else none⟩ := by
        cases fin <;> simp only [hg, Except.ok.injEq] at h
        · exact h.symm
        · exact h.symm
        · cases h
      refine ⟨lcs, st, fin, rs, mid, last, rfl, hw, hfin, hg, ?_, ?_, h2, h3, h4, h5⟩
      · rw [hout]; simp only [h1]
      · rw [hout]

end I18n.CheckPlurals
