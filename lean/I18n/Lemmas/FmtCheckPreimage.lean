import I18n.Lemmas.CheckPlurals
import I18n.Lemmas.FmtCheckMessage
/-!
# What `ctx.plural_preimage[i]` is: the `n` of the 200-window for which the plural expression selects form `i`, in increasing order
-/
set_option linter.unusedSimpArgs false
namespace I18n.FmtCheck
open I18n I18n.Py I18n.Plural I18n.CheckPlurals

/-- the plural expression `e` evaluates to `k` at `n = i` -/
def selects (e : Expr) (k : Int) (i : Nat) : Bool :=
  match evalAt 32 i e with
  | .ok v => v == k
  | .error _ => false

/-- the list stored under `k` (`[]` when there is no such key) -/
def entry (p : Preimage) (k : Int) : List Nat := (lookupKey k p).getD []

theorem lookupKey_map_append (k fi : Int) (i : Nat) : ∀ p : Preimage,
    lookupKey k (p.map (fun q => if q.1 = fi then (q.1, q.2 ++ [i]) else q)) =
      if k = fi then (lookupKey k p).map (· ++ [i]) else lookupKey k p
  | [] => by simp [lookupKey]
  | (k', v) :: rest => by
    have ih := lookupKey_map_append k fi i rest
    simp only [List.map_cons, lookupKey]
    by_cases h1 : k' = fi
    · subst h1
      by_cases h2 : k' = k
      · subst h2; simp [lookupKey]
      · have h2' : ¬ k = k' := fun h => h2 h.symm
        simp only [↓reduceIte, lookupKey, h2, h2'] at ih ⊢
        exact ih
    · by_cases h2 : k' = k
      · subst h2
        simp [h1, lookupKey]
      · simp only [h1, ↓reduceIte, lookupKey, h2]
        exact ih

theorem lookupKey_append_new (k fi : Int) (v : List Nat) : ∀ p : Preimage,
    lookupKey k (p ++ [(fi, v)]) = match lookupKey k p with
      | some x => some x
      | none => if fi = k then some v else none
  | [] => by simp [lookupKey]
  | (k', v') :: rest => by
    simp only [List.cons_append, lookupKey]
    by_cases h : k' = k
    · simp [h]
    · simp only [h, ↓reduceIte]
      exact lookupKey_append_new k fi v rest

theorem lookupKey_none_of_not_any (k : Int) : ∀ p : Preimage, p.any (fun q => decide (q.1 = k)) = false → lookupKey k p = none
  | [], _ => rfl
  | (k', v) :: rest, h => by
    simp only [List.any_cons, Bool.or_eq_false_iff, decide_eq_false_iff_not] at h
    simp only [lookupKey, h.1, ↓reduceIte]
    exact lookupKey_none_of_not_any k rest h.2

theorem lookupKey_some_of_any (k : Int) : ∀ p : Preimage, p.any (fun q => decide (q.1 = k)) = true → ∃ v, lookupKey k p = some v
  | [], h => by simp at h
  | (k', v) :: rest, h => by
    simp only [lookupKey]
    by_cases hk : k' = k
    · exact ⟨v, by simp [hk]⟩
    · simp only [List.any_cons, hk, decide_false, Bool.false_or] at h
      simp only [hk, ↓reduceIte]
      exact lookupKey_some_of_any k rest h

/-- `plural_preimage[fi] += [i]` -/
theorem entry_add (p : Preimage) (fi : Int) (i : Nat) (k : Int) :
    entry (p.add fi i) k = if k = fi then entry p k ++ [i] else entry p k := by
  unfold entry Preimage.add
  by_cases hany : p.any (fun q => decide (q.1 = fi)) = true
  · simp only [hany, ↓reduceIte, lookupKey_map_append]
    by_cases hk : k = fi
    · subst hk
      obtain ⟨v, hv⟩ := lookupKey_some_of_any k p hany
      simp [hv]
    · simp [hk]
  · simp only [Bool.not_eq_true] at hany
    simp only [hany, Bool.false_eq_true, ↓reduceIte, lookupKey_append_new]
    by_cases hk : k = fi
    · subst hk
      simp [lookupKey_none_of_not_any k p hany]
    · have hk' : ¬ fi = k := fun h => hk h.symm
      cases lookupKey k p <;> simp [hk, hk']

theorem isSome_add (p : Preimage) (fi : Int) (i : Nat) (k : Int) :
    (lookupKey k (p.add fi i)).isSome = ((lookupKey k p).isSome || decide (k = fi)) := by
  unfold Preimage.add
  by_cases hany : p.any (fun q => decide (q.1 = fi)) = true
  · simp only [hany, ↓reduceIte, lookupKey_map_append]
    by_cases hk : k = fi
    · subst hk
      obtain ⟨v, hv⟩ := lookupKey_some_of_any k p hany
      simp [hv]
    · simp [hk]
  · simp only [Bool.not_eq_true] at hany
    simp only [hany, Bool.false_eq_true, ↓reduceIte, lookupKey_append_new]
    by_cases hk : k = fi
    · subst hk
      simp [lookupKey_none_of_not_any k p hany]
    · have hk' : ¬ fi = k := fun h => hk h.symm
      cases lookupKey k p <;> simp [hk, hk']

/-- **A completed window records, under each value, the indices that produced it, in the order visited.** -/
theorem window_entries (n : Nat) (e : Expr) (lc : Option (Nat × Expr)) (hp : Bool) (ut : TagCall) :
    ∀ (is : List Nat) (st st' : WinState), window n e lc hp ut is st = (st', .completed) →
      ∀ k, entry st'.pre k = entry st.pre k ++ is.filter (selects e k) ∧
        ((lookupKey k st'.pre).isSome = ((lookupKey k st.pre).isSome || is.any (selects e k))) := by
  intro is
  induction is with
  | nil =>
    intro st st' h k
    simp only [window] at h
    cases h
    simp
  | cons i rest ih =>
    intro st st' h k
    simp only [window] at h
    cases hev : evalAt 32 i e with
    | error ex =>
      rw [hev] at h
      cases ex <;> simp at h
    | ok fi =>
      rw [hev] at h
      simp only at h
      split at h
      · simp at h
      · have key : ∀ (st1 : WinState), window n e lc hp ut rest st1 = (st', .completed) → st1.pre = st.pre.add fi i →
            entry st'.pre k = entry st.pre k ++ (i :: rest).filter (selects e k) ∧
            ((lookupKey k st'.pre).isSome = ((lookupKey k st.pre).isSome || (i :: rest).any (selects e k))) := by
          intro st1 hw hpre
          obtain ⟨h1, h2⟩ := ih st1 st' hw k
          rw [hpre, entry_add] at h1
          rw [hpre, isSome_add] at h2
          have hsel : selects e k i = decide (k = fi) := by
            unfold selects
            rw [hev]
            by_cases hk : k = fi
            · simp [hk]
            · have : ¬ fi = k := fun h => hk h.symm
              simp [hk, this]
          refine ⟨?_, ?_⟩
          · rw [h1, List.filter_cons, hsel]
            by_cases hk : k = fi
            · simp [hk]
            · simp [hk]
          · rw [h2, List.any_cons, hsel, Bool.or_assoc]
        cases lc with
        | none =>
          simp only at h
          exact key _ h rfl
        | some l =>
          obtain ⟨ln, le⟩ := l
          simp only at h
          split at h
          · cases hle : evalAt 32 i le with
            | error ex =>
              rw [hle] at h
              cases ex <;> simp at h
            | ok v =>
              rw [hle] at h
              simp only at h
              split at h
              · exact key _ h rfl
              · exact key _ h rfl
          · exact key _ h rfl

/-- **`ctx.plural_preimage[i]` after a completed window** (the only way `check_plurals` leaves a preimage): the `n < 200`
    with `f(n) = i`, in increasing order — and there is an entry iff there is such an `n`. -/
theorem window_preimageGet (n : Nat) (e : Expr) (lc : Option (Nat × Expr)) (hp : Bool) (ut : TagCall)
    (st0 st : WinState) (h0 : st0.pre = [])
    (hw : window n e lc hp ut (List.range codomainLimit) st0 = (st, .completed)) (i : Nat) :
    (∀ l, preimageGet st.pre i = some l → l = (List.range codomainLimit).filter (selects e i)) ∧
    (preimageGet st.pre i = none ↔ ∀ k, k < codomainLimit → selects e i k = false) := by
  obtain ⟨h1, h2⟩ := window_entries n e lc hp ut _ st0 st hw (i : Int)
  simp only [entry, h0, lookupKey, Option.getD_none, List.nil_append, Option.isSome_none, Bool.false_or] at h1 h2
  unfold preimageGet
  constructor
  · intro l hl
    rw [hl] at h1
    simpa using h1
  · constructor
    · intro hn k hk
      rw [hn] at h2
      simp only [Option.isSome_none] at h2
      have := h2.symm
      rw [List.any_eq_false] at this
      simpa using this k (List.mem_range.2 hk)
    · intro hall
      have : (List.range codomainLimit).any (selects e i) = false := by
        rw [List.any_eq_false]
        intro k hk
        simpa using hall k (List.mem_range.1 hk)
      rw [this] at h2
      cases hg : lookupKey (i : Int) st.pre with
      | none => rfl
      | some v => rw [hg] at h2; simp at h2

/-- **What `check_plurals` leaves as `ctx.plural_preimage`** for a catalog with one `Plural-Forms` field (no language
    known): if anything, the record of a completed 200-window over the expression the field declares. -/
theorem preimageOfHeader_window {tmpl : Bool} {pf : List Char} {pre : Preimage} (h : preimageOfHeader tmpl [pf] = some pre) :
    tmpl = false ∧ ∃ n e lj rj, parsePluralForms pf = .ok n e lj rj ∧
      ∃ (hp : Bool) (ut : TagCall) (st0 st : WinState), st0.pre = [] ∧
        window n e none hp ut (List.range codomainLimit) st0 = (st, .completed) ∧ pre = st.pre := by
  unfold preimageOfHeader checkPlurals at h
  simp only [List.length_singleton, Nat.lt_irrefl, decide_false, Bool.false_eq_true, ↓reduceIte, scanMsgs,
    List.head?_cons] at h
  cases tmpl with
  | true => simp at h
  | false =>
  refine ⟨rfl, ?_⟩
  simp only [Bool.false_eq_true, ↓reduceIte] at h
  cases hpf : parsePluralForms pf with
  | valueError => rw [hpf] at h; simp at h
  | syntaxError => rw [hpf] at h; simp at h
  | ok n e lj rj =>
    rw [hpf] at h
    simp only at h
    refine ⟨n, e, lj, rj, rfl, ?_⟩
    unfold analyse at h
    simp only at h
    generalize hw : window n e none _ _ (List.range codomainLimit) _ = w at h
    obtain ⟨st, fin⟩ := w
    cases fin with
    | crashed ex => simp at h
    | stopped =>
      simp only at h
      cases hg : gapRanges n e none with
      | error ex => rw [hg] at h; simp at h
      | ok rs => rw [hg] at h; simp at h
    | completed =>
      simp only at h
      cases hg : gapRanges n e (some st.pre) with
      | error ex => rw [hg] at h; simp at h
      | ok rs =>
        rw [hg] at h
        simp only at h
        split at h
        · simp only [Option.some.injEq] at h
          exact ⟨_, _, _, st, rfl, hw, h.symm⟩
        · cases h

/-- **C14, the window made explicit**: in a catalog whose `Plural-Forms` field is `pf`, the preimage entry of form `i` that
    `check_message` reads is the increasing list of the `n < 200` at which the declared expression evaluates to `i`. -/
theorem preimageOfHeader_get {tmpl : Bool} {pf : List Char} {pre : Preimage} (h : preimageOfHeader tmpl [pf] = some pre) :
    ∃ n e lj rj, parsePluralForms pf = .ok n e lj rj ∧ ∀ i : Nat,
      (∀ l, preimageGet pre i = some l → l = (List.range codomainLimit).filter (selects e i)) ∧
      (preimageGet pre i = none ↔ ∀ k, k < codomainLimit → selects e i k = false) := by
  obtain ⟨_, n, e, lj, rj, hpf, hp, ut, st0, st, h0, hw, rfl⟩ := preimageOfHeader_window h
  exact ⟨n, e, lj, rj, hpf, fun i => window_preimageGet n e none hp ut st0 st h0 hw i⟩

end I18n.FmtCheck
