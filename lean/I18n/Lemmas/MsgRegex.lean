import I18n.Lemmas.MsgBasic
/-
What the hand-written scanners that stand for the regexes decide, stated declaratively:
`search_for_conflict_marker` (`^prefix.+suffix$`, MULTILINE) and the `range:` pattern `\A([0-9]+)[.][.]([0-9]+)\Z`.
-/
namespace I18n.Msg
open I18n.Tags (Str lit)

/-! ## conflict marker -/

/-- a marker line is `prefix ++ m ++ suffix` with `m` non-empty -/
theorem isMarkerLine_iff (pre suf line : Str) :
    isMarkerLine pre suf line = true ↔ ∃ m, m ≠ [] ∧ line = pre ++ m ++ suf := by
  simp only [isMarkerLine, startsWith, endsWith, Bool.and_eq_true, decide_eq_true_eq]
  constructor
  · rintro ⟨⟨hp, hs⟩, hl⟩
    obtain ⟨t, rfl⟩ := List.isPrefixOf_iff_prefix.mp hp
    have hs' : suf <:+ pre ++ t := List.isSuffixOf_iff_suffix.mp hs
    have hlen : suf.length ≤ t.length := by simp at hl; omega
    obtain ⟨m, rfl⟩ := List.suffix_of_suffix_length_le hs' (List.suffix_append pre t) hlen
    refine ⟨m, ?_, by simp⟩
    rintro rfl; simp at hl; omega
  · rintro ⟨m, hm, rfl⟩
    refine ⟨⟨?_, ?_⟩, ?_⟩
    · exact List.isPrefixOf_iff_prefix.mpr ⟨m ++ suf, by simp⟩
    · exact List.isSuffixOf_iff_suffix.mpr ⟨pre ++ m, by simp⟩
    · have : 0 < m.length := List.length_pos_iff.mpr hm
      simp; omega

theorem splitLines_ne_nil : ∀ s : Str, splitLines s ≠ []
  | [] => by simp [splitLines]
  | c :: rest => by
    have := splitLines_ne_nil rest
    simp only [splitLines]
    split
    · simp
    · split <;> simp

/-- the lines joined by `\n` give the text back, and no line contains `\n`: `splitLines` is `str.split('\n')` -/
theorem splitLines_spec : ∀ s : Str, [10].intercalate (splitLines s) = s ∧ ∀ l ∈ splitLines s, 10 ∉ l
  | [] => by simp [splitLines, List.intercalate]
  | c :: rest => by
    obtain ⟨h1, h2⟩ := splitLines_spec rest
    simp only [splitLines]
    match hs : splitLines rest with
    | [] => exact absurd hs (splitLines_ne_nil rest)
    | l :: ls =>
      rw [hs] at h1 h2
      by_cases hc : c = 10
      · subst hc
        simp only [if_true]
        refine ⟨?_, ?_⟩
        · rw [← h1]; simp [List.intercalate]
        · intro x hx
          rcases List.mem_cons.mp hx with rfl | hx
          · simp
          · exact h2 x hx
      · simp only [hc, if_false]
        refine ⟨?_, ?_⟩
        · rw [← h1]; cases ls <;> simp [List.intercalate]
        · intro x hx
          rcases List.mem_cons.mp hx with rfl | hx
          · have := h2 l (by simp); simp [Ne.symm hc, this]
          · exact h2 x (List.mem_cons_of_mem _ hx)

/-- `search_for_conflict_marker(s)` is the first line of `s` of the form `prefix ++ m ++ suffix`, `m` non-empty -/
theorem searchMarker_eq_some (pre suf s line : Str) :
    searchMarker pre suf s = some line ↔
      ∃ before after, splitLines s = before ++ line :: after ∧ (∃ m, m ≠ [] ∧ line = pre ++ m ++ suf) ∧
        ∀ l ∈ before, ¬∃ m, m ≠ [] ∧ l = pre ++ m ++ suf := by
  simp only [searchMarker, List.find?_eq_some_iff_append, isMarkerLine_iff]
  constructor
  · rintro ⟨h1, before, after, h2, h3⟩
    refine ⟨before, after, h2, h1, ?_⟩
    intro l hl hm
    have := h3 l hl
    rw [Bool.not_eq_true', ← Bool.not_eq_true, isMarkerLine_iff] at this
    exact this hm
  · rintro ⟨before, after, h2, h1, h3⟩
    refine ⟨h1, before, after, h2, ?_⟩
    intro l hl
    rw [Bool.not_eq_true', ← Bool.not_eq_true, isMarkerLine_iff]
    exact h3 l hl

theorem searchMarker_isSome (pre suf s : Str) :
    (searchMarker pre suf s).isSome ↔ ∃ l ∈ splitLines s, ∃ m, m ≠ [] ∧ l = pre ++ m ++ suf := by
  simp only [searchMarker, List.find?_isSome, isMarkerLine_iff]

/-! ## the `range:` pattern -/

theorem takeWhile_append_dropWhile {α : Type} (p : α → Bool) (l : List α) : l.takeWhile p ++ l.dropWhile p = l :=
  List.takeWhile_append_dropWhile

/-- `\A([0-9]+)<sep>([0-9]+)\Z` with `int()` of the two groups; `sep` starts with a non-digit -/
theorem matchRange_eq_some (sep s : Str) (i j : Nat) (hsep : ∃ c rest, sep = c :: rest ∧ isAsciiDigit c = false) :
    matchRange sep s = some (i, j) ↔
      ∃ d₁ d₂, s = d₁ ++ sep ++ d₂ ∧ d₁ ≠ [] ∧ d₂ ≠ [] ∧ d₁.all isAsciiDigit = true ∧ d₂.all isAsciiDigit = true ∧
        i = decVal d₁ ∧ j = decVal d₂ := by
  obtain ⟨c, srest, rfl, hc⟩ := hsep
  constructor
  · intro h
    simp only [matchRange] at h
    split at h
    · cases h
    · rename_i h1
      split at h
      · cases h
      · rename_i h2
        split at h
        · cases h
        · rename_i h3
          simp only [Option.some.injEq, Prod.mk.injEq] at h
          have hp : (c :: srest) <+: s.dropWhile isAsciiDigit := by
            simpa [startsWith] using h2
          obtain ⟨t, ht⟩ := hp
          refine ⟨s.takeWhile isAsciiDigit, (s.dropWhile isAsciiDigit).drop (c :: srest).length, ?_, ?_, ?_, ?_, ?_, h.1.symm, h.2.symm⟩
          · have := takeWhile_append_dropWhile isAsciiDigit s
            rw [← ht] at this ⊢
            simp only [List.drop_left'] at *
            rw [List.append_assoc]
            simpa using this.symm
          · simpa using h1
          · simp only [Bool.or_eq_true, Bool.not_eq_true', not_or] at h3; simpa using h3.1
          · simp
          · simp only [Bool.or_eq_true, Bool.not_eq_true', not_or] at h3; simpa using h3.2
  · rintro ⟨d₁, d₂, rfl, h1, h2, h3, h4, rfl, rfl⟩
    have htw : (d₁ ++ c :: srest ++ d₂).takeWhile isAsciiDigit = d₁ := by
      rw [List.append_assoc, List.takeWhile_append_of_pos (by simpa [List.all_eq_true] using h3)]
      simp [List.takeWhile, hc]
    have hdw : (d₁ ++ c :: srest ++ d₂).dropWhile isAsciiDigit = c :: srest ++ d₂ := by
      rw [List.append_assoc, List.dropWhile_append_of_pos (by simpa [List.all_eq_true] using h3)]
      simp [List.dropWhile, hc]
    simp only [matchRange, htw, hdw]
    have e1 : d₁.isEmpty = false := by simpa using h1
    have e2 : startsWith (c :: srest) (c :: (srest ++ d₂)) = true := by
      simp [startsWith]
    have e4 : d₂.isEmpty = false := by simpa using h2
    simp [e1, e2, e4, h4]

/-! ## `find_unusual_characters` -/

/-- `findall`: a character is returned iff it stands at a position where some alternative matches, the neighbours being the
    characters directly before / after it in the string (`prev` before the first one) -/
theorem mem_findAllFrom_iff (word : Nat → Bool) (alts : List Alt) : ∀ (s : Str) (prev : Option Nat) (c : Nat),
    c ∈ findAllFrom word alts prev s ↔
      ∃ a b, s = a ++ c :: b ∧ alts.any (altMatch word ((a.getLast?).or prev) c b.head?) = true
  | [], _, _ => by simp [findAllFrom]
  | x :: rest, prev, c => by
    have ih := mem_findAllFrom_iff word alts rest (some x) c
    have hstep : c ∈ findAllFrom word alts prev (x :: rest) ↔
        (c = x ∧ alts.any (altMatch word prev x rest.head?) = true) ∨ c ∈ findAllFrom word alts (some x) rest := by
      simp only [findAllFrom]
      by_cases hit : alts.any (altMatch word prev x rest.head?) = true
      · simp [hit]
      · simp [hit]
    rw [hstep, ih]
    constructor
    · rintro (⟨rfl, h⟩ | ⟨a, b, rfl, h⟩)
      · exact ⟨[], rest, rfl, by simpa using h⟩
      · refine ⟨x :: a, b, rfl, ?_⟩
        have : ((x :: a).getLast?).or prev = (a.getLast?).or (some x) := by
          rw [List.getLast?_cons]; cases a.getLast? <;> simp
        rw [this]; exact h
    · rintro ⟨a, b, hs, h⟩
      cases a with
      | nil =>
        simp only [List.nil_append, List.cons.injEq] at hs
        obtain ⟨rfl, rfl⟩ := hs
        exact Or.inl ⟨rfl, by simpa using h⟩
      | cons y a =>
        simp only [List.cons_append, List.cons.injEq] at hs
        obtain ⟨rfl, rfl⟩ := hs
        right
        refine ⟨a, b, rfl, ?_⟩
        have : ((x :: a).getLast?).or prev = (a.getLast?).or (some x) := by
          rw [List.getLast?_cons]; cases a.getLast? <;> simp
        rw [← this]; exact h

end I18n.Msg
