import I18n.PyKit
/-!
# Lemmas about the Python kit combinators, for the equality proofs of the ties by translation (`Props/C*Tie.lean`)

`Except.bind` congruence lets a proof go stage by stage: `match c with | .error e => .error e | .ok x => rest` printed as
`Except.bind c (fun x => rest)` (option `binds` of `tools/translate/pytr/objfn.py`) is peeled with `bind_congr`.
-/
namespace I18n.PyKit

theorem bind_ok {ε α β : Type} (a : α) (k : α → Except ε β) : Except.bind (.ok a) k = k a := rfl
theorem bind_error {ε α β : Type} (e : ε) (k : α → Except ε β) : Except.bind (.error e : Except ε α) k = .error e := rfl

/-- one stage of a sequential computation at a time -/
theorem bind_congr {ε α β : Type} {a a' : Except ε α} {k k' : α → Except ε β} (h1 : a = a') (h2 : ∀ x, k x = k' x) :
    Except.bind a k = Except.bind a' k' := by
  subst h1
  cases a with
  | error e => rfl
  | ok x => exact h2 x

/-- … where the continuation only has to agree on the value the first stage actually returns -/
theorem bind_congr' {ε α β : Type} {a a' : Except ε α} {k k' : α → Except ε β} (h1 : a = a') (h2 : ∀ x, a' = .ok x → k x = k' x) :
    Except.bind a k = Except.bind a' k' := by
  subst h1
  cases a with
  | error e => rfl
  | ok x => exact h2 x rfl

theorem bind_assoc {ε α β γ : Type} (a : Except ε α) (k : α → Except ε β) (k2 : β → Except ε γ) :
    Except.bind (Except.bind a k) k2 = Except.bind a (fun x => Except.bind (k x) k2) := by
  cases a <;> rfl

/-- a computation that is known to succeed -/
theorem bind_of_ok {ε α β : Type} {a : Except ε α} {x : α} {k : α → Except ε β} (h : a = .ok x) : Except.bind a k = k x := by
  subst h; rfl

theorem bind_of_error {ε α β : Type} {a : Except ε α} {e : ε} {k : α → Except ε β} (h : a = .error e) : Except.bind a k = .error e := by
  subst h; rfl

/-- `match c with | .error e => .error e | .ok x => k x` is `Except.bind c k` -/
theorem match_eq_bind {ε α β : Type} (a : Except ε α) (k : α → Except ε β) :
    (match a with | .error e => .error e | .ok x => k x) = Except.bind a k := by
  cases a <;> rfl

/-- a loop over `l.map f` whose body is one step of the recursive function `g` -/
theorem forEach_map {α β σ ε : Type} (f : β → α) (body : α → σ → Except ε σ) (g : List β → σ → Except ε σ)
    (hnil : ∀ s, g [] s = .ok s)
    (hcons : ∀ b rest s, g (b :: rest) s = (body (f b) s).bind (g rest)) :
    ∀ (l : List β) (s : σ), forEach (l.map f) body s = g l s := by
  intro l
  induction l with
  | nil => intro s; simp [forEach, hnil]
  | cons b rest ih =>
    intro s
    simp only [List.map, forEach, hcons]
    cases body (f b) s with
    | error e => rfl
    | ok s' => exact ih s'

theorem ite_ok {ε α : Type} (c : Prop) [Decidable c] (a b : α) :
    (if c then (Except.ok a : Except ε α) else Except.ok b) = Except.ok (if c then a else b) := by
  split <;> rfl

end I18n.PyKit
