import I18n.Model.FmtMsgGen
import I18n.Lemmas.FmtArgsGenerated
/-!
# `check_message` regenerated from `lib/check/msgformat/__init__.py` equals the hand-written `FmtCheck.checkMessage`

For every back end (`Backend σ F`), every context, message and flags.  The proof never names a bound variable of the generated text:
it replaces the three loop bodies by named model steps (`step1`, `pluralStep`, `planStep`) and characterises what each stage delivers.
-/
set_option linter.unusedSimpArgs false
set_option linter.unusedVariables false
namespace I18n.FmtCheck.GenMsg
open I18n I18n.FmtSig I18n.FmtCheck I18n.FmtCheck.Gen I18n.Generated

theorem forEachRet_ext {α σ ρ ε : Type} (xs : List α) (body body' : α → σ → Except ε (ρ ⊕ σ)) (h : ∀ x s, body x s = body' x s) (s : σ) :
    PyKit.forEachRet xs body s = PyKit.forEachRet xs body' s := by
  have : body = body' := by funext x s; exact h x s
  rw [this]

theorem forEach_ext {α σ ε : Type} (xs : List α) (body body' : α → σ → Except ε σ) (h : ∀ x s, body x s = body' x s) (s : σ) :
    PyKit.forEach xs body s = PyKit.forEach xs body' s := by
  have : body = body' := by funext x s; exact h x s
  rw [this]

variable {σ F : Type}

/-- one round of `for i, s in enumerate(msgids)` as the model has it: `.inl` = the `return` of the non-template branch -/
def step1 (b : Backend σ F) (ctx : Ctx) (msg : Msg σ) (p : Nat × σ) (st : List (Nat × F) × List TagCall) :
    Except Py.Exc (List TagCall ⊕ (List (Nat × F) × List TagCall)) :=
  match msgidFmt b ctx msg p.2 with
  | .error e => .error e
  | .ok none => .ok (.inl st.2)
  | .ok (some (tg, none)) => .ok (.inr (st.1, st.2 ++ tg))
  | .ok (some (tg, some f)) => .ok (.inr (PyKit.dictSet st.1 p.1 f, st.2 ++ tg))

/-! ### the last loop: `for d in strings` = `runPlans` -/

/-- what one `d` of `strings` emits -/
def planStep (b : Backend σ F) (pfx : Extra) (d : Plan F) : Except Py.Exc (List TagCall) :=
  match d.dst, d.src with
  | some dst, some src => b.checkArgs pfx d.srcLoc src d.dstLoc dst d.omittedOk
  | _, _ => .ok []

theorem collect_planStep (b : Backend σ F) (pfx : Extra) (ds : List (Plan F)) :
    collect (planStep b pfx) ds = runPlans b pfx ds := by
  induction ds with
  | nil => rfl
  | cons d ds ih =>
    simp only [collect, runPlans, planStep, ih]
    cases d.dst with
    | none => cases runPlans b pfx ds <;> simp
    | some dst =>
      cases d.src with
      | none => cases runPlans b pfx ds <;> simp
      | some src => rfl

/-! ### the loop over `sorted(message.msgstr_plural.items())` = `pluralPlans` -/

/-- one `msgstr[i]`: the tags of `check_string` and the plan, if any -/
def pluralStep (b : Backend σ F) (ctx : Ctx) (msg : Msg σ) (fl : Flags) (f0 f1 : Option F) (pre : CheckPlurals.Preimage) (p : Nat × σ) :
    Except Py.Exc (List TagCall × Option (Plan F)) :=
  match checkString b ctx msg p.2 with
  | .error e => .error e
  | .ok (tg, none) => .ok (tg, none)
  | .ok (tg, some d) =>
    match preimageGet pre p.1 with
    | none => .ok (tg, none)
    | some pi => .ok (tg, some (pluralPlan b f0 f1 p.1 d (pi.filter fl.inRange)))

theorem forEach_pluralPlans (b : Backend σ F) (ctx : Ctx) (msg : Msg σ) (fl : Flags) (f0 f1 : Option F) (pre : CheckPlurals.Preimage)
    (body : Nat × σ → List TagCall × List (Plan F) → Except Py.Exc (List TagCall × List (Plan F)))
    (hb : ∀ p st, body p st = match pluralStep b ctx msg fl f0 f1 pre p with
      | .error e => .error e
      | .ok (tg, none) => .ok (st.1 ++ tg, st.2)
      | .ok (tg, some pl) => .ok (st.1 ++ tg, st.2 ++ [pl])) (xs : List (Nat × σ)) :
    ∀ st, PyKit.forEach xs body st = match pluralPlans b ctx msg fl f0 f1 pre xs with
      | .error e => .error e
      | .ok (tgs, plans) => .ok (st.1 ++ tgs, st.2 ++ plans) := by
  induction xs with
  | nil => intro st; simp [PyKit.forEach, pluralPlans]
  | cons x xs ih =>
    intro st
    obtain ⟨i, s⟩ := x
    simp only [PyKit.forEach, pluralPlans, hb, pluralStep]
    cases checkString b ctx msg s with
    | error e => rfl
    | ok r =>
      obtain ⟨tg, dst⟩ := r
      cases dst with
      | none =>
        simp only [ih]
        cases pluralPlans b ctx msg fl f0 f1 pre xs with
        | error e => rfl
        | ok r => obtain ⟨tgs, plans⟩ := r; simp [List.append_assoc]
      | some d =>
        cases preimageGet pre i with
        | none =>
          simp only [ih]
          cases pluralPlans b ctx msg fl f0 f1 pre xs with
          | error e => rfl
          | ok r => obtain ⟨tgs, plans⟩ := r; simp [List.append_assoc]
        | some pi =>
          simp only [ih]
          cases pluralPlans b ctx msg fl f0 f1 pre xs with
          | error e => rfl
          | ok r => obtain ⟨tgs, plans⟩ := r; simp [List.append_assoc]

/-! ### the first loop: `for i, s in enumerate(msgids)` -/

/-- `msgid_fmts` after the first loop -/
def fmtsOf (f0 f1 : Option F) : List (Nat × F) :=
  (match f0 with | some f => [(0, f)] | none => []) ++ (match f1 with | some f => [(1, f)] | none => [])

theorem fmtsOf_get0 (f0 f1 : Option F) : PyKit.dictGet? (fmtsOf f0 f1) 0 = f0 := by
  cases f0 <;> cases f1 <;> simp [fmtsOf, PyKit.dictGet?]
theorem fmtsOf_get1 (f0 f1 : Option F) : PyKit.dictGet? (fmtsOf f0 f1) 1 = f1 := by
  cases f0 <;> cases f1 <;> simp [fmtsOf, PyKit.dictGet?]

/-- what the first loop delivers: `.inl` = the `return` of the non-template branch -/
theorem stage1_spec (b : Backend σ F) (ctx : Ctx) (msg : Msg σ) (out : List TagCall) :
    PyKit.forEachRet (PyKit.enumerate (msg.msgid :: msg.msgidPlural.toList)) (step1 b ctx msg) ([], out) =
      match msgidFmt b ctx msg msg.msgid with
      | .error e => .error e
      | .ok none => .ok (.inl out)
      | .ok (some (tg0, f0)) =>
        match pluralMsgidFmt b ctx msg with
        | .error e => .error e
        | .ok none => .ok (.inl (out ++ tg0))
        | .ok (some (tg1, f1)) => .ok (.inr (fmtsOf f0 f1, out ++ tg0 ++ tg1)) := by
  simp only [pluralMsgidFmt]
  cases hP : msg.msgidPlural with
  | none =>
    simp only [Option.toList, PyKit.enumerate, PyKit.enumerateFrom, PyKit.forEachRet, step1]
    cases msgidFmt b ctx msg msg.msgid with
    | error e => rfl
    | ok r =>
      rcases r with _ | ⟨tg0, _ | f0⟩ <;> simp [fmtsOf, PyKit.dictSet]
  | some pl =>
    simp only [Option.toList, PyKit.enumerate, PyKit.enumerateFrom, PyKit.forEachRet, step1]
    cases msgidFmt b ctx msg msg.msgid with
    | error e => rfl
    | ok r =>
      rcases r with _ | ⟨tg0, _ | f0⟩
      · rfl
      · simp only []
        cases msgidFmt b ctx msg pl with
        | error e => rfl
        | ok r1 => rcases r1 with _ | ⟨tg1, _ | f1⟩ <;> simp [fmtsOf, PyKit.dictSet]
      · simp only []
        cases msgidFmt b ctx msg pl with
        | error e => rfl
        | ok r1 => rcases r1 with _ | ⟨tg1, _ | f1⟩ <;> simp [fmtsOf, PyKit.dictSet]

/-- in the non-template branch `msgidFmt` emits no tags -/
theorem msgidFmt_none_template (b : Backend σ F) (ctx : Ctx) (msg : Msg σ) (s : σ) (h : msgidFmt b ctx msg s = .ok none) : ctx.isTemplate = false := by
  cases hT : ctx.isTemplate with
  | false => rfl
  | true =>
    simp only [msgidFmt, hT, if_true] at h
    cases hc : checkString b ctx msg s <;> simp [hc] at h

theorem msgidFmt_tags_nontemplate (b : Backend σ F) (ctx : Ctx) (msg : Msg σ) (s : σ) (tg : List TagCall) (f : Option F)
    (hT : ctx.isTemplate = false) (h : msgidFmt b ctx msg s = .ok (some (tg, f))) : tg = [] := by
  simp only [msgidFmt, hT, Bool.false_eq_true, if_false] at h
  cases hp : b.parse s <;> simp [hp] at h
  exact h.1

/- the body of the first loop = `step1` -/
set_option hygiene false in
local macro "stage1_hb" : tactic => `(tactic| (
  intro p st
  obtain ⟨i, s⟩ := p
  obtain ⟨m, o⟩ := st
  simp only [step1, msgidFmt]
  cases hT : ctx.isTemplate
  · simp only [Bool.false_eq_true, if_false]
    cases hp : b.parse s <;> simp [hp]
  · simp only [if_true]
    cases checkString b ctx msg s with
    | error e => rfl
    | ok r =>
      obtain ⟨tg, f⟩ := r
      cases f <;> rfl))

/- case analysis over `ctx.is_template`, the two msgid formats and the result of the template `check_args` -/
set_option hygiene false in
local macro "template_cases" : tactic => `(tactic| (
  cases hT : ctx.isTemplate
  · cases f0 <;> cases f1 <;> simp_all [fmtsOf]
  · cases f0 with
    | none => cases f1 <;> simp_all [fmtsOf]
    | some a =>
      cases f1 with
      | none => simp_all [fmtsOf]
      | some c =>
        simp [hT, fmtsOf, PyKit.dictGet] at heq
        cases hca : b.checkArgs msg.pfx "msgid_plural".toList c "msgid".toList a true <;> simp_all))

/- case analysis over `bool(message.msgstr)` and the result of its `check_string` -/
set_option hygiene false in
local macro "msgstr_cases" : tactic => `(tactic| (
  cases hS : b.truthy msg.msgstr
  · simp_all
  · cases hcs : checkString b ctx msg msg.msgstr with
    | error e' => simp_all
    | ok r => obtain ⟨tg, dst⟩ := r; simp_all))

/- the last loop = `runPlans`, then both sides are lists of tag calls -/
set_option hygiene false in
local macro "final_loop" : tactic => `(tactic| (
  rw [forEach_collect (planStep b msg.pfx) _ ?hbf, collect_planStep]
  case hbf =>
    intro d o
    obtain ⟨sl, src, dl, dst, ok⟩ := d
    simp only [planStep]
    cases dst with
    | none => simp
    | some dst =>
      cases src with
      | none => simp
      | some src => simp; rfl
  try simp only [List.append_nil]
  generalize runPlans b msg.pfx _ = r
  cases r <;> simp [List.append_assoc]))

set_option maxHeartbeats 1000000 in
theorem check_message_eq (b : Backend σ F) (out : List TagCall) (ctx : Ctx) (msg : Msg σ) (fl : Flags) :
    FmtMsg.check_message b out ctx msg fl = appendTags out (checkMessage b ctx msg fl) := by
  simp only [FmtMsg.check_message]
  -- msgids
  split
  · rename_i e heq
    cases hP : msg.msgidPlural <;> simp [hP] at heq
  · rename_i msgids heq
    have hm : msgids = msg.msgid :: msg.msgidPlural.toList := by
      cases hP : msg.msgidPlural <;> simp [hP] at heq <;> simp [← heq]
    subst hm
    clear heq
    rw [forEachRet_ext _ _ (step1 b ctx msg) ?hb1, stage1_spec]
    case hb1 => stage1_hb
    simp only [checkMessage]
    cases h0 : msgidFmt b ctx msg msg.msgid with
    | error e => rfl
    | ok r0 =>
      rcases r0 with _ | ⟨tg0, f0⟩
      · simp
      · simp only []
        cases h1 : pluralMsgidFmt b ctx msg with
        | error e => rfl
        | ok r1 =>
          rcases r1 with _ | ⟨tg1, f1⟩
          · -- the `return` of the non-template branch at msgid_plural: nothing was emitted before
            have hT : ctx.isTemplate = false := by
              simp only [pluralMsgidFmt] at h1
              cases hP : msg.msgidPlural with
              | none => simp [hP] at h1
              | some pl => rw [hP] at h1; exact msgidFmt_none_template b ctx msg pl h1
            have : tg0 = [] := msgidFmt_tags_nontemplate b ctx msg _ tg0 f0 hT h0
            simp [this]
          · simp only [fmtsOf_get0, fmtsOf_get1]
            -- if ctx.is_template and len(msgid_fmts) == 2: self.check_args(…)
            split
            · rename_i e heq
              have ht : templateArgs b ctx msg f0 f1 = .error e := by
                simp only [templateArgs]
                template_cases
              simp [ht]
            · rename_i out2 heq
              have ht : ∃ tg2, templateArgs b ctx msg f0 f1 = .ok tg2 ∧ out2 = out ++ tg0 ++ tg1 ++ tg2 := by
                simp only [templateArgs]
                template_cases
              obtain ⟨tg2, ht, rfl⟩ := ht
              simp only [ht]
              clear heq ht
              simp only [checkTranslations]
              cases hF : fl.fuzzy
              · cases hE : ctx.hasEncoding
                · simp [List.append_assoc]
                · simp only [Bool.false_eq_true, if_false, Bool.not_true]
                  -- if has_msgstr: …
                  split
                  · rename_i e heq
                    have hm : msgstrPlan b ctx msg f0 = .error e := by
                      simp only [msgstrPlan]
                      msgstr_cases
                    simp [hm]
                  · rename_i out3 strings heq
                    have hm : ∃ tg5, msgstrPlan b ctx msg f0 = .ok (tg5, strings) ∧
                        out3 = out ++ tg0 ++ tg1 ++ tg2 ++ b.checkMsgids msg.repr f0 ++ tg5 := by
                      simp only [msgstrPlan]
                      msgstr_cases
                    obtain ⟨tg5, hm, rfl⟩ := hm
                    simp only [hm]
                    clear heq hm
                    simp only [msgstrPluralPlans]
                    rcases hpre : ctx.preimage with _ | ⟨_ | ⟨q, pre⟩⟩
                    · simp only [Bool.and_false, Bool.false_eq_true, if_false]
                      final_loop
                    · simp only [List.isEmpty_nil, Bool.not_true, Bool.and_false, Bool.false_eq_true, if_false]
                      final_loop
                    · cases hA : msg.msgstrPlural.any (fun p => b.truthy p.2)
                      · simp only [Bool.false_and, Bool.false_eq_true, if_false]
                        final_loop
                      · simp only [List.isEmpty_cons, Bool.not_false, Bool.and_true, if_true]
                        rw [forEach_pluralPlans b ctx msg fl f0 f1 (q :: pre) _ ?hb2]
                        case hb2 =>
                          intro p st
                          obtain ⟨i, s⟩ := p
                          obtain ⟨o, strs⟩ := st
                          simp only [pluralStep, hpre, Py.optDictGet, dictGet_eq, preimageGet, if_true]
                          cases checkString b ctx msg s with
                          | error e => rfl
                          | ok r =>
                            obtain ⟨tg, dst⟩ := r
                            cases dst with
                            | none => rfl
                            | some d =>
                              simp only []
                              cases hl : lookupKey (↑i : Int) (q :: pre) with
                              | none => rfl
                              | some pi =>
                                simp only []
                                generalize List.filter (fun x => fl.inRange x) pi = pp
                                have hloc : "msgstr[".toList ++ natStr i ++ "]".toList = msgstrLoc i := rfl
                                simp only [pluralPlan, hloc, decide_eq_true_eq]
                                generalize msgstrLoc i = loc
                                generalize "msgid".toList = lid
                                generalize "msgid_plural".toList = lpl
                                by_cases hp1 : pp = [1]
                                · subst hp1
                                  cases f0 <;> cases f1 <;> simp <;> (generalize b.len _ = x; generalize b.len _ = y; by_cases h : x = y <;> simp [h])
                                · rcases pp with _ | ⟨x, _ | ⟨y, _ | ⟨z, t⟩⟩⟩
                                  · simp +arith
                                  · simp +arith [hp1]
                                  · by_cases hx : x = 0 <;> simp +arith [PyKit.listGet, hx]
                                  · simp +arith
                        cases pluralPlans b ctx msg fl f0 f1 (q :: pre) (sortBy keyLt msg.msgstrPlural) with
                        | error e => rfl
                        | ok r =>
                          obtain ⟨tg6, plans2⟩ := r
                          simp only []
                          final_loop
              · simp [List.append_assoc]
end I18n.FmtCheck.GenMsg
