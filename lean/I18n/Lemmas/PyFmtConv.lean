import I18n.Model.PyFmt
/-!
# What `Conversion.__init__` does to the argument lists
-/
set_option linter.unusedSimpArgs false
namespace I18n.PyFmt
open I18n.Generated.PyFormatTables (flagChars lengthChars octCvt hexCvt intCvt floatCvt allCvt SSIZE_MAX typeTable
  variableWidthType variablePrecisionType)

/-- the part of the state that is not warnings -/
structure Core where
  seq : List Entry
  map : List (List Char × Entry)
  items : List Item
  deriving DecidableEq

def St.core (st : St) : Core := ⟨st.seq, st.map, st.items⟩

@[simp] theorem warn_core (w : Bool) (st : St) (x : Warn) : (warn w st x).core = st.core := by
  unfold warn; split <;> rfl

@[simp] theorem ite_warn_core (c : Prop) [Decidable c] (w : Bool) (st : St) (x : Warn) :
    (if c then warn w st x else st).core = st.core := by split <;> simp

@[simp] theorem ite_warn_core' (c : Prop) [Decidable c] (w : Bool) (st : St) (x : Warn) :
    (if c then st else warn w st x).core = st.core := by split <;> simp

theorem flagLoop_core (w : Bool) (flags : List Char) (conv : Char) : ∀ (l : List Char) (st st' : St),
    flagLoop w flags conv l st = .ok st' → st'.core = st.core := by
  intro l
  induction l with
  | nil => intro st st' h; simp only [flagLoop] at h; cases h; rfl
  | cons f more ih =>
    intro st st' h
    simp only [flagLoop] at h
    split at h
    · have := ih _ _ h; simpa using this
    · split at h
      · have := ih _ _ h; simpa using this
      · split at h
        · have := ih _ _ h; simpa using this
        · cases h

/-- the flag loop raises nothing when every flag is one of `#0- +` -/
theorem flagLoop_noerr (w : Bool) (flags : List Char) (conv : Char) : ∀ (l : List Char) (st : St),
    (∀ x ∈ l, flagChars.contains x = true) → ∃ st', flagLoop w flags conv l st = .ok st' := by
  intro l
  induction l with
  | nil => intro st _; exact ⟨st, rfl⟩
  | cons f more ih =>
    intro st hl
    have hf := hl f (List.mem_cons_self)
    have hm : ∀ x ∈ more, flagChars.contains x = true := fun x hx => hl x (List.mem_cons_of_mem _ hx)
    simp only [flagLoop]
    split
    · exact ih _ hm
    · split
      · exact ih _ hm
      · split
        · exact ih _ hm
        · rename_i h1 h2 h3
          exfalso
          simp only [flagChars, List.contains_cons, List.contains_nil, Bool.or_false, Bool.or_eq_true, beq_iff_eq] at hf
          simp only [beq_iff_eq, Bool.or_eq_true, not_or] at h1 h2 h3
          rcases hf with h | h | h | h | h <;> simp_all

theorem distinct_subset : ∀ (l : List Char) x, x ∈ distinct l → x ∈ l := by
  intro l
  induction l with
  | nil => intro x h; cases h
  | cons c cs ih =>
    intro x h
    simp only [distinct, List.mem_cons] at h
    rcases h with rfl | h
    · exact List.mem_cons_self
    · exact List.mem_cons_of_mem _ (ih x (List.mem_filter.1 h).1)

theorem checkFlags_core {w : Bool} {st st' : St} {flags : List Char} {conv : Char}
    (h : checkFlags w st flags conv = .ok st') : st'.core = st.core := by
  unfold checkFlags at h
  cases hl : flagLoop w flags conv (distinct flags) st with
  | error e => rw [hl] at h; cases h
  | ok st1 =>
    rw [hl] at h
    simp only [] at h
    cases h
    have := flagLoop_core _ _ _ _ _ _ hl
    simpa using this

theorem checkFlags_noerr (w : Bool) (st : St) (flags : List Char) (conv : Char)
    (hf : ∀ x ∈ flags, flagChars.contains x = true) : ∃ st', checkFlags w st flags conv = .ok st' := by
  unfold checkFlags
  obtain ⟨st1, h1⟩ := flagLoop_noerr w flags conv (distinct flags) st (fun x hx => hf x (distinct_subset _ _ hx))
  rw [h1]
  exact ⟨_, rfl⟩

/-! ## `add_argument`, width, precision -/

theorem addArgument_none {st st' : St} {e : Entry} (h : addArgument st none e = .ok st') :
    st.map = [] ∧ st'.core = ⟨st.seq ++ [e], st.map, st.items⟩ := by
  unfold addArgument at h
  simp only [] at h
  split at h
  · cases h
  · rename_i hm
    cases h
    exact ⟨by simpa using hm, rfl⟩

theorem addArgument_some {st st' : St} {k : List Char} {e : Entry} (h : addArgument st (some k) e = .ok st') :
    st.seq = [] ∧ st'.core = ⟨st.seq, st.map ++ [(k, e)], st.items⟩ := by
  unfold addArgument at h
  simp only [] at h
  split at h
  · cases h
  · rename_i hm
    cases h
    exact ⟨by simpa using hm, rfl⟩

theorem addArgument_error {st : St} {key : Option (List Char)} {e : Entry} {err : PErr} (h : addArgument st key e = .error err) :
    err = .ArgumentIndexingMixture := by
  unfold addArgument at h
  cases key with
  | none => simp only [] at h; split at h <;> cases h; rfl
  | some k => simp only [] at h; split at h <;> cases h; rfl

def widthEntries (width : Num) (parent : Nat) : List Entry :=
  match width with | .star => [⟨.width, variableWidthType, parent⟩] | .num _ => []

def precEntries (prec : Option Num) (parent : Nat) : List Entry :=
  match prec with | some .star => [⟨.prec, variablePrecisionType, parent⟩] | _ => []

/-- entries a specification adds to `_seq_arguments` -/
def seqAdd (d : Directive) (tp : String) (parent : Nat) : List Entry :=
  widthEntries d.width parent ++ precEntries d.prec parent ++
  (match d.key with | none => if tp = "None" then [] else [⟨.conv, tp, parent⟩] | some _ => [])

/-- entries a specification adds to `_map_arguments` -/
def mapAdd (d : Directive) (tp : String) (parent : Nat) : List (List Char × Entry) :=
  match d.key with
  | some k => if tp = "None" then [] else [(k, ⟨.conv, tp, parent⟩)]
  | none => []

/-- the numeric bounds `Conversion.__init__` enforces -/
def Directive.inRange (d : Directive) : Prop :=
  (∀ n, d.width = .num n → n ≤ SSIZE_MAX) ∧
  (∀ n, d.prec = some (.num n) → n ≤ SSIZE_MAX ∧ (intCvt.contains d.conv = true → n ≤ SSIZE_MAX - 3))

theorem doWidth_ok {st st' : St} {width : Num} {parent : Nat} (h : doWidth st width parent = .ok st') :
    (∀ n, width = .num n → n ≤ SSIZE_MAX) ∧
    st'.core = ⟨st.seq ++ widthEntries width parent, st.map, st.items⟩ ∧
    (width = .star → st.map = []) ∧ st'.warnings = st.warnings := by
  unfold doWidth at h
  cases width with
  | star =>
    simp only [] at h
    obtain ⟨a, b⟩ := addArgument_none h
    refine ⟨fun n hn => (by cases hn), b, fun _ => a, ?_⟩
    unfold addArgument at h; simp only [] at h; split at h
    · cases h
    · cases h; rfl
  | num n =>
    simp only [] at h
    split at h
    · cases h
    · rename_i hn
      cases h
      refine ⟨fun m hm => (by cases hm; omega), (by simp [St.core, widthEntries, precEntries] <;> rfl), fun hc => (by cases hc), rfl⟩

theorem doPrec_ok {st st' : St} {prec : Option Num} {conv : Char} {parent : Nat} (h : doPrec st prec conv parent = .ok st') :
    (∀ n, prec = some (.num n) → n ≤ SSIZE_MAX ∧ (intCvt.contains conv = true → n ≤ SSIZE_MAX - 3)) ∧
    st'.core = ⟨st.seq ++ precEntries prec parent, st.map, st.items⟩ ∧
    (prec = some .star → st.map = []) ∧ st'.warnings = st.warnings := by
  unfold doPrec at h
  cases prec with
  | none =>
    simp only [] at h
    cases h
    exact ⟨fun n hn => (by cases hn), (by simp [St.core, widthEntries, precEntries] <;> rfl), fun hc => (by cases hc), rfl⟩
  | some p =>
    cases p with
    | star =>
      simp only [] at h
      obtain ⟨a, b⟩ := addArgument_none h
      refine ⟨fun n hn => (by cases hn), b, fun _ => a, ?_⟩
      unfold addArgument at h; simp only [] at h; split at h
      · cases h
      · cases h; rfl
    | num n =>
      simp only [] at h
      split at h
      · cases h
      · split at h
        · cases h
        · rename_i h1 h2
          cases h
          refine ⟨fun m hm => ?_, (by simp [St.core, widthEntries, precEntries] <;> rfl), fun hc => (by cases hc), rfl⟩
          cases hm
          refine ⟨by omega, fun hi => ?_⟩
          simp only [hi, Bool.true_and, decide_eq_true_eq] at h2
          omega

theorem doWidth_error {st : St} {width : Num} {parent : Nat} {e : PErr} (h : doWidth st width parent = .error e) :
    e = .ArgumentIndexingMixture ∨ e = .WidthRangeError := by
  unfold doWidth at h
  cases width with
  | star => exact Or.inl (addArgument_error h)
  | num n => simp only [] at h; split at h <;> cases h; exact Or.inr rfl

theorem doPrec_error {st : St} {prec : Option Num} {conv : Char} {parent : Nat} {e : PErr} (h : doPrec st prec conv parent = .error e) :
    e = .ArgumentIndexingMixture ∨ e = .PrecisionRangeError := by
  unfold doPrec at h
  cases prec with
  | none => cases h
  | some p =>
    cases p with
    | star => exact Or.inl (addArgument_error h)
    | num n =>
      simp only [] at h
      split at h
      · cases h; exact Or.inr rfl
      · split at h <;> cases h; exact Or.inr rfl

/-! ## `Conversion.__init__` as a whole -/

@[simp] theorem lateWarnings_core (w : Bool) (st : St) (d : Directive) : (lateWarnings w st d).core = st.core := by
  unfold lateWarnings
  simp only []
  split <;> split <;> split <;> (try split) <;> (try split) <;> simp

theorem conversion_ok {w : Bool} {st st' : St} {d : Directive} {tp : String} (h : conversion w st d = .ok (st', tp)) :
    typeTable.lookup d.conv = some tp ∧
    st'.core = ⟨st.seq ++ seqAdd d tp st.items.length, st.map ++ mapAdd d tp st.items.length, st.items⟩ ∧
    d.inRange ∧ (tp = "None" → d.key = none) ∧
    (seqAdd d tp st.items.length ≠ [] → st.map = []) ∧
    (mapAdd d tp st.items.length ≠ [] → st.seq = [] ∧ seqAdd d tp st.items.length = []) := by
  unfold conversion at h
  simp only [] at h
  cases h1 : checkFlags w st d.flags d.conv with
  | error e => rw [h1] at h; cases h
  | ok st1 =>
    rw [h1] at h; simp only [] at h
    have c1 := checkFlags_core h1
    cases h2 : doWidth st1 d.width st.items.length with
    | error e => rw [h2] at h; cases h
    | ok st2 =>
      rw [h2] at h; simp only [] at h
      obtain ⟨w2, c2, m2, _⟩ := doWidth_ok h2
      cases h3 : doPrec st2 d.prec d.conv st.items.length with
      | error e => rw [h3] at h; cases h
      | ok st3 =>
        rw [h3] at h; simp only [] at h
        obtain ⟨w3, c3, m3, _⟩ := doPrec_ok h3
        cases h4 : typeTable.lookup d.conv with
        | none => rw [h4] at h; cases h
        | some tp' =>
          rw [h4] at h; simp only [] at h
          have e1 : st1.seq = st.seq ∧ st1.map = st.map ∧ st1.items = st.items := by
            simp only [St.core, Core.mk.injEq] at c1; exact c1
          have e2 : st2.seq = st.seq ++ widthEntries d.width st.items.length ∧
              st2.map = st.map ∧ st2.items = st.items := by
            simp only [St.core, Core.mk.injEq] at c2; rw [e1.1, e1.2.1, e1.2.2] at c2; exact c2
          have e3 : st3.seq = st2.seq ++ precEntries d.prec st.items.length ∧
              st3.map = st.map ∧ st3.items = st.items := by
            simp only [St.core, Core.mk.injEq] at c3; rw [e2.2.1, e2.2.2] at c3; exact c3
          have hm2 : d.width = .star → st.map = [] := fun hw => by rw [← e1.2.1]; exact m2 hw
          have hm3 : d.prec = some .star → st.map = [] := fun hp => by rw [← e2.2.1]; exact m3 hp
          have c4 : (lateWarnings w st3 d).core = st3.core := lateWarnings_core w st3 d
          simp only [St.core, Core.mk.injEq] at c4
          by_cases hn : tp' = "None"
          · subst hn
            simp only [beq_self_eq_true, if_true] at h
            split at h
            · cases h
            · rename_i hk
              cases h
              have hk' : d.key = none := by simpa using hk
              refine ⟨rfl, ?_, ⟨w2, w3⟩, fun _ => hk', ?_, ?_⟩
              · simp only [St.core, Core.mk.injEq, seqAdd, mapAdd, hk', if_true, List.append_nil]
                rw [c4.1, c4.2.1, c4.2.2, e3.1, e3.2.1, e3.2.2, e2.1]
                exact ⟨by simp, rfl, rfl⟩
              · intro hne
                simp only [seqAdd, hk', if_true, List.append_nil] at hne
                cases hw : d.width with
                | star => exact hm2 hw
                | num n =>
                  rw [hw] at hne
                  cases hp : d.prec with
                  | none => rw [hp] at hne; simp [widthEntries, precEntries] at hne
                  | some p =>
                    cases p with
                    | star => exact hm3 hp
                    | num m => rw [hp] at hne; simp [widthEntries, precEntries] at hne
              · intro hne
                simp [mapAdd, hk'] at hne
          · have hb : (tp' == "None") = false := by simpa using hn
            simp only [hb] at h
            cases h5 : addArgument (lateWarnings w st3 d) d.key ⟨.conv, tp', st.items.length⟩ with
            | error e => rw [h5] at h; cases h
            | ok st5 =>
              rw [h5] at h; simp only [] at h
              cases h
              refine ⟨rfl, ?_, ⟨w2, w3⟩, fun hc => absurd hc hn, ?_, ?_⟩
              · cases hk : d.key with
                | none =>
                  rw [hk] at h5
                  obtain ⟨_, c5⟩ := addArgument_none h5
                  simp only [St.core, Core.mk.injEq] at c5 ⊢
                  simp only [seqAdd, mapAdd, hk, hn, if_false, List.append_nil]
                  rw [c5.1, c5.2.1, c5.2.2, c4.1, c4.2.1, c4.2.2, e3.1, e3.2.1, e3.2.2, e2.1]
                  simp
                | some k =>
                  rw [hk] at h5
                  obtain ⟨_, c5⟩ := addArgument_some h5
                  simp only [St.core, Core.mk.injEq] at c5 ⊢
                  simp only [seqAdd, mapAdd, hk, hn, if_false, List.append_nil]
                  rw [c5.1, c5.2.1, c5.2.2, c4.1, c4.2.1, c4.2.2, e3.1, e3.2.1, e3.2.2, e2.1]
                  simp
              · intro hne
                cases hw : d.width with
                | star => exact hm2 hw
                | num n =>
                  cases hp : d.prec with
                  | some p =>
                    cases p with
                    | star => exact hm3 hp
                    | num m =>
                      cases hk : d.key with
                      | none =>
                        rw [hk] at h5
                        have := (addArgument_none h5).1
                        rw [c4.2.1, e3.2.1] at this; exact this
                      | some k => simp [seqAdd, hw, hp, hk, widthEntries, precEntries] at hne
                  | none =>
                    cases hk : d.key with
                    | none =>
                      rw [hk] at h5
                      have := (addArgument_none h5).1
                      rw [c4.2.1, e3.2.1] at this; exact this
                    | some k => simp [seqAdd, hw, hp, hk, widthEntries, precEntries] at hne
              · intro hne
                cases hk : d.key with
                | none => simp [mapAdd, hk] at hne
                | some k =>
                  rw [hk] at h5
                  have h0 := (addArgument_some h5).1
                  rw [c4.1, e3.1, e2.1] at h0
                  simp only [List.append_eq_nil_iff] at h0
                  obtain ⟨⟨hs, hw⟩, hp⟩ := h0
                  refine ⟨hs, ?_⟩
                  simp only [seqAdd, hk, List.append_nil, List.append_eq_nil_iff]
                  exact ⟨hw, hp⟩

/-- every conversion character of `_info.all_cvt` has a type (the `assert False  # no coverage` is dead) -/
theorem typeTable_total : ∀ c ∈ allCvt, (typeTable.lookup c).isSome = true := by decide

/-- only `%` has the type `None` -/
theorem typeTable_none : ∀ c ∈ allCvt, typeTable.lookup c = some "None" → c = '%' := by decide

theorem conversion_error {w : Bool} {st : St} {d : Directive} {e : PErr} (h : conversion w st d = .error e)
    (hf : ∀ x ∈ d.flags, flagChars.contains x = true) (hc : allCvt.contains d.conv = true) :
    e = .ArgumentIndexingMixture ∨ e = .WidthRangeError ∨ e = .PrecisionRangeError ∨
    (e = .ForbiddenArgumentKey ∧ d.key.isSome = true ∧ d.conv = '%') := by
  have hmem : d.conv ∈ allCvt := by simpa using hc
  unfold conversion at h
  simp only [] at h
  obtain ⟨st1, h1⟩ := checkFlags_noerr w st d.flags d.conv hf
  rw [h1] at h; simp only [] at h
  cases h2 : doWidth st1 d.width st.items.length with
  | error e2 =>
    rw [h2] at h; cases h
    rcases doWidth_error h2 with r | r
    · exact Or.inl r
    · exact Or.inr (Or.inl r)
  | ok st2 =>
    rw [h2] at h; simp only [] at h
    cases h3 : doPrec st2 d.prec d.conv st.items.length with
    | error e3 =>
      rw [h3] at h; cases h
      rcases doPrec_error h3 with r | r
      · exact Or.inl r
      · exact Or.inr (Or.inr (Or.inl r))
    | ok st3 =>
      rw [h3] at h; simp only [] at h
      cases h4 : typeTable.lookup d.conv with
      | none => have := typeTable_total _ hmem; rw [h4] at this; cases this
      | some tp =>
        rw [h4] at h; simp only [] at h
        split at h
        · rename_i hn
          have hn' : tp = "None" := by simpa using hn
          subst hn'
          split at h
          · rename_i hk
            cases h
            exact Or.inr (Or.inr (Or.inr ⟨rfl, hk, typeTable_none _ hmem h4⟩))
          · cases h
        · cases h5 : addArgument (lateWarnings w st3 d) d.key ⟨.conv, tp, st.items.length⟩ with
          | error e5 => rw [h5] at h; cases h; exact Or.inl (addArgument_error h5)
          | ok st5 => rw [h5] at h; cases h

end I18n.PyFmt
