import I18n.Lemmas.MoParse
/-! Each defect named in C09's statement excludes `Spec.WellFormedFile`. -/
namespace I18n.Mo
open I18n.Mo.Spec

theorem magicOf_inj {b : Bytes} {be be' : Bool} (h : Slice b 0 (magicOf be)) (h' : Slice b 0 (magicOf be')) : be = be' := by
  have e := Spec.Slice.unique h h' (by cases be <;> cases be' <;> rfl)
  cases be <;> cases be' <;> first | rfl | (revert e; decide)

theorem EntriesAt_get {be : Bool} {b : Bytes} {ko to : Nat} :
    ∀ (cat : List CatEntry) (i0 : Nat), EntriesAt be b ko to i0 cat →
      ∀ j (hj : j < cat.length), StringAt be b (ko + 8 * (i0 + j)) cat[j].key ∧ StringAt be b (to + 8 * (i0 + j)) cat[j].value := by
  intro cat
  induction cat with
  | nil => intro i0 _ j hj; simp at hj
  | cons e es ih =>
    intro i0 ⟨hk, hv, hrest⟩ j hj
    cases j with
    | zero => exact ⟨hk, hv⟩
    | succ j =>
      have := ih (i0 + 1) hrest j (by simpa using hj)
      simpa [Nat.add_assoc, Nat.add_comm 1 j] using this

theorem Sorted_get : ∀ (l : List Bytes), Sorted l → ∀ i (h : i + 1 < l.length), ¬ (l[i + 1] < l[i]) := by
  intro l
  induction l with
  | nil => intro _ i h; simp at h
  | cons a r ih =>
    intro hs i h
    cases r with
    | nil => simp at h
    | cons c r' =>
      obtain ⟨h1, h2⟩ := hs
      cases i with
      | zero => exact h1
      | succ i => exact ih h2 i (by simpa using h)

/-- what `Encodes` gives once the header words are known -/
theorem Encodes_entry {b : Bytes} {cat : List CatEntry} {hidden : Bool} (h : Encodes b cat hidden)
    {be : Bool} {n ko to : Nat} (hw : HeaderWords b be n ko to) :
    n = cat.length ∧ ∀ i (hi : i < cat.length),
      StringAt be b (ko + 8 * i) cat[i].key ∧ StringAt be b (to + 8 * i) cat[i].value := by
  obtain ⟨be', major, minor, ko', to', hm, _, _, _, hn, _, hko, hto, hE, _⟩ := h
  have hbe := magicOf_inj hw.magic hm
  subst hbe
  have h1 := Spec.WordAt.unique hw.count hn
  have h2 := Spec.WordAt.unique hw.keys hko
  have h3 := Spec.WordAt.unique hw.values hto
  subst h2; subst h3
  refine ⟨h1, fun i hi => ?_⟩
  have := EntriesAt_get cat 0 hE i hi
  simpa using this

theorem StringAt_desc {be : Bool} {b : Bytes} {tab i : Nat} {s : Bytes} (h : StringAt be b (tab + 8 * i) s) :
    ∃ off, DescAt be b tab i s.length off ∧ Slice b off (s ++ [0]) := by
  obtain ⟨off, hl, ho, hs⟩ := h
  exact ⟨off, ⟨hl, ho⟩, hs⟩

theorem DescAt_unique {be : Bool} {b : Bytes} {tab i l o l' o' : Nat} (h : DescAt be b tab i l o) (h' : DescAt be b tab i l' o') :
    l = l' ∧ o = o' :=
  ⟨Spec.WordAt.unique h.1 h'.1, Spec.WordAt.unique h.2 h'.2⟩

theorem not_wf_of_BadMagic {b : Bytes} (h : BadMagic b) : ¬ WellFormedFile b := by
  rintro ⟨cat, hidden, ⟨be, _, _, _, _, hm, _⟩, _⟩
  cases be
  · exact h.1 hm
  · exact h.2 hm

theorem not_wf_of_BadMajor {b : Bytes} (h : BadMajor b) : ¬ WellFormedFile b := by
  obtain ⟨be, rev, hm, hrev, hgt⟩ := h
  rintro ⟨cat, hidden, ⟨be', major, minor, _, _, hm', hrev', hmaj, hmin, _⟩, _⟩
  have := magicOf_inj hm hm'; subst this
  have := Spec.WordAt.unique hrev hrev'; subst this
  have : (major * 65536 + minor) / 65536 = major := by omega
  omega

theorem not_wf_of_HeaderBeyondEnd {b : Bytes} (h : HeaderBeyondEnd b) : ¬ WellFormedFile b := by
  rintro ⟨cat, hidden, ⟨be', major, minor, _, _, hm', hrev', _, hmin, _, hh, _, hto, _⟩, _⟩
  rcases h with h | ⟨be, rev, hm, hrev, hmin1, hlen⟩
  · have := hto.2.length_le; rw [encodeWord_length] at this; omega
  · have := magicOf_inj hm hm'; subst this
    have := Spec.WordAt.unique hrev hrev'; subst this
    have hminor : minor = 1 := by omega
    subst hminor
    unfold HiddenFlag at hh
    simp at hh
    obtain ⟨ns, hns, _⟩ := hh
    have := hns.2.length_le; rw [encodeWord_length] at this; omega

theorem not_wf_of_TableBeyondEnd {b : Bytes} (h : TableBeyondEnd b) : ¬ WellFormedFile b := by
  obtain ⟨be, n, ko, to, i, hw, hi, hlen⟩ := h
  rintro ⟨cat, hidden, henc, _⟩
  obtain ⟨hn, hent⟩ := Encodes_entry henc hw
  subst hn
  obtain ⟨⟨_, _, hko, _⟩, ⟨_, _, hto, _⟩⟩ := hent i hi
  have h1 := hko.2.length_le; rw [encodeWord_length] at h1
  have h2 := hto.2.length_le; rw [encodeWord_length] at h2
  omega

theorem desc_in_bounds {b : Bytes} {cat : List CatEntry} {hidden : Bool} (henc : Encodes b cat hidden)
    {be : Bool} {n ko to i len off : Nat} (hw : HeaderWords b be n ko to) (hi : i < n)
    (hd : DescAt be b ko i len off ∨ DescAt be b to i len off) :
    off + len < b.length ∧ b[off + len]? = some 0 := by
  obtain ⟨hn, hent⟩ := Encodes_entry henc hw
  subst hn
  obtain ⟨hk, hv⟩ := hent i hi
  rcases hd with hd | hd
  · obtain ⟨off', hd', hs⟩ := StringAt_desc hk
    obtain ⟨e1, e2⟩ := DescAt_unique hd hd'
    subst e1; subst e2
    have := hs.length_le
    simp at this
    refine ⟨by omega, ?_⟩
    have := Spec.Slice.getElem? hs (cat[i].key.length) (by simp)
    rw [this]; simp
  · obtain ⟨off', hd', hs⟩ := StringAt_desc hv
    obtain ⟨e1, e2⟩ := DescAt_unique hd hd'
    subst e1; subst e2
    have := hs.length_le
    simp at this
    refine ⟨by omega, ?_⟩
    have := Spec.Slice.getElem? hs (cat[i].value.length) (by simp)
    rw [this]; simp

theorem not_wf_of_StringBeyondEnd {b : Bytes} (h : StringBeyondEnd b) : ¬ WellFormedFile b := by
  obtain ⟨be, n, ko, to, i, len, off, hw, hi, hd, hlen⟩ := h
  rintro ⟨cat, hidden, henc, _⟩
  have := (desc_in_bounds henc hw hi hd).1
  omega

theorem not_wf_of_MissingTerminator {b : Bytes} (h : MissingTerminator b) : ¬ WellFormedFile b := by
  obtain ⟨be, n, ko, to, i, len, off, c, hw, hi, hd, hc, hne⟩ := h
  rintro ⟨cat, hidden, henc, _⟩
  have := (desc_in_bounds henc hw hi hd).2
  rw [hc] at this
  cases this
  exact hne rfl

theorem key_count_nul {e : CatEntry} (h : e.WF) : e.key.count 0 ≤ 1 := by
  have h0 := List.count_eq_zero.2 (key0_no_nul h)
  unfold CatEntry.key
  cases hp : e.plural with
  | none => simp only; omega
  | some p =>
    have := List.count_eq_zero.2 (h.plural_no_nul p hp)
    simp only [List.count_append, List.count_cons]
    simp; omega

theorem key_nul_structure {e : CatEntry} (h : e.WF) :
    (¬ ∃ x y z, e.key = x ++ 0 :: y ++ 0 :: z) ∧ ((0 : UInt8) ∉ e.key → (0 : UInt8) ∉ e.value) := by
  constructor
  · rintro ⟨x, y, z, hxyz⟩
    have := key_count_nul h
    rw [hxyz] at this
    simp only [List.count_append, List.count_cons] at this
    simp at this
    omega
  · intro hno
    cases hp : e.plural with
    | none =>
      have := value_singular h hp
      exact h.forms_no_nul e.value (by rw [this]; simp)
    | some p =>
      exfalso; apply hno
      unfold CatEntry.key; rw [hp]; simp

theorem not_wf_of_BadNulStructure {b : Bytes} (h : BadNulStructure b) : ¬ WellFormedFile b := by
  obtain ⟨be, n, ko, to, i, K, V, hw, hi, hK, hV, hbad⟩ := h
  rintro ⟨cat, hidden, henc, hwf⟩
  obtain ⟨hn, hent⟩ := Encodes_entry henc hw
  subst hn
  obtain ⟨hk, hv⟩ := hent i hi
  have eK := Spec.StringAt.unique hK hk
  have eV := Spec.StringAt.unique hV hv
  subst eK; subst eV
  obtain ⟨h1, h2⟩ := key_nul_structure (hwf cat[i] (List.getElem_mem hi))
  rcases hbad with hbad | ⟨hb1, hb2⟩
  · exact h1 hbad
  · exact h2 hb1 hb2

theorem takeWhile_all {p : UInt8 → Bool} : ∀ (a : Bytes), (∀ x ∈ a, p x = true) → a.takeWhile p = a := by
  intro a
  induction a with
  | nil => intro _; rfl
  | cons c cs ih =>
    intro h
    simp only [List.takeWhile, h c (by simp)]
    rw [ih (fun x hx => h x (List.mem_cons_of_mem _ hx))]

theorem takeWhile_stop {p : UInt8 → Bool} (c : UInt8) (r : Bytes) (hc : p c = false) :
    ∀ (a : Bytes), (∀ x ∈ a, p x = true) → (a ++ c :: r).takeWhile p = a := by
  intro a
  induction a with
  | nil => intro _; simp [hc]
  | cons d ds ih =>
    intro h
    simp only [List.cons_append, List.takeWhile, h d (by simp)]
    rw [ih (fun x hx => h x (List.mem_cons_of_mem _ hx))]

theorem takeWhile_key {e : CatEntry} (h : e.WF) : e.key.takeWhile (· ≠ 0) = e.key0 := by
  have h0 := key0_no_nul h
  have hall : ∀ x ∈ e.key0, (decide (x ≠ 0)) = true := by
    intro x hx; simp; intro hx0; subst hx0; exact h0 hx
  unfold CatEntry.key
  cases e.plural with
  | none => simp only; exact takeWhile_all _ hall
  | some p => simp only; exact takeWhile_stop 0 p (by simp) _ hall

theorem not_wf_of_KeysOutOfOrder {b : Bytes} (h : KeysOutOfOrder b) : ¬ WellFormedFile b := by
  obtain ⟨be, n, ko, to, i, K, K', hw, hi, hK, hK', hlt⟩ := h
  rintro ⟨cat, hidden, henc, hwf⟩
  obtain ⟨hn, hent⟩ := Encodes_entry henc hw
  subst hn
  have eK := Spec.StringAt.unique hK (hent i (by omega)).1
  have eK' := Spec.StringAt.unique hK' (hent (i + 1) hi).1
  subst eK; subst eK'
  rw [takeWhile_key (hwf _ (List.getElem_mem _)), takeWhile_key (hwf _ (List.getElem_mem _))] at hlt
  obtain ⟨_, _, _, _, _, _, _, _, _, _, _, _, _, _, hs⟩ := henc
  have := Sorted_get _ hs i (by simpa using hi)
  simp at this
  exact this hlt

end I18n.Mo
