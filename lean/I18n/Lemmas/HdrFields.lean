import I18n.Lemmas.HdrMeta
/-
C15 lemmas, part 2: per field, membership in the tags emitted by the imperative model ↔ the rule of `Spec.HeaderRules`
(MIME-Version, Content-Transfer-Encoding, Project-Id-Version).
-/
namespace I18n.Hdr
open I18n.Spec.HeaderRules I18n.Date I18n.Generated

theorem mem_mimeVersionTags (ls : List Line) (t : TagCall) :
    t ∈ mimeVersionTags (buildMeta ls []) ↔ FixedRule (fieldLines ls) "MIME-Version" "1.0" "mime-version" t := by
  unfold mimeVersionTags FixedRule cnt
  rw [meta_getS]
  generalize vals (fieldLines ls) "MIME-Version" = vs
  simp only [List.mem_append, List.mem_map, List.mem_filter, mem_dedup, dedup_length_zero]
  have e1 : HeaderFields.mimeVersionGood.toList = "1.0".toList := rfl
  constructor
  · rintro ((h | ⟨v, ⟨hv, hne⟩, rfl⟩) | h)
    · split at h
      · right; left; simp_all [t0, tag]
      · simp at h
    · right; right; exact ⟨v, hv, by simpa [e1] using hne, rfl⟩
    · split at h
      · left; simp_all [tag, safe]
      · simp at h
  · rintro (⟨h0, rfl⟩ | ⟨h1, rfl⟩ | ⟨v, hv, hne, rfl⟩)
    · right; simp [h0, tag, safe]
    · left; left; simp [h1, t0, tag]
    · left; right; exact ⟨v, ⟨hv, by simpa [e1] using hne⟩, rfl⟩

theorem mem_cteTags (ls : List Line) (t : TagCall) :
    t ∈ cteTags (buildMeta ls []) ↔
      FixedRule (fieldLines ls) "Content-Transfer-Encoding" "8bit" "content-transfer-encoding" t := by
  unfold cteTags FixedRule cnt
  rw [meta_getS]
  generalize vals (fieldLines ls) "Content-Transfer-Encoding" = vs
  simp only [List.mem_append, List.mem_map, List.mem_filter, mem_dedup, dedup_length_zero]
  have e1 : HeaderFields.cteGood.toList = "8bit".toList := rfl
  constructor
  · rintro ((h | ⟨v, ⟨hv, hne⟩, rfl⟩) | h)
    · split at h
      · right; left; simp_all [t0, tag]
      · simp at h
    · right; right; exact ⟨v, hv, by simpa [e1] using hne, rfl⟩
    · split at h
      · left; simp_all [tag, safe]
      · simp at h
  · rintro (⟨h0, rfl⟩ | ⟨h1, rfl⟩ | ⟨v, hv, hne, rfl⟩)
    · right; simp [h0, tag, safe]
    · left; left; simp [h1, t0, tag]
    · left; right; exact ⟨v, ⟨hv, by simpa [e1] using hne⟩, rfl⟩

theorem projectBoilerplate_iff (v : Str) :
    (HeaderFields.projectBoilerplate.map String.toList).contains v = true ↔
      (v = "PACKAGE VERSION".toList ∨ v = "PROJECT VERSION".toList) := by
  simp [HeaderFields.projectBoilerplate]

theorem hasNameChar_iff (db : UDB) (v : Str) : hasNameChar db v = true ↔ HasLetter db v := by
  simp [hasNameChar, HasLetter, List.any_eq_true, and_assoc]

theorem anyDigit_iff (v : Str) : v.any isAsciiDigit = true ↔ HasAsciiDigit v := by
  simp [HasAsciiDigit, isAsciiDigit, List.any_eq_true]

theorem mem_projectOne (db : UDB) (v : Str) (t : TagCall) :
    t ∈ projectOne db v ↔
      ((v = "PACKAGE VERSION".toList ∨ v = "PROJECT VERSION".toList) ∧ t = ⟨"boilerplate-in-project-id-version", [.str v]⟩)
      ∨ (¬ (v = "PACKAGE VERSION".toList ∨ v = "PROJECT VERSION".toList) ∧
          ((¬ HasLetter db v ∧ t = ⟨"no-package-name-in-project-id-version", [.str v]⟩)
           ∨ (¬ HasAsciiDigit v ∧ t = ⟨"no-version-in-project-id-version", [.str v]⟩))) := by
  unfold projectOne
  by_cases hb : (HeaderFields.projectBoilerplate.map String.toList).contains v = true
  · have hb' := (projectBoilerplate_iff v).1 hb
    simp only [hb, if_true, List.mem_singleton]
    constructor
    · intro h; left; exact ⟨hb', by simpa [tag, sx] using h⟩
    · rintro (⟨_, h⟩ | ⟨h, _⟩)
      · simpa [tag, sx] using h
      · exact absurd hb' h
  · have hb' : ¬ (v = "PACKAGE VERSION".toList ∨ v = "PROJECT VERSION".toList) := fun h => hb ((projectBoilerplate_iff v).2 h)
    have hb2 : (HeaderFields.projectBoilerplate.map String.toList).contains v = false := by simpa using hb
    simp only [hb2, Bool.false_eq_true, if_false, List.mem_append]
    rw [← hasNameChar_iff, ← anyDigit_iff]
    constructor
    · rintro (h | h)
      · split at h
        · right; refine ⟨hb', Or.inl ⟨by simp_all, by simpa [tag, sx] using h⟩⟩
        · simp at h
      · split at h
        · right; refine ⟨hb', Or.inr ⟨by simp_all, by simpa [tag, sx] using h⟩⟩
        · simp at h
    · rintro (⟨h, _⟩ | ⟨_, ⟨h1, rfl⟩ | ⟨h1, rfl⟩⟩)
      · exact absurd h hb'
      · left; simp [h1, tag, sx]
      · right; simp [h1, tag, sx]

theorem mem_projectIdTags (x : Ext) (ls : List Line) (t : TagCall) :
    t ∈ projectIdTags x.db (buildMeta ls []) ↔ ProjectRule x (fieldLines ls) t := by
  unfold projectIdTags ProjectRule cnt
  rw [meta_getS]
  generalize vals (fieldLines ls) "Project-Id-Version" = vs
  simp only [List.mem_append, List.mem_flatMap, mem_dedup, mem_projectOne]
  constructor
  · rintro (h | ⟨v, hv, h⟩)
    · split at h
      · right; left; simp_all [t0, tag]
      · split at h
        · left; simp_all [t0, tag]
        · simp at h
    · right; right; exact ⟨v, hv, h⟩
  · rintro (⟨h0, rfl⟩ | ⟨h1, rfl⟩ | ⟨v, hv, h⟩)
    · left
      have : ¬ vs.length > 1 := by omega
      simp [this, h0, t0, tag]
    · left; simp [h1, t0, tag]
    · right; exact ⟨v, hv, h⟩

end I18n.Hdr
