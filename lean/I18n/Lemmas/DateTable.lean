import I18n.Model.Date
import I18n.Spec.Date
/- Facts about the generated abbreviation table (kernel evaluation over the 210 entries dumped from the live module). -/
set_option linter.unusedSimpArgs false
namespace I18n.Date
open I18n.Spec.Date I18n.Generated

def isAlpha (c : Char) : Bool := (65 ≤ c.toNat && c.toNat ≤ 90) || (97 ≤ c.toNat && c.toNat ≤ 122)

/-- `[+-][0-9]{4}` -/
def offsetShape : List Char → Bool
  | [sg, a, b, c, d] => (sg = '+' || sg = '-') && isDigit a && isDigit b && isDigit c && isDigit d
  | _ => false

def entryOk (e : List Char × List (List Char)) : Bool :=
  !e.1.isEmpty && e.1.all isAlpha && e.2.all offsetShape

theorem table_ok : DateTables.timezones.all entryOk = true := by decide +kernel

/-- no abbreviation is listed twice (the live table is a dict) -/
def keysDistinct : List (List Char × List (List Char)) → Bool
  | [] => true
  | e :: es => es.all (fun e' => e'.1 != e.1) && keysDistinct es

theorem table_distinct : keysDistinct DateTables.timezones = true := by decide +kernel

theorem find_of_distinct {l : List (List Char × List (List Char))} (hd : keysDistinct l = true)
    {e : List Char × List (List Char)} (he : e ∈ l) : l.find? (fun x => x.1 == e.1) = some e := by
  induction l with
  | nil => cases he
  | cons x xs ih =>
    simp only [keysDistinct, Bool.and_eq_true, List.all_eq_true] at hd
    cases he with
    | head => simp [List.find?_cons]
    | tail _ he =>
      have hne : (x.1 == e.1) = false := by
        have := hd.1 e he
        cases h : (x.1 == e.1) with
        | false => rfl
        | true =>
          have h' : x.1 = e.1 := by simpa using h
          rw [h'] at this; simp at this
      rw [List.find?_cons, hne]
      exact ih hd.2 he

theorem lookupTz_sound {a : List Char} {os : List (List Char)} (h : lookupTz a = some os) : OffsetsOf a os := by
  unfold lookupTz at h
  split at h
  · rename_i e he
    simp only [Option.some.injEq] at h
    have hm := List.mem_of_find?_eq_some he
    have hp := List.find?_some he
    exact ⟨e, hm, by simpa using hp, h⟩
  · cases h

theorem lookupTz_complete {a : List Char} {os : List (List Char)} (h : OffsetsOf a os) : lookupTz a = some os := by
  obtain ⟨e, he, rfl, rfl⟩ := h
  unfold lookupTz
  rw [find_of_distinct table_distinct he]

theorem lookupTz_iff {a : List Char} {os : List (List Char)} : lookupTz a = some os ↔ OffsetsOf a os :=
  ⟨lookupTz_sound, lookupTz_complete⟩

theorem known_iff {a : List Char} : KnownAbbr a ↔ ∃ os, lookupTz a = some os := by
  constructor
  · rintro ⟨e, he, rfl⟩; exact ⟨e.2, lookupTz_complete ⟨e, he, rfl, rfl⟩⟩
  · rintro ⟨os, h⟩
    obtain ⟨e, he, h1, _⟩ := lookupTz_sound h
    exact ⟨e, he, h1⟩

theorem known_alpha {a : List Char} (h : KnownAbbr a) : a ≠ [] ∧ ∀ c ∈ a, isAlpha c = true := by
  obtain ⟨e, he, rfl⟩ := h
  have := List.all_eq_true.mp table_ok e he
  simp only [entryOk, Bool.and_eq_true, Bool.not_eq_true', List.isEmpty_eq_false_iff, List.all_eq_true] at this
  exact ⟨this.1.1, this.1.2⟩

theorem offsets_shape {a : List Char} {os : List (List Char)} (h : OffsetsOf a os) : ∀ o ∈ os, offsetShape o = true := by
  obtain ⟨e, he, rfl, rfl⟩ := h
  have := List.all_eq_true.mp table_ok e he
  simp only [entryOk, Bool.and_eq_true, List.all_eq_true] at this
  exact this.2

end I18n.Date
