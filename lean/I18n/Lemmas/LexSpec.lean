import I18n.Spec.PluralTokens
/-! The lexer model (rply's loop: rules tried in declaration order, first match wins, greedy regexes) computes
    exactly the longest-lexeme tokenisation `Spec.Tokens`. -/
namespace I18n.PluralParse
open I18n I18n.Spec

/-! ## step equations of `lexGo` -/

/-- the six two-character rules -/
def twoCharTok (c c' : Char) : Option Tok :=
  if c = '|' ∧ c' = '|' then some (.bool .or)
  else if c = '&' ∧ c' = '&' then some (.bool .and)
  else if c = '!' ∧ c' = '=' then some (.cmp .noteq)
  else if c = '=' ∧ c' = '=' then some (.cmp .eq)
  else if c = '<' ∧ c' = '=' then some (.cmp .lte)
  else if c = '>' ∧ c' = '=' then some (.cmp .gte)
  else none

theorem lexGo_two {c c' : Char} {t : Tok} (h : twoCharTok c c' = some t) (r : List Char) (p : Pending) :
    lexGo (c :: c' :: r) p = flush p ((lexGo r none).cons t) := by
  unfold twoCharTok at h
  repeat' split at h
  all_goals first | (rename_i hc; obtain ⟨rfl, rfl⟩ := hc; cases h; simp only [lexGo]) | cases h

/-- the catch-all branch of `lexGo` -/
def lexOne (c : Char) (rest : List Char) (p : Pending) : LexResult :=
    if isDigit c then
      match p with
      | none => lexGo rest (some (digitVal c, 1))
      | some (v, len) => lexGo rest (some (v * 10 + digitVal c, len + 1))
    else
      flush p <|
        if c = ' ' ∨ c = '\t' then lexGo rest none
        else match oneCharTok c with
          | some t => (lexGo rest none).cons t
          | none => .syntaxError

theorem lexGo_one {c : Char} {rest : List Char} (h : ∀ c' r, rest = c' :: r → twoCharTok c c' = none) (p : Pending) :
    lexGo (c :: rest) p = lexOne c rest p := by
  rw [lexGo.eq_def]
  split
  · rename_i heq; simp at heq
  all_goals try (rename_i heq; simp at heq; obtain ⟨rfl, rfl⟩ := heq; have := h _ _ rfl; simp [twoCharTok] at this)
  rename_i heq; simp at heq; obtain ⟨rfl, rfl⟩ := heq; rfl

theorem twoCharTok_not_digit {c c' : Char} {t : Tok} (h : twoCharTok c c' = some t) : isDigit c = false := by
  unfold twoCharTok at h
  repeat' split at h
  all_goals first | (rename_i hc; obtain ⟨rfl, rfl⟩ := hc; decide) | cases h

theorem ite_some_cases {α : Type} {p : Prop} [Decidable p] {a b : α} {e : Option α}
    (h : (if p then some a else e) = some b) : (p ∧ a = b) ∨ (¬ p ∧ e = some b) := by
  by_cases hp : p <;> simp_all

theorem oneCharTok_not_digit {c : Char} {t : Tok} (h : oneCharTok c = some t) : isDigit c = false := by
  unfold oneCharTok at h
  iterate 13 (rcases ite_some_cases h with ⟨rfl, rfl⟩ | ⟨_, h⟩; · decide)
  cases h

theorem blank_not_digit {c : Char} (h : c = ' ' ∨ c = '\t') : isDigit c = false := by
  rcases h with rfl | rfl <;> decide

theorem twoCharTok_digit {c : Char} (h : isDigit c = true) (c' : Char) : twoCharTok c c' = none := by
  cases h2 : twoCharTok c c' with
  | none => rfl
  | some t => rw [twoCharTok_not_digit h2] at h; cases h

def push (p : Pending) (c : Char) : Pending :=
  match p with
  | none => some (digitVal c, 1)
  | some (v, len) => some (v * 10 + digitVal c, len + 1)

theorem lexGo_digit {c : Char} (h : isDigit c = true) (r : List Char) (p : Pending) :
    lexGo (c :: r) p = lexGo r (push p c) := by
  rw [lexGo_one (fun c' _ _ => twoCharTok_digit h c')]
  simp only [lexOne, h, if_true]
  cases p <;> rfl

theorem lexGo_digits (ds : List Char) (hd : ∀ c ∈ ds, isDigit c = true) (s : List Char) (p : Pending) :
    lexGo (ds ++ s) p = lexGo s (ds.foldl push p) := by
  induction ds generalizing p with
  | nil => rfl
  | cons d ds ih =>
    rw [List.cons_append, lexGo_digit (hd d (by simp)), ih (fun c hc => hd c (by simp [hc]))]
    rfl

/-- the string does not start with a digit -/
def NoDigitHead (s : List Char) : Prop := ∀ c r, s = c :: r → isDigit c = false

theorem flush_none (r : LexResult) : flush none r = r := rfl

theorem flush_some_ok (v len : Nat) (ts : List Tok) : flush (some (v, len)) (.ok ts) = .ok (.int v :: ts) := by
  simp [flush, tooLong, maxStrDigits]

/-- in front of anything but a digit the pending numeral is emitted -/
theorem lexGo_flush {s : List Char} (h : NoDigitHead s) (p : Pending) : lexGo s p = flush p (lexGo s none) := by
  rcases s with _ | ⟨c, rest⟩
  · simp [lexGo, flush_none]
  · have hc := h c rest rfl
    rcases rest with _ | ⟨c', r⟩
    · rw [lexGo_one (by intro _ _ h; cases h), lexGo_one (by intro _ _ h; cases h)]
      simp [lexOne, hc, flush_none]
    · cases h2 : twoCharTok c c' with
      | some t => rw [lexGo_two h2, lexGo_two h2, flush_none]
      | none =>
        have hh : ∀ c'' r', c' :: r = c'' :: r' → twoCharTok c c'' = none := by
          intro _ _ h; cases h; exact h2
        rw [lexGo_one hh, lexGo_one hh]
        simp [lexOne, hc, flush_none]

/-! ## numerals -/

theorem isDigit_iff (c : Char) : isDigit c = true ↔ IsDecDigit c := by
  simp [isDigit, IsDecDigit]

theorem foldl_push_some (ds : List Char) (v len : Nat) :
    ds.foldl push (some (v, len)) =
      some (ds.foldl (fun v c => 10 * v + (c.toNat - '0'.toNat)) v, len + ds.length) := by
  induction ds generalizing v len with
  | nil => rfl
  | cons d ds ih =>
    simp only [List.foldl_cons, push, ih, digitVal, List.length_cons]
    congr 2
    · congr 1; omega
    · omega

theorem foldl_push_none {ds : List Char} (h : ds ≠ []) :
    ds.foldl push none = some (decimalValue ds, ds.length) := by
  rcases ds with _ | ⟨d, ds⟩
  · exact absurd rfl h
  · simp only [List.foldl_cons, push, foldl_push_some, decimalValue, digitVal, List.length_cons]
    congr 2
    · congr 1; omega
    · omega

theorem digits_prefix_length {ds' : List Char} (hd' : ∀ c ∈ ds', isDigit c = true) :
    ∀ {ds s : List Char}, NoDigitHead s → ds' <+: ds ++ s → ds'.length ≤ ds.length := by
  induction ds' with
  | nil => intros; simp
  | cons d ds' ih =>
    intro ds s hs hp
    rcases ds with _ | ⟨e, ds⟩
    · rcases s with _ | ⟨c, r⟩
      · simp at hp
      · simp only [List.nil_append, List.cons_prefix_cons] at hp
        have := hs c r rfl
        rw [← hp.1, hd' d (by simp)] at this
        cases this
    · simp only [List.cons_append, List.cons_prefix_cons] at hp
      have := ih (fun c hc => hd' c (by simp [hc])) hs hp.2
      simp; omega

/-! ## lexemes, classified -/

theorem lexeme_cases {w : List Char} {t : Tok} (h : Lexeme w t) :
    (∃ c, w = [c] ∧ oneCharTok c = some t ∧ ¬ (c = ' ' ∨ c = '\t')) ∨ (∃ c c', w = [c, c'] ∧ twoCharTok c c' = some t) ∨
    (w ≠ [] ∧ (∀ c ∈ w, isDigit c = true) ∧ t = .int (decimalValue w)) := by
  cases h
  case num h1 h2 => exact .inr (.inr ⟨h1, fun c hc => (isDigit_iff c).2 (h2 c hc), rfl⟩)
  case or => exact .inr (.inl ⟨_, _, rfl, by decide⟩)
  case and => exact .inr (.inl ⟨_, _, rfl, by decide⟩)
  case eq => exact .inr (.inl ⟨_, _, rfl, by decide⟩)
  case ne => exact .inr (.inl ⟨_, _, rfl, by decide⟩)
  case le => exact .inr (.inl ⟨_, _, rfl, by decide⟩)
  case ge => exact .inr (.inl ⟨_, _, rfl, by decide⟩)
  all_goals exact .inl ⟨_, rfl, by decide, by decide⟩

theorem lexeme_of_one {c : Char} {t : Tok} (h : oneCharTok c = some t) : Lexeme [c] t := by
  unfold oneCharTok at h
  iterate 13 (rcases ite_some_cases h with ⟨rfl, rfl⟩ | ⟨_, h⟩; · constructor)
  cases h

theorem lexeme_of_two {c c' : Char} {t : Tok} (h : twoCharTok c c' = some t) : Lexeme [c, c'] t := by
  unfold twoCharTok at h
  repeat' split at h
  all_goals first | (rename_i hc; obtain ⟨rfl, rfl⟩ := hc; cases h; constructor) | cases h

/-- a lexeme in front of a string that starts with a non-digit, non-operator-pair is at most … -/
theorem lexeme_head {w : List Char} {t : Tok} (h : Lexeme w t) : ∃ c r, w = c :: r := by
  rcases lexeme_cases h with ⟨c, rfl, _⟩ | ⟨c, c', rfl, _⟩ | ⟨hne, _, _⟩
  · exact ⟨_, _, rfl⟩
  · exact ⟨_, _, rfl⟩
  · rcases w with _ | ⟨c, r⟩
    · exact absurd rfl hne
    · exact ⟨_, _, rfl⟩

/-! ## soundness of the model w.r.t. the specification: `lex s = ok ts → Tokens s ts` -/

theorem longest_two {c c' : Char} {t : Tok} (h : twoCharTok c c' = some t) (s : List Char) : Longest [c, c'] s := by
  intro w' t' hl hp
  rcases lexeme_cases hl with ⟨x, rfl, _⟩ | ⟨x, y, rfl, _⟩ | ⟨hne, hd, _⟩
  · simp
  · simp
  · rcases w' with _ | ⟨x, r⟩
    · simp
    · simp only [List.cons_append, List.cons_prefix_cons] at hp
      have := hd x (by simp)
      rw [hp.1, twoCharTok_not_digit h] at this
      cases this

theorem longest_one {c : Char} (hc : isDigit c = false) {rest : List Char}
    (h : ∀ c' r, rest = c' :: r → twoCharTok c c' = none) : Longest [c] rest := by
  intro w' t' hl hp
  rcases lexeme_cases hl with ⟨x, rfl, _⟩ | ⟨x, y, rfl, h2⟩ | ⟨hne, hd, _⟩
  · simp
  · rcases rest with _ | ⟨c', r⟩
    · simp at hp
    · simp only [List.cons_append, List.nil_append, List.cons_prefix_cons] at hp
      obtain ⟨rfl, rfl, _⟩ := hp
      rw [h _ _ rfl] at h2
      cases h2
  · rcases w' with _ | ⟨x, r⟩
    · simp
    · simp only [List.cons_append, List.cons_prefix_cons] at hp
      have := hd x (by simp)
      rw [hp.1, hc] at this
      cases this

theorem longest_digits {ds s : List Char} (hne : ds ≠ []) (hd : ∀ c ∈ ds, isDigit c = true) (hs : NoDigitHead s) :
    Longest ds s := by
  intro w' t' hl hp
  obtain ⟨d, ds0, rfl⟩ : ∃ d ds0, ds = d :: ds0 := by
    rcases ds with _ | ⟨d, ds0⟩
    · exact absurd rfl hne
    · exact ⟨_, _, rfl⟩
  have hdd := hd d (by simp)
  rcases lexeme_cases hl with ⟨x, rfl, h1, _⟩ | ⟨x, y, rfl, h2⟩ | ⟨_, hd', _⟩
  · simp
  · simp only [List.cons_append, List.cons_prefix_cons] at hp
    rw [← hp.1, twoCharTok_not_digit h2] at hdd
    cases hdd
  · exact digits_prefix_length hd' hs hp

theorem cons_ok {t : Tok} {r : LexResult} {ts : List Tok} (h : r.cons t = .ok ts) :
    ∃ ts', r = .ok ts' ∧ ts = t :: ts' := by
  cases r <;> simp [LexResult.cons] at h
  exact ⟨_, rfl, h.symm⟩

theorem flush_some_eq_ok {v len : Nat} {r : LexResult} {ts : List Tok} (h : flush (some (v, len)) r = .ok ts) :
    ∃ ts', r = .ok ts' ∧ ts = .int v :: ts' := by
  cases r <;> simp [flush, tooLong, maxStrDigits] at h
  exact ⟨_, rfl, h.symm⟩

theorem span_digits (s : List Char) : ∃ ds s', s = ds ++ s' ∧ (∀ c ∈ ds, isDigit c = true) ∧ NoDigitHead s' := by
  induction s with
  | nil => exact ⟨[], [], rfl, by simp, by intro c r h; cases h⟩
  | cons c s ih =>
    cases hc : isDigit c with
    | true =>
      obtain ⟨ds, s', rfl, hd, hs⟩ := ih
      refine ⟨c :: ds, s', rfl, ?_, hs⟩
      intro x hx
      rcases List.mem_cons.1 hx with rfl | hx
      · exact hc
      · exact hd x hx
    | false => exact ⟨[], c :: s, rfl, by simp, by intro c' r h; cases h; exact hc⟩

theorem lexGo_sound : ∀ (n : Nat) (s : List Char) (ts : List Tok), s.length ≤ n → lexGo s none = .ok ts → Tokens s ts := by
  intro n
  induction n with
  | zero =>
    intro s ts hn h
    have : s = [] := List.eq_nil_of_length_eq_zero (by omega)
    subst this
    simp [lexGo, flush_none] at h
    subst h
    exact .nil
  | succ n ih =>
    intro s ts hn h
    rcases s with _ | ⟨c, rest⟩
    · simp [lexGo, flush_none] at h
      subst h
      exact .nil
    · simp only [List.length_cons] at hn
      cases hc : isDigit c with
      | true =>
        obtain ⟨ds, s', rfl, hd, hs'⟩ := span_digits rest
        have hall : ∀ x ∈ c :: ds, isDigit x = true := by
          intro x hx
          rcases List.mem_cons.1 hx with rfl | hx
          · exact hc
          · exact hd x hx
        have e := lexGo_digits (c :: ds) hall s' none
        rw [List.cons_append] at e
        rw [e, foldl_push_none (by simp), lexGo_flush hs'] at h
        obtain ⟨ts', h', rfl⟩ := flush_some_eq_ok h
        have ht := ih s' ts' (by simp at hn; omega) h'
        have := Tokens.tok (Lexeme.num (c :: ds) (by simp) (fun x hx => (isDigit_iff x).1 (hall x hx)))
          (longest_digits (by simp) hall hs') ht
        simpa using this
      | false =>
        have one : (∀ c' r, rest = c' :: r → twoCharTok c c' = none) → Tokens (c :: rest) ts := by
          intro hh
          rw [lexGo_one hh] at h
          simp only [lexOne, hc, flush_none, Bool.false_eq_true, if_false] at h
          by_cases hb : c = ' ' ∨ c = '\t'
          · rw [if_pos hb] at h
            exact .blank hb (ih rest ts (by omega) h)
          · rw [if_neg hb] at h
            cases ht : oneCharTok c with
            | some t =>
              simp only [ht] at h
              obtain ⟨ts', h', rfl⟩ := cons_ok h
              have := Tokens.tok (lexeme_of_one ht) (longest_one hc hh) (ih rest ts' (by omega) h')
              simpa using this
            | none => simp only [ht] at h; cases h
        rcases rest with _ | ⟨c', r⟩
        · exact one (by intro _ _ h; cases h)
        · cases h2 : twoCharTok c c' with
          | none => exact one (by intro _ _ h; cases h; exact h2)
          | some t =>
            rw [lexGo_two h2, flush_none] at h
            obtain ⟨ts', h', rfl⟩ := cons_ok h
            have := Tokens.tok (lexeme_of_two h2) (longest_two h2 r) (ih r ts' (by simp at hn; omega) h')
            simpa using this

/-! ## completeness: `Tokens s ts → lex s = ok ts` -/

theorem blank_two {c : Char} (h : c = ' ' ∨ c = '\t') (c' : Char) : twoCharTok c c' = none := by
  rcases h with rfl | rfl <;> simp [twoCharTok]

theorem lexGo_complete {s : List Char} {ts : List Tok} (h : Tokens s ts) : lexGo s none = .ok ts := by
  induction h with
  | nil => simp [lexGo, flush_none]
  | @blank c s ts hb _ ih =>
    rw [lexGo_one (fun c' _ _ => blank_two hb c')]
    have hb' : c = ' ' ∨ c = '\t' := hb
    simp [lexOne, blank_not_digit hb, hb', flush_none, ih]
  | @tok w s t ts hl hlong _ ih =>
    rcases lexeme_cases hl with ⟨c, rfl, h1, hnb⟩ | ⟨c, c', rfl, h2⟩ | ⟨hne, hd, rfl⟩
    · -- one character: by maximality no two-character rule applies
      have hh : ∀ c' r, s = c' :: r → twoCharTok c c' = none := by
        intro c' r hs
        cases h2 : twoCharTok c c' with
        | none => rfl
        | some t' =>
          have := hlong [c, c'] t' (lexeme_of_two h2) (by simp [hs])
          simp at this
      rw [List.cons_append, List.nil_append, lexGo_one hh]
      simp [lexOne, oneCharTok_not_digit h1, hnb, h1, flush_none, ih, LexResult.cons]
    · rw [List.cons_append, List.cons_append, List.nil_append, lexGo_two h2, flush_none, ih]
      rfl
    · -- a numeral: by maximality no digit follows
      have hs : NoDigitHead s := by
        intro c r hs
        cases hc : isDigit c with
        | false => rfl
        | true =>
          have hl' : Lexeme (w ++ [c]) (.int (decimalValue (w ++ [c]))) :=
            .num _ (by simp) (by
              intro x hx
              rcases List.mem_append.1 hx with hx | hx
              · exact (isDigit_iff x).1 (hd x hx)
              · simp at hx; subst hx; exact (isDigit_iff x).1 hc)
          have := hlong _ _ hl' (by rw [hs]; simp)
          simp at this
          omega
      rw [lexGo_digits w hd, foldl_push_none hne, lexGo_flush hs, ih, flush_some_ok]

theorem lex_iff_tokens (s : List Char) (ts : List Tok) : lex s = .ok ts ↔ Tokens s ts :=
  ⟨lexGo_sound s.length s ts (Nat.le_refl _), lexGo_complete⟩

theorem flush_never_valueError {p : Pending} {r : LexResult} (h : r ≠ .valueError) : flush p r ≠ .valueError := by
  rcases p with _ | ⟨v, len⟩
  · exact h
  · cases r <;> simp_all [flush, tooLong, maxStrDigits]

theorem cons_never_valueError {t : Tok} {r : LexResult} (h : r ≠ .valueError) : r.cons t ≠ .valueError := by
  cases r <;> simp_all [LexResult.cons]

theorem lexGo_never_valueError : ∀ (n : Nat) (s : List Char) (p : Pending), s.length ≤ n → lexGo s p ≠ .valueError := by
  intro n
  induction n with
  | zero =>
    intro s p hn
    have : s = [] := List.eq_nil_of_length_eq_zero (by omega)
    subst this
    simp only [lexGo]
    exact flush_never_valueError (by simp)
  | succ n ih =>
    intro s p hn
    rcases s with _ | ⟨c, rest⟩
    · simp only [lexGo]
      exact flush_never_valueError (by simp)
    · simp only [List.length_cons] at hn
      have one : (∀ c' r, rest = c' :: r → twoCharTok c c' = none) → lexGo (c :: rest) p ≠ .valueError := by
        intro hh
        rw [lexGo_one hh]
        unfold lexOne
        split
        · split <;> exact ih rest _ (by omega)
        · apply flush_never_valueError
          split
          · exact ih rest _ (by omega)
          · split
            · exact cons_never_valueError (ih rest _ (by omega))
            · simp
      rcases rest with _ | ⟨c', r⟩
      · exact one (by intro _ _ h; cases h)
      · cases h2 : twoCharTok c c' with
        | none => exact one (by intro _ _ h; cases h; exact h2)
        | some t =>
          rw [lexGo_two h2]
          exact flush_never_valueError (cons_never_valueError (ih r _ (by simp at hn; omega)))

/-- a string without tokenisation is rejected with the lexer's syntax error (never `ValueError`) -/
theorem lex_syntaxError_iff (s : List Char) : lex s = .syntaxError ↔ ¬ ∃ ts, Tokens s ts := by
  constructor
  · rintro h ⟨ts, ht⟩
    rw [(lex_iff_tokens s ts).2 ht] at h
    cases h
  · intro h
    cases hl : lex s with
    | ok ts => exact absurd ⟨ts, (lex_iff_tokens s ts).1 hl⟩ h
    | syntaxError => rfl
    | valueError => exact absurd hl (lexGo_never_valueError _ s none (Nat.le_refl _))

/-- the tokenisation is unique -/
theorem tokens_functional {s : List Char} {ts ts' : List Tok} (h : Tokens s ts) (h' : Tokens s ts') : ts = ts' := by
  have := (lex_iff_tokens s ts).2 h
  rw [(lex_iff_tokens s ts').2 h'] at this
  cases this
  rfl

end I18n.PluralParse
