import I18n.Lemmas.MsgFlagsLoop
/-
Format flags: what `classifyFormat` accepts, and what the dictionary of format flags contains.
-/
namespace I18n.Msg
open I18n.Tags (Str lit Extra)
open I18n.Spec.MessageRules

/-- the prefix loop succeeds only through one of the listed prefixes -/
theorem classifyFormat_some {env : FlagEnv} {flag : Str} : ∀ {ps : List Str} {tp fmt : Str},
    classifyFormat env flag ps = some (tp, fmt) →
      ∃ p ∈ ps, startsWith p flag = true ∧ fmt = sliceTo flag p.length 7 ∧ env.isFormat fmt = true ∧ tp = rstrip [45] p
  | [], _, _, h => by simp [classifyFormat] at h
  | p :: ps, tp, fmt, h => by
    simp only [classifyFormat] at h
    by_cases h1 : startsWith p flag = true
    · by_cases h2 : env.isFormat (sliceTo flag p.length 7) = true
      · simp only [h1, h2, Bool.not_true, Bool.false_eq_true, if_false, if_true, Option.some.injEq, Prod.mk.injEq] at h
        exact ⟨p, by simp, h1, h.2.symm, h.2 ▸ h2, h.1.symm⟩
      · simp only [h1, h2, Bool.not_true, Bool.false_eq_true, if_false] at h
        obtain ⟨q, hq, r⟩ := classifyFormat_some h
        exact ⟨q, by simp [hq], r⟩
    · simp only [h1, Bool.not_false, if_true] at h
      obtain ⟨q, hq, r⟩ := classifyFormat_some h
      exact ⟨q, by simp [hq], r⟩

/-- every character of a flag that starts with `p` and ends with `suf` belongs to `p`, to the slice between, or to `suf` -/
theorem mem_of_prefix_suffix {flag p suf : Str} (hp : startsWith p flag = true) (hs : endsWith suf flag = true) {c : Nat}
    (hc : c ∈ flag) : c ∈ p ∨ c ∈ sliceTo flag p.length suf.length ∨ c ∈ suf := by
  have hp' : p = flag.take p.length := List.prefix_iff_eq_take.mp (List.isPrefixOf_iff_prefix.mp hp)
  have hs' : suf = flag.drop (flag.length - suf.length) := List.suffix_iff_eq_drop.mp (List.isSuffixOf_iff_suffix.mp hs)
  rw [← List.take_append_drop (flag.length - suf.length) flag] at hc
  rcases List.mem_append.mp hc with h | h
  · rw [← List.take_append_drop p.length (flag.take (flag.length - suf.length))] at h
    rcases List.mem_append.mp h with h | h
    · left
      rw [hp']
      rw [List.take_take] at h
      have : flag.take (min p.length (flag.length - suf.length)) = (flag.take p.length).take (min p.length (flag.length - suf.length)) := by
        rw [List.take_take]; congr 1; omega
      rw [this] at h
      exact List.mem_of_mem_take h
    · right; left; exact h
  · right; right; rw [hs']; exact h

theorem formatSuffix_length : formatSuffix.length = 7 := by decide

/-- a flag of kind `format` consists of characters of a listed prefix, of a format name, and of `-format` -/
theorem format_flag_chars {env : FlagEnv} {f tp fmt : Str} (h : flagKind env f = .format tp fmt) {c : Nat} (hc : c ∈ f) :
    (∃ p ∈ env.prefixes, c ∈ p) ∨ (∃ n ∈ env.formats, c ∈ n.1) ∨ c ∈ formatSuffix := by
  unfold flagKind at h
  by_cases h1 : f = lit "fuzzy"
  · simp [h1] at h
  by_cases h2 : f = lit "wrap"
  · subst h2; simp [fuzzy_ne_wrap.symm] at h
  by_cases h3 : f = lit "no-wrap"
  · subst h3; simp [fuzzy_ne_nowrap.symm, wrap_ne_nowrap.symm] at h
  by_cases h4 : startsWith env.rangePrefix f = true
  · simp [h1, h2, h3, h4] at h
  by_cases h5 : endsWith formatSuffix f = true
  · simp only [h1, h2, h3, h4, h5, if_false, if_true, Bool.false_eq_true] at h
    cases hcl : classifyFormat env f env.prefixes with
    | none => simp [hcl] at h
    | some x =>
      obtain ⟨tp', fmt'⟩ := x
      obtain ⟨p, hp, hst, hfmt, hisf, _⟩ := classifyFormat_some hcl
      rcases mem_of_prefix_suffix hst h5 hc with hc | hc | hc
      · exact Or.inl ⟨p, hp, hc⟩
      · right; left
        rw [formatSuffix_length, ← hfmt] at hc
        simp only [FlagEnv.isFormat, List.any_eq_true, decide_eq_true_eq] at hisf
        obtain ⟨n, hn, hne⟩ := hisf
        exact ⟨n, hn, by rw [hne]; exact hc⟩
      · exact Or.inr (Or.inr hc)
  · simp only [h1, h2, h3, h4, h5, if_false, Bool.false_eq_true] at h
    split at h <;> cases h

/-! ## the dictionary of format flags -/

theorem mem_keysOf_assocSet {α β : Type} [DecidableEq α] (k k' : α) (v : β) (d : List (α × β)) :
    k' ∈ keysOf (assocSet k v d) ↔ k' = k ∨ k' ∈ keysOf d := by
  induction d with
  | nil => simp [assocSet, keysOf]
  | cons x xs ih =>
    obtain ⟨k₁, v₁⟩ := x
    by_cases h : k₁ = k
    · subst h; simp [assocSet, keysOf]
    · simp only [assocSet, h, if_false, keysOf, List.map_cons, List.mem_cons] at ih ⊢
      rw [ih]; constructor
      · rintro (h | h | h) <;> simp [h]
      · rintro (h | h | h) <;> simp [h]

theorem assocGet_isSome_iff {α β : Type} [DecidableEq α] (k : α) (d : List (α × β)) :
    (assocGet k d).isSome ↔ k ∈ keysOf d := by
  induction d with
  | nil => simp [assocGet, keysOf]
  | cons x xs ih =>
    obtain ⟨k₁, v₁⟩ := x
    by_cases h : k₁ = k
    · subst h; simp [assocGet, keysOf]
    · simp only [assocGet, h, if_false, ih, keysOf, List.map_cons, List.mem_cons]
      constructor
      · intro h'; exact Or.inr h'
      · rintro (h' | h'); exact absurd h'.symm h; exact h'

/-- the keys of the dictionary: `(kind, format)` of the format flags -/
theorem mem_keysOf_formatDict (env : FlagEnv) (k : Str × Str) : ∀ (fs : List Str) (acc : List ((Str × Str) × Str)),
    k ∈ keysOf (fs.foldl (formatStep env) acc) ↔ k ∈ keysOf acc ∨ ∃ f ∈ fs, flagKind env f = .format k.1 k.2
  | [], acc => by simp
  | f :: fs, acc => by
    rw [List.foldl_cons, mem_keysOf_formatDict env k fs]
    simp only [formatStep]
    cases hk : flagKind env f with
    | format tp fmt =>
      simp only [mem_keysOf_assocSet, List.mem_cons, exists_eq_or_imp, hk, FlagKind.format.injEq]
      constructor
      · rintro ((h | h) | h)
        · right; left; rw [h]; exact ⟨rfl, rfl⟩
        · exact Or.inl h
        · exact Or.inr (Or.inr h)
      · rintro (h | h | h)
        · exact Or.inl (Or.inr h)
        · left; left; exact Prod.ext h.1.symm h.2.symm
        · exact Or.inr h
    | _ => simp [hk]

/-- every value of the dictionary is a flag of the list, of kind `format` with the key's kind and format -/
theorem assocGet_formatDict (env : FlagEnv) (k : Str × Str) (v : Str) : ∀ (fs : List Str) (acc : List ((Str × Str) × Str)),
    assocGet k (fs.foldl (formatStep env) acc) = some v →
      assocGet k acc = some v ∨ (v ∈ fs ∧ flagKind env v = .format k.1 k.2)
  | [], acc, h => Or.inl h
  | f :: fs, acc, h => by
    rw [List.foldl_cons] at h
    rcases assocGet_formatDict env k v fs _ h with h | h
    · simp only [formatStep] at h
      cases hk : flagKind env f with
      | format tp fmt =>
        simp only [hk] at h
        by_cases hkk : k = (tp, fmt)
        · subst hkk
          rw [assocGet_assocSet_self] at h
          right; simp only [Option.some.injEq] at h; subst h; exact ⟨by simp, hk⟩
        · rw [assocGet_assocSet_ne hkk] at h; exact Or.inl h
      | _ => simp only [hk] at h; exact Or.inl h
    · exact Or.inr ⟨List.mem_cons_of_mem _ h.1, h.2⟩

theorem assocGet_formatFlagsOf (ff : List ((Str × Str) × Str)) (tp f : Str) :
    assocGet f (formatFlagsOf ff tp) = assocGet (tp, f) ff := by
  induction ff with
  | nil => simp [formatFlagsOf, assocGet]
  | cons x xs ih =>
    obtain ⟨⟨tp', f'⟩, v⟩ := x
    simp only [formatFlagsOf] at ih
    by_cases h1 : tp' = tp
    · subst h1
      by_cases h2 : f' = f
      · subst h2; simp [formatFlagsOf, assocGet]
      · simp [formatFlagsOf, assocGet, h2, ih]
    · have : ¬ ((tp', f') = (tp, f)) := by intro h; exact h1 (Prod.ext_iff.mp h).1
      simp [formatFlagsOf, assocGet, h1, this, ih]

theorem mem_keysOf_formatFlagsOf (ff : List ((Str × Str) × Str)) (tp f : Str) :
    f ∈ keysOf (formatFlagsOf ff tp) ↔ (tp, f) ∈ keysOf ff := by
  rw [← assocGet_isSome_iff, ← assocGet_isSome_iff, assocGet_formatFlagsOf]

theorem mem_commonKeys (a b : List (Str × Str)) (f : Str) : f ∈ commonKeys a b ↔ f ∈ keysOf a ∧ f ∈ keysOf b := by
  simp [commonKeys]

end I18n.Msg
