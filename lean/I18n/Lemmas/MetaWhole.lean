import I18n.Lemmas.MetaRealBinary
import I18n.Generated.BinaryReads
/-!
The function the `whole-files` stream runs (`Real.wholeCheck`, lean/I18n/Driver/Whole.lean) is `Check.check` instantiated with the loader
models and `Real.pipeline`; and the order in which the composed checker prints its tags is the order of the stage calls in the
source of `Checker.check` (`Generated.BinaryReads.checkStages`, regenerated from /repo on every run).
-/
namespace I18n.Meta.Real
open I18n I18n.Check I18n.Meta

/-- the stage call of `Checker.check` a tag comes from (as spelled in `Generated.BinaryReads.checkStages`) -/
def stageName : RTag → String
  | .comments _ => "check_comments(ctx)"
  | .headers _ => "check_headers(ctx)"
  | .language _ => "check_language(ctx)"
  | .plurals _ => "check_plurals(ctx)"
  | .mime _ => "check_mime(ctx)"
  | .date _ => "check_dates(ctx)"
  | .project _ => "check_project(ctx)"
  | .translator _ => "check_translator(ctx)"
  | .msg _ _ => "check_messages(ctx)"
  | .fmt _ => "check_messages(ctx)"

/-- its position among the stage calls in the SOURCE of `Checker.check` -/
def stagePos (t : RTag) : Nat := Generated.BinaryReads.checkStages.idxOf (stageName t)

/-- a list of stages whose k-th member only prints tags of one position, the positions non-decreasing from `lo` -/
def Ordered {σ τ : Type} (f : τ → Nat) : Nat → List (Stage σ τ) → Prop
  | _, [] => True
  | lo, st :: rest => ∃ c, lo ≤ c ∧ (∀ s, ∀ t ∈ (st s).2.1, f t = c) ∧ Ordered f c rest

theorem pairwise_const {τ : Type} (l : List τ) (f : τ → Nat) (c : Nat) (h : ∀ t ∈ l, f t = c) : (l.map f).Pairwise (· ≤ ·) := by
  induction l with
  | nil => simp
  | cons a r ih =>
    simp only [List.map_cons, List.pairwise_cons]
    refine ⟨fun b hb => ?_, ih (fun t ht => h t (List.mem_cons_of_mem _ ht))⟩
    obtain ⟨y, hy, rfl⟩ := List.mem_map.mp hb
    rw [h a (by simp), h y (List.mem_cons_of_mem _ hy)]
    exact Nat.le_refl _

theorem runStages_ordered {σ τ : Type} (f : τ → Nat) (l : List (Stage σ τ)) (lo : Nat) (h : Ordered f lo l) (s : σ) :
    (∀ t ∈ (runStages l s).1, lo ≤ f t) ∧ ((runStages l s).1.map f).Pairwise (· ≤ ·) := by
  induction l generalizing lo s with
  | nil => simp [runStages]
  | cons st rest ih =>
    obtain ⟨c, hlo, hst, hrest⟩ := h
    unfold runStages
    have hs := hst s
    rcases hq : st s with ⟨s1, o1, r1⟩
    rw [hq] at hs
    simp only at hs
    have hself : (o1.map f).Pairwise (· ≤ ·) := pairwise_const o1 f c hs
    cases r1 with
    | true =>
      refine ⟨fun t ht => by rw [hs t ht]; exact hlo, hself⟩
    | false =>
      obtain ⟨i1, i2⟩ := ih c hrest s1
      refine ⟨?_, ?_⟩
      · intro t ht
        simp only [List.mem_append] at ht
        rcases ht with ht | ht
        · rw [hs t ht]; exact hlo
        · exact Nat.le_trans hlo (i1 t ht)
      · simp only [List.map_append]
        rw [List.pairwise_append]
        refine ⟨hself, i2, ?_⟩
        intro a ha b hb
        simp only [List.mem_map] at ha hb
        obtain ⟨x, hx, rfl⟩ := ha
        obtain ⟨y, hy, rfl⟩ := hb
        rw [hs x hx]
        exact i1 y hy

theorem lift_tags (f : Blind RCtx RTag) (s : BinFlags × RCtx) : (lift f s).2.1 = (f s.2).2.1 := rfl

/-- `Real.pipeline` calls the stages in the order of the source -/
theorem pipeline_ordered (w : World) : Ordered stagePos 0 (pipeline w) := by
  unfold pipeline
  refine ⟨0, Nat.le_refl _, ?_, 1, by decide, ?_, 2, by decide, ?_, 3, by decide, ?_, 4, by decide, ?_, 5, by decide, ?_,
    6, by decide, ?_, 7, by decide, ?_, 8, by decide, ?_, 9, by decide, ?_, trivial⟩
  · intro s t ht
    simp only [lift_tags, commentsStage, List.mem_map] at ht
    obtain ⟨_, _, rfl⟩ := ht; (simp only [stagePos, stageName]; decide)
  · intro s t ht
    simp only [lift_tags, headersStage] at ht
    split at ht
    · simp at ht
    · simp only [List.mem_map] at ht; obtain ⟨_, _, rfl⟩ := ht; (simp only [stagePos, stageName]; decide)
  · intro s t ht
    simp only [lift_tags, languageStage] at ht
    split at ht
    · simp at ht
    · simp only [List.mem_map] at ht; obtain ⟨_, _, rfl⟩ := ht; (simp only [stagePos, stageName]; decide)
  · intro s t ht
    simp only [lift_tags, pluralsStage] at ht
    split at ht
    · simp at ht
    · simp only [List.mem_map] at ht; obtain ⟨_, _, rfl⟩ := ht; (simp only [stagePos, stageName]; decide)
  · intro s t ht
    simp only [lift_tags, mimeStage] at ht
    split at ht
    · simp at ht
    · simp only [List.mem_map] at ht; obtain ⟨_, _, rfl⟩ := ht; (simp only [stagePos, stageName]; decide)
  · intro s t ht
    simp [lift_tags, resetStage] at ht
  · intro s t ht
    simp only [datesStage] at ht
    split at ht
    · simp at ht
    · simp only [List.mem_map] at ht; obtain ⟨_, _, rfl⟩ := ht; (simp only [stagePos, stageName]; decide)
  · intro s t ht
    simp only [lift_tags, projectStage, List.mem_map] at ht
    obtain ⟨_, _, rfl⟩ := ht; (simp only [stagePos, stageName]; decide)
  · intro s t ht
    simp only [lift_tags, translatorStage, List.mem_map] at ht
    obtain ⟨_, _, rfl⟩ := ht; (simp only [stagePos, stageName]; decide)
  · intro s t ht
    simp only [messagesStage, messagesOut] at ht
    obtain ⟨p, hp, hm⟩ := seqEmits_mem _ t ht
    simp only [List.mem_append, List.mem_flatMap, List.mem_map] at hp
    rcases hp with ⟨q, _, e, _, rfl⟩ | ⟨e, _, rfl⟩
    · cases e with
      | tag m ex => simp [expandEmit] at hm; subst hm; (simp only [stagePos, stageName]; decide)
      | crash _ => simp [expandEmit] at hm
      | fmt name info =>
        simp only [expandEmit] at hm
        split at hm
        · simp only [List.mem_map] at hm; obtain ⟨_, _, rfl⟩ := hm; (simp only [stagePos, stageName]; decide)
        · simp at hm
    · cases e <;> simp [expandFinal] at hm
      subst hm; (simp only [stagePos, stageName]; decide)

end I18n.Meta.Real
