import I18n.Lemmas.CFmtParse
/-!
# Where a reference lands in the signature (`*` widths and precisions in particular)
-/
namespace I18n.CFmt
open I18n.Spec.Printf

theorem positionsFrom_entry : ∀ (rs : List Ref) (k : Nat) (p : Nat × Entry), p ∈ positionsFrom k rs →
    ∃ r ∈ rs, r.entry = p.2
  | [], _, p, h => by cases h
  | r :: rs, k, p, h => by
    simp only [positionsFrom, List.mem_cons] at h
    rcases h with rfl | h
    · exact ⟨r, by simp, by cases r.idx <;> rfl⟩
    · obtain ⟨r', hr', he⟩ := positionsFrom_entry rs (k + 1) p h
      exact ⟨r', by simp [hr'], he⟩

theorem refs_star_int (d : Directive) (p : Nat) : ∀ r ∈ d.refs p, r.entry.kind ≠ .conv → r.entry.type = "int" := by
  intro r hr hk
  rw [refs_eq] at hr
  simp only [List.mem_append] at hr
  rcases hr with hr | hr | hr
  · cases hw : d.width with
    | none => simp [widthRefs, hw] at hr
    | num ds => simp [widthRefs, hw] at hr
    | star idx => simp only [widthRefs, hw, List.mem_singleton] at hr; subst hr; rfl
  · cases hp : d.prec with
    | none => simp [precRefs, hp] at hr
    | num ds => simp [precRefs, hp] at hr
    | star idx => simp only [precRefs, hp, List.mem_singleton] at hr; subst hr; rfl
  · simp only [convRefs] at hr
    split at hr
    · simp only [List.mem_singleton] at hr; subst hr; exact absurd rfl hk
    · cases hr

theorem refsFrom_star_int : ∀ (items : List Item) (k : Nat), ∀ r ∈ refsFrom k items,
    r.entry.kind ≠ .conv → r.entry.type = "int"
  | [], _, r, h => by cases h
  | .lit _ :: rest, k, r, h => refsFrom_star_int rest (k + 1) r (by simpa [refsFrom] using h)
  | .dir d :: rest, k, r, h => by
    simp only [refsFrom, List.mem_append] at h
    rcases h with h | h
    · exact refs_star_int d k r h
    · exact refsFrom_star_int rest (k + 1) r h

/-- in a gap-free, one-type log: argument `j`'s slot in the signature holds exactly the uses of `j`, and its type is
    the type of any of them -/
theorem signature_slot {L : List (Nat × Entry)} (hg : GapFree L) (ht : OneType L) {j : Nat} {e : Entry} (h : (j, e) ∈ L) :
    1 ≤ j ∧ (signatureOf L)[j - 1]? = some (usesOf L j) ∧ e ∈ usesOf L j ∧
      (typesOf (signatureOf L))[j - 1]? = some e.type := by
  obtain ⟨k, hk⟩ := (gapFree_iff L).1 hg
  have hj := (hk j).1 ⟨e, h⟩
  have hmem : e ∈ usesOf L j := mem_usesOf.2 h
  have hslot : (signatureOf L)[j - 1]? = some (usesOf L j) := by
    unfold signatureOf
    rw [gapfree_argCount hk, List.getElem?_map, List.getElem?_range (by omega)]
    simp only [Option.map_some]
    congr 2; omega
  refine ⟨hj.1, hslot, hmem, ?_⟩
  unfold typesOf
  rw [List.getElem?_map, hslot]
  simp only [Option.map_some, Option.some.injEq]
  cases hu : usesOf L j with
  | nil => rw [hu] at hmem; cases hmem
  | cons x xs =>
    have hx : (j, x) ∈ L := mem_usesOf.1 (by rw [hu]; simp)
    exact ht j x e hx h

end I18n.CFmt
