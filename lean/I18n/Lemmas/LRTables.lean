import I18n.Model.PluralLR
/-! Facts about the dumped LALR tables, all by evaluation (`decide`) — they are re-checked against the tables that
    rply builds from the current source on every run.  The classification of the states (`expects`, `gexp`) is
    written by hand against the canonical (breadth-first) numbering; if the grammar, the precedences or rply's
    construction change, these `decide`s fail and the check falls back to the falsifier. -/
namespace I18n.PluralLR
open I18n I18n.PluralParse

/-- the resolved tables, written out -/
def T : Tables :=
  ⟨Generated.PluralLR.action, Generated.PluralLR.goto, Generated.PluralLR.defaultReductions,
   [⟨2, 1, .none⟩, ⟨0, 1, .int⟩, ⟨0, 3, .par⟩, ⟨0, 2, .not⟩, ⟨0, 1, .var⟩, ⟨0, 3, .arithmetic⟩, ⟨0, 3, .bool⟩, ⟨0, 3, .cmp⟩,
    ⟨0, 3, .cmp⟩, ⟨0, 5, .ifelse⟩, ⟨0, 3, .arithmetic⟩, ⟨0, 3, .bool⟩, ⟨1, 1, .evalStart⟩]⟩

theorem tables_eq : tables = some T := by decide

theorem columns_pin : Generated.PluralLR.terminals = colNames ∧ Generated.PluralLR.nonterminals = ["exp", "start"] := by
  decide

/-- states in which an operand is expected, with the lowest level an operand may have there:
    0 start, 1 after `!`, 2 after `(`, 9 after `?`, 10–15 after OR, AND, EQ, CMP, ADDSUB, MULDIV, 24 after `:` -/
def expects : Nat → Option Nat
  | 0 => some 0 | 1 => some 7 | 2 => some 0 | 9 => some 0
  | 10 => some 2 | 11 => some 3 | 12 => some 4 | 13 => some 5 | 14 => some 6 | 15 => some 7
  | 24 => some 0
  | _ => none

/-- `lr_goto[s]['exp']` on those states -/
def gexp : Nat → Nat
  | 0 => 5 | 1 => 7 | 2 => 8 | 9 => 17
  | 10 => 18 | 11 => 19 | 12 => 20 | 13 => 21 | 14 => 22 | 15 => 23
  | 24 => 25
  | _ => 0

theorem expects_lt {s c : Nat} (h : expects s = some c) : s < 26 := by
  unfold expects at h
  split at h <;> first | omega | cases h

/-- production the driver reduces by in state `s` on lookahead column `c`, if it reduces -/
def redAt (s c : Nat) : Option Nat :=
  match T.defaultRed s with
  | some d =>
    if d ≠ 0 then some (-d).toNat
    else match T.actionAt s c with
      | some (some t) => if t < 0 then some (-t).toNat else none
      | _ => none
  | none => none

/-- shift target in state `s` on column `c`, if the driver shifts -/
def shiftAt (s c : Nat) : Option Nat :=
  match T.defaultRed s with
  | some d =>
    if d ≠ 0 then none
    else match T.actionAt s c with
      | some (some t) => if t > 0 then some t.toNat else none
      | _ => none
  | none => none

/-- lookahead columns in front of which an operand of level `k` is complete: `:`, `)`, `$end`, and — from level 1 on —
    `?` and the binary operators of level `≤ k` -/
def laOK (k c : Nat) : Bool :=
  c == 1 || c == 10 || c == 13 || (decide (1 ≤ k) && (c == 0 || (decide (2 ≤ c) && decide (c ≤ 7) && decide (c - 1 ≤ k))))

theorem laOK_mono {k k' c : Nat} (h : laOK k c = true) (hk : k ≤ k') : laOK k' c = true := by
  simp only [laOK, Bool.or_eq_true, Bool.and_eq_true, beq_iff_eq, decide_eq_true_eq] at h ⊢
  omega

theorem col_lt (la : Option Tok) : col la < 14 := by
  rcases la with _ | t
  · decide
  · cases t <;> first | decide | (rename_i op; cases op <;> decide) | (simp [col])

theorem col_of_binInfo {t : Tok} {k : Nat} {mk} (h : binInfo t = some (k, mk)) : col (some t) = k + 1 := by
  cases t <;> simp only [binInfo] at h
  case bool op => cases op <;> simp only [Option.some.injEq, Prod.mk.injEq] at h <;> obtain ⟨rfl, _⟩ := h <;> rfl
  case cmp op => cases op <;> simp only [Option.some.injEq, Prod.mk.injEq] at h <;> obtain ⟨rfl, _⟩ := h <;> rfl
  case bin op => cases op <;> simp only [Option.some.injEq, Prod.mk.injEq] at h <;> obtain ⟨rfl, _⟩ := h <;> rfl
  all_goals cases h

/-! ## the finite facts -/

/-- the context of state `s` admits an operand of level `k` -/
def admits (s k : Nat) : Bool :=
  match expects s with
  | some c => decide (c ≤ k)
  | none => false

theorem admits_of {s c k : Nat} (h : expects s = some c) (hk : c ≤ k) : admits s k = true := by
  simp [admits, h, hk]

/-- operand-expecting states: atoms are shifted, and `exp` has a goto -/
theorem tf_expects : ∀ s, s < 26 → (expects s).isSome = true →
    shiftAt s 8 = some 1 ∧ shiftAt s 9 = some 2 ∧ T.gotoAt s 0 = some (gexp s) := by decide

theorem tf_expects' : ∀ s, s < 26 → (expects s).isSome = true →
    shiftAt s 11 = some 3 ∧ shiftAt s 12 = some 4 := by decide

/-- after an operand, a binary operator of a level the context admits is shifted (to state `level + 9`) -/
theorem tf_shift_op : ∀ s, s < 26 → ∀ k, k < 7 → 1 ≤ k → admits s k = true →
    shiftAt (gexp s) (k + 1) = some (k + 9) := by decide

theorem tf_op_state : ∀ k, k < 7 → 1 ≤ k → expects (k + 9) = some (k + 1) ∧ gexp (k + 9) = k + 17 := by decide

/-- production of each binary level (productions are numbered in the order of their text) -/
def prodOf : Nat → Nat
  | 1 => 11 | 2 => 6 | 3 => 8 | 4 => 7 | 5 => 5 | _ => 10

/-- with both operands of a level-`k` operator on the stack, the driver reduces in front of every admissible lookahead -/
theorem tf_reduce_op : ∀ k, k < 7 → 1 ≤ k → ∀ c, c < 14 → laOK k c = true → redAt (k + 17) c = some (prodOf k) := by decide

/-- `?` is shifted (to state 9) after an operand wherever a whole expression is expected -/
theorem tf_shift_qm : ∀ s, s < 26 → admits s 0 = true → shiftAt (gexp s) 0 = some 9 := by decide

theorem tf_cond : expects 9 = some 0 ∧ gexp 9 = 17 ∧ shiftAt 17 1 = some 24 ∧ expects 24 = some 0 ∧ gexp 24 = 25 ∧
    ∀ c, c < 14 → laOK 0 c = true → redAt 25 c = some 9 := by decide

theorem tf_atoms : (∀ c, c < 14 → redAt 3 c = some 4 ∧ redAt 4 c = some 1 ∧ redAt 7 c = some 3 ∧ redAt 16 c = some 2) ∧
    expects 1 = some 7 ∧ gexp 1 = 7 ∧ expects 2 = some 0 ∧ gexp 2 = 8 ∧ shiftAt 8 10 = some 16 := by decide

theorem tf_final : expects 0 = some 0 ∧ gexp 0 = 5 ∧ redAt 5 13 = some 12 ∧ T.gotoAt 0 1 = some 6 ∧
    T.defaultRed 6 = some 0 ∧ T.actionAt 6 13 = some (some 0) := by decide

end I18n.PluralLR
