import I18n.Lemmas.PoCatalog
/-! `Codecs.open` (`Po.preprocess`) on a file made of physical lines. -/
namespace I18n.Lemmas.PoPre
open I18n I18n.Po I18n.Spec.PoSpelling I18n.Lemmas.PoKit I18n.Lemmas.PoLines

/-! ### splitting into physical lines -/

theorem physLines_line (c rest : Text) (hc : '\n' ∉ c) : physLines (c ++ '\n' :: rest) = (c ++ ['\n']) :: physLines rest := by
  induction c with
  | nil => simp [physLines]
  | cons a as ih =>
    have ha : a ≠ '\n' := by intro e; apply hc; simp [e]
    have := ih (by intro h; apply hc; simp [h])
    simp [physLines, ha, this]

theorem physLines_flatten (ls : List Text) (h : ∀ l ∈ ls, IsLine l) : physLines ls.flatten = ls := by
  induction ls with
  | nil => rfl
  | cons l rest ih =>
    obtain ⟨c, rfl, hc⟩ := h l (by simp)
    have := ih (fun x hx => h x (by simp [hx]))
    simp only [List.flatten_cons, List.append_assoc, List.cons_append, List.nil_append]
    rw [physLines_line c _ hc, this]

/-- the same when the last line has no line feed -/
theorem physLines_flatten_last (ls : List Text) (h : ∀ l ∈ ls, IsLine l) (last : Text) (hl : '\n' ∉ last) (hne : last ≠ []) :
    physLines (ls.flatten ++ last) = ls ++ [last] := by
  induction ls with
  | nil =>
    simp only [List.flatten_nil, List.nil_append]
    clear h
    induction last with
    | nil => exact absurd rfl hne
    | cons a as ih =>
      have ha : a ≠ '\n' := by intro e; apply hl; simp [e]
      cases as with
      | nil => simp [physLines, ha]
      | cons b bs =>
        have := ih (by intro h; apply hl; simp [h]) (by simp)
        simp [physLines, ha] at this ⊢
        rw [this]
  | cons l rest ih =>
    obtain ⟨c, rfl, hc⟩ := h l (by simp)
    have := ih (fun x hx => h x (by simp [hx]))
    simp only [List.flatten_cons, List.append_assoc, List.cons_append, List.nil_append]
    rw [physLines_line c _ hc, this]

/-- decidable form of `IsLine` -/
def isLineB (l : Text) : Bool := l.getLast? == some '\n' && !(l.dropLast.contains '\n')

theorem isLine_of_isLineB (l : Text) (h : isLineB l = true) : IsLine l := by
  simp only [isLineB, Bool.and_eq_true, beq_iff_eq, Bool.not_eq_true', List.contains_eq_mem, decide_eq_false_iff_not] at h
  have hne : l ≠ [] := by intro e; rw [e] at h; simp at h
  refine ⟨l.dropLast, ?_, h.2⟩
  have := List.dropLast_concat_getLast hne
  rw [List.getLast?_eq_some_getLast hne] at h
  simp at h
  rw [← h.1]; exact this.symm

/-! ### the pending-comment buffer -/

/-- `Codecs.open` holds the line back -/
def Held (env : Env) (l : Text) : Prop := holdBack env (normalise l) = true

theorem preLoop_held (env : Env) (tail : List Text) (h : ∀ l ∈ tail, Held env l) (pending : List Text) (empty : Bool) :
    preLoop env tail pending empty = if empty then [['#', ' ']] else [] := by
  induction tail generalizing pending with
  | nil => simp [preLoop]
  | cons l rest ih =>
    have hl : holdBack env (normalise l) = true := h l (by simp)
    simp only [preLoop, hl, if_true]
    exact ih (fun x hx => h x (by simp [hx])) _

/-- everything up to the last line that is not held back is yielded, in order; what follows is dropped -/
theorem preLoop_body (env : Env) (b : List Text) (l : Text) (hl : ¬ Held env l) (tail : List Text) (ht : ∀ x ∈ tail, Held env x)
    (pending : List Text) (empty : Bool) :
    preLoop env (b ++ l :: tail) pending empty = pending ++ (b ++ [l]).map normalise := by
  induction b generalizing pending empty with
  | nil =>
    have hl' : holdBack env (normalise l) = false := by simpa [Held] using hl
    simp only [List.nil_append, preLoop, hl', preLoop_held env tail ht]
    simp
  | cons x xs ih =>
    simp only [List.cons_append, preLoop]
    split
    · rw [ih]; simp
    · rw [ih]; simp

theorem preprocess_body (env : Env) (contents : Text) (b : List Text) (l : Text) (hl : ¬ Held env l) (tail : List Text)
    (ht : ∀ x ∈ tail, Held env x) (hlines : physLines contents = b ++ l :: tail) :
    preprocess env contents = (b ++ [l]).map normalise := by
  unfold preprocess iterlines
  rw [hlines]
  have : b ++ l :: tail ++ [[]] = b ++ l :: (tail ++ [[]]) := by simp
  rw [this, preLoop_body env b l hl (tail ++ [[]]) (by
    intro x hx; simp at hx; rcases hx with hx | rfl
    · exact ht x hx
    · simp [Held, normalise, atypical, holdBack])]
  simp

end I18n.Lemmas.PoPre
