import I18n.Lemmas.CharsetEucTw
import I18n.Lemmas.CharsetCns
/-!
# C20: EUC-TW over the tables of the system iconv — round trip exactly where it holds, the reverse direction, the short form
-/
namespace I18n.Charset

set_option maxRecDepth 20000

/-! ## sharper inversion lemmas for `eucTwUnit` (any table) -/

theorem eucTwUnit_two' (cns : CnsTable) (bs : List UInt8) (r c ch : Nat) (h : eucTwUnit cns bs = .two r c ch) :
    ∃ b b2 rest, bs = b :: b2 :: rest ∧ r = b.toNat ∧ c = b2.toNat ∧ cns 1 r c = some ch ∧ b.toNat ≠ 0x8E := by
  cases bs with
  | nil => simp [eucTwUnit] at h
  | cons b rest =>
    simp only [eucTwUnit] at h
    split at h
    · cases h
    · split at h
      · cases h
      · split at h
        · cases h
        · rename_i b2 rest2
          split at h
          · cases h
          · split at h
            · split at h
              · cases h
              · split at h
                · split at h <;> cases h
                · cases h
            · rename_i hne
              split at h
              · rename_i ch' hc
                cases h
                exact ⟨b, b2, rest2, rfl, rfl, rfl, hc, hne⟩
              · cases h

theorem eucTwUnit_four' (cns : CnsTable) (bs : List UInt8) (p r c ch : Nat) (h : eucTwUnit cns bs = .four p r c ch) :
    ∃ b b2 b3 b4 rest, bs = b :: b2 :: b3 :: b4 :: rest ∧ b.toNat = 0x8E ∧ 0xA1 ≤ b2.toNat ∧ b2.toNat ≤ 0xB0 ∧ p = b2.toNat - 0xA0 ∧
      r = b3.toNat ∧ c = b4.toNat ∧ cns p r c = some ch := by
  cases bs with
  | nil => simp [eucTwUnit] at h
  | cons b rest =>
    simp only [eucTwUnit] at h
    split at h
    · cases h
    · split at h
      · cases h
      · split at h
        · cases h
        · rename_i b2 rest2
          split at h
          · cases h
          · rename_i hb2
            split at h
            · rename_i hb
              split at h
              · cases h
              · rename_i hle
                split at h
                · rename_i b3 b4 rest4
                  split at h
                  · rename_i ch' hc
                    cases h
                    exact ⟨b, b2, b3, b4, rest4, rfl, hb, by omega, by omega, rfl, rfl, rfl, hc⟩
                  · cases h
                · cases h
            · split at h <;> cases h

/-- forward: these bytes at the head form a two-byte unit -/
theorem eucTwUnit_of_two (cns : CnsTable) (r c ch : Nat) (rest : List UInt8) (hr : 0xA1 ≤ r ∧ r ≤ 0xFE) (hc : 0xA1 ≤ c ∧ c ≤ 0xFE)
    (h : cns 1 r c = some ch) : eucTwUnit cns (UInt8.ofNat r :: UInt8.ofNat c :: rest) = .two r c ch := by
  have e1 : (UInt8.ofNat r).toNat = r := by rw [UInt8.toNat_ofNat']; omega
  have e2 : (UInt8.ofNat c).toNat = c := by rw [UInt8.toNat_ofNat']; omega
  simp only [eucTwUnit, e1, e2]
  have n1 : ¬ r ≤ 0x7F := by omega
  have n2 : ¬ ((r ≤ 0xA0 ∧ r ≠ 0x8E) ∨ r > 0xFE) := by omega
  have n3 : ¬ (c < 0xA1 ∨ c = 0xFF) := by omega
  have n4 : ¬ r = 0x8E := by omega
  simp only [n1, n2, n3, n4, if_false, h]

theorem eucTwUnit_of_four (cns : CnsTable) (p r c ch : Nat) (rest : List UInt8) (hp : 1 ≤ p ∧ p ≤ 16)
    (hr : r ≤ 0xFF) (hc : c ≤ 0xFF) (h : cns p r c = some ch) :
    eucTwUnit cns (0x8E :: UInt8.ofNat (0xA0 + p) :: UInt8.ofNat r :: UInt8.ofNat c :: rest) = .four p r c ch := by
  have e0 : (0x8E : UInt8).toNat = 0x8E := rfl
  have e1 : (UInt8.ofNat (0xA0 + p)).toNat = 0xA0 + p := by rw [UInt8.toNat_ofNat']; omega
  have e2 : (UInt8.ofNat r).toNat = r := by rw [UInt8.toNat_ofNat']; omega
  have e3 : (UInt8.ofNat c).toNat = c := by rw [UInt8.toNat_ofNat']; omega
  simp only [eucTwUnit, e0, e1, e2, e3]
  have n1 : ¬ (0xA0 + p < 0xA1 ∨ 0xA0 + p = 0xFF) := by omega
  have n2 : ¬ 0xA0 + p > 0xB0 := by omega
  have n3 : 0xA0 + p - 0xA0 = p := by omega
  simp only [n1, n2, n3, if_false, h]
  simp

theorem eucTwUnit_of_ascii (cns : CnsTable) (c : Nat) (rest : List UInt8) (hc : c ≤ 0x7F) :
    eucTwUnit cns (UInt8.ofNat c :: rest) = .ascii c := by
  have e1 : (UInt8.ofNat c).toNat = c := by rw [UInt8.toNat_ofNat']; omega
  simp only [eucTwUnit, e1, hc, if_true]

end I18n.Charset

namespace I18n.Charset
open I18n.Charset.Cns I18n.Generated.CharsetCns

set_option maxRecDepth 20000

/-! ## the units the encoder never writes -/

theorem scalarOk_facts (ch : Nat) (h : scalarOk ch = true) :
    ch > 0x7F ∧ ch ≤ 0x10FFFF ∧ ¬ (0xD800 ≤ ch ∧ ch ≤ 0xDFFF) ∧ isTag ch = false := by
  simp only [scalarOk, Bool.and_eq_true, Bool.or_eq_true, Nat.ble_eq, Bool.not_eq_true'] at h
  exact ⟨by omega, by omega, by omega, h.2⟩

theorem planes_bound (p : Nat) (h : planesAccepted.contains p = true) : 1 ≤ p ∧ p ≤ 15 := by
  simp only [planesAccepted, List.contains_cons, List.contains_nil, Bool.or_false, Bool.or_eq_true, beq_iff_eq] at h
  omega

/-- **which units are canonical under the real tables: exactly the non-redundant ones** -/
theorem unit_canonical_iff (bs : List UInt8) :
    (eucTwUnit cnsReal bs).canonical invReal = !(eucTwUnit cnsReal bs).redundant := by
  cases hu : eucTwUnit cnsReal bs with
  | done | illegal | incomplete | ascii _ => rfl
  | two r c ch =>
    obtain ⟨b, b2, rest, rfl, rfl, rfl, hc, _⟩ := eucTwUnit_two' cnsReal bs r c ch hu
    obtain ⟨hs, hi⟩ := cnsReal_canonical _ _ _ _ hc
    have hs := scalarOk_facts ch hs
    have : invReal ch = some (1, b.toNat, b2.toNat) := by
      rcases hi with hi | hi
      · exact hi
      · omega
    simp [EucUnit.canonical, EucUnit.redundant, this, hs.1]
  | four p r c ch =>
    obtain ⟨b, b2, b3, b4, rest, rfl, _, _, _, rfl, rfl, rfl, hc⟩ := eucTwUnit_four' cnsReal bs p r c ch hu
    obtain ⟨hs, hi⟩ := cnsReal_canonical _ _ _ _ hc
    have hs := scalarOk_facts ch hs
    simp only [EucUnit.canonical, EucUnit.redundant, hs.1, decide_true, Bool.true_and]
    by_cases hp1 : b2.toNat - 0xA0 = 1
    · simp [hp1]
    · by_cases hd : b2.toNat - 0xA0 = 3 ∧ b3.toNat = 0xA1 ∧ b4.toNat = 0xB8
      · obtain ⟨d1, d2, d3⟩ := hd
        rw [d1, d2, d3] at hc
        have hch : ch = 0x5344 := by
          have := dup_fact.1
          rw [this] at hc
          cases hc; rfl
        subst hch
        rw [dup_fact.2.2, d1, d2, d3]
        decide
      · have hinv : invReal ch = some (b2.toNat - 0xA0, b3.toNat, b4.toNat) := by
          rcases hi with hi | hi
          · exact hi
          · exact (hd hi).elim
        have hd' : (b2.toNat - 0xA0 == 3 && b3.toNat == 0xA1 && b4.toNat == 0xB8) = false := by
          cases hx : (b2.toNat - 0xA0 == 3 && b3.toNat == 0xA1 && b4.toNat == 0xB8)
          · rfl
          · simp only [Bool.and_eq_true, beq_iff_eq] at hx
            exact (hd ⟨hx.1.1, hx.1.2, hx.2⟩).elim
        simp [hinv, hd', bne]

theorem canonical_eq_noRedundant : ∀ (fuel : Nat) (bs : List UInt8),
    eucTwCanonical cnsReal invReal fuel bs = eucTwNoRedundant cnsReal fuel bs := by
  intro fuel
  induction fuel with
  | zero => intro bs; rfl
  | succ fuel ih =>
    intro bs
    have hu := unit_canonical_iff bs
    simp only [eucTwCanonical, eucTwNoRedundant]
    cases hunit : eucTwUnit cnsReal bs with
    | done | illegal | incomplete => rfl
    | ascii c => simp only [ih]
    | two r c ch =>
      rw [hunit] at hu
      simp only [hu, EucUnit.redundant, ih]
      rfl
    | four p r c ch =>
      rw [hunit] at hu
      simp only [hu, ih]

/-! ## the encoder's bytes, read back -/

/-- what the encoder writes for a character it has a position for -/
theorem encodeChar_real (ch p r c : Nat) (h : invReal ch = some (p, r, c)) :
    0x80 ≤ ch ∧ cnsReal p r c = some ch ∧ (0xA1 ≤ r ∧ r ≤ 0xFE) ∧ (0xA1 ≤ c ∧ c ≤ 0xFE) ∧ (1 ≤ p ∧ p ≤ 15) ∧ isTag ch = false ∧
    eucTwEncodeChar invReal ch =
      some (if p = 1 then [UInt8.ofNat r, UInt8.ofNat c] else [0x8E, UInt8.ofNat (0xA0 + p), UInt8.ofNat r, UInt8.ofNat c]) := by
  obtain ⟨hc, h80⟩ := invReal_sound ch p r c h
  obtain ⟨hr, hcc, _, _⟩ := cnsReal_some p r c ch hc
  have hp := planes_bound p (cnsReal_plane p r c ch hc)
  have hs := scalarOk_facts ch (cnsReal_canonical p r c ch hc).1
  refine ⟨h80, hc, hr, hcc, hp, hs.2.2.2, ?_⟩
  have : ¬ ch ≤ 0x7F := by omega
  simp only [eucTwEncodeChar, this, if_false, h]
  split <;> rfl

/-- **decode(encode(s)) = s, but for the TAG characters glibc drops**: whatever the encoder accepts decodes to the same text
    without its TAG characters -/
theorem encode_decode_loop : ∀ (cs : List Nat) (fuel i j : Nat) (bs : List UInt8),
    eucTwEncodeFrom invReal j cs = .ok bs → bs.length ≤ fuel →
    eucTwDecodeLoop cnsReal fuel i bs = .ok (cs.filter fun c => !isTag c) := by
  intro cs
  induction cs with
  | nil =>
    intro fuel i j bs h _
    simp only [eucTwEncodeFrom, Except.ok.injEq] at h
    subst h
    cases fuel <;> simp [eucTwDecodeLoop, eucTwUnit]
  | cons c cs ih =>
    intro fuel i j bs h hf
    simp only [eucTwEncodeFrom] at h
    cases hc : eucTwEncodeChar invReal c with
    | none => simp [hc] at h
    | some u =>
      simp only [hc] at h
      cases hrec : eucTwEncodeFrom invReal (j + 1) cs with
      | error e => simp [hrec, Except.map] at h
      | ok bs' =>
        simp only [hrec, Except.map, Except.ok.injEq] at h
        subst h
        simp only [List.length_append] at hf
        by_cases hle : c ≤ 0x7F
        · -- ASCII
          simp only [eucTwEncodeChar, hle, if_true, Option.some.injEq] at hc
          subst hc
          have hnt : isTag c = false := by simp only [isTag, beq_eq_false_iff_ne, ne_eq]; omega
          cases fuel with
          | zero => simp at hf
          | succ fuel =>
            simp only [List.length_cons, List.length_nil] at hf
            simp only [List.cons_append, List.nil_append, eucTwDecodeLoop, eucTwUnit_of_ascii cnsReal c bs' hle, List.drop_succ_cons,
              List.drop_zero, ih fuel (i + 1) (j + 1) bs' hrec (by omega), Except.map, List.filter_cons, hnt]
            rfl
        · simp only [eucTwEncodeChar, hle, if_false] at hc
          cases hinv : invReal c with
          | none =>
            simp only [hinv] at hc
            split at hc
            · rename_i htag
              cases hc
              simp only [List.nil_append, List.filter_cons, htag]
              exact ih fuel i (j + 1) bs' hrec (by simpa using hf)
            · cases hc
          | some pos =>
            obtain ⟨p, r, k⟩ := pos
            obtain ⟨_, hcns, hr, hk, hp, hnt, henc⟩ := encodeChar_real c p r k hinv
            simp only [eucTwEncodeChar, hle, if_false] at henc
            rw [henc] at hc
            cases hc
            by_cases hp1 : p = 1
            · subst hp1
              simp only [if_true, List.length_cons, List.length_nil] at hf ⊢
              cases fuel with
              | zero => omega
              | succ fuel =>
                simp only [List.cons_append, List.nil_append, eucTwDecodeLoop, eucTwUnit_of_two cnsReal r k c bs' hr hk hcns,
                  List.drop_succ_cons, List.drop_zero, ih fuel (i + 2) (j + 1) bs' hrec (by omega), Except.map, List.filter_cons, hnt]
                rfl
            · simp only [hp1, if_false, List.length_cons, List.length_nil] at hf ⊢
              cases fuel with
              | zero => omega
              | succ fuel =>
                simp only [List.cons_append, List.nil_append, eucTwDecodeLoop,
                  eucTwUnit_of_four cnsReal p r k c bs' (by omega) (by omega) (by omega) hcns,
                  List.drop_succ_cons, List.drop_zero, ih fuel (i + 4) (j + 1) bs' hrec (by omega), Except.map, List.filter_cons, hnt]
                rfl

end I18n.Charset

namespace I18n.Charset
open I18n.Charset.Cns I18n.Generated.CharsetCns

set_option maxRecDepth 20000

/-- what a decoded unit contributes: its character, the bytes the encoder writes for it (never more than the unit has) -/
theorem decoded_unit_encodes (p r c ch : Nat) (h : cnsReal p r c = some ch) :
    isScalar ch = true ∧ isTag ch = false ∧ ch > 0x7F ∧
    ∃ u, eucTwEncodeChar invReal ch = some u ∧ (p = 1 → u = [UInt8.ofNat r, UInt8.ofNat c]) ∧ u.length ≤ 4 ∧ u ≠ [] := by
  obtain ⟨hs, hi⟩ := cnsReal_canonical p r c ch h
  have hs := scalarOk_facts ch hs
  refine ⟨by simp only [isScalar, Bool.and_eq_true, decide_eq_true_eq, Bool.not_eq_true', Bool.and_eq_false_iff, decide_eq_false_iff_not]; omega,
    hs.2.2.2, hs.1, ?_⟩
  rcases hi with hi | ⟨rfl, rfl, rfl⟩
  · obtain ⟨_, _, _, _, _, _, henc⟩ := encodeChar_real ch p r c hi
    refine ⟨_, henc, ?_, ?_, ?_⟩
    · intro hp; simp [hp]
    · split <;> simp
    · split <;> simp
  · have hch : ch = 0x5344 := by
      have := dup_fact.1
      rw [this] at h
      cases h; rfl
    subst hch
    obtain ⟨_, _, _, _, _, _, henc⟩ := encodeChar_real 0x5344 1 0xA4 0xBF dup_fact.2.2
    exact ⟨_, henc, by omega, by simp, by simp⟩

/-- **decoding under the real tables**: only scalar values that are not TAG characters come out, at most one per byte; and the
    encoder accepts all of them, writing no more bytes than were read (the short form) -/
theorem decodeLoop_real_facts : ∀ (fuel i j : Nat) (bs : List UInt8) (cs : List Nat),
    eucTwDecodeLoop cnsReal fuel i bs = .ok cs →
    cs.length ≤ bs.length ∧ (∀ c ∈ cs, isScalar c = true ∧ isTag c = false) ∧
    ∃ bs', eucTwEncodeFrom invReal j cs = .ok bs' ∧ bs'.length ≤ bs.length := by
  intro fuel
  induction fuel with
  | zero =>
    intro i j bs cs h
    simp only [eucTwDecodeLoop] at h
    split at h
    · cases h; exact ⟨by simp, by simp, [], rfl, by simp⟩
    · cases h
  | succ fuel ih =>
    intro i j bs cs h
    simp only [eucTwDecodeLoop] at h
    cases hu : eucTwUnit cnsReal bs with
    | done =>
      simp only [hu] at h
      cases h; exact ⟨by simp, by simp, [], rfl, by simp⟩
    | illegal => simp [hu] at h
    | incomplete => simp [hu] at h
    | ascii c =>
      simp only [hu] at h
      obtain ⟨b, rest, rfl, rfl, hle⟩ := eucTwUnit_ascii cnsReal bs c hu
      simp only [List.drop_succ_cons, List.drop_zero] at h
      cases hrec : eucTwDecodeLoop cnsReal fuel (i + 1) rest with
      | error e => simp [hrec, Except.map] at h
      | ok cs' =>
        simp only [hrec, Except.map, Except.ok.injEq] at h
        subst h
        obtain ⟨h1, h2, bs', h3, h4⟩ := ih (i + 1) (j + 1) _ cs' hrec
        refine ⟨by simp only [List.length_cons]; omega, ?_, b :: bs', ?_, by simp only [List.length_cons]; omega⟩
        · intro c hc
          rcases List.mem_cons.1 hc with rfl | hc
          · simp only [isScalar, isTag, Bool.and_eq_true, decide_eq_true_eq, Bool.not_eq_true', Bool.and_eq_false_iff,
              decide_eq_false_iff_not, beq_eq_false_iff_ne, ne_eq]
            omega
          · exact h2 c hc
        · simp only [eucTwEncodeFrom, eucTwEncodeChar, hle, if_true, h3, Except.map, ofNat_toNat]
          rfl
    | two r c ch =>
      simp only [hu] at h
      obtain ⟨b, b2, rest, rfl, rfl, rfl, hc, _⟩ := eucTwUnit_two' cnsReal bs r c ch hu
      simp only [List.drop_succ_cons, List.drop_zero] at h
      cases hrec : eucTwDecodeLoop cnsReal fuel (i + 2) rest with
      | error e => simp [hrec, Except.map] at h
      | ok cs' =>
        simp only [hrec, Except.map, Except.ok.injEq] at h
        subst h
        obtain ⟨h1, h2, bs', h3, h4⟩ := ih (i + 2) (j + 1) _ cs' hrec
        obtain ⟨g1, g2, _, u, g3, g4, _, _⟩ := decoded_unit_encodes _ _ _ _ hc
        have hu2 := g4 rfl
        subst hu2
        refine ⟨by simp only [List.length_cons]; omega, ?_, [UInt8.ofNat b.toNat, UInt8.ofNat b2.toNat] ++ bs', ?_,
          by simp only [List.length_append, List.length_cons, List.length_nil]; omega⟩
        · intro c hc
          rcases List.mem_cons.1 hc with rfl | hc
          · exact ⟨g1, g2⟩
          · exact h2 c hc
        · simp only [eucTwEncodeFrom, g3, h3, Except.map]
    | four p r c ch =>
      simp only [hu] at h
      obtain ⟨b, b2, b3, b4, rest, rfl, _, _, _, rfl, rfl, rfl, hc⟩ := eucTwUnit_four' cnsReal bs p r c ch hu
      simp only [List.drop_succ_cons, List.drop_zero] at h
      cases hrec : eucTwDecodeLoop cnsReal fuel (i + 4) rest with
      | error e => simp [hrec, Except.map] at h
      | ok cs' =>
        simp only [hrec, Except.map, Except.ok.injEq] at h
        subst h
        obtain ⟨h1, h2, bs', h3, h4⟩ := ih (i + 4) (j + 1) _ cs' hrec
        obtain ⟨g1, g2, _, u, g3, _, g5, _⟩ := decoded_unit_encodes _ _ _ _ hc
        refine ⟨by simp only [List.length_cons]; omega, ?_, u ++ bs', ?_,
          by simp only [List.length_append, List.length_cons]; omega⟩
        · intro c hc
          rcases List.mem_cons.1 hc with rfl | hc
          · exact ⟨g1, g2⟩
          · exact h2 c hc
        · simp only [eucTwEncodeFrom, g3, h3, Except.map]

/-- **round trip ⇒ no redundant unit** (the converse of the canonical round trip, under the real tables) -/
theorem roundtrip_noRedundant : ∀ (fuel i j : Nat) (bs : List UInt8) (cs : List Nat),
    eucTwDecodeLoop cnsReal fuel i bs = .ok cs → eucTwEncodeFrom invReal j cs = .ok bs →
    eucTwNoRedundant cnsReal fuel bs = true := by
  intro fuel
  induction fuel with
  | zero => intro i j bs cs _ _; rfl
  | succ fuel ih =>
    intro i j bs cs h henc
    simp only [eucTwDecodeLoop] at h
    simp only [eucTwNoRedundant]
    cases hu : eucTwUnit cnsReal bs with
    | done | illegal | incomplete => rfl
    | ascii c =>
      simp only [hu] at h ⊢
      obtain ⟨b, rest, rfl, rfl, hle⟩ := eucTwUnit_ascii cnsReal bs c hu
      simp only [List.drop_succ_cons, List.drop_zero] at h ⊢
      cases hrec : eucTwDecodeLoop cnsReal fuel (i + 1) rest with
      | error e => simp [hrec, Except.map] at h
      | ok cs' =>
        simp only [hrec, Except.map, Except.ok.injEq] at h
        subst h
        simp only [eucTwEncodeFrom, eucTwEncodeChar, hle, if_true, ofNat_toNat] at henc
        cases hrest : eucTwEncodeFrom invReal (j + 1) cs' with
        | error e => simp [hrest, Except.map] at henc
        | ok bs' =>
          simp only [hrest, Except.map, Except.ok.injEq, List.cons_append, List.nil_append, List.cons.injEq, true_and] at henc
          subst henc
          exact ih (i + 1) (j + 1) _ cs' hrec hrest
    | two r c ch =>
      simp only [hu] at h ⊢
      obtain ⟨b, b2, rest, rfl, rfl, rfl, hc, _⟩ := eucTwUnit_two' cnsReal bs r c ch hu
      simp only [List.drop_succ_cons, List.drop_zero] at h ⊢
      cases hrec : eucTwDecodeLoop cnsReal fuel (i + 2) rest with
      | error e => simp [hrec, Except.map] at h
      | ok cs' =>
        simp only [hrec, Except.map, Except.ok.injEq] at h
        subst h
        obtain ⟨_, _, _, u, g3, g4, _, _⟩ := decoded_unit_encodes _ _ _ _ hc
        have hu2 := g4 rfl
        subst hu2
        simp only [eucTwEncodeFrom, g3, ofNat_toNat] at henc
        cases hrest : eucTwEncodeFrom invReal (j + 1) cs' with
        | error e => simp [hrest, Except.map] at henc
        | ok bs' =>
          simp only [hrest, Except.map, Except.ok.injEq, List.cons_append, List.nil_append, List.cons.injEq, true_and] at henc
          subst henc
          exact ih (i + 2) (j + 1) _ cs' hrec hrest
    | four p r c ch =>
      simp only [hu] at h ⊢
      obtain ⟨b, b2, b3, b4, rest, rfl, hb, hlo, hhi, rfl, rfl, rfl, hc⟩ := eucTwUnit_four' cnsReal bs p r c ch hu
      simp only [List.drop_succ_cons, List.drop_zero] at h ⊢
      cases hrec : eucTwDecodeLoop cnsReal fuel (i + 4) rest with
      | error e => simp [hrec, Except.map] at h
      | ok cs' =>
        simp only [hrec, Except.map, Except.ok.injEq] at h
        subst h
        simp only [eucTwEncodeFrom] at henc
        cases hrest : eucTwEncodeFrom invReal (j + 1) cs' with
        | error e =>
          cases hx : eucTwEncodeChar invReal ch <;> simp [hx, hrest, Except.map] at henc
        | ok bs' =>
          obtain ⟨hs, hi⟩ := cnsReal_canonical _ _ _ _ hc
          have hb8 : b ≠ UInt8.ofNat b3.toNat := by
            intro hbb
            rw [ofNat_toNat] at hbb
            obtain ⟨_, hr3, _, _⟩ := cnsReal_some _ _ _ _ hc
            rw [hbb] at hb; omega
          rcases hi with hi | ⟨d1, d2, d3⟩
          · obtain ⟨_, _, _, _, _, _, hen⟩ := encodeChar_real ch _ _ _ hi
            by_cases hp1 : b2.toNat - 0xA0 = 1
            · simp only [hen, hp1, if_true, hrest, Except.map, Except.ok.injEq, List.cons_append, List.nil_append, List.cons.injEq] at henc
              exact (hb8 henc.1.symm).elim
            · simp only [hen, hp1, if_false, hrest, Except.map, Except.ok.injEq, List.cons_append, List.nil_append, List.cons.injEq] at henc
              obtain ⟨_, _, _, _, hr⟩ := henc
              subst hr
              have hnd : ¬ (b2.toNat - 0xA0 = 3 ∧ b3.toNat = 0xA1 ∧ b4.toNat = 0xB8) := by
                rintro ⟨d1, d2, d3⟩
                rw [d1, d2, d3] at hc hi
                have hch : ch = 0x5344 := by
                  have := dup_fact.1
                  rw [this] at hc
                  cases hc; rfl
                subst hch
                rw [dup_fact.2.2] at hi
                cases hi
              have hred : (EucUnit.four (b2.toNat - 0xA0) b3.toNat b4.toNat ch).redundant = false := by
                simp only [EucUnit.redundant, Bool.or_eq_false_iff, beq_eq_false_iff_ne, ne_eq, Bool.and_eq_false_iff]
                refine ⟨hp1, ?_⟩
                by_cases e1 : b2.toNat - 0xA0 = 3
                · by_cases e2 : b3.toNat = 0xA1
                  · exact .inr (fun e3 => hnd ⟨e1, e2, e3⟩)
                  · exact .inl (.inr e2)
                · exact .inl (.inl e1)
              simp only [hred, Bool.not_false, Bool.true_and]
              exact ih (i + 4) (j + 1) _ cs' hrec hrest
          · rw [d1, d2, d3] at hc
            have hch : ch = 0x5344 := by
              have := dup_fact.1
              rw [this] at hc
              cases hc; rfl
            subst hch
            obtain ⟨_, _, _, _, _, _, hen⟩ := encodeChar_real 0x5344 1 0xA4 0xBF dup_fact.2.2
            simp only [hen, if_true, hrest, Except.map, Except.ok.injEq, List.cons_append, List.nil_append, List.cons.injEq] at henc
            have : b.toNat = 0xA4 := by rw [← henc.1]; rfl
            omega

end I18n.Charset
