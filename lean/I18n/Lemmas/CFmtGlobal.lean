import I18n.Lemmas.CFmtValid
/-!
# The argument bookkeeping of `FormatString` against the global rules of `Spec.Printf`
-/
namespace I18n.CFmt
open I18n.Spec.Printf

/-! ## `len(self._items)` commutes with `add_argument` -/

def setN (k : Nat) (st : St) : St := { st with nitems := k }

@[simp] theorem setN_next (k : Nat) (st : St) : (setN k st).next = st.next := rfl
@[simp] theorem setN_map (k : Nat) (st : St) : (setN k st).map = st.map := rfl
@[simp] theorem setN_nitems (k : Nat) (st : St) : (setN k st).nitems = k := rfl
@[simp] theorem setN_setN (a b : Nat) (st : St) : setN a (setN b st) = setN a st := rfl
theorem setN_self (st : St) : setN st.nitems st = st := rfl

theorem addArgument_setN (k : Nat) (st : St) (n : Option Nat) (v : Entry) :
    addArgument (setN k st) n v = (addArgument st n v).map (setN k) := by
  unfold addArgument
  cases n <;> simp only [setN_next, setN_map] <;> cases st.next <;> simp only [] <;>
    (repeat' split) <;> first | rfl | (simp_all; done) | (simp_all <;> split <;> rfl)

theorem addAll_setN (k : Nat) : ∀ (rs : List Ref) (st : St),
    addAll (setN k st) rs = (addAll st rs).map (setN k)
  | [], st => rfl
  | r :: rs, st => by
    simp only [addAll, addArgument_setN]
    cases addArgument st r.idx r.entry with
    | error e => rfl
    | ok st1 => simp only [map_ok]; exact addAll_setN k rs st1

/-- all directives of the string are valid and have numerals `int()` accepts -/
def AllValid (items : List Item) : Prop := ∀ d ∈ dirs items, DirShort d ∧ ValidDirective d

theorem map_setN_ok {x : Except CErr St} {k : Nat} {st' : St} :
    x.map (setN k) = .ok st' ↔ ∃ st1, x = .ok st1 ∧ st' = setN k st1 := by
  cases x with
  | error e => simp [error_ne_ok]
  | ok a => simp [eq_comm]

/-- **The scan loop** with warnings off: succeeds iff every directive is valid, and then has registered
    all argument references of the string, in order. -/
theorem steps_ok_iff : ∀ (items : List Item) (st st' : St), ItemsWf items →
    (steps false items st = .ok st' ↔
      AllValid items ∧ ∃ st1, addAll st (refsFrom st.nitems items) = .ok st1 ∧ st' = setN (st.nitems + items.length) st1)
  | [], st, st', _ => by
    simp only [steps, refsFrom, addAll, AllValid, dirs, List.not_mem_nil, false_imp_iff, implies_true, true_and,
      Except.ok.injEq, List.length_nil, Nat.add_zero]
    constructor
    · intro h; exact ⟨st, rfl, h.symm⟩
    · rintro ⟨st1, rfl, h⟩; exact h.symm
  | .lit cs :: rest, st, st', hwf => by
    have ih := steps_ok_iff rest (setN (st.nitems + 1) st) st' hwf.2.2.2
    simp only [steps, step]
    rw [show ({ st with nitems := st.nitems + 1 } : St) = setN (st.nitems + 1) st from rfl, ih]
    simp only [AllValid, dirs, refsFrom, setN_nitems, addAll_setN, List.length_cons]
    constructor
    · rintro ⟨hv, st1, h1, rfl⟩
      obtain ⟨st2, h2, rfl⟩ := map_setN_ok.1 h1
      exact ⟨hv, st2, h2, by simp [Nat.add_assoc, Nat.add_comm 1]⟩
    · rintro ⟨hv, st1, h1, rfl⟩
      exact ⟨hv, setN (st.nitems + 1) st1, by rw [h1]; rfl, by simp [Nat.add_assoc, Nat.add_comm 1]⟩
  | .dir d :: rest, st, st', hwf => by
    simp only [steps, step]
    constructor
    · intro h
      cases hc : conversion false st d with
      | error e => rw [hc] at h; cases h
      | ok st1 =>
        rw [hc] at h
        simp only at h
        obtain ⟨hs, hv, ha⟩ := (conversion_ok_iff hwf.1 st st1).1 hc
        have hn := (addAll_nitems ha).1
        rw [show ({ st1 with nitems := st1.nitems + 1 } : St) = setN (st1.nitems + 1) st1 from rfl] at h
        obtain ⟨hv', st2, h2, rfl⟩ := (steps_ok_iff rest _ st' hwf.2).1 h
        simp only [setN_nitems, addAll_setN] at h2
        obtain ⟨st3, h3, rfl⟩ := map_setN_ok.1 h2
        refine ⟨?_, st3, ?_, by simp [hn, Nat.add_assoc, Nat.add_comm 1]⟩
        · intro d' hd'
          simp only [dirs, List.mem_cons] at hd'
          rcases hd' with rfl | hd'
          · exact ⟨hs, hv⟩
          · exact hv' d' hd'
        · rw [hn] at h3
          simp only [refsFrom, addAll_append, ha, h3]
    · rintro ⟨hv, st3, h3, rfl⟩
      simp only [refsFrom, addAll_append] at h3
      cases ha : addAll st (d.refs st.nitems) with
      | error e => rw [ha] at h3; cases h3
      | ok st1 =>
        rw [ha] at h3
        simp only at h3
        have hn := (addAll_nitems ha).1
        have hvd := hv d (by simp [dirs])
        have hc : conversion false st d = .ok st1 := (conversion_ok_iff hwf.1 st st1).2 ⟨hvd.1, hvd.2, ha⟩
        simp only [hc]
        rw [show ({ st1 with nitems := st1.nitems + 1 } : St) = setN (st1.nitems + 1) st1 from rfl]
        refine (steps_ok_iff rest _ _ hwf.2).2 ⟨fun d' hd' => hv d' (by simp [dirs, hd']), setN (st1.nitems + 1) st3, ?_, ?_⟩
        · simp only [setN_nitems, addAll_setN, hn, h3, map_ok]
        · simp [hn, Nat.add_assoc, Nat.add_comm 1]


/-! ## `add_argument`'s state machine computes `positions` and enforces `Numbering` -/

theorem positionsFrom_append : ∀ (a b : List Ref) (k : Nat),
    positionsFrom k (a ++ b) = positionsFrom k a ++ positionsFrom (k + a.length) b
  | [], b, k => by simp [positionsFrom]
  | r :: a, b, k => by
    simp only [List.cons_append, positionsFrom, List.length_cons, positionsFrom_append a b (k + 1)]
    simp [Nat.add_assoc, Nat.add_comm 1]

/-- the argument a reference denotes when it comes after `pre` -/
def posOf (pre : List Ref) (r : Ref) : Nat :=
  match r.idx with
  | some i => i
  | none => pre.length + 1

theorem positions_snoc (pre : List Ref) (r : Ref) :
    positionsFrom 1 (pre ++ [r]) = positionsFrom 1 pre ++ [(posOf pre r, r.entry)] := by
  rw [positionsFrom_append]
  simp only [positionsFrom, posOf, Nat.add_comm 1]
  cases r.idx <;> rfl

/-- the state after the references `pre` have been registered -/
structure Reach (pre : List Ref) (st : St) : Prop where
  map : st.map = positionsFrom 1 pre
  next : ((∀ r ∈ pre, r.idx = none) ∧ st.next = some (pre.length + 1)) ∨
         (pre ≠ [] ∧ (∀ r ∈ pre, r.idx ≠ none) ∧ st.next = none)

theorem Reach.init : Reach [] St.init := ⟨rfl, Or.inl ⟨by simp, rfl⟩⟩

theorem numbering_snoc_unnumbered {pre : List Ref} {r : Ref} (hr : r.idx = none) :
    Numbering (pre ++ [r]) ↔ ∀ x ∈ pre, x.idx = none := by
  constructor
  · rintro (h | h)
    · exact fun x hx => h x (by simp [hx])
    · exact absurd hr (h r (by simp))
  · intro h
    refine Or.inl fun x hx => ?_
    rcases List.mem_append.1 hx with hx | hx
    · exact h x hx
    · simp at hx; subst hx; exact hr

theorem numbering_snoc_numbered {pre : List Ref} {r : Ref} (hr : r.idx ≠ none) :
    Numbering (pre ++ [r]) ↔ ∀ x ∈ pre, x.idx ≠ none := by
  constructor
  · rintro (h | h)
    · exact absurd (h r (by simp)) hr
    · exact fun x hx => h x (by simp [hx])
  · intro h
    refine Or.inr fun x hx => ?_
    rcases List.mem_append.1 hx with hx | hx
    · exact h x hx
    · simp at hx; subst hx; exact hr

/-- one `add_argument` call from a reachable state -/
theorem addArgument_reach {pre : List Ref} {st : St} (hR : Reach pre st) (r : Ref) :
    (∀ st', addArgument st r.idx r.entry = .ok st' → Reach (pre ++ [r]) st') ∧
    ((∃ st', addArgument st r.idx r.entry = .ok st') ↔
      Numbering (pre ++ [r]) ∧ posOf pre r ≤ Spec.Printf.NL_ARGMAX) ∧
    (∀ e, addArgument st r.idx r.entry = .error e → e = .ArgumentNumberingMixture ∨ e = .ArgumentRangeError) := by
  obtain ⟨hmap, hnext⟩ := hR
  have hsn := positions_snoc pre r
  cases hri : r.idx with
  | none =>
    have hnum := numbering_snoc_unnumbered (pre := pre) hri
    have hpos : posOf pre r = pre.length + 1 := by simp [posOf, hri]
    rcases hnext with ⟨hall, hn⟩ | ⟨hne, hall, hn⟩
    · simp only [addArgument, hn, ← nl_argmax_pin, hnum, hpos]
      by_cases hk : pre.length + 1 > Generated.CFormatTables.NL_ARGMAX
      · simp only [hk, if_true, error_ne_ok, false_imp_iff, implies_true, exists_false, false_iff, true_and]
        exact ⟨fun h => absurd h.2 (Nat.not_le.2 hk), fun e he => by cases he; exact Or.inr rfl⟩
      · simp only [hk, if_false, Except.ok.injEq]
        refine ⟨?_, ⟨fun _ => ⟨hall, Nat.not_lt.1 hk⟩, fun _ => ⟨_, rfl⟩⟩, fun e he => by cases he⟩
        rintro st' rfl
        refine ⟨by simp only [hmap, hsn, hpos], Or.inl ⟨?_, by simp⟩⟩
        intro x hx
        rcases List.mem_append.1 hx with hx | hx
        · exact hall x hx
        · simp at hx; subst hx; exact hri
    · have : ¬ ∀ x ∈ pre, x.idx = none := by
        intro h
        cases pre with
        | nil => exact hne rfl
        | cons x xs => exact hall x (by simp) (h x (by simp))
      simp only [addArgument, hn, error_ne_ok, false_imp_iff, implies_true, exists_false, hnum, this, false_and, true_and]
      exact fun e he => by cases he; exact Or.inl rfl
  | some i =>
    have hnum := numbering_snoc_numbered (pre := pre) (r := r) (by simp [hri])
    have hpos : posOf pre r = i := by simp [posOf, hri]
    have hreach : ∀ st' : St, st'.map = st.map ++ [(i, r.entry)] → st'.next = none → (∀ x ∈ pre, x.idx ≠ none) →
        Reach (pre ++ [r]) st' := by
      intro st' hm hn hall
      refine ⟨by rw [hm, hmap, hsn, hpos], Or.inr ⟨by simp, ?_, hn⟩⟩
      intro x hx
      rcases List.mem_append.1 hx with hx | hx
      · exact hall x hx
      · simp at hx; subst hx; simp [hri]
    rcases hnext with ⟨hall, hn⟩ | ⟨hne, hall, hn⟩
    · by_cases hp : pre = []
      · subst hp
        have hm : st.map = [] := by simpa [positionsFrom] using hmap
        have hnr : Numbering [r] := by simpa using hnum.2 (by simp)
        simp only [addArgument, hn, List.length_nil, Nat.zero_add, beq_self_eq_true, if_true, hm, List.isEmpty_nil,
          Bool.not_true, Bool.false_eq_true, if_false, ← nl_argmax_pin, hpos, List.nil_append, hnr, true_and]
        by_cases hk : i > Generated.CFormatTables.NL_ARGMAX
        · simp only [hk, if_true, error_ne_ok, false_imp_iff, implies_true, exists_false, false_iff, true_and]
          exact ⟨Nat.not_le.2 hk, fun e he => by cases he; exact Or.inr rfl⟩
        · simp only [hk, if_false, Except.ok.injEq]
          refine ⟨?_, ⟨fun _ => Nat.not_lt.1 hk, fun _ => ⟨_, rfl⟩⟩, fun e he => by cases he⟩
          rintro st' rfl
          exact hreach _ (by simp [hm]) rfl (by simp)
      · have hk1 : (pre.length + 1 == 1) = false := by
          cases pre with
          | nil => exact absurd rfl hp
          | cons x xs => simp
        have : ¬ ∀ x ∈ pre, x.idx ≠ none := by
          intro h
          cases pre with
          | nil => exact hp rfl
          | cons x xs => exact h x (by simp) (hall x (by simp))
        simp only [addArgument, hn, hk1, Bool.false_eq_true, if_false, error_ne_ok, false_imp_iff, implies_true, exists_false, hnum, this,
          false_and, true_and]
        exact fun e he => by cases he; exact Or.inl rfl
    · simp only [addArgument, hn, ← nl_argmax_pin, hnum, hpos]
      by_cases hk : i > Generated.CFormatTables.NL_ARGMAX
      · simp only [hk, if_true, error_ne_ok, false_imp_iff, implies_true, exists_false, false_iff, true_and]
        exact ⟨fun h => absurd h.2 (Nat.not_le.2 hk), fun e he => by cases he; exact Or.inr rfl⟩
      · simp only [hk, if_false, Except.ok.injEq]
        refine ⟨?_, ⟨fun _ => ⟨hall, Nat.not_lt.1 hk⟩, fun _ => ⟨_, rfl⟩⟩, fun e he => by cases he⟩
        rintro st' rfl
        exact hreach _ rfl rfl hall


theorem numbering_prefix {a b : List Ref} (h : Numbering (a ++ b)) : Numbering a := by
  rcases h with h | h
  · exact Or.inl fun r hr => h r (by simp [hr])
  · exact Or.inr fun r hr => h r (by simp [hr])

theorem positionsFrom_cons_key (pre : List Ref) (r : Ref) (rs : List Ref) :
    positionsFrom (pre.length + 1) (r :: rs) = (posOf pre r, r.entry) :: positionsFrom (pre.length + 1 + 1) rs := by
  simp only [positionsFrom, posOf]
  cases r.idx <;> rfl

theorem addAll_reach : ∀ (rs pre : List Ref) (st : St), Reach pre st →
    (∀ st', addAll st rs = .ok st' → Reach (pre ++ rs) st') ∧
    ((∃ st', addAll st rs = .ok st') ↔
      Numbering (pre ++ rs) ∧ ∀ p ∈ positionsFrom (pre.length + 1) rs, p.1 ≤ Spec.Printf.NL_ARGMAX) ∧
    (∀ e, addAll st rs = .error e → e = .ArgumentNumberingMixture ∨ e = .ArgumentRangeError)
  | [], pre, st, hR => by
    simp only [addAll, Except.ok.injEq, List.append_nil, positionsFrom, List.not_mem_nil, false_imp_iff, implies_true,
      and_true]
    refine ⟨fun st' h => h ▸ hR, ⟨fun _ => ?_, fun _ => ⟨st, rfl⟩⟩, fun e he => by cases he⟩
    rcases hR.next with ⟨h, _⟩ | ⟨_, h, _⟩
    · exact Or.inl h
    · exact Or.inr h
  | r :: rs, pre, st, hR => by
    obtain ⟨h1, h2, h3⟩ := addArgument_reach hR r
    have happ : pre ++ r :: rs = (pre ++ [r]) ++ rs := by simp
    have hlen : (pre ++ [r]).length + 1 = pre.length + 1 + 1 := by simp
    simp only [addAll]
    cases ha : addArgument st r.idx r.entry with
    | error e =>
      have hno : ¬ (Numbering (pre ++ [r]) ∧ posOf pre r ≤ Spec.Printf.NL_ARGMAX) := fun h => by
        obtain ⟨st', hs⟩ := h2.2 h
        rw [ha] at hs; cases hs
      simp only [error_ne_ok, false_imp_iff, implies_true, exists_false, false_iff, true_and, Except.error.injEq]
      refine ⟨?_, fun e' he' => he' ▸ h3 e ha⟩
      rintro ⟨hn, hp⟩
      rw [happ] at hn
      rw [positionsFrom_cons_key] at hp
      exact hno ⟨numbering_prefix hn, hp (posOf pre r, r.entry) (by simp)⟩
    | ok st1 =>
      have hR1 := h1 st1 ha
      obtain ⟨i1, i2, i3⟩ := addAll_reach rs (pre ++ [r]) st1 hR1
      have hok := h2.1 ⟨st1, ha⟩
      simp only
      rw [happ, positionsFrom_cons_key, i2, hlen]
      refine ⟨i1, ?_, i3⟩
      constructor
      · rintro ⟨hn, hp⟩
        refine ⟨hn, fun p hp' => ?_⟩
        rcases List.mem_cons.1 hp' with rfl | hp'
        · exact hok.2
        · exact hp p hp'
      · rintro ⟨hn, hp⟩
        exact ⟨hn, fun p hp' => hp p (List.mem_cons_of_mem _ hp')⟩

/-- **Argument registration over a whole string.** -/
theorem addAll_init (rs : List Ref) :
    (∀ st', addAll St.init rs = .ok st' → st'.map = positions rs) ∧
    ((∃ st', addAll St.init rs = .ok st') ↔ Numbering rs ∧ ∀ p ∈ positions rs, p.1 ≤ Spec.Printf.NL_ARGMAX) ∧
    (∀ e, addAll St.init rs = .error e → e = .ArgumentNumberingMixture ∨ e = .ArgumentRangeError) := by
  obtain ⟨h1, h2, h3⟩ := addAll_reach rs [] St.init Reach.init
  refine ⟨fun st' h => ?_, by simpa [positions] using h2, h3⟩
  simpa [positions] using (h1 st' h).map


/-! ## the gap check -/

def HasKey (L : List (Nat × Entry)) (j : Nat) : Prop := ∃ e, (j, e) ∈ L

theorem usesOf_filter_ne (L : List (Nat × Entry)) {i j : Nat} (h : j ≠ i) :
    usesOf (L.filter (fun p => p.1 != i)) j = usesOf L j := by
  simp only [usesOf, List.filter_filter]
  congr 1
  apply List.filter_congr
  intro p _
  by_cases hp : p.1 = j
  · subst hp; simp [h]
  · have : (p.1 == j) = false := by simpa using hp
    simp [this]

theorem hasKey_filter_ne (L : List (Nat × Entry)) (i j : Nat) :
    HasKey (L.filter (fun p => p.1 != i)) j ↔ HasKey L j ∧ j ≠ i := by
  simp only [HasKey, List.mem_filter, bne_iff_ne, ne_eq]
  constructor
  · rintro ⟨e, h1, h2⟩; exact ⟨⟨e, h1⟩, h2⟩
  · rintro ⟨⟨e, h1⟩, h2⟩; exact ⟨e, h1, h2⟩

theorem filter_eq_nil_key {L : List (Nat × Entry)} {i : Nat} (h : L.filter (fun p => p.1 == i) = []) : ¬ HasKey L i := by
  rintro ⟨e, he⟩
  have : (i, e) ∈ L.filter (fun p => p.1 == i) := List.mem_filter.2 ⟨he, by simp⟩
  rw [h] at this
  cases this

theorem filter_cons_key {L : List (Nat × Entry)} {i : Nat} {x : Nat × Entry} {xs : List (Nat × Entry)}
    (h : L.filter (fun p => p.1 == i) = x :: xs) : HasKey L i := by
  have : x ∈ L.filter (fun p => p.1 == i) := by rw [h]; simp
  obtain ⟨h1, h2⟩ := List.mem_filter.1 this
  have h2 : x.1 = i := by simpa using h2
  exact ⟨x.2, by rw [← h2]; exact h1⟩

theorem range_keys_nil {i k : Nat} (h : ∀ j, HasKey [] j ↔ i ≤ j ∧ j < i + k) : k = 0 := by
  cases k with
  | zero => rfl
  | succ k =>
    have := (h i).2 ⟨Nat.le_refl _, by omega⟩
    obtain ⟨e, he⟩ := this
    cases he

theorem collect_spec : ∀ (fuel i : Nat) (L : List (Nat × Entry)), (∀ p ∈ L, i ≤ p.1 ∧ p.1 < i + fuel) →
    (∀ A, collect fuel i L = .ok A ↔
      ∃ k, (∀ j, HasKey L j ↔ i ≤ j ∧ j < i + k) ∧ A = (List.range k).map (fun t => usesOf L (i + t))) ∧
    (∀ e, collect fuel i L = .error e → e = .MissingArgument) := by
  have nilcase : ∀ (i : Nat) (A : List (List Entry)), (Except.ok [] : Except CErr _) = .ok A ↔
      ∃ k, (∀ j, HasKey [] j ↔ i ≤ j ∧ j < i + k) ∧ A = (List.range k).map (fun t => usesOf [] (i + t)) := by
    intro i A
    constructor
    · intro h
      cases h
      refine ⟨0, fun j => ⟨fun ⟨e, he⟩ => (by cases he), fun h => (by omega)⟩, rfl⟩
    · rintro ⟨k, hk, rfl⟩
      have := range_keys_nil hk
      subst this
      rfl
  intro fuel
  induction fuel with
  | zero =>
    intro i L hL
    have : L = [] := by
      cases L with
      | nil => rfl
      | cons p ps => have := hL p (by simp); omega
    subst this
    exact ⟨fun A => by simpa [collect] using nilcase i A, fun e he => by simp [collect] at he⟩
  | succ fuel ih =>
    intro i L hL
    cases hLe : L with
    | nil => exact ⟨fun A => by simpa [collect] using nilcase i A, fun e he => by simp [collect] at he⟩
    | cons p0 ps =>
      rw [← hLe]
      have hne : L.isEmpty = false := by rw [hLe]; rfl
      have hmem0 : p0 ∈ L := by rw [hLe]; simp
      simp only [collect, hne, Bool.false_eq_true, if_false]
      cases hg : L.filter (fun p => p.1 == i) with
      | nil =>
        have hnk := filter_eq_nil_key hg
        simp only [error_ne_ok, false_iff, Except.error.injEq]
        refine ⟨fun A => ?_, fun e he => he.symm⟩
        rintro ⟨k, hk, _⟩
        have h0 := (hk p0.1).1 ⟨p0.2, hmem0⟩
        exact hnk ((hk i).2 ⟨Nat.le_refl _, by omega⟩)
      | cons x xs =>
        have hki := filter_cons_key hg
        have hL' : ∀ p ∈ L.filter (fun p => p.1 != i), i + 1 ≤ p.1 ∧ p.1 < i + 1 + fuel := by
          intro p hp
          obtain ⟨hp1, hp2⟩ := List.mem_filter.1 hp
          have := hL p hp1
          have hp2 : p.1 ≠ i := by simpa using hp2
          omega
        obtain ⟨ihA, ihE⟩ := ih (i + 1) (L.filter (fun p => p.1 != i)) hL'
        have huse : (x :: xs).map (·.2) = usesOf L i := by rw [← hg]; rfl
        have htail : ∀ k', (List.range k').map (fun t => usesOf (L.filter (fun p => p.1 != i)) (i + 1 + t)) =
            (List.range k').map (fun t => usesOf L (i + (t + 1))) := by
          intro k'
          apply List.map_congr_left
          intro t _
          rw [usesOf_filter_ne L (by omega : i + 1 + t ≠ i)]
          congr 1; omega
        have hsucc : ∀ k', (List.range (k' + 1)).map (fun t => usesOf L (i + t)) =
            usesOf L i :: (List.range k').map (fun t => usesOf L (i + (t + 1))) := by
          intro k'
          rw [List.range_succ_eq_map]
          simp [List.map_map, Function.comp_def]
        simp only
        cases hc : collect fuel (i + 1) (L.filter (fun p => p.1 != i)) with
        | error e =>
          refine ⟨fun A => ?_, fun e' he' => by cases he'; exact ihE e hc⟩
          simp only [error_ne_ok, false_iff]
          rintro ⟨k, hk, _⟩
          cases k with
          | zero => have := (hk i).1 hki; omega
          | succ k' =>
            have : collect fuel (i + 1) (L.filter (fun p => p.1 != i)) =
                .ok ((List.range k').map (fun t => usesOf (L.filter (fun p => p.1 != i)) (i + 1 + t))) := by
              refine (ihA _).2 ⟨k', fun j => ?_, rfl⟩
              rw [hasKey_filter_ne, hk j]
              omega
            rw [hc] at this
            cases this
        | ok A' =>
          obtain ⟨k', hk', rfl⟩ := (ihA A').1 hc
          refine ⟨fun A => ?_, fun e he => by cases he⟩
          simp only [Except.ok.injEq]
          constructor
          · rintro rfl
            refine ⟨k' + 1, fun j => ?_, ?_⟩
            · have := hk' j
              rw [hasKey_filter_ne] at this
              by_cases hj : j = i
              · subst hj; exact ⟨fun _ => by omega, fun _ => hki⟩
              · constructor
                · intro h; have := this.1 ⟨h, hj⟩; omega
                · intro h; exact (this.2 (by omega)).1
            · rw [hsucc, huse, htail]
          · rintro ⟨k, hk, rfl⟩
            cases k with
            | zero => have := (hk i).1 hki; omega
            | succ k =>
              have hkk : k = k' := by
                -- the keys of the filtered log are [i+1, i+1+k) and [i+1, i+1+k')
                have e1 : ∀ j, (i + 1 ≤ j ∧ j < i + 1 + k) ↔ (i + 1 ≤ j ∧ j < i + 1 + k') := by
                  intro j
                  rw [← hk' j, hasKey_filter_ne, hk j]
                  omega
                by_cases hlt : k < k'
                · have := (e1 (i + 1 + k)).2 (by omega); omega
                · by_cases hgt : k' < k
                  · have := (e1 (i + 1 + k')).1 (by omega); omega
                  · omega
              subst hkk
              rw [hsucc, huse, htail]


/-! ## number of arguments, one type per argument -/

theorem foldl_max_ge (L : List (Nat × Entry)) (a : Nat) :
    a ≤ L.foldl (fun m p => max m p.1) a ∧ ∀ p ∈ L, p.1 ≤ L.foldl (fun m p => max m p.1) a := by
  induction L generalizing a with
  | nil => simp
  | cons x xs ih =>
    obtain ⟨h1, h2⟩ := ih (max a x.1)
    simp only [List.foldl_cons, List.mem_cons, forall_eq_or_imp]
    exact ⟨by omega, by omega, h2⟩

theorem foldl_max_mem (L : List (Nat × Entry)) (a : Nat) :
    L.foldl (fun m p => max m p.1) a = a ∨ ∃ p ∈ L, p.1 = L.foldl (fun m p => max m p.1) a := by
  induction L generalizing a with
  | nil => simp
  | cons x xs ih =>
    simp only [List.foldl_cons]
    rcases ih (max a x.1) with h | ⟨p, hp, he⟩
    · rw [h]
      by_cases hx : a ≤ x.1
      · exact Or.inr ⟨x, by simp, by omega⟩
      · exact Or.inl (by omega)
    · exact Or.inr ⟨p, by simp [hp], he⟩

theorem gapfree_argCount {L : List (Nat × Entry)} {k : Nat} (h : ∀ j, HasKey L j ↔ 1 ≤ j ∧ j < 1 + k) :
    argCount L = k := by
  unfold argCount
  obtain ⟨_, hge⟩ := foldl_max_ge L 0
  rcases foldl_max_mem L 0 with h0 | ⟨p, hp, he⟩
  · rw [h0]
    cases k with
    | zero => rfl
    | succ k =>
      obtain ⟨e, hk⟩ := (h (k + 1)).2 (by omega)
      have := hge _ hk
      simp only at this
      omega
  · have hp1 := (h p.1).1 ⟨p.2, hp⟩
    cases k with
    | zero => omega
    | succ k =>
      obtain ⟨e, hk⟩ := (h (k + 1)).2 (by omega)
      have := hge _ hk
      simp only at this
      omega

theorem gapFree_iff (L : List (Nat × Entry)) :
    GapFree L ↔ ∃ k, ∀ j, HasKey L j ↔ 1 ≤ j ∧ j < 1 + k := by
  unfold GapFree HasKey
  constructor
  · rintro ⟨k, hk⟩; exact ⟨k, fun j => by rw [hk j]; omega⟩
  · rintro ⟨k, hk⟩; exact ⟨k, fun j => by rw [hk j]; omega⟩

theorem mem_usesOf {L : List (Nat × Entry)} {j : Nat} {e : Entry} : e ∈ usesOf L j ↔ (j, e) ∈ L := by
  simp only [usesOf, List.mem_map, List.mem_filter, beq_iff_eq]
  constructor
  · rintro ⟨p, ⟨hp, rfl⟩, rfl⟩; exact hp
  · intro h; exact ⟨(j, e), ⟨h, rfl⟩, rfl⟩

theorem sameType_iff (g : List Entry) : sameType g = true ↔ ∀ e ∈ g, ∀ e' ∈ g, e.type = e'.type := by
  cases g with
  | nil => simp [sameType]
  | cons x xs =>
    simp only [sameType, List.all_eq_true, beq_iff_eq, List.mem_cons, forall_eq_or_imp]
    constructor
    · intro h
      refine ⟨⟨trivial, fun e' he' => (h e' he').symm⟩, fun e he => ⟨h e he, fun e' he' => (h e he).trans (h e' he').symm⟩⟩
    · intro h e he
      exact (h.2 e he).1

theorem allSameType_iff {L : List (Nat × Entry)} {k : Nat} (hk : ∀ j, HasKey L j ↔ 1 ≤ j ∧ j < 1 + k) :
    ((List.range k).map (fun t => usesOf L (1 + t))).all sameType = true ↔ OneType L := by
  simp only [List.all_eq_true, List.mem_map, List.mem_range, forall_exists_index, and_imp,
    forall_apply_eq_imp_iff₂, sameType_iff, mem_usesOf, OneType]
  constructor
  · intro h j e e' he he'
    have := (hk j).1 ⟨e, he⟩
    have hj : 1 + (j - 1) = j := by omega
    have := h (j - 1) (by omega) e (by rw [hj]; exact he) e' (by rw [hj]; exact he')
    exact this
  · intro h t _ e he e' he'
    exact h _ e e' he he'

end I18n.CFmt
