import I18n.Lemmas.FmtCheckBrace
/-!
# python-brace: strings rendered from plain fields `{name}` / `{index}` and brace-free text are accepted, with the expected arguments
-/
set_option linter.unusedSimpArgs false
namespace I18n.FmtCheck
open I18n I18n.FmtSig I18n.PyBrace I18n.BraceChars

/-! ## takeWhile / dropWhile across a stop character -/

theorem takeWhile_stop {α : Type} (p : α → Bool) : ∀ (t : List α) (x : α) (r : List α), (∀ c ∈ t, p c = true) → p x = false →
    (t ++ x :: r).takeWhile p = t ∧ (t ++ x :: r).dropWhile p = x :: r
  | [], x, r, _, hx => by simp [List.takeWhile, List.dropWhile, hx]
  | c :: t, x, r, ht, hx => by
    have hc : p c = true := ht c (by simp)
    obtain ⟨h1, h2⟩ := takeWhile_stop p t x r (fun d hd => ht d (by simp [hd])) hx
    simp [List.takeWhile, List.dropWhile, hc, h1, h2]

theorem close_not_word : isWord '}' = false ∧ isDigit '}' = false := by decide

/-! ## one plain field -/

/-- an identifier, or a decimal index within `SSIZE_MAX` -/
def FieldName (n : List Char) : Prop := IdentText n ∨ (DigitsText n ∧ digitsVal n ≤ liveCfg.ssizeMax)

theorem fieldName_head {n : List Char} (h : FieldName n) : ∃ c t, n = c :: t ∧ c ≠ '{' ∧ c ≠ '}' := by
  rcases h with ⟨c, t, rfl, hc, _⟩ | ⟨⟨hne, hd⟩, _⟩
  · refine ⟨c, t, rfl, ?_, ?_⟩ <;> (intro e; subst e; revert hc; decide)
  · cases n with
    | nil => exact absurd rfl hne
    | cons c t =>
      have hc := hd c (by simp)
      refine ⟨c, t, rfl, ?_, ?_⟩ <;> (intro e; subst e; revert hc; decide)

theorem scanNameHead_field {n : List Char} (h : FieldName n) (rest : List Char) :
    scanNameHead (n ++ '}' :: rest) = some (n, '}' :: rest) := by
  rcases h with ⟨c, t, rfl, hc, ht⟩ | ⟨⟨hne, hd⟩, _⟩
  · have hnd : isDigit c = false := by
      unfold isIdStart at hc
      cases hdg : isDigit c <;> simp_all
    obtain ⟨h1, h2⟩ := takeWhile_stop isWord t '}' rest ht close_not_word.1
    simp [scanNameHead, hnd, scanIdent, hc, h1, h2]
  · cases n with
    | nil => exact absurd rfl hne
    | cons c t =>
      have hc := hd c (by simp)
      obtain ⟨h1, h2⟩ := takeWhile_stop isDigit t '}' rest (fun d hd' => hd d (by simp [hd'])) close_not_word.2
      simp [scanNameHead, hc, h1, h2]

theorem scanNameTail_close (inBr : Char → Bool) (fuel : Nat) (rest : List Char) :
    scanNameTail inBr fuel ('}' :: rest) = ([], '}' :: rest) := by
  cases fuel <;> simp [scanNameTail]

/-- the scanner reads `{name}` as a field with that name and nothing else -/
theorem scanField_plain {n : List Char} (h : FieldName n) (rest : List Char) :
    scanField ('{' :: n ++ '}' :: rest) =
      some ({ text := '{' :: n ++ ['}'], name := some n, conversion := none, format := none, nested := [] }, rest) := by
  have e : '{' :: n ++ '}' :: rest = '{' :: (n ++ '}' :: rest) := by simp
  rw [e]
  simp [scanField, scanNameOpt, scanName, scanNameHead_field h, scanNameTail_close, scanConv, scanFmt]

/-! ## `Field.__init__` on a plain field -/

def plainField (n : List Char) : RawField :=
  { text := '{' :: n ++ ['}'], name := some n, conversion := none, format := none, nested := [] }

/-- the key `add_argument` files a named field under -/
def keyOfName (n : List Char) : Key := if isDecimalStr n then .idx (digitsVal n) else .name n

def plainArg : Arg := { nested := false, types := TySet.all }

/-- manual numbering has not been ruled out (no `{}` seen) -/
def NextOK (st : State) : Prop := st.next = some 0 ∨ st.next = none

theorem fieldInit_plain {n : List Char} (h : FieldName n) (st : State) (hn : NextOK st) :
    ∃ st', fieldInit liveCfg st (plainField n) = .ok (st', TySet.all) ∧ st'.map = mapAdd st.map (keyOfName n) plainArg ∧ NextOK st' := by
  have hown : ownTypes liveCfg (plainField n) = TySet.all := rfl
  unfold fieldInit
  simp only [hown, plainField]
  rcases h with hid | ⟨hdg, hle⟩
  · have hdec : isDecimalStr n = false := isDecimalStr_ident hid
    refine ⟨{ st with map := mapAdd st.map (.name n) plainArg }, ?_, ?_, hn⟩
    · simp [addArgument, hdec, liftAdd, plainArg, ownTypes]
    · simp [keyOfName, hdec]
  · have hdec : isDecimalStr n = true := isDecimalStr_digits hdg
    have hint : pyInt liveCfg n = .ok (digitsVal n) := pyInt_ok (by decide) n
    have hnot : ¬ digitsVal n > liveCfg.ssizeMax := by omega
    rcases hn with h0 | h0
    · refine ⟨{ next := none, map := mapAdd st.map (.idx (digitsVal n)) plainArg }, ?_, ?_, Or.inr rfl⟩
      · simp [addArgument, hdec, hint, hnot, h0, liftAdd, plainArg, ownTypes]
      · simp [keyOfName, hdec]
    · refine ⟨{ st with map := mapAdd st.map (.idx (digitsVal n)) plainArg }, ?_, ?_, Or.inr h0⟩
      · simp [addArgument, hdec, hint, hnot, h0, liftAdd, plainArg, ownTypes]
      · simp [keyOfName, hdec]

/-! ## literal text -/

/-- what may follow a literal run: the end, or a field -/
def FieldStart (cs : List Char) : Prop := cs = [] ∨ ∃ c r, cs = '{' :: c :: r ∧ c ≠ '{'

theorem scanLiteral_stop (fuel : Nat) (cs : List Char) (h : FieldStart cs) : scanLiteral fuel cs = ([], cs) := by
  cases fuel with
  | zero => rfl
  | succ f =>
    rcases h with rfl | ⟨c, r, rfl, hc⟩
    · rfl
    · unfold scanLiteral
      split
      · rename_i heq; cases heq
      · rename_i heq; simp only [List.cons.injEq, true_and] at heq; exact absurd heq.1 hc
      · rename_i heq; simp at heq
      · rfl
      · rename_i heq; simp at heq
      · rename_i c' r' h1 h2 h3 h4 heq
        simp only [List.cons.injEq] at heq
        exact absurd heq.1.symm (by first | exact h3 | exact h4 | exact h1 | exact h2)

theorem scanLiteral_text : ∀ (t : List Char) (fuel : Nat) (rest : List Char), (∀ c ∈ t, c ≠ '{' ∧ c ≠ '}') → FieldStart rest →
    t.length ≤ fuel → scanLiteral fuel (t ++ rest) = (t, rest)
  | [], fuel, rest, _, hr, _ => scanLiteral_stop fuel rest hr
  | c :: t, 0, _, _, _, hl => by simp at hl
  | c :: t, fuel + 1, rest, ht, hr, hl => by
    have hc := ht c (by simp)
    have ih := scanLiteral_text t fuel rest (fun d hd => ht d (by simp [hd])) hr (by simpa using hl)
    simp only [List.cons_append]
    unfold scanLiteral
    split
    · rename_i heq; simp at heq
    · rename_i heq; simp only [List.cons.injEq] at heq; exact absurd heq.1 hc.1
    · rename_i heq; simp only [List.cons.injEq] at heq; exact absurd heq.1 hc.2
    · rename_i heq; simp only [List.cons.injEq] at heq; exact absurd heq.1 hc.1
    · rename_i heq; simp only [List.cons.injEq] at heq; exact absurd heq.1 hc.2
    · rename_i c' r' _ _ _ _ heq
      simp only [List.cons.injEq] at heq
      obtain ⟨rfl, rfl⟩ := heq
      rw [ih]

/-! ## rendering -/

inductive PlainItem where
  | lit (t : List Char)
  | field (name : List Char)
  deriving DecidableEq, Repr

def PlainItem.text : PlainItem → List Char
  | .lit t => t
  | .field n => '{' :: n ++ ['}']

/-- the string: literal text as it stands, every field as `{name}` -/
def renderPlain (items : List PlainItem) : List Char := (items.map PlainItem.text).flatten

def fieldNames : List PlainItem → List (List Char)
  | [] => []
  | .lit _ :: rest => fieldNames rest
  | .field n :: rest => n :: fieldNames rest

/-- literal runs are non-empty, free of braces and maximal; field names are identifiers or decimal indices within `SSIZE_MAX` -/
def PlainClean : List PlainItem → Prop
  | [] => True
  | .lit t :: rest => t ≠ [] ∧ (∀ c ∈ t, c ≠ '{' ∧ c ≠ '}') ∧ (match rest with | .lit _ :: _ => False | _ => True) ∧ PlainClean rest
  | .field n :: rest => FieldName n ∧ PlainClean rest

theorem renderPlain_fieldStart : ∀ (items : List PlainItem), PlainClean items →
    (match items with | .lit _ :: _ => False | _ => True) → FieldStart (renderPlain items)
  | [], _, _ => Or.inl rfl
  | .lit _ :: _, _, h => by cases h
  | .field n :: rest, hc, _ => by
    obtain ⟨c, t, rfl, hc1, _⟩ := fieldName_head hc.1
    exact Or.inr ⟨c, t ++ '}' :: renderPlain rest, by simp [renderPlain, PlainItem.text], hc1⟩

def addAll (m : List (Key × List Arg)) (ns : List (List Char)) : List (Key × List Arg) :=
  ns.foldl (fun m n => mapAdd m (keyOfName n) plainArg) m

/-- **the loop over a rendered string**: it ends without error, having filed one plain argument per field, in order -/
theorem loop_plain : ∀ (items : List PlainItem) (fuel : Nat) (st : State) (acc : List PreItem), PlainClean items → NextOK st →
    (renderPlain items).length ≤ fuel →
    ∃ st' acc', loop liveCfg fuel (renderPlain items) st acc = .ok (st', acc') ∧ st'.map = addAll st.map (fieldNames items)
  | [], fuel, st, acc, _, _, _ => by
    refine ⟨st, acc.reverse, ?_, rfl⟩
    cases fuel <;> simp [renderPlain, loop]
  | .lit t :: rest, fuel, st, acc, hc, hn, hl => by
    obtain ⟨hne, hfree, hnext, hrest⟩ := hc
    have hr : renderPlain (.lit t :: rest) = t ++ renderPlain rest := by simp [renderPlain, PlainItem.text]
    rw [hr] at hl ⊢
    cases t with
    | nil => exact absurd rfl hne
    | cons c t' =>
      cases fuel with
      | zero => simp at hl
      | succ fuel =>
        have hfs := renderPlain_fieldStart rest hrest hnext
        have hscan := scanLiteral_text (c :: t') ((c :: t') ++ renderPlain rest).length (renderPlain rest) hfree hfs (by simp)
        obtain ⟨st', acc', h1, h2⟩ := loop_plain rest fuel st (.lit (c :: t') :: acc) hrest hn (by simp at hl ⊢; omega)
        refine ⟨st', acc', ?_, by simpa [fieldNames] using h2⟩
        simp only [List.cons_append] at hscan ⊢
        simp only [loop, hscan]
        exact h1
  | .field n :: rest, fuel, st, acc, hc, hn, hl => by
    obtain ⟨hname, hrest⟩ := hc
    have hr : renderPlain (.field n :: rest) = '{' :: n ++ '}' :: renderPlain rest := by simp [renderPlain, PlainItem.text]
    rw [hr] at hl ⊢
    cases fuel with
    | zero => simp at hl
    | succ fuel =>
      obtain ⟨c, t, hct, hc1, _⟩ := fieldName_head hname
      have hfs : FieldStart ('{' :: n ++ '}' :: renderPlain rest) :=
        Or.inr ⟨c, t ++ '}' :: renderPlain rest, by simp [hct], hc1⟩
      have hlit := scanLiteral_stop ('{' :: n ++ '}' :: renderPlain rest).length _ hfs
      obtain ⟨st1, hfi, hmap, hn1⟩ := fieldInit_plain hname st hn
      obtain ⟨st', acc', h1, h2⟩ := loop_plain rest fuel st1 (.field (keyOf st (some n)) :: acc) hrest hn1 (by simp at hl ⊢; omega)
      refine ⟨st', acc', ?_, ?_⟩
      · have e : '{' :: n ++ '}' :: renderPlain rest = '{' :: (n ++ '}' :: renderPlain rest) := by simp
        rw [e] at hlit ⊢
        simp only [loop, hlit]
        rw [← e, scanField_plain hname]
        simp only
        have : fieldInit liveCfg st { text := '{' :: n ++ ['}'], name := some n, conversion := none, format := none, nested := [] } =
            .ok (st1, TySet.all) := hfi
        rw [this]
        exact h1
      · rw [h2, hmap]; rfl

/-! ## the final intersection -/

/-- every use filed is a plain one -/
def AllPlain (m : List (Key × List Arg)) : Prop := ∀ p ∈ m, p.2 ≠ [] ∧ ∀ a ∈ p.2, a = plainArg

theorem mapAdd_allPlain : ∀ (m : List (Key × List Arg)) (k : Key), AllPlain m → AllPlain (mapAdd m k plainArg)
  | [], k, _ => by
    intro p hp
    simp only [mapAdd, List.mem_singleton] at hp
    subst hp
    simp
  | (k', as) :: rest, k, h => by
    simp only [mapAdd]
    split
    · intro p hp
      rcases List.mem_cons.1 hp with rfl | hp
      · have := h (k', as) (by simp)
        refine ⟨by simp, fun a ha => ?_⟩
        rcases List.mem_append.1 ha with ha | ha
        · exact this.2 a ha
        · simpa using ha
      · exact h p (by simp [hp])
    · intro p hp
      rcases List.mem_cons.1 hp with rfl | hp
      · exact h _ (by simp)
      · exact mapAdd_allPlain rest k (fun q hq => h q (by simp [hq])) p hp

theorem addAll_allPlain : ∀ (ns : List (List Char)) (m : List (Key × List Arg)), AllPlain m → AllPlain (addAll m ns)
  | [], m, h => h
  | n :: ns, m, h => by
    simp only [addAll, List.foldl_cons]
    exact addAll_allPlain ns _ (mapAdd_allPlain m _ h)

theorem commonTypes_plain : ∀ (as : List Arg), (∀ a ∈ as, a = plainArg) → commonTypes as = TySet.all := by
  intro as h
  unfold commonTypes
  have : ∀ (l : List Arg), (∀ a ∈ l, a = plainArg) → l.foldl (fun acc a => acc.inter a.types) TySet.all = TySet.all := by
    intro l
    induction l with
    | nil => intro _; rfl
    | cons a l ih =>
      intro hl
      have ha := hl a (by simp)
      subst ha
      simp only [List.foldl_cons]
      exact ih (fun b hb => hl b (by simp [hb]))
  exact this as h

theorem unify_plain (s : List Char) : ∀ (m : List (Key × List Arg)), AllPlain m → unify s m = .ok m
  | [], _ => rfl
  | (k, as) :: rest, h => by
    have hk := h (k, as) (by simp)
    have hc := commonTypes_plain as hk.2
    simp only [unify, hc]
    rw [unify_plain s rest (fun p hp => h p (by simp [hp]))]
    have hmap : as.map (fun a => { a with types := TySet.all }) = as := by
      have : ∀ a ∈ as, ({ a with types := TySet.all } : Arg) = a := by
        intro a ha; rw [hk.2 a ha]; rfl
      exact (List.map_congr_left this).trans (List.map_id as)
    have he : TySet.all.isEmpty = false := rfl
    simp only [he, Bool.false_eq_true, ↓reduceIte, hmap]

theorem addAll_keys : ∀ (ns : List (List Char)) (m : List (Key × List Arg)) (k : Key),
    k ∈ (addAll m ns).map (·.1) ↔ k ∈ m.map (·.1) ∨ k ∈ ns.map keyOfName
  | [], m, k => by simp [addAll]
  | n :: ns, m, k => by
    simp only [addAll, List.foldl_cons]
    have ih := addAll_keys ns (mapAdd m (keyOfName n) plainArg) k
    simp only [addAll] at ih
    rw [ih, mapAdd_keys]
    split
    · rename_i hin
      simp only [List.map_cons, List.mem_cons]
      constructor
      · rintro (h | h)
        · exact Or.inl h
        · exact Or.inr (Or.inr h)
      · rintro (h | h | h)
        · exact Or.inl h
        · exact Or.inl (h ▸ hin)
        · exact Or.inr h
    · simp only [List.mem_append, List.mem_singleton, List.map_cons, List.mem_cons, List.not_mem_nil, or_false]
      constructor
      · rintro ((h | h) | h)
        · exact Or.inl h
        · exact Or.inr (Or.inl h)
        · exact Or.inr (Or.inr h)
      · rintro (h | h | h)
        · exact Or.inl (Or.inl h)
        · exact Or.inl (Or.inr h)
        · exact Or.inr h

/-- **A rendered string is accepted, and its arguments are exactly the keys of its fields, each with the full type set.** -/
theorem parse_renderPlain {items : List PlainItem} (hc : PlainClean items) :
    ∃ r, PyBrace.parse (renderPlain items) = .ok r ∧
      ∀ k c, HasArg r k c ↔ (c = TySet.all ∧ k ∈ (fieldNames items).map keyOfName) := by
  obtain ⟨st', acc', hl, hmap⟩ := loop_plain items (renderPlain items).length { next := some 0, map := [] } [] hc (Or.inl rfl)
    (Nat.le_refl _)
  have hall : AllPlain st'.map := by
    rw [hmap]; exact addAll_allPlain _ [] (by intro p hp; cases hp)
  have hu := unify_plain (renderPlain items) st'.map hall
  refine ⟨_, by simp only [PyBrace.parse, PyBrace.parseWith, hl, hu]; rfl, fun k c => ?_⟩
  simp only [HasArg]
  constructor
  · rintro ⟨as, hmem, hne, hty⟩
    have hp := hall (k, as) hmem
    refine ⟨?_, ?_⟩
    · cases as with
      | nil => exact absurd rfl hne
      | cons a rest => rw [← hty a (by simp), hp.2 a (by simp)]; rfl
    · have : k ∈ st'.map.map (·.1) := List.mem_map.2 ⟨(k, as), hmem, rfl⟩
      rw [hmap, addAll_keys] at this
      simpa using this
  · rintro ⟨rfl, hk⟩
    have : k ∈ st'.map.map (·.1) := by rw [hmap, addAll_keys]; exact Or.inr hk
    obtain ⟨p, hp, rfl⟩ := List.mem_map.1 this
    have hpl := hall p hp
    exact ⟨p.2, hp, hpl.1, fun a ha => by rw [hpl.2 a ha]; rfl⟩

end I18n.FmtCheck
