import I18n.Spec.HeaderRules
import I18n.Lemmas.DateSort
/-
C15 lemmas, part 1: the `defaultdict(list)` built from the field lines answers look-ups with the values of the field
lines of that name in order; `if len(vs) > 1: vs = sorted(set(vs))` keeps exactly the values.
-/
namespace I18n.Hdr
open I18n.Spec.HeaderRules I18n.Date

theorem Meta.get_add (k v k' : Str) (m : Meta) :
    (Meta.add k v m).get k' = if k' = k then m.get k' ++ [v] else m.get k' := by
  induction m with
  | nil =>
    by_cases h : k' = k
    · subst h; simp [Meta.add, Meta.get, List.find?]
    · have : ¬ k = k' := fun e => h e.symm
      simp [Meta.add, Meta.get, List.find?, h, this]
  | cons p rest ih =>
    obtain ⟨k0, vs⟩ := p
    unfold Meta.add
    by_cases h0 : k0 = k
    · subst h0
      by_cases h : k' = k0
      · subst h; simp [Meta.get, List.find?]
      · have : ¬ k0 = k' := fun e => h e.symm
        simp [Meta.get, List.find?, h, this]
    · simp only [h0, if_false]
      by_cases h1 : k0 = k'
      · subst h1
        have : ¬ k0 = k := h0
        simp [Meta.get, List.find?, this]
      · have e1 : ∀ r : Meta, Meta.get ((k0, vs) :: r) k' = Meta.get r k' := by
          intro r; simp [Meta.get, List.find?, h1]
        rw [e1, e1, ih]

theorem Meta.keys_add (k v : Str) (m : Meta) (k' : Str) :
    k' ∈ (Meta.add k v m).map (·.1) ↔ k' = k ∨ k' ∈ m.map (·.1) := by
  induction m with
  | nil => simp [Meta.add]
  | cons p rest ih =>
    obtain ⟨k0, vs⟩ := p
    unfold Meta.add
    by_cases h0 : k0 = k
    · subst h0; simp
    · simp only [h0, if_false, List.map_cons, List.mem_cons, ih]
      constructor
      · rintro (h | h | h) <;> simp [h]
      · rintro (h | h | h) <;> simp [h]

/-- the keys of the dictionary stay pairwise distinct -/
theorem Meta.nodup_add (k v : Str) (m : Meta) (h : (m.map (·.1)).Nodup) : ((Meta.add k v m).map (·.1)).Nodup := by
  induction m with
  | nil => simp [Meta.add]
  | cons p rest ih =>
    obtain ⟨k0, vs⟩ := p
    unfold Meta.add
    by_cases h0 : k0 = k
    · subst h0; simpa using h
    · simp only [h0, if_false, List.map_cons, List.nodup_cons] at h ⊢
      refine ⟨?_, ih h.2⟩
      intro hm
      rcases (Meta.keys_add k v rest k0).1 hm with e | e
      · exact h0 e
      · exact h.1 e

def fieldVals (fs : List (Str × Str)) (k : Str) : List Str := (fs.filter fun f => f.1 = k).map (·.2)

theorem buildMeta_get (ls : List Line) (m : Meta) (k : Str) :
    (buildMeta ls m).get k = m.get k ++ fieldVals (fieldLines ls) k := by
  induction ls generalizing m with
  | nil => simp [buildMeta, fieldLines, fieldVals]
  | cons l rest ih =>
    cases l with
    | field k0 v =>
      simp only [buildMeta, ih, Meta.get_add]
      by_cases h : k = k0
      · subst h; simp [fieldLines, fieldVals]
      · have : ¬ k0 = k := fun e => h e.symm
        simp [fieldLines, fieldVals, List.filterMap_cons, h, this]
    | stray s => simp only [buildMeta, ih]; simp [fieldLines, fieldVals]

theorem buildMeta_keys (ls : List Line) (m : Meta) (k : Str) :
    k ∈ (buildMeta ls m).map (·.1) ↔ k ∈ m.map (·.1) ∨ k ∈ (fieldLines ls).map (·.1) := by
  induction ls generalizing m with
  | nil => simp [buildMeta, fieldLines]
  | cons l rest ih =>
    cases l with
    | field k0 v =>
      simp only [buildMeta, ih, Meta.keys_add]
      simp [fieldLines]
      constructor
      · rintro ((h | h) | h) <;> simp [h]
      · rintro (h | h | h) <;> simp [h]
    | stray s => simp only [buildMeta, ih]; simp [fieldLines]

theorem buildMeta_nodup (ls : List Line) (m : Meta) (h : (m.map (·.1)).Nodup) : ((buildMeta ls m).map (·.1)).Nodup := by
  induction ls generalizing m with
  | nil => simpa [buildMeta] using h
  | cons l rest ih =>
    cases l with
    | field k0 v => exact ih _ (Meta.nodup_add k0 v m h)
    | stray s => exact ih _ h

/-- `metadata[k]` = the values of the field lines named `k`, in order -/
theorem meta_getS (ls : List Line) (k : String) :
    (buildMeta ls []).getS k = vals (fieldLines ls) k := by
  unfold Meta.getS
  rw [buildMeta_get]
  simp [Meta.get, fieldVals, vals]

theorem meta_get (ls : List Line) (k : Str) :
    (buildMeta ls []).get k = fieldVals (fieldLines ls) k := by
  rw [buildMeta_get]
  simp [Meta.get]

theorem meta_has (ls : List Line) (k : Str) :
    (buildMeta ls []).has k = true ↔ k ∈ (fieldLines ls).map (·.1) := by
  have := buildMeta_keys ls [] k
  simp only [List.map_nil, List.not_mem_nil, false_or] at this
  rw [← this]
  simp [Meta.has, List.any_eq_true]

theorem meta_keys (ls : List Line) (k : Str) :
    k ∈ sortedSet ((buildMeta ls []).map (·.1)) ↔ k ∈ (fieldLines ls).map (·.1) := by
  rw [mem_sortedSet]
  simpa using buildMeta_keys ls [] k

theorem mem_dedup (v : Str) (vs : List Str) : v ∈ dedup vs ↔ v ∈ vs := by
  unfold dedup; split
  · exact mem_sortedSet v vs
  · exact Iff.rfl

theorem dedup_length_zero (vs : List Str) : (dedup vs).length = 0 ↔ vs.length = 0 := by
  constructor
  · intro h
    have : dedup vs = [] := List.length_eq_zero_iff.1 h
    cases vs with
    | nil => rfl
    | cons a r => have := (mem_dedup a (a :: r)).2 (by simp); simp_all
  · intro h
    have : vs = [] := List.length_eq_zero_iff.1 h
    subst this; simp [dedup]

end I18n.Hdr
