import I18n.Lemmas.PyBraceMarkup
/-
python-brace: the tool's reading of a format specification (`scanSpec`, `_format_spec_re`) against CPython's
(`Spec.StrFormat.parseSyntax`, `parse_internal_render_format_spec`): on a specification the tool accepts and types, CPython
reads the same fields.
-/
namespace I18n.PyBrace
open I18n.BraceChars I18n.Spec.StrFormat
open I18n.Generated.PyBraceTables (digitRanges decimalRanges)

/-! ### numerals -/

theorem toDecimal_go (c : Char) : ∀ rs : List (Nat × Nat),
    toDecimal.go c rs = if I18n.Spec.PerlBraceRef.inRanges rs c.toNat then some (digitVal.go c rs) else none := by
  intro rs
  induction rs with
  | nil => simp [toDecimal.go, I18n.Spec.PerlBraceRef.inRanges]
  | cons r rs ih =>
    obtain ⟨a, b⟩ := r
    simp only [toDecimal.go, digitVal.go, I18n.Spec.PerlBraceRef.inRanges, List.any_cons] at ih ⊢
    by_cases h : (decide (a ≤ c.toNat) && decide (c.toNat ≤ b)) = true
    · simp [h]
    · simp only [h, Bool.false_eq_true, if_false, Bool.false_or]
      exact ih

theorem toDecimal_eq (c : Char) : toDecimal c = if isDigit c then some (digitVal c) else none := by
  have h := toDecimal_go c digitRanges
  have h2 : isDigit c = I18n.Spec.PerlBraceRef.inRanges digitRanges c.toNat := by
    simp only [isDigit, inSorted_eq _ 0 digitRanges_sorted]
  simp only [toDecimal, digitVal, decimal_eq_digit, h, h2]

theorem digitVal_lt (c : Char) : digitVal c < 10 := by
  have : ∀ rs, digitVal.go c rs < 10 := by
    intro rs
    induction rs with
    | nil => simp [digitVal.go]
    | cons r rs ih =>
      obtain ⟨a, b⟩ := r
      simp only [digitVal.go]
      split
      · omega
      · exact ih
  exact this _

/-- the value of a digit run read from an accumulator -/
def valFrom (acc : Nat) (ds : List Char) : Nat := ds.foldl (fun a c => a * 10 + digitVal c) acc

theorem valFrom_ge (ds : List Char) : ∀ acc, acc ≤ valFrom acc ds := by
  induction ds with
  | nil => intro acc; simp [valFrom]
  | cons c ds ih =>
    intro acc
    have := ih (acc * 10 + digitVal c)
    simp only [valFrom, List.foldl_cons] at this ⊢
    omega

theorem digitsVal_eq (ds : List Char) : digitsVal ds = valFrom 0 ds := rfl

/-- `get_integer` on a maximal run of decimal digits that does not overflow -/
theorem accumulate_run : ∀ (run rest : List Char) (n acc : Nat), (∀ c ∈ run, isDigit c = true) →
    (∀ d r, rest = d :: r → isDigit d = false) → valFrom acc run ≤ PY_SSIZE_T_MAX →
    accumulate (run ++ rest) n acc = some (n + run.length, valFrom acc run, rest) := by
  intro run
  induction run with
  | nil =>
    intro rest n acc _ hr _
    cases rest with
    | nil => simp [accumulate, valFrom]
    | cons d r => simp [accumulate, toDecimal_eq, hr d r rfl, valFrom]
  | cons c run ih =>
    intro rest n acc hall hr hmax
    have hc : isDigit c = true := hall c (by simp)
    have hv : valFrom acc (c :: run) = valFrom (acc * 10 + digitVal c) run := rfl
    have hge := valFrom_ge run (acc * 10 + digitVal c)
    have hlt := digitVal_lt c
    have hno : ¬ acc > (PY_SSIZE_T_MAX - digitVal c) / 10 := by
      rw [hv] at hmax
      have : acc * 10 + digitVal c ≤ PY_SSIZE_T_MAX := by omega
      omega
    simp only [List.cons_append, accumulate, toDecimal_eq, hc, if_true, hno, if_false]
    rw [ih rest (n + 1) _ (fun d hd => hall d (by simp [hd])) hr (by rw [← hv]; exact hmax)]
    simp [hv]; omega

/-! ### the type characters the tool knows -/

def KnownType (t : Char) : Prop := t ∈ "sbcdoxXeEfFgG%n".toList

instance (t : Char) : Decidable (KnownType t) := by unfold KnownType; infer_instance

theorem knownType_cases {t : Char} (h : KnownType t) :
    t = 's' ∨ t = 'b' ∨ t = 'c' ∨ t = 'd' ∨ t = 'o' ∨ t = 'x' ∨ t = 'X' ∨ t = 'e' ∨ t = 'E' ∨ t = 'f' ∨ t = 'F' ∨ t = 'g' ∨ t = 'G' ∨
      t = '%' ∨ t = 'n' := by
  simpa [KnownType] using h

theorem knownType_facts {t : Char} (h : KnownType t) : isDigit t = false ∧ t ≠ 'z' ∧ t ≠ '_' ∧ t ≠ '\x00' := by
  rcases knownType_cases h with rfl | rfl | rfl | rfl | rfl | rfl | rfl | rfl | rfl | rfl | rfl | rfl | rfl | rfl | rfl <;> decide

theorem tpType_known {f : Spec} {tp : TySet} (h : tpType f = .ok tp) : ∀ t, f.type = some t → KnownType t := by
  intro t ht
  simp only [tpType, ht] at h
  by_cases h1 : (t == 's') = true
  · simp only [beq_iff_eq] at h1; subst h1; decide
  · by_cases h2 : "bcdoxX".toList.contains t = true
    · simp at h2
      rcases h2 with rfl | rfl | rfl | rfl | rfl | rfl <;> decide
    · by_cases h3 : "eEfFgG%".toList.contains t = true
      · simp at h3
        rcases h3 with rfl | rfl | rfl | rfl | rfl | rfl | rfl <;> decide
      · by_cases h4 : (t == 'n') = true
        · simp only [beq_iff_eq] at h4; subst h4; decide
        · simp only [h1, h2, h3, h4, Bool.false_eq_true, if_false] at h; cases h

/-! ### the stages of the tool's reading, and what the rest of a specification can start with -/

theorem scanSpec_chain {cs : List Char} {f : Spec} (h : scanSpec cs = some f) :
    ∃ r1 r2 r3 r4 r5 r6 r7, sFillAlign cs = (f.fill, f.align, r1) ∧ sSign r1 = (f.sign, r2) ∧ sLit '#' r2 = (f.alt, r3) ∧
      sLit '0' r3 = (f.zero, r4) ∧ sWidth r4 = (f.width, r5) ∧ sLit ',' r5 = (f.comma, r6) ∧ sPrec r6 = (f.precision, r7) ∧
      sType r7 = (f.type, []) := by
  simp only [scanSpec] at h
  cases h1 : sFillAlign cs with | mk fill x1 =>
  obtain ⟨align, r1⟩ := x1
  cases h2 : sSign r1 with | mk sign r2 =>
  cases h3 : sLit '#' r2 with | mk alt r3 =>
  cases h4 : sLit '0' r3 with | mk zero r4 =>
  cases h5 : sWidth r4 with | mk width r5 =>
  cases h6 : sLit ',' r5 with | mk comma r6 =>
  cases h7 : sPrec r6 with | mk prec r7 =>
  cases h8 : sType r7 with | mk type r8 =>
  simp only [h1, h2, h3, h4, h5, h6, h7, h8] at h
  cases r8 with
  | nil =>
    simp only [Option.some.injEq] at h
    subst h
    exact ⟨r1, r2, r3, r4, r5, r6, r7, rfl, h2, h3, h4, h5, h6, h7, h8⟩
  | cons c r => simp at h

theorem sType_nil {r7 : List Char} {type : Option Char} (h : sType r7 = (type, [])) :
    (r7 = [] ∧ type = none) ∨ (∃ t, r7 = [t] ∧ type = some t) := by
  cases r7 with
  | nil => simp [sType] at h; exact Or.inl ⟨rfl, h.symm⟩
  | cons c r =>
    simp only [sType] at h
    split at h
    · simp only [Prod.mk.injEq] at h
      obtain ⟨rfl, rfl⟩ := h
      exact Or.inr ⟨c, rfl, rfl⟩
    · simp at h

/-- a specification whose type is known cannot continue, from the comma stage on, with a decimal digit … -/
theorem tail_no_digit {r5 r6 r7 : List Char} {comma : Bool} {prec : Option (List Char)} {type : Option Char}
    (h6 : sLit ',' r5 = (comma, r6)) (h7 : sPrec r6 = (prec, r7)) (h8 : sType r7 = (type, []))
    (hk : ∀ t, type = some t → KnownType t) : ∀ d r, r5 = d :: r → isDigit d = false := by
  intro d r hr
  subst hr
  cases hd : isDigit d with
  | false => rfl
  | true =>
    exfalso
    have hc : d ≠ ',' := by rintro rfl; revert hd; decide
    have hdot : d ≠ '.' := digit_ne_dot hd
    simp only [sLit, hc, if_false, Prod.mk.injEq] at h6
    obtain ⟨_, rfl⟩ := h6
    have : sPrec (d :: r) = (none, d :: r) := by
      unfold sPrec
      split
      · rename_i heq; simp only [List.cons.injEq] at heq; exact absurd heq.1 hdot
      · rfl
    rw [this] at h7
    simp only [Prod.mk.injEq] at h7
    obtain ⟨_, rfl⟩ := h7
    simp only [sType] at h8
    split at h8
    · simp only [Prod.mk.injEq] at h8
      have := (knownType_facts (hk d h8.1.symm)).1
      rw [hd] at this; cases this
    · simp at h8

/-- … nor, from the precision stage on, with `_` -/
theorem tail_no_underscore {r6 r7 : List Char} {prec : Option (List Char)} {type : Option Char}
    (h7 : sPrec r6 = (prec, r7)) (h8 : sType r7 = (type, [])) (hk : ∀ t, type = some t → KnownType t) :
    ∀ r, r6 ≠ '_' :: r := by
  rintro r rfl
  have : sPrec ('_' :: r) = (none, '_' :: r) := by
    unfold sPrec
    split
    · rename_i heq; simp at heq
    · rfl
  rw [this] at h7
  simp only [Prod.mk.injEq] at h7
  obtain ⟨_, rfl⟩ := h7
  have hw : isWord '_' = true := by decide
  simp only [sType, hw, Bool.true_or, if_true, Prod.mk.injEq] at h8
  exact (knownType_facts (hk '_' h8.1.symm)).2.2.1 rfl

/-- … nor, from the `#` stage on, with `z` -/
theorem tail_no_z {r2 r3 r4 r5 r6 r7 : List Char} {alt zero comma : Bool} {width prec : Option (List Char)} {type : Option Char}
    (h3 : sLit '#' r2 = (alt, r3)) (h4 : sLit '0' r3 = (zero, r4)) (h5 : sWidth r4 = (width, r5))
    (h6 : sLit ',' r5 = (comma, r6)) (h7 : sPrec r6 = (prec, r7)) (h8 : sType r7 = (type, []))
    (hk : ∀ t, type = some t → KnownType t) : ∀ r, r2 ≠ 'z' :: r := by
  rintro r rfl
  simp only [sLit, show ¬ ('z' : Char) = '#' by decide, if_false, Prod.mk.injEq] at h3
  obtain ⟨_, rfl⟩ := h3
  simp only [sLit, show ¬ ('z' : Char) = '0' by decide, if_false, Prod.mk.injEq] at h4
  obtain ⟨_, rfl⟩ := h4
  have hz : isAsciiDigit 'z' = false := by decide
  simp only [sWidth, List.takeWhile_cons, hz, Bool.false_eq_true, if_false, Prod.mk.injEq] at h5
  obtain ⟨_, rfl⟩ := h5
  simp only [sLit, show ¬ ('z' : Char) = ',' by decide, if_false, Prod.mk.injEq] at h6
  obtain ⟨_, rfl⟩ := h6
  have : sPrec ('z' :: r) = (none, 'z' :: r) := by
    unfold sPrec
    split
    · rename_i heq; simp at heq
    · rfl
  rw [this] at h7
  simp only [Prod.mk.injEq] at h7
  obtain ⟨_, rfl⟩ := h7
  have hw : isWord 'z' = true := by decide
  simp only [sType, hw, Bool.true_or, if_true, Prod.mk.injEq] at h8
  exact (knownType_facts (hk 'z' h8.1.symm)).2.1 rfl

/-! ### stage by stage: CPython reads what the tool read -/

theorem decide_eq_beq (c d : Char) : decide (c = d) = (c == d) := by
  by_cases h : c = d <;> simp [h]

theorem isAlignTok_eq (c : Char) : isAlignTok c = isAlign c := by
  simp only [isAlignTok, isAlign, decide_eq_beq]

theorem isSignTok_eq (c : Char) : isSignTok c = isSign c := by
  simp only [isSignTok, isSign, decide_eq_beq]

theorem pFillAlign_of (da : Char) {cs r1 : List Char} {fill align : Option Char} (hcs : '}' ∉ cs)
    (h : sFillAlign cs = (fill, align, r1)) :
    pFillAlign da cs = (fill.getD ' ', align.getD da, fill.isSome, align.isSome, r1) := by
  cases cs with
  | nil => simp [sFillAlign] at h; obtain ⟨rfl, rfl, rfl⟩ := h; simp [pFillAlign]
  | cons f cs =>
    have hf : f ≠ '}' := fun h' => hcs (by simp [h'])
    cases cs with
    | nil =>
      simp only [sFillAlign] at h
      split at h <;> rename_i ha <;> simp only [Prod.mk.injEq] at h <;> obtain ⟨rfl, rfl, rfl⟩ := h <;>
        simp [pFillAlign, isAlignTok_eq, ha]
    | cons a r =>
      simp only [sFillAlign] at h
      split at h
      · rename_i ha
        simp only [Bool.and_eq_true, ne_eq, decide_eq_true_eq] at ha
        simp only [Prod.mk.injEq] at h; obtain ⟨rfl, rfl, rfl⟩ := h
        simp [pFillAlign, isAlignTok_eq, ha.2]
      · rename_i ha
        have ha' : isAlign a = false := by
          simp only [Bool.and_eq_true, not_and, Bool.not_eq_true] at ha
          exact ha (by simpa using hf)
        split at h <;> rename_i hf' <;> simp only [Prod.mk.injEq] at h <;> obtain ⟨rfl, rfl, rfl⟩ := h <;>
          simp [pFillAlign, isAlignTok_eq, ha', hf']

theorem pSign_of {r1 r2 : List Char} {sign : Option Char} (h : sSign r1 = (sign, r2)) : pSign r1 = (sign, r2) := by
  cases r1 with
  | nil => simpa [sSign, pSign] using h
  | cons c r => simpa [sSign, pSign, isSignTok_eq] using h

theorem pLit_of (x : Char) (r : List Char) : pLit x r = sLit x r := by
  cases r <;> simp [pLit, sLit]

theorem pLit_ne (x : Char) {r : List Char} (h : ∀ r', r ≠ x :: r') : pLit x r = (false, r) := by
  cases r with
  | nil => rfl
  | cons c r' =>
    have : c ≠ x := by rintro rfl; exact h r' rfl
    simp [pLit, this]

theorem sLit_split {x : Char} {r r' : List Char} {b : Bool} (h : sLit x r = (b, r')) : r = (if b then [x] else []) ++ r' := by
  cases r with
  | nil => simp [sLit] at h; obtain ⟨rfl, rfl⟩ := h; simp
  | cons c r0 =>
    simp only [sLit] at h
    split at h
    · rename_i hc; simp only [Prod.mk.injEq] at h; obtain ⟨rfl, rfl⟩ := h; simp [hc]
    · simp only [Prod.mk.injEq] at h; obtain ⟨rfl, rfl⟩ := h; simp

theorem asciiDigit_isDigit {c : Char} (h : isAsciiDigit c = true) : isDigit c = true := by
  simp only [isAsciiDigit, Bool.and_eq_true, decide_eq_true_eq] at h
  have h1 : 0x30 ≤ c.toNat := h.1
  have h2 : c.toNat ≤ 0x39 := h.2
  have hd : digitRanges = (0x30, 0x39) :: digitRanges.tail := by decide
  rw [isDigit, hd, inSorted]
  have : ¬ c.toNat < 0x30 := by omega
  simp [this, h2]

theorem sWidth_split {r4 r5 : List Char} {w : Option (List Char)} (h : sWidth r4 = (w, r5)) :
    r4 = w.getD [] ++ r5 ∧ (∀ c ∈ w.getD [], isDigit c = true) := by
  simp only [sWidth] at h
  split at h
  · simp only [Prod.mk.injEq] at h; obtain ⟨rfl, rfl⟩ := h; simp
  · rename_i hne
    simp only [Prod.mk.injEq] at h; obtain ⟨rfl, rfl⟩ := h
    exact ⟨by simp, fun c hc => asciiDigit_isDigit (I18n.PerlBrace.takeWhile_all isAsciiDigit r4 c hc)⟩

/-- the digits CPython reads as the width: with an explicit fill character the `0` flag is part of the number -/
def wdigits (f : Spec) : List Char := (if f.fill.isSome && f.zero then ['0'] else []) ++ f.width.getD []

/-- CPython's record for a specification the tool read as `f` -/
def rawOf (da : Char) (f : Spec) : RawSpec :=
  { fill := if f.zero && !f.fill.isSome then '0' else f.fill.getD ' ',
    align := if (f.zero && !f.fill.isSome) && !f.align.isSome && da = '>' then '=' else f.align.getD da,
    alternate := f.alt, noNeg0 := false, sign := f.sign,
    width := if (wdigits f).length = 0 then none else some (digitsVal (wdigits f)),
    thousands := if f.comma then .comma else .none,
    precision := f.precision.map digitsVal,
    type := f.type }

theorem pPrec_of {r6 r7 : List Char} {prec : Option (List Char)} {type : Option Char}
    (h7 : sPrec r6 = (prec, r7)) (h8 : sType r7 = (type, []))
    (hb : ∀ p, prec = some p → digitsVal p ≤ PY_SSIZE_T_MAX) :
    pPrec r6 = .ok (prec.map digitsVal, r7) := by
  unfold sPrec at h7
  split at h7
  · rename_i r
    split at h7
    · rename_i hnil
      simp only [Prod.mk.injEq] at h7
      obtain ⟨rfl, rfl⟩ := h7
      have : isWord '.' = false := by decide
      simp [sType, this] at h8
    · rename_i hne
      simp only [Prod.mk.injEq] at h7
      obtain ⟨rfl, rfl⟩ := h7
      have hsplit := takeWhile_dropWhile isDigit r
      have hrun := accumulate_run (r.takeWhile isDigit) (r.dropWhile isDigit) 0 0
        (I18n.PerlBrace.takeWhile_all isDigit r) (dropWhile_head isDigit r) (hb _ rfl)
      rw [← hsplit] at hrun
      have hlen : (r.takeWhile isDigit).length ≠ 0 := by
        intro h0; exact hne (List.length_eq_zero_iff.mp h0)
      simp [pPrec, hrun, hlen, digitsVal_eq]
  · rename_i hno
    simp only [Prod.mk.injEq] at h7
    obtain ⟨rfl, rfl⟩ := h7
    unfold pPrec
    split
    · rename_i r; exact absurd rfl (hno r)
    · rfl

/-- CPython's scanner reads a specification the tool accepted (and typed) as the tool read it -/
theorem parseSyntax_of_scan (da : Char) {sp : List Char} {f : Spec} (hsp : '}' ∉ sp) (h : scanSpec sp = some f)
    (hk : ∀ t, f.type = some t → KnownType t) (hw : digitsVal (wdigits f) ≤ PY_SSIZE_T_MAX)
    (hp : ∀ p, f.precision = some p → digitsVal p ≤ PY_SSIZE_T_MAX) :
    parseSyntax da sp = .ok (rawOf da f) := by
  obtain ⟨r1, r2, r3, r4, r5, r6, r7, h1, h2, h3, h4, h5, h6, h7, h8⟩ := scanSpec_chain h
  have e1 := pFillAlign_of da hsp h1
  have e2 := pSign_of h2
  have e3 : pLit 'z' r2 = (false, r2) := pLit_ne 'z' (tail_no_z h3 h4 h5 h6 h7 h8 hk)
  have e4 : pLit '#' r2 = (f.alt, r3) := by rw [pLit_of]; exact h3
  have e5 : pLit '0' r3 = (f.zero, r4) := by rw [pLit_of]; exact h4
  -- the width
  have hs4 := sLit_split h4
  obtain ⟨hs5, hwd⟩ := sWidth_split h5
  have hnd := tail_no_digit h6 h7 h8 hk
  have e6 : accumulate (if f.fill.isSome then r3 else r4) 0 0 = some ((wdigits f).length, digitsVal (wdigits f), r5) := by
    have hall : ∀ c ∈ wdigits f, isDigit c = true := by
      intro c hc
      simp only [wdigits, List.mem_append] at hc
      rcases hc with hc | hc
      · split at hc
        · simp only [List.mem_singleton] at hc; subst hc; decide
        · simp at hc
      · exact hwd c hc
    have hrun := accumulate_run (wdigits f) r5 0 0 hall hnd hw
    have hin : (if f.fill.isSome then r3 else r4) = wdigits f ++ r5 := by
      cases hfs : f.fill.isSome <;> cases hz : f.zero <;> simp [wdigits, hfs, hz, hs4, hs5]
    rw [hin, hrun]; simp [digitsVal_eq]
  -- the thousands separator
  have e7 : pThousands r5 = .ok (if f.comma then Thousands.comma else Thousands.none, r6) := by
    have hu : pLit '_' r6 = (false, r6) := pLit_ne '_' (tail_no_underscore h7 h8 hk)
    have hc : pLit ',' r5 = (f.comma, r6) := by rw [pLit_of]; exact h6
    simp only [pThousands, hc, hu]
    cases f.comma <;> simp
  have e8 := pPrec_of h7 h8 hp
  simp only [parseSyntax, e1, e2, e3, e4]
  have e5' : (if f.fill.isSome = true then (false, r3) else pLit '0' r3 : Bool × List Char)
      = (f.zero && !f.fill.isSome, if f.fill.isSome then r3 else r4) := by
    cases hfs : f.fill.isSome <;> simp [e5]
  rw [e5']
  simp only [e6, e7, e8]
  rcases sType_nil h8 with ⟨rfl, ht⟩ | ⟨t, rfl, ht⟩ <;> simp [rawOf, ht]

end I18n.PyBrace
