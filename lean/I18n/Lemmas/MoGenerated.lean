import I18n.Model.Mo
import I18n.Generated.MoParser
import I18n.Lemmas.MoBytes
import I18n.Lemmas.MoParse
/-!
# The definitions regenerated from `lib/moparser.py` equal the hand-written model

`I18n.Generated.MoParser` is rewritten by `tools/translate/mo2lean.py` from the current source on every run.
This file proves, for every byte string, that it computes the same function as `Mo.parse`
(`Mo.readInts`, `Mo.parseEntry`, `Mo.loop`, `Mo.parseBody`), so that the theorems of C08/C09 — stated about the
model — hold of the regenerated text.  The proofs never mention a bound variable of the generated code: renaming
locals in the source does not disturb them.
-/
set_option linter.unusedSimpArgs false
namespace I18n.Mo.Gen
open I18n.Mo I18n.Generated.MoParser

/-- `self._endian` for the two byte orders: `'<'`, `'>'` -/
def endianOf (be : Bool) : Bytes := if be then [62] else [60]

theorem all_replicate_I (n : Nat) : (List.replicate n (73 : UInt8)).all (· == 73) = true := by
  induction n with
  | zero => rfl
  | succ n ih => simp [List.replicate_succ]

theorem structUnpack_endian (be : Bool) (n : Nat) (buf : Bytes) :
    Py.structUnpack (endianOf be ++ List.replicate n 73) buf = unpack be n buf := by
  cases be <;> simp [endianOf, Py.structUnpack]

/-- `Parser._read_ints` is `Mo.readInts` -/
theorem read_ints_eq (db : CodecDB) (self : Self) (be : Bool) (h : self._endian = endianOf be) (at_ n : Nat) :
    Parser._read_ints db self at_ n = readInts be self._view at_ n := by
  simp only [Parser._read_ints]
  mo_unfold_helpers
  simp only [readInts, h, structUnpack_endian, decide_eq_true_eq]

/-- `self._encoding`, `self._last_msgid`: the state of the model inside the generated object -/
def stOf (self : Self) : St := ⟨self._encoding, self._last_msgid⟩
def withSt (self : Self) (st : St) : Self := { self with _encoding := st.encoding, _last_msgid := st.last }
def liftSt (self : Self) (r : Except Err (Entry × St)) : Except Err (Entry × Self) :=
  match r with
  | .error e => .error e
  | .ok (entry, st) => .ok (entry, withSt self st)

@[simp] theorem liftSt_error (self : Self) (e : Err) : liftSt self (.error e) = .error e := rfl
@[simp] theorem liftSt_ok (self : Self) (entry : Entry) (st : St) : liftSt self (.ok (entry, st)) = .ok (entry, withSt self st) := rfl

theorem split_ne_nil (sep : UInt8) (k : Nat) (bs : Bytes) : split sep k bs ≠ [] := by
  rcases split_cases sep k bs with ⟨h, _⟩ | ⟨_, _, _, _, _, _, h⟩ <;> simp [h]

theorem exists_concat {α : Type} {xs : List α} (h : xs ≠ []) : ∃ init last, xs = init ++ [last] :=
  ⟨xs.dropLast, xs.getLast h, (List.dropLast_concat_getLast h).symm⟩

theorem mapM_dec (db : CodecDB) (enc : Bytes) (xs : List Bytes) :
    Py.mapM (fun s => dec db enc s) xs = decAll db enc xs := by
  induction xs with
  | nil => rfl
  | cons x xs ih =>
    simp only [Py.mapM, decAll, ih]
    cases dec db enc x <;> cases decAll db enc xs <;> rfl

/-- lines 134–152 of the source as the model has them -/
def selM (db : CodecDB) (st : St) (i : Nat) (msgids : List Bytes) (msgid msgstr : Bytes) :
    Except Err (Option Bytes × Option Bytes) :=
  if i = 0 then
    .ok (some (selectEncoding db st.encoding msgid msgstr), some (selectEncoding db st.encoding msgid msgstr))
  else
    match st.last with
    | none => .error (.crash .typeError)
    | some last =>
      if pyListEqBytes msgids last then .error (.syntax .duplicate)
      else if bytesLt msgid last then .error (.syntax .notSorted)
      else .ok (st.encoding, st.encoding)

/-- lines 134–178 as the model has them -/
def tailM (db : CodecDB) (st : St) (i : Nat) (msgids : List Bytes) (msgstr : Bytes) : Except Err (Entry × St) :=
  match selM db st i msgids (msgids.headD []) msgstr with
  | .error e => .error e
  | .ok (encoding, selfEncoding) =>
    match encoding with
    | none => .error (.crash .assertion)
    | some enc =>
      match buildEntry db enc msgids msgstr (splitAll 0 msgstr) with
      | .error e => .error e
      | .ok entry => .ok (entry, ⟨selfEncoding, some (msgids.headD [])⟩)

theorem parseEntry_staged (db : CodecDB) (be : Bool) (view : Bytes) (st : St) (i a b : Nat) :
    parseEntry db be view st i a b =
      match readString be view a .msgidNotTerminated with
      | .error e => .error e
      | .ok msgid =>
        if (split 0 2 msgid).length > 2 then .error (.syntax .msgidNul) else
        match readString be view b .msgstrNotTerminated with
        | .error e => .error e
        | .ok msgstr =>
          if (split 0 2 msgid).length = 1 ∧ (splitAll 0 msgstr).length > 1 then .error (.syntax .msgstrNul)
          else tailM db st i (split 0 2 msgid) msgstr := by
  unfold parseEntry tailM selM
  rfl


/- case analysis over the atoms of lines 134–152: `i == 0`, `self._encoding`, `msgid == b''`, the charset search,
   `.decode('ASCII')`, `is_ascii_compatible_encoding`, `self._last_msgid`, `msgid < self._last_msgid` -/
set_option hygiene false in
local macro "sel_leaf" : tactic => `(tactic| (simp_all; try (obtain ⟨rfl, rfl⟩ := heq; simp_all); try (cases self; simp_all)))
set_option hygiene false in
local macro "sel_cases" : tactic => `(tactic| (
  by_cases hi : i = 0
  · obtain ⟨enc0, henc⟩ : ∃ x, self._encoding = x := ⟨_, rfl⟩
    rcases enc0 with _ | e0
    · by_cases hm0 : m0 = []
      · obtain ⟨fc, hfc⟩ : ∃ x, findCharset msgstr = x := ⟨_, rfl⟩
        rcases fc with _ | r
        · sel_leaf
        · simp only [hfc] at heq ⊢
          generalize r.all (· < 128) = al at heq ⊢
          rcases al with _ | _
          · sel_leaf
          · obtain ⟨cp, hcomp⟩ : ∃ x, db.asciiCompatible r = x := ⟨_, rfl⟩
            rcases cp with _ | _ <;> sel_leaf
      · sel_leaf
    · obtain ⟨cp, hcomp⟩ : ∃ x, db.asciiCompatible e0 = x := ⟨_, rfl⟩
      rcases cp with _ | _ <;> sel_leaf
  · obtain ⟨lm, hl⟩ : ∃ x, self._last_msgid = x := ⟨_, rfl⟩
    rcases lm with _ | last
    · sel_leaf
    · obtain ⟨lt, hlt⟩ : ∃ x, bytesLt m0 last = x := ⟨_, rfl⟩
      rcases lt with _ | _ <;> sel_leaf))

/- case analysis over the atoms of lines 160–169: `len(msgids)`, `[msgstr] == msgstrs`, `len(msgstrs) >= 1`, the decodings -/
set_option hygiene false in
local macro "body_cases" : tactic => `(tactic| (
  rcases mrest with _ | ⟨m1, _ | ⟨m2, mt⟩⟩
  · by_cases hss : [msgstr] = splitAll 0 msgstr
    · cases hd3 : dec db enc msgstr <;> simp [← hss, hd3, Py.Kwargs.toEntry, withSt]
    · simp [hss]
  · by_cases hl : (splitAll 0 msgstr).length < 1
    · simp [hl, Nat.not_le.2 hl]
    · cases hd4 : dec db enc m1 with
      | error e => simp [hl, Nat.not_lt.1 hl, hd4]
      | ok t13 =>
        cases hd5 : decAll db enc (splitAll 0 msgstr) <;> simp [hl, Nat.not_lt.1 hl, hd4, hd5, Py.Kwargs.toEntry, withSt]
  · simp))

set_option maxHeartbeats 2000000 in
theorem parse_entry_eq (db : CodecDB) (self : Self) (be : Bool) (h : self._endian = endianOf be) (i a b : Nat) :
    Parser._parse_entry db self i a b = liftSt self (parseEntry db be self._view (stOf self) i a b) := by
  simp only [Parser._parse_entry]
  mo_unfold_helpers
  simp only [parseEntry_staged, readString, read2, read_ints_eq db self be h, Py.viewIndex, Py.tryExcept, Py.isIndexError,
    Bool.not_eq_true', decide_eq_false_iff_not, decide_eq_true_eq, Nat.not_le, Nat.not_lt, gt_iff_lt, ge_iff_le]
  cases h1 : readInts be self._view a 2 with
  | error e => rfl
  | ok ws =>
    rcases ws with _ | ⟨l, _ | ⟨o, _ | ⟨x, t⟩⟩⟩
    · rfl
    · rfl
    · simp only []
      cases h2 : self._view[o + l]? with
      | none => rfl
      | some c =>
        by_cases hc : c = 0
        · subst hc
          simp only [ne_eq, not_true_eq_false, decide_false, Bool.false_eq_true, ↓reduceIte]
          obtain ⟨m0, mrest, hm⟩ := List.exists_cons_of_ne_nil (split_ne_nil 0 2 (slice self._view o (o + l)))
          simp only [hm, Py.listGet, List.getElem?_cons_zero, List.headD_cons, decide_eq_true_eq]
          split
          · rfl
          · cases h3 : readInts be self._view b 2 with
            | error e => rfl
            | ok ws2 =>
              rcases ws2 with _ | ⟨l2, _ | ⟨o2, _ | ⟨x, t⟩⟩⟩
              · rfl
              · rfl
              · simp only []
                cases h4 : self._view[o2 + l2]? with
                | none => rfl
                | some c2 =>
                  by_cases hc2 : c2 = 0
                  · subst hc2
                    simp only [ne_eq, not_true_eq_false, decide_false, Bool.false_eq_true, ↓reduceIte, Bool.and_eq_true, decide_eq_true_eq]
                    split
                    · rfl
                    · generalize slice self._view o2 (o2 + l2) = msgstr
                      split
                      · rename_i e heq
                        have hsel : selM db (stOf self) i (m0 :: mrest) m0 msgstr = .error e := by
                          simp only [selM, stOf, selectEncoding, pyListEqBytes, Py.decodeAsciiName, Py.isUnicodeError, asciiName] at heq ⊢
                          sel_cases
                        simp [tailM, hsel]
                      · rename_i enc s1 heq
                        have hsel : selM db (stOf self) i (m0 :: mrest) m0 msgstr = .ok (enc, s1._encoding) ∧
                            s1 = { self with _encoding := s1._encoding } := by
                          simp only [selM, stOf, selectEncoding, pyListEqBytes, Py.decodeAsciiName, Py.isUnicodeError, asciiName] at heq ⊢
                          sel_cases
                        obtain ⟨hs, hs1⟩ := hsel
                        clear heq
                        have hv : s1._view = self._view := by rw [hs1]
                        have hin : s1.instance_ = self.instance_ := by rw [hs1]
                        have hen : s1._endian = self._endian := by rw [hs1]
                        simp only [tailM, List.headD_cons, hs, hv, hin, hen]
                        rcases enc with _ | enc
                        · rfl
                        · obtain ⟨init, last, hp⟩ := exists_concat (split_ne_nil 4 1 m0)
                          simp only [buildEntry, List.headD_cons, hp, List.getLast?_concat, List.dropLast_concat,
                            List.getLastD_concat, mapM_dec]
                          cases hd1 : dec db enc last with
                          | error e => rfl
                          | ok t9 =>
                            simp only []
                            rcases init with _ | ⟨c, _ | ⟨c2, ct⟩⟩
                            · simp only [List.isEmpty_nil, Bool.not_true, Bool.false_eq_true, ↓reduceIte]
                              body_cases
                            · simp only [List.isEmpty_cons, Bool.not_false, ↓reduceIte]
                              cases hd2 : dec db enc c with
                              | error e => rfl
                              | ok t10 =>
                                simp only []
                                body_cases
                            · rfl
                  · simp [hc2]
              · rfl
        · simp [hc]
    · rfl
/-- what `Parser.parse` returns after a run -/
def instOf (r : Except Err Self) : Except Err MoFile :=
  match r with
  | .error e => .error e
  | .ok s => .ok s.instance_

@[simp] theorem instOf_error (e : Err) : instOf (.error e) = .error e := rfl
@[simp] theorem instOf_ok (s : Self) : instOf (.ok s) = .ok s.instance_ := rfl

/-- one iteration of `for i in range(n_strings)` as the model has it -/
def stepM (db : CodecDB) (be : Bool) (mo so : Nat) (i : Nat) (s : Self) : Except Err Self :=
  match parseEntry db be s._view (stOf s) i (mo + 8 * i) (so + 8 * i) with
  | .error e => .error e
  | .ok (entry, st) =>
    .ok { withSt s st with instance_ := { s.instance_ with entries := s.instance_.entries ++ [entry] } }

theorem forRange_loop (db : CodecDB) (be : Bool) (mo so : Nat) (f : Nat → Self → Except Err Self)
    (hf : ∀ i s, s._endian = endianOf be → f i s = stepM db be mo so i s) (k : Nat) :
    ∀ (i : Nat) (s : Self), s._endian = endianOf be →
      instOf (Py.forRangeFrom f k i s) =
        match loop db be s._view mo so k i (stOf s) with
        | .error e => .error e
        | .ok es => .ok ⟨s.instance_.entries ++ es, s.instance_.possibleHiddenStrings⟩ := by
  induction k with
  | zero => intro i s _; simp [Py.forRangeFrom, loop]
  | succ k ih =>
    intro i s hs
    simp only [Py.forRangeFrom, loop, hf i s hs, stepM]
    cases hp : parseEntry db be s._view (stOf s) i (mo + 8 * i) (so + 8 * i) with
    | error e => rfl
    | ok r =>
      obtain ⟨entry, st⟩ := r
      simp only []
      rw [ih]
      · simp only [withSt, stOf]
        cases loop db be s._view mo so k (i + 1) st <;> simp
      · simpa [withSt] using hs


theorem magic_le : little_endian_magic = leMagic := rfl
theorem magic_be : big_endian_magic = beMagic := rfl

/- case analysis over the atoms of lines 95–103: the minor revision, word 36 -/
set_option hygiene false in
local macro "hidden_cases" : tactic => `(tactic| (
  by_cases hm1 : rev % 65536 > 1
  · simp_all
  · by_cases hm2 : rev % 65536 = 1
    · obtain ⟨r36, h36⟩ : ∃ x, readInts be self._view 36 1 = x := ⟨_, rfl⟩
      rcases r36 with e36 | ws36
      · simp_all
      · rcases ws36 with _ | ⟨ns, _ | ⟨x, t⟩⟩
        · simp_all
        · by_cases hns : ns > 0 <;> simp_all
        · simp_all
    · simp_all))

set_option maxHeartbeats 1000000 in
/-- `Parser._parse` (header, flag, loop) is `Mo.parse` -/
theorem parse_body_eq (db : CodecDB) (self : Self) (hi : self.instance_ = ⟨[], false⟩) :
    instOf (Parser._parse db self) = Mo.parse db self._encoding self._view := by
  simp only [Parser._parse]
  mo_unfold_helpers
  simp only [Mo.parse, magic_le, magic_be, decide_eq_true_eq]
  split
  · rename_i e heq
    by_cases hle : slice self._view 0 4 = leMagic
    · simp [hle] at heq
    · by_cases hbe : slice self._view 0 4 = beMagic
      · simp [hle, hbe, show beMagic ≠ leMagic by decide] at heq
      · simp only [hle, hbe, if_false] at heq ⊢
        cases heq; rfl
  · rename_i s' heq
    obtain ⟨be, hs', hR⟩ : ∃ be, s' = { self with _endian := endianOf be } ∧
        (if slice self._view 0 4 = leMagic then parseBody db self._encoding self._view false
          else if slice self._view 0 4 = beMagic then parseBody db self._encoding self._view true
          else .error (.syntax .magic)) = parseBody db self._encoding self._view be := by
      by_cases hle : slice self._view 0 4 = leMagic
      · refine ⟨false, ?_, by simp [hle]⟩
        simp only [hle, if_true] at heq
        cases heq; rfl
      · by_cases hbe : slice self._view 0 4 = beMagic
        · refine ⟨true, ?_, by simp [hle, hbe, show beMagic ≠ leMagic by decide]⟩
          simp only [hle, hbe, if_true, if_false] at heq
          cases heq; rfl
        · simp [hle, hbe] at heq
    rw [hR]
    subst hs'
    clear heq hR
    have hr : ∀ s : Self, s._endian = endianOf be → ∀ a n, Parser._read_ints db s a n = readInts be s._view a n :=
      fun s hs a n => read_ints_eq db s be hs a n
    simp only [hr, parseBody_eq, read1, read2, Py.divmod, show (1 <<< 16 : Nat) = 65536 from rfl,
      show (65536 : Nat) ≠ 0 by decide, if_false, decide_eq_true_eq]
    cases h1 : readInts be self._view 4 1 with
    | error e => rfl
    | ok ws =>
      rcases ws with _ | ⟨rev, _ | ⟨x, t⟩⟩
      · rfl
      · simp only []
        by_cases hmaj : rev / 65536 > 1
        · simp [hmaj]
        · simp only [hmaj, if_false]
          cases h2 : readInts be self._view 8 1 with
          | error e => rfl
          | ok ws2 =>
            rcases ws2 with _ | ⟨n, _ | ⟨x, t⟩⟩
            · rfl
            · simp only []
              split
              · rename_i e heq
                have hh : hiddenStep be self._view (rev % 65536) = .error e := by
                  simp only [hiddenStep, read1]
                  hidden_cases
                simp [hh]
              · rename_i phs heq
                have hh : hiddenStep be self._view (rev % 65536) = .ok phs := by
                  simp only [hiddenStep, read1]
                  hidden_cases
                simp only [hh]
                clear heq hh
                cases h4 : readInts be self._view 12 2 with
                | error e => rfl
                | ok ws4 =>
                  rcases ws4 with _ | ⟨mo, _ | ⟨so, _ | ⟨x, t⟩⟩⟩
                  · rfl
                  · rfl
                  · simp only [Py.forRange]
                    refine (forRange_loop db be mo so _ ?_ n 0 _ rfl).trans ?_
                    · intro i s hs
                      simp only [parse_entry_eq db s be hs, stepM]
                      cases parseEntry db be s._view (stOf s) i (mo + 8 * i) (so + 8 * i) with
                      | error e => rfl
                      | ok r => rfl
                    · simp only [stOf, hi, List.nil_append]
                      cases loop db be self._view mo so n 0 ⟨self._encoding, none⟩ <;> rfl
                  · rfl
            · rfl
      · rfl

/-- `Parser.__init__` (with the file's bytes for `open(path, 'rb').read()`), then `.parse()` -/
theorem init_eq (db : CodecDB) (enc : Option Bytes) (bytes : Bytes) :
    instOf (Parser.__init__ db Self.unset bytes () enc false ()) = Mo.parse db enc bytes := by
  simp only [Parser.__init__]
  mo_unfold_helpers
  simp only [Bool.false_eq_true, if_false, Py.viewIndex, decide_eq_true_eq]
  split
  · rename_i e heq
    exfalso
    by_cases hl : bytes.length > 0
    · obtain ⟨c, hc⟩ : ∃ c, bytes[0]? = some c := ⟨bytes[0], by simp [hl]⟩
      simp [hl, hc] at heq
    · simp [hl] at heq
  · exact parse_body_eq db _ rfl

/-- **The regenerated parser is the model**: `Parser(path, encoding=enc).parse()` as translated from the current
    source computes `Mo.parse` on every byte string, for every codec database and either `encoding` argument. -/
theorem generated_parse_eq (db : CodecDB) (enc : Option Bytes) (bytes : Bytes) :
    I18n.Generated.MoParser.parse db enc bytes = Mo.parse db enc bytes := by
  have h := init_eq db enc bytes
  simp only [I18n.Generated.MoParser.parse]
  cases hI : Parser.__init__ db Self.unset bytes () enc false () with
  | error e => rw [hI] at h; exact h
  | ok s => rw [hI] at h; simpa [Parser.parse] using h
end I18n.Mo.Gen
