import I18n.Model.Mo
import I18n.Generated.MoParser
import I18n.Lemmas.MoBytes
/-!
# The definitions regenerated from `lib/moparser.py` equal the hand-written model

`I18n.Generated.MoParser` is rewritten by `tools/translate/mo2lean.py` from the current source on every run.
This file proves, for every byte string, that it computes the same function as `Mo.parse`
(`Mo.readInts`, `Mo.parseEntry`, `Mo.loop`, `Mo.parseBody`), so that the theorems of C08/C09 — stated about the
model — hold of the regenerated text.  The proofs never mention a bound variable of the generated code: renaming
locals in the source does not disturb them.
-/
namespace I18n.Mo.Gen
open I18n.Mo I18n.Generated.MoParser

/-- `self._endian` for the two byte orders: `'<'`, `'>'` -/
def endianOf (be : Bool) : Bytes := if be then [62] else [60]

theorem all_replicate_I (n : Nat) : (List.replicate n (73 : UInt8)).all (· == 73) = true := by
  induction n with
  | zero => rfl
  | succ n ih => simp [List.replicate_succ]

theorem structUnpack_endian (be : Bool) (n : Nat) (buf : Bytes) :
    Py.structUnpack (endianOf be ++ List.replicate n 73) buf = unpack be n buf := by
  cases be <;> simp [endianOf, Py.structUnpack]

/-- `Parser._read_ints` is `Mo.readInts` -/
theorem read_ints_eq (db : CodecDB) (self : Self) (be : Bool) (h : self._endian = endianOf be) (at_ n : Nat) :
    Parser._read_ints db self at_ n = readInts be self._view at_ n := by
  simp only [Parser._read_ints, readInts, h, structUnpack_endian, decide_eq_true_eq]

/-- `self._encoding`, `self._last_msgid`: the state of the model inside the generated object -/
def stOf (self : Self) : St := ⟨self._encoding, self._last_msgid⟩
def withSt (self : Self) (st : St) : Self := { self with _encoding := st.encoding, _last_msgid := st.last }
def liftSt (self : Self) (r : Except Err (Entry × St)) : Except Err (Entry × Self) :=
  match r with
  | .error e => .error e
  | .ok (entry, st) => .ok (entry, withSt self st)

@[simp] theorem liftSt_error (self : Self) (e : Err) : liftSt self (.error e) = .error e := rfl
@[simp] theorem liftSt_ok (self : Self) (entry : Entry) (st : St) : liftSt self (.ok (entry, st)) = .ok (entry, withSt self st) := rfl

theorem split_ne_nil (sep : UInt8) (k : Nat) (bs : Bytes) : split sep k bs ≠ [] := by
  rcases split_cases sep k bs with ⟨h, _⟩ | ⟨_, _, _, _, _, _, h⟩ <;> simp [h]

theorem exists_concat {α : Type} {xs : List α} (h : xs ≠ []) : ∃ init last, xs = init ++ [last] :=
  ⟨xs.dropLast, xs.getLast h, (List.dropLast_concat_getLast h).symm⟩

theorem mapM_dec (db : CodecDB) (enc : Bytes) (xs : List Bytes) :
    Py.mapM (fun s => dec db enc s) xs = decAll db enc xs := by
  induction xs with
  | nil => rfl
  | cons x xs ih =>
    simp only [Py.mapM, decAll, ih]
    cases dec db enc x <;> cases decAll db enc xs <;> rfl

/-- lines 134–152 of the source as the model has them -/
def selM (db : CodecDB) (st : St) (i : Nat) (msgids : List Bytes) (msgid msgstr : Bytes) :
    Except Err (Option Bytes × Option Bytes) :=
  if i = 0 then
    .ok (some (selectEncoding db st.encoding msgid msgstr), some (selectEncoding db st.encoding msgid msgstr))
  else
    match st.last with
    | none => .error (.crash .typeError)
    | some last =>
      if pyListEqBytes msgids last then .error (.syntax .duplicate)
      else if bytesLt msgid last then .error (.syntax .notSorted)
      else .ok (st.encoding, st.encoding)

/-- lines 134–178 as the model has them -/
def tailM (db : CodecDB) (st : St) (i : Nat) (msgids : List Bytes) (msgstr : Bytes) : Except Err (Entry × St) :=
  match selM db st i msgids (msgids.headD []) msgstr with
  | .error e => .error e
  | .ok (encoding, selfEncoding) =>
    match encoding with
    | none => .error (.crash .assertion)
    | some enc =>
      match buildEntry db enc msgids msgstr (splitAll 0 msgstr) with
      | .error e => .error e
      | .ok entry => .ok (entry, ⟨selfEncoding, some (msgids.headD [])⟩)

theorem parseEntry_staged (db : CodecDB) (be : Bool) (view : Bytes) (st : St) (i a b : Nat) :
    parseEntry db be view st i a b =
      match readString be view a .msgidNotTerminated with
      | .error e => .error e
      | .ok msgid =>
        if (split 0 2 msgid).length > 2 then .error (.syntax .msgidNul) else
        match readString be view b .msgstrNotTerminated with
        | .error e => .error e
        | .ok msgstr =>
          if (split 0 2 msgid).length = 1 ∧ (splitAll 0 msgstr).length > 1 then .error (.syntax .msgstrNul)
          else tailM db st i (split 0 2 msgid) msgstr := by
  unfold parseEntry tailM selM
  rfl


/- case analysis over the atoms of lines 134–152: `i == 0`, `self._encoding`, `msgid == b''`, the charset search,
   `.decode('ASCII')`, `is_ascii_compatible_encoding`, `self._last_msgid`, `msgid < self._last_msgid` -/
set_option hygiene false in
local macro "sel_leaf" : tactic => `(tactic| (simp_all; try (obtain ⟨rfl, rfl⟩ := heq; simp_all); try (cases self; simp_all)))
set_option hygiene false in
local macro "sel_cases" : tactic => `(tactic| (
  by_cases hi : i = 0
  · obtain ⟨enc0, henc⟩ : ∃ x, self._encoding = x := ⟨_, rfl⟩
    rcases enc0 with _ | e0
    · by_cases hm0 : m0 = []
      · obtain ⟨fc, hfc⟩ : ∃ x, findCharset msgstr = x := ⟨_, rfl⟩
        rcases fc with _ | r
        · sel_leaf
        · simp only [hfc] at heq ⊢
          generalize r.all (· < 128) = al at heq ⊢
          rcases al with _ | _
          · sel_leaf
          · obtain ⟨cp, hcomp⟩ : ∃ x, db.asciiCompatible r = x := ⟨_, rfl⟩
            rcases cp with _ | _ <;> sel_leaf
      · sel_leaf
    · obtain ⟨cp, hcomp⟩ : ∃ x, db.asciiCompatible e0 = x := ⟨_, rfl⟩
      rcases cp with _ | _ <;> sel_leaf
  · obtain ⟨lm, hl⟩ : ∃ x, self._last_msgid = x := ⟨_, rfl⟩
    rcases lm with _ | last
    · sel_leaf
    · obtain ⟨lt, hlt⟩ : ∃ x, bytesLt m0 last = x := ⟨_, rfl⟩
      rcases lt with _ | _ <;> sel_leaf))

/- case analysis over the atoms of lines 160–169: `len(msgids)`, `[msgstr] == msgstrs`, `len(msgstrs) >= 1`, the decodings -/
set_option hygiene false in
local macro "body_cases" : tactic => `(tactic| (
  rcases mrest with _ | ⟨m1, _ | ⟨m2, mt⟩⟩
  · by_cases hss : [msgstr] = splitAll 0 msgstr
    · cases hd3 : dec db enc msgstr <;> simp [← hss, hd3, Py.Kwargs.toEntry, withSt]
    · simp [hss]
  · by_cases hl : (splitAll 0 msgstr).length < 1
    · simp [hl, Nat.not_le.2 hl]
    · cases hd4 : dec db enc m1 with
      | error e => simp [hl, Nat.not_lt.1 hl, hd4]
      | ok t13 =>
        cases hd5 : decAll db enc (splitAll 0 msgstr) <;> simp [hl, Nat.not_lt.1 hl, hd4, hd5, Py.Kwargs.toEntry, withSt]
  · simp))

set_option maxHeartbeats 2000000 in
theorem parse_entry_eq (db : CodecDB) (self : Self) (be : Bool) (h : self._endian = endianOf be) (i a b : Nat) :
    Parser._parse_entry db self i a b = liftSt self (parseEntry db be self._view (stOf self) i a b) := by
  simp only [Parser._parse_entry, parseEntry_staged, readString, read2, read_ints_eq db self be h,
    Py.viewIndex, Py.tryExcept, Py.isIndexError]
  cases h1 : readInts be self._view a 2 with
  | error e => rfl
  | ok ws =>
    rcases ws with _ | ⟨l, _ | ⟨o, _ | ⟨x, t⟩⟩⟩
    · rfl
    · rfl
    · simp only []
      cases h2 : self._view[o + l]? with
      | none => rfl
      | some c =>
        by_cases hc : c = 0
        · subst hc
          simp only [ne_eq, not_true_eq_false, decide_false, Bool.false_eq_true, ↓reduceIte]
          obtain ⟨m0, mrest, hm⟩ := List.exists_cons_of_ne_nil (split_ne_nil 0 2 (slice self._view o (o + l)))
          simp only [hm, Py.listGet, List.getElem?_cons_zero, List.headD_cons, decide_eq_true_eq]
          split
          · rfl
          · cases h3 : readInts be self._view b 2 with
            | error e => rfl
            | ok ws2 =>
              rcases ws2 with _ | ⟨l2, _ | ⟨o2, _ | ⟨x, t⟩⟩⟩
              · rfl
              · rfl
              · simp only []
                cases h4 : self._view[o2 + l2]? with
                | none => rfl
                | some c2 =>
                  by_cases hc2 : c2 = 0
                  · subst hc2
                    simp only [ne_eq, not_true_eq_false, decide_false, Bool.false_eq_true, ↓reduceIte, Bool.and_eq_true, decide_eq_true_eq]
                    split
                    · rfl
                    · generalize slice self._view o2 (o2 + l2) = msgstr
                      split
                      · rename_i e heq
                        have hsel : selM db (stOf self) i (m0 :: mrest) m0 msgstr = .error e := by
                          simp only [selM, stOf, selectEncoding, pyListEqBytes, Py.decodeAsciiName, Py.isUnicodeError, asciiName] at heq ⊢
                          sel_cases
                        simp [tailM, hsel]
                      · rename_i enc s1 heq
                        have hsel : selM db (stOf self) i (m0 :: mrest) m0 msgstr = .ok (enc, s1._encoding) ∧
                            s1 = { self with _encoding := s1._encoding } := by
                          simp only [selM, stOf, selectEncoding, pyListEqBytes, Py.decodeAsciiName, Py.isUnicodeError, asciiName] at heq ⊢
                          sel_cases
                        obtain ⟨hs, hs1⟩ := hsel
                        clear heq
                        have hv : s1._view = self._view := by rw [hs1]
                        have hin : s1.instance_ = self.instance_ := by rw [hs1]
                        have hen : s1._endian = self._endian := by rw [hs1]
                        simp only [tailM, List.headD_cons, hs, hv, hin, hen]
                        rcases enc with _ | enc
                        · rfl
                        · obtain ⟨init, last, hp⟩ := exists_concat (split_ne_nil 4 1 m0)
                          simp only [buildEntry, List.headD_cons, hp, List.getLast?_concat, List.dropLast_concat,
                            List.getLastD_concat, mapM_dec]
                          cases hd1 : dec db enc last with
                          | error e => rfl
                          | ok t9 =>
                            simp only []
                            rcases init with _ | ⟨c, _ | ⟨c2, ct⟩⟩
                            · simp only [List.isEmpty_nil, Bool.not_true, Bool.false_eq_true, ↓reduceIte]
                              body_cases
                            · simp only [List.isEmpty_cons, Bool.not_false, ↓reduceIte]
                              cases hd2 : dec db enc c with
                              | error e => rfl
                              | ok t10 =>
                                simp only []
                                body_cases
                            · rfl
                  · simp [hc2]
              · rfl
        · simp [hc]
    · rfl
end I18n.Mo.Gen
