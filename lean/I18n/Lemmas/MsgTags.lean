import I18n.Lemmas.MsgLoop
/-
Reading single tags off the rule set: which tag names each part of `entryTags` can contain.
-/
namespace I18n.Msg
open I18n.Tags (Str lit Extra)
open I18n.Spec.MessageRules

/-- the emission is a call of tag `t` -/
def Emit.isTag (t : MTag) : Emit → Bool
  | .tag t' _ => t' = t
  | _ => false

/-- some emission of the list is a call of tag `t` -/
def has (t : MTag) (l : List Emit) : Bool := l.any (Emit.isTag t)

@[simp] theorem has_nil (t : MTag) : has t [] = false := rfl
@[simp] theorem has_append (t : MTag) (a b : List Emit) : has t (a ++ b) = (has t a || has t b) := by simp [has]
@[simp] theorem has_cons (t : MTag) (x : Emit) (l : List Emit) : has t (x :: l) = (x.isTag t || has t l) := by simp [has]
@[simp] theorem has_rule (t : MTag) (c : Bool) (x : Emit) : has t (rule c x) = (c && x.isTag t) := by
  cases c <;> simp [rule, has]
@[simp] theorem isTag_tagR (t t' : MTag) (db : Tags.UnicodeDB) (e : Entry) (c : Bool) (r : List Extra) :
    (tagR db e c t' r).isTag t = decide (t' = t) := rfl
@[simp] theorem isTag_tag (t t' : MTag) (r : List Extra) : (Emit.tag t' r).isTag t = decide (t' = t) := rfl
@[simp] theorem isTag_fmt (t : MTag) (n : Str) (i : Info) : (Emit.fmt n i).isTag t = false := rfl
@[simp] theorem isTag_crash (t : MTag) (x : Exc) : (Emit.crash x).isTag t = false := rfl

theorem has_eq_false_of_forall {t : MTag} {l : List Emit} (h : ∀ x ∈ l, x.isTag t = false) : has t l = false := by
  simp only [has, List.any_eq_false]; intro x hx; simp [h x hx]

theorem has_flatMap {α : Type} (t : MTag) (l : List α) (f : α → List Emit) :
    has t (l.flatMap f) = l.any fun a => has t (f a) := by
  induction l with
  | nil => simp
  | cons a as ih => simp [ih]

theorem has_map {α : Type} (t : MTag) (l : List α) (f : α → Emit) :
    has t (l.map f) = l.any fun a => (f a).isTag t := by
  induction l with
  | nil => simp
  | cons a as ih => simp [ih]

/-- the flag diagnostics only use the six flag tags -/
theorem has_flagTags_false (env : FlagEnv) (e : Entry) (t : MTag) (ht : t ∉ MTag.ofCheckMessageFlags) :
    has t (flagTags env e) = false := by
  have h1 : t ≠ .conflictingMessageFlags := fun h => ht (by simp [h, MTag.ofCheckMessageFlags])
  have h2 : t ≠ .duplicateMessageFlag := fun h => ht (by simp [h, MTag.ofCheckMessageFlags])
  have h3 : t ≠ .invalidRangeFlag := fun h => ht (by simp [h, MTag.ofCheckMessageFlags])
  have h4 : t ≠ .rangeFlagWithoutPluralString := fun h => ht (by simp [h, MTag.ofCheckMessageFlags])
  have h5 : t ≠ .redundantMessageFlag := fun h => ht (by simp [h, MTag.ofCheckMessageFlags])
  have h6 : t ≠ .unknownMessageFlag := fun h => ht (by simp [h, MTag.ofCheckMessageFlags])
  simp only [flagTags, has_append, Bool.or_eq_false_iff]
  refine ⟨⟨⟨⟨?_, ?_⟩, ?_⟩, ?_⟩, ?_⟩
  · rw [has_flatMap]; simp only [List.any_eq_false]; intro f _
    simp only [perFlag]
    split <;> (try split) <;> simp [Ne.symm h1, Ne.symm h2, Ne.symm h3, Ne.symm h4, Ne.symm h6]
  · simp only [rangeTail]
    split
    · split <;> simp [Ne.symm h1]
    · split
      · split <;> simp [Ne.symm h2]
      · simp
  · simp only [positivePairs, has_flatMap]
    rw [List.any_eq_false]; intro f1 _
    rw [Bool.not_eq_true, List.any_eq_false]; intro f2 _
    split <;> (try split) <;> simp [Ne.symm h1]
  · simp only [conflictLoop, has_flatMap, has_map]
    rw [List.any_eq_false]; intro pn _
    rw [Bool.not_eq_true, List.any_eq_false]; intro f _; simp [Ne.symm h1]
  · simp only [redundantLoop, has_map, List.any_eq_false]
    intro f _
    split <;> simp [Ne.symm h5]

theorem has_unusualTags (env : Env) (pre : List Entry) (e : Entry) (t : MTag) (ht : t ≠ .unusualCharacterInTranslation) :
    ∀ (rest done : List Str), has t (unusualTags env pre e done rest) = false
  | [], _ => rfl
  | s :: rest, done => by
    simp only [unusualTags, has_append, has_unusualTags env pre e t ht rest, Bool.or_false]
    split
    · rfl
    · simp only [unusualTag]; split <;> simp [Ne.symm ht]

theorem has_dispatch (env : Env) (e : Entry) (t : MTag) : has t (dispatch env e) = false := by
  simp [dispatch, has_map]

theorem has_xmlTags (env : Env) (ctx : Ctx) (e : Entry) (t : MTag) (ht : t ≠ .malformedXml) :
    has t (xmlTags env ctx e) = false := by
  simp only [xmlTags]
  split
  · split
    · simp [Ne.symm ht]
    · split
      · split <;> simp [Ne.symm ht]
      · rfl
    · rfl
  · rfl

theorem has_markerTag (db : Tags.UnicodeDB) (e : Entry) (t : MTag) (m : Option Str) :
    has t (markerTag db e m) = (m.isSome && decide (MTag.conflictMarkerInTranslation = t)) := by
  cases m <;> simp [markerTag]

end I18n.Msg
