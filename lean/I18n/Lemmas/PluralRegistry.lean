import I18n.Lemmas.CheckPluralsReport
/-!
The SHIPPED registry (data/languages as `lib.ling` has loaded it, dumped into `Generated.PluralForms` on every run):
every declaration parses strictly in the model, is total on the 200-window, in range and onto — by kernel evaluation of
the model's own reader and of the evaluator generated from lib/intexpr.py.
-/
namespace I18n.CheckPlurals
open I18n I18n.Py I18n.Plural I18n.PluralParse I18n.Generated.PluralForms

/-- `CleanOnWindow`, decided -/
def cleanOnWindowB (n : Nat) (e : Expr) : Bool :=
  ((List.range codomainLimit).all fun i => match evalAt 32 i e with | .ok v => decide (v < n) | .error _ => false) &&
  ((List.range n).all fun k => (List.range codomainLimit).any fun i => match evalAt 32 i e with | .ok v => v == (k : Int) | .error _ => false)

theorem cleanOnWindowB_sound {n : Nat} {e : Expr} (h : cleanOnWindowB n e = true) : CleanOnWindow n e := by
  simp only [cleanOnWindowB, Bool.and_eq_true, List.all_eq_true, List.mem_range, List.any_eq_true] at h
  constructor
  · intro i hi
    have := h.1 i hi
    cases hev : evalAt 32 i e with
    | error ex => rw [hev] at this; cases this
    | ok v => rw [hev] at this; exact ⟨v, rfl, by simpa using this⟩
  · intro k hk
    obtain ⟨i, hi, hv⟩ := h.2 k hk
    cases hev : evalAt 32 i e with
    | error ex => rw [hev] at hv; cases hv
    | ok v =>
      rw [hev] at hv
      have : v = (k : Int) := by simpa using hv
      exact ⟨i, hi, by rw [hev, this]⟩

/-- a registry string is fine: it parses strictly and the declaration is clean on the window -/
def registryOk (c : List Char) : Bool :=
  match parsePluralFormsStrict c with
  | .ok n e _ _ => cleanOnWindowB n e
  | _ => false

/-- every distinct declaration of the shipped registry is fine (kernel evaluation: 10 strings × 200 evaluations) -/
theorem registry_all_ok : registryStrings.all registryOk = true := by decide +kernel

theorem registry_string_clean (c : List Char) (hc : c ∈ registryStrings) :
    ∃ n e, parsePluralFormsStrict c = .ok n e [] [] ∧ CleanOnWindow n e := by
  have := List.all_eq_true.1 registry_all_ok c hc
  unfold registryOk at this
  split at this
  · rename_i n e lj rj hs
    obtain ⟨_, rfl, rfl⟩ := strict_ok hs
    exact ⟨n, e, hs, cleanOnWindowB_sound this⟩
  · cases this

/-- the declarations of one registry entry -/
def entryStrings (ixs : List Nat) : List (List Char) := ixs.filterMap (registryStrings[·]?)

/-- the indices of the dump are in range, so `entryStrings` loses nothing -/
theorem registry_indices_valid : registry.all (fun en => en.2.all (fun i => decide (i < registryStrings.length))) = true := by decide +kernel

/-- nplurals of a registry string (0 if it did not parse — never, by `registry_all_ok`) -/
def npluralsOf (c : List Char) : Nat :=
  match parsePluralFormsStrict c with
  | .ok n _ _ _ => n
  | _ => 0

/-- no language of the shipped registry has two declarations with the same nplurals: `locally_correct_plural_forms` has at
    most one element -/
theorem registry_nplurals_distinct : registry.all (fun en => ((entryStrings en.2).map npluralsOf).Nodup) = true := by decide +kernel

theorem mem_entryStrings {ixs : List Nat} {c : List Char} (h : c ∈ entryStrings ixs) : c ∈ registryStrings := by
  simp only [entryStrings, List.mem_filterMap] at h
  obtain ⟨i, _, hi⟩ := h
  exact List.mem_of_getElem? hi

/-- the language of the checked file is unknown, or one of the shipped registry -/
def FromRegistry (inp : Input) : Prop :=
  inp.correct = none ∨ ∃ en ∈ registry, inp.correct = some (entryStrings en.2)

theorem FromRegistry.clean {inp : Input} (h : FromRegistry inp) : RegistryClean inp := by
  intro cs hcs c hc
  rcases h with h | ⟨en, _, h⟩
  · rw [h] at hcs; cases hcs
  · rw [h] at hcs; cases hcs
    obtain ⟨n, e, hs, hclean⟩ := registry_string_clean c (mem_entryStrings hc)
    exact ⟨n, e, hs, fun i hi => by obtain ⟨v, hv, _⟩ := hclean.total i hi; exact ⟨v, hv⟩⟩

end I18n.CheckPlurals
