import I18n.Model.Charset
import I18n.Spec.Charset
/-!
# C20: the grow-and-retry loop of `lib/iconv.py` over an abstract iconv
-/
namespace I18n.Charset

/-! ## (a) what is told never exceeds what was just allocated — for EVERY iconv, input and fuel -/

theorem decodeLoop_alloc (step : Step) (input : List UInt8) : ∀ (fuel outputLen : Nat),
    ∀ a ∈ (decodeLoop step input fuel outputLen).2, a.allocated = 4 * a.told ∧ outputLen ≤ a.told := by
  intro fuel
  induction fuel with
  | zero => intro L a ha; simp [decodeLoop] at ha
  | succ fuel ih =>
    intro L a ha
    simp only [decodeLoop] at ha
    split at ha
    · simp at ha
    · split at ha
      · simp only [List.mem_cons] at ha
        rcases ha with rfl | ha
        · exact ⟨rfl, Nat.le_refl _⟩
        · have := ih (L * 2) a ha
          exact ⟨this.1, by omega⟩
      all_goals (try (split at ha)) <;> (try (split at ha)) <;> (try (split at ha)) <;>
        (simp only [List.mem_singleton] at ha; subst ha; exact ⟨rfl, Nat.le_refl _⟩)

theorem encodeLoop_alloc (step : Step) (n : Nat) : ∀ (fuel outputLen : Nat),
    ∀ a ∈ (encodeLoop step n fuel outputLen).2, a.allocated = a.told ∧ outputLen ≤ a.told := by
  intro fuel
  induction fuel with
  | zero => intro L a ha; simp [encodeLoop] at ha
  | succ fuel ih =>
    intro L a ha
    simp only [encodeLoop] at ha
    split at ha
    · simp at ha
    · split at ha
      · simp only [List.mem_cons] at ha
        rcases ha with rfl | ha
        · exact ⟨rfl, Nat.le_refl _⟩
        · have := ih (L * 2) a ha
          exact ⟨this.1, by omega⟩
      all_goals (try (split at ha)) <;>
        (simp only [List.mem_singleton] at ha; subst ha; exact ⟨rfl, Nat.le_refl _⟩)

/-! ## (b) termination: if iconv stops answering E2BIG once it is told `need` bytes, the loop ends within `need` rounds -/

def Outcome.finished {α : Type} : Outcome α → Bool
  | .outOfFuel => false
  | _ => true

theorem decodeLoop_terminates (step : Step) (input : List UInt8) (need : Nat)
    (hb : ∀ told, need ≤ told → (step told).reset = none → (callBoth input.length told (step told)).rc ≠ .e2big) :
    ∀ (fuel outputLen : Nat), 1 ≤ outputLen → 1 ≤ fuel → need < fuel + outputLen →
      (decodeLoop step input fuel outputLen).1.finished = true := by
  intro fuel
  induction fuel with
  | zero => intro L _ h; omega
  | succ fuel ih =>
    intro L hL _ hN
    simp only [decodeLoop]
    split
    · rfl
    · rename_i hreset
      split
      · rename_i hrc
        by_cases hbig : need ≤ L
        · exact (hb L hbig hreset hrc).elim
        · have := ih (L * 2) (by omega) (by omega) (by omega)
          simpa using this
      all_goals (try split) <;> (try split) <;> (try split) <;> rfl

theorem encodeLoop_terminates (step : Step) (n : Nat) (need : Nat)
    (hb : ∀ told, need ≤ told → (step told).reset = none → (callBoth (4 * n) told (step told)).rc ≠ .e2big) :
    ∀ (fuel outputLen : Nat), 1 ≤ outputLen → 1 ≤ fuel → need < fuel + outputLen →
      (encodeLoop step n fuel outputLen).1.finished = true := by
  intro fuel
  induction fuel with
  | zero => intro L _ h; omega
  | succ fuel ih =>
    intro L hL _ hN
    simp only [encodeLoop]
    split
    · rfl
    · rename_i hreset
      split
      · rename_i hrc
        by_cases hbig : need ≤ L
        · exact (hb L hbig hreset hrc).elim
        · have := ih (L * 2) (by omega) (by omega) (by omega)
          simpa using this
      all_goals (try split) <;> rfl

/-! ## (c) the result is exactly what iconv produced -/

theorem decodeLoop_e2big (step : Step) (input : List UInt8) (fuel L : Nat)
    (hreset : (step L).reset = none) (hrc : (callBoth input.length L (step L)).rc = .e2big) :
    (decodeLoop step input (fuel + 1) L).1 = (decodeLoop step input fuel (L * 2)).1 := by
  simp only [decodeLoop, hreset, hrc]

theorem encodeLoop_e2big (step : Step) (n : Nat) (fuel L : Nat)
    (hreset : (step L).reset = none) (hrc : (callBoth (4 * n) L (step L)).rc = .e2big) :
    (encodeLoop step n (fuel + 1) L).1 = (encodeLoop step n fuel (L * 2)).1 := by
  simp only [encodeLoop, hreset, hrc]

theorem wchars_prefix : ∀ (k : Nat) (buf pad : List UInt8), buf.length = 4 * k →
    (wchars (buf ++ pad)).take k = wchars buf := by
  intro k
  induction k with
  | zero =>
    intro buf pad h
    have : buf = [] := List.eq_nil_of_length_eq_zero (by omega)
    subst this
    simp [wchars]
  | succ k ih =>
    intro buf pad h
    match buf, h with
    | a :: b :: c :: d :: rest, h =>
      have hr : rest.length = 4 * k := by simp only [List.length_cons] at h; omega
      simp only [List.cons_append, wchars, List.take_succ_cons, ih rest pad hr]

theorem decodeLoop_ok (step : Step) (input : List UInt8) (fuel L : Nat)
    (hreset : (step L).reset = none) (hrc : (callBoth input.length L (step L)).rc = .ok)
    (hin : (callBoth input.length L (step L)).inLeft = 0)
    (hout : (callBoth input.length L (step L)).outLeft = L - (callBoth input.length L (step L)).buf.length)
    (hfit : (callBoth input.length L (step L)).buf.length ≤ L)
    (k : Nat) (h4 : (callBoth input.length L (step L)).buf.length = 4 * k)
    (hvalid : (wchars (callBoth input.length L (step L)).buf).any (· > 0x10FFFF) = false) :
    (decodeLoop step input (fuel + 1) L).1 = .ok (wchars (callBoth input.length L (step L)).buf) := by
  have hp : L - (L - (callBoth input.length L (step L)).buf.length) = 4 * k := by omega
  simp only [decodeLoop, hreset, hrc, hin, hout, hp]
  have : 4 * k % 4 = 0 := by omega
  simp only [this, ne_eq, not_true_eq_false, if_false]
  have : 4 * k / 4 = k := by omega
  rw [this, wchars_prefix k _ _ h4, hvalid]
  simp

theorem encodeLoop_ok (step : Step) (n : Nat) (fuel L : Nat)
    (hreset : (step L).reset = none) (hrc : (callBoth (4 * n) L (step L)).rc = .ok)
    (hin : (callBoth (4 * n) L (step L)).inLeft = 0)
    (hout : (callBoth (4 * n) L (step L)).outLeft = L - (callBoth (4 * n) L (step L)).buf.length)
    (hfit : (callBoth (4 * n) L (step L)).buf.length ≤ L) :
    (encodeLoop step n (fuel + 1) L).1 = .ok (callBoth (4 * n) L (step L)).buf := by
  have hp : L - (L - (callBoth (4 * n) L (step L)).buf.length) = (callBoth (4 * n) L (step L)).buf.length := by omega
  simp only [encodeLoop, hreset, hrc, hin, hout, hp]
  simp

theorem callBoth_ok (inLen told : Nat) (r : Round) (h : (callBoth inLen told r).rc = .ok) :
    r.main.rc = .ok ∧ r.flush.rc = .ok ∧ (callBoth inLen told r).buf = r.main.written ++ r.flush.written ∧
    (callBoth inLen told r).outLeft = told - (callBoth inLen told r).buf.length ∧
    (callBoth inLen told r).inLeft = inLen - r.main.consumed := by
  unfold callBoth at h ⊢
  cases hm : r.main.rc with
  | ok =>
    simp only [hm] at h ⊢
    refine ⟨trivial, h, trivial, ?_, trivial⟩
    simp only [List.length_append]; omega
  | e2big => simp [hm] at h
  | eilseq => simp [hm] at h
  | einval => simp [hm] at h
  | other n => simp [hm] at h

/-- **contract of one conversion** (Spec side): told fewer than `need` bytes iconv answers E2BIG; told at least `need` it
    consumes the whole input and has written `produced` (conversion call and flush call together) -/
structure ConvertsTo (step : Step) (inLen : Nat) (produced : List UInt8) (need : Nat) : Prop where
  fits : produced.length ≤ need
  small : ∀ told, told < need → (step told).reset = none ∧ (callBoth inLen told (step told)).rc = .e2big
  big : ∀ told, need ≤ told → (step told).reset = none ∧ (callBoth inLen told (step told)).rc = .ok ∧
    (step told).main.consumed = inLen ∧ (callBoth inLen told (step told)).buf = produced

theorem decodeLoop_returns_produced (step : Step) (input : List UInt8) (produced : List UInt8) (need k : Nat)
    (h : ConvertsTo step input.length produced need) (h4 : produced.length = 4 * k)
    (hvalid : (wchars produced).any (· > 0x10FFFF) = false) :
    ∀ (fuel L : Nat), 1 ≤ L → 1 ≤ fuel → need < fuel + L →
      (decodeLoop step input fuel L).1 = .ok (wchars produced) := by
  intro fuel
  induction fuel with
  | zero => intro L _ h; omega
  | succ fuel ih =>
    intro L hL _ hN
    by_cases hbig : need ≤ L
    · obtain ⟨hreset, hrc, hcons, hbuf⟩ := h.big L hbig
      obtain ⟨_, _, _, hout, hin⟩ := callBoth_ok _ _ _ hrc
      have hfit : (callBoth input.length L (step L)).buf.length ≤ L := by rw [hbuf]; exact Nat.le_trans h.fits hbig
      rw [decodeLoop_ok step input fuel L hreset hrc (by rw [hin, hcons]; omega) hout hfit k (by rw [hbuf]; exact h4)
        (by rw [hbuf]; exact hvalid), hbuf]
    · obtain ⟨hreset, hrc⟩ := h.small L (by omega)
      rw [decodeLoop_e2big step input fuel L hreset hrc]
      exact ih (L * 2) (by omega) (by omega) (by omega)

theorem encodeLoop_returns_produced (step : Step) (n : Nat) (produced : List UInt8) (need : Nat)
    (h : ConvertsTo step (4 * n) produced need) :
    ∀ (fuel L : Nat), 1 ≤ L → 1 ≤ fuel → need < fuel + L →
      (encodeLoop step n fuel L).1 = .ok produced := by
  intro fuel
  induction fuel with
  | zero => intro L _ h; omega
  | succ fuel ih =>
    intro L hL _ hN
    by_cases hbig : need ≤ L
    · obtain ⟨hreset, hrc, hcons, hbuf⟩ := h.big L hbig
      obtain ⟨_, _, _, hout, hin⟩ := callBoth_ok _ _ _ hrc
      have hfit : (callBoth (4 * n) L (step L)).buf.length ≤ L := by rw [hbuf]; exact Nat.le_trans h.fits hbig
      rw [encodeLoop_ok step n fuel L hreset hrc (by rw [hin, hcons]; omega) hout hfit, hbuf]
    · obtain ⟨hreset, hrc⟩ := h.small L (by omega)
      rw [encodeLoop_e2big step n fuel L hreset hrc]
      exact ih (L * 2) (by omega) (by omega) (by omega)

/-! ## (d) error spans -/

theorem findIdx?_lt {α : Type} (p : α → Bool) : ∀ (l : List α) (k : Nat), l.findIdx? p = some k → k < l.length := by
  intro l k h
  have := List.findIdx?_eq_some_iff_getElem.mp h
  exact this.1

theorem syncEnd_span (input : List UInt8) (start : Nat) (h : start < input.length) :
    start < syncEnd input start ∧ syncEnd input start ≤ input.length := by
  unfold syncEnd
  simp only
  split
  · rename_i k hk
    have := findIdx?_lt _ _ _ hk
    simp only [List.length_drop] at this
    omega
  · omega

/-- whenever iconv reports EILSEQ/EINVAL with at least one input byte left (the offending sequence is not consumed), the
    UnicodeDecodeError raised has `0 ≤ start < end ≤ len(input)` -/
theorem decodeLoop_error_span (step : Step) (input : List UInt8)
    (hc : ∀ told, (step told).reset = none →
      ((callBoth input.length told (step told)).rc = .eilseq ∨ (callBoth input.length told (step told)).rc = .einval) →
      1 ≤ (callBoth input.length told (step told)).inLeft) :
    ∀ (fuel L s e : Nat), (decodeLoop step input fuel L).1 = .unicodeError s e → s < e ∧ e ≤ input.length := by
  intro fuel
  induction fuel with
  | zero => intro L s e h; simp [decodeLoop] at h
  | succ fuel ih =>
    intro L s e h
    have hle : (callBoth input.length L (step L)).inLeft ≤ input.length := by
      unfold callBoth; split <;> simp only <;> omega
    simp only [decodeLoop] at h
    split at h
    · cases h
    · rename_i hreset
      split at h
      · exact ih (L * 2) s e (by simpa using h)
      · rename_i hrc
        have h1 := hc L hreset (.inl hrc)
        simp only [Outcome.unicodeError.injEq] at h
        obtain ⟨rfl, rfl⟩ := h
        exact syncEnd_span input _ (by omega)
      · rename_i hrc
        have h1 := hc L hreset (.inr hrc)
        simp only [Outcome.unicodeError.injEq] at h
        obtain ⟨rfl, rfl⟩ := h
        exact syncEnd_span input _ (by omega)
      · cases h
      · split at h
        · cases h
        · split at h
          · cases h
          · split at h <;> cases h

/-- for encoding: with a whole UTF-32 unit (4 bytes) left unconsumed, `0 ≤ start < end = start + 1 ≤ len(input)` -/
theorem encodeLoop_error_span (step : Step) (n : Nat)
    (hc : ∀ told, (step told).reset = none →
      ((callBoth (4 * n) told (step told)).rc = .eilseq ∨ (callBoth (4 * n) told (step told)).rc = .einval) →
      4 ≤ (callBoth (4 * n) told (step told)).inLeft) :
    ∀ (fuel L s e : Nat), (encodeLoop step n fuel L).1 = .unicodeError s e → e = s + 1 ∧ e ≤ n := by
  intro fuel
  induction fuel with
  | zero => intro L s e h; simp [encodeLoop] at h
  | succ fuel ih =>
    intro L s e h
    have hle : (callBoth (4 * n) L (step L)).inLeft ≤ 4 * n := by
      unfold callBoth; split <;> simp only <;> omega
    simp only [encodeLoop] at h
    split at h
    · cases h
    · rename_i hreset
      split at h
      · exact ih (L * 2) s e (by simpa using h)
      · rename_i hrc
        have h1 := hc L hreset (.inl hrc)
        simp only [Outcome.unicodeError.injEq] at h
        obtain ⟨rfl, rfl⟩ := h
        omega
      · rename_i hrc
        have h1 := hc L hreset (.inr hrc)
        simp only [Outcome.unicodeError.injEq] at h
        obtain ⟨rfl, rfl⟩ := h
        omega
      · cases h
      · split at h <;> cases h

end I18n.Charset
