import I18n.Model.HdrPy
import I18n.Lemmas.HdrDomains
import I18n.Lemmas.HdrParse
/-!
# The Python-operation kit of the C15 / C16 translators: what each operation computes, in the model's terms
-/
set_option linter.unusedSimpArgs false
namespace I18n.HdrPy
open I18n

/-! ### `str.split(sep, 1)` / `str.rsplit(sep, 1)` -/

theorem split1_of_not_mem (sep : Char) (s : Str) (h : sep ∉ s) : split1 sep s = [s] := by
  induction s with
  | nil => rfl
  | cons c cs ih =>
    have hc : c ≠ sep := fun e => h (by simp [e])
    have hcs : sep ∉ cs := fun m => h (by simp [m])
    simp [split1, hc, ih hcs]

theorem split1_of_split (sep : Char) (a b : Str) (h : sep ∉ a) : split1 sep (a ++ sep :: b) = [a, b] := by
  induction a with
  | nil => simp [split1]
  | cons c cs ih =>
    have hc : c ≠ sep := fun e => h (by simp [e])
    have hcs : sep ∉ cs := fun m => h (by simp [m])
    simp [split1, hc, ih hcs]

theorem rsplit1_of_not_mem (sep : Char) (s : Str) (h : sep ∉ s) : rsplit1 sep s = [s] := by
  unfold rsplit1
  rw [split1_of_not_mem sep s.reverse (by simpa using h)]

theorem rsplit1_of_split (sep : Char) (a b : Str) (h : sep ∉ b) : rsplit1 sep (a ++ sep :: b) = [a, b] := by
  unfold rsplit1
  have e : (a ++ sep :: b).reverse = b.reverse ++ sep :: a.reverse := by simp
  rw [e, split1_of_split sep b.reverse a.reverse (by simpa using h)]
  simp

/-- `email.rsplit('@', 1)` on an address with `@`: `[…, domainOf email]` -/
theorem rsplit1_at (email : Str) (h : '@' ∈ email) : ∃ loc, rsplit1 '@' email = [loc, Domains.domainOf email] := by
  obtain ⟨loc, e, hn⟩ := Domains.domainOf_spec email h
  refine ⟨loc, ?_⟩
  conv => lhs; rw [e]
  exact rsplit1_of_split '@' loc _ hn


/-! ### lists -/

theorem listGetInt_neg_one {α : Type} (xs : List α) :
    PyKit.listGetInt xs (-1 : Int) = match xs.getLast? with | some x => .ok x | none => .error .IndexError := by
  cases xs with
  | nil => simp [PyKit.listGetInt]
  | cons a as =>
    have h1 : ¬ ((-1 : Int) ≥ 0) := by omega
    have h2 : (-1 : Int) + ((a :: as).length : Int) ≥ 0 := by simp only [List.length_cons]; omega
    have h3 : ((-1 : Int) + ((a :: as).length : Int)).toNat = as.length := by simp only [List.length_cons]; omega
    simp only [PyKit.listGetInt, if_neg h1, if_pos h2, h3, PyKit.listGet]
    rw [List.getLast?_eq_getElem?]
    simp

theorem pop_of_ne_nil {α : Type} (xs : List α) (h : xs ≠ []) : pop xs = .ok xs.dropLast := by
  cases xs with
  | nil => exact absurd rfl h
  | cons a as => rfl

/-- a loop that appends one value per element and cannot fail (a generator that yields once per iteration) -/
theorem forEach_yield {α β : Type} (f : α → β) (body : α → List β → Except Py.Exc (List β))
    (hb : ∀ x acc, body x acc = .ok (acc ++ [f x])) (xs : List α) (acc : List β) :
    PyKit.forEach xs body acc = .ok (acc ++ xs.map f) := by
  induction xs generalizing acc with
  | nil => simp [PyKit.forEach]
  | cons x xs ih => simp [PyKit.forEach, hb, ih, List.append_assoc]

/-! ### `line.split(':', 1)` and `.strip(' \t')` as the model has them -/

theorem split1_colon (l : Str) :
    split1 ':' l = match Hdr.splitColon l with | (k, some v) => [k, v] | (k, none) => [k] := by
  rcases h : Hdr.splitColon l with ⟨k, _ | v⟩
  · obtain ⟨rfl, hn⟩ := (Hdr.splitColon_none l k).1 h
    simp [split1_of_not_mem _ _ hn]
  · obtain ⟨rfl, hn⟩ := (Hdr.splitColon_some l k v).1 h
    simp [split1_of_split _ _ _ hn]

theorem strip_blanks (v : Str) : strip " \t".toList v = Hdr.stripBlanks v := by
  have e : (fun c => " \t".toList.contains c) = Hdr.isBlank := by
    funext c
    have : " \t".toList = [' ', '\t'] := rfl
    rw [this]
    simp only [Hdr.isBlank, List.contains_cons, List.contains_nil, Bool.or_false]
    by_cases h1 : c = ' ' <;> by_cases h2 : c = '\t' <;> simp [h1, h2]
  simp only [strip, rstrip, lstrip, Hdr.stripBlanks, e]

@[simp] theorem strip_blanks' (v : Str) : strip [' ', '\t'] v = Hdr.stripBlanks v := strip_blanks v

end I18n.HdrPy
