import I18n.Model.HdrPy
import I18n.Lemmas.HdrDomains
/-!
# The Python-operation kit of the C15 / C16 translators: what each operation computes, in the model's terms
-/
set_option linter.unusedSimpArgs false
namespace I18n.HdrPy
open I18n

/-! ### `str.split(sep, 1)` / `str.rsplit(sep, 1)` -/

theorem split1_of_not_mem (sep : Char) (s : Str) (h : sep ∉ s) : split1 sep s = [s] := by
  induction s with
  | nil => rfl
  | cons c cs ih =>
    have hc : c ≠ sep := fun e => h (by simp [e])
    have hcs : sep ∉ cs := fun m => h (by simp [m])
    simp [split1, hc, ih hcs]

theorem split1_of_split (sep : Char) (a b : Str) (h : sep ∉ a) : split1 sep (a ++ sep :: b) = [a, b] := by
  induction a with
  | nil => simp [split1]
  | cons c cs ih =>
    have hc : c ≠ sep := fun e => h (by simp [e])
    have hcs : sep ∉ cs := fun m => h (by simp [m])
    simp [split1, hc, ih hcs]

theorem rsplit1_of_not_mem (sep : Char) (s : Str) (h : sep ∉ s) : rsplit1 sep s = [s] := by
  unfold rsplit1
  rw [split1_of_not_mem sep s.reverse (by simpa using h)]

theorem rsplit1_of_split (sep : Char) (a b : Str) (h : sep ∉ b) : rsplit1 sep (a ++ sep :: b) = [a, b] := by
  unfold rsplit1
  have e : (a ++ sep :: b).reverse = b.reverse ++ sep :: a.reverse := by simp
  rw [e, split1_of_split sep b.reverse a.reverse (by simpa using h)]
  simp

/-- `email.rsplit('@', 1)` on an address with `@`: `[…, domainOf email]` -/
theorem rsplit1_at (email : Str) (h : '@' ∈ email) : ∃ loc, rsplit1 '@' email = [loc, Domains.domainOf email] := by
  obtain ⟨loc, e, hn⟩ := Domains.domainOf_spec email h
  refine ⟨loc, ?_⟩
  conv => lhs; rw [e]
  exact rsplit1_of_split '@' loc _ hn

end I18n.HdrPy
