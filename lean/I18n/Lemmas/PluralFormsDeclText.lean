import I18n.Lemmas.CheckPluralsFinal
import I18n.Lemmas.PluralFormsText
namespace I18n.CheckPlurals
open I18n I18n.Py I18n.Plural I18n.PluralParse I18n.Spec.PluralForms

/-- **The reference reading, as plain text.**  `declOf v = some d` iff `v = ljunk ++ q` where `q` STARTS with the declaration
    syntax `nplurals=<ds>;<blanks>plural=<ex>[;]` followed by `rjunk`, no occurrence of the syntax starts earlier in `v`,
    `n` is the decimal value of `ds` and `ex` parses to `e`. -/
theorem declOf_text (v : List Char) (d : Decl) :
    declOf v = some d ↔ ∃ q ds ex, v = d.ljunk ++ q ∧ OccursAt q ds ex d.rjunk ∧ NoneBefore v d.ljunk.length ∧
      d.n = decimal ds ∧ parse ex = .ok d.e := by
  obtain ⟨n, e, lj, rj⟩ := d
  rw [← declOf_eq_some]
  simp only
  constructor
  · intro h
    unfold parsePluralForms at h
    split at h
    · cases h
    · rename_i lj' ds ex rj' hs
      rw [tooLong_false] at h
      simp only [Bool.false_eq_true, ↓reduceIte] at h
      split at h
      · rename_i e' hp
        simp only [PfResult.ok.injEq] at h
        obtain ⟨rfl, rfl, rfl, rfl⟩ := h
        obtain ⟨p, q, hv, hlj, hocc, hleft⟩ := search_occurs v [] _ ds ex _ hs
        simp only [List.reverse_nil, List.nil_append] at hlj
        subst hlj
        exact ⟨q, ds, ex, hv, hocc, hleft, rfl, hp⟩
      · cases h
      · cases h
  · rintro ⟨q, ds, ex, hv, hocc, hleft, hn, hp⟩
    have hs := search_of_leftmost lj v q [] ds ex rj hv hocc hleft
    simp only [List.reverse_nil, List.nil_append] at hs
    unfold parsePluralForms
    rw [hs]
    simp only [tooLong_false, Bool.false_eq_true, ↓reduceIte, hp, hn, decimal_eq]

/-- … and there is no declaration iff the syntax occurs nowhere, or the expression text of its leftmost occurrence does
    not parse (a later, well-formed occurrence does not help: the reading of DESIGN §6 C07). -/
theorem declOf_none_text (v : List Char) :
    declOf v = none ↔ (∀ p q, v = p ++ q → ∀ ds ex rj, ¬ OccursAt q ds ex rj) ∨
      (∃ p q ds ex rj, v = p ++ q ∧ OccursAt q ds ex rj ∧ NoneBefore v p.length ∧ ∀ e, parse ex ≠ .ok e) := by
  rw [← declOf_eq_none]
  unfold parsePluralForms
  cases hs : CheckPlurals.search [] v with
  | none =>
    simp only [true_iff]
    exact Or.inl ((search_none_iff v []).1 hs)
  | some y =>
    obtain ⟨lj, ds, ex, rj⟩ := y
    obtain ⟨p, q, hv, hlj, hocc, hleft⟩ := search_occurs v [] lj ds ex rj hs
    simp only [List.reverse_nil, List.nil_append] at hlj
    subst hlj
    simp only [tooLong_false, Bool.false_eq_true, ↓reduceIte]
    constructor
    · intro h
      right
      refine ⟨lj, q, ds, ex, rj, hv, hocc, hleft, ?_⟩
      intro e he
      rw [he] at h
      cases h
    · rintro (hnone | ⟨p', q', ds', ex', rj', hv', hocc', hleft', hnp⟩)
      · exact absurd hocc (hnone lj q hv ds ex rj)
      · have hs' := search_of_leftmost p' v q' [] ds' ex' rj' hv' hocc' hleft'
        simp only [List.reverse_nil, List.nil_append] at hs'
        rw [hs] at hs'
        simp only [Option.some.injEq, Prod.mk.injEq] at hs'
        obtain ⟨_, _, rfl, _⟩ := hs'
        cases hp : parse ex with
        | ok e => exact absurd hp (hnp e)
        | syntaxError => rfl
        | valueError => exact absurd hp (parse_ne_valueError ex)

end I18n.CheckPlurals
