import I18n.Lemmas.FmtCheckOrder
import I18n.Lemmas.FmtCheckMessage
import I18n.Props.C13
/-!
# The brace kinds on strings: the comparators composed with the parser models of C13

`braceSigOf` / `perlSigOf` turn what the parser models report (`PyBrace.Result`, `PerlBrace.Result`) into what the comparators
read (`FmtSig`).  Faithfulness: same keys in the same (dict) order, the same type set per use, the same names; what is parsed is
well formed for the comparators (`BraceWf`, `PerlWf`); parser errors are the modules' own.
-/
namespace I18n.FmtCheck
open I18n I18n.FmtSig I18n.Spec.FmtCompare

/-! ## faithfulness of the conversion -/

theorem keyOfBrace_injective : ∀ {a b : PyBrace.Key}, keyOfBrace a = keyOfBrace b → a = b
  | .idx _, .idx _, h => by cases h; rfl
  | .name _, .name _, h => by cases h; rfl
  | .idx _, .name _, h => by cases h
  | .name _, .idx _, h => by cases h

theorem tyOfBrace_injective {a b : PyBrace.TySet} (h : tyOfBrace a = tyOfBrace b) : a = b := by
  cases a; cases b; simp only [tyOfBrace, TySet.mk.injEq] at h; simp [h]

/-- intersection, emptiness and the printed names commute with the conversion -/
theorem tyOfBrace_inter (a b : PyBrace.TySet) : (tyOfBrace a).inter (tyOfBrace b) = tyOfBrace (a.inter b) := rfl

theorem tyOfBrace_nonempty (a : PyBrace.TySet) : (tyOfBrace a).nonempty = !a.isEmpty := by
  cases a with
  | mk s i f => cases s <;> cases i <;> cases f <;> rfl

theorem tyOfBrace_names (a : PyBrace.TySet) : (tyOfBrace a).names = a.names.map String.toList := by
  cases a with
  | mk s i f => cases s <;> cases i <;> cases f <;> rfl

/-- **keys and order**: the comparator sees the keys of `argument_map` in the parser's (dict insertion) order -/
theorem braceSigOf_keys (r : PyBrace.Result) : (braceSigOf r).args.map (·.1) = r.argMap.map (fun p => keyOfBrace p.1) := by
  simp [braceSigOf, Function.comp_def]

/-- **type sets**: under every key, the type sets of its uses in order -/
theorem braceSigOf_uses (r : PyBrace.Result) (k : PyBrace.Key) (as : List PyBrace.Arg) (h : (k, as) ∈ r.argMap) :
    (keyOfBrace k, as.map fun a => tyOfBrace a.types) ∈ (braceSigOf r).args :=
  List.mem_map.2 ⟨(k, as), h, rfl⟩

theorem braceSigOf_len (r : PyBrace.Result) : (braceSigOf r).nitems = r.items.length := rfl

/-- the `argument_map` of an accepted string: distinct keys, every key with at least one use, all uses of a key carrying one
    non-empty type set (C13's `SigOK`) -/
theorem parse_sigOK {s : List Char} {r : PyBrace.Result} (h : PyBrace.parse s = .ok r) : PyBrace.SigOK r.argMap := by
  simp only [PyBrace.parse, PyBrace.parseWith] at h
  split at h
  · cases h
  · rename_i stF items hl
    split at h
    · cases h
    · rename_i m hu
      cases h
      have hm := PyBrace.loop_mapOK PyBrace.liveCfg _ _ _ _ _ _ hl ⟨by simp, by intro k as h; simp at h⟩
      exact PyBrace.unify_sigOK s _ _ hu hm

theorem nodup_map_of_injective {α β : Type} (f : α → β) (hf : ∀ a b, f a = f b → a = b) : ∀ l : List α, l.Nodup → (l.map f).Nodup
  | [], _ => by simp
  | a :: l, h => by
    have h' := List.nodup_cons.1 h
    simp only [List.map_cons, List.nodup_cons]
    refine ⟨?_, nodup_map_of_injective f hf l h'.2⟩
    intro hm
    obtain ⟨b, hb, hfb⟩ := List.mem_map.1 hm
    exact h'.1 (hf _ _ hfb ▸ hb)

theorem braceWf_of_sigOK {r : PyBrace.Result} (h : PyBrace.SigOK r.argMap) : BraceWf (braceSigOf r) := by
  constructor
  · rw [braceSigOf_keys]
    have : r.argMap.map (fun p => keyOfBrace p.1) = (r.argMap.map (·.1)).map keyOfBrace := by simp
    rw [this]
    exact nodup_map_of_injective keyOfBrace (fun _ _ => keyOfBrace_injective) _ h.1
  · intro p hp
    obtain ⟨q, hq, rfl⟩ := List.mem_map.1 hp
    have := (h.2 q.1 q.2 hq).1
    simpa using this

/-- **what `FormatString(s)` yields is well formed for the comparator** -/
theorem pyBraceParse_wf {s : List Char} {f : PyBraceSig} (h : pyBraceParse s = .ok f) : BraceWf f := by
  unfold pyBraceParse at h
  cases hp : PyBrace.parse s with
  | error e => rw [hp] at h; cases e <;> cases h
  | ok r =>
    rw [hp] at h
    simp only [ParseOutcome.ok.injEq] at h
    subst h
    exact braceWf_of_sigOK (parse_sigOK hp)

/-- the python-brace parser raises only its own errors (C13 `brace_error_own`) -/
theorem pyBraceParse_nocrash (s : List Char) (e : Py.Exc) : pyBraceParse s ≠ .crash e := by
  unfold pyBraceParse
  cases hp : PyBrace.parse s with
  | ok r => simp
  | error err =>
    obtain ⟨c, a, rfl⟩ := I18n.Props.C13.brace_error_own hp
    simp

/-- `pyBraceParse` rejects exactly when the parser model raises one of the module's `Error` classes -/
theorem pyBraceParse_own_iff (s : List Char) : pyBraceParse s = .own ↔ ∃ c a, PyBrace.parse s = .error (.own c a) := by
  unfold pyBraceParse
  cases hp : PyBrace.parse s with
  | ok r => simp
  | error err =>
    cases err with
    | own c a => simp
    | crash e => simp

theorem valueAt_of_mem_nodup' {κ ν : Type} [DecidableEq κ] : ∀ {m : Named κ ν} {k : κ} {v : ν},
    (m.map (·.1)).Nodup → (k, v) ∈ m → valueAt m k = some v
  | [], _, _, _, h => by cases h
  | (k', v') :: rest, k, v, hn, h => by
    simp only [List.map_cons, List.nodup_cons] at hn
    simp only [valueAt]
    rcases List.mem_cons.1 h with heq | hmem
    · cases heq; simp
    · have hne : k' ≠ k := by
        intro hk
        subst hk
        exact hn.1 (List.mem_map.2 ⟨(k', v), hmem, rfl⟩)
      simp only [hne, ↓reduceIte]
      exact valueAt_of_mem_nodup' hn.2 hmem

/-- argument `k` of the parsed string has the (common, non-empty) type set `c` -/
def HasArg (r : PyBrace.Result) (k : PyBrace.Key) (c : PyBrace.TySet) : Prop :=
  ∃ as, (k, as) ∈ r.argMap ∧ as ≠ [] ∧ ∀ a ∈ as, a.types = c

theorem valueAt_map_inj {κ κ' ν ν' : Type} [DecidableEq κ] [DecidableEq κ'] (f : κ → κ') (hf : ∀ a b, f a = f b → a = b) (g : ν → ν') (k : κ) :
    ∀ m : List (κ × ν), valueAt (m.map fun p => (f p.1, g p.2)) (f k) = (valueAt m k).map g
  | [] => rfl
  | (k', v) :: rest => by
    simp only [List.map_cons, valueAt]
    by_cases h : k' = k
    · subst h; simp
    · have : ¬ f k' = f k := fun e => h (hf _ _ e)
      simp only [h, this, ↓reduceIte]
      exact valueAt_map_inj f hf g k rest

/-- **the reference view of the comparator is the parser's key ↦ common type set** -/
theorem braceNamed_value {r : PyBrace.Result} (hs : PyBrace.SigOK r.argMap) (k : PyBrace.Key) (c : PyBrace.TySet) :
    valueAt (braceNamed (braceSigOf r)) (keyOfBrace k) = some (tyOfBrace c) ↔ HasArg r k c := by
  unfold braceNamed viewOf braceSigOf
  simp only [List.map_map, Function.comp_def]
  rw [valueAt_map_inj keyOfBrace (fun _ _ => keyOfBrace_injective) (fun as : List PyBrace.Arg => headTy (as.map fun a => tyOfBrace a.types))]
  constructor
  · intro h
    cases hv : valueAt r.argMap k with
    | none => rw [hv] at h; cases h
    | some as =>
      rw [hv] at h
      simp only [Option.map_some, Option.some.injEq] at h
      have hmem := get_mem hv
      obtain ⟨hne, c', _, hall⟩ := hs.2 k as hmem
      refine ⟨as, hmem, hne, ?_⟩
      cases as with
      | nil => exact absurd rfl hne
      | cons a rest =>
        simp only [List.map_cons, headTy] at h
        have hc : c' = c := by rw [← hall a (by simp)]; exact tyOfBrace_injective h
        subst hc
        exact hall
  · rintro ⟨as, hmem, hne, hall⟩
    rw [valueAt_of_mem_nodup' hs.1 hmem]
    cases as with
    | nil => exact absurd rfl hne
    | cons a rest => simp [headTy, hall a (by simp)]

theorem braceNamed_keys (r : PyBrace.Result) (k : PyBrace.Key) :
    keyOfBrace k ∈ keys (braceNamed (braceSigOf r)) ↔ k ∈ r.argMap.map (·.1) := by
  have : keys (braceNamed (braceSigOf r)) = (r.argMap.map (·.1)).map keyOfBrace := by
    unfold braceNamed; rw [keys_viewOf, braceSigOf_keys]; simp
  rw [this]
  constructor
  · intro h
    obtain ⟨k', hk', he⟩ := List.mem_map.1 h
    rw [← keyOfBrace_injective he]; exact hk'
  · intro h; exact List.mem_map.2 ⟨k, h, rfl⟩

/-! ### perl-brace -/

theorem nodup_eraseDups {α : Type} [BEq α] [LawfulBEq α] : ∀ (n : Nat) (l : List α), l.length ≤ n → l.eraseDups.Nodup
  | 0, l, h => by
    have : l = [] := List.eq_nil_of_length_eq_zero (by omega)
    subst this; simp
  | n + 1, [], _ => by simp
  | n + 1, a :: l, h => by
    rw [List.eraseDups_cons, List.nodup_cons]
    constructor
    · intro hm
      have := (List.mem_filter.1 (List.mem_eraseDups.1 hm)).2
      simp at this
    · apply nodup_eraseDups n
      have := List.length_filter_le (fun b => !b == a) l
      simp only [List.length_cons] at h
      omega

theorem perlSigOf_wf (r : PerlBrace.Result) : PerlWf (perlSigOf r) :=
  nodup_eraseDups _ r.names (Nat.le_refl _)

theorem perlBraceParse_nocrash (s : List Char) (e : Py.Exc) : perlBraceParse s ≠ .crash e := by
  unfold perlBraceParse
  cases hp : PerlBrace.parse s with
  | ok r => simp
  | error err =>
    obtain ⟨p, rfl⟩ := I18n.Props.C13.perl_error_own hp
    simp

open I18n.Spec.PerlBraceRef in
/-- **the perl-brace signature of an accepted string is its set of placeholder identifiers** (C13 `perl_names`) -/
theorem perlBraceParse_ok {s : List Char} (hwf : WellFormed s) :
    ∃ r, PerlBrace.parse s = .ok r ∧ perlBraceParse s = .ok (perlSigOf r) ∧ ∀ w, w ∈ (perlSigOf r).args ↔ IsArgument s w := by
  obtain ⟨r, hr⟩ := (I18n.Props.C13.perl_iff s).2 hwf
  refine ⟨r, hr, by unfold perlBraceParse; rw [hr], (I18n.Props.C13.perl_names hr).1⟩

open I18n.Spec.PerlBraceRef in
theorem perlBraceParse_own_iff (s : List Char) : perlBraceParse s = .own ↔ ¬ WellFormed s := by
  unfold perlBraceParse
  constructor
  · intro h hwf
    obtain ⟨r, hr⟩ := (I18n.Props.C13.perl_iff s).2 hwf
    rw [hr] at h; cases h
  · intro hn
    cases hp : PerlBrace.parse s with
    | ok r => exact absurd ((I18n.Props.C13.perl_iff s).1 ⟨r, hp⟩) hn
    | error err =>
      obtain ⟨p, rfl⟩ := I18n.Props.C13.perl_error_own hp
      rfl

/-! ### rendered perl-brace strings -/

open I18n.Spec.PerlBraceRef in
/-- items a perl-brace string can be rendered from: literal runs without `{`, placeholders with an identifier -/
def PerlClean : List PerlBrace.Item → Prop
  | [] => True
  | .lit t :: rest => '{' ∉ t ∧ PerlClean rest
  | .field n :: rest => IsIdent n ∧ PerlClean rest

open I18n.Spec.PerlBraceRef in
/-- **a rendered perl-brace string is well formed and its arguments are the names of its placeholder items** -/
theorem perl_render_spec : ∀ (items : List PerlBrace.Item), PerlClean items →
    WellFormed (PerlBrace.itemsText items) ∧ ∀ w, IsArgument (PerlBrace.itemsText items) w ↔ PerlBrace.Item.field w ∈ items
  | [], _ => by
    refine ⟨by simpa [PerlBrace.itemsText] using PerlBrace.wf_nil, fun w => ?_⟩
    simp only [PerlBrace.itemsText, List.map_nil, List.flatten_nil, List.not_mem_nil, iff_false]
    rintro ⟨_, pre, rest, h⟩
    simp at h
  | .lit t :: rest, h => by
    obtain ⟨ih1, ih2⟩ := perl_render_spec rest h.2
    have e : PerlBrace.itemsText (.lit t :: rest) = t ++ PerlBrace.itemsText rest := by
      simp [PerlBrace.itemsText, PerlBrace.Item.text]
    rw [e]
    refine ⟨(PerlBrace.wf_append_lit t h.1 _).2 ih1, fun w => ?_⟩
    rw [PerlBrace.arg_append_lit t h.1, ih2 w]
    simp
  | .field n :: rest, h => by
    obtain ⟨ih1, ih2⟩ := perl_render_spec rest h.2
    have e : PerlBrace.itemsText (.field n :: rest) = '{' :: n ++ '}' :: PerlBrace.itemsText rest := by
      simp [PerlBrace.itemsText, PerlBrace.Item.text]
    rw [e]
    refine ⟨(PerlBrace.wf_field h.1 _).2 ih1, fun w => ?_⟩
    rw [PerlBrace.arg_field h.1, ih2 w]
    simp only [List.mem_cons, PerlBrace.Item.field.injEq]

end I18n.FmtCheck
