import I18n.Model.FmtCheckGen
/-!
# The `check_args` regenerated from `lib/check/msgformat/*.py` equal the hand-written comparators of C14

`I18n.Generated.FmtArgs` is rewritten by `tools/translate/fmtargs2lean.py` from the current source on every run.  This file
proves, for all inputs, that each regenerated function computes the model function the theorems of `Props/C14.lean` are about.
The proofs never name a bound variable of the generated text.
-/
set_option linter.unusedSimpArgs false
set_option linter.unusedVariables false
namespace I18n.FmtCheck.Gen
open I18n I18n.FmtSig I18n.FmtCheck I18n.Generated

/-! ### ints: `len(x)` is `(x.length : Int)` in the generated code -/

theorem cast_eq_one (n : Nat) : ((n : Int) = 1) ↔ n = 1 := by omega
theorem cast_gt (n m : Nat) : ((n : Int) > (m : Int)) ↔ n > m := by omega
theorem cast_lt (n m : Nat) : ((n : Int) < (m : Int)) ↔ n < m := by omega
theorem cast_ne (n m : Nat) : ((n : Int) ≠ (m : Int)) ↔ n ≠ m := by omega

/-! ### loops that append tag calls -/

/-- the tag calls of a step, appended to what was emitted before -/
def appendTags (out : List TagCall) (r : Except Py.Exc (List TagCall)) : Except Py.Exc (List TagCall) :=
  match r with
  | .error e => .error e
  | .ok ts => .ok (out ++ ts)

@[simp] theorem appendTags_error (out : List TagCall) (e : Py.Exc) : appendTags out (.error e) = .error e := rfl
@[simp] theorem appendTags_ok (out ts : List TagCall) : appendTags out (.ok ts) = .ok (out ++ ts) := rfl

/-- what a loop over `xs` emits when one iteration emits `step x` -/
def collect {α : Type} (step : α → Except Py.Exc (List TagCall)) : List α → Except Py.Exc (List TagCall)
  | [] => .ok []
  | x :: xs =>
    match step x with
    | .error e => .error e
    | .ok t =>
      match collect step xs with
      | .error e => .error e
      | .ok ts => .ok (t ++ ts)

theorem forEach_collect {α : Type} (step : α → Except Py.Exc (List TagCall))
    (body : α → List TagCall → Except Py.Exc (List TagCall))
    (hb : ∀ x out, body x out = appendTags out (step x)) (xs : List α) :
    ∀ out, PyKit.forEach xs body out = appendTags out (collect step xs) := by
  induction xs with
  | nil => intro out; simp [PyKit.forEach, collect]
  | cons x xs ih =>
    intro out
    simp only [PyKit.forEach, collect, hb]
    cases step x with
    | error e => rfl
    | ok t =>
      simp only [appendTags_ok, ih]
      cases collect step xs <;> simp [List.append_assoc]

/-- `collect` of a step that cannot fail -/
theorem collect_pure {α : Type} (f : α → List TagCall) (xs : List α) :
    collect (fun x => .ok (f x)) xs = .ok (xs.map f).flatten := by
  induction xs with
  | nil => rfl
  | cons x xs ih => simp [collect, ih]


/-- a loop that emits exactly one tag call per element and cannot fail -/
theorem forEach_one {α : Type} (f : α → TagCall) (body : α → List TagCall → Except Py.Exc (List TagCall))
    (hb : ∀ x out, body x out = .ok (out ++ [f x])) (xs : List α) (out : List TagCall) :
    PyKit.forEach xs body out = .ok (out ++ xs.map f) := by
  induction xs generalizing out with
  | nil => simp [PyKit.forEach]
  | cons x xs ih => simp [PyKit.forEach, hb, ih, List.append_assoc]

/-- `lib/check/msgformat/perlbrace.py` `check_args` as regenerated = `checkArgsPerlBrace` -/
theorem perl_check_args_eq (out : List TagCall) (pfx : Extra) (srcLoc : List Char) (src : PerlBraceSig) (dstLoc : List Char)
    (dst : PerlBraceSig) (ok : Bool) :
    FmtArgs.PerlBrace.check_args out pfx () srcLoc src dstLoc dst ok =
      appendTags out (checkArgsPerlBrace pfx srcLoc src dstLoc dst ok) := by
  simp only [FmtArgs.PerlBrace.check_args, checkArgsPerlBrace, PyKit.setDiff]
  rw [forEach_one (fun k => tagUnknown "perl-brace-format-string-unknown-argument" pfx (.str k) srcLoc dstLoc) _ ?hb1]
  case hb1 => intro _ _; rfl
  simp only [cast_eq_one, decide_eq_true_eq, Bool.and_eq_true, beq_iff_eq]
  generalize List.filter (fun k => !dst.args.contains k) src.args = missing
  by_cases hc : missing.length = 1 ∧ ok = true
  · have hc' : ok = true ∧ missing.length = 1 := ⟨hc.2, hc.1⟩
    simp only [if_pos hc, if_pos hc']
    rw [forEach_one (fun k => tagMissing "perl-brace-format-string-missing-argument" pfx (.str k) srcLoc dstLoc) _ ?hb2]
    case hb2 => intro _ _; rfl
    simp [List.append_assoc]
  · have hc' : ¬ (ok = true ∧ missing.length = 1) := fun h => hc ⟨h.2, h.1⟩
    simp only [if_neg hc, if_neg hc']
    rw [forEach_one (fun k => tagMissing "perl-brace-format-string-missing-argument" pfx (.str k) srcLoc dstLoc) _ ?hb2]
    case hb2 => intro _ _; rfl
    simp [List.append_assoc]

/-- a loop that cannot fail and emits `f x` per element -/
theorem forEach_many {α : Type} (f : α → List TagCall) (body : α → List TagCall → Except Py.Exc (List TagCall))
    (hb : ∀ x out, body x out = .ok (out ++ f x)) (xs : List α) (out : List TagCall) :
    PyKit.forEach xs body out = .ok (out ++ (xs.map f).flatten) := by
  induction xs generalizing out with
  | nil => simp [PyKit.forEach]
  | cons x xs ih => simp [PyKit.forEach, hb, ih, List.append_assoc]

/-! ### dicts -/

theorem dictGet_eq {κ ν : Type} [DecidableEq κ] (d : List (κ × ν)) (k : κ) :
    PyKit.dictGet d k = match lookupKey k d with | none => .error .KeyError | some v => .ok v := by
  induction d with
  | nil => rfl
  | cons p d ih =>
    obtain ⟨k', v⟩ := p
    by_cases h : k' = k <;> simp [PyKit.dictGet, lookupKey, h, ih]

/-- one iteration of the loop over the common keys, as the model has it -/
def mapStep {κ ν : Type} [DecidableEq κ] (clash : ν → ν → Option TagCall) (src dst : List (κ × List ν)) (k : κ) :
    Except Py.Exc (List TagCall) :=
  match lookupKey k src, lookupKey k dst with
  | some (s0 :: _), some (d0 :: _) => .ok (clash s0 d0).toList
  | some [], _ => .error .IndexError
  | some (_ :: _), some [] => .error .IndexError
  | none, _ => .error .KeyError
  | some (_ :: _), none => .error .KeyError

theorem collect_mapStep {κ ν : Type} [DecidableEq κ] (clash : ν → ν → Option TagCall) (src dst : List (κ × List ν)) (ks : List κ) :
    collect (mapStep clash src dst) ks = mapTypeTags clash src dst ks := by
  induction ks with
  | nil => rfl
  | cons k ks ih =>
    simp only [collect, mapTypeTags, mapStep, ih]
    cases lookupKey k src with
    | none => rfl
    | some us =>
      cases us with
      | nil => rfl
      | cons s0 _ =>
        cases lookupKey k dst with
        | none => rfl
        | some vs => cases vs <;> rfl

/-- the body of the loop over the common keys: two lookups, two `[0]`, the clash test -/
theorem mapBody_eq {κ ν : Type} [DecidableEq κ] (clash : ν → ν → Option TagCall) (src dst : List (κ × List ν)) (k : κ)
    (out : List TagCall) (K : ν → ν → Except Py.Exc (List TagCall))
    (hK : ∀ s0 d0, K s0 d0 = .ok (out ++ (clash s0 d0).toList)) :
    (match PyKit.dictGet src k with
      | .error e => .error e
      | .ok us =>
        match PyKit.listGet us 0 with
        | .error e => .error e
        | .ok s0 =>
          match PyKit.dictGet dst k with
          | .error e => .error e
          | .ok vs =>
            match PyKit.listGet vs 0 with
            | .error e => .error e
            | .ok d0 => K s0 d0) = appendTags out (mapStep clash src dst k) := by
  simp only [dictGet_eq, mapStep, PyKit.listGet]
  cases lookupKey k src with
  | none => rfl
  | some us =>
    cases us with
    | nil => rfl
    | cons s0 _ =>
      cases lookupKey k dst with
      | none => rfl
      | some vs =>
        cases vs with
        | nil => rfl
        | cons d0 _ => simp [hK]


/-- `missing_keys = …; if len(missing_keys) == 1 and omitted_int_conv_ok: [missing_key] = missing_keys; if all(…): missing_keys = set()` -/
theorem missing_eq {κ ν : Type} [DecidableEq κ] (isInt : ν → Bool) (src : List (κ × List ν)) (missing : List κ) (ok : Bool) :
    (if missing.length = 1 ∧ ok = true then
        match missing with
        | [k] =>
          match PyKit.dictGet src k with
          | .error e => .error e
          | .ok uses => if uses.all isInt = true then .ok [] else .ok missing
        | _ => .error .ValueError
      else .ok missing) = missingKeys isInt src missing ok := by
  simp only [dictGet_eq, missingKeys]
  rcases missing with _ | ⟨k, _ | ⟨k2, t⟩⟩
  · simp
  · cases ok
    · simp
    · simp only [List.length_singleton, and_self, if_true]
      cases lookupKey k src <;> simp
  · simp

/- the body of the loop over the common keys = `mapStep`: case analysis over the two lookups and the two `[0]` -/
set_option hygiene false in
local macro "map_hb" sd:term "," dd:term : tactic => `(tactic| (
  intro k out
  simp only [dictGet_eq, mapStep, PyKit.listGet, braceClash, pyClash]
  cases lookupKey k $sd with
  | none => rfl
  | some us =>
    cases us with
    | nil => rfl
    | cons s0 _ =>
      cases lookupKey k $dd with
      | none => rfl
      | some vs =>
        cases vs with
        | nil => rfl
        | cons d0 _ =>
          simp only [List.getElem?_cons_zero, appendTags_ok]
          split <;> simp_all [tagTypeMismatch, locExtra]))

/- the last loop (one `…-missing-argument` tag per remaining key), then both sides are lists of tag calls -/
local macro "last_loop" f:term : tactic => `(tactic| (
  rw [forEach_one $f _ (fun _ _ => by rfl)]
  simp [List.append_assoc]))

/- the `missing_keys` block = `missingKeys`: case analysis over the number of missing keys, the flag, the lookup, `all(…)` -/
set_option hygiene false in
local macro "missing_cases" sd:term "," p:term "," f:term : tactic => `(tactic| (
  simp only [cast_eq_one, decide_eq_true_eq, Bool.and_eq_true, dictGet_eq, missingKeys]
  rcases missing with _ | ⟨k, _ | ⟨k2, t⟩⟩
  · simp only [List.length_nil, Nat.zero_ne_one, false_and, if_false]
    last_loop $f
  · cases ok
    · simp only [Bool.false_eq_true, and_false, if_false]
      last_loop $f
    · simp only [List.length_singleton, and_self, if_true]
      cases lookupKey k $sd with
      | none => rfl
      | some uses =>
        simp only []
        by_cases hall : uses.all $p = true
        · simp only [if_pos hall]
          last_loop $f
        · simp only [if_neg hall]
          last_loop $f
  · simp only [List.length_cons, Nat.add_eq_right, Nat.add_eq_zero_iff, Nat.succ_ne_self, and_false, false_and, if_false,
      Nat.add_right_cancel_iff, Nat.add_one_ne_zero]
    last_loop $f))

theorem pybrace_check_args_eq (out : List TagCall) (pfx : Extra) (srcLoc : List Char) (src : PyBraceSig) (dstLoc : List Char)
    (dst : PyBraceSig) (ok : Bool) :
    FmtArgs.PyBrace.check_args out pfx () srcLoc src dstLoc dst ok =
      appendTags out (checkArgsPyBrace pfx srcLoc src dstLoc dst ok) := by
  simp only [FmtArgs.PyBrace.check_args, checkArgsPyBrace, PyKit.setDiff, PyKit.setInter, PyKit.keys]
  rw [forEach_collect (mapStep (braceClash pfx srcLoc dstLoc) src.args dst.args) _ ?hb1, collect_mapStep]
  case hb1 => map_hb src.args, dst.args
  cases mapTypeTags (braceClash pfx srcLoc dstLoc) src.args dst.args _ with
  | error e => rfl
  | ok t1 =>
    simp only [appendTags_ok]
    rw [forEach_one (fun k => tagUnknown "python-brace-format-string-unknown-argument" pfx k.extra srcLoc dstLoc) _ ?hb2]
    case hb2 => intro _ _; rfl
    simp only []
    obtain ⟨missing, hm⟩ : ∃ m, List.filter (fun k => !(List.map (fun x => x.fst) dst.args).contains k) (List.map (fun x => x.fst) src.args) = m := ⟨_, rfl⟩
    simp only [hm]
    missing_cases src.args, (fun arg => arg.int), (fun k => tagMissing "python-brace-format-string-missing-argument" pfx k.extra srcLoc dstLoc)

theorem pySeq_eq (pfx : Extra) (srcLoc dstLoc : List Char) (ss ds : List PEntry) :
    ((List.zip ss ds).map (fun p => if p.1.type != p.2.type then
        [tagTypeMismatch "python-format-string-argument-type-mismatch" pfx p.2.type.toList dstLoc p.1.type.toList srcLoc] else [])).flatten =
      pySeqTypeTags pfx srcLoc dstLoc ss ds := by
  induction ss generalizing ds with
  | nil => simp [pySeqTypeTags]
  | cons s ss ih =>
    cases ds with
    | nil => simp [pySeqTypeTags]
    | cons d ds => simp [pySeqTypeTags, ← ih]

theorem python_check_args_eq (out : List TagCall) (pfx : Extra) (srcLoc : List Char) (src : PyFmt.Result) (dstLoc : List Char)
    (dst : PyFmt.Result) (ok : Bool) :
    FmtArgs.Python.check_args out pfx () srcLoc src dstLoc dst ok =
      appendTags out (checkArgsPython pfx srcLoc src dstLoc dst ok) := by
  simp only [FmtArgs.Python.check_args, checkArgsPython, PyKit.setDiff, PyKit.setInter, PyKit.keys, cast_ne, decide_eq_true_eq,
    bne_iff_ne, ne_eq]
  -- the count tag
  obtain ⟨t1, ht1⟩ : ∃ t, (if ¬dst.seq.length = src.seq.length then
      [tagExcessOrMissing "python-format-string-argument-number-mismatch" pfx dst.seq.length dstLoc "!=" src.seq.length srcLoc]
      else []) = t := ⟨_, rfl⟩
  have h1 : (if ¬dst.seq.length = src.seq.length then
        (Except.ok (out ++ [⟨"python-format-string-argument-number-mismatch",
          [pfx, Extra.int ↑dst.seq.length, Extra.safe ("(".toList ++ dstLoc ++ ")".toList), Extra.str "!=".toList,
            Extra.int ↑src.seq.length, Extra.safe ("(".toList ++ srcLoc ++ ")".toList)]⟩]) : Except Py.Exc (List TagCall))
      else Except.ok out) = .ok (out ++ t1) := by
    rw [← ht1]; split <;> simp [tagExcessOrMissing, locExtra]
  rw [h1, ht1]
  simp only []
  -- the unnamed arguments
  rw [forEach_many (fun p : PEntry × PEntry => if p.1.type != p.2.type then
        [tagTypeMismatch "python-format-string-argument-type-mismatch" pfx p.2.type.toList dstLoc p.1.type.toList srcLoc] else []) _ ?hb2,
      pySeq_eq]
  case hb2 =>
    intro p out
    by_cases h : p.1.type = p.2.type <;> simp [h, tagTypeMismatch, locExtra]
  simp only []
  -- the named arguments
  rw [forEach_collect (mapStep (pyClash pfx srcLoc dstLoc) src.map dst.map) _ ?hb3, collect_mapStep]
  case hb3 => map_hb src.map, dst.map
  cases mapTypeTags (pyClash pfx srcLoc dstLoc) src.map dst.map _ with
  | error e => rfl
  | ok t3 =>
    simp only [appendTags_ok]
    rw [forEach_one (fun k => tagUnknown "python-format-string-unknown-argument" pfx (.str k) srcLoc dstLoc) _ (fun _ _ => by rfl)]
    simp only []
    obtain ⟨missing, hm⟩ : ∃ m, List.filter (fun k => !(List.map (fun x => x.fst) dst.map).contains k) (List.map (fun x => x.fst) src.map) = m := ⟨_, rfl⟩
    have hp : (fun a : PyFmt.Entry => a.type == "int") = (fun arg => decide (arg.type = "int")) := by
      funext a; by_cases h : a.type = "int" <;> simp [h]
    simp only [hm, hp]
    missing_cases src.map, (fun arg => decide (arg.type = "int")), (fun k => tagMissing "python-format-string-missing-argument" pfx (.str k) srcLoc dstLoc)
/-! ### `get_last_integer_conversion` -/

/-- the outcome of scanning the uses `L` from the state `(vconv, conv)`, in the shape the regenerated loops deliver it:
    `.inl none` = `return` (of `None`) inside the loop, `.inr (conv, vconv)` = fell through -/
def scanRes (L : List CEntry) (v c : Option Nat) : Except Py.Exc (Option Nat ⊕ (Option Nat × Option Nat)) :=
  match lastIntScan L v c with
  | none => .ok (.inl none)
  | some (v', c') => .ok (.inr (c', v'))

theorem lastIntScan_cons (e : CEntry) (es : List CEntry) (v c : Option Nat) :
    lastIntScan (e :: es) v c =
      match lastIntScan [e] v c with
      | none => none
      | some (v', c') => lastIntScan es v' c' := by
  simp only [lastIntScan]
  by_cases h1 : (e.kind != .conv) = true
  · simp only [h1, if_true]
    by_cases h2 : (v.getD e.parent != e.parent) = true
    · simp [h2]
    · simp [h2]
  · simp only [h1, if_false]
    generalize (if (c.isNone && v.getD e.parent == e.parent) = true then some e.parent else c) = c2
    by_cases h3 : (c2 != some e.parent) = true
    · simp [h3]
    · simp [h3]

theorem lastIntScan_append (a b : List CEntry) (v c : Option Nat) :
    lastIntScan (a ++ b) v c =
      match lastIntScan a v c with
      | none => none
      | some (v', c') => lastIntScan b v' c' := by
  induction a generalizing v c with
  | nil => rfl
  | cons e es ih =>
    rw [List.cons_append, lastIntScan_cons, lastIntScan_cons e es]
    cases lastIntScan [e] v c with
    | none => rfl
    | some p => obtain ⟨v', c'⟩ := p; exact ih v' c'

/-- a loop over uses whose body is one step of the scan -/
theorem forEachRet_scan (body : CEntry → Option Nat × Option Nat → Except Py.Exc (Option Nat ⊕ (Option Nat × Option Nat)))
    (hb : ∀ e c v, body e (c, v) = scanRes [e] v c) (es : List CEntry) :
    ∀ c v, PyKit.forEachRet es body (c, v) = scanRes es v c := by
  induction es with
  | nil => intro c v; rfl
  | cons e es ih =>
    intro c v
    simp only [PyKit.forEachRet, hb, scanRes]
    rw [lastIntScan_cons e es]
    cases lastIntScan [e] v c with
    | none => rfl
    | some p => obtain ⟨v', c'⟩ := p; exact ih c' v'

/-- a loop over arguments whose body scans the uses of one argument -/
theorem forEachRet_scanL (body : List CEntry → Option Nat × Option Nat → Except Py.Exc (Option Nat ⊕ (Option Nat × Option Nat)))
    (hb : ∀ us c v, body us (c, v) = scanRes us v c) (L : List (List CEntry)) :
    ∀ c v, PyKit.forEachRet L body (c, v) = scanRes L.flatten v c := by
  induction L with
  | nil => intro c v; rfl
  | cons us L ih =>
    intro c v
    simp only [PyKit.forEachRet, hb, scanRes, List.flatten_cons]
    rw [lastIntScan_append]
    cases lastIntScan us v c with
    | none => rfl
    | some p => obtain ⟨v', c'⟩ := p; exact ih c' v'

theorem rangeInt_self (a : Nat) : PyKit.rangeInt ↑a ↑a = [] := by simp [PyKit.rangeInt]

theorem rangeInt_succ (a b : Nat) (h : a < b) : PyKit.rangeInt ↑a ↑b = (a : Int) :: PyKit.rangeInt ↑(a + 1) ↑b := by
  simp only [PyKit.rangeInt]
  have h1 : ((b : Int) - (a : Int)).toNat = (b - (a + 1)) + 1 := by omega
  have h2 : ((b : Int) - ((a + 1 : Nat) : Int)).toNat = b - (a + 1) := by omega
  rw [h1, h2, List.range_succ_eq_map]
  simp only [List.map_cons, List.map_map, List.cons.injEq]
  refine ⟨by simp, ?_⟩
  apply List.map_congr_left
  intro k _
  simp only [Function.comp]
  omega

/-- iterating over the indices `a .. len-1` of `xs` is iterating over `xs.drop a` -/
theorem forEachRet_range {α σ ρ : Type} (xs : List α) (body : Int → σ → Except Py.Exc (ρ ⊕ σ))
    (bodyL : α → σ → Except Py.Exc (ρ ⊕ σ))
    (h : ∀ (k : Nat) (hk : k < xs.length) (s : σ), body ↑k s = bodyL xs[k] s) :
    ∀ (m a : Nat), a + m = xs.length → ∀ s, PyKit.forEachRet (PyKit.rangeInt ↑a ↑xs.length) body s = PyKit.forEachRet (xs.drop a) bodyL s := by
  intro m
  induction m with
  | zero =>
    intro a ha s
    have : a = xs.length := by omega
    subst this
    simp [rangeInt_self, PyKit.forEachRet]
  | succ m ih =>
    intro a ha s
    have hlt : a < xs.length := by omega
    rw [rangeInt_succ a xs.length hlt, List.drop_eq_getElem_cons hlt]
    simp only [PyKit.forEachRet, h a hlt]
    cases bodyL xs[a] s with
    | error e => rfl
    | ok r =>
      cases r with
      | inl r => rfl
      | inr s' => exact ih (a + 1) (by omega) s'


theorem listGetInt_cast {α : Type} (xs : List α) (k : Nat) (hk : k < xs.length) : PyKit.listGetInt xs ↑k = .ok xs[k] := by
  simp [PyKit.listGetInt, PyKit.listGet, hk]

/-- `FormatString.get_last_integer_conversion(n=n)` as regenerated = `getLastIntConv` -/
theorem glic_eq (f : CFmtX) (n : Nat) : FmtArgs.get_last_integer_conversion f ↑n = getLastIntConv f n := by
  simp only [FmtArgs.get_last_integer_conversion, getLastIntConv, decide_eq_true_eq]
  by_cases h1 : n > f.arguments.length
  · have : (n : Int) > (f.arguments.length : Int) := by omega
    simp [h1, this]
  · have h1' : ¬ ((n : Int) > (f.arguments.length : Int)) := by omega
    simp only [h1, h1', if_false]
    by_cases h2 : n = 0
    · subst h2; simp
    · have h2' : ¬ ((n : Int) ≤ 0) := by omega
      simp only [h2, h2', if_false]
      have hsub : ((f.arguments.length : Int) - (n : Int)) = ((f.arguments.length - n : Nat) : Int) := by omega
      rw [hsub, forEachRet_range f.arguments _ (fun us s => scanRes us s.2 s.1) ?h n (f.arguments.length - n) (by omega),
        forEachRet_scanL _ (fun _ _ _ => rfl)]
      case h =>
        intro k hk s
        obtain ⟨c, v⟩ := s
        have hk0 : ((k : Int) ≥ 0) := by omega
        simp only [hk0, if_true, listGetInt_cast _ _ hk]
        rw [forEachRet_scan _ ?hb]
        case hb =>
          intro e c v
          simp only [scanRes, lastIntScan]
          obtain ⟨kind, ty, parent⟩ := e
          cases kind
          · cases v with
            | none => simp
            | some vv => by_cases h : vv = parent <;> simp [h]
          · cases v with
            | none => simp
            | some vv => by_cases h : vv = parent <;> simp [h]
          · cases v with
            | none =>
              cases c with
              | none => simp
              | some cc => by_cases h : cc = parent <;> simp [h]
            | some vv =>
              by_cases hv : vv = parent <;> cases c with
              | none => simp [hv]
              | some cc => by_cases h : cc = parent <;> simp [hv, h]
        simp only [scanRes]
        cases lastIntScan f.arguments[k] v c with
        | none => rfl
        | some p => rfl
      simp only [scanRes]
      cases lastIntScan (List.drop (f.arguments.length - n) f.arguments).flatten none none with
      | none => rfl
      | some p =>
        obtain ⟨v, c⟩ := p
        cases c with
        | none => rfl
        | some c => cases hI : f.integer.getD c false <;> simp [← List.getD_eq_getElem?_getD, hI]

/-! ### C -/

/-- one iteration of `for src_arg, dst_arg in zip(src_args, dst_args)` of the C checker, as the model has it -/
def cStep (pfx : Extra) (srcLoc dstLoc : List Char) (p : List CEntry × List CEntry) : Except Py.Exc (List TagCall) :=
  match p.1, p.2 with
  | s0 :: _, d0 :: _ =>
    .ok (if s0.type != d0.type then
      [tagTypeMismatch "c-format-string-argument-type-mismatch" pfx d0.type.toList dstLoc s0.type.toList srcLoc] else [])
  | _, _ => .error .IndexError

theorem collect_cStep (pfx : Extra) (srcLoc dstLoc : List Char) (ss ds : List (List CEntry)) :
    collect (cStep pfx srcLoc dstLoc) (List.zip ss ds) = cTypeTags pfx srcLoc dstLoc ss ds := by
  induction ss generalizing ds with
  | nil => cases ds <;> rfl
  | cons s ss ih =>
    cases ds with
    | nil => cases s <;> rfl
    | cons d ds =>
      cases s with
      | nil => rfl
      | cons s0 _ =>
        cases d with
        | nil => rfl
        | cons d0 _ =>
          simp only [List.zip_cons_cons, collect, cStep, cTypeTags, ih]
          cases cTypeTags pfx srcLoc dstLoc ss ds <;> rfl

/- the loop over `zip(src_args, dst_args)` = `cTypeTags`, then both sides are lists of tag calls -/
set_option hygiene false in
local macro "c_tail" : tactic => `(tactic| (
  try simp only []
  rw [forEach_collect (cStep pfx srcLoc dstLoc) _ ?hb, collect_cStep]
  case hb =>
    intro p o
    obtain ⟨s, d⟩ := p
    simp only [PyKit.listGet, cStep]
    cases s with
    | nil => rfl
    | cons s0 _ =>
      cases d with
      | nil => rfl
      | cons d0 _ =>
        by_cases h : s0.type = d0.type <;> simp [h, tagTypeMismatch, locExtra]
  cases cTypeTags pfx srcLoc dstLoc src.arguments dst.arguments <;> simp [tagExcessOrMissing, locExtra, List.append_assoc]))

/-- `lib/check/msgformat/c.py` `check_args` as regenerated = `checkArgsC` -/
theorem c_check_args_eq (out : List TagCall) (pfx : Extra) (srcLoc : List Char) (src : CFmtX) (dstLoc : List Char)
    (dst : CFmtX) (ok : Bool) :
    FmtArgs.C.check_args out pfx () srcLoc src dstLoc dst ok = appendTags out (checkArgsC pfx srcLoc src dstLoc dst ok) := by
  simp only [FmtArgs.C.check_args, checkArgsC, cast_gt, cast_lt, decide_eq_true_eq]
  by_cases hgt : dst.arguments.length > src.arguments.length
  · simp only [hgt, if_true]
    c_tail
  · simp only [hgt, if_false]
    by_cases hlt : src.arguments.length > dst.arguments.length
    · have hlt' : dst.arguments.length < src.arguments.length := hlt
      have hsub : ((src.arguments.length : Int) - (dst.arguments.length : Int)) =
          ((src.arguments.length - dst.arguments.length : Nat) : Int) := by omega
      simp only [hlt, hlt', if_true, hsub, glic_eq]
      cases ok
      · simp only [Bool.false_eq_true, if_false, Bool.not_false, if_true]
        c_tail
      · simp only [if_true]
        cases getLastIntConv src (src.arguments.length - dst.arguments.length) with
        | error e => rfl
        | ok r =>
          cases r with
          | none =>
            simp only [Option.isSome_none, Bool.not_false, if_true]
            c_tail
          | some c =>
            simp only [Option.isSome_some, Bool.not_true, Bool.false_eq_true, if_false]
            c_tail
    · have hlt' : ¬ dst.arguments.length < src.arguments.length := hlt
      simp only [hlt, hlt', if_false]
      c_tail

end I18n.FmtCheck.Gen
