import I18n.Model.Meta
/-!
The composition law behind every clause of C17: if two runs start in related states and every stage maps related states
to related states while printing the same tags up to a set of ignored ones, the whole runs print the same tags up to
that set (and raise alike).  Lifted through `Checker.check` (loader outcomes, `broken-encoding`, the tag-only exits).
-/
namespace I18n.Meta
open I18n.Check

theorem enumerate_map_snd (i : Nat) (fs : List Text) : (enumerate i fs).map (·.2) = fs := by
  induction fs generalizing i with
  | nil => rfl
  | cons f rest ih => simp [enumerate, ih]

theorem enumerate_any (p : Text → Bool) (i : Nat) (fs : List Text) : (enumerate i fs).any (fun kv => p kv.2) = fs.any p := by
  induction fs generalizing i with
  | nil => rfl
  | cons f rest ih => simp [enumerate, ih]

/-- `st1` (on the first run) and `st2` (on the second) treat `R`-related states alike, as far as the tags `keep` selects -/
def Respects {σ₁ σ₂ τ : Type} (R : σ₁ → σ₂ → Prop) (keep : τ → Bool) (st1 : Stage σ₁ τ) (st2 : Stage σ₂ τ) : Prop :=
  ∀ s s', R s s' →
    R (st1 s).1 (st2 s').1 ∧ (st1 s).2.1.filter keep = (st2 s').2.1.filter keep ∧ (st1 s).2.2 = (st2 s').2.2

/-- stage lists of equal length, pairwise `Respects` -/
inductive RespectsAll {σ₁ σ₂ τ : Type} (R : σ₁ → σ₂ → Prop) (keep : τ → Bool) :
    List (Stage σ₁ τ) → List (Stage σ₂ τ) → Prop where
  | nil : RespectsAll R keep [] []
  | cons {a b as bs} : Respects R keep a b → RespectsAll R keep as bs → RespectsAll R keep (a :: as) (b :: bs)

theorem runStages_sim {σ₁ σ₂ τ : Type} (R : σ₁ → σ₂ → Prop) (keep : τ → Bool)
    (l1 : List (Stage σ₁ τ)) (l2 : List (Stage σ₂ τ)) (h : RespectsAll R keep l1 l2) (s : σ₁) (s' : σ₂) (hR : R s s') :
    (runStages l1 s).1.filter keep = (runStages l2 s').1.filter keep ∧ (runStages l1 s).2 = (runStages l2 s').2 := by
  induction h generalizing s s' with
  | nil => exact ⟨rfl, rfl⟩
  | @cons a b as bs hab _ ih =>
    obtain ⟨h1, h2, h3⟩ := hab s s' hR
    unfold runStages
    rcases ha : a s with ⟨s1, o1, r1⟩
    rcases hb : b s' with ⟨s2, o2, r2⟩
    rw [ha, hb] at h1 h2 h3
    simp only at h1 h2 h3
    subst h3
    cases r1 with
    | true => exact ⟨h2, rfl⟩
    | false =>
      obtain ⟨i1, i2⟩ := ih s1 s2 h1
      simp only [List.filter_append]
      exact ⟨by rw [h2, i1], i2⟩

/-- the same list on both sides -/
theorem respectsAll_self {σ τ : Type} (R : σ → σ → Prop) (keep : τ → Bool) (l : List (Stage σ τ))
    (h : ∀ st ∈ l, Respects R keep st st) : RespectsAll R keep l l := by
  induction l with
  | nil => exact .nil
  | cons a as ih => exact .cons (h a (by simp)) (ih (fun st hm => h st (List.mem_cons_of_mem _ hm)))

/-- which lines of a run are compared: the tags `keep` selects, and every line `check` prints itself -/
def keepLine {τ : Type} (keep : τ → Bool) : Line τ → Bool
  | .tag t => keep t
  | _ => true

theorem filter_keepLine_map_tag {τ : Type} (keep : τ → Bool) (l : List τ) :
    (l.map Line.tag).filter (keepLine keep) = (l.filter keep).map Line.tag := by
  induction l with
  | nil => rfl
  | cons t ts ih =>
    simp only [List.map_cons, List.filter_cons, keepLine]
    by_cases hk : keep t = true
    · simp [hk, ih]
    · simp [hk, ih]

theorem afterLoad_sim {σ₁ σ₂ τ : Type} (R : σ₁ → σ₂ → Prop) (keep : τ → Bool) (pre : List (Line τ))
    (l1 : List (Stage σ₁ τ)) (l2 : List (Stage σ₂ τ)) (h : RespectsAll R keep l1 l2) (s : σ₁) (s' : σ₂) (hR : R s s') :
    (afterLoad pre l1 s).lines.filter (keepLine keep) = (afterLoad pre l2 s').lines.filter (keepLine keep) ∧
    (afterLoad pre l1 s).uncaught = (afterLoad pre l2 s').uncaught := by
  obtain ⟨h1, h2⟩ := runStages_sim R keep l1 l2 h s s' hR
  unfold afterLoad
  simp only [List.filter_append, filter_keepLine_map_tag, h1, h2, and_self]

/-- two loader results are alike: the same exception class, or two files whose initial `ctx` are related -/
def LoadAlike {F₁ F₂ : Type} (Rf : F₁ → F₂ → Prop) : Except LoadErr F₁ → Except LoadErr F₂ → Prop
  | .ok f, .ok g => Rf f g
  | .error e, .error e' => e = e'
  | _, _ => False

/-- **`Checker.check` on two inputs**: loaders alike on both attempts, initial contexts of alike files related, stages
    respecting the relation ⇒ the two runs print the same lines up to the ignored tags, and end alike. -/
theorem check_sim {F₁ F₂ σ₁ σ₂ τ : Type} (R : σ₁ → σ₂ → Prop) (Rf : F₁ → F₂ → Prop) (keep : τ → Bool)
    (statOk : Bool) (ext : Ext)
    (load1 : Bool → Except LoadErr F₁) (load2 : Bool → Except LoadErr F₂)
    (init1 : F₁ → Bool → σ₁) (init2 : F₂ → Bool → σ₂)
    (l1 : List (Stage σ₁ τ)) (l2 : List (Stage σ₂ τ))
    (hload : ∀ retry, LoadAlike Rf (load1 retry) (load2 retry))
    (hinit : ∀ f g broken, Rf f g → R (init1 f broken) (init2 g broken))
    (hst : RespectsAll R keep l1 l2) :
    (check statOk ext load1 init1 l1).lines.filter (keepLine keep) = (check statOk ext load2 init2 l2).lines.filter (keepLine keep) ∧
    (check statOk ext load1 init1 l1).uncaught = (check statOk ext load2 init2 l2).uncaught := by
  unfold check
  cases statOk
  · simp
  · simp only [Bool.not_true, Bool.false_eq_true, if_false]
    by_cases he : ext = .other
    · simp [he]
    · simp only [he, if_false]
      have h0 := hload false
      have h1 := hload true
      rcases a0 : load1 false with e0 | f0 <;> rcases b0 : load2 false with e0' | g0 <;> rw [a0, b0] at h0 <;>
        simp only [LoadAlike] at h0
      · subst h0
        cases e0 <;> try exact ⟨rfl, rfl⟩
        rcases a1 : load1 true with e1 | f1 <;> rcases b1 : load2 true with e1' | g1 <;> rw [a1, b1] at h1 <;>
          simp only [LoadAlike] at h1
        · subst h1
          cases e1 <;> exact ⟨rfl, rfl⟩
        · exact afterLoad_sim R keep _ l1 l2 hst _ _ (hinit f1 g1 true h1)
      · exact afterLoad_sim R keep _ l1 l2 hst _ _ (hinit f0 g0 false h0)

/-- two loaders that succeed at once, with files whose `ctx` are related -/
theorem check_sim_ok {F₁ F₂ σ₁ σ₂ τ : Type} (R : σ₁ → σ₂ → Prop) (keep : τ → Bool) (statOk : Bool) (ext : Ext)
    (f1 : F₁) (f2 : F₂) (init1 : F₁ → Bool → σ₁) (init2 : F₂ → Bool → σ₂)
    (l1 : List (Stage σ₁ τ)) (l2 : List (Stage σ₂ τ))
    (hinit : ∀ broken, R (init1 f1 broken) (init2 f2 broken)) (hst : RespectsAll R keep l1 l2) :
    (check statOk ext (fun _ => .ok f1) init1 l1).lines.filter (keepLine keep)
      = (check statOk ext (fun _ => .ok f2) init2 l2).lines.filter (keepLine keep) ∧
    (check statOk ext (fun _ => .ok f1) init1 l1).uncaught = (check statOk ext (fun _ => .ok f2) init2 l2).uncaught :=
  check_sim R (fun f g => f = f1 ∧ g = f2) keep statOk ext _ _ init1 init2 l1 l2
    (fun _ => ⟨rfl, rfl⟩) (fun f g broken h => by rw [h.1, h.2]; exact hinit broken) hst

/-- special case: the two loaders return the very same results (same file model), same `init`, same stages -/
theorem check_congr_load {F σ τ : Type} (statOk : Bool) (ext : Ext) (load1 load2 : Bool → Except LoadErr F)
    (init : F → Bool → σ) (stages : List (Stage σ τ)) (h : ∀ retry, load1 retry = load2 retry) :
    check statOk ext load1 init stages = check statOk ext load2 init stages := by
  have : load1 = load2 := funext h
  rw [this]

/-- a stage that treats related states alike and prints identical tags -/
abbrev Exact {σ₁ σ₂ τ : Type} (R : σ₁ → σ₂ → Prop) (st1 : Stage σ₁ τ) (st2 : Stage σ₂ τ) : Prop :=
  Respects R (fun _ => true) st1 st2

theorem exact_respects {σ₁ σ₂ τ : Type} (R : σ₁ → σ₂ → Prop) (keep : τ → Bool) (st1 : Stage σ₁ τ) (st2 : Stage σ₂ τ)
    (h : Exact R st1 st2) : Respects R keep st1 st2 := by
  intro s s' hR
  obtain ⟨a, b, c⟩ := h s s' hR
  refine ⟨a, ?_, c⟩
  have ft : ∀ l : List τ, l.filter (fun _ => true) = l := fun l => List.filter_eq_self.mpr (by simp)
  rw [ft, ft] at b
  rw [b]

theorem respectsAll_append {σ₁ σ₂ τ : Type} (R : σ₁ → σ₂ → Prop) (keep : τ → Bool)
    {a1 b1 : List (Stage σ₁ τ)} {a2 b2 : List (Stage σ₂ τ)}
    (ha : RespectsAll R keep a1 a2) (hb : RespectsAll R keep b1 b2) : RespectsAll R keep (a1 ++ b1) (a2 ++ b2) := by
  induction ha with
  | nil => exact hb
  | cons h _ ih => exact .cons h ih

theorem respectsAll_of_exact {σ τ : Type} (R : σ → σ → Prop) (keep : τ → Bool) (l : List (Stage σ τ))
    (h : ∀ st ∈ l, Exact R st st) : RespectsAll R keep l l :=
  respectsAll_self R keep l (fun st hm => exact_respects R keep st st (h st hm))

/-- `Except.map` on loader results -/
def mapLoad {F V : Type} (view : F → V) : Except LoadErr F → Except LoadErr V
  | .ok f => .ok (view f)
  | .error e => .error e

/-- if `ctx` is built from a VIEW of the loaded file (e.g. the entries without `linenum`), `check` only sees the view -/
theorem check_map_load {F V σ τ : Type} (statOk : Bool) (ext : Ext) (load : Bool → Except LoadErr F) (view : F → V)
    (init : V → Bool → σ) (stages : List (Stage σ τ)) :
    check statOk ext load (fun f b => init (view f) b) stages
      = check statOk ext (fun retry => mapLoad view (load retry)) init stages := by
  unfold check
  cases statOk
  · rfl
  · simp only [Bool.not_true, Bool.false_eq_true, if_false]
    by_cases he : ext = .other
    · simp [he]
    · simp only [he, if_false]
      rcases h0 : load false with e0 | f0
      · cases e0 <;> simp only [mapLoad]
        rcases h1 : load true with e1 | f1
        · cases e1 <;> simp only
        · simp only
      · simp only [mapLoad]

end I18n.Meta
