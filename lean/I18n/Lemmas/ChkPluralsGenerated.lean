import I18n.Model.ChkPluralsGen
import I18n.Lemmas.GettextPfGenerated
import I18n.Lemmas.Codomain
import I18n.Props.C05
import I18n.Lemmas.CheckPlurals
import I18n.Lemmas.CheckPluralsClean
namespace I18n.CheckPlurals.GenChk
open I18n I18n.Py I18n.Plural I18n.Generated I18n.CheckPlurals I18n.CheckPlurals.Py

/-- one iteration of `format_range`'s loop -/
def frStep (max : Nat) (last : Int) (i : Int) (result : List IntOrStr) : Except I18n.Py.Exc (PyKit.LoopStep Empty (List IntOrStr)) :=
  if (decide (result.length < max)) then .ok (.next (result ++ [IntOrStr.int i]))
  else .ok (.brk (PyKit.setTail result 2 [IntOrStr.str ("...".toList), IntOrStr.str (intStr last)]))

theorem frLoop (max : Nat) (last : Int) : ∀ (xs : List Int) (res : List IntOrStr), res.length ≤ max →
    PyKit.forEachCtl xs (frStep max last) res =
      .ok (if res.length + xs.length ≤ max then .exhausted (res ++ xs.map IntOrStr.int)
           else .broke (PyKit.setTail (res ++ (xs.take (max - res.length)).map IntOrStr.int) 2 [IntOrStr.str ("...".toList), IntOrStr.str (intStr last)]))
  | [], res, h => by simp [PyKit.forEachCtl, h]
  | x :: xs, res, h => by
    unfold PyKit.forEachCtl
    by_cases hlt : res.length < max
    · simp only [frStep, hlt, decide_true, if_true]
      rw [frLoop max last xs (res ++ [IntOrStr.int x]) (by simp; omega)]
      have e1 : max - res.length = (max - (res.length + 1)) + 1 := by omega
      simp only [List.length_append, List.length_cons, List.length_nil, List.map_cons, List.append_assoc, List.singleton_append]
      rw [e1, List.take_succ_cons]
      have : (res.length + (0 + 1) + xs.length ≤ max) ↔ (res.length + (xs.length + 1) ≤ max) := by omega
      simp only [this, List.map_cons]
    · have heq : res.length = max := by omega
      simp [frStep, heq]

theorem intStr_ofNat (m : Nat) : intStr (m : Int) = natStr m := by
  simp [intStr, natStr, toString, Int.repr]

theorem rangeInt_nat (a b : Nat) : PyKit.rangeInt a b = (List.range (b - a)).map (fun k => ((k + a : Nat) : Int)) := by
  unfold PyKit.rangeInt
  have : ((b : Int) - (a : Int)).toNat = b - a := by omega
  rw [this]
  apply List.map_congr_left
  intro k _
  omega

theorem listGetInt_last (xs : List Int) (h : xs ≠ []) : PyKit.listGetInt xs (-1) = .ok (xs.getLast h) := by
  unfold PyKit.listGetInt
  have hl : 0 < xs.length := List.length_pos_iff.mpr h
  have h1 : ¬ ((-1 : Int) ≥ 0) := by omega
  have h2 : (-1 : Int) + (xs.length : Int) ≥ 0 := by omega
  simp only [h1, h2, if_true, if_false, PyKit.listGet]
  have h3 : ((-1 : Int) + (xs.length : Int)).toNat = xs.length - 1 := by omega
  rw [h3, List.getLast_eq_getElem]
  rw [List.getElem?_eq_getElem (by omega)]

theorem format_range_eq (a b : Nat) (h : a < b) : ChkPlurals.format_range (PyKit.rangeInt a b) 5 = .ok (formatRange a b) := by
  have hne : PyKit.rangeInt a b ≠ [] := by
    rw [rangeInt_nat]; intro hc
    have := congrArg List.length hc
    simp at this; omega
  unfold ChkPlurals.format_range
  rw [listGetInt_last _ hne]
  simp only [show decide (5 < 4) = false from rfl, Bool.false_eq_true, if_false]
  have hb : (fun (i : Int) (result : List IntOrStr) =>
      if (decide (result.length < 5)) = true then
        (Except.ok (PyKit.LoopStep.next (result ++ [IntOrStr.int i])) : Except I18n.Py.Exc (PyKit.LoopStep Empty (List IntOrStr)))
      else
        Except.ok (PyKit.LoopStep.brk (PyKit.setTail result 2 [IntOrStr.str ("...".toList), IntOrStr.str (intStr ((PyKit.rangeInt a b).getLast hne))])))
      = frStep 5 ((PyKit.rangeInt a b).getLast hne) := by
    funext i result; rfl
  rw [hb, frLoop 5 _ _ [] (by simp)]
  have hlen : (PyKit.rangeInt a b).length = b - a := by rw [rangeInt_nat]; simp
  have hlast : (PyKit.rangeInt a b).getLast hne = ((b - 1 : Nat) : Int) := by
    have : ∀ (l : List Int) (hl : l ≠ []) (e : l = (List.range (b - a)).map (fun k => ((k + a : Nat) : Int))), l.getLast hl = ((b - 1 : Nat) : Int) := by
      intro l hl e; subst e
      rw [List.getLast_eq_getElem]
      simp
      omega
    exact this _ hne (rangeInt_nat a b)
  rw [hlast, intStr_ofNat]
  simp only [List.length_nil, Nat.zero_add, hlen, List.nil_append, Nat.sub_zero]
  unfold formatRange
  have e : ∀ (k : Nat), intStr ((k : Int) + (a : Int)) = natStr (k + a) := fun k => by
    have : ((k : Int) + (a : Int)) = ((k + a : Nat) : Int) := by omega
    rw [this, intStr_ofNat]
  have e1 : intStr (1 + (a : Int)) = natStr (1 + a) := by simpa using e 1
  have e2 : intStr (2 + (a : Int)) = natStr (2 + a) := by simpa using e 2
  by_cases hle : b - a ≤ 5
  · simp only [hle, if_true]
    rw [rangeInt_nat]
    simp [IntOrStr.toStr, Function.comp_def, e]
  · simp only [hle, if_false]
    rw [rangeInt_nat, ← List.map_take, List.take_range, show min 5 (b - a) = 5 by omega]
    simp [PyKit.setTail, IntOrStr.toStr, intStr_ofNat, List.range, List.range.loop, e1, e2]
/-! ## `d[k] += [i]` on the defaultdict is the model's `Preimage.add` (keys stay distinct) -/

theorem extend_eq_add (p : Preimage) (fi : Int) (i : Nat) (h : (keys p).Nodup) :
    PyKit.defaultListExtend p fi [i] = p.add fi i := by
  induction p with
  | nil => simp [PyKit.defaultListExtend, Preimage.add]
  | cons q rest ih =>
    obtain ⟨k, v⟩ := q
    simp only [keys, List.map_cons, List.nodup_cons] at h
    have ih' := ih h.2
    unfold PyKit.defaultListExtend
    by_cases hk : k = fi
    · subst hk
      have hno : ∀ q ∈ rest, ¬ q.1 = k := fun q hq hqe => h.1 (List.mem_map.mpr ⟨q, hq, hqe⟩)
      have hmap : rest.map (fun q => if q.1 = k then (q.1, q.2 ++ [i]) else q) = rest := by
        conv => rhs; rw [← List.map_id rest]
        apply List.map_congr_left
        intro q hq; simp [hno q hq]
      simp [Preimage.add, hmap]
    · have hk' : ¬ fi = k := fun h' => hk h'.symm
      simp only [hk, if_false]
      rw [ih']
      unfold Preimage.add
      simp only [List.any_cons, hk, decide_false, Bool.false_or, List.map_cons, if_false, List.cons_append]
      split <;> rfl

theorem keys_add_nodup (p : Preimage) (fi : Int) (i : Nat) (h : (keys p).Nodup) : (keys (p.add fi i)).Nodup := by
  unfold Preimage.add
  split
  · rename_i hany
    have : keys (p.map fun q => if q.1 = fi then (q.1, q.2 ++ [i]) else q) = keys p := by
      unfold keys; rw [List.map_map]; apply List.map_congr_left; intro q _; simp only [Function.comp]; split <;> rfl
    rw [this]; exact h
  · rename_i hany
    unfold keys at *
    rw [List.map_append, List.nodup_append]
    refine ⟨h, by simp, ?_⟩
    intro a ha b hb
    simp at hb; subst hb
    intro hab; subst hab
    apply hany
    simp only [List.any_eq_true, decide_eq_true_eq]
    obtain ⟨q, hq, hqe⟩ := List.mem_map.mp ha
    exact ⟨q, hq, hqe⟩

/-! ## the window loop -/

abbrev WSt := List (Int × List Nat) × List TagCall × Bool
abbrev Snap := Option (List (Int × List Nat)) × Nat × List TagCall

def arithTag (hp : Bool) (i : Nat) (what : List Char) : TagCall :=
  ⟨tagName "arithmetic-error-in" hp, [.safe ("f(".toList ++ natStr i ++ what)]⟩

def codomainTag (hp : Bool) (n i : Nat) (fi : Int) : TagCall :=
  ⟨tagName "codomain-error-in" hp, [.safe ("f(".toList ++ natStr i ++ ") = ".toList ++ intStr fi ++ " >= ".toList ++ natStr n)]⟩

/-- one iteration of the window loop as regenerated, in the model's vocabulary -/
def winStep (n : Nat) (e : Expr) (lc : Option (Nat × Expr)) (hp : Bool) (ut : TagCall) (c0 : Option (List (Int × List Nat)))
    (i : Nat) (st : WSt) : Except Exc (PyKit.LoopStep (Exc × Snap) WSt) :=
  match evalAt 32 i e with
  | .error ex => .ok (.ret (ex, (c0, i, st.2.1)))
  | .ok fi =>
    if fi ≥ n then .ok (.brk (st.1, st.2.1 ++ [codomainTag hp n i fi], st.2.2))
    else
      let pre := PyKit.defaultListExtend st.1 fi [i]
      match lc with
      | some (ln, le) =>
        if n = ln then
          match evalAt 32 i le with
          | .error ex => .ok (.ret (ex, (c0, i, st.2.1)))
          | .ok v => if fi ≠ v ∧ ¬ st.2.2 then .ok (.next (pre, st.2.1 ++ [ut], true)) else .ok (.next (pre, st.2.1, st.2.2))
        else .ok (.next (pre, st.2.1, st.2.2))
      | none => .ok (.next (pre, st.2.1, st.2.2))

/-- what follows the loop: the `else:` clause, the two handlers -/
def winFin (hp : Bool) (c0 : Option (List (Int × List Nat))) :
    Except Exc (PyKit.LoopEnd (Exc × Snap) WSt) → Except Exc (Option (List (Int × List Nat)) × List TagCall)
  | .error ex => .error ex
  | .ok (.ret (ex, (c, i, out))) =>
    if ex = .Overflow then .ok (c, out ++ [arithTag hp i "): integer overflow".toList])
    else if ex = .ZeroDivision then .ok (c, out ++ [arithTag hp i "): division by zero".toList])
    else .error ex
  | .ok (.exhausted (pre, out, _)) => .ok (some pre, out)
  | .ok (.broke (_, out, _)) => .ok (c0, out)

theorem winLoop (n : Nat) (e : Expr) (lc : Option (Nat × Expr)) (hp : Bool) (ut : TagCall) (c0 : Option (List (Int × List Nat))) :
    ∀ (is : List Nat) (pre : Preimage) (tags : List TagCall) (un : Bool), (keys pre).Nodup →
      winFin hp c0 (PyKit.forEachCtl is (winStep n e lc hp ut c0) (pre, tags, un)) =
        match window n e lc hp ut is ⟨tags, pre, un⟩ with
        | (_, .crashed ex) => .error ex
        | (st, .completed) => .ok (some st.pre, st.tags)
        | (st, .stopped) => .ok (c0, st.tags)
  | [], pre, tags, un, _ => by simp [PyKit.forEachCtl, window, winFin]
  | i :: rest, pre, tags, un, hnd => by
    have ih := winLoop n e lc hp ut c0 rest
    unfold PyKit.forEachCtl window
    simp only [winStep]
    cases hev : evalAt 32 i e with
    | error ex =>
      have := I18n.Props.C04.eval_error_kinds (by decide) i e ex hev
      rcases this with rfl | rfl <;> simp [winFin, arithTag]
    | ok fi =>
      simp only []
      by_cases hge : fi ≥ (n : Int)
      · simp [hge, winFin, codomainTag]
      · simp only [hge, if_false]
        rw [extend_eq_add _ _ _ hnd]
        have hnd' := keys_add_nodup pre fi i hnd
        cases lc with
        | none => simpa using ih _ tags un hnd'
        | some p =>
          obtain ⟨ln, le⟩ := p
          simp only []
          by_cases hn : n = ln
          · subst hn
            simp only [if_true]
            cases hev2 : evalAt 32 i le with
            | error ex =>
              have := I18n.Props.C04.eval_error_kinds (by decide) i le ex hev2
              rcases this with rfl | rfl <;> simp [winFin, arithTag]
            | ok v =>
              simp only []
              by_cases hc : fi ≠ v ∧ ¬ un = true
              · simp only [hc, and_self, if_true, not_false_eq_true]
                simpa [hc] using ih _ (tags ++ [ut]) true hnd'
              · simp only [hc, if_false]
                simpa [hc] using ih _ tags un hnd'
          · simp only [hn, if_false]
            simpa using ih _ tags un hnd'

theorem ite_ok {ε α : Type} (c : Prop) [Decidable c] (a b : α) :
    (if c then (Except.ok a : Except ε α) else Except.ok b) = Except.ok (if c then a else b) := by
  split <;> rfl

theorem forEachCtl_ext {α σ ρ ε : Type} (xs : List α) (f g : α → σ → Except ε (PyKit.LoopStep ρ σ)) (s : σ)
    (h : ∀ x s, f x s = g x s) : PyKit.forEachCtl xs f s = PyKit.forEachCtl xs g s := by
  have : f = g := by funext x s; exact h x s
  rw [this]

theorem hp_tag (hp : Bool) (out : List TagCall) (a b : String) (x : List Extra) :
    (if hp = true then out ++ [⟨a, x⟩] else out ++ [(⟨b, x⟩ : TagCall)]) = out ++ [⟨if hp then a else b, x⟩] := by
  cases hp <;> rfl

theorem tagName_codomain (hp : Bool) : tagName "codomain-error-in" hp = if hp then "codomain-error-in-plural-forms" else "codomain-error-in-unused-plural-forms" := by
  cases hp <;> rfl
theorem tagName_arith (hp : Bool) : tagName "arithmetic-error-in" hp = if hp then "arithmetic-error-in-plural-forms" else "arithmetic-error-in-unused-plural-forms" := by
  cases hp <;> rfl

def unusualTagOf (hp : Bool) (pf : List Char) (hint : Extra) : TagCall :=
  ⟨if hp then "unusual-plural-forms" else "unusual-unused-plural-forms", [.str pf, .str "=>".toList, hint]⟩

theorem window_eq (out : List TagCall) (c0 : Option (List (Int × List Nat))) (pf : List Char) (hint : Extra) (hp : Bool) (n : Nat) (e : Expr)
    (lc : Option (Nat × Expr)) :
    ChkPlurals.check_plurals_window pluralOps out c0 pf hint hp n e (lc.map (·.1)) (lc.map (·.2)) false 200 =
      match window n e lc hp (unusualTagOf hp pf hint) (List.range 200) ⟨out, [], false⟩ with
      | (_, .crashed ex) => .error ex
      | (st, .completed) => .ok (some st.pre, st.tags)
      | (st, .stopped) => .ok (c0, st.tags) := by
  rw [← winLoop n e lc hp (unusualTagOf hp pf hint) c0 (List.range 200) [] out false (by simp [keys])]
  unfold ChkPlurals.check_plurals_window
  simp only [ite_ok, hp_tag]
  rw [forEachCtl_ext _ _ (winStep n e lc hp (unusualTagOf hp pf hint) c0) _ ?hb]
  case hb =>
    intro i st
    obtain ⟨pre, tags, un⟩ := st
    simp only [winStep, pluralOps, codomainTag, tagName_codomain, unusualTagOf]
    cases evalAt 32 (↑i) e with
    | error ex => rfl
    | ok fi =>
      simp only []
      by_cases hge : fi ≥ (n : Int)
      · simp [hge]
      · simp only [hge, decide_false, if_false, Bool.false_eq_true]
        cases lc with
        | none => simp
        | some p =>
          obtain ⟨ln, le⟩ := p
          simp only [Option.map_some]
          by_cases hn : n = ln
          · subst hn
            simp only [decide_true, if_true]
            cases evalAt 32 (↑i) le with
            | error ex => rfl
            | ok v =>
              simp only []
              by_cases h1 : fi = v <;> cases un <;> simp [h1]
          · simp [hn]
  generalize PyKit.forEachCtl (List.range 200) (winStep n e lc hp (unusualTagOf hp pf hint) c0) ([], out, false) = r
  rcases r with ex | (⟨ex, c, i, tags⟩ | ⟨pre, tags, un⟩ | ⟨pre, tags, un⟩) <;> try rfl

/-! ## the registry comparison -/

theorem parse_eq (c : List Char) : pluralOps.parse c =
    match parsePluralFormsStrict c with
    | .ok k ce _ _ => .ok (k, ce)
    | .syntaxError => .error .ValueError
    | .valueError => .error .ValueError := by
  simp only [pluralOps, Gen.strict_eq]
  cases parsePluralFormsStrict c <;> rfl

theorem localCorrect_eq (n : Nat) : ∀ (cs : List (List Char)),
    localCorrect n cs = (match PyKit.mapM (fun s => pluralOps.parse s) cs with
      | .error ex => .error ex
      | .ok l => .ok (l.filter (fun x => decide (x.1 = n))))
  | [] => rfl
  | c :: cs => by
    unfold localCorrect PyKit.mapM
    rw [localCorrect_eq n cs, parse_eq]
    cases parsePluralFormsStrict c with
    | ok k ce lj rj =>
      simp only []
      cases PyKit.mapM (fun s => pluralOps.parse s) cs with
      | error ex => rfl
      | ok l =>
        simp only [List.filter_cons]
        by_cases hk : k = n <;> simp [hk]
    | syntaxError => rfl
    | valueError => rfl

theorem registry_eq (out : List TagCall) (pf : List Char) (hint : Extra) (hp : Bool) (correct : Option (List (List Char))) (n : Nat) :
    ChkPlurals.check_plurals_registry pluralOps out pf hint hp correct n =
      match (match correct with | none => .ok none | some cs => (localCorrect n cs).map some : Except Exc (Option (List (Nat × Expr)))) with
      | .error ex => .error ex
      | .ok lcs => .ok (match lcs with
          | none => (none, none, out)
          | some [] => (none, none, out ++ [unusualTagOf hp pf hint])
          | some [x] => (some x.2, some x.1, out)
          | some _ => (none, none, out)) := by
  unfold ChkPlurals.check_plurals_registry
  simp only [ite_ok, hp_tag]
  cases correct with
  | none => rfl
  | some cs =>
    simp only [localCorrect_eq]
    cases PyKit.mapM (fun s => pluralOps.parse s) cs with
    | error ex => rfl
    | ok l =>
      simp only [Except.map]
      generalize List.filter (fun x => decide (x.1 = n)) l = fl
      rcases fl with _ | ⟨⟨a, b⟩, _ | ⟨y, rest⟩⟩
      · simp [unusualTagOf]
      · simp
      · simp


/-! ## the gap analysis -/

def castR (r : Nat × Nat) : Int × Int := ((r.1 : Int), (r.2 : Int))

def gapTag (hp : Bool) (r : Nat × Nat) : TagCall :=
  ⟨tagName "codomain-error-in" hp, [.safe ("f(x) != ".toList ++ formatRange r.1 r.2)]⟩

/-- one iteration of the final loop -/
def finalStep (hp : Bool) (rng : Int × Int) (st : Option (List (Int × List Nat)) × List TagCall) :
    Except Exc (Option (List (Int × List Nat)) × List TagCall) :=
  match ChkPlurals.format_range (PyKit.rangeInt rng.1 rng.2) 5 with
  | .error ex => .error ex
  | .ok s => .ok (none, st.2 ++ [⟨tagName "codomain-error-in" hp, [.safe ("f(x) != ".toList ++ s)]⟩])

theorem finalLoop (hp : Bool) : ∀ (rs : List (Nat × Nat)) (c : Option (List (Int × List Nat))) (out : List TagCall), (∀ r ∈ rs, r.1 < r.2) →
    PyKit.forEach (rs.map castR) (finalStep hp) (c, out) = .ok (if rs.isEmpty then c else none, out ++ rs.map (gapTag hp))
  | [], c, out, _ => by simp [PyKit.forEach]
  | r :: rs, c, out, h => by
    unfold PyKit.forEach
    simp only [List.map_cons, finalStep, castR]
    rw [format_range_eq r.1 r.2 (h r (by simp))]
    simp only []
    rw [finalLoop hp rs none _ (fun r' hr' => h r' (by simp [hr']))]
    cases rs <;> simp [gapTag]

/-- one iteration of the scan over the sorted keys -/
def scanStep (n : Nat) (pp : List (Int × List Nat)) (i : Int) (acc : List (Int × Int)) : Except Exc (PyKit.LoopStep Empty (List (Int × Int))) :=
  if (decide (i > 0) && !PyKit.dictMem pp (i - 1)) then .ok (.brk (acc ++ [(i - 1, i)]))
  else if (decide (i + 1 < (n : Int)) && !PyKit.dictMem pp (i + 1)) then .ok (.brk (acc ++ [(i + 1, i + 2)]))
  else .ok (.next acc)

theorem dictMem_iff (pp : Preimage) (k : Int) : PyKit.dictMem pp k = (sortedKeys pp).contains k := by
  rw [Bool.eq_iff_iff, List.contains_iff_mem, mem_sortedKeys]
  unfold PyKit.dictMem keys
  simp only [List.any_eq_true, decide_eq_true_eq, List.mem_map]

theorem scanLoop (n : Nat) (pp : Preimage) : ∀ (ks : List Int) (acc : List (Int × Int)), (∀ k ∈ ks, 0 ≤ k) →
    PyKit.forEachCtl ks (scanStep n pp) acc =
      .ok (if scanKeys n (sortedKeys pp) ks = [] then .exhausted acc else .broke (acc ++ (scanKeys n (sortedKeys pp) ks).map castR))
  | [], acc, _ => by simp [PyKit.forEachCtl, scanKeys]
  | i :: ks, acc, h => by
    have hi : 0 ≤ i := h i (by simp)
    unfold PyKit.forEachCtl scanKeys
    simp only [scanStep, dictMem_iff]
    by_cases h1 : i > 0 ∧ ¬ (sortedKeys pp).contains (i - 1) = true
    · have h1' : (decide (i > 0) && !(sortedKeys pp).contains (i - 1)) = true := by
        simp only [Bool.and_eq_true, decide_eq_true_eq, Bool.not_eq_true']; exact ⟨h1.1, by simpa using h1.2⟩
      rw [if_pos h1', if_pos h1]
      have e1 : ((i - 1).toNat : Int) = i - 1 := by omega
      have e2 : (i.toNat : Int) = i := by omega
      simp only [castR, List.map_cons, List.map_nil, e1, e2, reduceCtorEq, if_false]
    · have h1' : (decide (i > 0) && !(sortedKeys pp).contains (i - 1)) = false := by
        by_cases hp : i > 0
        · simp [hp]; simpa [hp] using h1
        · simp [hp]
      rw [if_neg (by rw [h1']; simp), if_neg h1]
      by_cases h2 : i + 1 < (n : Int) ∧ ¬ (sortedKeys pp).contains (i + 1) = true
      · have h2' : (decide (i + 1 < (n : Int)) && !(sortedKeys pp).contains (i + 1)) = true := by
          simp only [Bool.and_eq_true, decide_eq_true_eq, Bool.not_eq_true']; exact ⟨h2.1, by simpa using h2.2⟩
        rw [if_pos h2', if_pos h2]
        have e1 : ((i + 1).toNat : Int) = i + 1 := by omega
        have e2 : ((i + 2).toNat : Int) = i + 2 := by omega
        simp only [castR, List.map_cons, List.map_nil, e1, e2, reduceCtorEq, if_false]
      · have h2' : (decide (i + 1 < (n : Int)) && !(sortedKeys pp).contains (i + 1)) = false := by
          by_cases hp : i + 1 < (n : Int)
          · simp [hp]; simpa [hp] using h2
          · simp [hp]
        rw [if_neg (by rw [h2']; simp), if_neg h2]
        exact scanLoop n pp ks acc (fun k hk => h k (by simp [hk]))

theorem forEach_ext {α σ ε : Type} (xs : List α) (f g : α → σ → Except ε σ) (s : σ)
    (h : ∀ x s, f x s = g x s) : PyKit.forEach xs f s = PyKit.forEach xs g s := by
  have : f = g := by funext x s; exact h x s
  rw [this]

theorem scanKeys_nonempty (n : Nat) (K : List Int) : ∀ (ks : List Int), (∀ k ∈ ks, 0 ≤ k) → ∀ r ∈ scanKeys n K ks, r.1 < r.2
  | [], _ => by simp [scanKeys]
  | i :: ks, h => by
    have hi : 0 ≤ i := h i (by simp)
    unfold scanKeys
    split
    · rename_i h1; intro r hr; simp at hr; subst hr; simp; omega
    · split
      · intro r hr; simp at hr; subst hr; simp; omega
      · exact scanKeys_nonempty n K ks (fun k hk => h k (by simp [hk]))

theorem intinf_small (o p : Int) : ((PyKit.IntInf.fin o).add (PyKit.IntInf.fin p)).lt (PyKit.IntInf.fin ((200 : Nat) : Int)) = decide (o + p < (codomainLimit : Int)) := by
  rfl

set_option hygiene false in
local macro "final_hb" : tactic => `(tactic| (
  intro rng x; unfold finalStep; rw [tagName_codomain]
  cases ChkPlurals.format_range (PyKit.rangeInt rng.fst rng.snd) 5 <;> rfl))

set_option hygiene false in
local macro "nonempty_path" : tactic => `(tactic| (
  have hemp' : (List.map castR rs).isEmpty = false := by simpa using hemp
  simp only [hemp', Bool.not_false, Bool.not_true, Bool.false_eq_true, if_false]
  rw [forEach_ext _ _ (finalStep hp) _ ?hb, finalLoop hp _ _ _ hne]
  case hb => final_hb
  unfold gapTail
  simp [hemp]))

set_option hygiene false in
local macro "empty_path" : tactic => `(tactic| (
  unfold gapTail
  simp only [List.isEmpty_nil, Bool.not_true, Bool.not_false, if_true]
  cases c with
  | none => simp [PyKit.forEach]
  | some pp =>
    simp only []
    have hk : ∀ k ∈ sortedKeys pp, 0 ≤ k := fun k hk => hc pp rfl k ((mem_sortedKeys pp k).mp hk)
    cases period 32 e with
    | error ex => rfl
    | ok per =>
      cases per with
      | none => simp [PyKit.infinity, PyKit.IntInf.add, PyKit.IntInf.lt, PyKit.forEach]
      | some op =>
        obtain ⟨o, p⟩ := op
        simp only [intinf_small]
        by_cases hs : o + p < (codomainLimit : Int)
        · simp only [hs, decide_true, if_true]
          rw [forEachCtl_ext _ _ (scanStep n pp) _ (hscan pp), scanLoop n pp _ _ hk]
          simp only [List.nil_append]
          have hfl := finalLoop hp _ (some pp) out (scanKeys_nonempty n (sortedKeys pp) _ hk)
          generalize scanKeys n (sortedKeys pp) (sortedKeys pp) = sk at hfl ⊢
          cases sk with
          | nil => simp [PyKit.forEach]
          | cons r rest =>
            simp only [reduceCtorEq, if_false]
            rw [forEach_ext _ _ (finalStep hp) _ ?hb, hfl]
            case hb =>
              intro rng x; unfold finalStep; rw [tagName_codomain]
              cases ChkPlurals.format_range (PyKit.rangeInt rng.fst rng.snd) 5 <;> rfl
        · simp [hs, PyKit.forEach]))

theorem gaps_eq (out : List TagCall) (c : Option (List (Int × List Nat))) (hp : Bool) (n : Nat) (e : Expr)
    (hc : ∀ p, c = some p → ∀ k ∈ keys p, 0 ≤ k) :
    ChkPlurals.check_plurals_gaps pluralOps out c hp n e 200 =
      match gapRanges n e c with
      | .error ex => .error ex
      | .ok rs => .ok (out ++ rs.map (gapTag hp), if rs.isEmpty then c else none) := by
  unfold ChkPlurals.check_plurals_gaps gapRanges
  simp only [ite_ok, hp_tag, pluralOps]
  have hscan : ∀ (pp : List (Int × List Nat)) (i : Int) (u : List (Int × Int)),
      (Except.ok (if (decide (i > 0) && !PyKit.dictMem pp (i - 1)) = true then PyKit.LoopStep.brk (u ++ [(i - 1, i)])
          else if (decide (i + 1 < (n : Int)) && !PyKit.dictMem pp (i + 1)) = true then PyKit.LoopStep.brk (u ++ [(i + 1, i + 2)])
          else PyKit.LoopStep.next u) : Except Exc (PyKit.LoopStep Empty (List (Int × Int)))) = scanStep n pp i u := by
    intro pp i u; unfold scanStep
    split
    · rfl
    · split <;> rfl
  cases hcd : codomain 32 e with
  | error ex => rfl
  | ok cd =>
    simp only []
    cases cd with
    | none =>
      simp only []
      empty_path
    | some xy =>
      obtain ⟨x, y⟩ := xy
      have wf := I18n.Props.C05.codomain_interval_wf 32 e x y hcd
      simp only []
      by_cases hx : x > 0 <;> by_cases hy : y + 1 < (n : Int)
      · simp only [hx, hy, decide_true, if_true]
        have hl : ([(0, x)] ++ [(y + 1, (n : Int))] : List (Int × Int)) = (codomainRanges x y n).map castR := by
          simp [codomainRanges, hx, hy, castR]; omega
        rw [hl]
        have hemp : (codomainRanges x y n).isEmpty = false := by simp [codomainRanges, hx, hy]
        have hne := codomainRanges_nonempty x y n (by omega)
        generalize codomainRanges x y n = rs at hemp hne ⊢
        nonempty_path
      · simp only [hx, hy, decide_true, decide_false, if_true, if_false, Bool.false_eq_true]
        have hl : ([(0, x)] : List (Int × Int)) = (codomainRanges x y n).map castR := by
          simp [codomainRanges, hx, hy, castR]; omega
        rw [hl]
        have hemp : (codomainRanges x y n).isEmpty = false := by simp [codomainRanges, hx, hy]
        have hne := codomainRanges_nonempty x y n (by omega)
        generalize codomainRanges x y n = rs at hemp hne ⊢
        nonempty_path
      · simp only [hx, hy, decide_true, decide_false, if_true, if_false, Bool.false_eq_true, List.nil_append]
        have hl : ([(y + 1, (n : Int))] : List (Int × Int)) = (codomainRanges x y n).map castR := by
          simp [codomainRanges, hx, hy, castR]; omega
        rw [hl]
        have hemp : (codomainRanges x y n).isEmpty = false := by simp [codomainRanges, hx, hy]
        have hne := codomainRanges_nonempty x y n (by omega)
        generalize codomainRanges x y n = rs at hemp hne ⊢
        nonempty_path
      · simp only [hx, hy, decide_false, if_false, Bool.false_eq_true, codomainRanges, List.append_nil]
        empty_path

theorem window_keys_nonneg (n : Nat) (e : Expr) (lc : Option (Nat × Expr)) (hp : Bool) (ut : TagCall) (tags : List TagCall) (st : WinState)
    (h : window n e lc hp ut (List.range 200) ⟨tags, [], false⟩ = (st, .completed)) : ∀ k ∈ keys st.pre, 0 ≤ k := by
  intro k hk
  obtain ⟨_, hkeys, _⟩ := window_completed n e lc hp ut _ _ _ h
  rcases (hkeys k).mp hk with h0 | ⟨i, _, hev⟩
  · simp [keys] at h0
  · exact (I18n.Props.C04.eval_value_range (by decide) i e k hev).1

/-- the model after the registry comparison: the window, then the gap analysis -/
def afterRegistry (pf : List Char) (hp : Bool) (hint : Extra) (n : Nat) (e : Expr) (lc : Option (Nat × Expr)) (out : List TagCall) : Except Exc Output :=
  match window n e lc hp (unusualTagOf hp pf hint) (List.range codomainLimit) ⟨out, [], false⟩ with
  | (_, .crashed ex) => .error ex
  | (st, fin) =>
    let completed : Option Preimage := match fin with | .completed => some st.pre | _ => none
    match gapRanges n e completed with
    | .error ex => .error ex
    | .ok rs => .ok ⟨st.tags ++ rs.map (gapTag hp), if rs.isEmpty then completed else none⟩

/-- what the registry comparison finds: the one registry declaration with the header's nplurals, if there is exactly one -/
def lcOf : Option (List (Nat × Expr)) → Option (Nat × Expr)
  | some [x] => some x
  | _ => none

def t4Of (ut : TagCall) : Option (List (Nat × Expr)) → List TagCall
  | some [] => [ut]
  | _ => []

/-- the model from the registry comparison on, with the tags emitted before it -/
def analyseFrom (inp : Input) (pf : List Char) (hp : Bool) (hint : Extra) (n : Nat) (e : Expr) (out1 : List TagCall) : Except Exc Output :=
  match (match inp.correct with | none => .ok none | some cs => (localCorrect n cs).map some : Except Exc (Option (List (Nat × Expr)))) with
  | .error ex => .error ex
  | .ok lcs => afterRegistry pf hp hint n e (lcOf lcs) (out1 ++ t4Of (unusualTagOf hp pf hint) lcs)

/-- the tags emitted before the registry comparison (lines 430–440) -/
def prefixTags (tags0 : List TagCall) (lj rj : List Char) (n : Nat) (expected : List (Nat × List Char)) : List TagCall :=
  tags0 ++ ((if lj.isEmpty then [] else [⟨"leading-junk-in-plural-forms", [.str lj]⟩]) ++
            (if rj.isEmpty then [] else [⟨"trailing-junk-in-plural-forms", [.str rj]⟩])) ++
    (match expected with
      | [(k, _)] => if n ≠ k then [⟨"incorrect-number-of-plural-forms",
          [.int n, .safe "(Plural-Forms header field)".toList, .str "!=".toList, .int k, .safe "(number of msgstr items)".toList]⟩] else []
      | _ => [])

/-! the outcomes of the registry comparison, one lemma each (no `match` is left for the caller to reduce) -/

theorem registry_none (out : List TagCall) (pf : List Char) (hint : Extra) (hp : Bool) (n : Nat) :
    ChkPlurals.check_plurals_registry pluralOps out pf hint hp none n = .ok (none, none, out) := by
  rw [registry_eq]

theorem registry_error (out : List TagCall) (pf : List Char) (hint : Extra) (hp : Bool) (n : Nat) (cs : List (List Char)) (ex : Exc)
    (h : localCorrect n cs = .error ex) :
    ChkPlurals.check_plurals_registry pluralOps out pf hint hp (some cs) n = .error ex := by
  rw [registry_eq]; simp only [h, Except.map]

theorem registry_ok (out : List TagCall) (pf : List Char) (hint : Extra) (hp : Bool) (n : Nat) (cs : List (List Char)) (l : List (Nat × Expr))
    (h : localCorrect n cs = .ok l) :
    ChkPlurals.check_plurals_registry pluralOps out pf hint hp (some cs) n =
      .ok ((lcOf (some l)).map (·.2), (lcOf (some l)).map (·.1), out ++ t4Of (unusualTagOf hp pf hint) (some l)) := by
  rw [registry_eq]; simp only [h, Except.map]
  rcases l with _ | ⟨x, _ | ⟨y, rest⟩⟩ <;> simp [lcOf, t4Of]

theorem analyseFrom_none (inp : Input) (pf : List Char) (hp : Bool) (hint : Extra) (n : Nat) (e : Expr) (out1 : List TagCall) (h : inp.correct = none) :
    analyseFrom inp pf hp hint n e out1 = afterRegistry pf hp hint n e none out1 := by
  unfold analyseFrom; rw [h]; simp [lcOf, t4Of]

theorem analyseFrom_error (inp : Input) (pf : List Char) (hp : Bool) (hint : Extra) (n : Nat) (e : Expr) (out1 : List TagCall) (cs : List (List Char)) (ex : Exc)
    (h : inp.correct = some cs) (hl : localCorrect n cs = .error ex) :
    analyseFrom inp pf hp hint n e out1 = .error ex := by
  unfold analyseFrom; rw [h]; simp only [hl, Except.map]

theorem analyseFrom_ok (inp : Input) (pf : List Char) (hp : Bool) (hint : Extra) (n : Nat) (e : Expr) (out1 : List TagCall) (cs : List (List Char))
    (l : List (Nat × Expr)) (h : inp.correct = some cs) (hl : localCorrect n cs = .ok l) :
    analyseFrom inp pf hp hint n e out1 = afterRegistry pf hp hint n e (lcOf (some l)) (out1 ++ t4Of (unusualTagOf hp pf hint) (some l)) := by
  unfold analyseFrom; rw [h]; simp only [hl, Except.map]

/-- the window, then the gap analysis, as regenerated = the model -/
theorem window_then_gaps (out : List TagCall) (pf : List Char) (hint : Extra) (hp : Bool) (n : Nat) (e : Expr) (lc : Option (Nat × Expr))
    (r : Except Exc (Option (List (Int × List Nat)) × List TagCall))
    (hr : ChkPlurals.check_plurals_window pluralOps out none pf hint hp n e (lc.map (·.1)) (lc.map (·.2)) false 200 = r) :
    (match (generalizing := false) r with
      | .error ex => (.error ex : Except Exc (List TagCall × Option Preimage))
      | .ok (c, out') => ChkPlurals.check_plurals_gaps pluralOps out' c hp n e 200) =
    (afterRegistry pf hp hint n e lc out).map (fun o => (o.tags, o.preimage)) := by
  subst hr
  rw [window_eq]
  unfold afterRegistry
  simp only [codomainLimit]
  generalize hwv : window _ _ _ _ _ _ _ = w
  obtain ⟨st, fin⟩ := w
  cases fin with
  | completed =>
    simp only []
    rw [gaps_eq st.tags (some st.pre) hp n e (fun p hp' k hk => by
      cases hp'; exact window_keys_nonneg _ _ _ _ _ _ st hwv k hk)]
    cases gapRanges n e (some st.pre) <;> simp only [Except.map]
  | stopped =>
    simp only []
    rw [gaps_eq st.tags none hp n e (fun p hp' => by cases hp')]
    cases gapRanges n e none <;> simp only [Except.map]
  | crashed ex => simp only [Except.map]


theorem wtg_error (out : List TagCall) (pf : List Char) (hint : Extra) (hp : Bool) (n : Nat) (e : Expr) (lc : Option (Nat × Expr)) (ex : Exc)
    (hr : ChkPlurals.check_plurals_window pluralOps out none pf hint hp n e (lc.map (·.1)) (lc.map (·.2)) false 200 = .error ex) :
    (afterRegistry pf hp hint n e lc out).map (fun o => (o.tags, o.preimage)) = .error ex := by
  have := window_then_gaps out pf hint hp n e lc _ hr
  exact this.symm

theorem wtg_ok (out : List TagCall) (pf : List Char) (hint : Extra) (hp : Bool) (n : Nat) (e : Expr) (lc : Option (Nat × Expr))
    (c : Option (List (Int × List Nat))) (out' : List TagCall)
    (hr : ChkPlurals.check_plurals_window pluralOps out none pf hint hp n e (lc.map (·.1)) (lc.map (·.2)) false 200 = .ok (c, out')) :
    (afterRegistry pf hp hint n e lc out).map (fun o => (o.tags, o.preimage)) = ChkPlurals.check_plurals_gaps pluralOps out' c hp n e 200 := by
  have := window_then_gaps out pf hint hp n e lc _ hr
  exact this.symm


/-! ## the glue: the whole `check_plurals_tail` is the model's `analyse` -/

theorem aef_none (inp : Input) (pf : List Char) (hp : Bool) (expected : List (Nat × List Char)) (hint : Extra) (tags0 : List TagCall)
    (n : Nat) (e : Expr) (lj rj : List Char) (h : inp.correct = none) :
    analyse inp pf hp expected hint tags0 n e lj rj = analyseFrom inp pf hp hint n e (prefixTags tags0 lj rj n expected) := by
  unfold analyse analyseFrom afterRegistry
  generalize window n e = W
  generalize gapRanges n e = G
  rw [h]
  simp only []
  rw [show lcOf none = none from rfl, show t4Of (unusualTagOf hp pf hint) none = [] from rfl]
  simp only [prefixTags, List.append_nil]
  rfl

theorem aef_error (inp : Input) (pf : List Char) (hp : Bool) (expected : List (Nat × List Char)) (hint : Extra) (tags0 : List TagCall)
    (n : Nat) (e : Expr) (lj rj : List Char) (cs : List (List Char)) (ex : Exc) (h : inp.correct = some cs) (hl : localCorrect n cs = .error ex) :
    analyse inp pf hp expected hint tags0 n e lj rj = analyseFrom inp pf hp hint n e (prefixTags tags0 lj rj n expected) := by
  unfold analyse analyseFrom afterRegistry
  generalize window n e = W
  generalize gapRanges n e = G
  rw [h]
  simp only [hl, Except.map]

theorem aef_nil (inp : Input) (pf : List Char) (hp : Bool) (expected : List (Nat × List Char)) (hint : Extra) (tags0 : List TagCall)
    (n : Nat) (e : Expr) (lj rj : List Char) (cs : List (List Char)) (h : inp.correct = some cs) (hl : localCorrect n cs = .ok []) :
    analyse inp pf hp expected hint tags0 n e lj rj = analyseFrom inp pf hp hint n e (prefixTags tags0 lj rj n expected) := by
  unfold analyse analyseFrom afterRegistry
  generalize window n e = W
  generalize gapRanges n e = G
  rw [h]
  simp only [hl, Except.map]
  rw [show lcOf (some []) = none from rfl, show t4Of (unusualTagOf hp pf hint) (some []) = [unusualTagOf hp pf hint] from rfl]
  simp only [prefixTags, List.append_nil]
  rfl

theorem aef_one (inp : Input) (pf : List Char) (hp : Bool) (expected : List (Nat × List Char)) (hint : Extra) (tags0 : List TagCall)
    (n : Nat) (e : Expr) (lj rj : List Char) (cs : List (List Char)) (x : Nat × Expr) (h : inp.correct = some cs) (hl : localCorrect n cs = .ok [x]) :
    analyse inp pf hp expected hint tags0 n e lj rj = analyseFrom inp pf hp hint n e (prefixTags tags0 lj rj n expected) := by
  unfold analyse analyseFrom afterRegistry
  generalize window n e = W
  generalize gapRanges n e = G
  rw [h]
  simp only [hl, Except.map]
  rw [show lcOf (some [x]) = (some x) from rfl, show t4Of (unusualTagOf hp pf hint) (some [x]) = [] from rfl]
  simp only [prefixTags, List.append_nil]
  rfl

theorem aef_many (inp : Input) (pf : List Char) (hp : Bool) (expected : List (Nat × List Char)) (hint : Extra) (tags0 : List TagCall)
    (n : Nat) (e : Expr) (lj rj : List Char) (cs : List (List Char)) (x y : Nat × Expr) (r : List (Nat × Expr)) (h : inp.correct = some cs) (hl : localCorrect n cs = .ok (x :: y :: r)) :
    analyse inp pf hp expected hint tags0 n e lj rj = analyseFrom inp pf hp hint n e (prefixTags tags0 lj rj n expected) := by
  unfold analyse analyseFrom afterRegistry
  generalize window n e = W
  generalize gapRanges n e = G
  rw [h]
  simp only [hl, Except.map]
  rw [show lcOf (some (x :: y :: r)) = none from rfl, show t4Of (unusualTagOf hp pf hint) (some (x :: y :: r)) = [] from rfl]
  simp only [prefixTags, List.append_nil]
  rfl

theorem analyse_eq_from (inp : Input) (pf : List Char) (hp : Bool) (expected : List (Nat × List Char)) (hint : Extra) (tags0 : List TagCall)
    (n : Nat) (e : Expr) (lj rj : List Char) :
    analyse inp pf hp expected hint tags0 n e lj rj = analyseFrom inp pf hp hint n e (prefixTags tags0 lj rj n expected) := by
  cases h : inp.correct with
  | none => exact aef_none inp pf hp expected hint tags0 n e lj rj h
  | some cs =>
    cases hl : localCorrect n cs with
    | error ex => exact aef_error inp pf hp expected hint tags0 n e lj rj cs ex h hl
    | ok l =>
      rcases l with _ | ⟨x, _ | ⟨y, r⟩⟩
      · exact aef_nil inp pf hp expected hint tags0 n e lj rj cs h hl
      · exact aef_one inp pf hp expected hint tags0 n e lj rj cs x h hl
      · exact aef_many inp pf hp expected hint tags0 n e lj rj cs x y r h hl

set_option hygiene false in
local macro "finish_wtg" : tactic => `(tactic| (
  simp only []
  generalize hr : ChkPlurals.check_plurals_window _ _ _ _ _ _ _ _ _ _ _ _ = r
  rcases r with ex | ⟨c, out'⟩
  · simp only []
    exact (wtg_error _ pf hint hp n e lc ex hr).symm
  · simp only []
    exact (wtg_ok _ pf hint hp n e lc c out' hr).symm))

theorem tail_eq (inp : Input) (pf : List Char) (hp : Bool) (expected : List (Nat × List Char)) (hint : Extra) (tags0 : List TagCall)
    (n : Nat) (e : Expr) (lj rj : List Char) :
    ChkPlurals.check_plurals_tail pluralOps tags0 none pf hint hp expected inp.correct n e lj rj =
      (analyse inp pf hp expected hint tags0 n e lj rj).map (fun o => (o.tags, o.preimage)) := by
  unfold ChkPlurals.check_plurals_tail
  simp only [ite_ok]
  generalize hs1 : "(Plural-Forms header field)".toList = s1
  generalize hs2 : "!=".toList = s2
  generalize hs3 : "(number of msgstr items)".toList = s3
  split
  · rename_i ex heq
    exfalso
    rcases expected with _ | ⟨⟨k, r⟩, _ | ⟨q, rest⟩⟩ <;> simp [PyKit.keys] at heq
  · rename_i out heq
    have hout : out = prefixTags tags0 lj rj n expected := by
      unfold prefixTags
      rw [hs1, hs2, hs3]
      rcases expected with _ | ⟨⟨k, r⟩, _ | ⟨q, rest⟩⟩ <;> by_cases hlj : lj.isEmpty = true <;> by_cases hrj : rj.isEmpty = true <;>
        simp [PyKit.keys, hlj, hrj] at heq ⊢ <;> (try (by_cases hk : n = k <;> simp [hk] at heq ⊢)) <;> simp [← heq]
    rw [analyse_eq_from, ← hout]
    clear heq hout hs1 hs2 hs3
    cases h : inp.correct with
    | none =>
      rw [registry_none, analyseFrom_none inp pf hp hint n e out h]
      obtain ⟨lc, hlc⟩ : ∃ lc : Option (Nat × Expr), lc = none := ⟨_, rfl⟩
      rw [← hlc]
      have e1 : (none : Option Nat) = lc.map (·.1) := by rw [hlc]; rfl
      have e2 : (none : Option Expr) = lc.map (·.2) := by rw [hlc]; rfl
      rw [e1, e2]
      finish_wtg
    | some cs =>
      cases hl : localCorrect n cs with
      | error ex =>
        rw [registry_error out pf hint hp n cs ex hl, analyseFrom_error inp pf hp hint n e out cs ex h hl]
        simp only [Except.map]
      | ok l =>
        rw [registry_ok out pf hint hp n cs l hl, analyseFrom_ok inp pf hp hint n e out cs l h hl]
        generalize lcOf (some l) = lc
        generalize t4Of (unusualTagOf hp pf hint) (some l) = t4
        finish_wtg


end I18n.CheckPlurals.GenChk
