import I18n.Lemmas.MsgFormatFlags
import I18n.Lemmas.MsgTags
/-
No exception can leave the message checks in a `Sane` environment.
-/
namespace I18n.Msg
open I18n.Tags
open I18n.Spec.MessageRules

/-- `str.format` on a template without braces returns it unchanged -/
theorem pyFormatGo_braceFree (args : List Str) (kw : List (Str × Str)) :
    ∀ (s : Str) (fuel : Nat) (st : AutoNum) (next : Nat) (acc : Str),
      s.length < fuel → (∀ c ∈ s, c ≠ 123 ∧ c ≠ 125) → pyFormatGo args kw fuel s st next acc = .ok (acc ++ s)
  | [], fuel, st, next, acc, hf, _ => by
    cases fuel with
    | zero => simp at hf
    | succ n => simp [pyFormatGo]
  | c :: rest, fuel, st, next, acc, hf, hb => by
    cases fuel with
    | zero => simp at hf
    | succ n =>
      have hc := hb c (by simp)
      have ih := pyFormatGo_braceFree args kw rest n st next (acc ++ [c]) (by simp at hf; omega)
        (fun x hx => hb x (by simp [hx]))
      simp [pyFormatGo, hc.1, hc.2, ih]

theorem pyFormat_braceFree (s : Str) (h : ∀ c ∈ s, c ≠ 123 ∧ c ≠ 125) : pyFormat s [] [] = .ok s := by
  simp [pyFormat, pyFormatGo_braceFree [] [] s (s.length + 1) .init 0 [] (by omega) h]

theorem impliedBy_ok (flag : Str) (h : ∀ c ∈ flag, c ≠ 123 ∧ c ≠ 125) :
    impliedBy flag = .ok (lit "(implied by " ++ flag ++ lit ")") := by
  apply pyFormat_braceFree
  intro c hc
  simp only [List.mem_append] at hc
  rcases hc with (hc | hc) | hc
  · revert c; decide
  · exact h c hc
  · revert c; decide

theorem formatSuffix_braceFree : ∀ c ∈ formatSuffix, c ≠ 123 ∧ c ≠ 125 := by decide

/-- the positive flag handed to `safe_format` as a template has no braces -/
theorem positive_flag_braceFree {env : Env} (hs : Sane env) (fs : List Str) (f : Str) :
    ∀ c ∈ (assocGet f (formatFlagsOf (formatDict env.flag fs) [])).getD [], c ≠ 123 ∧ c ≠ 125 := by
  intro c hc
  rw [assocGet_formatFlagsOf] at hc
  cases hv : assocGet ([], f) (formatDict env.flag fs) with
  | none => simp [hv] at hc
  | some v =>
    simp only [hv, Option.getD_some] at hc
    rcases assocGet_formatDict env.flag _ v fs [] hv with h | ⟨_, hk⟩
    · simp at h
    · rcases format_flag_chars hk hc with ⟨p, hp, hcp⟩ | ⟨n, hn, hcn⟩ | h
      · exact hs.prefixBraces p hp c hcp
      · exact hs.braces n hn c hcn
      · exact formatSuffix_braceFree c h

/-- `redundant-message-flag` calls, with the `(implied by …)` extra spelled out -/
theorem redundantLoop_eq {env : Env} (hs : Sane env) (e : Entry) (fs : List Str) :
    redundantLoop env.flag e (formatDict env.flag fs) =
      (commonKeys (formatFlagsOf (formatDict env.flag fs) []) (formatFlagsOf (formatDict env.flag fs) (lit "possible"))).map fun f =>
        tagR env.flag.db e tplColon .redundantMessageFlag
          [.str ((assocGet f (formatFlagsOf (formatDict env.flag fs) (lit "possible"))).getD []),
           .safe (lit "(implied by " ++ (assocGet f (formatFlagsOf (formatDict env.flag fs) [])).getD [] ++ lit ")")] := by
  simp only [redundantLoop]
  apply List.map_congr_left
  intro f _
  rw [impliedBy_ok _ (positive_flag_braceFree hs fs f)]

theorem noCrash_of_tags {l : List Emit} (h : ∀ x ∈ l, ∃ t r, x = .tag t r) : noCrash l = true := by
  rw [noCrash_iff]; intro x hx; obtain ⟨t, r, h⟩ := h _ hx; cases h

theorem noCrash_flatMap {α : Type} {l : List α} {f : α → List Emit} (h : ∀ a ∈ l, noCrash (f a) = true) :
    noCrash (l.flatMap f) = true := by
  induction l with
  | nil => rfl
  | cons a as ih =>
    simp only [List.flatMap_cons, noCrash_append, Bool.and_eq_true]
    exact ⟨h a (by simp), ih fun x hx => h x (by simp [hx])⟩

theorem noCrash_rule (c : Bool) (t : MTag) (r : List Extra) : noCrash (rule c (.tag t r)) = true := by
  cases c <;> simp [rule, noCrash]

theorem noCrash_flagTags {env : Env} (hs : Sane env) (e : Entry) : noCrash (flagTags env.flag e) = true := by
  simp only [flagTags, noCrash_append, Bool.and_eq_true]
  refine ⟨⟨⟨⟨?_, ?_⟩, ?_⟩, ?_⟩, ?_⟩
  · apply noCrash_flatMap
    intro f _
    simp only [perFlag, tagR]
    split <;> (try split) <;> simp [noCrash_append, noCrash_rule, noCrash]
  · apply noCrash_of_tags
    intro x hx
    simp only [rangeTail, tagR] at hx
    split at hx
    · split at hx <;> simp_all
    · split at hx
      · split at hx <;> simp_all
      · simp at hx
  · apply noCrash_of_tags
    intro x hx
    simp only [positivePairs, List.mem_flatMap, tagR] at hx
    obtain ⟨f1, _, f2, _, hx⟩ := hx
    split at hx <;> (try split at hx) <;> simp_all
  · apply noCrash_of_tags
    intro x hx
    simp only [conflictLoop, List.mem_flatMap, List.mem_map, tagR] at hx
    obtain ⟨pn, _, f, _, hx⟩ := hx
    exact ⟨_, _, hx.symm⟩
  · rw [redundantLoop_eq hs]
    apply noCrash_of_tags
    intro x hx
    simp only [List.mem_map, tagR] at hx
    obtain ⟨f, _, hx⟩ := hx
    exact ⟨_, _, hx.symm⟩

theorem noCrash_unusualTags (env : Env) (pre : List Entry) (e : Entry) :
    ∀ (rest done : List Str), noCrash (unusualTags env pre e done rest) = true
  | [], _ => rfl
  | s :: rest, done => by
    simp only [unusualTags, noCrash_append, noCrash_unusualTags env pre e rest, Bool.and_true]
    split
    · rfl
    · simp only [unusualTag]; split <;> simp [noCrash, tagR]

theorem noCrash_entryTags {env : Env} (hs : Sane env) (ctx : Ctx) (pre : List Entry) (e : Entry) :
    noCrash (entryTags env ctx pre e) = true := by
  unfold entryTags
  split
  · rfl
  · have hd : noCrash (dispatch env e) = true := by
      rw [noCrash_iff]; intro x hx; simp [dispatch] at hx
    have hx : noCrash (xmlTags env ctx e) = true := by
      simp only [xmlTags]
      split
      · split
        · simp [tagR, noCrash_rule]
        · split
          · split <;> simp [tagR, noCrash]
          · rfl
        · rfl
      · rfl
    have hm : ∀ m, noCrash (markerTag env.flag.db e m) = true := by
      intro m; cases m <;> simp [markerTag, tagR, noCrash]
    simp only [noCrash_append, noCrash_flagTags hs, hd, hx, tagR, noCrash_rule, Bool.and_true, Bool.true_and]
    cases ctx.hasEncoding <;> cases fuzzy e <;> simp [noCrash_unusualTags, noCrash_append, hm, noCrash_rule, noCrash]

theorem noCrash_flatten {ls : List (List Emit)} (h : ∀ l ∈ ls, noCrash l = true) : noCrash ls.flatten = true := by
  induction ls with
  | nil => rfl
  | cons l ls ih =>
    simp only [List.flatten_cons, noCrash_append, Bool.and_eq_true]
    exact ⟨h l (by simp), ih fun x hx => h x (by simp [hx])⟩

theorem mem_entriesFrom {env : Env} {ctx : Ctx} : ∀ {rest pre : List Entry} {l : List Emit},
    l ∈ entriesFrom env ctx pre rest → ∃ p e, l = entryTags env ctx p e
  | [], _, _, h => by simp [entriesFrom] at h
  | e :: rest, pre, l, h => by
    simp only [entriesFrom, List.mem_cons] at h
    rcases h with h | h
    · exact ⟨pre, e, h⟩
    · exact mem_entriesFrom h

/-- no exception leaves `check_messages` in a sane environment: what is observable is the whole run -/
theorem noCrash_checkMessages {env : Env} (hs : Sane env) (ctx : Ctx) (file : List Entry) :
    noCrash (checkMessages env ctx file) = true := by
  simp only [checkMessages, trace_eq hs, messageRules, noCrash_append, Bool.and_eq_true]
  refine ⟨noCrash_flatten ?_, ?_⟩
  · intro l hl
    obtain ⟨p, e, rfl⟩ := mem_entriesFrom hl
    exact noCrash_entryTags hs ctx p e
  · simp only [fileTags]; exact noCrash_rule _ _ _

end I18n.Msg
