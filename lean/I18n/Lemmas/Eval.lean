import I18n.Generated.Intexpr
import I18n.Lemmas.PyArith
/-! Facts about the generated `Evaluator` shared by the C04/C05/C06 proofs. -/
namespace I18n.Plural
open I18n I18n.Py I18n.Generated.Intexpr

theorem check_overflow_ok {M n v k : Int} (h : Evaluator._check_overflow M n k = .ok v) :
    v = k ∧ 0 ≤ k ∧ k < M := by
  unfold Evaluator._check_overflow at h
  split at h
  · cases h
  · split at h
    · cases h
    · cases h; omega

theorem check_overflow_of {M n k : Int} (h0 : 0 ≤ k) (h1 : k < M) :
    Evaluator._check_overflow M n k = .ok k := by
  unfold Evaluator._check_overflow
  have : ¬ k < 0 := by omega
  have : ¬ k ≥ M := by omega
  simp [*]

end I18n.Plural
