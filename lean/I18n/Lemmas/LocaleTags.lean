import I18n.Spec.LocaleTags
import I18n.Lemmas.LocaleFix
/-
`check_language` model = the reference verdict (`Spec.LocaleTags`), stage by stage.
-/
namespace I18n.Locale
open I18n I18n.Spec.LocaleTags

/-! ### the Language field -/

theorem eraseDups_short (ms : List (List Char)) (h : ¬ ms.length > 1) : ms.eraseDups = ms := by
  match ms, h with
  | [], _ => simp
  | [a], _ => simp [List.eraseDups_cons]
  | a :: b :: t, h => simp at h

theorem stageMeta_tags (ms : List (List Char)) :
    (stageMeta ms).tags = when (ms.length > 1) (tag "duplicate-header-field-language" []) := by
  simp [stageMeta, when]

theorem stageMeta_value (ms : List (List Char)) : (stageMeta ms).metaLanguage = fieldValue ms := by
  by_cases h : ms.length > 1
  · simp only [stageMeta, fieldValue, h, if_true]
    generalize ms.eraseDups = x
    match x with
    | [] => rfl
    | [a] => rfl
    | _ :: _ :: _ => rfl
  · simp only [stageMeta, fieldValue, h, if_false, eraseDups_short ms h]
    match ms with
    | [] => rfl
    | [a] => rfl
    | _ :: _ :: _ => rfl

theorem stageMeta_dup (ms : List (List Char)) : (stageMeta ms).duplicate = conflicting ms := by
  by_cases h : ms.length > 1
  · simp [stageMeta, conflicting, h]
  · have := eraseDups_short ms h
    simp [stageMeta, conflicting, h, this]


/-! ### `get_language_for_name` raises nothing but `LookupError` (side condition on the generated name table) -/

/-- every locale name in the name table is in the locale grammar -/
def namesParse (T : List (List Char × List Char)) : Bool := T.all fun e => (parseLanguage e.2).isSome

set_option maxRecDepth 100000 in
theorem names_parse : namesParse Generated.Locale.nameToCode = true := by decide +kernel

theorem nameCode_parses (n c : List Char) (h : nameCode n = some c) : ∃ l, parseLanguage c = some l := by
  have hm := lookup_mem _ n c h
  have := List.all_eq_true.1 names_parse (n, c) hm
  exact Option.isSome_iff_exists.1 this

theorem tryName_ok (n : List Char) (r : Except LErr Language) (h : tryName n = some r) : ∃ l, r = .ok l := by
  unfold tryName at h
  split at h
  · cases h
  · rename_i c hc
    obtain ⟨l, hl⟩ := nameCode_parses n c hc
    cases h
    exact ⟨l, by simp [parseLanguageE, hl]⟩

theorem firstName_ok (ns : List (List Char)) (r : Except LErr Language) (h : firstName ns = some r) : ∃ l, r = .ok l := by
  induction ns with
  | nil => simp [firstName] at h
  | cons n t ih =>
    simp only [firstName] at h
    split at h
    · rename_i r' hr; cases h; exact tryName_ok _ _ hr
    · exact ih h

theorem getLanguageForName_cases (m : List Char) :
    (∃ l, getLanguageForName m = .ok l) ∨ getLanguageForName m = .error .lookupError := by
  unfold getLanguageForName
  split
  · rename_i r hr; obtain ⟨l, rfl⟩ := tryName_ok _ _ hr; exact Or.inl ⟨l, rfl⟩
  · split
    · rename_i r hr
      split at hr
      · obtain ⟨l, rfl⟩ := firstName_ok _ _ hr; exact Or.inl ⟨l, rfl⟩
      · cases hr
    · split
      · simp only
        split
        · rename_i r hr; obtain ⟨l, rfl⟩ := tryName_ok _ _ hr; exact Or.inl ⟨l, rfl⟩
        · split
          · rename_i c hc
            have hmem : c ∈ ((splitOn ',' m).filterMap (fun n => nameCode (strip n))).eraseDups := by rw [hc]; simp
            rw [List.mem_eraseDups, List.mem_filterMap] at hmem
            obtain ⟨n, _, hn⟩ := hmem
            obtain ⟨l, hl⟩ := nameCode_parses _ c hn
            exact Or.inl ⟨l, by simp [parseLanguageE, hl]⟩
          · exact Or.inr rfl
      · exact Or.inr rfl

theorem firstName_sound (ns : List (List Char)) (l : Language) (h : firstName ns = some (.ok l)) :
    ∃ n ∈ ns, ∃ c, nameCode (strip n) = some c ∧ parseLanguage c = some l := by
  induction ns with
  | nil => simp [firstName] at h
  | cons n t ih =>
    simp only [firstName] at h
    split at h
    · rename_i r hr
      cases h
      unfold tryName at hr
      split at hr
      · cases hr
      · rename_i c hc
        simp only [Option.some.injEq] at hr
        unfold parseLanguageE at hr
        split at hr
        · rename_i l' hl'
          cases hr
          exact ⟨n, by simp, c, hc, hl'⟩
        · cases hr
    · obtain ⟨n', hn', c, hc⟩ := ih h
      exact ⟨n', by simp [hn'], c, hc⟩

/-- the language a name identifies always comes from the name table: for the whole (munched) name, a `;`-separated
    alternative, `B, A` read as `A B`, or a `,`-separated part -/
theorem getLanguageForName_sound (m : List Char) (l : Language) (h : getLanguageForName m = .ok l) :
    ∃ n c, nameCode n = some c ∧ parseLanguage c = some l ∧
      (n = m ∨ (∃ x ∈ splitOn ';' m, n = strip x)
        ∨ n = strip ((m.dropWhile (· ≠ ',')).drop 1) ++ ' ' :: strip (m.takeWhile (· ≠ ','))
        ∨ (∃ x ∈ splitOn ',' m, n = strip x)) := by
  have pe : ∀ c l, parseLanguageE c = .ok l → parseLanguage c = some l := by
    intro c l hc
    unfold parseLanguageE at hc
    split at hc
    · cases hc; assumption
    · cases hc
  unfold getLanguageForName at h
  split at h
  · rename_i r hr
    unfold tryName at hr
    split at hr
    · cases hr
    · rename_i c hc
      cases hr
      exact ⟨m, c, hc, pe _ _ h, Or.inl rfl⟩
  · split at h
    · rename_i r hr
      split at hr
      · subst h
        obtain ⟨n, hn, c, hc, hl⟩ := firstName_sound _ _ hr
        exact ⟨strip n, c, hc, hl, Or.inr (Or.inl ⟨n, hn, rfl⟩)⟩
      · cases hr
    · split at h
      · simp only at h
        split at h
        · rename_i r hr
          unfold tryName at hr
          split at hr
          · cases hr
          · rename_i c hc
            cases hr
            exact ⟨_, c, hc, pe _ _ h, Or.inr (Or.inr (Or.inl rfl))⟩
        · split at h
          · rename_i c hc
            have hmem : c ∈ ((splitOn ',' m).filterMap (fun n => nameCode (strip n))).eraseDups := by rw [hc]; simp
            rw [List.mem_eraseDups, List.mem_filterMap] at hmem
            obtain ⟨n, hn, hnc⟩ := hmem
            exact ⟨strip n, c, hnc, pe _ _ h, Or.inr (Or.inr (Or.inr ⟨n, hn, rfl⟩))⟩
          · cases h
      · cases h

/-- a name of the table is identified as its locale -/
theorem getLanguageForName_whole (m c : List Char) (h : nameCode m = some c) :
    getLanguageForName m = parseLanguageE c := by
  unfold getLanguageForName tryName
  simp [h]

theorem named_eq (munch : List Char → List Char) (v : List Char) :
    getLanguageForName (munch v) = (match named munch v with | some l => .ok l | none => .error .lookupError) := by
  unfold named
  rcases getLanguageForName_cases (munch v) with ⟨l, h⟩ | h <;> simp [h]


/-! ### the field's value: name stage and normalisation stage -/

theorem removeEncoding_eq (l : Language) : removeEncoding l = (dropEncoding l, l.enc.isSome) := by
  obtain ⟨a, b, c, d⟩ := l
  cases c <;> rfl

theorem removeNonling_eq (l : Language) :
    removeNonlinguisticModifier l = (dropEuro l, decide (l.mod = some "euro".toList)) := by
  unfold removeNonlinguisticModifier dropEuro
  split
  · rename_i h; simp [h]
  · rename_i h
    rw [decide_eq_false h]

theorem fixCodes_err (l : Language) (e : LErr) (h : fixCodes l = .error e) : e = .fixingCodes := by
  rw [fixCodes_eq] at h
  split at h
  · cases h; rfl
  · split at h
    · cases h
    · cases h; rfl

theorem stageField_eq (munch : List Char → List Char) (v : List Char) :
    stageField munch v = .ok
      ((match parseLanguage v, named munch v with
        | some _, _ => []
        | none, some l => [tag "invalid-language" [.str v, sExtra "=>", langExtra l]]
        | none, none => [tag "invalid-language" [.str v]]),
       candidate munch v) := by
  unfold stageField candidate
  cases hp : parseLanguage v with
  | some l => rfl
  | none =>
    simp only
    rw [named_eq]
    cases named munch v <;> rfl

theorem stageNormalise_eq (orig : List Char) (l : Language) :
    stageNormalise orig l = .ok
      (when l.enc.isSome (tag "encoding-in-language-header-field" [.str orig])
        ++ when (l.mod = some "euro".toList) (tag "language-variant-does-not-affect-translation" [.str orig])
        ++ (match canonical l with
          | none => [tag "invalid-language" [.str orig]]
          | some (l', changed) => when changed (tag "invalid-language" [.str orig, sExtra "=>", langExtra l'])),
       (canonical l).map (·.1)) := by
  unfold stageNormalise canonical
  simp only [removeEncoding_eq, removeNonling_eq]
  have hmod : (dropEncoding l).mod = l.mod := rfl
  rw [hmod]
  cases hf : fixCodes (dropEuro (dropEncoding l)) with
  | ok r =>
    obtain ⟨l', fixed⟩ := r
    simp [when]
  | error e =>
    have := fixCodes_err _ _ hf
    subst this
    simp [when, LErr.isLanguageError]


/-! ### the sources outside the header -/

theorem fixCodes_enc (l l' : Language) (f : Bool) (h : fixCodes l = .ok (l', f)) : l'.enc = l.enc := by
  rw [fixCodes_eq] at h
  split at h
  · cases h
  · split at h
    · cases h; rfl
    · cases h

theorem lcMessagesLanguage_eq (path : List Char) :
    lcMessagesLanguage path = .ok (((lcMessagesDir path).bind known).map (fun l => dropEuro (dropEncoding l))) := by
  unfold lcMessagesLanguage lcMessagesDir
  simp only
  by_cases hi : List.findIdx (fun x => decide (x = "LC_MESSAGES".toList)) (splitOn '/' (normpath path)) < (splitOn '/' (normpath path)).length
      ∧ List.findIdx (fun x => decide (x = "LC_MESSAGES".toList)) (splitOn '/' (normpath path)) > 0
  · have hi' : 0 < List.findIdx (fun x => decide (x = "LC_MESSAGES".toList)) (splitOn '/' (normpath path))
        ∧ List.findIdx (fun x => decide (x = "LC_MESSAGES".toList)) (splitOn '/' (normpath path)) < (splitOn '/' (normpath path)).length :=
      ⟨hi.2, hi.1⟩
    rw [if_pos hi, if_pos hi']
    simp only [Option.bind_some, known, parseLanguageE]
    cases parseLanguage ((splitOn '/' (normpath path)).getD
        (List.findIdx (fun x => decide (x = "LC_MESSAGES".toList)) (splitOn '/' (normpath path)) - 1) []) with
    | none => rfl
    | some l =>
      simp only
      cases hf : fixCodes l with
      | ok r => obtain ⟨l', f⟩ := r; simp [removeEncoding_eq, removeNonling_eq]
      | error e => have := fixCodes_err _ _ hf; subst this; rfl
  · have hi' : ¬ (0 < List.findIdx (fun x => decide (x = "LC_MESSAGES".toList)) (splitOn '/' (normpath path))
        ∧ List.findIdx (fun x => decide (x = "LC_MESSAGES".toList)) (splitOn '/' (normpath path)) < (splitOn '/' (normpath path)).length) :=
      fun h => hi ⟨h.2, h.1⟩
    rw [if_neg hi, if_neg hi']
    rfl

theorem basenameLanguage_eq (path : List Char) (hext : (splitext (basename path)).2 = ".po".toList) :
    basenameLanguage path = .ok ((known (splitext (basename path)).1).bind
      (fun l => if l.enc.isSome then none else some (dropEuro l))) := by
  unfold basenameLanguage known
  simp only [hext, ne_eq, not_true_eq_false, if_false, parseLanguageE]
  cases parseLanguage (splitext (basename path)).1 with
  | none => rfl
  | some l =>
    simp only
    cases hf : fixCodes l with
    | ok r =>
      obtain ⟨l', f⟩ := r
      have he := fixCodes_enc _ _ _ hf
      cases hle : l.enc with
      | none => simp [hle, he, removeNonling_eq]
      | some e => simp [hle, he]
    | error e =>
      have := fixCodes_err _ _ hf; subst this
      cases l.enc <;> rfl

theorem basenameLanguage_assert (path : List Char) (hext : (splitext (basename path)).2 ≠ ".po".toList) :
    basenameLanguage path = .error .assertion := by
  unfold basenameLanguage
  simp only
  rw [if_pos hext]


theorem stagePath_spec (inp : Input) (ps : PathStage) (h : stagePath inp.optLanguage inp.path = .ok ps) :
    match outside inp with
    | none => ps.language = none
    | some o => ps.language = some o.language ∧ ps.source = o.source ∧ (ps.quality ≤ 0 ↔ o.strength = .weak) := by
  unfold stagePath at h
  unfold outside
  cases hopt : inp.optLanguage with
  | some l =>
    simp only [hopt] at h
    cases h
    simp
  | none =>
    simp only [hopt, lcMessagesLanguage_eq] at h
    cases hlc : (lcMessagesDir inp.path).bind known with
    | some l =>
      simp only [hlc, Option.map_some] at h
      cases h
      simp
    | none =>
      simp only [hlc, Option.map_none] at h
      unfold poStem
      by_cases hext : (splitext (basename inp.path)).2 = ".po".toList
      · simp only [hext, if_true] at h ⊢
        rw [basenameLanguage_eq _ hext] at h
        simp only [Option.bind_some]
        cases hk : known (splitext (basename inp.path)).1 with
        | none => simp only [hk, Option.bind_none] at h; cases h; simp
        | some l =>
          simp only [hk, Option.bind_some] at h
          cases hle : l.enc with
          | none => simp only [hle, Option.isSome_none] at h; cases h; simp [hle]
          | some e => simp only [hle, Option.isSome_some, if_true] at h; cases h; simp [hle]
      · simp only [hext, if_false] at h ⊢
        cases h
        simp


/-! ### comparison, X-Poedit-Language, final stage -/

/-- the current language with its source -/
def LangState.cur (st : LangState) : Option (Language × String) := st.language.map (fun l => (l, st.source))

theorem disparityTag_eq : disparityTag = disparity := rfl

theorem stageCompare_tags (st : LangState) (ml : Option Language) :
    (stageCompare st ml).tags = st.tags ++
      (match st.cur, ml with
        | some (l, src), some m => when (l ≠ m) (disparity l src m "Language header field")
        | _, _ => []) := by
  unfold stageCompare LangState.cur
  cases ml with
  | none => cases st.language <;> simp
  | some m =>
    cases hl : st.language with
    | none => simp
    | some l =>
      by_cases hne : l = m
      · simp [hne, when]
      · simp [hne, when, disparityTag_eq]

theorem stageCompare_cur (st : LangState) (ml : Option Language) :
    (stageCompare st ml).cur =
      (match st.cur with
        | some c => some c
        | none => ml.map (fun m => (m, "Language header field"))) := by
  unfold stageCompare LangState.cur
  cases ml with
  | none => cases st.language <;> simp
  | some m =>
    cases hl : st.language with
    | none => simp
    | some l =>
      by_cases hne : l = m
      · simp [hne, hl]
      · simp [hne, hl]

theorem poeditDedup_tags (f : String) (xs : List (List Char)) :
    (poeditDedup f xs).1 = when (xs.length > 1) (tag "duplicate-header-field-x-poedit" [sExtra f]) := by
  unfold poeditDedup when
  by_cases h : xs.length > 1 <;> simp [h]

theorem poeditDedup_list (f : String) (xs : List (List Char)) : (poeditDedup f xs).2 = xs.eraseDups := by
  unfold poeditDedup
  by_cases h : xs.length > 1
  · simp [h]
  · simp [h, eraseDups_short xs h]

theorem stagePoedit_eq (munch : List Char → List Char) (st : LangState) (pls pcs : List (List Char)) :
    ∃ st', stagePoedit munch st pls pcs = .ok st' ∧
      st'.tags = st.tags
        ++ when (pls.length > 1) (tag "duplicate-header-field-x-poedit" [sExtra "X-Poedit-Language"])
        ++ when (pcs.length > 1) (tag "duplicate-header-field-x-poedit" [sExtra "X-Poedit-Country"])
        ++ (match poeditValueOf pls pcs with
          | none => []
          | some p =>
            match named munch p with
            | none => [tag "unknown-poedit-language" [.str p]]
            | some pl =>
              match st.cur with
              | none => []
              | some (l, src) => when (l.ll ≠ pl.ll) (disparity l src pl "X-Poedit-Language header field"))
      ∧ st'.cur = (match st.cur with
          | some c => some c
          | none => ((poeditValueOf pls pcs).bind (named munch)).map (fun p => (p, "X-Poedit-Language header field"))) := by
  unfold stagePoedit poeditValueOf
  simp only [poeditDedup_tags, poeditDedup_list]
  generalize pls.eraseDups = d1
  match d1 with
  | [] => exact ⟨_, rfl, by simp, by simp [LangState.cur]; cases st.language <;> simp⟩
  | _ :: _ :: _ => exact ⟨_, rfl, by simp, by simp [LangState.cur]; cases st.language <;> simp⟩
  | [p] =>
    simp only
    by_cases hc : pcs.eraseDups.length ≤ 1
    · simp only [hc, if_true]
      rw [named_eq]
      cases hn : named munch p with
      | none => exact ⟨_, rfl, by simp, by simp [LangState.cur]; cases st.language <;> simp [hn]⟩
      | some pl =>
        simp only
        cases hl : st.language with
        | none => exact ⟨_, rfl, by simp [LangState.cur, hl], by simp [LangState.cur, hl, hn]⟩
        | some l =>
          by_cases hne : l.ll = pl.ll
          · simp only [hne, ne_eq, not_true_eq_false, if_false]
            exact ⟨_, rfl, by simp [LangState.cur, hl, hne, when], by simp [LangState.cur, hl]⟩
          · simp only [ne_eq, hne, not_false_eq_true, if_true]
            exact ⟨_, rfl, by simp [LangState.cur, hl, hne, when, disparityTag_eq], by simp [LangState.cur, hl]⟩
    · simp only [hc, if_false]
      exact ⟨_, rfl, by simp, by simp [LangState.cur]; cases st.language <;> simp⟩


theorem cur_language (st : LangState) : st.cur.map (·.1) = st.language := by
  unfold LangState.cur; cases st.language <;> rfl

/-- the part of the verdict after the field's own tags -/
def tailTags (munch : List Char → List Char) (inp : Input) : List TagCall :=
  (match effectiveOutside munch inp, fieldLanguage munch inp.metaLanguages with
    | some o, some m => when (o.language ≠ m) (disparity o.language o.source m "Language header field")
    | _, _ => [])
  ++ when (inp.poeditLanguages.length > 1) (tag "duplicate-header-field-x-poedit" [sExtra "X-Poedit-Language"])
  ++ when (inp.poeditCountries.length > 1) (tag "duplicate-header-field-x-poedit" [sExtra "X-Poedit-Country"])
  ++ (match poeditValue inp with
    | none => []
    | some p =>
      match named munch p with
      | none => [tag "unknown-poedit-language" [.str p]]
      | some pl =>
        match primary munch inp with
        | none => []
        | some (l, src) => when (l.ll ≠ pl.ll) (disparity l src pl "X-Poedit-Language header field"))
  ++ (match finalLanguage munch inp with
    | none =>
      when (fieldAbsent inp.metaLanguages) (tag "no-language-header-field" [])
      ++ [tag "unable-to-determine-language" []]
    | some l => when (fieldAbsent inp.metaLanguages) (tag "no-language-header-field" [safeExtra "Language:", langExtra l]))

theorem when_absent (oe dupb : Bool) (b : Bool) (hoe : (oe = true ∧ ¬ dupb = true) ↔ b = true) (X : TagCall) :
    (if oe = true ∧ ¬ dupb = true then [X] else []) = when b X := by
  unfold when
  by_cases hb : b = true
  · rw [if_pos (hoe.2 hb), if_pos hb]
  · rw [if_neg (fun h => hb (hoe.1 h)), if_neg hb]

theorem tail_verdict (munch : List Char → List Char) (inp : Input) (base : List TagCall) (lang : Option Language) (src : String)
    (hcur : (⟨base, lang, src⟩ : LangState).cur = (effectiveOutside munch inp).map (fun o => (o.language, o.source)))
    (ml2 : Option Language) (hml : ml2 = fieldLanguage munch inp.metaLanguages)
    (oe dupb : Bool) (hoe : (oe = true ∧ ¬ dupb = true) ↔ fieldAbsent inp.metaLanguages = true)
    (out : Output)
    (h : (match stagePoedit munch (stageCompare ⟨base, lang, src⟩ ml2)
              inp.poeditLanguages inp.poeditCountries with
          | .error e => .error e
          | .ok st => .ok (stageFinal st oe dupb))
        = Except.ok out) :
    out.tags = base ++ tailTags munch inp ∧ out.language = finalLanguage munch inp := by
  subst hml
  obtain ⟨st', hst, htags, hcur'⟩ := stagePoedit_eq munch (stageCompare ⟨base, lang, src⟩ (fieldLanguage munch inp.metaLanguages))
    inp.poeditLanguages inp.poeditCountries
  rw [hst] at h
  cases h
  have hprim : (stageCompare ⟨base, lang, src⟩ (fieldLanguage munch inp.metaLanguages)).cur = primary munch inp := by
    rw [stageCompare_cur, hcur]
    unfold primary
    cases effectiveOutside munch inp <;> rfl
  rw [hprim] at hcur' htags
  have hfin : st'.language = finalLanguage munch inp := by
    rw [← cur_language, hcur']
    unfold finalLanguage poeditValue
    cases hp : primary munch inp with
    | none =>
      cases poeditValueOf inp.poeditLanguages inp.poeditCountries with
      | none => rfl
      | some p => simp only [Option.bind_some]; cases named munch p <;> rfl
    | some c => obtain ⟨l, s⟩ := c; rfl
  rw [stageCompare_tags, hcur] at htags
  refine ⟨?_, ?_⟩
  · unfold stageFinal tailTags
    rw [← hfin]
    cases hl : st'.language with
    | none =>
      simp only [htags, poeditValue, when_absent oe dupb _ hoe]
      cases effectiveOutside munch inp <;> cases fieldLanguage munch inp.metaLanguages <;> simp [List.append_assoc, when]
    | some l =>
      simp only [htags, poeditValue, when_absent oe dupb _ hoe]
      cases effectiveOutside munch inp <;> cases fieldLanguage munch inp.metaLanguages <;> simp [List.append_assoc, when]
  · unfold stageFinal
    rw [← hfin]
    cases st'.language <;> rfl


theorem cur_effective (munch : List Char → List Char) (inp : Input) (ps : PathStage)
    (hsp : match outside inp with
      | none => ps.language = none
      | some o => ps.language = some o.language ∧ ps.source = o.source ∧ (ps.quality ≤ 0 ↔ o.strength = .weak))
    (base : List TagCall) :
    (⟨base, if libreOffice ps.quality (fieldLanguage munch inp.metaLanguages) inp.path = true then none else ps.language, ps.source⟩ : LangState).cur
      = (effectiveOutside munch inp).map (fun o => (o.language, o.source)) := by
  unfold effectiveOutside LangState.cur
  cases ho : outside inp with
  | none =>
    simp only [ho] at hsp
    simp [hsp]
  | some o =>
    simp only [ho] at hsp
    obtain ⟨h1, h2, h3⟩ := hsp
    cases hfl : fieldLanguage munch inp.metaLanguages with
    | none => simp [libreOffice, h1, h2]
    | some m =>
      have hb : libreOffice ps.quality (some m) inp.path = libreOfficeException o m inp.path := by
        unfold libreOffice libreOfficeException fmtLang
        by_cases hq : ps.quality ≤ 0
        · have hw := h3.1 hq
          simp only [hq, hw, true_and]
        · have hw : ¬ o.strength = .weak := fun h => hq (h3.2 h)
          simp only [hq, hw, false_and]
      rw [hb]
      cases hle : libreOfficeException o m inp.path <;> simp [h1, h2, hle]

theorem checkLanguage_verdict (munch : List Char → List Char) (inp : Input) (out : Output)
    (h : checkLanguage munch inp = .ok out) :
    out.tags = verdictTags munch inp ∧ out.language = verdictLanguage munch inp := by
  unfold checkLanguage at h
  simp only [stageMeta_tags, stageMeta_value, stageMeta_dup] at h
  by_cases ht : inp.isTemplate = true
  · simp only [ht, if_true] at h
    cases h
    simp [verdictTags, verdictLanguage, ht, when]
  · have ht' : inp.isTemplate = false := by simpa using ht
    simp only [ht', Bool.false_eq_true, if_false] at h
    cases hps : stagePath inp.optLanguage inp.path with
    | error e => simp [hps] at h
    | ok ps =>
      simp only [hps] at h
      have hsp := stagePath_spec inp ps hps
      have hoe : (decide ((fieldValue inp.metaLanguages).getD [] = []) = true ∧ ¬ conflicting inp.metaLanguages = true)
          ↔ fieldAbsent inp.metaLanguages = true := by
        simp [fieldAbsent]
      have hv : verdictTags munch inp = when (inp.metaLanguages.length > 1) (tag "duplicate-header-field-language" [])
          ++ ((match fieldValue inp.metaLanguages with
                | none => []
                | some v => if v = [] then [] else fieldRules munch v) ++ tailTags munch inp) := by
        unfold verdictTags tailTags
        simp only [ht', Bool.false_eq_true, if_false, List.append_assoc]
        rfl
      have hl : verdictLanguage munch inp = finalLanguage munch inp := by simp [verdictLanguage, ht']
      rw [hv, hl]
      generalize hoeb : decide ((fieldValue inp.metaLanguages).getD [] = []) = oe at h hoe
      generalize hdup : conflicting inp.metaLanguages = dupb at h hoe
      have hce := cur_effective munch inp ps hsp
      cases hfv : fieldValue inp.metaLanguages with
      | none =>
        have hfl : fieldLanguage munch inp.metaLanguages = none := by simp [fieldLanguage, hfv]
        simp only [hfv] at h
        rw [hfl] at hce
        have hcur0 : ∀ base, (⟨base, ps.language, ps.source⟩ : LangState).cur
            = (effectiveOutside munch inp).map (fun o => (o.language, o.source)) := by
          intro base; simpa [libreOffice] using hce base
        have := tail_verdict munch inp _ _ _ (hcur0 _) none hfl.symm oe dupb hoe out h
        simpa [List.append_assoc] using this
      | some v =>
        by_cases hve : v = []
        · have hfl : fieldLanguage munch inp.metaLanguages = none := by simp [fieldLanguage, hfv, hve]
          simp only [hfv, hve, if_true] at h
          rw [hfl] at hce
          have hcur0 : ∀ base, (⟨base, ps.language, ps.source⟩ : LangState).cur
              = (effectiveOutside munch inp).map (fun o => (o.language, o.source)) := by
            intro base; simpa [libreOffice] using hce base
          have := tail_verdict munch inp _ _ _ (hcur0 _) none hfl.symm oe dupb hoe out h
          simpa [List.append_assoc, hve] using this
        · simp only [hfv, hve, if_false, stageField_eq] at h
          cases hc : candidate munch v with
          | none =>
            have hfl : fieldLanguage munch inp.metaLanguages = none := by simp [fieldLanguage, hfv, hve, hc]
            simp only [hc] at h
            rw [hfl] at hce
            have hcur0 : ∀ base, (⟨base, ps.language, ps.source⟩ : LangState).cur
                = (effectiveOutside munch inp).map (fun o => (o.language, o.source)) := by
              intro base; simpa [libreOffice] using hce base
            have := tail_verdict munch inp _ _ _ (hcur0 _) none hfl.symm oe dupb hoe out h
            refine ⟨?_, this.2⟩
            rw [this.1]
            simp [List.append_assoc, hve, fieldRules, hc] <;> rfl
          | some l =>
            have hfl : fieldLanguage munch inp.metaLanguages = (canonical l).map (·.1) := by simp [fieldLanguage, hfv, hve, hc]
            simp only [hc, stageNormalise_eq, Option.getD_some] at h
            rw [hfl] at hce
            have := tail_verdict munch inp _ _ _ (hce _) _ hfl.symm oe dupb hoe out h
            refine ⟨?_, this.2⟩
            rw [this.1]
            simp [List.append_assoc, hve, fieldRules, hc] <;> rfl

end I18n.Locale
