import I18n.Lemmas.MetaSim
/-!
PO versus MO: what `ctx.is_binary` can change in the output of the pipeline.
-/
namespace I18n.Meta
open I18n.Check

variable {κ τ : Type}

/-- the documented format-specific diagnostic: `no-date-header-field POT-Creation-Date` -/
def isExempt : PTag τ → Bool
  | .noDate true => true
  | _ => false

def notExempt (t : PTag τ) : Bool := !isExempt t

/-- additionally ignore `empty-file` (for files whose revision may hide strings) -/
def notExemptNorEmpty : PTag τ → Bool
  | .noDate true => false
  | .emptyFile => false
  | _ => true

theorem filter_notExempt_map_other (l : List τ) : (l.map PTag.other).filter notExempt = l.map PTag.other := by
  induction l with
  | nil => rfl
  | cons t ts ih => simp [notExempt, isExempt, ih]

/-! ### `check_dates` -/

theorem checkDatesField_po (b : Bool) (dedup : List Text → List Text) (perDate : Bool → Text → List τ) (dates : List Text) :
    checkDatesField b dedup perDate false dates = checkDatesField false dedup perDate false dates := by
  unfold checkDatesField
  simp

theorem checkDatesField_pot_nonempty (b : Bool) (dedup : List Text → List Text) (perDate : Bool → Text → List τ)
    (dates : List Text) (h : dates ≠ []) :
    checkDatesField b dedup perDate true dates = checkDatesField false dedup perDate true dates := by
  unfold checkDatesField
  have : dates.length ≠ 0 := by intro h0; exact h (List.length_eq_zero_iff.mp h0)
  simp [this]

theorem filter_notExempt_field (dedup : List Text → List Text) (perDate : Bool → Text → List τ) (pot : Bool) (dates : List Text) :
    (checkDatesField false dedup perDate pot dates).filter notExempt
      = checkDatesField true dedup perDate pot dates := by
  unfold checkDatesField
  by_cases h1 : dates.length > 1
  · simp only [h1, if_true, List.filter_cons, notExempt, isExempt, Bool.not_false, filter_notExempt_map_other]
  · simp only [h1, if_false]
    by_cases h0 : dates.length = 0
    · cases pot <;> simp [h0, notExempt, isExempt]
    · simp only [h0, if_false]
      exact filter_notExempt_map_other _

/-- **`check_dates`, binary versus text**: the MO run prints exactly the PO run's tags minus
    `no-date-header-field POT-Creation-Date` -/
theorem checkDates_binary (dedup : List Text → List Text) (perDate : Bool → Text → List τ) (potDates poDates : List Text) :
    checkDates true dedup perDate potDates poDates
      = (checkDates false dedup perDate potDates poDates).filter notExempt := by
  unfold checkDates
  rw [List.filter_append, filter_notExempt_field, filter_notExempt_field]

/-- the exempted tag is emitted for a text file iff the field is missing; never for a binary file -/
theorem exempt_mem_iff (b : Bool) (dedup : List Text → List Text) (perDate : Bool → Text → List τ) (potDates poDates : List Text) :
    PTag.noDate true ∈ checkDates b dedup perDate potDates poDates ↔ (b = false ∧ potDates = []) := by
  unfold checkDates checkDatesField
  by_cases h1 : potDates.length > 1
  · have hne : potDates ≠ [] := by intro h; simp [h] at h1
    by_cases h2 : poDates.length > 1 <;> by_cases h3 : poDates.length = 0 <;> simp [h1, h2, h3, hne]
  · by_cases h0 : potDates.length = 0
    · have he : potDates = [] := List.length_eq_zero_iff.mp h0
      subst he
      by_cases h2 : poDates.length > 1 <;> by_cases h3 : poDates.length = 0 <;> cases b <;> simp [h2, h3]
    · have hne : potDates ≠ [] := by intro h; simp [h] at h0
      by_cases h2 : poDates.length > 1 <;> by_cases h3 : poDates.length = 0 <;> simp [h1, h0, h2, h3, hne]

/-! ### the `empty-file` gate -/

theorem emptyFileGate_text (hidden : Bool) (counted : Nat) :
    emptyFileGate (τ := τ) false hidden counted = emptyFileGate true false counted := by
  unfold emptyFileGate
  simp

theorem emptyFileGate_binary_eq (hidden : Bool) (counted : Nat) (h : hidden = false ∨ counted ≠ 0) :
    emptyFileGate (τ := τ) true hidden counted = emptyFileGate false false counted := by
  unfold emptyFileGate
  rcases h with h | h
  · subst h; simp
  · simp [h]

/-! ### the stages -/

/-- the two runs being compared: an MO file (first) and a PO file (second) with the same `ctx` otherwise -/
def BinRel (hiddenOk : Bool) (s s' : BinFlags × κ) : Prop :=
  s.1.isBinary = true ∧ s'.1.isBinary = false ∧ s.2 = s'.2 ∧ (hiddenOk = true → s.1.hidden = false)

theorem blind_respects (hiddenOk : Bool) (keep : PTag τ → Bool) (f : Blind κ τ) :
    Respects (BinRel hiddenOk) keep (blind f) (blind f) := by
  intro s s' ⟨h1, h2, h3, h4⟩
  simp only [blind]
  rw [h3]
  exact ⟨⟨h1, h2, rfl, h4⟩, rfl, rfl⟩

theorem dates_respects (hiddenOk : Bool) (p : Parts κ τ) :
    Respects (BinRel hiddenOk) notExempt (datesStage p) (datesStage p) := by
  intro s s' ⟨h1, h2, h3, h4⟩
  refine ⟨⟨h1, h2, h3, h4⟩, ?_, rfl⟩
  simp only [datesStage, h1, h2, h3]
  rw [checkDates_binary, List.filter_filter]
  simp

theorem messages_respects (p : Parts κ τ) :
    Respects (BinRel true) notExempt (messagesStage p) (messagesStage p) := by
  intro s s' ⟨h1, h2, h3, h4⟩
  have hh := h4 rfl
  simp only [messagesStage, h3]
  split
  · exact ⟨⟨h1, h2, h3, h4⟩, rfl, rfl⟩
  · refine ⟨⟨h1, h2, h3, h4⟩, ?_, rfl⟩
    rw [h1, h2, hh, emptyFileGate_text]

theorem filter_nen_map_other (l : List τ) : (l.map PTag.other).filter notExemptNorEmpty = l.map PTag.other := by
  induction l with
  | nil => rfl
  | cons t ts ih => simp [List.filter_cons, notExemptNorEmpty, ih]

theorem filter_nen_gate (b h : Bool) (n : Nat) : (emptyFileGate (τ := τ) b h n).filter notExemptNorEmpty = [] := by
  unfold emptyFileGate
  split
  · simp only
    split <;> simp [notExemptNorEmpty]
  · rfl

theorem messages_respects_any (p : Parts κ τ) :
    Respects (BinRel false) notExemptNorEmpty (messagesStage p) (messagesStage p) := by
  intro s s' ⟨h1, h2, h3, h4⟩
  simp only [messagesStage, h3]
  split
  · exact ⟨⟨h1, h2, h3, h4⟩, rfl, rfl⟩
  · refine ⟨⟨h1, h2, h3, h4⟩, ?_, rfl⟩
    simp only [List.filter_append, filter_nen_gate]

theorem filter_nen_of_notExempt {l1 l2 : List (PTag τ)} (h : l1.filter notExempt = l2.filter notExempt) :
    l1.filter notExemptNorEmpty = l2.filter notExemptNorEmpty := by
  have key : ∀ l : List (PTag τ), l.filter notExemptNorEmpty = (l.filter notExempt).filter notExemptNorEmpty := by
    intro l
    rw [List.filter_filter]
    congr 1
    funext t
    cases t with
    | noDate pot => cases pot <;> rfl
    | _ => rfl
  rw [key l1, key l2, h]

theorem respects_weaken {σ₁ σ₂ : Type} (R : σ₁ → σ₂ → Prop) (st1 : Stage σ₁ (PTag τ)) (st2 : Stage σ₂ (PTag τ))
    (h : Respects R notExempt st1 st2) : Respects R notExemptNorEmpty st1 st2 := by
  intro s s' hR
  obtain ⟨a, b, c⟩ := h s s' hR
  exact ⟨a, filter_nen_of_notExempt b, c⟩

/-- the pipeline respects the PO/MO relation up to the exemption, when the MO file's revision hides nothing -/
theorem pipeline_respects (p : Parts κ τ) : RespectsAll (BinRel true) notExempt (pipeline p) (pipeline p) := by
  unfold pipeline
  refine .cons (blind_respects _ _ _) <| .cons (blind_respects _ _ _) <| .cons (blind_respects _ _ _) <|
    .cons (blind_respects _ _ _) <| .cons (blind_respects _ _ _) <| .cons (blind_respects _ _ _) <|
    .cons (dates_respects _ p) <| .cons (blind_respects _ _ _) <| .cons (blind_respects _ _ _) <|
    .cons (messages_respects p) .nil

/-- … and up to the exemption and `empty-file` in general -/
theorem pipeline_respects_any (p : Parts κ τ) : RespectsAll (BinRel false) notExemptNorEmpty (pipeline p) (pipeline p) := by
  unfold pipeline
  refine .cons (blind_respects _ _ _) <| .cons (blind_respects _ _ _) <| .cons (blind_respects _ _ _) <|
    .cons (blind_respects _ _ _) <| .cons (blind_respects _ _ _) <| .cons (blind_respects _ _ _) <|
    .cons (respects_weaken _ _ _ (dates_respects _ p)) <| .cons (blind_respects _ _ _) <| .cons (blind_respects _ _ _) <|
    .cons (messages_respects_any p) .nil

/-! ### a binary run never prints the exempted tag -/

/-- a stage keeps the flags and, on a binary file, does not print the exempted tag -/
def Clean (st : Stage (BinFlags × κ) (PTag τ)) : Prop :=
  ∀ s, (st s).1.1 = s.1 ∧ (s.1.isBinary = true → PTag.noDate true ∉ (st s).2.1)

theorem blind_clean (f : Blind κ τ) : Clean (blind f) := by
  intro s
  refine ⟨rfl, fun _ => ?_⟩
  simp [blind]

theorem dates_clean (p : Parts κ τ) : Clean (datesStage p) := by
  intro s
  refine ⟨rfl, fun hb => ?_⟩
  simp only [datesStage, hb]
  intro hm
  have := (exempt_mem_iff true p.dedup (p.perDate s.2) (p.potDates s.2) (p.poDates s.2)).mp hm
  exact absurd this.1 (by decide)

theorem gate_no_exempt (b h : Bool) (n : Nat) : PTag.noDate true ∉ emptyFileGate (τ := τ) b h n := by
  unfold emptyFileGate
  split
  · simp only
    split <;> simp
  · simp

theorem messages_clean (p : Parts κ τ) : Clean (messagesStage p) := by
  intro s
  simp only [messagesStage]
  split
  · exact ⟨rfl, fun _ => by simp⟩
  · refine ⟨rfl, fun _ => ?_⟩
    simp only [List.mem_append, not_or]
    exact ⟨by simp, gate_no_exempt _ _ _⟩

theorem runStages_clean (l : List (Stage (BinFlags × κ) (PTag τ))) (h : ∀ st ∈ l, Clean st) (s : BinFlags × κ)
    (hb : s.1.isBinary = true) : PTag.noDate true ∉ (runStages l s).1 := by
  induction l generalizing s with
  | nil => simp [runStages]
  | cons st rest ih =>
    obtain ⟨h1, h2⟩ := h st (by simp) s
    unfold runStages
    rcases hst : st s with ⟨s1, o1, r1⟩
    rw [hst] at h1 h2
    simp only at h1 h2
    cases r1 with
    | true => exact h2 hb
    | false =>
      simp only [List.mem_append, not_or]
      exact ⟨h2 hb, ih (fun st' hm => h st' (List.mem_cons_of_mem _ hm)) s1 (by rw [h1]; exact hb)⟩

theorem pipeline_clean (p : Parts κ τ) : ∀ st ∈ pipeline p, Clean st := by
  intro st hm
  simp only [pipeline, List.mem_cons, List.not_mem_nil, or_false] at hm
  rcases hm with rfl | rfl | rfl | rfl | rfl | rfl | rfl | rfl | rfl | rfl
  all_goals first | exact blind_clean _ | exact dates_clean p | exact messages_clean p

theorem filter_notExempt_eq_self (l : List (PTag τ)) (h : PTag.noDate true ∉ l) : l.filter notExempt = l := by
  apply List.filter_eq_self.mpr
  intro t ht
  cases t with
  | noDate pot => cases pot with
    | true => exact absurd ht h
    | false => rfl
  | _ => rfl

end I18n.Meta
