import I18n.Lemmas.CFmtParse
/-!
# Helpers for Props/C11: warnings on/off transfer, and the witness for the `int()` digit limit
-/
namespace I18n.CFmt
open I18n I18n.Spec.Printf
open I18n.Generated

set_option maxRecDepth 100000

theorem allValid_valid {items : List Item} (h : AllValid items) : ∀ d ∈ dirs items, ValidDirective d :=
  fun d hd => (h d hd).2

/-- from the model with warnings on to the model with warnings off -/
theorem parse_false_of_ok {s : List Char} {r : Result} (h : parse s = .ok r) :
    ∃ r', parseW false s = .ok r' ∧ r'.arguments = r.arguments := by
  have := parseW_arguments true s
  unfold parse at h
  rw [h] at this
  cases h2 : parseW false s with
  | error e => rw [h2] at this; cases this
  | ok r' =>
    rw [h2] at this
    simp only [map_ok, Except.ok.injEq] at this
    exact ⟨r', rfl, this.symm⟩

theorem parse_of_false_ok {s : List Char} {r' : Result} (h : parseW false s = .ok r') :
    ∃ r, parse s = .ok r ∧ r.arguments = r'.arguments := by
  have := parseW_arguments true s
  rw [h] at this
  unfold parse
  cases h2 : parseW true s with
  | error e => rw [h2] at this; cases this
  | ok r =>
    rw [h2] at this
    simp only [map_ok, Except.ok.injEq] at this
    exact ⟨r, rfl, this⟩

/-- `%.<zs>d` — for `zs` a string of zeros a valid directive (precision 0) -/
def zeroPrec (zs : List Char) : Directive :=
  { index := none, flags := [], width := .none, prec := .num zs, body := .std none 'd' }

theorem decimal_zeros : ∀ (zs : List Char), (∀ c ∈ zs, c = '0') → decimal zs = 0 := by
  intro zs
  unfold decimal
  induction zs with
  | nil => intro _; rfl
  | cons z zs ih =>
    intro h
    have hz : z = '0' := h z (by simp)
    subst hz
    simp only [List.foldl_cons]
    exact ih (fun c hc => h c (by simp [hc]))

theorem zeroPrec_valid {zs : List Char} (hz : ∀ c ∈ zs, c = '0') : Valid [.dir (zeroPrec zs)] := by
  have hwf : (zeroPrec zs).Wf :=
    ⟨trivial, by simp [zeroPrec], trivial, fun c hc => by rw [hz c hc]; decide, (by show 'd' ∈ convChars; decide)⟩
  refine ⟨⟨hwf, trivial⟩, ?_, ?_⟩
  · intro d hd
    simp only [dirs, List.mem_singleton] at hd
    subst hd
    refine ⟨hwf, (by show stdType none 'd' ≠ none; decide), by simp [zeroPrec], trivial, ?_, trivial, by simp [zeroPrec]⟩
    exact ⟨by show decimal zs ≤ INT_MAX; rw [decimal_zeros zs hz]; decide, (by show 'd' ∈ precConvs; decide)⟩
  · have hr : refs [.dir (zeroPrec zs)] = [⟨none, ⟨.conv, "int", 0⟩⟩] := by
      show refsFrom 0 [.dir (zeroPrec zs)] = _
      simp only [refsFrom, Directive.refs, zeroPrec, Body.conv, List.append_nil, List.nil_append]
      have : ('d' ∈ consuming) := by decide
      simp only [this, if_true, idxValue]
      rfl
    rw [hr]
    refine ⟨Or.inl (by simp), by decide, ⟨1, fun j => ?_⟩, ?_⟩
    · simp only [positions, positionsFrom, List.mem_singleton, Prod.mk.injEq]
      constructor
      · rintro ⟨e, rfl, _⟩; omega
      · intro h; exact ⟨_, by omega, rfl⟩
    · intro j e e' h h'
      simp only [positions, positionsFrom, List.mem_singleton, Prod.mk.injEq] at h h'
      rw [h.2, h'.2]

/-- 4301 zeros -/
def witness : List Char := render [.dir (zeroPrec (List.replicate 4301 '0'))]

theorem witness_zeros : ∀ c ∈ List.replicate 4301 '0', c = '0' := fun _ hc => (List.mem_replicate.1 hc).2

theorem witness_valid : Valid [.dir (zeroPrec (List.replicate 4301 '0'))] := zeroPrec_valid witness_zeros

end I18n.CFmt
