import I18n.Model.Meta
/-!
The "reported once per file" loop: WHAT is reported does not depend on the order of the messages, WHO is blamed does.
-/
namespace I18n.Meta

variable {μ : Type}

theorem blameStrings_spec (m : μ) (cands : List (List Char)) (found : List Char) (c : Char) :
    ((c ∈ (blameStrings m found cands).1.flatMap (·.2) ∨ c ∈ found) ↔ (c ∈ found ∨ ∃ s ∈ cands, c ∈ s)) ∧
    (c ∈ (blameStrings m found cands).2 ↔ (c ∈ found ∨ ∃ s ∈ cands, c ∈ s)) ∧
    (c ∈ (blameStrings m found cands).1.flatMap (·.2) → c ∉ found) := by
  induction cands generalizing found with
  | nil => simp [blameStrings]
  | cons s rest ih =>
    unfold blameStrings
    simp only
    by_cases hc : c ∈ found
    · split
      · obtain ⟨i1, i2, i3⟩ := ih found
        exact ⟨by simp [hc], by rw [i2]; simp [hc], fun h => absurd hc (i3 h)⟩
      · obtain ⟨i1, i2, i3⟩ := ih (found ++ s.filter (fun c => !found.contains c))
        refine ⟨by simp [hc], by rw [i2]; simp [hc], ?_⟩
        intro h
        simp only [List.flatMap_cons, List.mem_append, List.mem_filter] at h
        rcases h with h | h
        · simp [hc] at h
        · exact absurd (List.mem_append_left _ hc) (i3 h)
    · split
      · rename_i he
        have hs : c ∉ s := by
          intro h
          have : c ∈ s.filter (fun c => !found.contains c) := List.mem_filter.mpr ⟨h, by simp [hc]⟩
          rw [List.isEmpty_iff.mp he] at this
          cases this
        obtain ⟨i1, i2, i3⟩ := ih found
        refine ⟨?_, ?_, i3⟩
        · rw [i1]; simp [hs]
        · rw [i2]; simp [hs]
      · obtain ⟨i1, i2, i3⟩ := ih (found ++ s.filter (fun c => !found.contains c))
        simp only [List.flatMap_cons, List.mem_append, List.mem_filter, List.mem_cons, exists_eq_or_imp] at i1 i2 i3 ⊢
        refine ⟨?_, ?_, fun _ => hc⟩
        · constructor
          · rintro ((⟨h, -⟩ | h) | h)
            · exact Or.inr (Or.inl h)
            · rcases i1.mp (Or.inl h) with (h' | ⟨h', -⟩) | h'
              · exact Or.inl h'
              · exact Or.inr (Or.inl h')
              · exact Or.inr (Or.inr h')
            · exact absurd h hc
          · rintro (h | h | h)
            · exact absurd h hc
            · exact Or.inl (Or.inl ⟨h, by simp [hc]⟩)
            · rcases i1.mpr (Or.inr h) with h' | h' | ⟨h', -⟩
              · exact Or.inl (Or.inr h')
              · exact absurd h' hc
              · exact Or.inl (Or.inl ⟨h', by simp [hc]⟩)
        · rw [i2]
          constructor
          · rintro ((h | ⟨h, -⟩) | h)
            · exact Or.inl h
            · exact Or.inr (Or.inl h)
            · exact Or.inr (Or.inr h)
          · rintro (h | h | h)
            · exact Or.inl (Or.inl h)
            · exact Or.inl (Or.inr ⟨h, by simp [hc]⟩)
            · exact Or.inr h

/-- the characters reported for the whole file: every candidate not known before, each exactly under some message -/
theorem blame_chars (msgs : List (μ × List (List Char))) (found : List Char) (c : Char) :
    c ∈ (blame found msgs).flatMap (·.2) ↔ (c ∉ found ∧ ∃ m ∈ msgs, ∃ s ∈ m.2, c ∈ s) := by
  induction msgs generalizing found with
  | nil => simp [blame]
  | cons m rest ih =>
    obtain ⟨m, cands⟩ := m
    unfold blame
    simp only [List.flatMap_append, List.mem_append, List.mem_cons, exists_eq_or_imp]
    obtain ⟨s1, s2, s3⟩ := blameStrings_spec m cands found c
    rw [ih]
    constructor
    · rintro (h | ⟨h1, h2⟩)
      · have := s1.mp (Or.inl h)
        exact ⟨s3 h, Or.inl (this.resolve_left (s3 h))⟩
      · have hf : c ∉ found := fun hf => h1 (s2.mpr (Or.inl hf))
        exact ⟨hf, Or.inr h2⟩
    · rintro ⟨hf, h | h⟩
      · exact Or.inl ((s1.mpr (Or.inr h)).resolve_right hf)
      · by_cases hin : c ∈ (blameStrings m found cands).2
        · have := s2.mp hin
          exact Or.inl ((s1.mpr this).resolve_right hf)
        · exact Or.inr ⟨hin, h⟩

end I18n.Meta
