import I18n.Lemmas.CharsetIconv
/-!
# C20: the retry loop of `_encode_dl` / `_decode_dl` — the exact doubling schedule, a logarithmic round bound, the buffer bound,
# and what happens to a loop that stops doubling
-/
namespace I18n.Charset

/-! ## the schedule: round `i` is told `L · 2^i` bytes — for EVERY iconv -/

theorem encodeLoop_schedule (step : Step) (n : Nat) : ∀ (fuel L i : Nat) (a : Alloc),
    (encodeLoop step n fuel L).2[i]? = some a → a.told = L * 2 ^ i ∧ a.allocated = L * 2 ^ i := by
  intro fuel
  induction fuel with
  | zero => intro L i a h; simp [encodeLoop] at h
  | succ fuel ih =>
    intro L i a h
    simp only [encodeLoop] at h
    split at h
    · simp at h
    · split at h
      · cases i with
        | zero => simp at h; subst h; simp
        | succ i =>
          simp only [List.getElem?_cons_succ] at h
          have := ih (L * 2) i a h
          rw [Nat.pow_succ, Nat.mul_comm (2 ^ i) 2, ← Nat.mul_assoc]
          exact this
      all_goals (try (split at h)) <;>
        (cases i with
          | zero => simp at h; subst h; simp
          | succ i => simp at h)

theorem decodeLoop_schedule (step : Step) (input : List UInt8) : ∀ (fuel L i : Nat) (a : Alloc),
    (decodeLoop step input fuel L).2[i]? = some a → a.told = L * 2 ^ i ∧ a.allocated = 4 * (L * 2 ^ i) := by
  intro fuel
  induction fuel with
  | zero => intro L i a h; simp [decodeLoop] at h
  | succ fuel ih =>
    intro L i a h
    simp only [decodeLoop] at h
    split at h
    · simp at h
    · split at h
      · cases i with
        | zero => simp at h; subst h; simp
        | succ i =>
          simp only [List.getElem?_cons_succ] at h
          have := ih (L * 2) i a h
          rw [Nat.pow_succ, Nat.mul_comm (2 ^ i) 2, ← Nat.mul_assoc]
          exact this
      all_goals (try (split at h)) <;> (try (split at h)) <;> (try (split at h)) <;>
        (cases i with
          | zero => simp at h; subst h; simp
          | succ i => simp at h)

/-! ## rounds: at most `k + 1` when `L · 2^k` bytes are enough — i.e. `⌈log2 (need / L)⌉ + 1` -/

theorem encodeLoop_rounds (step : Step) (n need : Nat)
    (hb : ∀ told, need ≤ told → (step told).reset = none → (callBoth (4 * n) told (step told)).rc ≠ .e2big) :
    ∀ (fuel L k : Nat), need ≤ L * 2 ^ k →
      (encodeLoop step n fuel L).2.length ≤ k + 1 ∧ (k < fuel → (encodeLoop step n fuel L).1.finished = true) := by
  intro fuel
  induction fuel with
  | zero => intro L k _; simp [encodeLoop]
  | succ fuel ih =>
    intro L k hk
    simp only [encodeLoop]
    split
    · simp [Outcome.finished]
    · rename_i hreset
      split
      · rename_i hrc
        have hnot : ¬ need ≤ L := fun h => hb L h hreset hrc
        cases k with
        | zero => simp at hk; omega
        | succ k =>
          have hk' : need ≤ L * 2 * 2 ^ k := by
            rw [Nat.pow_succ, Nat.mul_comm (2 ^ k) 2, ← Nat.mul_assoc] at hk; exact hk
          have := ih (L * 2) k hk'
          refine ⟨by simp only [List.length_cons]; omega, fun hf => ?_⟩
          exact this.2 (by omega)
      all_goals (try split) <;> simp [Outcome.finished]

theorem decodeLoop_rounds (step : Step) (input : List UInt8) (need : Nat)
    (hb : ∀ told, need ≤ told → (step told).reset = none → (callBoth input.length told (step told)).rc ≠ .e2big) :
    ∀ (fuel L k : Nat), need ≤ L * 2 ^ k →
      (decodeLoop step input fuel L).2.length ≤ k + 1 ∧ (k < fuel → (decodeLoop step input fuel L).1.finished = true) := by
  intro fuel
  induction fuel with
  | zero => intro L k _; simp [decodeLoop]
  | succ fuel ih =>
    intro L k hk
    simp only [decodeLoop]
    split
    · simp [Outcome.finished]
    · rename_i hreset
      split
      · rename_i hrc
        have hnot : ¬ need ≤ L := fun h => hb L h hreset hrc
        cases k with
        | zero => simp at hk; omega
        | succ k =>
          have hk' : need ≤ L * 2 * 2 ^ k := by
            rw [Nat.pow_succ, Nat.mul_comm (2 ^ k) 2, ← Nat.mul_assoc] at hk; exact hk
          have := ih (L * 2) k hk'
          refine ⟨by simp only [List.length_cons]; omega, fun hf => ?_⟩
          exact this.2 (by omega)
      all_goals (try split) <;> (try split) <;> (try split) <;> simp [Outcome.finished]

/-! ## the buffer: an iconv that answers E2BIG only when told less than `need` is never told `2 · need` or more (after round 0) -/

theorem encodeLoop_buffer (step : Step) (n need : Nat)
    (he : ∀ told, (step told).reset = none → (callBoth (4 * n) told (step told)).rc = .e2big → told < need) :
    ∀ (fuel L : Nat), ∀ a ∈ (encodeLoop step n fuel L).2, a.told = L ∨ a.told < 2 * need := by
  intro fuel
  induction fuel with
  | zero => intro L a ha; simp [encodeLoop] at ha
  | succ fuel ih =>
    intro L a ha
    simp only [encodeLoop] at ha
    split at ha
    · simp at ha
    · rename_i hreset
      split at ha
      · rename_i hrc
        have hlt := he L hreset hrc
        simp only [List.mem_cons] at ha
        rcases ha with rfl | ha
        · exact .inl rfl
        · rcases ih (L * 2) a ha with h | h
          · exact .inr (by omega)
          · exact .inr h
      all_goals (try (split at ha)) <;>
        (simp only [List.mem_singleton] at ha; subst ha; exact .inl rfl)

theorem decodeLoop_buffer (step : Step) (input : List UInt8) (need : Nat)
    (he : ∀ told, (step told).reset = none → (callBoth input.length told (step told)).rc = .e2big → told < need) :
    ∀ (fuel L : Nat), ∀ a ∈ (decodeLoop step input fuel L).2, a.told = L ∨ a.told < 2 * need := by
  intro fuel
  induction fuel with
  | zero => intro L a ha; simp [decodeLoop] at ha
  | succ fuel ih =>
    intro L a ha
    simp only [decodeLoop] at ha
    split at ha
    · simp at ha
    · rename_i hreset
      split at ha
      · rename_i hrc
        have hlt := he L hreset hrc
        simp only [List.mem_cons] at ha
        rcases ha with rfl | ha
        · exact .inl rfl
        · rcases ih (L * 2) a ha with h | h
          · exact .inr (by omega)
          · exact .inr h
      all_goals (try (split at ha)) <;> (try (split at ha)) <;> (try (split at ha)) <;>
        (simp only [List.mem_singleton] at ha; subst ha; exact .inl rfl)

/-! ## a loop that stops doubling -/

/-- `_encode_dl` with the growth step as a parameter: `grow L` is the next `output_len` after E2BIG -/
def encodeLoopG (grow : Nat → Nat) (step : Step) (n : Nat) : Nat → Nat → Outcome (List UInt8) × List Alloc
  | 0, _ => (.outOfFuel, [])
  | fuel + 1, outputLen =>
    let a : Alloc := ⟨outputLen, outputLen⟩
    let r := step outputLen
    match r.reset with
    | some errno => (.osError errno, [])
    | none =>
      let c := callBoth (4 * n) outputLen r
      match c.rc with
      | .e2big =>
        let (o, tr) := encodeLoopG grow step n fuel (grow outputLen)
        (o, a :: tr)
      | .eilseq | .einval =>
        let start := n - c.inLeft / 4
        (.unicodeError start (start + 1), [a])
      | .other errno => (.osError errno, [a])
      | .ok =>
        if c.inLeft ≠ 0 then (.assertion, [a])
        else
          let produced := outputLen - c.outLeft
          (.ok ((c.buf ++ List.replicate (outputLen - c.buf.length) 0).take produced), [a])

/-- with `output_len *= 2` it is the model of the code -/
theorem encodeLoopG_double (step : Step) (n : Nat) : ∀ fuel L, encodeLoopG (· * 2) step n fuel L = encodeLoop step n fuel L := by
  intro fuel
  induction fuel with
  | zero => intro L; rfl
  | succ fuel ih =>
    intro L
    simp only [encodeLoopG, encodeLoop, ih]
    cases (step L).reset with
    | some e => rfl
    | none => cases (callBoth (4 * n) L (step L)).rc <;> rfl

/-- a contract-abiding iconv: one character that needs three bytes (U+20AC as UTF-8), E2BIG below three bytes of room -/
def euroStep : Step := fun told =>
  if told < 3 then ⟨none, ⟨.e2big, 0, []⟩, ⟨.ok, 0, []⟩⟩ else ⟨none, ⟨.ok, 4, [0xE2, 0x82, 0xAC]⟩, ⟨.ok, 0, []⟩⟩

theorem euroStep_contract : ConvertsTo euroStep (4 * 1) [0xE2, 0x82, 0xAC] 3 where
  fits := by decide
  small := by intro told h; simp [euroStep, h, callBoth]
  big := by
    intro told h
    have : ¬ told < 3 := by omega
    simp [euroStep, this, callBoth]

/-- `output_len = 2 * len(input)` instead of `output_len *= 2`: against that iconv the loop is told 1, 2, 2, 2, … bytes for ever -/
theorem stuck_loop_never_ends : ∀ fuel L, L ≤ 2 → (encodeLoopG (fun _ => 2 * 1) euroStep 1 fuel L).1 = .outOfFuel := by
  intro fuel
  induction fuel with
  | zero => intro L _; rfl
  | succ fuel ih =>
    intro L hL
    have hlt : L < 3 := by omega
    have h2 := ih (2 * 1) (by omega)
    have hs : euroStep L = ⟨none, ⟨.e2big, 0, []⟩, ⟨.ok, 0, []⟩⟩ := by simp [euroStep, hlt]
    simp only [encodeLoopG, hs, callBoth, h2]

end I18n.Charset
